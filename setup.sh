#!/bin/sh
# Build the framework from files on disk only (offline): Lean library + theorems + model executable, Rust harness.
set -e
cd "$(dirname "$0")"
export CARGO_NET_OFFLINE=true
# model library, executable model, and every property module of the quick tier (C07Big is thorough-only)
(cd lean && lake build LdpcV vmodel $(ls LdpcV/Props/*.lean | grep -v C07Big | sed 's#/#.#g; s#\.lean$##'))
(cd harness && cargo build --offline)
# the command-line binary for C20, from /repo's working tree into the harness target directory
cargo build --release --offline --manifest-path /repo/Cargo.toml --bin ldpc-toolbox --target-dir harness/target/repo
mkdir -p work evidence replays
echo "setup done"
