#!/bin/sh
# Build the framework from files on disk only (offline): Lean library + theorems + model executable, Rust harness.
set -e
cd "$(dirname "$0")"
export CARGO_NET_OFFLINE=true
(cd lean && lake build)
(cd harness && cargo build --offline)
mkdir -p work evidence replays
echo "setup done"
