import LdpcV.Model.Sparse
import LdpcV.Model.Blocks
import LdpcV.Model.Proto
