/-
Model of `src/simulation/modulation.rs` (C14), generic over the scalar record `Sc α`.  Core only.
-/
import LdpcV.Model.Scalar
namespace LdpcV.Modulation

variable {α : Type}

/-- `BpskModulator::modulate_bit`: bit 0 ↦ -1, bit 1 ↦ +1 -/
def bpskMod (S : Sc α) (bit : Bool) : α := if bit then S.rat 1 1 else S.rat (-1) 1

/-- `BpskDemodulator`: `scale = -2 / σ²`, LLR = `scale · r` -/
def bpskDemod (S : Sc α) (sigma r : α) : α := S.mul (S.div (S.rat (-2) 1) (S.mul sigma sigma)) r

/-- `Psk8Modulator::modulate_bits(b0, b1, b2)` -/
def psk8Mod (S : Sc α) (b0 b1 b2 : Bool) : α × α :=
  let a := S.sqrt (S.rat 1 2)
  let na := S.neg a
  let z := S.rat 0 1
  let o := S.rat 1 1
  let no := S.rat (-1) 1
  match b0, b1, b2 with
  | false, false, false => (a, a)
  | true, false, false => (z, o)
  | true, true, false => (na, a)
  | false, true, false => (no, z)
  | false, true, true => (na, na)
  | true, true, true => (z, no)
  | true, false, true => (a, na)
  | false, false, true => (o, z)

def dot (S : Sc α) (a b : α × α) : α := S.add (S.mul a.1 b.1) (S.mul a.2 b.2)

/-- `maxstar(a, b) = max(a, b) + ln_1p(exp(-|a - b|))` -/
def maxstar (S : Sc α) (a b : α) : α := S.add (S.max a b) (S.log1p (S.exp (S.neg (S.abs (S.sub a b)))))

/-- `[x0, x1, x2, x3].into_iter().reduce(maxstar)` -/
def maxstar4 (S : Sc α) (x0 x1 x2 x3 : α) : α := maxstar S (maxstar S (maxstar S x0 x1) x2) x3

/-- `Psk8Demodulator::demodulate_symbol`: the three LLRs of one received symbol -/
def psk8Demod (S : Sc α) (sigma : α) (r : α × α) : α × α × α :=
  let scale := S.div (S.rat 1 1) (S.mul sigma sigma)
  let sym := (S.mul r.1 scale, S.mul r.2 scale)
  let d (b0 b1 b2 : Bool) : α := dot S sym (psk8Mod S b0 b1 b2)
  let d000 := d false false false; let d100 := d true false false; let d110 := d true true false
  let d010 := d false true false; let d011 := d false true true; let d111 := d true true true
  let d101 := d true false true; let d001 := d false false true
  (S.sub (maxstar4 S d000 d001 d010 d011) (maxstar4 S d100 d101 d110 d111),
   S.sub (maxstar4 S d000 d001 d100 d101) (maxstar4 S d010 d011 d110 d111),
   S.sub (maxstar4 S d000 d010 d100 d110) (maxstar4 S d001 d011 d101 d111))

/-- `Psk8Modulator::modulate`: bits in groups of three; `none` = panic (length not divisible by 3) -/
def psk8ModAll (S : Sc α) : List Bool → Option (List (α × α))
  | [] => some []
  | b0 :: b1 :: b2 :: rest => (psk8ModAll S rest).map (fun t => psk8Mod S b0 b1 b2 :: t)
  | _ => none

def psk8DemodAll (S : Sc α) (sigma : α) (syms : List (α × α)) : List α :=
  syms.flatMap (fun r => let t := psk8Demod S sigma r; [t.1, t.2.1, t.2.2])

/-- `noise_sigma` of `BerTest::do_run`: `Eb/N0 = 10^(0.1 dB)`, `Es/N0 = rate · bits/symbol · Eb/N0`, `σ = sqrt(0.5 / EsN0)` -/
def noiseSigma (S : Sc α) (ebn0Db rate bitsPerSymbol : α) : α :=
  let ebn0 := S.exp (S.mul (S.mul (S.rat 1 10) ebn0Db) (S.log (S.rat 10 1)))     -- 10^(0.1·dB)
  S.sqrt (S.div (S.rat 1 2) (S.mul (S.mul rate bitsPerSymbol) ebn0))

end LdpcV.Modulation
