/-
Model of the statistics accumulation of `src/simulation/ber.rs` (C13): `CurrentStatistics`,
the consumption loop of `do_run` and the derived ratios.  Core only.
-/
namespace LdpcV.Ber

/-- `WorkerResultOk` -/
structure Frame where
  bitErrors : Nat
  frameError : Bool
  falseDecode : Bool
  iterations : Nat
deriving Repr, DecidableEq

/-- `CurrentCodeStatistics` -/
structure CodeStats where
  bitErrors : Nat := 0
  frameErrors : Nat := 0
  correctIterations : Nat := 0
deriving Repr, DecidableEq

/-- `CurrentStatistics` (without the wall-clock start time) -/
structure Cur where
  numFrames : Nat := 0
  falseDecodes : Nat := 0
  totalIterations : Nat := 0
  ldpc : CodeStats := {}
  bch : Option CodeStats := none
deriving Repr, DecidableEq

/-- `CurrentStatistics::new(has_bch)` with `has_bch = bch_max_errors > 0` -/
def Cur.new (bchMax : Nat) : Cur := { bch := if bchMax > 0 then some {} else none }

/-- the body of `Ok(result) => { … }` in `do_run` -/
def Cur.step (bchMax : Nat) (c : Cur) (f : Frame) : Cur :=
  { numFrames := c.numFrames + 1
    falseDecodes := c.falseDecodes + (if f.falseDecode then 1 else 0)
    totalIterations := c.totalIterations + f.iterations
    ldpc := { bitErrors := c.ldpc.bitErrors + f.bitErrors
              frameErrors := c.ldpc.frameErrors + (if f.frameError then 1 else 0)
              correctIterations := c.ldpc.correctIterations + (if f.frameError then 0 else f.iterations) }
    bch := c.bch.map (fun b =>
      if f.bitErrors > bchMax then
        { b with bitErrors := b.bitErrors + f.bitErrors, frameErrors := b.frameErrors + 1 }
      else { b with correctIterations := b.correctIterations + f.iterations }) }

/-- `errors_for_termination` -/
def Cur.errors (c : Cur) : Nat := match c.bch with
  | some b => b.frameErrors
  | none => c.ldpc.frameErrors

/-- the `while errors < max_frame_errors { match recv() … }` loop over the arrival sequence
(`none` = a worker reported an error / the channel closed): returns the final counters, the
consumed prefix and whether the loop was left through the error branch -/
def collect (target bchMax : Nat) : Cur → List (Option Frame) → Cur × List Frame × Bool
  | c, [] => (c, [], false)
  | c, a :: rest =>
    if c.errors < target then
      match a with
      | none => (c, [], true)
      | some f =>
        let (c', used, e) := collect target bchMax (c.step bchMax f) rest
        (c', f :: used, e)
    else (c, [], false)

/-- what a worker derives from the decoder output: systematic bit errors, frame error, false decode -/
def frameOf (message decoded : List Bool) (iterations : Nat) (success : Bool) : Frame :=
  let be := ((message.zip decoded).filter (fun p => p.1 != p.2)).length
  { bitErrors := be, frameError := be > 0, falseDecode := be > 0 && success, iterations := iterations }

end LdpcV.Ber
