/-
Exact model of the sixteen 8-bit decoder arithmetics of `src/decoder/arithmetic.rs`
(`impl_8bitquant!`, `impl_send_var_messages_i8!`, `impl_minstarapproxi8!`, `impl_aminstari8!`).
Imports: core only.

`i8` / `i16` values are `Int`; every machine operation that can overflow in the overflow-checked
build (`abs` of -128, `i16` additions/subtractions, unary minus) goes through a range check and
yields `none` (= panic) when it leaves the type.  The theorems of C05 show the checks never fire.
-/
import LdpcV.Model.Decoder
namespace LdpcV.I8

def inI8 (x : Int) : Bool := decide (-128 ≤ x) && decide (x ≤ 127)
def inI16 (x : Int) : Bool := decide (-32768 ≤ x) && decide (x ≤ 32767)

def chk8 (x : Int) : Option Int := if inI8 x then some x else none
def chk16 (x : Int) : Option Int := if inI16 x then some x else none

/-- the correction table `round(8·ln(1+exp(-t/8)))`, `t = 0,1,…` while positive (22 entries);
the harness reads the Rust table out of the `Debug` text of every arithmetic object and compares -/
def table : List Int := [6,5,5,4,4,3,3,3,3,2,2,2,2,1,1,1,1,1,1,1,1,1]

/-- `lookup`: `assert!(x >= 0)`, beyond the table 0 -/
def lookup (x : Int) : Option Int :=
  if x < 0 then none else some (table.getD x.toNat 0)

/-- `clip(x: i16) -> i8` -/
def clip (x : Int) : Int := if x ≥ 127 then 127 else if x ≤ -127 then -127 else x

/-- `i8::abs` (overflows on -128) -/
def abs8 (x : Int) : Option Int := if x = -128 then none else some x.natAbs

/-- `i8::saturating_add` for two i8 values -/
def satAdd8 (x y : Int) : Int := if x + y > 127 then 127 else if x + y < -128 then -128 else x + y

/-- partial hard-limiting closure -/
def phl (x : Int) : Int := if x ≤ -100 then -127 else if x ≥ 100 then 127 else x

/-- degree-one clipping closure -/
def deg1clip (x : Int) (degreeOne : Bool) : Int :=
  if degreeOne then (if x ≤ -116 then -116 else if x ≥ 116 then 116 else x) else x

/-- configuration of a variant: Jones clipping, partial hard limiting, degree-one clipping -/
structure Cfg where
  jones : Bool
  hardLimit : Bool
  deg1 : Bool
deriving Repr, DecidableEq

def Cfg.hl (cfg : Cfg) (x : Int) : Int := if cfg.hardLimit then phl x else x
def Cfg.jonesClip (cfg : Cfg) (x : Int) : Int := if cfg.jones then clip x else x

/-! ### quantiser: exact, on the IEEE-754 bit pattern -/

/-- `input_llr_quantize`: `x = 8.0 * llr; if x >= 127 {127} else if x <= -127 {-127} else {x.round() as i8}`.
`8.0 * llr` is exact in binary floating point (or overflows to ±∞, which saturates the same way),
`round` is half away from zero, `NaN as i8 = 0`. -/
def quantize (bits : UInt64) : Int :=
  let b := bits.toNat
  let neg := b / 2^63 == 1
  let e : Nat := (b / 2^52) % 2048
  let frac : Nat := b % 2^52
  if e == 2047 then
    (if frac != 0 then 0 else if neg then -127 else 127)        -- NaN ↦ 0, ±∞ saturate
  else
    -- |llr| = m · 2^(ex), so |8·llr| = m · 2^(ex+3)
    let m : Nat := if e == 0 then frac else frac + 2^52
    let ex : Int := (if e == 0 then (-1074 : Int) else (e : Int) - 1075) + 3
    -- rounded magnitude, half away from zero:  ⌊|x| + 1/2⌋
    let mag : Nat :=
      if ex ≥ 0 then m * 2^ex.toNat
      else (2 * m + 2^((-ex).toNat)) / 2^((-ex).toNat + 1)
    let mag := if mag ≥ 127 then 127 else mag
    if neg then -(mag : Int) else (mag : Int)

/-! ### check-node rules -/

/-- one fold step of the approximate min*: `(x.min(y) - lookup(|x-y|)).max(0)` -/
def stepApprox (x y : Int) : Option Int := do
  let l ← lookup (x - y).natAbs
  pure (max (min x y - l) 0)

/-- one fold step of the exact-form min*: `(x.min(y) - lookup(|x-y|) + lookup(x.saturating_add(y))).max(0)` -/
def stepFull (x y : Int) : Option Int := do
  let l1 ← lookup (x - y).natAbs
  let l2 ← lookup (satAdd8 x y)
  let r ← chk8 (min x y - l1)
  let r ← chk8 (r + l2)
  pure (max r 0)

/-- fold over the absolute values of `vals` (first element starts, as `None => x`) -/
def foldAbs (step : Int → Int → Option Int) : List Int → Option Int → Option (Option Int)
  | [], acc => some acc
  | v :: vs, acc => do
    let x ← abs8 v
    match acc with
    | none => foldAbs step vs (some x)
    | some y =>
      let z ← step x y
      foldAbs step vs (some z)

def signParity (vals : List Int) : Bool := (vals.filter (· < 0)).length % 2 == 1

/-- `impl_minstarapproxi8! send_check_messages` -/
def checkApprox (cfg : Cfg) (msgs : List (Nat × Int)) : Option (List (Nat × Int)) :=
  msgs.mapM (fun ex => do
    let others := (msgs.filter (fun m => m.1 != ex.1)).map (·.2)
    let r ← foldAbs stepApprox others none
    let mag ← r                                   -- expect("only one variable message connected to check node")
    let v := if signParity others then -mag else mag
    pure (ex.1, cfg.hl v))

/-- index of the first element of minimal absolute value (`min_by_key(|m| m.value.abs())`) -/
def argminAbs : List Int → Option (Nat × Int)
  | [] => none
  | v :: vs =>
    match abs8 v with
    | none => none
    | some a =>
      match argminAbs vs with
      | none => if vs.isEmpty then some (0, v) else none
      | some (j, w) => if a ≤ w.natAbs then some (0, v) else some (j + 1, w)

/-- `impl_aminstari8! send_check_messages` -/
def checkAmin (cfg : Cfg) (msgs : List (Nat × Int)) : Option (List (Nat × Int)) := do
  let vals := msgs.map (·.2)
  let (argmin, vminSigned) ← argminAbs vals               -- expect("var_messages is empty")
  let srcMin := (msgs.getD argmin (0, 0)).1
  let sign := signParity vals
  let others := (vals.zipIdx.filter (fun p => p.2 != argmin)).map (·.1)
  let r ← foldAbs stepFull others none
  let delta ← r                                           -- expect("var_messages_empty")
  let dhl := cfg.hl delta
  let first := (srcMin, if sign != decide (vminSigned < 0) then -dhl else dhl)
  let vmin ← abs8 vminSigned
  let delta2 ← stepFull delta vmin
  let dhl2 := cfg.hl delta2
  let rest := (msgs.zipIdx.filter (fun p => p.2 != argmin)).map (fun p =>
      (p.1.1, if sign != decide (p.1.2 < 0) then -dhl2 else dhl2))
  pure (first :: rest)

/-! ### variable-node rule -/

/-- i16 sum with overflow check at every addition (`.sum::<i16>()` starts from 0) -/
def sum16 : List Int → Int → Option Int
  | [], acc => some acc
  | v :: vs, acc => do
    let s ← chk16 (acc + v)
    sum16 vs s

/-- `impl_send_var_messages_i8!` -/
def varRule (cfg : Cfg) (input : Int) (msgs : List (Nat × Int)) : Option (Int × List (Nat × Int)) := do
  let degreeOne := msgs.length == 1
  let inp := if cfg.deg1 then deg1clip input degreeOne else input
  let s ← sum16 (msgs.map (·.2)) 0
  let llr ← chk16 (inp + s)
  let llr := cfg.jonesClip llr
  let out ← msgs.mapM (fun m => do
    let d ← chk16 (llr - m.2)
    pure (m.1, clip d))
  pure (clip llr, out)

/-! ### layered single-check update -/

/-- extrinsic values `clip(vars[dest] - value)` of one check (index out of bounds / i16 overflow = panic) -/
def extrinsics (msgs : List (Nat × Int)) (vars : List Int) : Option (List Int) :=
  msgs.mapM (fun m => do
    let q ← vars[m.1]?
    let d ← chk16 (q - m.2)
    pure (clip d))

/-- write back: `vars[dest] += new - old` one message after the other -/
def writeBack : List (Nat × Int) → List Int → List Int → Option (List Int)
  | [], _, vars => some vars
  | _ :: _, [], _ => none
  | m :: ms, n :: ns, vars => do
    let q ← vars[m.1]?
    let d ← chk16 (n - m.2)
    let q' ← chk16 (q + d)
    writeBack ms ns (vars.set m.1 q')

/-- `impl_minstarapproxi8! update_check_messages_and_vars` -/
def layerApprox (cfg : Cfg) (msgs : List (Nat × Int)) (vars : List Int) : Option (List (Nat × Int) × List Int) := do
  -- all min*'s are computed from the values before any update
  let news ← msgs.mapM (fun ex => do
    let others ← extrinsics (msgs.filter (fun m => m.1 != ex.1)) vars
    let r ← foldAbs stepApprox others none
    let mag ← r
    let v := if signParity others then -mag else mag
    pure (cfg.hl v))
  let vars' ← writeBack msgs news vars
  pure ((msgs.zip news).map (fun p => (p.1.1, p.2)), vars')

/-- sequential update of the A-Min* layered rule: `x = vars[d] - old` (unclipped), `vars[d] = x + rcv` -/
def aminWrite : List (Nat × Int) → List Int → List Int → Option (List Int)
  | [], _, vars => some vars
  | _ :: _, [], _ => none
  | m :: ms, r :: rs, vars => do
    let q ← vars[m.1]?
    let x ← chk16 (q - m.2)
    let q' ← chk16 (x + r)
    aminWrite ms rs (vars.set m.1 q')

/-- the new messages of the A-Min* layered rule, given the extrinsic values read sequentially
(`x` is re-read from `vars` for every message, after the earlier messages of this check were
written back; distinct destinations make that the same as reading before) -/
def layerAmin (cfg : Cfg) (msgs : List (Nat × Int)) (vars : List Int) : Option (List (Nat × Int) × List Int) := do
  let ext ← extrinsics msgs vars
  let (argmin, vminSigned) ← argminAbs ext
  let sign := signParity ext
  let others := (ext.zipIdx.filter (fun p => p.2 != argmin)).map (·.1)
  let r ← foldAbs stepFull others none
  let delta ← r
  let dhl := cfg.hl delta
  let minRcv := if sign != decide (vminSigned < 0) then -dhl else dhl
  let vmin ← abs8 vminSigned
  let delta2 ← stepFull delta vmin
  let dhl2 := cfg.hl delta2
  -- the sign of the *unclipped* extrinsic is used for the non-argmin messages
  let rec go : List (Nat × Int) → Nat → List Int → Option (List (Nat × Int) × List Int)
    | [], _, vars => some ([], vars)
    | m :: ms, j, vars => do
      let q ← vars[m.1]?
      let x ← chk16 (q - m.2)
      let rcv := if j == argmin then minRcv else (if sign != decide (x < 0) then -dhl2 else dhl2)
      let q' ← chk16 (x + rcv)
      let (rest, vars') ← go ms (j + 1) (vars.set m.1 q')
      pure ((m.1, rcv) :: rest, vars')
  go msgs 0 vars

/-! ### the sixteen arithmetics -/

def mkArith (amin : Bool) (cfg : Cfg) : Arith where
  Llr := Int
  VarMsg := Int
  CheckMsg := Int
  VarLlr := Int
  dLlr := 0
  dVar := 0
  dCheck := 0
  dVarLlr := 0
  quantize := quantize
  hard := fun x => decide (x ≤ 0)
  toVarMsg := id
  toVarLlr := id
  ofVarLlr := clip
  checkRule := if amin then checkAmin cfg else checkApprox cfg
  varRule := varRule cfg
  layerRule := if amin then layerAmin cfg else layerApprox cfg

end LdpcV.I8
