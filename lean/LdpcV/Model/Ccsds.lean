/-
Model of `src/codes/ccsds.rs` (C07): the AR4JA construction and the C2 code.  Core only.

`AR4JACode::h()` is a sequence of `insert` / `toggle` calls.  Every call touches one position, and
the content (and order) of a row list depends only on the calls made for that row, in program
order; so the model lists, for every row, its calls and folds them over the row list with the
semantics of `SparseMatrix::insert` (append unless present) and `toggle` (remove if present, else
append).  Mod-2 cancellation is therefore modelled, not assumed away.
-/
import LdpcV.Model.Sparse
namespace LdpcV.Ccsds

structure Tables where
  theta : List Nat                      -- θ_k, k = 1..26
  phi : List (List (List Nat))          -- φ_k(j, M): phi[j][k-1][log2 M - 7]

/-- `pi(k, i)`: shifts and masks of the Rust code written as div / mod -/
def pi (t : Tables) (mlog : Nat) (k i : Nat) : Nat :=
  let m := 2 ^ mlog
  let j := 4 * i / m
  let a := (t.theta.getD (k - 1) 0 + j) % 4
  let mdiv4 := 2 ^ (mlog - 2)
  let b := ((((t.phi.getD j []).getD (k - 1) []).getD (mlog - 7) 0) + i) % mdiv4
  a * mdiv4 + b

inductive Call where
  | insert (col : Nat)
  | toggle (col : Nat)
deriving Repr, DecidableEq

def applyCall (row : List Nat) : Call → List Nat
  | .insert c => if row.contains c then row else row ++ [c]
  | .toggle c => if row.contains c then row.filter (· != c) else row ++ [c]

/-- number of extra information block-columns of a rate: 0 (1/2), 2 (2/3), 6 (4/5) -/
def extraBlocks (rate : Nat) : Nat := if rate = 0 then 0 else if rate = 1 then 2 else 6

/-- the calls made for matrix row `r` (`r = blockRow * M + i`), in program order;
`rate`: 0 = 1/2, 1 = 2/3, 2 = 4/5 -/
def rowCalls (t : Tables) (rate mlog : Nat) (r : Nat) : List Call :=
  let m := 2 ^ mlog
  let i := r % m
  let b := r / m
  let ec := m * extraBlocks rate
  let p := fun k => pi t mlog k i
  -- common part (H_1/2)
  let common : List Call :=
    if b = 0 then [.insert (ec + 2*m + i), .insert (ec + 4*m + i), .toggle (ec + 4*m + p 1)]
    else if b = 1 then [.insert (ec + i), .insert (ec + m + i), .insert (ec + 3*m + i),
                        .insert (ec + 4*m + p 2), .toggle (ec + 4*m + p 3), .toggle (ec + 4*m + p 4)]
    else [.insert (ec + i), .insert (ec + m + p 5), .toggle (ec + m + p 6),
          .insert (ec + 3*m + p 7), .toggle (ec + 3*m + p 8), .insert (ec + 4*m + i)]
  -- H_2/3 part
  let e2 := if rate = 2 then 4 * m else 0
  let part23 : List Call :=
    if rate = 0 then []
    else if b = 1 then [.insert (e2 + p 9), .toggle (e2 + p 10), .toggle (e2 + p 11), .insert (e2 + m + i)]
    else if b = 2 then [.insert (e2 + i), .insert (e2 + m + p 12), .toggle (e2 + m + p 13), .toggle (e2 + m + p 14)]
    else []
  -- H_4/5 part
  let part45 : List Call :=
    if rate ≠ 2 then []
    else if b = 1 then [.insert (p 21), .toggle (p 22), .toggle (p 23), .insert (m + i),
                        .insert (2*m + p 15), .toggle (2*m + p 16), .toggle (2*m + p 17), .insert (3*m + i)]
    else if b = 2 then [.insert i, .insert (m + p 24), .toggle (m + p 25), .toggle (m + p 26), .insert (2*m + i),
                        .insert (3*m + p 18), .toggle (3*m + p 19), .toggle (3*m + p 20)]
    else []
  common ++ part23 ++ part45

/-- the rows of `AR4JACode::h()`, each in insertion order -/
def ar4jaRows (t : Tables) (rate mlog : Nat) : List (List Nat) :=
  (List.range (3 * 2 ^ mlog)).map (fun r => (rowCalls t rate mlog r).foldl applyCall [])

def ar4jaNcols (rate mlog : Nat) : Nat := 2 ^ mlog * (extraBlocks rate + 5)

/-- rows of `C2Code::h()`: 2 × 16 blocks of size 511, two circulant offsets per block -/
def c2Rows (circ : List (List (List Nat))) : List (List Nat) :=
  (List.range (2 * 511)).map (fun r =>
    let rb := r / 511
    let j := r % 511
    ((List.range 16).flatMap (fun cb =>
      (((circ.getD rb []).getD cb []).map (fun c => cb * 511 + (j + c) % 511)))).foldl
        (fun row c => if row.contains c then row else row ++ [c]) [])

/-- columns as sorted sets, from the rows -/
def colsOfRows (ncols : Nat) (rows : List (List Nat)) : Array (List Nat) :=
  (rows.zipIdx.foldl (fun (cols : Array (List Nat)) p =>
      p.1.foldl (fun cols c => cols.modify c (fun l => p.2 :: l)) cols) (Array.replicate ncols [])).map List.reverse

/-! ### GF(2) rank on rows as bitsets (for the rank / invertibility facts) -/

/-- online elimination keeping a basis sorted by decreasing value (distinct leading bits) -/
def rankBits (rows : List Nat) : Nat :=
  (rows.foldl (fun (basis : List Nat) r =>
    let r := basis.foldl (fun r b => if (r ^^^ b) < r then r ^^^ b else r) r
    if r = 0 then basis else (basis.filter (· > r)) ++ [r] ++ (basis.filter (· < r))) []).length

def bitsOfRow (cols : List Nat) (lo hi : Nat) : Nat :=
  (cols.filter (fun c => lo ≤ c && c < hi)).foldl (fun acc c => acc ||| (1 <<< (c - lo))) 0

end LdpcV.Ccsds
