/-
Model of `src/simulation/interleaving.rs` and `src/simulation/puncturing.rs` (C15).
Imports: core only.

`ndarray`'s reshape / transpose / invert_axis are replaced by their index semantics.
Outcomes: `Res.ok`, `Res.err` (a returned `Err(CodewordSizeNotDivisible)`), `Res.panic`
(an `assert!` / division by zero).
-/
namespace LdpcV

inductive Res (α : Type) where
  | ok : α → Res α
  | err : Res α
  | panic : Res α
deriving Repr, DecidableEq

namespace Blocks

/-- source index read by output position `i = r*C + c` of the interleaver -/
def ilvSrc (C R : Nat) (bw : Bool) (i : Nat) : Nat :=
  let r := i / C
  let c := i % C
  (if bw then C - 1 - c else c) * R + r

/-- `Interleaver::new(C, bw).interleave(xs)` -/
def interleave {α : Type} (C : Nat) (bw : Bool) (xs : List α) : Res (List α) :=
  if C = 0 then .panic            -- `len % 0`
  else if xs.length % C ≠ 0 then .panic   -- assert_eq!
  else .ok ((List.range xs.length).filterMap (fun i => xs[ilvSrc C (xs.length / C) bw i]?))

/-- source index read by output position `i = c*R + r` of the deinterleaver -/
def dilvSrc (C R : Nat) (bw : Bool) (i : Nat) : Nat :=
  let c := i / R
  let r := i % R
  r * C + (if bw then C - 1 - c else c)

/-- `Interleaver::new(C, bw).deinterleave(ys)` -/
def deinterleave {α : Type} (C : Nat) (bw : Bool) (ys : List α) : Res (List α) :=
  if C = 0 then .panic
  else if ys.length % C ≠ 0 then .panic
  else .ok ((List.range ys.length).filterMap (fun i => ys[dilvSrc C (ys.length / C) bw i]?))

/-! ### puncturing -/

def numTrues (p : List Bool) : Nat := p.count true

/-- keep the blocks marked `true`, in order -/
def punctureGo {α : Type} (B : Nat) : List Bool → List α → List α
  | [], _ => []
  | true :: p, xs => xs.take B ++ punctureGo B p (xs.drop B)
  | false :: p, xs => punctureGo B p (xs.drop B)

/-- put the kept blocks back, `d` in the removed blocks -/
def depunctureGo {α : Type} (B : Nat) (d : α) : List Bool → List α → List α
  | [], _ => []
  | true :: p, xs => xs.take B ++ depunctureGo B d p (xs.drop B)
  | false :: p, xs => List.replicate B d ++ depunctureGo B d p xs

/-- `Puncturer::new(pattern)` panics on an empty pattern; `puncture` -/
def puncture {α : Type} (p : List Bool) (xs : List α) : Res (List α) :=
  if p = [] then .panic
  else if xs.length % p.length ≠ 0 then .err
  else .ok (punctureGo (xs.length / p.length) p xs)

/-- `depuncture`; a pattern without any `true` divides by zero (panic) -/
def depuncture {α : Type} (d : α) (p : List Bool) (xs : List α) : Res (List α) :=
  if p = [] then .panic
  else if numTrues p = 0 then .panic
  else if xs.length % numTrues p ≠ 0 then .err
  else .ok (depunctureGo (xs.length / numTrues p) d p xs)

/-- `rate()` as an exact fraction (numerator, denominator) -/
def rate (p : List Bool) : Nat × Nat := (p.length, numTrues p)

end Blocks
end LdpcV
