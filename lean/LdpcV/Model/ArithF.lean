/-
Model of the floating-point decoder arithmetics of `src/decoder/arithmetic.rs`
(`impl_phif!`, `impl_tanhf!`, `impl_minstarapproxf!`, `impl_aminstarf!`, `send_var_messages_no_clip`),
generic over the scalar record `Sc α` (C04, C05).  Core only.
-/
import LdpcV.Model.Scalar
namespace LdpcV.ArithF

variable {α : Type}

def zero (S : Sc α) : α := S.rat 0 1
def isNeg (S : Sc α) (x : α) : Bool := S.lt x (zero S)
def signParity (S : Sc α) (xs : List α) : Bool := (xs.filter (isNeg S)).length % 2 == 1
def sum (S : Sc α) (xs : List α) : α := xs.foldl S.add (zero S)
def prod (S : Sc α) (xs : List α) : α := xs.foldl S.mul (S.rat 1 1)

/-- `phi(x) = -ln(tanh(max(x, min_x)/2))` with `min_x = 1e-30` -/
def phi (S : Sc α) (x : α) : α :=
  S.neg (S.log (S.tanh (S.mul (S.rat 1 2) (S.max x (S.rat 1 (10 ^ 30))))))

/-- `impl_phif! send_check_messages` -/
def checkPhi (S : Sc α) (msgs : List (Nat × α)) : List (Nat × α) :=
  let phis := msgs.map (fun m => phi S (S.abs m.2))
  let total := phis.foldl S.add (zero S)          -- `sum += phi_x` starting from 0.0
  let sign := signParity S (msgs.map (·.2))
  (msgs.zip phis).map (fun p =>
    let y := phi S (S.sub total p.2)
    let s := if isNeg S p.1.2 then !sign else sign
    (p.1.1, if s then S.neg y else y))

/-- `impl_tanhf! send_check_messages` with clamp `c` (18 for f64, 9 for f32) -/
def checkTanh (S : Sc α) (clamp : α) (msgs : List (Nat × α)) : List (Nat × α) :=
  let ts := msgs.map (fun m => (m.1, S.tanh (S.max (S.neg clamp) (S.min clamp (S.mul (S.rat 1 2) m.2)))))
  msgs.map (fun ex =>
    let p := prod S ((ts.filter (fun t => t.1 != ex.1)).map (·.2))
    (ex.1, S.mul (S.rat 2 1) (S.atanh p)))

/-- one step of the approximate min*: `max(min(x,y) - ln_1p(exp(-|x-y|)), 0)` -/
def stepApprox (S : Sc α) (x y : α) : α :=
  S.max (S.sub (S.min x y) (S.log1p (S.exp (S.neg (S.abs (S.sub x y)))))) (zero S)

/-- one step of the exact min*: `min(x,y) - ln_1p(exp(-|x-y|)) + ln_1p(exp(-(x+y)))` -/
def stepFull (S : Sc α) (x y : α) : α :=
  S.add (S.sub (S.min x y) (S.log1p (S.exp (S.neg (S.abs (S.sub x y)))))) (S.log1p (S.exp (S.neg (S.add x y))))

def foldAbs (S : Sc α) (step : α → α → α) : List α → Option α → Option α
  | [], acc => acc
  | v :: vs, none => foldAbs S step vs (some (S.abs v))
  | v :: vs, some y => foldAbs S step vs (some (step (S.abs v) y))

/-- `impl_minstarapproxf! send_check_messages`; `none` = panic (degree 1) -/
def checkApprox (S : Sc α) (msgs : List (Nat × α)) : Option (List (Nat × α)) :=
  msgs.mapM (fun ex =>
    let others := (msgs.filter (fun m => m.1 != ex.1)).map (·.2)
    (foldAbs S (stepApprox S) others none).map (fun mag =>
      (ex.1, if signParity S others then S.neg mag else mag)))

/-- first index of minimal absolute value (`min_by(partial_cmp)`) -/
def argminAbs (S : Sc α) : List α → Option (Nat × α)
  | [] => none
  | [v] => some (0, v)
  | v :: vs =>
    match argminAbs S vs with
    | none => some (0, v)
    | some (j, w) => if S.le (S.abs v) (S.abs w) then some (0, v) else some (j + 1, w)

/-- `impl_aminstarf! send_check_messages`; `none` = panic (degree < 2) -/
def checkAmin (S : Sc α) (msgs : List (Nat × α)) : Option (List (Nat × α)) := do
  let vals := msgs.map (·.2)
  let (argmin, vmin) ← argminAbs S vals
  let sign := signParity S vals
  let others := (vals.zipIdx.filter (fun p => p.2 != argmin)).map (·.1)
  let delta ← foldAbs S (stepFull S) others none
  let first := ((msgs.getD argmin (0, vmin)).1, if sign != isNeg S vmin then S.neg delta else delta)
  let delta2 := stepFull S delta (S.abs vmin)
  let rest := (msgs.zipIdx.filter (fun p => p.2 != argmin)).map (fun p =>
      (p.1.1, if sign != isNeg S p.1.2 then S.neg delta2 else delta2))
  pure (first :: rest)

/-- `send_var_messages_no_clip`: `llr = input + Σ msgs` (the sum starts from 0 and runs left to right),
message to `c` = `llr − msg from c` -/
def varRule (S : Sc α) (input : α) (msgs : List (Nat × α)) : α × List (Nat × α) :=
  let llr := S.add input (sum S (msgs.map (·.2)))
  (llr, msgs.map (fun m => (m.1, S.sub llr m.2)))

/-- the layered single-check update of the float arithmetics, as the property states it: the flooding check rule
applied to the extrinsic values `vars[dest] − old message`, then `var := extrinsic + new message`
(`rule` is one of `checkPhi`, `checkTanh c`, `checkApprox`, `checkAmin`; A-Min* emits the least reliable
neighbour first, so new messages are looked up by destination); `none` = panic -/
def layerBy (S : Sc α) (rule : List (Nat × α) → Option (List (Nat × α))) (msgs : List (Nat × α)) (vars : List α) :
    Option (List (Nat × α) × List α) := do
  let ext ← msgs.mapM (fun m => (vars[m.1]?).map (fun q => (m.1, S.sub q m.2)))
  let emitted ← rule ext
  let news ← ext.mapM (fun e => (emitted.find? (fun o => o.1 == e.1)).map (fun o => (e.1, o.2)))
  let vars' := (ext.zip news).foldl (fun vs p => vs.set p.1.1 (S.add p.1.2 p.2.2)) vars
  pure (news, vars')

/-- exact box-plus in the tanh domain: `Π tanh(x_j / 2)` -/
def tanhProd (S : Sc α) (xs : List α) : α := prod S (xs.map (fun x => S.tanh (S.mul (S.rat 1 2) x)))

end LdpcV.ArithF
