/-
Model of the command-line front end (`src/cli/*.rs`) as far as it is logic (C20): the argument tables of the
code-generation subcommands, the framing of the `encode` subcommand and the Eb/N0 list of `ber`.  Core only.
`clap` parsing, file I/O and process exit are not modelled.
-/
import LdpcV.Model.Capi
namespace LdpcV.Cli
open LdpcV.Blocks

/-- `cli::dvbs2::Args::code()`: (rate string, --short) ↦ code identifier, the 21-row table -/
def dvbs2Code (rate : String) (short : Bool) : Option String :=
  match rate, short with
  | "1/4", false => some "R1_4" | "1/3", false => some "R1_3" | "2/5", false => some "R2_5" | "1/2", false => some "R1_2"
  | "3/5", false => some "R3_5" | "2/3", false => some "R2_3" | "3/4", false => some "R3_4" | "4/5", false => some "R4_5"
  | "5/6", false => some "R5_6" | "8/9", false => some "R8_9" | "9/10", false => some "R9_10"
  | "1/4", true => some "R1_4short" | "1/3", true => some "R1_3short" | "2/5", true => some "R2_5short"
  | "1/2", true => some "R1_2short" | "3/5", true => some "R3_5short" | "2/3", true => some "R2_3short"
  | "3/4", true => some "R3_4short" | "4/5", true => some "R4_5short" | "5/6", true => some "R5_6short"
  | "8/9", true => some "R8_9short"
  | _, _ => none

inductive CcsdsArg where
  | ok (rate : String) (k : Nat)
  | badRate
  | badBlockSize
deriving Repr, DecidableEq

/-- `cli::ccsds::Args::code()`: (rate string, --block-size) ↦ (rate identifier, k); the rate is checked first -/
def ccsdsCode (rate : String) (blockSize : Nat) : CcsdsArg :=
  match rate with
  | "1/2" | "2/3" | "4/5" =>
    if blockSize = 1024 ∨ blockSize = 4096 ∨ blockSize = 16384 then
      .ok (match rate with | "1/2" => "R1_2" | "2/3" => "R2_3" | _ => "R4_5") blockSize
    else .badBlockSize
  | _ => .badRate

/-- `encode` subcommand: read whole information words of `k` bytes (a trailing partial word is dropped), write for
each the (punctured) codeword as unpacked bytes and nothing more; `none` = the run fails -/
def encodeStream (enc : Lin.Encoder) (k : Nat) (pattern : Option (List Bool)) : List Nat → Option (List Nat)
  | input =>
    if k = 0 then none else       -- (read_exact on an empty buffer never reaches EOF: the loop does not terminate)
    let rec words : Nat → List Nat → List (List Nat)
      | 0, _ => []
      | fuel + 1, l => if l.length < k then [] else l.take k :: words fuel (l.drop k)
    (words (input.length + 1) input).foldlM (fun acc w =>
      match Lin.encode enc (w.map (· == 1)) with
      | none => none
      | some cw =>
        match (match pattern with | some p => puncture p cw | none => .ok cw) with
        | .ok bits => some (acc ++ bits.map (fun b => if b then 1 else 0))
        | _ => none) []

/-- `ber` subcommand: number of Eb/N0 points `floor((max − min)/step) + 1`, as computed on exact decimals
(arguments given in hundredths of a dB) -/
def numEbn0s (minC maxC stepC : Int) : Nat := ((maxC - minC) / stepC).toNat + 1

end LdpcV.Cli
