/-
Model of the C interface wrappers `src/c_api/decoder.rs`, `src/c_api/encoder.rs` and of
`cli::ber::parse_puncturing_pattern` (C19, C20).  Core only.
`none` results of the constructors = a null pointer; `Res.panic` = a Rust panic (which aborts the host process).
-/
import LdpcV.Model.Alist
import LdpcV.Model.Blocks
import LdpcV.Model.Decoder
import LdpcV.Model.Linalg
import LdpcV.Spec.Factory
namespace LdpcV.Capi
open LdpcV.Blocks

/-- `str::split(',')` -/
def splitComma (s : List Char) : List (List Char) :=
  let rec go : List Char → List Char → List (List Char)
    | [], cur => [cur.reverse]
    | c :: cs, cur => if c == ',' then cur.reverse :: go cs [] else go cs (c :: cur)
  go s []

/-- `parse_puncturing_pattern`: every comma-separated piece must be exactly `0` or `1` -/
def parsePattern (s : List Char) : Option (List Bool) :=
  (splitComma s).mapM (fun p => if p == ['0'] then some false else if p == ['1'] then some true else none)

/-- the optional puncturer of both constructors: the empty string means "no puncturing" -/
def patternArg (s : List Char) : Option (Option (List Bool)) :=
  if s.isEmpty then some none else (parsePattern s).map some

structure DecHandle where
  h : SM
  impl : Factory.Impl
  pattern : Option (List Bool)

/-- `Decoder::new(alist, implementation, puncturing)`; `none` = null -/
def decoderCtor (alist impl punct : List Char) : Option DecHandle :=
  match Alist.fromAlist alist with
  | .ok h =>
    match Factory.parse (String.ofList impl) with
    | some i => (patternArg punct).map (fun p => ⟨h, i, p⟩)
    | none => none
  | _ => none

structure EncHandle where
  enc : Lin.Encoder
  n : Nat
  pattern : Option (List Bool)

/-- `Encoder::new(alist, puncturing)`; outer `Res.panic` = panic inside `Encoder::from_h` -/
def encoderCtor (alist punct : List Char) : Res (Option EncHandle) :=
  match Alist.fromAlist alist with
  | .ok h =>
    match patternArg punct with
    | none => .ok none
    | some p =>
      match Lin.fromH h with
      | .ok e => .ok (some ⟨e, h.ncols, p⟩)
      | .err => .ok none
      | .panic => .panic
  | _ => .ok none

/-- `Encoder::encode(output, input)`: a byte equal to 1 is a one, anything else a zero; the output buffer
must have exactly the punctured length (`assert_eq!`) -/
def encode (e : EncHandle) (outputLen : Nat) (input : List Nat) : Res (List Bool) :=
  match Lin.encode e.enc (input.map (· == 1)) with
  | none => .panic
  | some cw =>
    let sent := match e.pattern with
      | some p => puncture p cw
      | none => .ok cw
    match sent with
    | .ok bits => if outputLen = bits.length then .ok bits else .panic
    | _ => .panic                                  -- `.unwrap()` on a puncturer error

/-- the wrapper logic of `decode_f64` around an arbitrary decoder `dec`: depuncture (unwrap), decode, copy the
first `outputLen` bits, return the iteration count on success and -1 on failure -/
def decodeWith (dec : List UInt64 → Nat → Option Verdict) (pattern : Option (List Bool)) (outputLen : Nat)
    (llrs : List UInt64) (maxIter : Nat) : Res (Int × List Bool) :=
  let dep : Res (List UInt64) := match pattern with
    | some p => depuncture (0 : UInt64) p llrs         -- +0.0
    | none => .ok llrs
  match dep with
  | .ok l =>
    match dec l maxIter with
    | none => .panic
    | some v =>
      if outputLen ≤ v.word.length then
        .ok ((match v with | .success _ it => (it : Int) | .failure _ _ => -1), v.word.take outputLen)
      else .panic                                       -- slice index out of range
  | _ => .panic

/-! ### a live decoder handle: the decoder object behind the pointer keeps its buffers between calls -/

/-- what the `*mut c_void` of the decoder points to: the parsed configuration and the state of the decoder object
(built once by the constructor with `build_decoder`) -/
structure DecObj where
  hd : DecHandle
  st : DecSt hd.impl.model

/-- the object right after the constructor -/
def DecObj.fresh (hd : DecHandle) : DecObj := ⟨hd, DecSt.fresh hd.impl.model hd.impl.sched hd.h⟩

/-- `ldpc_toolbox_decoder_decode_f64` on a live handle: the wrapper logic of `decodeWith` around the decoder OBJECT
(state threaded); returns the C results and the handle afterwards -/
def DecObj.call (o : DecObj) (outputLen : Nat) (llrs : List UInt64) (maxIter : Nat) : Res ((Int × List Bool) × DecObj) :=
  let dep : Res (List UInt64) := match o.hd.pattern with
    | some p => depuncture (0 : UInt64) p llrs
    | none => .ok llrs
  match dep with
  | .ok l =>
    match o.st.decode o.hd.h l maxIter with
    | none => .panic
    | some (v, st') =>
      if outputLen ≤ v.word.length then
        .ok (((match v with | .success _ it => (it : Int) | .failure _ _ => -1), v.word.take outputLen), ⟨o.hd, st'⟩)
      else .panic
  | _ => .panic

/-- a sequence of calls on one handle (a panic aborts the process: `none`) -/
def DecObj.calls : DecObj → List (Nat × List UInt64 × Nat) → Option (List (Int × List Bool))
  | _, [] => some []
  | o, (outLen, llrs, maxIter) :: rest =>
    match o.call outLen llrs maxIter with
    | .ok (r, o') => (DecObj.calls o' rest).map (r :: ·)
    | _ => none

end LdpcV.Capi
