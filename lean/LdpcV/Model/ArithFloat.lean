/-
The sixteen floating-point decoder arithmetics as `Arith` records (so that the generic decoder models, the
refinement theorems of C03 and the history theorems of C10 apply to ALL 36 implementation names, not only to the
twenty 8-bit ones).  Generic over the scalar record `Sc α`: `Sc.float` / `Sc.float32` for execution, any `S` for the
structural theorems.  Core only.

Check rules: the formulas of LdpcV/Model/ArithF.lean.  Variable rule: `send_var_messages_no_clip`.  Layered rule: the
flooding check rule applied to the extrinsic values, then add (`ArithF.layerBy`) — the form in which the property C05
states it and in which the harness compares it numerically with the four `update_check_messages_and_vars` bodies.
A-Min*: `min_by(|a, b| a.abs().partial_cmp(&b.abs()).unwrap())` panics when an operand is NaN; with at least two
elements every element takes part in a comparison, so the rule panics iff some value is NaN (`x ≤ x` is false exactly
for NaN) — observed on the real code for HLAminstarf32 (replays/observed/HLAminstarf32-nan-panic.txt).
-/
import LdpcV.Model.ArithF
import LdpcV.Model.Decoder
namespace LdpcV.ArithFloat

variable {α : Type}

inductive Kind where
  | phi | tanh | approx | amin
deriving Repr, DecidableEq

/-- no comparison of `min_by(partial_cmp().unwrap())` meets a NaN -/
def allOrdered (S : Sc α) (xs : List α) : Bool :=
  decide (xs.length < 2) || xs.all (fun x => S.le (S.abs x) (S.abs x))

/-- A-Min* with the `partial_cmp().unwrap()` panic -/
def checkAminP (S : Sc α) (msgs : List (Nat × α)) : Option (List (Nat × α)) :=
  if allOrdered S (msgs.map (·.2)) then ArithF.checkAmin S msgs else none

/-- `send_check_messages` of the four float families (`clamp` = 18 for f64, 9 for f32; used by tanh only) -/
def checkOf (S : Sc α) (clamp : α) : Kind → List (Nat × α) → Option (List (Nat × α))
  | .phi, m => some (ArithF.checkPhi S m)
  | .tanh, m => some (ArithF.checkTanh S clamp m)
  | .approx, m => ArithF.checkApprox S m
  | .amin, m => checkAminP S m

/-- a float arithmetic: `q` = `input_llr_quantize` on the f64 bit pattern (identity for f64, `as f32` for f32) -/
def mkArith (S : Sc α) (q : UInt64 → α) (clamp : α) (k : Kind) : Arith where
  Llr := α
  VarMsg := α
  CheckMsg := α
  VarLlr := α
  dLlr := ArithF.zero S
  dVar := ArithF.zero S
  dCheck := ArithF.zero S
  dVarLlr := ArithF.zero S
  quantize := q
  hard := fun x => S.le x (ArithF.zero S)
  toVarMsg := id
  toVarLlr := id
  ofVarLlr := id
  checkRule := checkOf S clamp k
  varRule := fun x msgs => some (ArithF.varRule S x msgs)
  layerRule := ArithF.layerBy S (checkOf S clamp k)

def f64Arith (k : Kind) : Arith := mkArith Sc.float Float.ofBits 18 k
def f32Arith (k : Kind) : Arith := mkArith Sc.float32 (fun b => (Float.ofBits b).toFloat32) 9 k

end LdpcV.ArithFloat
