/-
Thread protocol of one Eb/N0 point of `BerTest::do_run` / `Worker::work` (C13), as a labelled
transition system, parametric in the number of workers.  Core only.

Collector: spawns N workers, (after the repair of defect D7) drops its own result sender, consumes
results while the error target is not reached, leaves the loop on a worker error or when the result
channel is disconnected, then sends `terminate` to every worker (ignoring failures) and joins them all.
Worker: polls its capacity-1 terminate slot between frames; otherwise simulates a frame and sends the
result; after sending an error result it exits with that error; it may panic while simulating.
`keepSender = true` is the protocol BEFORE the repair (the collector keeps a clone of the result
sender alive, so `recv()` can never observe a disconnection).
-/
namespace LdpcV.BerProto

inductive WState where
  | running        -- between frames (about to poll the terminate slot)
  | exitedOk       -- saw the terminate message, returned Ok
  | exitedErr      -- sent an error result, returned Err
  | panicked       -- panicked while simulating a frame
deriving Repr, DecidableEq

inductive Phase where
  | collecting           -- in the `while errors < target` loop
  | signalling           -- about to send the terminate messages
  | joining (next : Nat) -- joining worker `next`
  | done (ok : Bool)     -- point finished: Ok(statistics) or Err
deriving Repr, DecidableEq

structure St where
  workers : List WState
  termSent : Bool                 -- terminate messages have been put into every slot
  queue : List Bool               -- pending results: true = Ok(frame that is an error frame or not, abstracted), false = Err(())
  errors : Nat                    -- frame errors collected so far (every consumed Ok result may or may not raise it)
  sawError : Bool                 -- an Err result was consumed or a worker panicked / errored at join
  phase : Phase
deriving Repr, DecidableEq

def init (n : Nat) : St :=
  { workers := List.replicate n .running, termSent := false, queue := [], errors := 0, sawError := false, phase := .collecting }

def alive (s : St) : Bool := s.workers.any (· == .running)

/-- one step of the system (`keepSender`: protocol before the repair; `target`: error target) -/
inductive Step (keepSender : Bool) (target : Nat) : St → St → Prop
  /-- a running worker finds the terminate message and exits -/
  | workerTerminates (s : St) (i : Nat) : s.workers[i]? = some .running → s.termSent = true →
      Step keepSender target s { s with workers := s.workers.set i .exitedOk }
  /-- a running worker (terminate slot empty, or not polled yet this round) simulates a frame and sends Ok -/
  | workerSendsFrame (s : St) (i : Nat) : s.workers[i]? = some .running → s.termSent = false →
      Step keepSender target s { s with queue := s.queue ++ [true] }
  /-- a running worker's frame fails (puncturer error): it sends Err and exits with the error -/
  | workerSendsError (s : St) (i : Nat) : s.workers[i]? = some .running → s.termSent = false →
      Step keepSender target s { s with queue := s.queue ++ [false], workers := s.workers.set i .exitedErr }
  /-- a running worker panics while simulating -/
  | workerPanics (s : St) (i : Nat) : s.workers[i]? = some .running → s.termSent = false →
      Step keepSender target s { s with workers := s.workers.set i .panicked }
  /-- the collector consumes an Ok result; `raises` = it is an error frame for the termination measure -/
  | collectFrame (s : St) (rest : List Bool) (raises : Bool) : s.phase = .collecting → s.queue = true :: rest →
      Step keepSender target s
        { s with queue := rest, errors := s.errors + (if raises then 1 else 0),
                 phase := if s.errors + (if raises then 1 else 0) < target then .collecting else .signalling }
  /-- the collector consumes an Err result and leaves the loop -/
  | collectError (s : St) (rest : List Bool) : s.phase = .collecting → s.queue = false :: rest →
      Step keepSender target s { s with queue := rest, sawError := true, phase := .signalling }
  /-- `recv()` fails: queue empty and every sender dropped (only possible when the collector dropped its own sender) -/
  | collectDisconnected (s : St) : s.phase = .collecting → s.queue = [] → alive s = false → keepSender = false →
      Step keepSender target s { s with phase := .signalling }
  /-- the collector puts a terminate message into every slot (failures ignored) -/
  | signal (s : St) : s.phase = .signalling →
      Step keepSender target s { s with termSent := true, phase := .joining 0 }
  /-- join worker `i` once it has exited (or panicked) -/
  | join (s : St) (i : Nat) (w : WState) : s.phase = .joining i → s.workers[i]? = some w → w ≠ .running →
      Step keepSender target s
        { s with sawError := s.sawError || w == .exitedErr || w == .panicked, phase := .joining (i + 1) }
  /-- all workers joined -/
  | finish (s : St) (i : Nat) : s.phase = .joining i → i = s.workers.length →
      Step keepSender target s { s with phase := .done (!s.sawError) }

inductive Reachable (keepSender : Bool) (target n : Nat) : St → Prop
  | init : Reachable keepSender target n (init n)
  | step {s s' : St} : Reachable keepSender target n s → Step keepSender target s s' → Reachable keepSender target n s'

def isDone (s : St) : Bool := match s.phase with | .done _ => true | _ => false

end LdpcV.BerProto
