/-
Model of `src/codes/dvbs2.rs` `Code::h()` (C06), generic in the parameters `(n, m, q, addr)`.
Core only.  The Rust construction is mirrored exactly, including the per-column and per-row
insertion order and the fact that `insert` silently drops a repeated position.
-/
import LdpcV.Model.Sparse
namespace LdpcV.Dvbs2

/-- `insert` into a column that is being filled: a repeated row index is dropped -/
def insertDedup (l : List Nat) (x : Nat) : List Nat := if l.contains x then l else l ++ [x]

/-- information column `j`: addresses of group `j / 360`, shifted by `(j mod 360)·q`, modulo `m` -/
def infoCol (m q : Nat) (addr : List (List Nat)) (j : Nat) : List Nat :=
  ((addr.getD (j / 360) []).map (fun x => (x + (j % 360) * q) % m)).foldl insertDedup []

/-- parity column `i` (matrix column `k + i`): the staircase -/
def parityCol (m i : Nat) : List Nat := if i + 1 < m then [i, i + 1] else [i]

/-- all columns, `k = n - m` information columns then `m` parity columns -/
def cols (n m q : Nat) (addr : List (List Nat)) : List (List Nat) :=
  (List.range n).map (fun j => if j < n - m then infoCol m q addr j else parityCol m (j - (n - m)))

/-- row `r` in insertion order: the information columns containing `r` (ascending, because the
information columns are filled one after the other), then the staircase entries
(`h.insert(0, k)`; `h.insert(j, j + k); h.insert(j, j + k - 1)`) -/
def row (n m q : Nat) (addr : List (List Nat)) (r : Nat) : List Nat :=
  ((List.range (n - m)).filter (fun j => (infoCol m q addr j).contains r))
    ++ (if r = 0 then [n - m] else [r + (n - m), r + (n - m) - 1])

def rows (n m q : Nat) (addr : List (List Nat)) : List (List Nat) :=
  (List.range m).map (row n m q addr)

/-- `Code::h()` -/
def h (n m q : Nat) (addr : List (List Nat)) : SM := ⟨rows n m q addr, cols n m q addr⟩

/-- fast computation of the rows from the columns (one pass, arrays; used by the executable checks):
row `r` = the indices of the columns containing `r`, ascending -/
def rowsFast (m : Nat) (cs : List (List Nat)) : Array (List Nat) :=
  (cs.zipIdx.foldl (fun (rows : Array (List Nat)) p =>
      p.1.foldl (fun rows r => rows.modify r (fun l => p.2 :: l)) rows) (Array.replicate m [])).map List.reverse

/-- the rows computed in one pass over the information columns (same lists as `rows`, see C06.rows_fast_eq) -/
def rowsFastModel (n m q : Nat) (addr : List (List Nat)) : List (List Nat) :=
  ((rowsFast m ((cols n m q addr).take (n - m))).toList.zipIdx).map (fun p =>
    p.1 ++ (if p.2 = 0 then [n - m] else [p.2 + (n - m), p.2 + (n - m) - 1]))

/-- all column pairs of one row, encoded as `a * n + b` with `a < b` -/
def pairKeys (n : Nat) : List Nat → List Nat
  | [] => []
  | a :: t => t.map (fun b => if a < b then a * n + b else b * n + a) ++ pairKeys n t

def adjacentDistinct : List Nat → Bool
  | [] | [_] => true
  | a :: b :: t => a != b && adjacentDistinct (b :: t)

/-- no two rows share two columns (no cycle of length 4): sort all column-pair keys and look for a repeat -/
def noFourCycles (n : Nat) (rowLists : List (List Nat)) : Bool :=
  adjacentDistinct ((rowLists.flatMap (pairKeys n)).mergeSort (fun a b => decide (a ≤ b)))

/-- degree profile of the information part: (degree, number of columns) per run of equal degree -/
def degreeProfile (colLists : List (List Nat)) (k : Nat) : List (Nat × Nat) :=
  let degs := (colLists.take k).map List.length
  degs.foldl (fun acc d => match acc.getLast? with
    | some (d', c) => if d' = d then acc.dropLast ++ [(d', c + 1)] else acc ++ [(d, 1)]
    | none => [(d, 1)]) []

end LdpcV.Dvbs2
