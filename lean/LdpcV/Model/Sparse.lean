/-
Model of `src/sparse.rs` (`SparseMatrix` and its mutators / queries).
Imports: core only (so that the `vmodel` executable links).

The representation is literally the Rust one: two mirrored adjacency lists, insertion order
preserved. Every entry point that indexes a `Vec` in Rust returns `none` here when the index is
out of range (that is a Rust panic).
-/
namespace LdpcV

structure SM where
  rows : List (List Nat)
  cols : List (List Nat)
deriving DecidableEq, Repr, Inhabited

namespace SM

def new (nrows ncols : Nat) : SM := ⟨List.replicate nrows [], List.replicate ncols []⟩

def nrows (h : SM) : Nat := h.rows.length
def ncols (h : SM) : Nat := h.cols.length

def row (h : SM) (r : Nat) : List Nat := h.rows.getD r []
def col (h : SM) (c : Nat) : List Nat := h.cols.getD c []

/-- `contains` without the bounds check (Rust: `self.cols[col].contains(&row)`). -/
def has (h : SM) (r c : Nat) : Bool := (h.col c).contains r

/-- `rows[r].retain(|&x| x != c)` -/
def dropFrom (l : List (List Nat)) (i x : Nat) : List (List Nat) :=
  l.modify i (fun xs => xs.filter (· != x))

def pushTo (l : List (List Nat)) (i x : Nat) : List (List Nat) :=
  l.modify i (fun xs => xs ++ [x])

/-- raw insert, bounds already checked -/
def insertRaw (h : SM) (r c : Nat) : SM :=
  if h.has r c then h else ⟨pushTo h.rows r c, pushTo h.cols c r⟩

def removeRaw (h : SM) (r c : Nat) : SM := ⟨dropFrom h.rows r c, dropFrom h.cols c r⟩

def toggleRaw (h : SM) (r c : Nat) : SM := if h.has r c then h.removeRaw r c else h.insertRaw r c

def inRange (h : SM) (r c : Nat) : Bool := decide (r < h.nrows) && decide (c < h.ncols)

def contains? (h : SM) (r c : Nat) : Option Bool :=
  -- Rust indexes only `cols[col]`; an out-of-range *row* just gives `false`.
  if c < h.ncols then some (h.has r c) else none

def insert (h : SM) (r c : Nat) : Option SM :=
  if h.inRange r c then some (h.insertRaw r c) else none

def remove (h : SM) (r c : Nat) : Option SM :=
  if h.inRange r c then some (h.removeRaw r c) else none

def toggle (h : SM) (r c : Nat) : Option SM :=
  if h.inRange r c then some (h.toggleRaw r c) else none

/-- `for col in cols { self.insert(row, col) }` -/
def insertRow (h : SM) (r : Nat) (cs : List Nat) : Option SM :=
  cs.foldlM (fun h c => h.insert r c) h

def insertCol (h : SM) (c : Nat) (rs : List Nat) : Option SM :=
  rs.foldlM (fun h r => h.insert r c) h

/-- `for &col in &self.rows[row] { self.cols[col].retain(|r| *r != row) }; self.rows[row].clear()` -/
def clearRowRaw (h : SM) (r : Nat) : SM :=
  ⟨h.rows.modify r (fun _ => []), (h.row r).foldl (fun cols c => dropFrom cols c r) h.cols⟩

def clearColRaw (h : SM) (c : Nat) : SM :=
  ⟨(h.col c).foldl (fun rows r => dropFrom rows r c) h.rows, h.cols.modify c (fun _ => [])⟩

def clearRow (h : SM) (r : Nat) : Option SM :=
  if r < h.nrows then some (h.clearRowRaw r) else none

def clearCol (h : SM) (c : Nat) : Option SM :=
  if c < h.ncols then some (h.clearColRaw c) else none

def setRow (h : SM) (r : Nat) (cs : List Nat) : Option SM :=
  (h.clearRow r).bind (fun h => h.insertRow r cs)

def setCol (h : SM) (c : Nat) (rs : List Nat) : Option SM :=
  (h.clearCol c).bind (fun h => h.insertCol c rs)

def rowWeight? (h : SM) (r : Nat) : Option Nat := h.rows[r]?.map List.length
def colWeight? (h : SM) (c : Nat) : Option Nat := h.cols[c]?.map List.length

/-- `iter_all`: row-major over the row lists -/
def iterAll (h : SM) : List (Nat × Nat) :=
  (h.rows.zipIdx).flatMap (fun p => p.1.map (fun c => (p.2, c)))

/-- the set of positions the matrix denotes (read off the row lists) -/
def mem (h : SM) (r c : Nat) : Bool := (h.row r).contains c

end SM

/-- Editing operations of the public API (C17). -/
inductive Op where
  | insert (r c : Nat)
  | remove (r c : Nat)
  | toggle (r c : Nat)
  | clearRow (r : Nat)
  | clearCol (c : Nat)
  | setRow (r : Nat) (cs : List Nat)
  | setCol (c : Nat) (rs : List Nat)
  | insertRow (r : Nat) (cs : List Nat)
  | insertCol (c : Nat) (rs : List Nat)
deriving Repr, DecidableEq

def SM.apply (h : SM) : Op → Option SM
  | .insert r c => h.insert r c
  | .remove r c => h.remove r c
  | .toggle r c => h.toggle r c
  | .clearRow r => h.clearRow r
  | .clearCol c => h.clearCol c
  | .setRow r cs => h.setRow r cs
  | .setCol c rs => h.setCol c rs
  | .insertRow r cs => h.insertRow r cs
  | .insertCol c rs => h.insertCol c rs

def SM.run (h : SM) (ops : List Op) : Option SM := ops.foldlM SM.apply h

/-! ### The abstract specification: a set of positions, as a membership predicate -/

abbrev PosSet := Nat → Nat → Bool

namespace PosSet
def empty : PosSet := fun _ _ => false
def ins (s : PosSet) (r c : Nat) : PosSet := fun r' c' => (r' == r && c' == c) || s r' c'
def del (s : PosSet) (r c : Nat) : PosSet := fun r' c' => !(r' == r && c' == c) && s r' c'
def tog (s : PosSet) (r c : Nat) : PosSet := if s r c then s.del r c else s.ins r c
def delRow (s : PosSet) (r : Nat) : PosSet := fun r' c' => !(r' == r) && s r' c'
def delCol (s : PosSet) (c : Nat) : PosSet := fun r' c' => !(c' == c) && s r' c'
def insRow (s : PosSet) (r : Nat) (cs : List Nat) : PosSet := cs.foldl (fun s c => s.ins r c) s
def insCol (s : PosSet) (c : Nat) (rs : List Nat) : PosSet := rs.foldl (fun s r => s.ins r c) s

def apply (s : PosSet) : Op → PosSet
  | .insert r c => s.ins r c
  | .remove r c => s.del r c
  | .toggle r c => s.tog r c
  | .clearRow r => s.delRow r
  | .clearCol c => s.delCol c
  | .setRow r cs => (s.delRow r).insRow r cs
  | .setCol c rs => (s.delCol c).insCol c rs
  | .insertRow r cs => s.insRow r cs
  | .insertCol c rs => s.insCol c rs
end PosSet

/-- range discipline of an operation: the inputs the Rust code does not panic on -/
def Op.inRange (nr nc : Nat) : Op → Bool
  | .insert r c | .remove r c | .toggle r c => decide (r < nr) && decide (c < nc)
  | .clearRow r => decide (r < nr)
  | .clearCol c => decide (c < nc)
  | .setRow r cs | .insertRow r cs => decide (r < nr) && cs.all (· < nc)
  | .setCol c rs | .insertCol c rs => decide (c < nc) && rs.all (· < nr)

end LdpcV
