/-
Model of the generic belief-propagation decoders (`src/decoder.rs`, `src/decoder/flooding.rs`,
`src/decoder/horizontal_layered.rs`) over an arbitrary arithmetic.  Imports: core only.

* `Arith` mirrors the `DecoderArithmetic` trait as a record of pure functions (the `&mut self`
  scratch vectors of the built-in arithmetics are write-before-read within one call and are not
  modelled; rules may panic = `none`).
* `FloodSt` / `HlSt` hold exactly the buffers of the Rust structs; `decode` threads the incoming
  state, so a decoder object reused for many frames is `decode` iterated over the returned state.
* `none` = Rust panic (`assert_eq!`, `expect("message for source not found")`, index out of bounds).
-/
import LdpcV.Model.Sparse
namespace LdpcV

/-- `x <= 0.0` on an f64 given by its bit pattern: true for ±0 and negatives, false for NaN. -/
def f64LeZero (b : UInt64) : Bool :=
  let mag := b &&& 0x7FFFFFFFFFFFFFFF
  if mag > 0x7FF0000000000000 then false      -- NaN compares false
  else if mag == 0 then true                  -- +0.0 and -0.0
  else (b >>> 63) == 1

structure Arith where
  Llr : Type
  VarMsg : Type
  CheckMsg : Type
  VarLlr : Type
  dLlr : Llr
  dVar : VarMsg
  dCheck : CheckMsg
  dVarLlr : VarLlr
  /-- `input_llr_quantize` on the IEEE-754 bit pattern of the channel LLR -/
  quantize : UInt64 → Llr
  /-- `llr_hard_decision` -/
  hard : Llr → Bool
  toVarMsg : Llr → VarMsg
  toVarLlr : Llr → VarLlr
  ofVarLlr : VarLlr → Llr
  /-- `send_check_messages`: incoming `(source, value)` list ↦ emitted `(dest, value)` list in emission order -/
  checkRule : List (Nat × VarMsg) → Option (List (Nat × CheckMsg))
  /-- `send_var_messages`: channel LLR, incoming `(source, value)` list ↦ new LLR and emitted `(dest, value)` list -/
  varRule : Llr → List (Nat × CheckMsg) → Option (Llr × List (Nat × VarMsg))
  /-- `update_check_messages_and_vars`: one check's `(dest, value)` list and all variable LLRs ↦ updated both -/
  layerRule : List (Nat × CheckMsg) → List VarLlr → Option (List (Nat × CheckMsg) × List VarLlr)

inductive Verdict where
  | success (w : List Bool) (it : Nat)
  | failure (w : List Bool) (it : Nat)
deriving Repr, DecidableEq

def Verdict.word : Verdict → List Bool
  | .success w _ => w
  | .failure w _ => w

def Verdict.iterations : Verdict → Nat
  | .success _ it => it
  | .failure _ it => it

/-- `check_llrs` for one row: the number of hard-decision ones among the row's columns is even -/
def parityOK (w : List Bool) (row : List Nat) : Bool :=
  (row.filter (fun c => w.getD c false)).length % 2 == 0

/-- `check_llrs`: every parity check is satisfied by the word `w` -/
def syndromeOK (h : SM) (w : List Bool) : Bool := h.rows.all (parityOK w)

/-- message store: per destination (resp. per source for the layered decoder) a list of
`(peer index, value)` -/
abbrev Store (β : Type) := List (List (Nat × β))

/-- `Messages::send(source, destination, value)` -/
def sendTo {β : Type} (store : Store β) (src dst : Nat) (v : β) : Option (Store β) :=
  match store[dst]? with
  | none => none                                        -- index out of bounds
  | some slot =>
    match slot.findIdx? (fun p => p.1 == src) with
    | none => none                                      -- "message for source not found"
    | some i => some (store.set dst (slot.set i (src, v)))

/-- a node's rule emits messages one after the other through the `send` closure -/
def sendAll {β : Type} (store : Store β) (src : Nat) (msgs : List (Nat × β)) : Option (Store β) :=
  msgs.foldlM (fun st m => sendTo st src m.1 m.2) store

/-- `Messages::from_iter`: all values default -/
def Store.blank {β : Type} (d : β) (adj : List (List Nat)) : Store β :=
  adj.map (fun l => l.map (fun j => (j, d)))

/-! ## Flooding schedule -/

structure FloodSt (A : Arith) where
  input : List A.Llr
  output : List A.Llr
  checkMsgs : Store A.CheckMsg      -- per variable: (source check, value)
  varMsgs : Store A.VarMsg          -- per check: (source variable, value)

namespace Flood
variable {A : Arith}

/-- `flooding::Decoder::new` -/
def fresh (A : Arith) (h : SM) : FloodSt A :=
  { input := h.cols.map (fun _ => A.dLlr)
    output := h.cols.map (fun _ => A.dLlr)
    checkMsgs := Store.blank A.dCheck h.cols
    varMsgs := Store.blank A.dVar h.rows }

/-- `initialize` (with the output buffer reset, see known finding D4) -/
def initSt (h : SM) (st : FloodSt A) (llrs : List UInt64) : Option (FloodSt A) := do
  let input := llrs.map A.quantize
  let vm ← (List.range input.length).foldlM (fun vm v =>
      sendAll vm v ((h.col v).map (fun c => (c, A.toVarMsg (input.getD v A.dLlr))))) st.varMsgs
  pure { st with input := input, output := input, varMsgs := vm }

/-- `process_check_nodes` -/
def checkPass (st : FloodSt A) : Option (FloodSt A) := do
  let cm ← (List.range st.varMsgs.length).foldlM (fun cm c => do
      let out ← A.checkRule (st.varMsgs.getD c [])
      sendAll cm c out) st.checkMsgs
  pure { st with checkMsgs := cm }

/-- `process_variable_nodes` (the zip stops at the shortest of the three buffers; they all have
`ncols` entries) -/
def varPass (st : FloodSt A) : Option (FloodSt A) := do
  let (vm, outRev) ← (List.range st.checkMsgs.length).foldlM (fun (acc : Store A.VarMsg × List A.Llr) v => do
      let (llr, msgs) ← A.varRule (st.input.getD v A.dLlr) (st.checkMsgs.getD v [])
      let vm ← sendAll acc.1 v msgs
      pure (vm, llr :: acc.2)) (st.varMsgs, [])
  pure { st with varMsgs := vm, output := outRev.reverse }

def hardAll (st : FloodSt A) : List Bool := st.output.map A.hard

/-- the `for iteration in 1..=max_iterations` loop; `rem` iterations remain out of `n` -/
def loop (h : SM) (n : Nat) : Nat → FloodSt A → Option (Verdict × FloodSt A)
  | 0, st => some (.failure (hardAll st) n, st)
  | rem+1, st =>
    match checkPass st with
    | none => none
    | some st1 =>
      match varPass st1 with
      | none => none
      | some st2 =>
        if syndromeOK h (hardAll st2) then some (.success (hardAll st2) (n - rem), st2)
        else loop h n rem st2

/-- `flooding::Decoder::decode` -/
def decode (h : SM) (st : FloodSt A) (llrs : List UInt64) (n : Nat) : Option (Verdict × FloodSt A) :=
  if llrs.length ≠ st.input.length then none                         -- assert_eq!
  else if syndromeOK h (llrs.map f64LeZero) then some (.success (llrs.map f64LeZero) 0, st)
  else match initSt h st llrs with
    | none => none
    | some st0 => loop h n n st0

end Flood

/-! ## Horizontal layered schedule -/

structure HlSt (A : Arith) where
  llrs : List A.VarLlr               -- Qv
  checkMsgs : Store A.CheckMsg       -- Rcv, per check: (dest variable, value)

namespace Hl
variable {A : Arith}

def fresh (A : Arith) (h : SM) : HlSt A :=
  { llrs := h.cols.map (fun _ => A.dVarLlr)
    checkMsgs := Store.blank A.dCheck h.rows }

/-- `initialize`: Qv := channel LLRs, Rcv := 0 (the zip writes `min` of both lengths; they are equal
by the assertion in `decode`) -/
def initSt (st : HlSt A) (llrs : List UInt64) : HlSt A :=
  { llrs := llrs.map (fun y => A.toVarLlr (A.quantize y))
    checkMsgs := st.checkMsgs.map (fun l => l.map (fun p => (p.1, A.dCheck))) }

/-- `process_check_nodes`: the rows one by one, in order, each seeing the variables already updated -/
def checkPass (st : HlSt A) : Option (HlSt A) :=
  let rec go : List (List (Nat × A.CheckMsg)) → List A.VarLlr → Option (List (List (Nat × A.CheckMsg)) × List A.VarLlr)
    | [], vars => some ([], vars)
    | msgs :: rest, vars =>
      match A.layerRule msgs vars with
      | none => none
      | some (msgs', vars') =>
        match go rest vars' with
        | none => none
        | some (rest', vars'') => some (msgs' :: rest', vars'')
  match go st.checkMsgs st.llrs with
  | none => none
  | some (cm, vars) => some { llrs := vars, checkMsgs := cm }

def hardAll (st : HlSt A) : List Bool := st.llrs.map (fun x => A.hard (A.ofVarLlr x))

def loop (h : SM) (n : Nat) : Nat → HlSt A → Option (Verdict × HlSt A)
  | 0, st => some (.failure (hardAll st) n, st)
  | rem+1, st =>
    match checkPass st with
    | none => none
    | some st1 =>
      if syndromeOK h (hardAll st1) then some (.success (hardAll st1) (n - rem), st1)
      else loop h n rem st1

/-- `horizontal_layered::Decoder::decode` -/
def decode (h : SM) (st : HlSt A) (llrs : List UInt64) (n : Nat) : Option (Verdict × HlSt A) :=
  if llrs.length ≠ st.llrs.length then none
  else if syndromeOK h (llrs.map f64LeZero) then some (.success (llrs.map f64LeZero) 0, st)
  else loop h n n (initSt st llrs)

end Hl

/-! ## A decoder object: either schedule, with its state; a history of calls -/

inductive Sched where
  | flooding
  | layered
deriving Repr, DecidableEq

inductive DecSt (A : Arith) where
  | flood (st : FloodSt A)
  | hl (st : HlSt A)

def DecSt.fresh (A : Arith) (s : Sched) (h : SM) : DecSt A :=
  match s with
  | .flooding => .flood (Flood.fresh A h)
  | .layered => .hl (Hl.fresh A h)

def DecSt.decode {A : Arith} (h : SM) (st : DecSt A) (llrs : List UInt64) (n : Nat) : Option (Verdict × DecSt A) :=
  match st with
  | .flood s => (Flood.decode h s llrs n).map (fun p => (p.1, .flood p.2))
  | .hl s => (Hl.decode h s llrs n).map (fun p => (p.1, .hl p.2))

/-- the results of a history of calls on one decoder object (`none` = some call panicked) -/
def DecSt.runHistory {A : Arith} (h : SM) : DecSt A → List (List UInt64 × Nat) → Option (List Verdict)
  | _, [] => some []
  | st, (llrs, n) :: rest =>
    match st.decode h llrs n with
    | none => none
    | some (v, st') =>
      match DecSt.runHistory h st' rest with
      | none => none
      | some vs => some (v :: vs)

end LdpcV
