/-
Model of the alist writer and parser of `src/sparse.rs` (C08).  Core only.

Two layers:
* token layer — `writeLines h padded : List (List Nat)` (the numbers of every output line) and
  `parseLines : List (List (Option Nat)) → Res SM` (every input line as tokens; `none` = a token
  that `usize::from_str` rejects);
* text layer — `render` (decimal, single spaces, `\n` after every line) and `lexLine`
  (`str::split_whitespace` + `usize::from_str`), `splitNL` (`str::split('\n')`).
Outcomes: `Res.ok`, `Res.err` (an `Err(String)`), `Res.panic`.
-/
import LdpcV.Model.Sparse
import LdpcV.Model.Blocks
namespace LdpcV.Alist

/-! ### writer -/

def maxLen (l : List (List Nat)) : Nat := (l.map List.length).foldl max 0

/-- insertion sort (the writer sorts a copy of every index list) -/
def insertSorted (x : Nat) : List Nat → List Nat
  | [] => [x]
  | y :: ys => if x ≤ y then x :: y :: ys else y :: insertSorted x ys

def sortNat (l : List Nat) : List Nat := l.foldr insertSorted []

/-- one index line: sorted 1-based indices, optionally padded with zeros up to `dirlen` entries
(an empty list is written as a single `0` when padding) -/
def indexLine (padded : Bool) (dirlen : Nat) (el : List Nat) : List Nat :=
  let v := (sortNat el).map (· + 1)
  if padded then
    (if el.isEmpty then [0] else v) ++ List.replicate (dirlen - max el.length 1) 0
  else v

/-- `write_alist_maybe_padding` as lines of numbers -/
def writeLines (h : SM) (padded : Bool) : List (List Nat) :=
  [[h.ncols, h.nrows], [maxLen h.cols, maxLen h.rows], h.cols.map List.length, h.rows.map List.length]
  ++ h.cols.map (indexLine padded (maxLen h.cols))
  ++ h.rows.map (indexLine padded (maxLen h.rows))

def digitsOf (n : Nat) : List Char := (Nat.toDigits 10 n)

def renderLine (l : List Nat) : List Char :=
  match l with
  | [] => ['\n']
  | x :: xs => digitsOf x ++ xs.flatMap (fun y => ' ' :: digitsOf y) ++ ['\n']

def render (lines : List (List Nat)) : List Char := lines.flatMap renderLine

/-- `SparseMatrix::alist()` / `alist_no_padding()` -/
def alist (h : SM) (padded : Bool) : List Char := render (writeLines h padded)

/-! ### parser -/

/-- Unicode `White_Space` (what `char::is_whitespace` / `split_whitespace` use) -/
def isWs (c : Char) : Bool :=
  let n := c.toNat
  (9 ≤ n && n ≤ 13) || n == 0x20 || n == 0x85 || n == 0xA0 || n == 0x1680 ||
  (0x2000 ≤ n && n ≤ 0x200A) || n == 0x2028 || n == 0x2029 || n == 0x202F || n == 0x205F || n == 0x3000

/-- `str::split('\n')`: always at least one piece -/
def splitNL (s : List Char) : List (List Char) :=
  let rec go : List Char → List Char → List (List Char)
    | [], cur => [cur.reverse]
    | c :: cs, cur => if c == '\n' then cur.reverse :: go cs [] else go cs (c :: cur)
  go s []

/-- `str::split_whitespace` -/
def splitWs (s : List Char) : List (List Char) :=
  let rec go : List Char → List Char → List (List Char)
    | [], cur => if cur.isEmpty then [] else [cur.reverse]
    | c :: cs, cur =>
      if isWs c then (if cur.isEmpty then go cs [] else cur.reverse :: go cs [])
      else go cs (c :: cur)
  go s []

/-- `usize::from_str`: optional `+`, at least one ASCII digit, value ≤ 2^64 − 1 -/
def parseUsize (t : List Char) : Option Nat :=
  let ds := match t with
    | '+' :: rest => rest
    | _ => t
  if ds.isEmpty then none
  else if ds.all (fun c => '0' ≤ c && c ≤ '9') then
    let v := ds.foldl (fun acc c => acc * 10 + (c.toNat - '0'.toNat)) 0
    if v < 2^64 then some v else none
  else none

def lexLine (s : List Char) : List (Option Nat) := (splitWs s).map parseUsize

/-- the column section: for each column one line; `0` is padding; a row index beyond `nrows` is an error -/
def parseCols (nrows : Nat) : Nat → Nat → List (List (Option Nat)) → SM → Res SM
  | 0, _, _, h => .ok h
  | _ + 1, _, [], _ => .err                       -- "alist does not contain expected number of lines"
  | k + 1, col, line :: rest, h =>
    let rec tokens : List (Option Nat) → SM → Res SM
      | [], h => .ok h
      | none :: _, _ => .err                      -- "row value is not a number"
      | some row :: ts, h =>
        if row = 0 then tokens ts h
        else if row > nrows then .err             -- "row value out of range"
        else match h.insert (row - 1) col with
          | some h' => tokens ts h'
          | none => .panic                        -- index out of bounds (cannot happen, see C08.parse_total)
    match tokens line h with
    | .ok h' => parseCols nrows k (col + 1) rest h'
    | r => r

/-- `from_alist` on lexed lines -/
def parseLines (lines : List (List (Option Nat))) : Res SM :=
  match lines with
  | [] => .err                                    -- (unreachable: `split` yields at least one piece)
  | first :: rest =>
    match first with
    | some ncols :: some nrows :: _ =>
      -- `alist.next()` three times: skip max weights and the two weight lines (missing lines are fine)
      parseCols nrows ncols 0 (rest.drop 3) (SM.new nrows ncols)
    | _ => .err                                   -- missing element / not a number

/-- `SparseMatrix::from_alist` -/
def fromAlist (text : List Char) : Res SM := parseLines ((splitNL text).map lexLine)

end LdpcV.Alist
