/-
Model of `src/sparse/bfs.rs` and the girth functions of `src/sparse.rs` (C11).  Core only.

The queue-driven loops of the Rust code are mirrored literally (VecDeque = List with push at the
back); they take fuel, and `fuelFor` always suffices because every node is enqueued at most once.
`none` = panic (root index out of range).
-/
import LdpcV.Model.Sparse
namespace LdpcV.Graph

inductive Node where
  | row (n : Nat)
  | col (n : Nat)
deriving Repr, DecidableEq, BEq

structure PathHead where
  node : Node
  parent : Option Node
  len : Nat
deriving Repr

/-- `Node::iter`: the neighbours, in the adjacency-list order of the matrix -/
def neighbours (h : SM) : Node → List Node
  | .row n => (h.row n).map Node.col
  | .col n => (h.col n).map Node.row

/-- `PathHead::iter`: neighbours except the parent, one step further -/
def PathHead.next (h : SM) (p : PathHead) : List PathHead :=
  ((neighbours h p.node).filter (fun x => match p.parent with | some q => x != q | none => true)).map
    (fun x => { node := x, parent := some p.node, len := p.len + 1 })

/-- `BFSResults` (and, for the local girth, the branch labels) -/
structure Labels (α : Type) where
  rows : List (Option α)
  cols : List (Option α)
deriving Repr

def Labels.get {α : Type} (l : Labels α) : Node → Option (Option α)
  | .row n => l.rows[n]?
  | .col n => l.cols[n]?

def Labels.set {α : Type} (l : Labels α) (x : Node) (v : α) : Labels α :=
  match x with
  | .row n => { l with rows := l.rows.set n (some v) }
  | .col n => { l with cols := l.cols.set n (some v) }

def Labels.blank {α : Type} (h : SM) : Labels α :=
  { rows := List.replicate h.nrows none, cols := List.replicate h.ncols none }

def inRange (h : SM) : Node → Bool
  | .row n => decide (n < h.nrows)
  | .col n => decide (n < h.ncols)

def fuelFor (h : SM) : Nat := h.nrows + h.ncols + 1

/-! ### BFS distances -/

/-- the inner `for next_head in head.iter(h)` loop of `bfs()` -/
def bfsVisit (dist : Labels Nat) (queue : List PathHead) : List PathHead → Labels Nat × List PathHead
  | [] => (dist, queue)
  | nh :: rest =>
    match dist.get nh.node with
    | some none => bfsVisit (dist.set nh.node nh.len) (queue ++ [nh]) rest
    | _ => bfsVisit dist queue rest      -- already labelled (an out-of-range neighbour cannot occur under Inv)

def bfsLoop (h : SM) : Nat → Labels Nat → List PathHead → Labels Nat
  | 0, dist, _ => dist
  | _, dist, [] => dist
  | fuel + 1, dist, head :: queue =>
    let (dist', queue') := bfsVisit dist queue (head.next h)
    bfsLoop h fuel dist' queue'

/-- `SparseMatrix::bfs(node)` -/
def bfs (h : SM) (root : Node) : Option (Labels Nat) :=
  if inRange h root then
    some (bfsLoop h (fuelFor h) ((Labels.blank h).set root 0) [{ node := root, parent := none, len := 0 }])
  else none

/-! ### local girth (branch-labelled BFS, the code after the repair of defect D5) -/

inductive Step where
  | continue (dist : Labels Nat) (branch : Labels Node) (queue : List PathHead)
  | found (total : Nat)

def girthVisit (max : Nat) (headBranch : Option Node) (dist : Labels Nat) (branch : Labels Node)
    (queue : List PathHead) : List PathHead → Step
  | [] => .continue dist branch queue
  | nh :: rest =>
    let br := headBranch.getD nh.node          -- nodes adjacent to the root start their own branch
    match dist.get nh.node with
    | some (some d) =>
      if (branch.get nh.node).getD none == some br then
        girthVisit max headBranch dist branch queue rest      -- cycle that does not contain the root
      else .found (d + nh.len)
    | _ =>
      let dist' := dist.set nh.node nh.len
      let branch' := branch.set nh.node br
      let queue' := if nh.len < max then queue ++ [nh] else queue
      girthVisit max headBranch dist' branch' queue' rest

def girthLoop (h : SM) (max : Nat) : Nat → Labels Nat → Labels Node → List PathHead → Option Nat
  | 0, _, _, _ => none
  | _, _, _, [] => none
  | fuel + 1, dist, branch, head :: queue =>
    match girthVisit max ((branch.get head.node).getD none) dist branch queue (head.next h) with
    | .found total => if total ≤ max then some total else none
    | .continue dist' branch' queue' => girthLoop h max fuel dist' branch' queue'

/-- `girth_at_node_with_max(node, max)`; outer `none` = panic, inner `none` = no cycle found;
`max = none` stands for `usize::MAX` -/
def localGirth (h : SM) (root : Node) (max : Option Nat) : Option (Option Nat) :=
  if inRange h root then
    let mx := max.getD (2 * (h.nrows + h.ncols) + 2)       -- larger than any path length
    some (girthLoop h mx (fuelFor h) ((Labels.blank h).set root 0) (Labels.blank h)
      [{ node := root, parent := none, len := 0 }])
  else none

def minOpt : List (Option Nat) → Option Nat
  | [] => none
  | none :: t => minOpt t
  | some a :: t => match minOpt t with
    | none => some a
    | some b => some (min a b)

/-- `girth_with_max(max)`: minimum over all column roots -/
def girth (h : SM) (max : Option Nat) : Option Nat :=
  minOpt ((List.range h.ncols).map (fun c => (localGirth h (.col c) max).getD none))

end LdpcV.Graph
