/-
Line protocol helpers shared by all drivers (core only).

Encodings (all tokens are separated by single spaces):
  Nat list        `1,2,3`         empty list `-`
  list of lists   `1,2;-;3`       empty outer list `_`
  Int list        `-1,2,-3`       empty list `.`      (Ints may be negative, so `-` cannot be used)
  Bool list       `0110`          empty list `-`
  matrix (SM)     `<rows-list-of-lists> <cols-list-of-lists>`
A case line is  `<tag> <input tokens…> => <implementation output tokens…>`.
The driver answers with one line per case:
  `ok <model output>` | `MISMATCH <model output>` | `PROPFAIL <reason> :: <model output>` | `BADLINE <why>`
-/
import LdpcV.Model.Sparse
namespace LdpcV.Proto

def parseNatList (s : String) : Option (List Nat) :=
  if s == "-" then some [] else (s.splitOn ",").mapM String.toNat?

def parseIntList (s : String) : Option (List Int) :=
  if s == "." then some [] else (s.splitOn ",").mapM String.toInt?

def parseLL (s : String) : Option (List (List Nat)) :=
  if s == "_" then some [] else (s.splitOn ";").mapM parseNatList

def parseBools (s : String) : Option (List Bool) :=
  if s == "-" then some [] else s.toList.mapM (fun c => if c == '0' then some false else if c == '1' then some true else none)

def showNatList (l : List Nat) : String :=
  if l.isEmpty then "-" else ",".intercalate (l.map toString)

def showIntList (l : List Int) : String :=
  if l.isEmpty then "." else ",".intercalate (l.map toString)

def showLL (l : List (List Nat)) : String :=
  if l.isEmpty then "_" else ";".intercalate (l.map showNatList)

def showBools (l : List Bool) : String :=
  if l.isEmpty then "-" else String.ofList (l.map (fun b => if b then '1' else '0'))

def showSM (h : SM) : String := showLL h.rows ++ " " ++ showLL h.cols

def parseSM (r c : String) : Option SM := do
  let rows ← parseLL r
  let cols ← parseLL c
  pure ⟨rows, cols⟩

def showOptNat : Option Nat → String
  | none => "none"
  | some n => toString n

def parseOptNat (s : String) : Option (Option Nat) :=
  if s == "none" then some none else s.toNat?.map some

/-- split a case line at the `=>` token -/
def splitCase (line : String) : List String × List String :=
  let toks := (line.trimAscii.toString.splitOn " ").filter (· ≠ "")
  let inp := toks.takeWhile (· ≠ "=>")
  let out := (toks.dropWhile (· ≠ "=>")).drop 1
  (inp, out)

def verdict (modelOut implOut : List String) (prop : Option String := none) : String :=
  let m := " ".intercalate modelOut
  match prop with
  | some why => s!"PROPFAIL {why} :: {m}"
  | none => if modelOut == implOut then s!"ok {m}" else s!"MISMATCH {m}"

end LdpcV.Proto
