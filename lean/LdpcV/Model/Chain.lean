/-
Model of the transmit / receive chain of `Worker::simulate` and of the bookkeeping of `BerTest::new`
(C12), generic over the scalar record.  Core only.

tx = modulate ∘ interleave? ∘ puncture?        (after the systematic encoder)
rx = depuncture? ∘ deinterleave? ∘ demodulate   (before the decoder)
The channel adds noise between the two; `noiseless` is the chain with zero noise.
-/
import LdpcV.Model.Blocks
import LdpcV.Model.Modulation
namespace LdpcV.Chain
open LdpcV.Blocks LdpcV.Modulation

structure Config where
  /-- puncturing pattern (`None` = no puncturer) -/
  pattern : Option (List Bool)
  /-- interleaver columns and read direction (`interleaving_columns = ±c`) -/
  interleave : Option (Nat × Bool)
  /-- 8PSK (true) or BPSK (false) -/
  psk8 : Bool
deriving Repr

variable {α : Type}

def Res.bind {β γ : Type} (r : Res β) (f : β → Res γ) : Res γ :=
  match r with
  | .ok x => f x
  | .err => .err
  | .panic => .panic

/-- bits on the air: puncture, then interleave -/
def txBits (cfg : Config) (cw : List Bool) : Res (List Bool) :=
  Res.bind (match cfg.pattern with | some p => puncture p cw | none => .ok cw) (fun t =>
    match cfg.interleave with
    | some (c, bw) => interleave c bw t
    | none => .ok t)

/-- noiseless demodulated LLRs of the transmitted bits (modulate, then demodulate with noise level σ) -/
def airLlrs (S : Sc α) (cfg : Config) (sigma : α) (bits : List Bool) : Res (List α) :=
  if cfg.psk8 then
    match psk8ModAll S bits with
    | some syms => .ok (psk8DemodAll S sigma syms)
    | none => .panic                         -- assert_eq!(len % 3, 0)
  else .ok (bits.map (fun b => bpskDemod S sigma (bpskMod S b)))

/-- receive side: deinterleave, then depuncture (zeros in the punctured blocks) -/
def rxLlrs (S : Sc α) (cfg : Config) (llrs : List α) : Res (List α) :=
  Res.bind (match cfg.interleave with | some (c, bw) => deinterleave c bw llrs | none => .ok llrs) (fun t =>
    match cfg.pattern with
    | some p => depuncture (S.rat 0 1) p t
    | none => .ok t)

/-- what the decoder is handed for codeword `cw` when the channel adds no noise -/
def noiseless (S : Sc α) (cfg : Config) (sigma : α) (cw : List Bool) : Res (List α) :=
  Res.bind (txBits cfg cw) (fun bits => Res.bind (airLlrs S cfg sigma bits) (rxLlrs S cfg))

/-- codeword positions that are punctured (block `i / B` of the pattern is false) -/
def punctured (cfg : Config) (ncw i : Nat) : Bool :=
  match cfg.pattern with
  | some p => !(p.getD (i / (ncw / p.length)) true)
  | none => false

/-- `BerTest::new`: transmitted frame size `n = n_cw · trues / |pattern|` (exact when the pattern length divides `n_cw`) -/
def frameSize (cfg : Config) (ncw : Nat) : Nat :=
  match cfg.pattern with
  | some p => ncw * numTrues p / p.length
  | none => ncw

def bitsPerSymbol (cfg : Config) : Nat := if cfg.psk8 then 3 else 1

end LdpcV.Chain
