/-
The *ideal* sum-product arithmetic (what `Phif64` / `Tanhf64` compute up to rounding and their clamps) as an `Arith`
record over a scalar record `Sc α`, the textbook schedules of LdpcV/Spec/BPRef.lean run with it *without* the
syndrome stop (so that "the per-bit LLRs after t iterations" is a defined quantity), and the true posterior of the
code given the channel LLRs by brute-force marginalisation (C03, exactness clause).  Core only, executable at
`Sc.float`; the theorems (LdpcV/Props/C03Tree.lean) are about the instance at `ℝ`.
-/
import LdpcV.Model.ArithF
import LdpcV.Spec.BPRef
namespace LdpcV.Ideal

variable {α : Type}

/-- exact check-node rule: the message to each neighbour is `2·atanh(Π_{others} tanh(x/2))` -/
def checkRule (S : Sc α) (msgs : List (Nat × α)) : List (Nat × α) :=
  msgs.map (fun ex =>
    (ex.1, S.mul (S.rat 2 1) (S.atanh (ArithF.tanhProd S ((msgs.filter (fun t => t.1 != ex.1)).map (·.2))))))

/-- the ideal sum-product arithmetic over the scalars `S` (channel LLRs are given as scalars; `quantize` is unused) -/
def arith (S : Sc α) : Arith where
  Llr := α
  VarMsg := α
  CheckMsg := α
  VarLlr := α
  dLlr := ArithF.zero S
  dVar := ArithF.zero S
  dCheck := ArithF.zero S
  dVarLlr := ArithF.zero S
  quantize := fun _ => ArithF.zero S
  hard := fun x => S.le x (ArithF.zero S)
  toVarMsg := id
  toVarLlr := id
  ofVarLlr := id
  checkRule := fun msgs => some (checkRule S msgs)
  varRule := fun x msgs => some (ArithF.varRule S x msgs)
  layerRule := ArithF.layerBy S (fun m => some (checkRule S m))

/-- `t` flooding iterations of the textbook schedule (`BPRef.floodIter`) from the channel LLRs `lam`, without the
syndrome stop: the per-variable emitted lists and the per-bit LLRs after `t` iterations -/
def floodRun (S : Sc α) (h : SM) (lam : List α) : Nat → Option (List (List (Nat × α)) × List α)
  | 0 => some (BPRef.initEmitted (A := arith S) h lam, lam)
  | t + 1 =>
    match floodRun S h lam t with
    | none => none
    | some (em, _) => (BPRef.floodIter (A := arith S) h lam em).map (fun r => (r.1, r.2.1))

/-- `t` layered iterations of the textbook schedule (`BPRef.layerIter`), without the syndrome stop -/
def layerRun (S : Sc α) (h : SM) (lam : List α) : Nat → Option (List (List (Nat × α)) × List α)
  | 0 => some (Store.blank (ArithF.zero S) h.rows, lam)
  | t + 1 =>
    match layerRun S h lam t with
    | none => none
    | some (rcv, vars) => (BPRef.layerIter (A := arith S) 0 rcv vars).map (fun r => (r.1, r.2.1))

/-- the same two schedules (no syndrome stop) for an ARBITRARY arithmetic record, on already quantised channel values -/
def floodRunA (A : Arith) (h : SM) (lam : List A.Llr) : Nat → Option (List (List (Nat × A.VarMsg)) × List A.Llr)
  | 0 => some (BPRef.initEmitted (A := A) h lam, lam)
  | t + 1 =>
    match floodRunA A h lam t with
    | none => none
    | some (em, _) => (BPRef.floodIter (A := A) h lam em).map (fun r => (r.1, r.2.1))

def layerRunA (A : Arith) (h : SM) (lam : List A.Llr) : Nat → Option (List (List (Nat × A.CheckMsg)) × List A.VarLlr)
  | 0 => some (Store.blank A.dCheck h.rows, lam.map A.toVarLlr)
  | t + 1 =>
    match layerRunA A h lam t with
    | none => none
    | some (rcv, vars) => (BPRef.layerIter (A := A) 0 rcv vars).map (fun r => (r.1, r.2.1))

/-- all words of length `n` -/
def allWords : Nat → List (List Bool)
  | 0 => [[]]
  | n + 1 => (allWords n).flatMap (fun w => [false :: w, true :: w])

/-- likelihood weight of a word, up to a common factor: `Π_{j : w_j = 1} e^{-λ_j}` (since `P(y_j|0)/P(y_j|1) = e^{λ_j}`) -/
def weight (S : Sc α) (lam : List α) (w : List Bool) : α :=
  ((w.zip lam).map (fun p => if p.1 then S.exp (S.neg p.2) else S.rat 1 1)).foldl S.mul (S.rat 1 1)

/-- total weight of the codewords of `h` whose bit `v` equals `b` -/
def mass (S : Sc α) (h : SM) (lam : List α) (v : Nat) (b : Bool) : α :=
  (((allWords h.ncols).filter (fun w => syndromeOK h w && (w.getD v false == b))).map (weight S lam)).foldl S.add (S.rat 0 1)

/-- the true posterior LLR of bit `v` given the channel LLRs: `ln (mass 0 / mass 1)` -/
def posterior (S : Sc α) (h : SM) (lam : List α) (v : Nat) : α :=
  S.log (S.div (mass S h lam v false) (mass S h lam v true))

end LdpcV.Ideal
