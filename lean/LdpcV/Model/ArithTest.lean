/-
Checker-supplied arithmetics (C03): the same two rule sets exist in the Rust harness
(`harness/src/arith_test.rs`) as implementations of the public `DecoderArithmetic` trait.
`IntMinSum` is an exact integer min-sum; `Affine` is deliberately asymmetric — every value depends on
the source index, the slot position and the degree, and it emits in reverse order — so any
mis-routed, mis-ordered or stale message changes the outputs.
-/
import LdpcV.Model.ArithI8
namespace LdpcV.ArithTest

def wrap (x : Int) : Int := x % 10007 - 5000

/-! ### IntMinSum -/

def minAbs : List Int → Int
  | [] => 1000
  | [v] => Int.ofNat v.natAbs
  | v :: vs => min (Int.ofNat v.natAbs) (minAbs vs)

def msCheck (msgs : List (Nat × Int)) : Option (List (Nat × Int)) :=
  some (msgs.map (fun ex =>
    let others := (msgs.filter (fun m => m.1 != ex.1)).map (·.2)
    let mag := minAbs others
    (ex.1, if I8.signParity others then -mag else mag)))

def msVar (input : Int) (msgs : List (Nat × Int)) : Option (Int × List (Nat × Int)) :=
  let llr := input + (msgs.map (·.2)).foldl (· + ·) 0
  some (llr, msgs.map (fun m => (m.1, llr - m.2)))

def msLayer (msgs : List (Nat × Int)) (vars : List Int) : Option (List (Nat × Int) × List Int) := do
  let ext ← msgs.mapM (fun m => (vars[m.1]?).map (fun q => (m.1, q - m.2)))
  let news := ext.map (fun ex =>
    let others := (ext.filter (fun m => m.1 != ex.1)).map (·.2)
    let mag := minAbs others
    (ex.1, if I8.signParity others then -mag else mag))
  let vars' := (ext.zip news).foldl (fun vs p => vs.set p.1.1 (p.1.2 + p.2.2)) vars
  pure (news, vars')

def intMinSum : Arith where
  Llr := Int
  VarMsg := Int
  CheckMsg := Int
  VarLlr := Int
  dLlr := 0
  dVar := 0
  dCheck := 0
  dVarLlr := 0
  quantize := I8.quantize
  hard := fun x => decide (x ≤ 0)
  toVarMsg := id
  toVarLlr := id
  ofVarLlr := id
  checkRule := msCheck
  varRule := msVar
  layerRule := msLayer

/-! ### Affine -/

def affCheck (msgs : List (Nat × Int)) : Option (List (Nat × Int)) :=
  let n := msgs.length
  let idx := msgs.zipIdx
  some ((idx.map (fun ex =>
    let s := (idx.filter (fun m => m.2 != ex.2)).foldl (fun a m => a + ((m.2 : Int) + 1) * m.1.2 * 3) 0
    (ex.1.1, wrap (s + 7 * ex.1.1 + 11 * ex.2 + 13 * n)))).reverse)

def affVar (input : Int) (msgs : List (Nat × Int)) : Option (Int × List (Nat × Int)) :=
  let idx := msgs.zipIdx
  let llr := wrap (input * 5 + idx.foldl (fun a m => a + ((m.2 : Int) + 2) * m.1.2) 0)
  some (llr, (idx.map (fun m => (m.1.1, wrap (llr * 3 + 17 * m.1.1 + 19 * m.2 - m.1.2)))).reverse)

def affLayer (msgs : List (Nat × Int)) (vars : List Int) : Option (List (Nat × Int) × List Int) := do
  let ext ← msgs.mapM (fun m => (vars[m.1]?).map (fun q => q - m.2))
  let s := ext.zipIdx.foldl (fun a m => a + ((m.2 : Int) + 1) * m.1) 0
  let news := msgs.zipIdx.map (fun m => (m.1.1, wrap (s + 23 * m.1.1 + 29 * m.2)))
  let vars' ← news.foldlM (fun vs p => do
    let q ← vs[p.1]?
    pure (vs.set p.1 (wrap (q * 3 + p.2)))) vars
  pure (news, vars')

def affine : Arith where
  Llr := Int
  VarMsg := Int
  CheckMsg := Int
  VarLlr := Int
  dLlr := 0
  dVar := 0
  dCheck := 0
  dVarLlr := 0
  quantize := I8.quantize
  hard := fun x => decide (x ≤ 0)
  toVarMsg := fun x => 2 * x + 1
  toVarLlr := fun x => x + 3
  ofVarLlr := fun x => x - 3
  checkRule := affCheck
  varRule := affVar
  layerRule := affLayer

end LdpcV.ArithTest
