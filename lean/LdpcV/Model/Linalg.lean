/-
Model of `src/gf2.rs`, `src/linalg.rs`, `src/encoder.rs`, `src/encoder/staircase.rs`,
`src/systematic.rs` (C02, C09).  Core only.

Dense GF(2) matrices are `List (List Bool)` (row major, `true` = 1), mirroring `Array2<GF2>`.
Addition = subtraction = xor, multiplication = and, division by a non-zero element is the identity
(division by zero panics in `gf2.rs`; it is never reached because pivots are non-zero).
The elimination routines are written loop for loop like `linalg.rs`, including the fact that row
operations only touch the columns `j..m` (the part left of the pivot column is not updated).
-/
import LdpcV.Model.Sparse
import LdpcV.Model.Blocks
namespace LdpcV.Lin

abbrev Mat := List (List Bool)

def Mat.get (a : Mat) (i j : Nat) : Bool := (a.getD i []).getD j false

/-- dense n×m matrix of a sparse one with a column map (`a[[j, f k]] = 1` for every entry `(j, k)`) -/
def ofSM (h : SM) (f : Nat → Nat) : Mat :=
  (List.range h.nrows).map (fun r => (List.range h.ncols).map (fun t => (h.row r).any (fun k => f k == t)))

/-- first row index `≥ from` whose entry in column `col` is non-zero -/
def findPivot (a : Mat) (start col : Nat) : Option Nat :=
  ((List.range a.length).filter (fun i => start ≤ i && a.get i col)).head?

/-- swap rows `i` and `k` on the columns `from..` only (`array.swap([j,t],[k,t])` for `t in j..m`) -/
def swapFrom (a : Mat) (i k start : Nat) : Mat :=
  let ri := a.getD i []
  let rk := a.getD k []
  let mix (x y : List Bool) : List Bool := (x.zip y).zipIdx.map (fun p => if start ≤ p.2 then p.1.2 else p.1.1)
  (a.set i (mix ri rk)).set k (mix rk ri)

/-- `row_t[u] -= row_j[u]` for `u in from..m` -/
def xorFrom (rt rj : List Bool) (start : Nat) : List Bool :=
  (rt.zip rj).zipIdx.map (fun p => if start ≤ p.2 then xor p.1.1 p.1.2 else p.1.1)

/-- eliminate column `col` (from column `start` on) in all rows whose index satisfies `sel`, using row `piv` -/
def eliminate (a : Mat) (piv col start : Nat) (sel : Nat → Bool) : Mat :=
  let rp := a.getD piv []
  a.zipIdx.map (fun p => if sel p.2 && p.1.getD col false then xorFrom p.1 rp start else p.1)

/-- forward phase of `gauss_reduction`: column `j = n - rem` -/
def gaussForward (n : Nat) : Nat → Mat → Option Mat
  | 0, a => some a
  | rem + 1, a =>
    let j := n - (rem + 1)
    match findPivot a j j with
    | none => none                                    -- Err(NotInvertible)
    | some k =>
      let a := if k ≠ j then swapFrom a j k j else a
      -- dividing row j by a[j][j] = 1 is the identity
      let a := eliminate a j j j (fun t => j < t)
      gaussForward n rem a

/-- backward phase: `for j in (0..n).rev()`, eliminate above the diagonal -/
def gaussBackward : Nat → Mat → Mat
  | 0, a => a
  | j + 1, a => gaussBackward j (eliminate a j j j (fun t => t < j))

/-- `linalg::gauss_reduction`: `none` = panic (`assert!(n <= m)`), `some none` = `Err(NotInvertible)` -/
def gaussReduction (a : Mat) (n m : Nat) : Option (Option Mat) :=
  if n > m then none else
  match gaussForward n n a with
  | none => some none
  | some a' => some (some (gaussBackward n a'))

/-- `linalg::row_echelon_form`; `fuel` bounds the `while j < m && k < n` loop (one column per step) -/
def rowEchelon (n m : Nat) : Nat → Nat → Nat → Mat → Mat
  | 0, _, _, a => a
  | fuel + 1, j, k, a =>
    if j < m ∧ k < n then
      match findPivot a k j with
      | none => rowEchelon n m fuel (j + 1) k a
      | some s =>
        let a := if s ≠ k then swapFrom a s k j else a
        let a := eliminate a k j j (fun t => k < t)
        rowEchelon n m fuel (j + 1) (k + 1) a
    else a

def rowEchelonForm (a : Mat) (n m : Nat) : Mat := rowEchelon n m m 0 0 a

/-! ### encoder -/

inductive Encoder where
  | staircase (h0 : SM)
  | dense (g : Mat)
deriving Repr, DecidableEq

/-- `staircase::is_staircase`; `none` = panic (`m - n` underflows when there are more rows than columns) -/
def isStaircase (h : SM) : Option Bool :=
  let n := h.nrows
  let m := h.ncols
  if n > m then (if h.iterAll.isEmpty then some (decide (0 = 2 * n - 1)) else none) else
  let tail := h.iterAll.filter (fun p => m - n ≤ p.2)
  -- the scan returns false at the first unexpected entry; otherwise counts
  if tail.all (fun p => if p.1 = 0 then p.2 = m - n else (p.2 = m - n + p.1 - 1 ∨ p.2 = m - n + p.1))
  then (if n = 0 then none else some (decide (tail.length = 2 * n - 1)))     -- `2*n - 1` underflows for n = 0
  else some false

/-- `Encoder::from_h` -/
def fromH (h : SM) : Res Encoder :=
  let n := h.nrows
  let m := h.ncols
  match isStaircase h with
  | none => .panic
  | some true =>
    -- H0 = the entries left of the parity part, inserted in `iter_all` order
    match (h.iterAll.filter (fun p => p.2 < m - n)).foldlM (fun g p => g.insert p.1 p.2) (SM.new n (m - n)) with
    | some g => .ok (.staircase g)
    | none => .panic
  | some false =>
    if n > m then .panic else
    let a := ofSM h (fun k => if k < m - n then k + n else k - (m - n))
    match gaussReduction a n m with
    | none => .panic
    | some none => .err                              -- SubmatrixNotInvertible
    | some (some a') => .ok (.dense (a'.map (fun row => row.drop n)))

def xorAll (l : List Bool) : Bool := l.foldl xor false

/-- `Encoder::encode`; `none` = panic (shape mismatch / index out of bounds) -/
def encode (e : Encoder) (msg : List Bool) : Option (List Bool) :=
  match e with
  | .dense g =>
    if g.all (fun row => row.length = msg.length) then
      some (msg ++ g.map (fun row => xorAll ((row.zip msg).map (fun p => p.1 && p.2))))
    else none
  | .staircase h0 =>
    if (h0.rows.all (fun row => row.all (· < msg.length))) then
      let raw := h0.rows.map (fun row => xorAll (row.map (fun k => msg.getD k false)))
      -- running sums
      let acc := raw.foldl (fun (st : Bool × List Bool) b => let s := xor st.1 b; (s, s :: st.2)) (false, [])
      some (msg ++ acc.2.reverse)
    else none

/-! ### systematic conversion -/

/-- the column-placement loop of `parity_to_systematic` (after the repair of defect D3):
returns for each output column the input column placed there; `none` = an assertion failed -/
def placeColumns (a : Mat) (n m : Nat) : Option (List (Nat × Nat)) :=
  -- state: (j0, k, placements)
  let rec rows : Nat → Nat → Nat → Nat → List (Nat × Nat) → Option (Nat × Nat × List (Nat × Nat))
    | 0, _, j0, k, acc => some (j0, k, acc)
    | rem + 1, j, j0, k, acc =>
      -- scan s = j0.. until a non-zero entry in row j
      let rec scan : Nat → Nat → Nat → List (Nat × Nat) → Option (Nat × Nat × List (Nat × Nat))
        | 0, _, _, _ => none                                       -- assert!(found)
        | f + 1, s, k, acc =>
          if a.get j s = false then
            (if k < m - n then scan f (s + 1) (k + 1) ((k, s) :: acc) else none)   -- assert!(k < m - n)
          else some (s + 1, k, (m - n + j, s) :: acc)
      match scan (m - j0) j0 k acc with
      | none => none
      | some (j0', k', acc') => rows rem (j + 1) j0' k' acc'
  match rows n 0 0 0 [] with
  | none => none
  | some (j0, k, acc) =>
    -- remaining columns at the write point
    let rest := (List.range (m - j0)).map (· + j0)
    if k + rest.length ≤ m - n then some (acc.reverse ++ rest.zipIdx.map (fun p => (k + p.2, p.1)))
    else none                                                       -- assert!(k < m - n)

inductive SysRes where
  | ok (h : SM)
  | overdetermined
  | notFullRank
  | panic
deriving Repr, DecidableEq

/-- `systematic::parity_to_systematic` -/
def paritySystematic (h : SM) : SysRes :=
  let n := h.nrows
  let m := h.ncols
  if n > m then .overdetermined else
  if n = 0 then (if m = 0 then .notFullRank else .panic) else        -- `a[[n - 1, j]]` underflows (never evaluated when m = 0)
  let a := rowEchelonForm (ofSM h id) n m
  if ¬ (List.range m).any (fun j => a.get (n - 1) j) then .notFullRank else
  match placeColumns a n m with
  | none => .panic
  | some placements =>
    -- copy the columns: `for &u in h.iter_col(s) { h_new.insert(u, dest) }` in placement order
    match placements.foldlM (fun g p => (h.col p.2).foldlM (fun g u => g.insert u p.1) g) (SM.new n m) with
    | some g => .ok g
    | none => .panic

end LdpcV.Lin
