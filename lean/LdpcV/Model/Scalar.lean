/-
A record of scalar operations, so that every floating-point formula of the Rust code is written
ONCE (generically) and instantiated (i) at `Float` for execution and numeric comparison with the
implementation and (ii) at `ℝ` (in LdpcV/Lemmas/RealScalar.lean, which imports Mathlib) for theorems.
The theorems are therefore about the real-number semantics of the very same formula text; IEEE
rounding is not covered by any theorem.  Core only.
-/
namespace LdpcV

structure Sc (α : Type) where
  add : α → α → α
  sub : α → α → α
  mul : α → α → α
  div : α → α → α
  neg : α → α
  abs : α → α
  max : α → α → α
  min : α → α → α
  exp : α → α
  log : α → α
  /-- `ln_1p` -/
  log1p : α → α
  tanh : α → α
  atanh : α → α
  sqrt : α → α
  /-- the rational literal `num / den` -/
  rat : Int → Nat → α
  /-- `a < b` -/
  lt : α → α → Bool
  /-- `a <= b` -/
  le : α → α → Bool

/-- the `Float` (IEEE binary64) instance; `ln_1p` is evaluated as `log (1 + x)` -/
def Sc.float : Sc Float where
  add := (· + ·)
  sub := (· - ·)
  mul := (· * ·)
  div := (· / ·)
  neg := fun x => -x
  abs := Float.abs
  max := fun a b => if a < b then b else a
  min := fun a b => if b < a then b else a
  exp := Float.exp
  log := Float.log
  log1p := fun x => Float.log (1 + x)
  tanh := Float.tanh
  atanh := Float.atanh
  sqrt := Float.sqrt
  rat := fun n d => Float.ofInt n / Float.ofNat d
  lt := fun a b => a < b
  le := fun a b => a ≤ b

/-- the `Float32` (IEEE binary32) instance, for the `…f32` arithmetics -/
def Sc.float32 : Sc Float32 where
  add := (· + ·)
  sub := (· - ·)
  mul := (· * ·)
  div := (· / ·)
  neg := fun x => -x
  abs := Float32.abs
  max := fun a b => if a < b then b else a
  min := fun a b => if b < a then b else a
  exp := Float32.exp
  log := Float32.log
  log1p := fun x => Float32.log (1 + x)
  tanh := Float32.tanh
  atanh := Float32.atanh
  sqrt := Float32.sqrt
  rat := fun n d => Float32.ofInt n / Float32.ofNat d
  lt := fun a b => a < b
  le := fun a b => a ≤ b

end LdpcV
