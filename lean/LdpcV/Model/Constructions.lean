/-
Models of the pseudorandom constructions `src/peg.rs` and `src/mackay_neal.rs` (C16).  Core only.

The pseudorandom generator is NOT modelled.  Every place where the Rust code draws from the generator
is a parameter of the model (a choice sequence); a choice that the code could not have made (it does
not satisfy the selection rule in the current state) makes the run `none`.  Theorems quantified over
all choice sequences therefore hold for every seed.
-/
import LdpcV.Model.Sparse
import LdpcV.Model.Graph
namespace LdpcV.Constr
open LdpcV.Graph

/-! ### PEG -/

/-- the selection key of `Peg::insert_edge`: unreachable first, then larger distance, then smaller row weight.
`keyLt a b` = `a` is strictly better than `b` -/
def pegBetter (a b : Option Nat × Nat) : Bool :=
  match a.1, b.1 with
  | none, none => a.2 < b.2
  | none, some _ => true
  | some _, none => false
  | some x, some y => if x = y then a.2 < b.2 else x > y

/-- the rows among which `sort_by_random_min` picks one at random: those no other row is better than -/
def pegAdmissible (h : SM) (col : Nat) : List Nat :=
  match bfs h (.col col) with
  | none => []
  | some d =>
    let keys := (List.range h.nrows).map (fun r => (r, ((d.rows.getD r none), (h.row r).length)))
    (keys.filter (fun k => !(keys.any (fun k' => pegBetter k'.2 k.2)))).map (·.1)

/-- run PEG with a given sequence of random picks (one per inserted edge, column by column, `wc` per column);
`none` = not a run of the algorithm (a pick outside the admissible set, or too few picks) -/
def pegRun (wc ncols : Nat) : SM → Nat → Nat → List Nat → Option SM
  | h, col, left, [] =>
    -- no picks left: all columns must be complete
    if col ≥ ncols || (left == 0 && col + 1 ≥ ncols) then some h else none
  | h, col, left, r :: rest =>
    -- `for col in 0..ncols { for _ in 0..wc { insert_edge(col) } }`: move on to the next column when this one is complete
    let col := if left = 0 then col + 1 else col
    let left := if left = 0 then wc else left
    if col ≥ ncols || left == 0 then none
    else if (pegAdmissible h col).contains r then
      match h.insert r col with
      | some h' => pegRun wc ncols h' col (left - 1) rest
      | none => none
    else none

def peg (nrows ncols wc : Nat) (picks : List Nat) : Option SM :=
  if wc = 0 then (if picks.isEmpty then some (SM.new nrows ncols) else none)
  else pegRun wc ncols (SM.new nrows ncols) 0 wc picks

/-- replay of one column for the validator: its rows in insertion order, each admissible (and not yet adjacent) when inserted -/
def pegReplayCol (col : Nat) : SM → List Nat → Option SM
  | h, [] => some h
  | h, r :: rest =>
    if (pegAdmissible h col).contains r && !(h.has r col) then
      match h.insert r col with
      | some h' => pegReplayCol col h' rest
      | none => none
    else none

/-- validator for a finished PEG matrix: replay the per-column insertion order read off the column lists; every
column must have `min wc nrows` entries (once all rows are adjacent the remaining picks re-insert an adjacent row, a no-op) -/
def pegAccepts (nrows ncols wc : Nat) (H : SM) : Bool :=
  H.nrows == nrows && H.ncols == ncols &&
  (match (List.range ncols).foldlM (fun h c =>
      if (H.col c).length == min wc nrows then pegReplayCol c h (H.col c) else none) (SM.new nrows ncols) with
   | some H' => H' == H
   | none => false)

/-! ### MacKay–Neal -/

inductive Policy where
  | random
  | uniform
deriving Repr, DecidableEq

structure MnCfg where
  nrows : Nat
  ncols : Nat
  wr : Nat
  wc : Nat
  backtrackCols : Nat
  backtrackTrials : Nat
  minGirth : Option Nat
  girthTrials : Nat
  policy : Policy
deriving Repr

structure MnSt where
  h : SM
  col : Nat
  backtrackTrials : Nat
  girthTrials : Nat
deriving Repr

inductive MnErr where
  | noMoreBacktrack
  | noMoreTrials
deriving Repr, DecidableEq

def availRows (cfg : MnCfg) (h : SM) : List Nat := (List.range h.nrows).filter (fun r => (h.row r).length < cfg.wr)

/-- is `rows` a selection `select_rows` can return in state `h`?  `wc` distinct available rows; under the
uniform policy no unchosen available row is strictly lighter than a chosen one -/
def admissibleRows (cfg : MnCfg) (h : SM) (rows : List Nat) : Bool :=
  let av := availRows cfg h
  rows.length == cfg.wc && decide rows.Nodup && rows.all (av.contains ·) &&
  (match cfg.policy with
   | .random => true
   | .uniform => rows.all (fun r => av.all (fun a => rows.contains a || (h.row r).length ≤ (h.row a).length)))

/-- `clear_col` on all columns `a..b` -/
def clearCols (h : SM) (a b : Nat) : SM := ((List.range (b - a)).map (· + a)).foldl (fun h c => h.clearColRaw c) h

/-- one iteration of the `while` loop of `MacKayNeal::run`, with the random selection `rows` supplied -/
def mnStep (cfg : MnCfg) (st : MnSt) (rows : List Nat) : Option (Except MnErr MnSt) :=
  if (availRows cfg st.h).length < cfg.wc then
    -- Err(NoAvailRows) => backtrack()?
    if st.backtrackTrials = 0 then some (.error .noMoreBacktrack) else
    let b := min st.col cfg.backtrackCols
    some (.ok { st with h := clearCols st.h (st.col - b) st.col, col := st.col - b, backtrackTrials := st.backtrackTrials - 1 })
  else if !admissibleRows cfg st.h rows then none
  else
    match st.h.insertCol st.col rows with
    | none => none
    | some h' =>
      let tooSmall := match cfg.minGirth with
        | some g => ((localGirth h' (.col st.col) (some (g - 1))).getD none).isSome
        | none => false
      if tooSmall then
        -- clear the column, Err(GirthTooSmall) => retry_girth()?
        if st.girthTrials = 0 then some (.error .noMoreTrials)
        else some (.ok { st with h := h'.clearColRaw st.col, girthTrials := st.girthTrials - 1 })
      else some (.ok { st with h := h', col := st.col + 1 })

/-- the whole run for a sequence of selections (one per loop iteration; ignored when the iteration backtracks) -/
def mnRun (cfg : MnCfg) : MnSt → List (List Nat) → Option (Except MnErr SM)
  | st, sels =>
    if st.col ≥ st.h.ncols then (if sels.isEmpty then some (.ok st.h) else none) else
    match sels with
    | [] => none
    | rows :: rest =>
      match mnStep cfg st rows with
      | none => none
      | some (.error e) => some (.error e)
      | some (.ok st') => mnRun cfg st' rest

def mnInit (cfg : MnCfg) : MnSt :=
  { h := SM.new cfg.nrows cfg.ncols, col := 0, backtrackTrials := cfg.backtrackTrials, girthTrials := cfg.girthTrials }

/-- validator for a finished MacKay–Neal matrix, column by column on the FINAL matrix: when column `c`
received its final content the columns before it already had theirs and the later ones were empty -/
def mnAccepts (cfg : MnCfg) (H : SM) : Bool :=
  H.nrows == cfg.nrows && H.ncols == cfg.ncols &&
  (List.range cfg.ncols).all (fun c =>
    -- the prefix matrix: columns < c of H (row lists restricted to columns < c)
    let pre : SM := ⟨H.rows.map (fun r => r.filter (· < c)), (H.cols.zipIdx).map (fun p => if p.2 < c then p.1 else [])⟩
    admissibleRows cfg pre (H.col c) &&
    (match cfg.minGirth with
     | some g =>
       let withC : SM := ⟨H.rows.map (fun r => r.filter (· ≤ c)), (H.cols.zipIdx).map (fun p => if p.2 ≤ c then p.1 else [])⟩
       !(((localGirth withC (.col c) (some (g - 1))).getD none).isSome)
     | none => true))

/-- the properties C16 promises for a successful MacKay–Neal run, as an executable predicate -/
def mnProps (cfg : MnCfg) (H : SM) : Bool :=
  H.nrows == cfg.nrows && H.ncols == cfg.ncols &&
  H.cols.all (fun c => c.length == cfg.wc) && H.rows.all (fun r => r.length ≤ cfg.wr) &&
  (match cfg.minGirth with
   | some g => match girth H none with
     | some g' => g ≤ g'
     | none => true
   | none => true) &&
  (if cfg.policy == .uniform && cfg.minGirth.isNone then
     let ws := H.rows.map List.length
     ws.foldl max 0 - ws.foldl min (ws.headD 0) ≤ 1
   else true)

/-- the properties C16 promises for a successful PEG run -/
def pegProps (nrows ncols wc : Nat) (H : SM) : Bool :=
  H.nrows == nrows && H.ncols == ncols && H.cols.all (fun c => c.length == min wc nrows)

end LdpcV.Constr
