/-
Driver for C17: replays an editing history on the model, prints the full observable state after
every operation, and evaluates the property predicate (set semantics) on the *implementation's*
observed state.
-/
import LdpcV.Model.Proto
namespace LdpcV.Driver.C17
open LdpcV.Proto

def parseOp (s : String) : Option Op :=
  match s.splitOn ":" with
  | ["i", r, c] => do pure (.insert (← r.toNat?) (← c.toNat?))
  | ["r", r, c] => do pure (.remove (← r.toNat?) (← c.toNat?))
  | ["t", r, c] => do pure (.toggle (← r.toNat?) (← c.toNat?))
  | ["cr", r] => do pure (.clearRow (← r.toNat?))
  | ["cc", c] => do pure (.clearCol (← c.toNat?))
  | ["sr", r, l] => do pure (.setRow (← r.toNat?) (← parseNatList l))
  | ["sc", c, l] => do pure (.setCol (← c.toNat?) (← parseNatList l))
  | ["ir", r, l] => do pure (.insertRow (← r.toNat?) (← parseNatList l))
  | ["ic", c, l] => do pure (.insertCol (← c.toNat?) (← parseNatList l))
  | _ => none

def grid (nr nc : Nat) (f : Nat → Nat → Bool) : List Bool :=
  (List.range nr).flatMap (fun r => (List.range nc).map (fun c => f r c))

def showPairs (l : List (Nat × Nat)) : String :=
  if l.isEmpty then "-" else ",".intercalate (l.map (fun p => s!"{p.1}.{p.2}"))

/-- observable state token; `eq` = "equal to the state before the op" -/
def showState (h : SM) (eq : Bool) : String :=
  let nr := h.nrows; let nc := h.ncols
  ":".intercalate
    [ "S", showLL h.rows, showLL h.cols,
      showBools (grid nr nc (fun r c => h.has r c)),
      showNatList (h.rows.map List.length), showNatList (h.cols.map List.length),
      showPairs h.iterAll, (if eq then "1" else "0") ]

def runModel (h : SM) : List Op → List String
  | [] => []
  | op :: ops =>
    match h.apply op with
    | none => ["panic"]
    | some h' => showState h' (decide (h' = h)) :: runModel h' ops

/-- specification states after each op -/
def specStates (s : PosSet) : List Op → List PosSet
  | [] => []
  | op :: ops => let s' := s.apply op; s' :: specStates s' ops

def parsePairs (s : String) : Option (List (Nat × Nat)) :=
  if s == "-" then some [] else
  (s.splitOn ",").mapM (fun t => match t.splitOn "." with
    | [a, b] => do pure ((← a.toNat?), (← b.toNat?))
    | _ => none)

/-- property predicate on one implementation state token -/
def checkState (nr nc : Nat) (prev cur : PosSet) (op : Op) (tok : String) : Option String :=
  match tok.splitOn ":" with
  | ["S", rows, cols, g, rw, cw, ia, eq] =>
    match parseLL rows, parseLL cols, parseBools g, parseNatList rw, parseNatList cw, parsePairs ia with
    | some rows, some cols, some g, some rw, some cw, some ia =>
      let want := grid nr nc cur
      if rows.length ≠ nr ∨ cols.length ≠ nc then some "dims-changed"
      else if g ≠ want then some "membership-differs-from-set"
      else if rw ≠ (List.range nr).map (fun r => ((List.range nc).filter (cur r)).length) then some "row-weight"
      else if cw ≠ (List.range nc).map (fun c => ((List.range nr).filter (fun r => cur r c)).length) then some "col-weight"
      else if ¬ ia.Nodup then some "iter_all-duplicates"
      else if ¬ (ia.all (fun p => decide (p.1 < nr) && decide (p.2 < nc) && cur p.1 p.2)
                 ∧ ia.length = (want.filter id).length) then some "iter_all-differs-from-set"
      else if ¬ ((List.range nr).all (fun r => (rows.getD r []).Nodup ∧
                 (List.range nc).all (fun c => (rows.getD r []).contains c == cur r c))) then some "iter_row"
      else if ¬ ((List.range nc).all (fun c => (cols.getD c []).Nodup ∧
                 (List.range nr).all (fun r => (cols.getD c []).contains r == cur r c))) then some "iter_col"
      else
        -- redundant single-entry edits must leave the matrix *equal* (derived PartialEq)
        let redundant := match op with
          | .insert r c => prev r c
          | .remove r c => !prev r c
          | _ => false
        if redundant && eq != "1" then some "redundant-op-changed-matrix" else none
    | _, _, _, _, _, _ => some "unparsable-state"
  | _ => some "unparsable-state"

def checkAll (nr nc : Nat) (prev : PosSet) : List Op → List String → Option String
  | _, [] => none
  | [], _ => none
  | op :: ops, tok :: toks =>
    if tok == "panic" then
      (if op.inRange nr nc then some "panic-on-in-range-op" else none)
    else
      -- materialise the specification set as a table (keeps evaluation linear)
      let tab := (grid nr nc (prev.apply op)).toArray
      let cur : PosSet := fun r c => decide (r < nr) && decide (c < nc) && tab.getD (r * nc + c) false
      if ¬ op.inRange nr nc then
        -- out-of-range ops that happen not to panic (e.g. bulk insert of an empty list) are
        -- outside the property; stop judging this history here
        none
      else
      match checkState nr nc prev cur op tok with
      | some why => some why
      | none => checkAll nr nc cur ops toks

def natsOrDash (l : List Nat) : String := if l.isEmpty then "-" else ",".intercalate (l.map toString)

/-- `c17 big <nr> <nc> <op>… ? <query>…`: a history on a matrix with hundreds of thousands of rows; only the answers to the
queries are observed (`q:r:c` membership, `w:c` column weight, `v:r` row weight, `ic:c` / `ir:r` the sorted column / row iterator), judged against the set semantics -/
def handleBig (nr nc : String) (rest out : List String) : String :=
  let opsT := rest.takeWhile (· ≠ "?")
  let qsT := (rest.dropWhile (· ≠ "?")).drop 1
  match nr.toNat?, nc.toNat?, opsT.mapM parseOp with
  | some nr, some nc, some ops =>
    match (SM.new nr nc).run ops with
    | none => verdict ["panic"] out (if ops.all (·.inRange nr nc) then some "panic-on-in-range-op" else none)
    | some h =>
      let spec : PosSet := ops.foldl (fun s op => s.apply op) PosSet.empty
      let ans (f : Nat → Nat → Bool) (q : String) : String :=
        match q.splitOn ":" with
        | ["q", r, c] => if f (r.toNat?.getD 0) (c.toNat?.getD 0) then "1" else "0"
        | ["w", c] => toString ((List.range nr).filter (fun r => f r (c.toNat?.getD 0))).length
        | ["v", r] => toString ((List.range nc).filter (fun c => f (r.toNat?.getD 0) c)).length
        | ["ic", c] => natsOrDash ((List.range nr).filter (fun r => f r (c.toNat?.getD 0)))
        | ["ir", r] => natsOrDash ((List.range nc).filter (fun c => f (r.toNat?.getD 0) c))
        | _ => "?"
      let model := qsT.map (ans (fun r c => h.has r c))
      let want := qsT.map (ans spec)
      verdict model out (if out ≠ want then some "membership-or-weights-differ-from-set" else none)
  | _, _, _ => "BADLINE c17 big parse"

def handle (inp out : List String) : String :=
  match inp with
  | "big" :: nr :: nc :: rest => handleBig nr nc rest out
  | nr :: nc :: ops =>
    match nr.toNat?, nc.toNat?, ops.mapM parseOp with
    | some nr, some nc, some ops =>
      let model := runModel (SM.new nr nc) ops
      verdict model out (checkAll nr nc PosSet.empty ops out)
    | _, _, _ => "BADLINE c17 parse"
  | _ => "BADLINE c17 arity"

end LdpcV.Driver.C17
