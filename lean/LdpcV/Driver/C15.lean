/- Driver for C15: interleaver / puncturer cases. -/
import LdpcV.Model.Proto
import LdpcV.Model.Blocks
namespace LdpcV.Driver.C15
open LdpcV.Proto LdpcV.Blocks

def showRes : Res (List Int) → List String
  | .ok l => ["ok", showIntList l]
  | .err => ["err"]
  | .panic => ["panic"]

def parseRes : List String → Option (Res (List Int))
  | ["ok", l] => (parseIntList l).map .ok
  | ["err"] => some .err
  | ["panic"] => some .panic
  | _ => none

/-- independent, declarative statement of the property used as predicate on the implementation output -/
def ilvExpect (C : Nat) (bw : Bool) (xs : List Int) : Option (List Int) :=
  if C = 0 ∨ xs.length % C ≠ 0 then none else
  let R := xs.length / C
  some ((List.range R).flatMap (fun r => (List.range C).map (fun c =>
    xs.getD ((if bw then C - 1 - c else c) * R + r) 0)))

partial def handle (inp out : List String) : String :=
  match inp with
  -- the interleaver object was used on blocks of other lengths before: the laws are per call, so the warm-up is ignored
  | ["ilw", c, bw, _warm, l] => handle ["il", c, bw, l] out
  | ["dilw", c, bw, _warm, l] => handle ["dil", c, bw, l] out
  | ["il", c, bw, l] =>
    match c.toNat?, parseIntList l with
    | some c, some xs =>
      let bw := bw == "1"
      let m := interleave c bw xs
      let prop : Option String := match parseRes out, ilvExpect c bw xs with
        | some (.ok ys), some want => if ys = want then none else some "not-the-column-write-row-read-permutation"
        | some (.ok _), none => some "ok-on-indivisible-length"
        | some .panic, none => none
        | some .panic, some _ => some "panic-on-divisible-length"
        | some .err, _ => some "unexpected-err"
        | none, _ => some "unparsable"
      verdict (showRes m) out prop
    | _, _ => "BADLINE c15 il"
  | ["dil", c, bw, l] =>
    match c.toNat?, parseIntList l with
    | some c, some ys =>
      let bw := bw == "1"
      let m := deinterleave c bw ys
      -- predicate: re-interleaving the implementation's answer gives the input back
      let prop : Option String := match parseRes out with
        | some (.ok xs) => if ilvExpect c bw xs = some ys then none else some "deinterleave-not-inverse"
        | some .panic => if c = 0 ∨ ys.length % c ≠ 0 then none else some "panic-on-divisible-length"
        | _ => some "unexpected"
      verdict (showRes m) out prop
    | _, _ => "BADLINE c15 dil"
  | ["pu", p, l] =>
    match parseBools p, parseIntList l with
    | some p, some xs =>
      let m := puncture p xs
      let prop : Option String :=
        if p = [] then (if out = ["panic"] then none else some "empty-pattern-accepted")
        else if xs.length % p.length ≠ 0 then (if out = ["err"] then none else some "indivisible-not-err")
        else
          let B := xs.length / p.length
          let want := ((List.range p.length).filter (fun k => p.getD k false)).flatMap
            (fun k => (List.range B).map (fun j => xs.getD (k * B + j) 0))
          match parseRes out with
          | some (.ok ys) => if ys = want then none else some "kept-blocks-differ"
          | _ => some "divisible-not-ok"
      verdict (showRes m) out prop
    | _, _ => "BADLINE c15 pu"
  | ["dp", p, l] =>
    match parseBools p, parseIntList l with
    | some p, some ys =>
      let m := depuncture (0 : Int) p ys
      let t := numTrues p
      let prop : Option String :=
        if p = [] ∨ t = 0 then none      -- outside the property (pattern must contain a true)
        else if ys.length % t ≠ 0 then (if out = ["err"] then none else some "indivisible-not-err")
        else
          let B := ys.length / t
          match parseRes out with
          | some (.ok zs) =>
            if zs.length ≠ B * p.length then some "length"
            else
              -- kept blocks restored in order, zeros elsewhere
              let kept := ((List.range p.length).filter (fun k => p.getD k false)).flatMap
                (fun k => (List.range B).map (fun j => zs.getD (k * B + j) 0))
              let removedZero := ((List.range p.length).filter (fun k => !p.getD k false)).all
                (fun k => (List.range B).all (fun j => zs.getD (k * B + j) 1 == 0))
              if kept ≠ ys then some "kept-blocks-not-restored"
              else if !removedZero then some "removed-blocks-not-zero" else none
          | _ => some "divisible-not-ok"
      verdict (showRes m) out prop
    | _, _ => "BADLINE c15 dp"
  | ["rate", p] =>
    match parseBools p with
    | some p =>
      if p = [] then verdict ["panic"] out none else   -- Puncturer::new asserts a non-empty pattern
      let (a, b) := rate p
      let f := (Float.ofNat a / Float.ofNat b).toBits
      verdict [toString f] out none
    | none => "BADLINE c15 rate"
  | _ => "BADLINE c15 kind"

end LdpcV.Driver.C15
