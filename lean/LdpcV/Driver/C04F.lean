/-
Driver for the floating-point half of C04 / C05.
  c04 f <type> <src.bits,…> => <dest.bits,…> | panic      check rule of a float arithmetic (values as f64 bit patterns; f32 widened)
  c05 vf <type> <input bits> <src.bits,…> => <llr bits> <dest.bits,…>
All magnitude comparisons are made in the tanh domain (raw LLRs near 20 differ by 1e-8 between two
correct f64 evaluations); tolerances: f64 1e-11, f32 2e-5.
-/
import LdpcV.Model.Proto
import LdpcV.Model.ArithF
import LdpcV.Driver.C14
namespace LdpcV.Driver.C04F
open LdpcV.Proto LdpcV.ArithF LdpcV.Driver.C14

def parsePairsF (s : String) : Option (List (Nat × Float)) :=
  if s == "-" then some [] else
  (s.splitOn ",").mapM (fun t => match t.splitOn "." with
    | [a, b] => do pure ((← a.toNat?), (← parseF b))
    | _ => none)

def showPairsF (l : List (Nat × Float)) : String :=
  if l.isEmpty then "-" else ",".intercalate (l.map (fun p => s!"{p.1}.{hex p.2}"))

def th (x : Float) : Float := Float.tanh (x / 2)

/-- product of tanh(|x_j|/2) over the inputs with index ≠ i, and the parity of their signs -/
def othersProd (msgs : List (Nat × Float)) (i : Nat) : Float × Bool :=
  let o := (msgs.zipIdx.filter (fun p => p.2 != i)).map (·.1.2)
  (o.foldl (fun a x => a * th x.abs) 1, (o.filter (· < 0)).length % 2 == 1)

def minOthers (msgs : List (Nat × Float)) (i : Nat) : Float :=
  ((msgs.zipIdx.filter (fun p => p.2 != i)).map (·.1.2.abs)).foldl (fun a x => if x < a then x else a) (1.0 / 0.0)

def family (ty : String) : String :=
  if ty.startsWith "Phi" then "phi" else if ty.startsWith "Tanh" then "tanh"
  else if ty.startsWith "Minstarapprox" then "approx" else "amin"

def firstSome : List (Option String) → Option String
  | [] => none
  | some x :: _ => some x
  | none :: xs => firstSome xs

/-- the C04 predicate for a float arithmetic, on the implementation's emitted list -/
def checkPredF (ty : String) (msgs out : List (Nat × Float)) : Option String :=
  let tol : Float := if ty.endsWith "f32" then 2e-5 else 1e-11
  let d := msgs.length
  if d < 2 then none else
  if (out.map (·.1)).mergeSort ≠ (msgs.map (·.1)).mergeSort then some "not-one-message-per-neighbour" else
  let fam := family ty
  -- A-Min*: the first emitted message goes to the least reliable input
  let allProd := msgs.foldl (fun a m => a * th m.2.abs) 1
  firstSome (out.zipIdx.map (fun op =>
    let o := op.1
    match msgs.zipIdx.find? (fun p => p.1.1 == o.1) with
    | none => some "unknown-destination"
    | some p =>
      let i := p.2
      let (prod, par) := othersProd msgs i
      let v := o.2
      if v.isNaN then some "NaN-message"
      else if th v.abs > th (minOthers msgs i) + tol then some "magnitude-exceeds-smallest-other"
      -- the same clause in the LLR domain, where tanh is flat (|x| beyond ~25): an infinite or wildly too large message among finite
      -- inputs; the slack covers the ill-conditioning of 2·atanh near saturation (error ~ u·e^|out|)
      else if (minOthers msgs i).isFinite && (!v.isFinite || v.abs > 2 * (minOthers msgs i) + 2) then
        some s!"magnitude-far-above-smallest-other-in-the-LLR-domain got={v} smallest-other={minOthers msgs i}"
      else if th v.abs > tol && (v < 0) != par && prod > tol then some "sign-is-not-product-of-other-signs"
      else if fam == "phi" || fam == "tanh" || (fam == "amin" && op.2 == 0) then
        (if (th v.abs - prod).abs > tol then some s!"not-the-exact-box-plus tanh-domain got={th v.abs} want={prod}" else none)
      else if fam == "amin" then
        -- every other neighbour receives the box-plus of ALL inputs
        (if (th v.abs - allProd).abs > tol then some s!"amin-others-not-box-plus-of-all got={th v.abs} want={allProd}" else none)
      else
        -- min*-approx: between exact − (d−2)·ln2 (floored at 0) and exact
        (if th v.abs > prod + tol then some "approx-above-exact"
         else if prod < 1 - 1e-9 then
           let exact := 2 * Float.atanh prod
           let lo := exact - (Float.ofNat (d - 2)) * Float.log 2
           if v.abs < lo - (if ty.endsWith "f32" then 1e-3 else 1e-7) then some s!"approx-below-exact-minus-(d-2)ln2 got={v.abs} lo={lo}" else none
         else none)))

def modelCheck (ty : String) (msgs : List (Nat × Float)) : Option (List (Nat × Float)) :=
  match family ty with
  | "phi" => some (checkPhi Sc.float msgs)
  | "tanh" => some (checkTanh Sc.float (if ty.endsWith "f32" then 9 else 18) msgs)
  | "approx" => checkApprox Sc.float msgs
  | _ => checkAmin Sc.float msgs

def closeTanh (ty : String) (a b : List (Nat × Float)) : Bool :=
  let tol : Float := if ty.endsWith "f32" then 2e-5 else 1e-11
  a.length == b.length && (a.zip b).all (fun p => p.1.1 == p.2.1 && ((th p.1.2 - th p.2.2).abs ≤ tol))

/-- C04Round.approx_rule_rounded / amin_rule_rounded with the closed forms of step_bounds_linear: the implementation's value and the
Float model's value of a min*-approx / A-Min* message are both within d·32(u+e)(B+2) of the real rule's value, B = largest input
magnitude (u = 2⁻⁵³, e = 2⁻⁵⁰ for f64; u = 2⁻²⁴, e = 2⁻²¹ for the f32 types, whose model is evaluated in f64).  Compared in the LLR
domain with a factor 4 of slack — far tighter than the tanh-domain comparison for large magnitudes, where tanh is flat -/
def withinProvedLLR (ty : String) (msgs ml ol : List (Nat × Float)) : Bool :=
  let fam := family ty
  if fam != "approx" && fam != "amin" then true else
  let bmax := msgs.foldl (fun a m => if m.2.abs > a then m.2.abs else a) 0
  if !(bmax < 1e15) then true else
  let ue : Float := if ty.endsWith "f32" then 5.9604644775390625e-8 + 4.76837158203125e-7 else 1.1102230246251565e-16 + 8.881784197001252e-16
  let tol : Float := 4 * (Float.ofNat msgs.length) * 32 * ue * (bmax + 2)
  ml.length == ol.length && (ml.zip ol).all (fun p => p.1.1 == p.2.1 && (p.1.2 - p.2.2).abs ≤ tol)

def handleC04F (ty m : String) (out : List String) : String :=
  match parsePairsF m with
  | some msgs =>
    let model := modelCheck ty msgs
    match out with
    | ["panic"] =>
      let prop := if msgs.length ≥ 2 then some "panic" else none
      verdict (match model with | some l => [showPairsF l] | none => ["panic"]) out prop
    | [o] =>
      (match parsePairsF o with
       | some ol =>
         let prop := checkPredF ty msgs ol
         (match model with
          | some ml => if closeTanh ty ml ol && withinProvedLLR ty msgs ml ol then verdict out out prop else verdict [showPairsF ml] out prop
          | none => verdict ["panic"] out prop)
       | none => "BADLINE c04 f out")
    | _ => "BADLINE c04 f out"
  | none => "BADLINE c04 f"

def handleC05VF (ty inp m : String) (out : List String) : String :=
  match parseF inp, parsePairsF m, out with
  | some input, some msgs, [l, o] =>
    (match parseF l, parsePairsF o with
     | some llr, some ol =>
       -- the model performs the same left-to-right additions in the same precision (Float for …f64, Float32 for …f32),
       -- so the bits are expected to agree
       let f32 := ty.endsWith "f32"
       let (ml, mo) : Float × List (Nat × Float) :=
         if f32 then
           let r := varRule Sc.float32 input.toFloat32 (msgs.map (fun m => (m.1, m.2.toFloat32)))
           (r.1.toFloat, r.2.map (fun m => (m.1, m.2.toFloat)))
         else varRule Sc.float input msgs
       let ok (a b : Float) : Bool := a.toBits == b.toBits || (a == 0 && b == 0)
       let agree := ok llr ml && ol.length == mo.length && (ol.zip mo).all (fun p => p.1.1 == p.2.1 && ok p.1.2 p.2.2)
       let prop := if ol.map (·.1) ≠ msgs.map (·.1) then some "not-one-message-per-neighbour" else none
       if agree then verdict out out prop else verdict [hex ml, showPairsF mo] out prop
     | _, _ => "BADLINE c05 vf out")
  | _, _, _ => "BADLINE c05 vf"

/-- `c04 fs <type> <msgs>… => <emitted>…`: a sequence of check-node calls on one arithmetic object, each judged like a single call -/
def handleC04FS (ty : String) (calls out : List String) : String :=
  if out = ["panic"] then verdict ["ok"] out (some "panic") else
  if calls.length ≠ out.length then "BADLINE c04 fs arity" else
  let res := (calls.zip out).map (fun p => handleC04F ty p.1 [p.2])
  match res.find? (fun r => !(r.startsWith "ok")) with
  | some bad => bad
  | none => verdict out out none

/-- `c05 lf <type> (<dest.bits,…> <vars bits,…>)… => (<dest.bits,…> <vars bits,…>)…` : a SEQUENCE of layered updates on ONE
arithmetic object (degrees vary, so stale scratch buffers would show); every call is compared with the stateless model -/
def parseFs (s : String) : Option (List Float) :=
  if s == "." then some [] else (s.splitOn ",").mapM parseF

def layerModel (ty : String) (msgs : List (Nat × Float)) (vars : List Float) : Option (List (Nat × Float) × List Float) :=
  let S := Sc.float
  match family ty with
  | "phi" => layerBy S (fun l => some (checkPhi S l)) msgs vars
  | "tanh" => layerBy S (fun l => some (checkTanh S (if ty.endsWith "f32" then 9 else 18) l)) msgs vars
  | "approx" => layerBy S (checkApprox S) msgs vars
  | _ => layerBy S (checkAmin S) msgs vars

def handleC05LF (ty : String) (calls out : List String) : String :=
  let f32 := ty.endsWith "f32"
  let tolV : Float := if f32 then 1e-5 else 1e-12
  let rec go : List String → List String → Option String
    | m :: v :: rest, om :: ov :: orest =>
      (match parsePairsF m, parseFs v, parsePairsF om, parseFs ov with
       | some msgs, some vars, some omsgs, some ovars =>
         (match layerModel ty msgs vars with
          | some (mm, mv) =>
            if !closeTanh ty mm omsgs then some s!"layered-message-differs-from-flooding-rule-on-extrinsics model={showPairsF mm} impl={om}"
            else
              -- "followed by adding the new message": var' = (var − old) + new, with the implementation's own new message
              -- (raw LLR messages of two correct evaluations may differ near saturation, so the model's messages are not used here)
              let want := (msgs.zip omsgs).foldl (fun vs p => vs.set p.1.1 ((vs.getD p.1.1 0 - p.1.2) + p.2.2)) vars
              let _ := mv
              if !(want.length == ovars.length && (want.zip ovars).all (fun p => close p.1 p.2 tolV tolV)) then
              some "variable-not-updated-to-extrinsic-plus-new-message"
            else go rest orest
          | none => some "model-panic")
       | _, _, _, _ => some "unparsable")
    | [], [] => none
    | _, ["panic"] => some "panic"
    | _, _ => some "arity"
  verdict out out (go calls out)

end LdpcV.Driver.C04F
