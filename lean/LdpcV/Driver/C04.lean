/- Drivers for C04 / C05: direct calls of the arithmetic rules (8-bit part: exact). -/
import LdpcV.Model.Proto
import LdpcV.Spec.Factory
namespace LdpcV.Driver.C04
open LdpcV.Proto

def parsePairs (s : String) : Option (List (Nat × Int)) :=
  if s == "-" then some [] else
  (s.splitOn ",").mapM (fun t => match t.splitOn "." with
    | [a, b] => do pure ((← a.toNat?), (← b.toInt?))
    | _ => none)

def showPairs (l : List (Nat × Int)) : String :=
  if l.isEmpty then "-" else ",".intercalate (l.map (fun p => s!"{p.1}.{p.2}"))

def typeOf (name : String) : Option (Bool × I8.Cfg) :=
  match Factory.all.find? (fun i => i.sched == .flooding && i.name == name) with
  | some ⟨.minstarapprox, .i8 cfg, _⟩ => some (false, cfg)
  | some ⟨.aminstar, .i8 cfg, _⟩ => some (true, cfg)
  | _ => none

def prodSignOthers (msgs : List (Nat × Int)) (i : Nat) : Bool :=
  I8.signParity ((msgs.zipIdx.filter (fun p => p.2 != i)).map (·.1.2))

def minOthers (msgs : List (Nat × Int)) (i : Nat) : Int :=
  ((msgs.zipIdx.filter (fun p => p.2 != i)).map (fun p => (Int.ofNat p.1.2.natAbs))).foldl min 127

/-- C04 predicate on the implementation's emitted list (8-bit rules) -/
def checkPred (hardLimit : Bool) (msgs out : List (Nat × Int)) : Option String :=
  if msgs.length < 2 then none else
  -- exactly one message per neighbour
  if (out.map (·.1)).mergeSort ≠ (msgs.map (·.1)).mergeSort then some "not-one-message-per-neighbour" else
  firstSome (out.map (fun o =>
    match msgs.zipIdx.find? (fun p => p.1.1 == o.1) with
    | none => some "unknown-destination"
    | some p =>
      let i := p.2
      let v := o.2
      let mn := minOthers msgs i
      if v < -127 ∨ v > 127 then some "value-outside-[-127,127]"
      else if v ≠ 0 ∧ (decide (v < 0)) ≠ prodSignOthers msgs i then some "sign-is-not-product-of-other-signs"
      else if ¬ hardLimit ∧ Int.ofNat v.natAbs > mn then some "magnitude-exceeds-smallest-other"
      else if hardLimit ∧ v.natAbs < 100 ∧ Int.ofNat v.natAbs > mn then some "magnitude-exceeds-smallest-other"
      else if hardLimit ∧ v.natAbs ≥ 100 ∧ (v.natAbs ≠ 127 ∨ mn < 100) then some "hard-limit-promotion-wrong"
      else none))
where
  firstSome : List (Option String) → Option String
    | [] => none
    | some x :: _ => some x
    | none :: xs => firstSome xs

/-- "each 8-bit rule tracks its real-valued counterpart at 8 units per LLR within accumulated table rounding", with the
constants proved in C04Track: every emitted value is within (d−2)/2 units (approximate min*) resp. d−1 units (A-Min*) of
8 × the same rule evaluated over the reals (here: `Float`) on the inputs / 8; with partial hard limiting a value of
magnitude ≥ 100 was promoted to 127, so the real value must reach 100 − bound. -/
def trackPred (amin hardLimit : Bool) (msgs out : List (Nat × Int)) : Option String :=
  if msgs.length < 2 then none else
  let msgsR : List (Nat × Float) := msgs.map (fun m => (m.1, Float.ofInt m.2 / 8))
  let real := if amin then ArithF.checkAmin Sc.float msgsR else ArithF.checkApprox Sc.float msgsR
  match real with
  | none => none
  | some outR =>
    let d := Float.ofNat msgs.length
    let bound : Float := (if amin then d - 1 else (d - 2) / 2) + 1e-6
    checkPred.firstSome (out.map (fun o =>
      match outR.find? (fun r => r.1 == o.1) with
      | none => none
      | some r =>
        let R := 8 * r.2
        let v := Float.ofInt o.2
        if hardLimit ∧ o.2.natAbs ≥ 100 then
          (if R.abs + bound < 100 then some s!"hard-limit-promotion-of-a-value-whose-real-counterpart-is-{R}" else none)
        else if (v - R).abs > bound then some s!"does-not-track-the-real-rule: emitted {o.2}, 8 x real rule = {R}, allowed {bound}"
        else none))

def handleC04 (inp out : List String) : String :=
  match inp with
  | ["table", ty] =>
    match typeOf ty with
    | some _ =>
      -- numeric TEST (not a theorem) of the table-vs-real clause: |table[t] − 8·ln(1 + e^(−t/8))| ≤ 1/2 for every t in 0..127,
      -- evaluated in Float on the implementation's table
      let implTable : List Int := match out with
        | [o] => ((o.splitOn ",").filterMap String.toInt?)
        | _ => []
      let bad := (List.range 128).find? (fun t =>
        let real := 8.0 * Float.log (1.0 + Float.exp (-(Float.ofNat t) / 8.0))
        let entry := Float.ofInt (implTable.getD t 0)
        (entry - real).abs > 0.5000001)
      verdict [",".intercalate (I8.table.map toString)] out (bad.map (fun t => s!"table-entry-{t}-is-not-round(8*ln(1+exp(-t/8)))"))
    | none => "BADLINE c04 table type"
  | ["i8", ty, m] =>
    match typeOf ty, parsePairs m with
    | some (amin, cfg), some msgs =>
      let model := if amin then I8.checkAmin cfg msgs else I8.checkApprox cfg msgs
      let mo := match model with | some l => [showPairs l] | none => ["panic"]
      let prop := match out with
        | ["panic"] => if msgs.length ≥ 2 then some "panic" else none
        | [o] => (match parsePairs o with
                  | some ol => (match checkPred cfg.hardLimit msgs ol with
                                | some e => some e
                                | none => trackPred amin cfg.hardLimit msgs ol)
                  | none => some "unparsable")
        | _ => some "unparsable"
      verdict mo out prop
    | _, _ => "BADLINE c04 i8"
  | _ => "BADLINE c04 kind"

def parseHex64 (s : String) : Option UInt64 :=
  if s.length ≠ 16 then none else
  (s.toList.foldlM (fun acc c =>
    (if '0' ≤ c ∧ c ≤ '9' then some (c.toNat - '0'.toNat)
     else if 'a' ≤ c ∧ c ≤ 'f' then some (c.toNat - 'a'.toNat + 10) else none).map (fun d => acc * 16 + d)) 0).map UInt64.ofNat

def handleC05 (inp out : List String) : String :=
  match inp with
  | ["q", ty, bits] =>
    match typeOf ty, parseHex64 bits with
    | some _, some b =>
      let q := I8.quantize b
      let prop := match out with
        | [o] => (match o.toInt? with
                  | some v => if v < -127 ∨ v > 127 then some "quantiser-outside-[-127,127]" else none
                  | none => some "unparsable")
        | _ => some "unparsable"
      verdict [toString q] out prop
    | _, _ => "BADLINE c05 q"
  | ["clip", ty, x] =>
    match typeOf ty, x.toInt? with
    | some _, some x => verdict [toString (I8.clip x)] out none
    | _, _ => "BADLINE c05 clip"
  | ["v", ty, input, m] =>
    match typeOf ty, input.toInt?, parsePairs m with
    | some (_, cfg), some input, some msgs =>
      let mo := match I8.varRule cfg input msgs with
        | some (llr, l) => [toString llr, showPairs l]
        | none => ["panic"]
      -- predicate: saturating-sum law, stated independently of the model's stepwise evaluation
      let prop : Option String :=
        if msgs.length > 257 then none else
        match out with
        | [llr, o] =>
          (match llr.toInt?, parsePairs o with
           | some llr, some ol =>
             let inp := if cfg.deg1 ∧ msgs.length = 1 then max (-116) (min 116 input) else input
             let tot := inp + (msgs.map (·.2)).foldl (· + ·) 0
             let tot := if cfg.jones then I8.clip tot else tot
             if llr ≠ I8.clip tot then some "new-llr-is-not-the-saturated-sum"
             else if ol ≠ msgs.map (fun m => (m.1, I8.clip (tot - m.2))) then some "message-is-not-total-minus-own-contribution"
             else none
           | _, _ => some "unparsable")
        | ["panic"] => some "panic-within-degree-257"
        | _ => some "unparsable"
      verdict mo out prop
    | _, _, _ => "BADLINE c05 v"
  | ["l", ty, m, vars] =>
    match typeOf ty, parsePairs m, parseIntList vars with
    | some (amin, cfg), some msgs, some vars =>
      let model := if amin then I8.layerAmin cfg msgs vars else I8.layerApprox cfg msgs vars
      let mo := match model with
        | some (l, vs) => [showPairs l, showIntList vs]
        | none => ["panic"]
      -- predicate: layered update = flooding check rule on the extrinsic values, then add the new message
      let prop : Option String :=
        if msgs.length < 2 then none else
        match I8.extrinsics msgs vars with
        | none => none
        | some ext =>
          let incoming := (msgs.zip ext).map (fun p => (p.1.1, p.2))
          let rule := if amin then I8.checkAmin cfg incoming else I8.checkApprox cfg incoming
          match rule, out with
          | some emitted, [o, vs] =>
            (match parsePairs o, parseIntList vs with
             | some ol, some vl =>
               let want := msgs.map (fun m => (m.1, ((emitted.find? (fun e => e.1 == m.1)).map (·.2)).getD 0))
               let wantVars := (msgs.zip want).foldl (fun vs p => vs.set p.1.1 ((vs.getD p.1.1 0) - p.1.2 + p.2.2)) vars
               if ol ≠ want then some "layered-message-differs-from-flooding-rule-on-extrinsics"
               else if vl ≠ wantVars then some "variable-not-updated-by-adding-new-minus-old"
               else none
             | _, _ => some "unparsable")
          | some _, _ => some "panic-inside-envelope"
          | none, _ => none
      verdict mo out prop
    | _, _, _ => "BADLINE c05 l"
  | _ => "BADLINE c05 kind"

end LdpcV.Driver.C04
