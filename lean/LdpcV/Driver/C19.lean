/-
Driver for C19 (C interface).  Texts travel as `.`-separated code points (`-` = empty).
  c19 dctor <alist> <impl> <punct> => ok | null | abort
  c19 ector <alist> <punct> => ok | null | abort
  c19 dec <f64|f32> <impl> <rows> <cols> <pattern|-> <outlen> <call>… => <ret>:<bits>… | <ret>:<bits>…     (C handle | Rust LdpcDecoder on depunctured LLRs)
  c19 enc <rows> <cols> <pattern|-> <message bytes, comma separated> => <bits> | <bits>                    (C handle | Rust Encoder + Puncturer)
-/
import LdpcV.Model.Proto
import LdpcV.Model.Capi
import LdpcV.Driver.Dec
import LdpcV.Driver.C08
namespace LdpcV.Driver.C19
open LdpcV.Proto LdpcV.Capi LdpcV.Blocks LdpcV.Driver.Dec

def splitBar (out : List String) : List String × List String :=
  (out.takeWhile (· ≠ "|"), (out.dropWhile (· ≠ "|")).drop 1)

def showRet (r : Res (Int × List Bool)) : String :=
  match r with
  | .ok (ret, bits) => s!"{ret}:{showBools bits}"
  | _ => "abort"

/-- run a history of C decode calls on the exact model of an 8-bit implementation -/
def runC {A : Arith} (h : SM) (pattern : Option (List Bool)) (outLen : Nat) :
    DecSt A → List (List UInt64 × Nat) → List String
  | _, [] => []
  | st, (llrs, n) :: rest =>
    -- thread the decoder state through the wrapper
    let dep : Res (List UInt64) := match pattern with
      | some p => depuncture (0 : UInt64) p llrs
      | none => .ok llrs
    match dep with
    | .ok l =>
      (match st.decode h l n with
       | none => ["abort"]
       | some (v, st') =>
         showRet (decodeWith (fun _ _ => some v) none outLen l n) :: runC h pattern outLen st' rest)
    | _ => ["abort"]

/-- a puncturing pattern as the property means it, stated independently of the model's parser: empty (no puncturing),
or comma-separated items each of which is exactly the character `0` or `1` -/
def wellFormedPattern (p : List Char) : Bool :=
  p.isEmpty || ((String.ofList p).splitOn ",").all (fun t => t == "0" || t == "1")

def handle (inp out : List String) : String :=
  match inp with
  | ["dctor", a, i, p] =>
    match C08.decodeText a, C08.decodeText i, C08.decodeText p with
    | some a, some i, some p =>
      let m := if (decoderCtor a i p).isSome then "ok" else "null"
      verdict [m] out (if out = ["abort"] then some "constructor-aborts-the-process"
                       else if out = ["ok"] ∧ !wellFormedPattern p then some "constructor-accepts-a-malformed-puncturing-pattern"
                       else if out = ["ok"] ∧ (Factory.parse (String.ofList i)).isNone then some "constructor-accepts-an-unknown-implementation-name"
                       else none)
    | _, _, _ => "BADLINE c19 dctor"
  | ["ector", a, p] =>
    match C08.decodeText a, C08.decodeText p with
    | some a, some p =>
      let m := match encoderCtor a p with
        | .ok (some _) => "ok" | .ok none => "null" | _ => "abort"
      -- an alist with more rows than columns makes Encoder::from_h panic: outside the stated constructor contract
      verdict [m] out (if out = ["abort"] ∧ m ≠ "abort" then some "constructor-aborts-the-process"
                       else if out = ["ok"] ∧ !wellFormedPattern p then some "constructor-accepts-a-malformed-puncturing-pattern" else none)
    | _, _ => "BADLINE c19 ector"
  | ["notutf8", _] =>
    -- a C string that is not valid UTF-8 is converted lossily (U+FFFD), which is neither a pattern item nor part of a name: null
    verdict ["null", "null", "null", "null"] out (if out ≠ ["null", "null", "null", "null"] then some "constructor-accepts-a-string-that-is-not-valid-UTF-8" else none)
  | ["nofile", _] =>
    -- the model has no file system: an unreadable alist file must give a null handle from both constructors
    verdict ["null", "null"] out (if out ≠ ["null", "null"] then some "unreadable-file-does-not-give-null" else none)
  | "dec" :: _prec :: name :: r :: c :: pat :: ol :: calls =>
    let (cres, rres) := splitBar out
    match parseSM r c, (if pat == "-" then some none else (parseBools pat).map some), ol.toNat?, calls.mapM parseCall with
    | some h, some pattern, some ol, some calls =>
      let prop := if cres ≠ rres then some "C-decoder-differs-from-Rust-decoder-on-depunctured-LLRs" else none
      match Factory.parse name with
      | some i =>
        (match i.arith? with
         | some A => let m := runC h pattern ol (DecSt.fresh A i.sched h) calls; verdict (m ++ ["|"] ++ m) out prop
         | none => verdict out out prop)
      | none => "BADLINE c19 dec name"
    | _, _, _, _ => "BADLINE c19 dec"
  | ["enc", r, c, pat, msg] =>
    let (cres, rres) := splitBar out
    match parseSM r c, (if pat == "-" then some none else (parseBools pat).map some), parseNatList msg with
    | some h, some pattern, some msg =>
      let prop := if cres ≠ rres then some "C-encoder-differs-from-Rust-encoder-plus-puncturer" else none
      let m := match Lin.fromH h with
        | .ok e =>
          let hd : EncHandle := ⟨e, h.ncols, pattern⟩
          let expectLen := match pattern with | some p => h.ncols * numTrues p / p.length | none => h.ncols
          (match encode hd expectLen msg with | .ok bits => showBools bits | _ => "abort")
        | _ => "no-encoder"
      verdict [m, "|", m] out prop
    | _, _, _ => "BADLINE c19 enc"
  | _ => "BADLINE c19 kind"

end LdpcV.Driver.C19
