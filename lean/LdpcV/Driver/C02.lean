/- Drivers for C02 (encoder) and C09 (systematic conversion). -/
import LdpcV.Model.Proto
import LdpcV.Model.Linalg
import LdpcV.Model.Decoder
namespace LdpcV.Driver.C02
open LdpcV.Proto LdpcV.Lin

/-- independent GF(2) rank by online elimination on rows as Nat bitsets -/
def rankBits (rows : List Nat) : Nat :=
  let basis := rows.foldl (fun (basis : List Nat) r =>
    let r := basis.foldl (fun r b => if (r ^^^ b) < r then r ^^^ b else r) r
    if r = 0 then basis else
      -- keep the basis sorted by decreasing value so that leading bits are reduced first
      (basis.filter (· > r)) ++ [r] ++ (basis.filter (· < r))) []
  basis.length

def bitsOfRow (cols : List Nat) (lo hi : Nat) : Nat :=
  (cols.filter (fun c => lo ≤ c && c < hi)).foldl (fun acc c => acc ||| (1 <<< (c - lo))) 0

def tailRank (h : SM) : Nat :=
  rankBits (h.rows.map (fun r => bitsOfRow r (h.ncols - h.nrows) h.ncols))

def fullRank (h : SM) : Nat := rankBits (h.rows.map (fun r => bitsOfRow r 0 h.ncols))

def showEnc : Res Encoder → List String
  | .ok (.staircase _) => ["ok", "Staircase"]
  | .ok (.dense _) => ["ok", "DenseGenerator"]
  | .err => ["err"]
  | .panic => ["panic"]

def xorBits (a b : List Bool) : List Bool := (a.zip b).map (fun p => xor p.1 p.2)

/-- `c02 <rows> <cols> <msg>… => <ok Kind|err|panic> <codeword>…`
messages come in triples (m1, m2, m1 xor m2) so that linearity is observable -/
def handleC02 (inp out : List String) : String :=
  match inp with
  | ["bigstair", _r, _k] =>
    -- a staircase matrix with more than 65536 message columns, judged by the harness on the implementation's output: staircase encoder
    -- chosen (C02.staircase_iff), every word starts with its message and satisfies every check (C02.encode_valid)
    verdict ["Staircase:codewords-ok"] out
      (if out ≠ ["Staircase:codewords-ok"] then some ("wide-staircase-code-not-encoded-to-codewords-starting-with-the-message: " ++ " ".intercalate out) else none)
  | r :: c :: msgs =>
    match parseSM r c, msgs.mapM parseBools with
    | some h, some msgs =>
      let e := fromH h
      let cws : List String := match e with
        | .ok enc => msgs.map (fun m => match encode enc m with | some cw => showBools cw | none => "panic")
        | _ => []
      let model := showEnc e ++ cws
      let n := h.ncols; let rr := h.nrows
      let prop : Option String :=
        if rr = 0 ∨ rr > n then none else
        match out with
        | "panic" :: _ => some "panic-on-matrix-with-1<=r<=n"
        | "err" :: _ => if tailRank h < rr then none else some "error-although-tail-invertible"
        | "ok" :: _ :: cwsI =>
          if tailRank h < rr then some "accepted-although-tail-singular" else
          match cwsI.mapM parseBools with
          | none => some "codeword-panic-or-unparsable"
          | some cwl =>
            if cwl.length ≠ msgs.length then some "codeword-count" else
            let bad := (msgs.zip cwl).find? (fun p => p.2.length ≠ n ∨ p.2.take (n - rr) ≠ p.1 ∨ !syndromeOK h p.2)
            if bad.isSome then some "not-a-codeword-starting-with-the-message" else
            -- linearity on triples
            let rec lin : List (List Bool) → Bool
              | a :: b :: ab :: rest => (xorBits a b == ab) && lin rest
              | _ => true
            if lin cwl then none else some "encoding-not-linear"
        | _ => some "unparsable"
      verdict model out prop
    | _, _ => "BADLINE c02 parse"
  | _ => "BADLINE c02 arity"

def showSys : SysRes → List String
  | .ok h => ["ok", showLL h.rows, showLL h.cols]
  | .overdetermined => ["overdetermined"]
  | .notFullRank => ["notfullrank"]
  | .panic => ["panic"]

def colSet (h : SM) (c : Nat) : List Nat := (h.col c).mergeSort

/-- `c09 <rows> <cols> => ok <rows> <cols> <from_h: ok|err|panic> | notfullrank | overdetermined | panic` -/
def handleC09 (inp out : List String) : String :=
  match inp with
  | [r, c] =>
    match parseSM r c with
    | some h =>
      let m := paritySystematic h
      let model := match m with
        | .ok g => showSys m ++ (showEnc (fromH g)).take 1
        | _ => showSys m
      let n := h.ncols; let rr := h.nrows
      let prop : Option String :=
        if rr = 0 ∨ rr > n then none else
        let full := fullRank h = rr
        match out with
        | ["panic"] => some "panic"
        | ["notfullrank"] => if full then some "not-full-rank-error-on-full-rank-matrix" else none
        | ["ok", r2, c2, enc] =>
          (match parseSM r2 c2 with
           | some g =>
             if !full then some "accepted-rank-deficient-matrix"
             else if g.nrows ≠ rr ∨ g.ncols ≠ n then some "dimensions-changed"
             else if ((List.range n).map (colSet g)).mergeSort (fun a b => a ≤ b) ≠ ((List.range n).map (colSet h)).mergeSort (fun a b => a ≤ b)
               then some "columns-are-not-a-permutation-of-the-input-columns"
             else if tailRank g ≠ rr then some "tail-not-invertible"
             else if enc ≠ "ok" then some "encoder-rejects-result"
             else none
           | none => some "unparsable")
        | _ => some "unexpected-outcome"
      verdict model out prop
    | none => "BADLINE c09 parse"
  | _ => "BADLINE c09 arity"

end LdpcV.Driver.C02
