/-
Driver for C12.
  c12 chain <rows> <cols> <B|P> <pattern|-> <interleave: +c|-c|0> => <n> <n_cw> <k> <rate bits> <sign vector>…
      sign vector: one char per LLR the injected decoder received: '+' (> 0), '-' (< 0), '0' (exactly zero), 'n' (NaN)
  c12 misfit <rows> <cols> <B|P> <pattern|-> <interleave> => <ok|err|hang> <frames that reached a decoder> <their lengths|->
  c12 noise <k> <n> <bps> <ebn0 bits> => <sigma bits> <N> <mean bits> <var bits> <lag1 bits>
  c12 scale <rows> <cols> <B|P> <pattern|-> <interleave> <ebn0 bits> => <llr bits,…>      first frame handed to the decoder at 60 dB
  c12 awgn <sigma bits> <N> => 14 statistics of AwgnChannel::add_noise on complex and real symbols
      statistics of the channel noise recovered from BPSK LLRs with the model's sigma
-/
import LdpcV.Model.Proto
import LdpcV.Model.Chain
import LdpcV.Model.Decoder
import LdpcV.Driver.C14
namespace LdpcV.Driver.C12
open LdpcV.Proto LdpcV.Chain LdpcV.Blocks LdpcV.Driver.C14

def parseCfg (m p i : String) : Option Config := do
  let pattern ← if p == "-" then some none else (parseBools p).map some
  let il ← if i == "0" then some none else
    (if i.startsWith "-" then ((i.drop 1).toString.toNat?).map (fun c => some (c, true))
     else ((if i.startsWith "+" then (i.drop 1).toString else i).toNat?).map (fun c => some (c, false)))
  pure { pattern := pattern, interleave := il, psk8 := m == "P" }

/-- all completions of the unknown (punctured) positions, at most 2^12 -/
def completions (known : List (Option Bool)) : List (List Bool) :=
  known.foldr (fun o acc => match o with
    | some b => acc.map (b :: ·)
    | none => acc.flatMap (fun t => [false :: t, true :: t])) [[]]

def signChar (x : Float) : Char := if x.isNaN then 'n' else if x > 0 then '+' else if x < 0 then '-' else '0'

def checkVector (h : SM) (cfg : Config) (v : String) : Option String :=
  let ncw := h.ncols
  let cs := v.toList
  if cs.length ≠ ncw then some "llr-vector-length-is-not-the-codeword-length" else
  let zeroOK := (cs.zipIdx).all (fun p => (p.1 == '0') == punctured cfg ncw p.2)
  if !zeroOK then some "zero-llrs-are-not-exactly-the-punctured-positions" else
  if cs.any (· == 'n') then some "NaN-llr" else
  let known : List (Option Bool) := cs.map (fun c => if c == '0' then none else some (c == '-'))
  if (known.filter (·.isNone)).length > 12 then none else
  match (completions known).find? (fun w => syndromeOK h w) with
  | none => some "signs-are-not-those-of-a-codeword-in-codeword-bit-order"
  | some cw =>
    -- the generic chain model at Float must give the same sign pattern for that codeword
    match noiseless Sc.float cfg 0.001 cw with
    | .ok l => if String.ofList (l.map signChar) == v then none else some "model-chain-gives-different-sign-pattern"
    | _ => some "model-chain-fails"

def firstSomeS : List (Option String) → Option String
  | [] => none
  | some x :: _ => some x
  | none :: xs => firstSomeS xs

def handle (inp out : List String) : String :=
  match inp with
  | ["chain", r, c, m, p, i] =>
    match parseSM r c, parseCfg m p i with
    | some h, some cfg =>
      let ncw := h.ncols
      let k := h.ncols - h.nrows
      -- BerTest::new in floating point, as written: n = round(n_cw / (len / trues)), rate = k / n
      let nF : Float := match cfg.pattern with
        | some pat => (Float.ofNat ncw / (Float.ofNat pat.length / Float.ofNat (numTrues pat))).round
        | none => Float.ofNat ncw
      let n := nF.toUInt64.toNat
      let model := [toString n, toString ncw, toString k, hex (Float.ofNat k / Float.ofNat n)]
      let prop : Option String :=
        -- judged on the IMPLEMENTATION's reported sizes: n = n_cw·trues/|pattern| exactly, n_cw and k from the matrix, rate = k/n
        if out.take 3 ≠ [toString (frameSize cfg ncw), toString ncw, toString k] then some "reported-frame-size-is-not-n_cw-times-trues-over-pattern-length"
        else if out.getD 3 "" ≠ hex (Float.ofNat k / Float.ofNat (frameSize cfg ncw)) then some "reported-rate-is-not-k-over-n-after-puncturing"
        else if n ≠ frameSize cfg ncw then some "model-frame-size-formula-inconsistent"
        else (out.drop 4).foldl (fun acc v => match acc with | some e => some e | none => checkVector h cfg v) none
      verdict (model ++ out.drop 4) out prop
    | _, _ => "BADLINE c12 chain"
  | ["misfit", r, c, m, p, i] =>
    -- a configuration whose block sizes do not fit: the chain model panics (C12.misfit_psk8_panics / misfit_interleaver_panics);
    -- the run must fail and no LLR vector may have reached a decoder
    match parseSM r c, parseCfg m p i with
    | some h, some cfg =>
      let cw := List.replicate h.ncols false
      match noiseless Sc.float cfg 0.001 cw with
      | .ok _ => "ok [not-compared: the-model-says-this-configuration-fits]"
      | _ =>
        let lens := match out.getD 2 "-" with | "-" => some [] | t => (t.splitOn ",").mapM String.toNat?
        let prop : Option String :=
          match lens with
          | none => some "unreadable-frame-lengths"
          | some ls =>
            if ls.any (· ≠ h.ncols) then some s!"a-frame-that-is-not-of-codeword-length-reached-the-decoder lengths={ls.take 4}"
            else if out.getD 0 "" ≠ "err" then some s!"a-run-whose-block-sizes-do-not-fit-did-not-return-an-error result={out.getD 0 ""}"
            else none
        verdict ["err", "0", "-"] out prop
    | _, _ => "BADLINE c12 misfit"
  | ["noise", k, n, bps, e] =>
    match k.toNat?, n.toNat?, bps.toNat?, parseF e, (out.take 5).mapM parseF with
    | some k, some n, some bps, some ebn0, some [sg, cnt, mean, var, lag1] =>
      let dup := out.getD 5 "0"
      let sigma := Modulation.noiseSigma Sc.float ebn0 (Float.ofNat k / Float.ofNat n) (Float.ofNat bps)
      let N := cnt
      let se := sigma / N.sqrt
      let prop : Option String :=
        if dup ≠ "0" then some s!"{dup}-LLR-frames-are-bit-identical-to-an-earlier-frame (noise not independent between frames / workers)"
        else if !close sg sigma 1e-12 0 then some s!"harness-sigma-differs-from-model-sigma {sg} vs {sigma}"
        else if mean.abs > 6 * se then some s!"noise-mean-not-zero mean={mean} se={se}"
        else if (var - sigma * sigma).abs > 6 * sigma * sigma * (2 / N).sqrt then some s!"noise-variance-is-not-sigma^2 var={var} sigma^2={sigma*sigma}"
        else if lag1.abs > 6 * sigma * sigma / N.sqrt then some s!"noise-samples-correlated lag1={lag1}"
        else none
      verdict out out prop
    | _, _, _, _, _ => "BADLINE c12 noise"
  | ["scale", r, c, m, p, i, e] =>
    match parseSM r c, parseCfg m p i, parseF e, ((out.getD 0 "").splitOn ",").mapM parseF with
    | some h, some cfg, some ebn0, some llrs =>
      let ncw := h.ncols
      let k := h.ncols - h.nrows
      let rate := Float.ofNat k / Float.ofNat (frameSize cfg ncw)
      let sigma := Modulation.noiseSigma Sc.float ebn0 rate (Float.ofNat (bitsPerSymbol cfg))
      let known : List (Option Bool) := llrs.map (fun x => if x == 0 then none else some (x < 0))
      let prop : Option String :=
        if llrs.length ≠ ncw then some "llr-vector-length-is-not-the-codeword-length" else
        if (known.filter (·.isNone)).length > 12 then none else
        match (completions known).find? (fun w => syndromeOK h w) with
        | none => some "signs-are-not-those-of-a-codeword-in-codeword-bit-order"
        | some cw =>
          match noiseless Sc.float cfg sigma cw with
          | .ok l =>
            -- at 60 dB the noise moves an LLR by well under 2 %; a wrong rate or bits-per-symbol factor in sigma^2 moves it by >= 9 %
            if (l.zip llrs).all (fun q => (q.1 - q.2).abs ≤ 0.04 * q.1.abs) then none
            else some s!"llr-magnitudes-do-not-match-sigma-from-EbN0-rate-after-puncturing-and-bits-per-symbol (model sigma {sigma})"
          | _ => some "model-chain-fails"
      verdict out out prop
    | _, _, _, _ => "BADLINE c12 scale"
  | ["awgn", sg, cnt] =>
    match parseF sg, cnt.toNat?, (out.take 14).mapM parseF with
    | some sigma, some n, some [mre, vre, lre, qre, mim, vim, lim, qim, cov, cross1, mr, vr, lr, qr] =>
      let untouched := out.getD 14 "0"
      let N := Float.ofNat n
      let s2 := sigma * sigma
      let bad (nm : String) (m v l q : Float) : Option String :=
        if m.abs > 6 * sigma / N.sqrt then some s!"{nm}-noise-mean-not-zero {m}"
        else if (v - s2).abs > 6 * s2 * (2 / N).sqrt then some s!"{nm}-noise-variance-is-not-sigma^2 {v} vs {s2}"
        else if l.abs > 6 * s2 / N.sqrt then some s!"{nm}-noise-consecutive-samples-correlated {l}"
        -- 4th central moment of a Gaussian is 3 sigma^4, its estimator has variance 96 sigma^8 / N
        else if (q - 3 * s2 * s2).abs > 6 * s2 * s2 * (96 / N).sqrt then some s!"{nm}-noise-fourth-moment-not-Gaussian {q} vs {3 * s2 * s2}"
        else none
      let prop := firstSomeS [(if untouched ≠ "0" then some s!"{untouched}-samples-received-no-noise" else none), bad "real-part" mre vre lre qre, bad "imaginary-part" mim vim lim qim, bad "real-channel" mr vr lr qr,
        (if cov.abs > 6 * s2 / N.sqrt then some s!"real-and-imaginary-noise-correlated {cov}" else none),
        (if cross1.abs > 6 * s2 / N.sqrt then some s!"imaginary-noise-correlated-with-next-real-noise {cross1}" else none)]
      verdict out out prop
    | _, _, _ => "BADLINE c12 awgn"
  | _ => "BADLINE c12 kind"

end LdpcV.Driver.C12
