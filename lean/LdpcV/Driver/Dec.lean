/-
Drivers for the decoder properties C01, C03, C10, C18.
Case formats (see harness/src/dec.rs):
  c01 <name> <rows> <cols> <call>… => <res>…            one or more calls on one decoder object
  c10 <name> <rows> <cols> <call>… => <res>… | <res>…   reused-object results | fresh-object results
  c18 name <i> => <Debug> <Display> <clap name> <from_str(Display) ok?>
  c18 beh <name> <rows> <cols> <call>… => <res>… | <res>…   factory-built | directly constructed expected (A, schedule)
  c18 rej <string> => <ok|err>
  c03 <ms|aff> <F|L> <rows> <cols> <limit>:<llrs> => <res> <trace token>…
  c03 tree <exact sum-product name> <rows> <cols> <limit>:<llrs> => <res>      (cycle-free matrix)
call  = <limit>:<f64 bit patterns, 16 hex digits each, comma separated>
res   = S:<bits>:<iterations> | F:<bits>:<iterations> | panic
-/
import LdpcV.Model.Proto
import LdpcV.Model.ArithTest
import LdpcV.Spec.Factory
import LdpcV.Spec.BPRef
import LdpcV.Model.ArithIdeal
namespace LdpcV.Driver.Dec
open LdpcV.Proto

def hexDigit (c : Char) : Option Nat :=
  if '0' ≤ c ∧ c ≤ '9' then some (c.toNat - '0'.toNat)
  else if 'a' ≤ c ∧ c ≤ 'f' then some (c.toNat - 'a'.toNat + 10)
  else none

def parseHex64 (s : String) : Option UInt64 :=
  if s.length ≠ 16 then none else
  (s.toList.foldlM (fun acc c => (hexDigit c).map (fun d => acc * 16 + d)) 0).map UInt64.ofNat

def parseCall (s : String) : Option (List UInt64 × Nat) :=
  match s.splitOn ":" with
  | [n, l] => do
    let n ← n.toNat?
    let l ← if l == "-" then some [] else (l.splitOn ",").mapM parseHex64
    pure (l, n)
  | _ => none

def showVerdict : Verdict → String
  | .success w it => s!"S:{showBools w}:{it}"
  | .failure w it => s!"F:{showBools w}:{it}"

def parseVerdict (s : String) : Option (Option Verdict) :=
  if s == "panic" then some none else
  match s.splitOn ":" with
  | ["S", w, it] => do pure (some (.success (← parseBools w) (← it.toNat?)))
  | ["F", w, it] => do pure (some (.failure (← parseBools w) (← it.toNat?)))
  | _ => none

/-- results of a history on one model decoder object; a panic ends the history -/
def runHistory {A : Arith} (h : SM) : DecSt A → List (List UInt64 × Nat) → List String
  | _, [] => []
  | st, (llrs, n) :: rest =>
    match st.decode h llrs n with
    | none => ["panic"]
    | some (v, st') => showVerdict v :: runHistory h st' rest

/-- the matrix dumped by the harness (the library's own adjacency lists) must be a set of positions: row and column lists
mutually consistent, in range and without duplicates (`SM.Inv`, the hypothesis of the decoder theorems; cf. `ar_inv_of_invB`) -/
def smWellFormed (h : SM) : Bool :=
  (List.range h.nrows).all (fun r => (h.row r).all (fun c => decide (c < h.ncols) && (h.col c).contains r)) &&
  (List.range h.ncols).all (fun c => (h.col c).all (fun r => decide (r < h.nrows) && (h.row r).contains c)) &&
  (List.range h.nrows).all (fun r => decide (h.row r).Nodup) &&
  (List.range h.ncols).all (fun c => decide (h.col c).Nodup)

def illFormed (h : SM) : Option String :=
  -- (quadratic in the list-based representation: not evaluated on the very wide matrices of the C01 harness)
  if h.ncols > 5000 then none else
  if smWellFormed h then none else some "the-parity-check-matrix-object-is-not-a-set-of-positions (adjacency lists inconsistent or with duplicates)"

/-- C01 predicate on one implementation result.  C01 constrains the *results* of `decode`; a call that panics
returns no result, so the predicate has nothing to judge (`none`).  For the 20 names with an exact model the model
is total on these inputs, so a panic of the implementation is still reported — as a MISMATCH with the model. -/
def c01Pred (h : SM) (llrs : List UInt64) (n : Nat) : Option Verdict → Option String
  | none => none
  | some (.success w it) =>
    let signs := llrs.map f64LeZero
    if w.length ≠ h.ncols then some "success-word-length"
    else if !syndromeOK h w then some "success-on-non-codeword"
    else if it > n then some "iterations-exceed-limit"
    else if (it == 0) != syndromeOK h signs then some "zero-iterations-iff-input-signs-satisfy-checks"
    else if it == 0 && w != signs then some "zero-iteration-word-is-not-the-sign-pattern"
    else none
  | some (.failure w it) =>
    if w.length ≠ h.ncols then some "failure-word-length"
    else if it ≠ n then some "failure-iterations-not-limit"
    else if n ≥ 1 && syndromeOK h w then some "failure-with-valid-codeword"
    else none

def splitBar (out : List String) : List String × List String :=
  (out.takeWhile (· ≠ "|"), (out.dropWhile (· ≠ "|")).drop 1)

def firstSome {α : Type} : List (Option α) → Option α
  | [] => none
  | some x :: _ => some x
  | none :: xs => firstSome xs

/-- model results for an implementation name (only the 20 8-bit names have an exact model) -/
def modelFor (name : String) (h : SM) (calls : List (List UInt64 × Nat)) : Option (List String) :=
  if h.ncols > 5000 then none else      -- predicate only
  match Factory.parse name with
  | none => none
  | some i =>
    match i.arith? with
    | none => none
    | some A => some (runHistory h (DecSt.fresh A i.sched h) calls)

def handleC01 (inp out : List String) : String :=
  match inp with
  | name :: r :: c :: calls =>
    match parseSM r c, calls.mapM parseCall, out.mapM parseVerdict with
    | some h, some calls, some res =>
      let prop := firstSome (illFormed h :: (calls.zip res).map (fun p => c01Pred h p.1.1 p.1.2 p.2))
      match modelFor name h calls with
      | some m => verdict m out prop
      | none => verdict out out prop       -- float implementation: predicate only
    | _, _, _ => "BADLINE c01 parse"
  | _ => "BADLINE c01 arity"

def handleC10 (inp out : List String) : String :=
  match inp with
  | name :: r :: c :: calls =>
    let (reused, fresh) := splitBar out
    match parseSM r c, calls.mapM parseCall with
    | some h, some calls =>
      -- a call on which the fresh decoder panics too (f32 overflow to NaN inside `partial_cmp().unwrap()`) is a
      -- call on which reused and fresh agree: C10 compares the two, it does not promise a result
      let prop := if reused ≠ fresh then some "reused-decoder-differs-from-fresh-decoder" else illFormed h
      match modelFor name h calls with
      | some m => verdict (m ++ ["|"] ++ m) out prop
      | none => verdict out out prop
    | _, _ => "BADLINE c10 parse"
  | _ => "BADLINE c10 arity"

def handleC18 (inp out : List String) : String :=
  match inp with
  | ["name", i] =>
    match i.toNat? with
    | some i =>
      match Factory.all[i]? with
      | some impl =>
        let n := impl.name
        -- Debug, Display, clap value name are all the verbatim name; from_str(Display) round-trips
        let m := [n, n, n, "ok"]
        let prop := if Factory.parse n ≠ some impl then some "model-table-inconsistent" else none
        verdict m out prop
      | none => verdict ["no-such-variant"] out (some "more-variants-than-36")
    | none => "BADLINE c18 name"
  | ["count"] => verdict [toString Factory.all.length] out none
  | ["rej", s] =>
    -- strings are transported hex-encoded (they may contain spaces)
    let m := match Factory.parse (String.ofList ((s.splitOn ".").filterMap (fun t => t.toNat?.map Char.ofNat))) with
      | some _ => "ok" | none => "err"
    verdict [m] out none
  | "beh" :: name :: r :: c :: calls =>
    let (built, direct) := splitBar out
    match parseSM r c, calls.mapM parseCall with
    | some h, some calls =>
      let prop := if built ≠ direct then some "factory-built-decoder-differs-from-named-arithmetic-and-schedule" else none
      match modelFor name h calls with
      | some m => verdict (m ++ ["|"] ++ m) out prop
      | none => verdict out out prop
    | _, _ => "BADLINE c18 beh parse"
  | _ => "BADLINE c18 kind"

/-! ### C03: traces -/

def showMsgs (l : List (Nat × Int)) : String :=
  if l.isEmpty then "-" else ",".intercalate (l.map (fun p => s!"{p.1}.{p.2}"))

def showCall (A : Arith) (sll : A.Llr → String) (sv : List (Nat × A.VarMsg) → String) (sc : List (Nat × A.CheckMsg) → String)
    (sl : List A.VarLlr → String) : BPRef.Call A → String
  | .check _ inc out => s!"C:{sv inc}:{sc out}"
  | .var _ input inc llr out => s!"V:{sll input}:{sc inc}:{sll llr}:{sv out}"
  | .layer _ before after vars => s!"L:{sc before}:{sc after}:{sl vars}"

def runC03 (A : Arith) (sll : A.Llr → String) (sv : List (Nat × A.VarMsg) → String) (sc : List (Nat × A.CheckMsg) → String)
    (sl : List A.VarLlr → String) (s : Sched) (h : SM) (llrs : List UInt64) (n : Nat) :
    List String × List String :=
  -- (buffer-model result, textbook result + trace)
  let buf := match (DecSt.fresh A s h).decode h llrs n with
    | none => ["panic"]
    | some (v, _) => [showVerdict v]
  let ref := match s with
    | .flooding => BPRef.floodRefTraced A h llrs n
    | .layered => BPRef.layerRefTraced A h llrs n
  let refOut := match ref with
    | none => ["panic"]
    | some (v, tr) => showVerdict v :: tr.map (showCall A sll sv sc sl)
  (buf, refOut)

/-! ### C03, exactness clause: the exact sum-product arithmetics on cycle-free matrices -/

/-- the ideal sum-product arithmetic at `Float`, reading the channel LLRs from their bit patterns -/
def floatIdeal : Arith := { Ideal.arith Sc.float with quantize := fun b => Float.ofBits b }

def minAbs (m : Float) (l : List Float) : Float := l.foldl (fun a x => if x.abs < a then x.abs else a) m

/-- the tanh rule with its clamp (x/2 clamped to ±c: 18 for f64, 9 for f32), evaluated at `Float` -/
def floatTanh (c : Float) : Arith := ArithFloat.mkArith Sc.float Float.ofBits c .tanh

/-- reference arithmetic of a tree case: the clamped tanh rule for the Tanh names (so that large LLRs saturate as in the
code), the ideal rule otherwise; all carriers are `Float` -/
def treeRef (name : String) : Arith :=
  if (name.splitOn "Tanh").length > 1 then floatTanh (if name.endsWith "32" then 9 else 18) else floatIdeal

def floodStep (tanhClamp : Option Float) (h : SM) (input : List Float) (em : List (List (Nat × Float))) :
    Option (List (List (Nat × Float)) × List Float) :=
  match tanhClamp with
  | some c => (BPRef.floodIter (A := floatTanh c) h input em).map (fun r => (r.1, r.2.1))
  | none => (BPRef.floodIter (A := floatIdeal) h input em).map (fun r => (r.1, r.2.1))

def layerStep (tanhClamp : Option Float) (rcv : List (List (Nat × Float))) (vars : List Float) :
    Option (List (List (Nat × Float)) × List Float) :=
  match tanhClamp with
  | some c => (BPRef.layerIter (A := floatTanh c) 0 rcv vars).map (fun r => (r.1, r.2.1))
  | none => (BPRef.layerIter (A := floatIdeal) 0 rcv vars).map (fun r => (r.1, r.2.1))

/-- textbook flooding with the syndrome stop, also returning the smallest |LLR| seen (robustness of the hard decisions) -/
def treeFlood (tanhClamp : Option Float) (h : SM) (input : List Float) (n : Nat) :
    Nat → List (List (Nat × Float)) → List Float → Float → Option (Verdict × Float)
  | 0, _, llrs, m => some (.failure (llrs.map (· ≤ 0)) n, m)
  | rem+1, em, _, m =>
    match floodStep tanhClamp h input em with
    | none => none
    | some (em', llrs') =>
      let w := llrs'.map (fun (x : Float) => decide (x ≤ 0))
      let m' := minAbs m llrs'
      if syndromeOK h w then some (.success w (n - rem), m') else treeFlood tanhClamp h input n rem em' llrs' m'

def treeLayer (tanhClamp : Option Float) (h : SM) (n : Nat) : Nat → List (List (Nat × Float)) → List Float → Float → Option (Verdict × Float)
  | 0, _, vars, m => some (.failure (vars.map (· ≤ 0)) n, m)
  | rem+1, rcv, vars, m =>
    match layerStep tanhClamp rcv vars with
    | none => none
    | some (rcv', vars') =>
      let w := vars'.map (fun (x : Float) => decide (x ≤ 0))
      let m' := minAbs m vars'
      if syndromeOK h w then some (.success w (n - rem), m') else treeLayer tanhClamp h n rem rcv' vars' m'

/-- `c03 tree`: (1) the ideal BP LLRs after `ncols` iterations (≥ diameter) equal the brute-force posterior (numeric
companion of C03Tree.exact_after_diameter, both schedules); (2) the implementation's verdict equals the ideal
schedule's verdict whenever every hard decision taken on the way is robust (|LLR| above the rounding margin) -/
def handleC03Tree (name r c call : String) (out : List String) : String :=
  match parseSM r c, parseCall call with
  | some h, some (bits, n) =>
    let lam : List Float := bits.map Float.ofBits
    if lam.length ≠ h.ncols then "BADLINE c03 tree length" else
    let layered := name.startsWith "HL"
    let f32 := name.endsWith "32"
    let margin : Float := if f32 then 1e-2 else 1e-7
    let post := (List.range h.ncols).map (Ideal.posterior Sc.float h lam)
    let far := if layered then (Ideal.layerRun Sc.float h lam h.ncols).map (·.2) else (Ideal.floodRun Sc.float h lam h.ncols).map (·.2)
    let tanhClamp : Option Float := if (name.splitOn "Tanh").length > 1 then some (if f32 then 9 else 18) else none
    let sane := if lam.any (fun x => x.abs > 8) then true else match far with   -- the ideal rule is not computable in Float beyond |x| ~ 36 (tanh rounds to 1)
      | none => false
      | some l =>
        -- beyond |LLR| ~ 8 the Float evaluation of atanh near 1 loses digits (1 - tanh 15 = 2e-13): absolute 1e-2 there
        let tol : Float := if lam.any (fun x => x.abs > 8) then 1e-2 else 1e-6
        l.length == post.length && (l.zip post).all (fun p => (p.1 - p.2).abs ≤ tol * (1 + p.2.abs))
    let signsOK := syndromeOK h (lam.map (· ≤ 0))
    -- the zero-iteration test reads the channel LLRs themselves (an exact 0.0 is "≤ 0" on both sides, no rounding involved): only the
    -- LLRs computed by iterations enter the robustness margin
    let run := if signsOK then some (Verdict.success (lam.map (fun (x : Float) => decide (x ≤ 0))) 0, 1e9)
               else if layered then treeLayer tanhClamp h n n (Store.blank (0 : Float) h.rows) lam 1e9
               else treeFlood tanhClamp h lam n n (BPRef.initEmitted (A := floatIdeal) h lam) lam 1e9
    match run with
    | none => "BADLINE c03 tree model-panic"
    | some (v, m) =>
      let prop := if !sane then some "ideal-BP-after-ncols-iterations-differs-from-brute-force-posterior" else none
      if m < margin then                            -- a hard decision within rounding noise: verdict not compared
        (match prop with
         | some why => s!"PROPFAIL {why} :: {showVerdict v}"
         | none => s!"ok [not-compared: hard decision within rounding margin] {showVerdict v}")
      else
        -- the reference IS the property's oracle here (textbook schedule with the exact sum-product rule): a difference is a property failure
        let prop := match prop with
          | some e => some e
          | none => if out ≠ [showVerdict v] then some "differs-from-the-textbook-schedule-with-the-exact-sum-product-rule-on-a-cycle-free-matrix" else none
        verdict [showVerdict v] out prop
  | _, _ => "BADLINE c03 tree parse"

def handleC03 (inp out : List String) : String :=
  match inp with
  | ["tree", name, r, c, call] => handleC03Tree name r c call out
  | ar :: sch :: r :: c :: call0 :: more =>
    -- earlier calls on the same decoder object (if any) come first; the LAST call is the traced one.  By C03 (refinement
    -- from every incoming state) the reference is a function of (H, last call) only, so the warm-up calls are ignored here.
    let call := (call0 :: more).getLast?.getD call0
    match parseSM r c, parseCall call with
    | some h, some (llrs, n) =>
      let s := if sch == "L" then Sched.layered else Sched.flooding
      let (buf, ref) :=
        if ar == "aff" then runC03 ArithTest.affine (fun (x : Int) => toString x) showMsgs showMsgs showIntList s h llrs n
        else runC03 ArithTest.intMinSum (fun (x : Int) => toString x) showMsgs showMsgs showIntList s h llrs n
      -- property: implementation result AND trace equal the textbook schedule's
      let prop := if (illFormed h).isSome then illFormed h else if out ≠ ref then some "differs-from-textbook-schedule" else
                  if buf ≠ ref.take 1 then some "buffer-model-differs-from-textbook (model inconsistency)" else none
      verdict ref out prop
    | _, _ => "BADLINE c03 parse"
  | _ => "BADLINE c03 arity"

end LdpcV.Driver.Dec
