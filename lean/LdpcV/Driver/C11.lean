/-
Driver for C11.  `c11 <rows> <cols> <root: r<i>|c<i>> <max|inf> => <bfs rows> <bfs cols> <local girth> <girth>`
The predicate uses an independent oracle: level-synchronous BFS for distances, and
"shortest cycle through r = min over edges (r,a) of 1 + dist(a, r) in the graph without that edge".
-/
import LdpcV.Model.Proto
import LdpcV.Model.Graph
namespace LdpcV.Driver.C11
open LdpcV.Proto LdpcV.Graph

def showOpts (l : List (Option Nat)) : String :=
  if l.isEmpty then "_" else ",".intercalate (l.map (fun o => match o with | none => "x" | some n => toString n))

def parseNode (s : String) : Option Node :=
  match s.toList with
  | 'r' :: t => (String.ofList t).toNat?.map Node.row
  | 'c' :: t => (String.ofList t).toNat?.map Node.col
  | _ => none

/-- oracle: level-synchronous BFS over an explicit adjacency function, with one forbidden edge -/
def oracleDist (h : SM) (forbid : Option (Node × Node)) (src : Node) : List (Node × Nat) :=
  let adj (x : Node) : List Node :=
    (neighbours h x).filter (fun y => match forbid with
      | some (a, b) => !((x == a && y == b) || (x == b && y == a))
      | none => true)
  let rec go : Nat → List Node → List (Node × Nat) → Nat → List (Node × Nat)
    | 0, _, seen, _ => seen
    | fuel + 1, frontier, seen, d =>
      if frontier.isEmpty then seen else
      let next := (frontier.flatMap adj).eraseDups.filter (fun y => !(seen.any (fun p => p.1 == y)))
      go fuel next (seen ++ next.map (fun y => (y, d + 1))) (d + 1)
  go (h.nrows + h.ncols + 1) [src] [(src, 0)] 0

def oracleLocalGirth (h : SM) (r : Node) : Option Nat :=
  minOpt ((neighbours h r).map (fun a =>
    ((oracleDist h (some (r, a)) a).find? (fun p => p.1 == r)).map (fun p => p.2 + 1)))

def oracleGirth (h : SM) : Option Nat :=
  minOpt (((List.range h.ncols).map Node.col ++ (List.range h.nrows).map Node.row).map (oracleLocalGirth h))

def cut (max : Option Nat) (g : Option Nat) : Option Nat :=
  match g, max with
  | some v, some m => if v ≤ m then some v else none
  | g, _ => g

def handle (inp out : List String) : String :=
  match inp with
  | ["known", want, what] =>
    -- a graph beyond the list-based model whose local girth is known by construction (C11.local_girth_exact / local_girth_bounded say what it must be)
    verdict [want] out (if out ≠ [want] then some ("a-distance-or-local-girth-known-by-construction-is-not-reported (" ++ what ++ ", expected " ++ want ++ ")") else none)
  | [r, c, root, mx] =>
    match parseSM r c, parseNode root with
    | some h, some root =>
      let max : Option Nat := if mx == "inf" then none else mx.toNat?
      let model : List String := match bfs h root, localGirth h root max with
        | some d, some lg => [showOpts d.rows, showOpts d.cols, showOptNat lg, showOptNat (girth h max)]
        | _, _ => ["panic"]
      -- oracle values
      let od := oracleDist h none root
      let wantRows := (List.range h.nrows).map (fun i => (od.find? (fun p => p.1 == Node.row i)).map (·.2))
      let wantCols := (List.range h.ncols).map (fun i => (od.find? (fun p => p.1 == Node.col i)).map (·.2))
      let prop : Option String :=
        if !inRange h root then none else
        match out with
        | [dr, dc, lg, g] =>
          if dr ≠ showOpts wantRows ∨ dc ≠ showOpts wantCols then some "bfs-distance-is-not-the-shortest-path-length"
          else if lg ≠ showOptNat (cut max (oracleLocalGirth h root)) then some "local-girth-is-not-the-shortest-cycle-through-the-node"
          else if g ≠ showOptNat (cut max (oracleGirth h)) then some "girth-is-not-the-shortest-cycle"
          else none
        | _ => some "panic-or-unparsable"
      verdict model out prop
    | _, _ => "BADLINE c11 parse"
  | _ => "BADLINE c11 arity"

end LdpcV.Driver.C11
