/-
Driver for C20 (the built binary, run as a subprocess by the harness).
  c20 dvbs2 <rate> <short 0|1> => ok <code whose library alist equals stdout | unknown-output> | fail <exit status != 0 ?> <panicked ?>
  c20 ccsds <rate> <block size> => ok <rate id> <k> | fail …
  c20 c2 => ok | …
  c20 girth <dvbs2|ccsds> … => <stdout line>
  c20 same <what> => equal | DIFFERENT              (stdout vs the library's result, compared by the harness)
  c20 encode <rows> <cols> <pattern|-> <input bytes> => <output bytes> | fail
  c20 invalid <what> => <status-nonzero 0|1> <stderr-nonempty 0|1> <panicked 0|1>
  c20 ber <npoints expected> <k> => <lines> <identities ok?>
-/
import LdpcV.Model.Proto
import LdpcV.Model.Cli
namespace LdpcV.Driver.C20
open LdpcV.Proto LdpcV.Cli

def handle (inp out : List String) : String :=
  match inp with
  | ["dvbs2", rate, short] =>
    let m := match dvbs2Code rate (short == "1") with
      | some c => ["ok", c]
      | none => ["fail"]
    let prop := if out.take 1 == ["fail"] && out ≠ ["fail", "1", "1", "0"] then some "invalid-arguments-must-give-nonzero-exit-and-message-without-panic" else none
    verdict m (if out.take 1 == ["fail"] then ["fail"] else out) prop
  | ["ccsds", rate, bs] =>
    let m := match ccsdsCode rate (bs.toNat?.getD 0) with
      | .ok r k => ["ok", r, toString k]
      | _ => ["fail"]
    let prop := if out.take 1 == ["fail"] && out ≠ ["fail", "1", "1", "0"] then some "invalid-arguments-must-give-nonzero-exit-and-message-without-panic" else none
    verdict m (if out.take 1 == ["fail"] then ["fail"] else out) prop
  | ["girth", _, _, _] =>
    verdict ["Code", "girth", "=", "6"] out (if out ≠ ["Code", "girth", "=", "6"] then some "documented-girth-6-not-printed" else none)
  | "same" :: what =>
    -- the harness compared the tool's output with what the library computes for the same arguments
    verdict ["equal"] out (if out ≠ ["equal"] then some s!"command-line-output-differs-from-the-library ({" ".intercalate what})" else none)
  | ["invalid", _] =>
    verdict ["1", "1", "0"] out (if out ≠ ["1", "1", "0"] then some "invalid-input-must-give-nonzero-exit-and-message-without-panic" else none)
  | ["encode", r, c, pat, input] =>
    match parseSM r c, (if pat == "-" then some none else (parseBools pat).map some), parseNatList input with
    | some h, some pattern, some input =>
      let m := match Lin.fromH h with
        | .ok e => (match encodeStream e (h.ncols - h.nrows) pattern input with
                    | some o => [showNatList o] | none => ["fail"])
        | _ => ["fail"]
      verdict m out (if m ≠ out then some "encode-output-is-not-the-punctured-codeword-per-complete-word (Cli.encodeStream)" else none)
    | _, _, _ => "BADLINE c20 encode"
  | ["ber", minC, maxC, stepC, _k] =>
    match minC.toInt?, maxC.toInt?, stepC.toInt? with
    | some a, some b, some s =>
      let n := numEbn0s a b s
      -- output: <number of data lines> <all identities hold 0|1>
      verdict [toString n, "1"] out
        (if out.getD 1 "" == "0" then some "ber-result-lines-violate-the-statistics-identities"
         else if out.getD 0 "" ≠ toString n then
           some s!"ber-result-file-has-{out.getD 0 "?"}-lines-for-{n}-requested-ebn0-values (Cli.numEbn0s: floor((max-min)/step)+1)"
         else none)
    | _, _, _ => "BADLINE c20 ber"
  | ["berx", _name] =>
    -- two requested Eb/N0 values (numEbn0s 200 300 100 = 2); output: <number of data lines> <all identities and detail lines hold 0|1>
    verdict [toString (numEbn0s 200 300 100), "1"] out
      (if out.getD 1 "" == "0" then some "ber-result-files-violate-the-statistics-identities-or-detail-lines" else none)
  | _ => "BADLINE c20 kind"

end LdpcV.Driver.C20
