/-
Driver for C16.  The generator is not modelled, so there is no model output to compare; the validators
(`mnAccepts`, `pegAccepts`: "this matrix is the result of SOME run of the modelled algorithm") and the
promised properties (`mnProps`, `pegProps`) are evaluated on every matrix the implementation returns.
  c16 mn <nrows> <ncols> <wr> <wc> <bcols> <btrials> <mingirth|-> <gtrials> <R|U> <seed> => ok <rows> <cols> <same-seed-again: same|DIFF> | err
  c16 peg <nrows> <ncols> <wc> <seed> => ok <rows> <cols> <same|DIFF> | err
  c16 seeds <kind> … => <number of distinct matrices among 16 seeds>
  c16 search <config…> <start> <tries> => none <all-fail: yes|NO> | some <seed> <in-range: yes|NO> <equals run(seed): yes|NO>
-/
import LdpcV.Model.Proto
import LdpcV.Model.Constructions
namespace LdpcV.Driver.C16
open LdpcV.Proto LdpcV.Constr

def handle (inp out : List String) : String :=
  match inp with
  | ["mn", nr, nc, wr, wc, bc, bt, mg, gt, pol, _seed] =>
    match nr.toNat?, nc.toNat?, wr.toNat?, wc.toNat?, bc.toNat?, bt.toNat?, gt.toNat? with
    | some nr, some nc, some wr, some wc, some bc, some bt, some gt =>
      let cfg : MnCfg := { nrows := nr, ncols := nc, wr := wr, wc := wc, backtrackCols := bc, backtrackTrials := bt,
                           minGirth := if mg == "-" then none else mg.toNat?, girthTrials := gt,
                           policy := if pol == "U" then .uniform else .random }
      let prop : Option String := match out with
        | ["err"] => none
        | ["ok", r, c, again] =>
          (match parseSM r c with
           | some H =>
             if again ≠ "same" then some "same-configuration-and-seed-gave-a-different-matrix"
             else if !mnProps cfg H then some "result-violates-the-promised-properties (size / column weight / row weight / girth / uniformity)"
             else if !mnAccepts cfg H then some "result-is-not-the-outcome-of-any-run-of-the-modelled-algorithm"
             else none
           | none => some "unparsable")
        | _ => some "panic-or-unparsable"
      verdict out out prop
    | _, _, _, _, _, _, _ => "BADLINE c16 mn"
  | ["pegbig", _nr, _nc, _wc, _seed] =>
    -- PEG on more than 65536 rows: the rule is replayed by the harness (the Rust twin of `pegAccepts`, which is quadratic on lists)
    verdict ["rule-ok"] out (if out ≠ ["rule-ok"] then some ("peg-on-more-than-65536-rows: " ++ " ".intercalate out) else none)
  | ["peg", nr, nc, wc, _seed] =>
    match nr.toNat?, nc.toNat?, wc.toNat? with
    | some nr, some nc, some wc =>
      let prop : Option String := match out with
        | ["err"] => if nr = 0 && wc > 0 && nc > 0 then none else some "peg-error-with-rows-available"
        | ["ok", r, c, again] =>
          (match parseSM r c with
           | some H =>
             if again ≠ "same" then some "same-configuration-and-seed-gave-a-different-matrix"
             else if !pegProps nr nc wc H then some "column-weight-is-not-min(wc,rows)"
             else if !pegAccepts nr nc wc H then some "an-edge-was-not-placed-on-an-unreachable/most-distant-least-degree-check"
             else none
           | none => some "unparsable")
        | _ => some "panic-or-unparsable"
      verdict out out prop
    | _, _, _ => "BADLINE c16 peg"
  | "seeds" :: _ =>
    let prop := match out with
      | [n] => if (n.toNat?.getD 0) ≥ 2 then none else some "different-seeds-all-gave-the-same-matrix"
      | _ => some "unparsable"
    verdict out out prop
  | "search" :: _ =>
    let prop := match out with
      | ["none", "yes"] => none
      | ["some", _, "yes", "yes"] => none
      | ["none", _] => some "search-returned-nothing-although-a-seed-in-range-succeeds"
      | ["some", _, _, _] => some "search-result-out-of-range-or-not-the-matrix-of-that-seed"
      | _ => some "unparsable"
    verdict out out prop
  | _ => "BADLINE c16 kind"

end LdpcV.Driver.C16
