/- Driver for C08: alist writer / parser.  Texts travel as `.`-separated code points (`-` = empty). -/
import LdpcV.Model.Proto
import LdpcV.Model.Alist
namespace LdpcV.Driver.C08
open LdpcV.Proto LdpcV.Alist

def decodeText (s : String) : Option (List Char) :=
  if s == "-" then some [] else (s.splitOn ".").mapM (fun t => t.toNat?.map Char.ofNat)

def encodeText (l : List Char) : String :=
  if l.isEmpty then "-" else ".".intercalate (l.map (fun c => toString c.toNat))

def showRes : Res SM → List String
  | .ok h => ["ok", showLL h.rows, showLL h.cols]
  | .err => ["err"]
  | .panic => ["panic"]

def sameSet (a b : SM) : Bool :=
  a.nrows == b.nrows && a.ncols == b.ncols &&
  (List.range a.nrows).all (fun r => (List.range a.ncols).all (fun c => a.mem r c == b.mem r c))

def strictlyIncreasing : List Nat → Bool
  | [] | [_] => true
  | a :: b :: t => decide (a < b) && strictlyIncreasing (b :: t)

/-- format prescribed by the alist format, checked on the implementation's text -/
def formatOK (h : SM) (padded : Bool) (text : List Char) : Option String :=
  let lines := (splitNL text).map lexLine
  -- the text ends with '\n', so the last piece is empty
  if lines.getLast? ≠ some [] then some "no-final-newline" else
  let lines := lines.dropLast
  if lines.length ≠ 4 + h.ncols + h.nrows then some "line-count" else
  match lines.mapM (fun l => l.mapM id) with
  | none => some "non-numeric-token"
  | some ls =>
    let colLines := (ls.drop 4).take h.ncols
    let rowLines := (ls.drop (4 + h.ncols))
    let cw := h.cols.map List.length
    let rw := h.rows.map List.length
    if ls.getD 0 [] ≠ [h.ncols, h.nrows] then some "header"
    else if ls.getD 1 [] ≠ [cw.foldl max 0, rw.foldl max 0] then some "max-weight-line"
    else if ls.getD 2 [] ≠ cw then some "column-weight-line"
    else if ls.getD 3 [] ≠ rw then some "row-weight-line"
    else
      let okList (dirlen : Nat) (w : Nat) (l : List Nat) : Bool :=
        let nz := l.filter (· != 0)
        strictlyIncreasing nz && nz.length == w && l.take w == nz.take w &&
        (if padded then l.length == max dirlen 1 || (dirlen == 0 && l.length == 1) else l.length == w)
      if ¬ ((colLines.zip cw).all (fun p => okList (cw.foldl max 0) p.2 p.1)) then some "column-index-list"
      else if ¬ ((rowLines.zip rw).all (fun p => okList (rw.foldl max 0) p.2 p.1)) then some "row-index-list"
      else if ¬ ((colLines.zipIdx).all (fun p => (p.1.filter (· != 0)).all (fun r => h.mem (r - 1) p.2))) then some "column-list-entry-not-in-matrix"
      else if ¬ ((rowLines.zipIdx).all (fun p => (p.1.filter (· != 0)).all (fun c => h.mem p.2 (c - 1)))) then some "row-list-entry-not-in-matrix"
      else none

def handle (inp out : List String) : String :=
  match inp with
  | ["w", r, c] =>
    match parseSM r c with
    | some h =>
      let mp := alist h true
      let mu := alist h false
      let prop : Option String :=
        match out with
        | ["panic"] => some "writer-panic"
        | [tp, tu] =>
          (match decodeText tp, decodeText tu with
           | some tp, some tu =>
             (match fromAlist tp, fromAlist tu with
              | .ok hp, .ok hu =>
                if !sameSet hp h then some "padded-roundtrip-differs"
                else if !sameSet hu h then some "unpadded-roundtrip-differs"
                else match formatOK h true tp with
                  | some why => some ("padded-" ++ why)
                  | none => (formatOK h false tu).map ("unpadded-" ++ ·)
              | _, _ => some "written-text-does-not-parse")
           | _, _ => some "unparsable")
        | _ => some "unparsable"
      verdict [encodeText mp, encodeText mu] out prop
    | none => "BADLINE c08 w"
  | ["big", _nr, _nc, _pc] =>
    -- a large sparse matrix written and parsed back by the implementation itself (C08.roundtrip_text says the result must be the same matrix)
    verdict ["roundtrip-ok"] out (if out ≠ ["roundtrip-ok"] then some ("large-sparse-matrix-does-not-round-trip: " ++ " ".intercalate out) else none)
  | ["p", t] =>
    match decodeText t with
    | some text =>
      if out = ["skipped-huge-dimensions"] then "ok skipped-huge-dimensions" else
      let m := fromAlist text
      let prop := if out = ["panic"] then some "parser-panic" else none
      verdict (showRes m) out prop
    | none => "BADLINE c08 p"
  | _ => "BADLINE c08 kind"

end LdpcV.Driver.C08
