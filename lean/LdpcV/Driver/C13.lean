/-
Driver for C13.
  c13 run <k> <target> <bchmax> <workers> <iteration offset> => <token>…
     tokens, in the order the implementation emitted them on the reporter channel (interval 0):
       R:<ebn0 index>:<num_frames>:<false_decodes>:<total_it>:<ldpc be>:<ldpc fe>:<ldpc ci>:<bch be|->:<bch fe|->:<bch ci|->:<ber>:<fer>:<avg it>:<avg it correct>
       FIN      (Report::Finished)
     followed by  `|`  and one  S:…  token per Eb/N0 from the returned Vec<Statistics> (same fields)
  The scripted decoder gives every frame a unique id = its iteration count; bit errors = id mod 4 (at most k),
  success flag = (id mod 3 ≠ 0); so successive differences of the reported counters identify the consumed frames.
  c13 sparse <k> <target> <points> <workers> => <R token>@<ebn0>… FIN | <R token>@<ebn0>…     (reporter interval 1 h, every frame in error)
  c13 fail <kind> => err | ok | panic | hang
-/
import LdpcV.Model.Proto
import LdpcV.Model.BerStats
import LdpcV.Driver.C14
namespace LdpcV.Driver.C13
open LdpcV.Proto LdpcV.Ber LdpcV.Driver.C14

structure Rep where
  point : Nat
  nf : Nat
  fd : Nat
  ti : Nat
  be : Nat
  fe : Nat
  ci : Nat
  bch : Option (Nat × Nat × Nat)
  ratios : List String
deriving Repr

def parseRep (s : String) : Option Rep :=
  match s.splitOn ":" with
  | [_, p, nf, fd, ti, be, fe, ci, bbe, bfe, bci, r1, r2, r3, r4] => do
    let bch ← if bbe == "-" then some none else do pure (some ((← bbe.toNat?), (← bfe.toNat?), (← bci.toNat?)))
    pure { point := ← p.toNat?, nf := ← nf.toNat?, fd := ← fd.toNat?, ti := ← ti.toNat?, be := ← be.toNat?, fe := ← fe.toNat?,
           ci := ← ci.toNat?, bch := bch, ratios := [r1, r2, r3, r4] }
  | _ => none

def scriptFrame (k id : Nat) : Frame :=
  let be := min (id % 4) k
  { bitErrors := be, frameError := be > 0, falseDecode := be > 0 && (id % 3 != 0), iterations := id }

def hexN (x : Float) : String := if x.isNaN then "nan" else hex x

def ratios (k : Nat) (c : Cur) : List String :=
  let hex := hexN
  let f (n : Nat) := Float.ofNat n
  let ber (s : CodeStats) := f s.bitErrors / (f k * f c.numFrames)
  [hex (ber c.ldpc), hex (f c.ldpc.frameErrors / f c.numFrames), hex (f c.totalIterations / f c.numFrames),
   hex (f c.ldpc.correctIterations / f (c.numFrames - c.ldpc.frameErrors))]

def sameCounters (r : Rep) (c : Cur) : Bool :=
  r.nf == c.numFrames && r.fd == c.falseDecodes && r.ti == c.totalIterations && r.be == c.ldpc.bitErrors &&
  r.fe == c.ldpc.frameErrors && r.ci == c.ldpc.correctIterations &&
  r.bch == c.bch.map (fun b => (b.bitErrors, b.frameErrors, b.correctIterations))

/-- replay one Eb/N0 point: every report must be the model state after consuming the frames identified so far -/
def replayPoint (k target bchMax : Nat) (reps : List Rep) (final : Rep) (seen : List Nat) (offset : Nat := 0) : Option String × List Nat :=
  let rec go (c : Cur) (seen : List Nat) : List Rep → Option String × Cur × List Nat
    | [] => (none, c, seen)
    | r :: rest =>
      if r.nf == c.numFrames then
        -- a repeated report (the final report of the point): nothing consumed
        (if sameCounters r c && (r.nf == 0 || r.ratios == ratios k c) then go c seen rest else (some "repeated-report-differs", c, seen))
      else if r.nf ≠ c.numFrames + 1 then (some "report-skips-frames (cannot reconstruct the consumed sequence)", c, seen)
      else
        -- the scripted decoder reports `id + offset` iterations for frame `id`
        let it := r.ti - c.totalIterations
        let id := it - offset
        if it < offset then (some s!"iteration-count-{it}-below-the-scripted-offset-{offset} (a narrow integer on the way to the statistics?)", c, seen)
        else if seen.contains id then (some s!"frame-{id}-consumed-twice", c, seen)
        else if c.errors ≥ target then (some "frame-consumed-after-the-error-target-was-reached", c, seen)
        else
          let c' := c.step bchMax { scriptFrame k id with iterations := id + offset }
          if !sameCounters r c' then (some s!"counters-are-not-those-of-whole-frames (frame id {id})", c', seen)
          else if r.ratios ≠ ratios k c' then (some "ratio-is-not-the-stated-quotient", c', seen)
          else go c' (id :: seen) rest
  let (e, c, seen') := go (Cur.new bchMax) seen reps
  match e with
  | some why => (some why, seen')
  | none =>
    if !sameCounters final c || final.ratios ≠ ratios k c then (some "returned-statistics-differ-from-last-report", seen')
    else if c.errors ≠ target then (some s!"point-stopped-with-{c.errors}-errors-instead-of-{target}", seen')
    else (none, seen')

/-- the scripted decoder in sequential mode: bit errors and success flag as before, iteration count `id mod 7`, and 0 for every fifth frame -/
def scriptFrameSeq (k id : Nat) : Frame :=
  let be := min (id % 4) k
  { bitErrors := be, frameError := be > 0, falseDecode := be > 0 && (id % 3 != 0), iterations := if id % 5 == 0 then 0 else id % 7 }

/-- one worker, one point: the frames are consumed in the order 1, 2, 3, …; every report must be the model state after that many frames -/
def replaySeq (k target bchMax : Nat) (reps : List Rep) (final : Rep) : Option String :=
  let rec go (c : Cur) (next : Nat) : List Rep → Option String × Cur
    | [] => (none, c)
    | r :: rest =>
      if r.nf == c.numFrames then
        (if sameCounters r c && (r.nf == 0 || r.ratios == ratios k c) then go c next rest else (some "repeated-report-differs", c))
      else if r.nf ≠ c.numFrames + 1 then (some "report-skips-frames", c)
      else if c.errors ≥ target then (some "frame-consumed-after-the-error-target-was-reached", c)
      else
        let c' := c.step bchMax (scriptFrameSeq k next)
        if !sameCounters r c' then (some s!"counters-are-not-those-of-whole-frames (frame {next}, zero-iteration frames included)", c')
        else if r.ratios ≠ ratios k c' then (some "ratio-is-not-the-stated-quotient", c')
        else go c' (next + 1) rest
  let (e, c) := go (Cur.new bchMax) 1 reps
  match e with
  | some why => some why
  | none =>
    if !sameCounters final c || final.ratios ≠ ratios k c then some "returned-statistics-differ-from-last-report"
    else if c.errors ≠ target then some s!"point-stopped-with-{c.errors}-errors-instead-of-{target}"
    else none

def handle (inp out : List String) : String :=
  match inp with
  | ["seq", k, target, bchMax] =>
    match k.toNat?, target.toNat?, bchMax.toNat? with
    | some k, some target, some bchMax =>
      let toks := out.takeWhile (· ≠ "|")
      let finals := (out.dropWhile (· ≠ "|")).drop 1
      if toks.getLast? ≠ some "FIN" then verdict out out (some "finished-report-is-not-last") else
      match (toks.dropLast).mapM parseRep, finals.mapM parseRep with
      | some reps, some [fin] => verdict out out (replaySeq k target bchMax reps fin)
      | _, _ => "BADLINE c13 seq tokens"
    | _, _, _ => "BADLINE c13 seq"
  | ["run", k, target, bchMax, workers, offset] =>
    match k.toNat?, target.toNat?, bchMax.toNat?, offset.toNat? with
    | some k, some target, some bchMax, some offset =>
      let builtTok := out.headD ""
      let out0 := out
      let out := out.drop 1
      let toks := out.takeWhile (· ≠ "|")
      let finals := (out.dropWhile (· ≠ "|")).drop 1
      if toks.getLast? ≠ some "FIN" then verdict out out (some "finished-report-is-not-last") else
      if (toks.dropLast).contains "FIN" then verdict out out (some "finished-report-twice") else
      match (toks.dropLast).mapM parseRep, finals.mapM parseRep with
      | some reps, some fins =>
        let npoints := fins.length
        let rec points (p : Nat) (fuel : Nat) (seen : List Nat) : Option String :=
          match fuel with
          | 0 => none
          | fuel + 1 =>
            if p ≥ npoints then none else
            match fins[p]? with
            | none => some "missing-final"
            | some fin =>
              let (e, seen') := replayPoint k target bchMax (reps.filter (·.point == p)) fin seen offset
              match e with
              | some why => some s!"point{p}:{why}"
              | none => points (p + 1) fuel seen'
        -- reports must be ordered by point
        let ordered := (reps.map (·.point)).zip ((reps.map (·.point)).drop 1) |>.all (fun p => p.1 ≤ p.2)
        let prop := if !ordered then some "reports-out-of-order"
          else if builtTok ≠ s!"B:{(workers.toNat?.getD 0) * npoints}" then some s!"worker-count: {builtTok} decoders built for {workers} workers x {npoints} points"
          else points 0 (npoints + 1) []
        verdict out0 out0 prop
      | _, _ => "BADLINE c13 tokens"
    | _, _, _, _ => "BADLINE c13 run"
  | ["sparse", _k, target, npoints, _workers] =>
    -- reporter with a long interval, every frame a frame error (one bit error each): the reports are exactly the returned statistics,
    -- one per Eb/N0 point, then Finished; every point has exactly `target` frames, frame errors and bit errors
    match target.toNat?, npoints.toNat? with
    | some target, some npoints =>
      let toks := out.takeWhile (· ≠ "|")
      let finals := (out.dropWhile (· ≠ "|")).drop 1
      let prop : Option String :=
        if toks.getLast? ≠ some "FIN" then some "finished-report-is-not-last"
        else if (toks.dropLast).contains "FIN" then some "finished-report-twice"
        else if finals.length ≠ npoints then some s!"returned-{finals.length}-statistics-for-{npoints}-points"
        else if toks.dropLast ≠ finals then
          some s!"reports-are-not-exactly-one-final-statistics-per-point: {(toks.dropLast).length} statistics reports for {npoints} points"
        else
          match finals.mapM (fun t => parseRep ((t.splitOn "@").headD "")) with
          | none => some "unreadable-statistics"
          | some reps =>
            if reps.all (fun r => r.nf == target && r.fe == target && r.be == target) then none
            else some s!"a-point-did-not-stop-after-exactly-{target}-frame-errors"
      verdict out out prop
    | _, _ => "BADLINE c13 sparse"
  | ["fail", _kind] =>
    verdict ["err"] out (if out = ["err"] then none else some ("run-did-not-return-an-error: " ++ " ".intercalate out))
  | _ => "BADLINE c13 kind"

end LdpcV.Driver.C13
