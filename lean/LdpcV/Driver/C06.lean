/-
Driver for C06 / C07: the implementation dumps every generated matrix (`<name> => <nrows> <ncols> <cols> <rows>`),
the model regenerates it from the pinned tables; compared entry by entry including insertion order.
The structural predicates are evaluated on the DUMPED matrix so that a mismatch is classified.
-/
import LdpcV.Model.Proto
import LdpcV.Model.Dvbs2
import LdpcV.Spec.Dvbs2Tables
import LdpcV.Model.Ccsds
import LdpcV.Spec.CcsdsTables
namespace LdpcV.Driver.C06
open LdpcV.Proto LdpcV.Dvbs2

/-- k from ETSI EN 302 307-1 Tables 5a / 5b -/
def standardK : String → Option Nat
  | "R1_4" => some 16200 | "R1_3" => some 21600 | "R2_5" => some 25920 | "R1_2" => some 32400
  | "R3_5" => some 38880 | "R2_3" => some 43200 | "R3_4" => some 48600 | "R4_5" => some 51840
  | "R5_6" => some 54000 | "R8_9" => some 57600 | "R9_10" => some 58320
  | "R1_4short" => some 3240 | "R1_3short" => some 5400 | "R2_5short" => some 6480 | "R1_2short" => some 7200
  | "R3_5short" => some 9720 | "R2_3short" => some 10800 | "R3_4short" => some 11880 | "R4_5short" => some 12600
  | "R5_6short" => some 13320 | "R8_9short" => some 14400
  | _ => none

def classify (name : String) (nr nc : Nat) (cs : List (List Nat)) : Option String :=
  match standardK name with
  | none => some "unknown-code-identifier"
  | some k =>
    let n := if name.endsWith "short" then 16200 else 64800
    if nc ≠ n then some "codeword-length-not-standard"
    else if nr ≠ n - k then some "number-of-parity-checks-not-n-minus-standard-k"
    else if cs.length ≠ nc then some "column-count"
    else
      let m := nr
      let ca := cs.toArray
      let q := m / 360
      if m % 360 ≠ 0 then some "parity-length-not-multiple-of-360" else
      -- quasi-cyclic law inside every 360-column group
      let qc := (List.range k).all (fun j => j % 360 == 0 ||
        (ca.getD j []).mergeSort == ((ca.getD (j - 1) []).map (fun r => (r + q) % m)).mergeSort)
      if !qc then some "quasi-cyclic-shift-law-violated"
      else if !((List.range m).all (fun i => ca.getD (k + i) [] == parityCol m i)) then some "parity-part-not-dual-diagonal"
      else if !(cs.all (fun c => c.all (· < m))) then some "row-index-out-of-range"
      else if !(noFourCycles n (rowsFast m cs).toList) then some "cycle-of-length-4"
      else none

def handle (inp out : List String) : String :=
  match inp, out with
  | [name], [nr, nc, cs, rs] =>
    match Dvbs2Tables.codes.find? (fun c => c.1 == name), nr.toNat?, nc.toNat?, parseLL cs with
    | some (_, n, m, q, addr), some nr, some nc, some csI =>
      let model := [toString m, toString n, showLL (cols n m q addr), showLL (rowsFastModel n m q addr)]
      let prop := classify name nr nc csI
      let prop := match prop with
        | some p => some p
        | none => if model ≠ [toString nr, toString nc, cs, rs] then some "differs-from-pinned-reference-matrix" else none
      verdict (model.take 2 ++ [s!"cols#{(cols n m q addr).length}", s!"rows#{m}"])
              (out.take 2 ++ [s!"cols#{csI.length}", s!"rows#{((parseLL rs).getD []).length}"]) prop
    | _, _, _, _ => "BADLINE c06 parse"
  | ["count"], _ => verdict [toString Dvbs2Tables.codes.length] out none
  | ["enc", name], [acc, girth] =>
    -- C06.encoder_staircase: every DVB-S2 matrix takes the linear-time staircase branch of `Encoder::from_h`;
    -- C06.girth_R1_2: the normal-frame rate-1/2 matrix has girth 6
    let prop : Option String :=
      if acc ≠ "Staircase:codewords-ok" then some s!"not-accepted-by-the-linear-time-staircase-encoder ({acc})"
      else if name == "R1_2" ∧ girth ≠ "Some(6)" then some s!"documented-girth-6-not-reported ({girth})"
      else none
    verdict ["Staircase:codewords-ok", if name == "R1_2" then "Some(6)" else girth] out prop
  | _, _ => "BADLINE c06 arity"

end LdpcV.Driver.C06

namespace LdpcV.Driver.C07
open LdpcV.Proto LdpcV.Ccsds

def tables : Tables := ⟨CcsdsTables.theta, CcsdsTables.phi⟩

def rateIdx : String → Option Nat
  | "R1_2" => some 0 | "R2_3" => some 1 | "R4_5" => some 2 | _ => none

/-- M from CCSDS 131.0-B Table 7-2 (the expected values, written independently of the Rust table) -/
def standardM : String → Nat → Option Nat
  | "R1_2", 1024 => some 512 | "R2_3", 1024 => some 256 | "R4_5", 1024 => some 128
  | "R1_2", 4096 => some 2048 | "R2_3", 4096 => some 1024 | "R4_5", 4096 => some 512
  | "R1_2", 16384 => some 8192 | "R2_3", 16384 => some 4096 | "R4_5", 16384 => some 2048
  | _, _ => none

def log2 (n : Nat) : Nat := (List.range 20).find? (fun l => 2 ^ l == n) |>.getD 0

def showSorted (cols : Array (List Nat)) : String := showLL cols.toList

/-- structural classification of a dumped AR4JA matrix -/
def classifyAr4ja (rate : String) (k nr nc : Nat) (rows : List (List Nat)) : Option String :=
  match standardM rate k, rateIdx rate with
  | some m, some ri =>
    if nr ≠ 3 * m then some "row-count-not-3M"
    else if nc ≠ k + 3 * m then some "column-count-not-k-plus-3M"
    else if rows.length ≠ nr then some "row-list-count"
    else
      let cols := colsOfRows nc rows
      -- block-column degrees of the protograph (punctured block = last-but-... the block with degree 6)
      let nb := nc / m
      let degs := (List.range nb).map (fun b => ((List.range m).map (fun i => (cols.getD (b * m + i) []).length)).eraseDups)
      -- AR4JA protograph block-column degrees: every extra information block 4 (3 edges to one check, 1 to the other);
      -- base blocks 2, 3, 1, 3, 6 (the last one is the punctured block)
      let expect := (List.replicate (extraBlocks ri) [4]) ++ [[2], [3], [1], [3], [6]]
      if degs ≠ expect then some s!"block-column-degree-profile {degs}"
      else
        let tail := rankBits (rows.map (fun r => bitsOfRow r (nc - nr) nc))
        if tail ≠ nr then some "last-3M-columns-singular" else none
  | _, _ => some "unknown-rate-or-size"

def handle (inp out : List String) : String :=
  match inp, out with
  | ["ar4ja", _rate, _k], ["construction-panicked"] =>
    verdict ["ok"] out (some "the-construction-of-the-matrix-panicked")
  | ["ar4jarows", rate, k, sample], [nr, nc, rs] =>
    -- quick tier, k = 16384: a sample of rows, each computed by the model on its own from the standard's tables (insertion order included)
    match rateIdx rate, k.toNat?, standardM rate (k.toNat?.getD 0), (sample.splitOn ",").mapM String.toNat? with
    | some ri, some _, some m, some idx =>
      let mlog := log2 m
      let rows := idx.map (fun r => (rowCalls tables ri mlog r).foldl applyCall [])
      let model := [toString (3 * m), toString (ar4jaNcols ri mlog), showLL rows]
      verdict model out (if model ≠ [nr, nc, rs] then some "sampled-rows-differ-from-the-rows-of-the-standard's-construction" else none)
    | _, _, _, _ => "BADLINE c07 ar4jarows"
  | ["ar4ja", rate, k], [nr, nc, rs, cs] =>
    match rateIdx rate, k.toNat?, nr.toNat?, nc.toNat?, parseLL rs with
    | some ri, some k, some nr, some nc, some rowsI =>
      match standardM rate k with
      | some m =>
        let mlog := log2 m
        let rows := ar4jaRows tables ri mlog
        let ncM := ar4jaNcols ri mlog
        let model := [toString (3 * m), toString ncM, showLL rows, showSorted (colsOfRows ncM rows)]
        let prop := match classifyAr4ja rate k nr nc rowsI with
          | some p => some p
          | none => if model ≠ [toString nr, toString nc, rs, cs] then some "differs-from-pinned-reference-matrix" else none
        verdict (model.take 2) (out.take 2) prop
      | none => "BADLINE c07 size"
    | _, _, _, _, _ => "BADLINE c07 parse"
  | ["c2"], [nr, nc, rs, cs] =>
    let rows := c2Rows CcsdsTables.c2
    let model := ["1022", "8176", showLL rows, showSorted (colsOfRows 8176 rows)]
    let prop : Option String :=
      match parseLL rs with
      | some rowsI =>
        let cols := colsOfRows 8176 rowsI
        if nr ≠ "1022" ∨ nc ≠ "8176" then some "C2-dimensions"
        else if !(rowsI.all (fun r => r.length == 32)) then some "C2-row-weight-not-32"
        else if !(cols.all (fun c => c.length == 4)) then some "C2-column-weight-not-4"
        else if rankBits (rowsI.map (fun r => bitsOfRow r 0 8176)) ≠ 1020 then some "C2-rank-not-1020"
        else if !(Dvbs2.noFourCycles 8176 rowsI) then some "C2-cycle-of-length-4"
        else if model ≠ [nr, nc, rs, cs] then some "differs-from-pinned-reference-matrix" else none
      | none => some "unparsable"
    verdict (model.take 2) (out.take 2) prop
  | ["enc", _rate, _k], [acc] =>
    -- C07.ar4ja_tail_rank_native + C02: the last 3M columns are invertible, so `Encoder::from_h` builds (dense branch) and encodes to codewords
    let prop : Option String :=
      if acc ≠ "DenseGenerator:codewords-ok" then some s!"systematic-encoder-does-not-accept-the-matrix ({acc})" else none
    verdict ["DenseGenerator:codewords-ok"] out prop
  | ["girth", _what], [g] =>
    -- C07Girth.c2_girth_six / ar4ja_r12_k1024_girth_six
    verdict ["Some(6)"] out (if g ≠ "Some(6)" then some s!"documented-girth-6-not-reported ({g})" else none)
  | _, _ => "BADLINE c07 arity"

end LdpcV.Driver.C07
