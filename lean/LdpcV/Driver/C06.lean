/-
Driver for C06 / C07: the implementation dumps every generated matrix (`<name> => <nrows> <ncols> <cols> <rows>`),
the model regenerates it from the pinned tables; compared entry by entry including insertion order.
The structural predicates are evaluated on the DUMPED matrix so that a mismatch is classified.
-/
import LdpcV.Model.Proto
import LdpcV.Model.Dvbs2
import LdpcV.Spec.Dvbs2Tables
namespace LdpcV.Driver.C06
open LdpcV.Proto LdpcV.Dvbs2

/-- k from ETSI EN 302 307-1 Tables 5a / 5b -/
def standardK : String → Option Nat
  | "R1_4" => some 16200 | "R1_3" => some 21600 | "R2_5" => some 25920 | "R1_2" => some 32400
  | "R3_5" => some 38880 | "R2_3" => some 43200 | "R3_4" => some 48600 | "R4_5" => some 51840
  | "R5_6" => some 54000 | "R8_9" => some 57600 | "R9_10" => some 58320
  | "R1_4short" => some 3240 | "R1_3short" => some 5400 | "R2_5short" => some 6480 | "R1_2short" => some 7200
  | "R3_5short" => some 9720 | "R2_3short" => some 10800 | "R3_4short" => some 11880 | "R4_5short" => some 12600
  | "R5_6short" => some 13320 | "R8_9short" => some 14400
  | _ => none

def classify (name : String) (nr nc : Nat) (cs : List (List Nat)) : Option String :=
  match standardK name with
  | none => some "unknown-code-identifier"
  | some k =>
    let n := if name.endsWith "short" then 16200 else 64800
    if nc ≠ n then some "codeword-length-not-standard"
    else if nr ≠ n - k then some "number-of-parity-checks-not-n-minus-standard-k"
    else if cs.length ≠ nc then some "column-count"
    else
      let m := nr
      let ca := cs.toArray
      let q := m / 360
      if m % 360 ≠ 0 then some "parity-length-not-multiple-of-360" else
      -- quasi-cyclic law inside every 360-column group
      let qc := (List.range k).all (fun j => j % 360 == 0 ||
        (ca.getD j []).mergeSort == ((ca.getD (j - 1) []).map (fun r => (r + q) % m)).mergeSort)
      if !qc then some "quasi-cyclic-shift-law-violated"
      else if !((List.range m).all (fun i => ca.getD (k + i) [] == parityCol m i)) then some "parity-part-not-dual-diagonal"
      else if !(cs.all (fun c => c.all (· < m))) then some "row-index-out-of-range"
      else if !(noFourCycles n (rowsFast m cs).toList) then some "cycle-of-length-4"
      else none

def handle (inp out : List String) : String :=
  match inp, out with
  | [name], [nr, nc, cs, rs] =>
    match Dvbs2Tables.codes.find? (fun c => c.1 == name), nr.toNat?, nc.toNat?, parseLL cs with
    | some (_, n, m, q, addr), some nr, some nc, some csI =>
      let model := [toString m, toString n, showLL (cols n m q addr), showLL (rowsFastModel n m q addr)]
      let prop := classify name nr nc csI
      let prop := match prop with
        | some p => some p
        | none => if model ≠ [toString nr, toString nc, cs, rs] then some "differs-from-pinned-reference-matrix" else none
      verdict (model.take 2 ++ [s!"cols#{(cols n m q addr).length}", s!"rows#{m}"])
              (out.take 2 ++ [s!"cols#{csI.length}", s!"rows#{((parseLL rs).getD []).length}"]) prop
    | _, _, _, _ => "BADLINE c06 parse"
  | ["count"], _ => verdict [toString Dvbs2Tables.codes.length] out none
  | _, _ => "BADLINE c06 arity"

end LdpcV.Driver.C06
