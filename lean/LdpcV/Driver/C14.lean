/-
Driver for C14 (modulators / demodulators).  Floats travel as 16-hex-digit bit patterns.
Comparisons: modulator symbols exactly; demodulator LLRs against (a) the `Float` instance of the generic
model (same formula text as the theorems) and (b) a direct log-sum-exp evaluation of the posterior
log-ratio the property states — both within 1e-9 relative + 1e-12 absolute.
-/
import LdpcV.Model.Proto
import LdpcV.Model.Modulation
import LdpcV.Driver.C04
namespace LdpcV.Driver.C14
open LdpcV.Proto LdpcV.Modulation

def F : Sc Float := Sc.float

def hex (x : Float) : String :=
  let n := x.toBits.toNat
  let digs := (List.range 16).reverse.map (fun i => (n / 16 ^ i) % 16)
  String.ofList (digs.map (fun d => if d < 10 then Char.ofNat (48 + d) else Char.ofNat (87 + d)))

def parseF (s : String) : Option Float := (Driver.C04.parseHex64 s).map Float.ofBits

def close (a b : Float) (rel abs : Float) : Bool :=
  if a.isNaN || b.isNaN then false
  else (a - b).abs ≤ abs + rel * (if a.abs < b.abs then b.abs else a.abs)

/-- stabilised log-sum-exp -/
def lse (xs : List Float) : Float :=
  let m := xs.foldl (fun a b => if a < b then b else a) (xs.headD 0)
  m + Float.log ((xs.map (fun x => Float.exp (x - m))).foldl (· + ·) 0)

def allTriples : List (Bool × Bool × Bool) :=
  [(false,false,false),(false,false,true),(false,true,false),(false,true,true),
   (true,false,false),(true,false,true),(true,true,false),(true,true,true)]

/-- the posterior log-ratio of bit `b` straight from the definition:
log Σ_{s: bit_b(s)=0} exp(-|r-s|²/2σ²) − log Σ_{s: bit_b(s)=1} exp(-|r-s|²/2σ²) -/
def posterior8 (sigma re im : Float) (b : Nat) : Float :=
  let term (t : Bool × Bool × Bool) : Float :=
    let s := psk8Mod F t.1 t.2.1 t.2.2
    Float.neg (((re - s.1) * (re - s.1) + (im - s.2) * (im - s.2)) / (2 * sigma * sigma))
  let bit (t : Bool × Bool × Bool) : Bool := if b = 0 then t.1 else if b = 1 then t.2.1 else t.2.2
  lse ((allTriples.filter (fun t => !(bit t))).map term) - lse ((allTriples.filter bit).map term)

def posteriorB (sigma r : Float) : Float :=
  Float.neg (((r + 1) * (r + 1)) / (2 * sigma * sigma)) + (((r - 1) * (r - 1)) / (2 * sigma * sigma))

/-- an IEEE-754 binary64 value as an exact dyadic rational `m · 2^e` (`none` for ±inf / NaN) -/
def dyadic (x : Float) : Option (Int × Int) :=
  let n : Nat := x.toBits.toNat
  let frac : Nat := n % 2 ^ 52
  let ex : Nat := (n / 2 ^ 52) % 2048
  let neg : Bool := n / 2 ^ 63 == 1
  if ex == 2047 then none
  else
    let (m, e) : Nat × Int := if ex == 0 then (frac, -1074) else (2 ^ 52 + frac, (ex : Int) - 1075)
    some (if neg then -(m : Int) else (m : Int), e)

def dmul (a b : Int × Int) : Int × Int := (a.1 * b.1, a.2 + b.2)
def dadd (a b : Int × Int) : Int × Int :=
  let e := if a.2 ≤ b.2 then a.2 else b.2
  (a.1 * 2 ^ (a.2 - e).toNat + b.1 * 2 ^ (b.2 - e).toNat, e)

/-- the conclusion of `C04Round`/`C14Round.bpsk_rounded` at u = 2⁻⁵³, decided EXACTLY in integer arithmetic on the
implementation's output: |impl − (−2r/σ²)| ≤ γ₄·|−2r/σ²|  ⇔  |impl·σ² + 2r|·(2⁵³ − 4) ≤ 4·|2r|.
`none` = not judged (an intermediate result overflows or is subnormal: outside the standard model) -/
def bpskWithinProvedBound (sigma r impl : Float) : Option Bool :=
  let minNormal : Float := 2.2250738585072014e-308
  let s2 := sigma * sigma
  let q := (-2.0 : Float) / s2
  let okRange := s2.isFinite && s2.abs ≥ minNormal && q.isFinite && q.abs ≥ minNormal &&
    impl.isFinite && (impl.abs ≥ minNormal || r == 0)
  if !okRange then none
  else
    match dyadic sigma, dyadic r, dyadic impl with
    | some ds, some dr, some di =>
      let a := dadd (dmul di (dmul ds ds)) (dmul (2, 0) dr)
      let b := dmul (2, 0) dr
      let e := if a.2 ≤ b.2 then a.2 else b.2
      let lhs := a.1.natAbs * 2 ^ (a.2 - e).toNat * (2 ^ 53 - 4)
      let rhs := 4 * b.1.natAbs * 2 ^ (b.2 - e).toNat
      some (decide (lhs ≤ rhs))
    | _, _, _ => none

def showPts (l : List (Float × Float)) : String :=
  if l.isEmpty then "-" else ",".intercalate (l.map (fun p => hex p.1 ++ "." ++ hex p.2))

def handle (inp out : List String) : String :=
  match inp with
  | ["modb", bits] =>
    match parseBools bits with
    | some bs =>
      let m := bs.map (fun b => hex (bpskMod F b))
      let ms := [if m.isEmpty then "-" else ",".intercalate m]
      -- the BPSK map is exact (+-1): a different symbol sequence is a failure of the modulator clause itself, with this input
      verdict ms out (if out ≠ ms ∧ out ≠ ["panic"] then some "bpsk-symbols-are-not-the-points-of-the-bits-in-order" else none)
    | none => "BADLINE c14 modb"
  | ["mod8", bits] =>
    match parseBools bits with
    | some bs =>
      let m := match psk8ModAll F bs with | some l => [showPts l] | none => ["panic"]
      -- predicate: unit energy of every emitted point (to 1e-15)
      -- the points are fixed constants (DVB-S2 Gray map, C14.psk8_gray / psk8_unit_energy): for a bit count divisible by 3 a different
      -- symbol sequence is a failure of the modulator clause itself, with this input
      verdict m out (if bs.length % 3 = 0 ∧ out ≠ m ∧ out ≠ ["panic"] then some "8psk-symbols-are-not-the-gray-mapped-points-of-the-bit-triples-in-order" else none)
    | none => "BADLINE c14 mod8"
  | ["demb", s, r] =>
    match parseF s, parseF r, out with
    | some s, some r, [o] =>
      (match parseF o with
       | some impl =>
         let m := bpskDemod F s r
         let want := posteriorB s r
         let prop := if !close impl want 1e-9 1e-12 then some s!"bpsk-llr-is-not-the-posterior-log-ratio want={want} got={impl}"
           else if bpskWithinProvedBound s r impl == some false then
             some s!"bpsk-llr-outside-the-proved-rounding-bound-of-4-roundings (C14Round.bpsk_rounded, u = 2^-53) got={impl}"
           else none
         if close impl m 1e-12 1e-300 then verdict out out prop else verdict [hex m] out prop
       | none => "BADLINE c14 demb out")
    | _, _, _ => "BADLINE c14 demb"
  | ["dem8", s, re, im] =>
    match parseF s, parseF re, parseF im, out.mapM parseF with
    | some s, some re, some im, some [o0, o1, o2] =>
      let m := psk8Demod F s (re, im)
      -- the squared distances |r - s_k|^2 are evaluated with an absolute error of a few ulp of (1 + |r|^2); the LLR is their
      -- differences times 1/(2 sigma^2): for extreme sigma / |r| that rounding, not a relative 1e-9, is the floor of any comparison
      let cond : Float := 64 * 1.2e-16 * (1 / (s * s)) * (1 + re * re + im * im)
      -- C14Round.psk8_rounded_linear: implementation and Float model are both within 47(u+e)(D+1) of the exact posterior
      -- log-ratio, D = (|re|+|im|)/sigma^2, so they differ by at most twice that (u = 2^-53; e = 2^-50 assumed for libm exp / ln_1p;
      -- not judged when an intermediate overflows or 1/sigma^2 is subnormal: outside the standard model)
      let dB : Float := (re.abs + im.abs) / (s * s)
      let proved : Float := 2 * 47 * (1.1102230246251565e-16 + 8.881784197001252e-16) * (dB + 1)
      let inModel : Bool := dB.isFinite && (1 / (s * s)).abs ≥ 2.2250738585072014e-308 && dB < 1e300
      let within (a b : Float) : Bool := !inModel || (a - b).abs ≤ proved
      let okModel := close o0 m.1 1e-9 (1e-12 + cond) && close o1 m.2.1 1e-9 (1e-12 + cond) && close o2 m.2.2 1e-9 (1e-12 + cond)
        && within o0 m.1 && within o1 m.2.1 && within o2 m.2.2
      let w := [posterior8 s re im 0, posterior8 s re im 1, posterior8 s re im 2]
      let okPost := close o0 (w.getD 0 0) 1e-9 (1e-9 + cond) && close o1 (w.getD 1 0) 1e-9 (1e-9 + cond) && close o2 (w.getD 2 0) 1e-9 (1e-9 + cond)
      let prop := if !okPost then some s!"8psk-llr-is-not-the-posterior-log-ratio want={w} got={[o0, o1, o2]}" else none
      if okModel then verdict out out prop else verdict [hex m.1, hex m.2.1, hex m.2.2] out prop
    | _, _, _, _ => "BADLINE c14 dem8"
  | ["hard8", bits, s] =>
    -- noiseless: hard decisions (LLR <= 0 means 1) on demodulated modulated bits return the bits
    match parseBools bits, parseF s, out with
    | some bs, some _, [o] =>
      let prop := if parseBools o ≠ some bs then some "noiseless-hard-decisions-differ-from-bits" else none
      verdict out out prop
    | _, _, _ => "BADLINE c14 hard8"
  | _ => "BADLINE c14 kind"

end LdpcV.Driver.C14
