/-
C04 (table-vs-real clause) — the 8-bit correction table tracks its real-valued counterpart:
entry t is the nearest integer to 8·ln(1 + e^(−t/8)), for every t in 0…127 (entries beyond index 21 are 0).
Helper lemmas: LdpcV/Lemmas/TableReal.lean (Mathlib real analysis).
-/
import LdpcV.Lemmas.TableReal
namespace LdpcV.C04Table
open LdpcV

/-- every table entry is within 1/2 of 8·ln(1 + e^(−t/8)) — i.e. it is `round(8·ln_1p(exp(−t/8)))` as in `impl_8bitquant! new()` -/
theorem table_tracks_real (t : Nat) (ht : t ≤ 127) :
    |((I8.table.getD t 0 : Int) : ℝ) - 8 * Real.log (1 + Real.exp (-(t : ℝ) / 8))| ≤ 1 / 2 := by
  rcases Nat.lt_or_ge t 22 with h | h
  · -- one case per table entry: `track t T` with the two rational power inequalities checked by `norm_num`
    interval_cases t
    · exact TableReal.track 0 6 (by norm_num) (by norm_num [TableReal.ya, TableReal.yb]) (by norm_num [TableReal.ya, TableReal.yb])
    · exact TableReal.track 1 5 (by norm_num) (by norm_num [TableReal.ya, TableReal.yb]) (by norm_num [TableReal.ya, TableReal.yb])
    · exact TableReal.track 2 5 (by norm_num) (by norm_num [TableReal.ya, TableReal.yb]) (by norm_num [TableReal.ya, TableReal.yb])
    · exact TableReal.track 3 4 (by norm_num) (by norm_num [TableReal.ya, TableReal.yb]) (by norm_num [TableReal.ya, TableReal.yb])
    · exact TableReal.track 4 4 (by norm_num) (by norm_num [TableReal.ya, TableReal.yb]) (by norm_num [TableReal.ya, TableReal.yb])
    · exact TableReal.track 5 3 (by norm_num) (by norm_num [TableReal.ya, TableReal.yb]) (by norm_num [TableReal.ya, TableReal.yb])
    · exact TableReal.track 6 3 (by norm_num) (by norm_num [TableReal.ya, TableReal.yb]) (by norm_num [TableReal.ya, TableReal.yb])
    · exact TableReal.track 7 3 (by norm_num) (by norm_num [TableReal.ya, TableReal.yb]) (by norm_num [TableReal.ya, TableReal.yb])
    · exact TableReal.track 8 3 (by norm_num) (by norm_num [TableReal.ya, TableReal.yb]) (by norm_num [TableReal.ya, TableReal.yb])
    · exact TableReal.track 9 2 (by norm_num) (by norm_num [TableReal.ya, TableReal.yb]) (by norm_num [TableReal.ya, TableReal.yb])
    · exact TableReal.track 10 2 (by norm_num) (by norm_num [TableReal.ya, TableReal.yb]) (by norm_num [TableReal.ya, TableReal.yb])
    · exact TableReal.track 11 2 (by norm_num) (by norm_num [TableReal.ya, TableReal.yb]) (by norm_num [TableReal.ya, TableReal.yb])
    · exact TableReal.track 12 2 (by norm_num) (by norm_num [TableReal.ya, TableReal.yb]) (by norm_num [TableReal.ya, TableReal.yb])
    · exact TableReal.track 13 1 (by norm_num) (by norm_num [TableReal.ya, TableReal.yb]) (by norm_num [TableReal.ya, TableReal.yb])
    · exact TableReal.track 14 1 (by norm_num) (by norm_num [TableReal.ya, TableReal.yb]) (by norm_num [TableReal.ya, TableReal.yb])
    · exact TableReal.track 15 1 (by norm_num) (by norm_num [TableReal.ya, TableReal.yb]) (by norm_num [TableReal.ya, TableReal.yb])
    · exact TableReal.track 16 1 (by norm_num) (by norm_num [TableReal.ya, TableReal.yb]) (by norm_num [TableReal.ya, TableReal.yb])
    · exact TableReal.track 17 1 (by norm_num) (by norm_num [TableReal.ya, TableReal.yb]) (by norm_num [TableReal.ya, TableReal.yb])
    · exact TableReal.track 18 1 (by norm_num) (by norm_num [TableReal.ya, TableReal.yb]) (by norm_num [TableReal.ya, TableReal.yb])
    · exact TableReal.track 19 1 (by norm_num) (by norm_num [TableReal.ya, TableReal.yb]) (by norm_num [TableReal.ya, TableReal.yb])
    · exact TableReal.track 20 1 (by norm_num) (by norm_num [TableReal.ya, TableReal.yb]) (by norm_num [TableReal.ya, TableReal.yb])
    · exact TableReal.track 21 1 (by norm_num) (by norm_num [TableReal.ya, TableReal.yb]) (by norm_num [TableReal.ya, TableReal.yb])
  · have h0 : I8.table.getD t 0 = 0 := List.getD_eq_default _ _ (by simpa [I8.table] using h)
    rw [h0]
    exact TableReal.track_zero t h

/-- the table stops exactly where the real value rounds to 0 and stays 0 from there on (the `map_while` in `new()`) -/
theorem table_cut (t : Nat) (ht : 22 ≤ t) : 8 * Real.log (1 + Real.exp (-(t : ℝ) / 8)) < 1 / 2 :=
  TableReal.cut t ht

end LdpcV.C04Table
