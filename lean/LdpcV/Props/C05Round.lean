/-
C05 under ROUNDING — the standard model of floating-point arithmetic (`Sc.rounded M`, LdpcV/Lemmas/RoundScalar.lean):
every `+ - * /` and every literal returns the exact result times (1+δ), |δ| ≤ u; negation, |·|, max, min and
comparisons are exact.  `M : FpModel` is universally quantified (IEEE-754 binary64: u = 2⁻⁵³, binary32: u = 2⁻²⁴, away
from overflow and underflow).  Not covered: overflow, subnormal underflow, NaN.   b = 1/(1−u),  γ_k = k·u/(1−k·u).
Helper lemmas: LdpcV/Lemmas/RoundLemmas.lean.
-/
import LdpcV.Lemmas.RoundLemmas
namespace LdpcV.C05Round
open LdpcV LdpcV.ArithF LdpcV.Modulation LdpcV.Round

/-- C05: the floating-point variable rule (`send_var_messages_no_clip`: left-to-right sum of the incoming messages from
0, plus the channel LLR) is within (bⁿ⁺¹ − 1)·(|input| + Σ|msgs|) of the exact total, n = degree -/
theorem var_total_rounded (M : FpModel) (input : ℝ) (msgs : List (Nat × ℝ)) :
    |(varRule (Sc.rounded M) input msgs).1 - (input + (msgs.map (·.2)).sum)| ≤
      ((b M) ^ (msgs.length + 1) - 1) * (|input| + ((msgs.map (·.2)).map (fun x => |x|)).sum) := by
  have h := varRule_total_err M input msgs
  have e : (varRule Sc.real input msgs).1 = input + (msgs.map (·.2)).sum := by
    unfold varRule; simp only [real_add, BoxL.sum_real]
  rw [e] at h; exact h

/-- … and in Higham's form: relative to the sum of magnitudes the error is at most γ_{n+1} -/
theorem var_total_rounded_gamma (M : FpModel) (input : ℝ) (msgs : List (Nat × ℝ))
    (hk : ((msgs.length + 1 : ℕ) : ℝ) * M.u < 1) :
    |(varRule (Sc.rounded M) input msgs).1 - (input + (msgs.map (·.2)).sum)| ≤
      gamma M (msgs.length + 1) * (|input| + ((msgs.map (·.2)).map (fun x => |x|)).sum) := by
  refine le_trans (var_total_rounded M input msgs) ?_
  have hb := b_pow_le M (msgs.length + 1) hk
  have hT : 0 ≤ ((msgs.map (·.2)).map (fun x => |x|)).sum :=
    List.sum_nonneg (by intro a ha; simp only [List.mem_map] at ha; obtain ⟨z, _, rfl⟩ := ha; exact abs_nonneg z)
  exact mul_le_mul_of_nonneg_right (by linarith) (by positivity)

/-- C05: … and the message to each check, `fl(total̃ − own contribution)`, is within (bⁿ⁺² − 1)·(|input| + Σ|msgs| + |own|) of
"that total minus the check's own contribution" -/
theorem var_msgs_rounded (M : FpModel) (input : ℝ) (msgs : List (Nat × ℝ)) (m : Nat × ℝ) (hm : m ∈ msgs) :
    ∃ o ∈ (varRule (Sc.rounded M) input msgs).2, o.1 = m.1 ∧
      |o.2 - ((input + (msgs.map (·.2)).sum) - m.2)| ≤
        ((b M) ^ (msgs.length + 2) - 1) * (|input| + ((msgs.map (·.2)).map (fun x => |x|)).sum + |m.2|) := by
  have h := varRule_msgs_err M input msgs m hm
  have e : (varRule Sc.real input msgs).1 = input + (msgs.map (·.2)).sum := by
    unfold varRule; simp only [real_add, BoxL.sum_real]
  rw [e] at h; exact h

/-- non-vacuity: in exact arithmetic the bound is 0 -/
example : (b FpModel.exact) ^ 5 - 1 = 0 := by unfold b FpModel.exact; simp

end LdpcV.C05Round
