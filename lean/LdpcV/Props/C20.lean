/-
C20 — the command-line tool emits exactly what the library computes.
Model: LdpcV/Model/Cli.lean (argument tables, `encode` framing, Eb/N0 list).  `clap`, file I/O and exit codes are
not modelled; they are observed on the binary built from the working tree.
-/
import LdpcV.Model.Cli
import LdpcV.Spec.Dvbs2Tables
import LdpcV.Spec.CodesSpec
import LdpcV.Lemmas.CliLemmas
namespace LdpcV.C20
open LdpcV LdpcV.Cli LdpcV.Blocks

def rates : List String := ["1/4", "1/3", "2/5", "1/2", "3/5", "2/3", "3/4", "4/5", "5/6", "8/9", "9/10"]

/-- the DVB-S2 argument table maps the 21 standard (rate, frame length) pairs one-to-one onto the 21 code
identifiers of the library (in the order of the enum), and nothing else is accepted among the listed rates -/
theorem dvbs2_arg_table :
    ((rates.map (fun r => dvbs2Code r false)) ++ (rates.map (fun r => dvbs2Code r true))).filterMap id
      = Dvbs2Tables.codes.map (·.1) ∧
    dvbs2Code "9/10" true = none ∧ (Dvbs2Tables.codes.map (·.1)).Nodup := by
  decide +kernel

/-- for EVERY rate string: accepted exactly when it is one of the 11 (10 for short frames) standard rates -/
theorem dvbs2_arg_accepts (rate : String) (short : Bool) :
    (dvbs2Code rate short).isSome = (rates.contains rate && !(short && rate == "9/10")) := by
  cases short <;> (unfold dvbs2Code rates; split <;> simp_all)

/-- the CCSDS argument table: exactly the 9 (rate, k) combinations, the rate being checked first -/
theorem ccsds_arg_table :
    (["1/2", "2/3", "4/5"].flatMap (fun r => [1024, 4096, 16384].map (fun k => ccsdsCode r k)))
      = [.ok "R1_2" 1024, .ok "R1_2" 4096, .ok "R1_2" 16384, .ok "R2_3" 1024, .ok "R2_3" 4096,
         .ok "R2_3" 16384, .ok "R4_5" 1024, .ok "R4_5" 4096, .ok "R4_5" 16384] ∧
    ccsdsCode "3/4" 1000 = .badRate ∧ ccsdsCode "1/2" 1000 = .badBlockSize ∧
    (∀ rate k, (∃ r, ccsdsCode rate k = .ok r k) ↔ ((rate = "1/2" ∨ rate = "2/3" ∨ rate = "4/5") ∧ (k = 1024 ∨ k = 4096 ∨ k = 16384))) := by
  refine ⟨by decide +kernel, by decide +kernel, by decide +kernel, ?_⟩
  intro rate k
  unfold ccsdsCode
  split <;> simp_all <;>
    (by_cases hk : k = 1024 ∨ k = 4096 ∨ k = 16384 <;> simp [hk])

/-- `encode` framing: the output is the concatenation, over the COMPLETE input words only, of the (punctured)
codeword of each word — nothing more (a trailing partial word is dropped, no padding is written) -/
theorem encode_stream_spec (enc : Lin.Encoder) (k : Nat) (hk : 0 < k) (pattern : Option (List Bool)) (input out : List Nat)
    (h : encodeStream enc k pattern input = some out) :
    ∃ words : List (List Bool),
      words.length = input.length / k ∧
      out = words.flatMap (fun bits => bits.map (fun b => if b then 1 else 0)) ∧
      ∀ i, i < input.length / k →
        ∃ cw, Lin.encode enc (((input.drop (i * k)).take k).map (· == 1)) = some cw ∧
          (match pattern with | some p => puncture p cw | none => .ok cw) = .ok (words.getD i []) := by
  unfold encodeStream at h
  simp only [show ¬ k = 0 by omega, if_false] at h
  have hlen := words_length k hk (input.length + 1) input (Nat.lt_succ_self _)
  obtain ⟨bs, hbl, hout, hall⟩ := foldlM_encStep enc pattern _ [] out h
  refine ⟨bs, by rw [hbl, hlen], by simpa using hout, ?_⟩
  intro i hi
  have := hall i (by rw [hlen]; exact hi)
  rwa [words_getD k hk (input.length + 1) input i (Nat.lt_succ_self _) hi] at this

/-- number of Eb/N0 points (arguments in hundredths of a dB): the points `min + j·step` that do not exceed `max` -/
theorem num_ebn0s_spec (minC maxC stepC : Int) (hs : 0 < stepC) (hm : minC ≤ maxC) :
    (minC + ((numEbn0s minC maxC stepC : Nat) - 1 : Int) * stepC ≤ maxC) ∧
    (maxC < minC + (numEbn0s minC maxC stepC : Nat) * stepC) ∧ 1 ≤ numEbn0s minC maxC stepC := by
  unfold numEbn0s
  have hq : 0 ≤ (maxC - minC) / stepC := Int.ediv_nonneg (by omega) (by omega)
  have h1 := Int.mul_ediv_add_emod (maxC - minC) stepC
  have h2 := Int.emod_nonneg (maxC - minC) (by omega : stepC ≠ 0)
  have h3 := Int.emod_lt_of_pos (maxC - minC) hs
  have e : (((((maxC - minC) / stepC).toNat + 1 : Nat)) : Int) = (maxC - minC) / stepC + 1 := by
    omega
  rw [e]
  generalize (maxC - minC) / stepC = q at *
  generalize (maxC - minC) % stepC = r at *
  refine ⟨?_, ?_, by omega⟩
  · have : (q + 1 - 1) * stepC = stepC * q := by rw [Int.add_sub_cancel, Int.mul_comm]
    rw [this]; omega
  · have : (q + 1) * stepC = stepC * q + stepC := by rw [Int.add_mul, Int.one_mul, Int.mul_comm]
    rw [this]; omega

/-- non-vacuity: the encode framing on the 3×5 staircase code with puncturing pattern 1,1,1,1,0 and two words plus a
partial one (the input of the repaired defect D8): 2 × 4 output bytes -/
example :
    encodeStream (.staircase ⟨[[0], [0, 1], [1]], [[0, 1], [1, 2]]⟩) 2 (some [true, true, true, true, false]) [1, 0, 0, 1, 1]
      = some [1, 0, 1, 0, 0, 1, 0, 1] := by
  decide +kernel


end LdpcV.C20
