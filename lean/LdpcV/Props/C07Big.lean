/-
C07 (thorough tier) — the three AR4JA codes with k = 16384 (M = 8192, 4096, 2048).
-/
import LdpcV.Lemmas.CcsdsLemmas
namespace LdpcV.C07Big
open LdpcV LdpcV.Ccsds

theorem ar4ja_profile_big_native : ∀ c ∈ standardCodes, c.2.1 = 16384 →
    ar4jaNcols c.1 c.2.2 = c.2.1 + 3 * 2 ^ c.2.2 ∧
    blockDegrees (2 ^ c.2.2) (ar4jaNcols c.1 c.2.2) (ar4jaRows tables c.1 c.2.2) = (protographDegrees c.1).map (fun d => [d]) := by
  native_decide

theorem ar4ja_tail_rank_big_native : ∀ c ∈ standardCodes, c.2.1 = 16384 →
    rankBits ((ar4jaRows tables c.1 c.2.2).map (fun r =>
      bitsOfRow r (ar4jaNcols c.1 c.2.2 - 3 * 2 ^ c.2.2) (ar4jaNcols c.1 c.2.2))) = 3 * 2 ^ c.2.2 := by
  native_decide

end LdpcV.C07Big
