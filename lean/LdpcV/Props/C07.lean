/-
C07 — CCSDS AR4JA and C2 parity-check matrices conform to CCSDS 131.0-B.
Model: LdpcV/Model/Ccsds.lean; pinned tables LdpcV/Spec/CcsdsTables.lean (regenerated from the Rust source on
every run and compared).  Helper lemmas: LdpcV/Lemmas/CcsdsLemmas.lean.
Trusted evaluation: theorems named `*_native` use `native_decide` (compiler + runtime trusted).
The three k = 16384 codes are in LdpcV/Props/C07Big.lean (thorough tier).
-/
import LdpcV.Lemmas.CcsdsLemmas
namespace LdpcV.C07
open LdpcV LdpcV.Ccsds

/-- π_k maps [0, M) into [0, M) -/
theorem pi_range (t : Tables) (mlog k i : Nat) (hm : 2 ≤ mlog) (hi : i < 2 ^ mlog) :
    pi t mlog k i < 2 ^ mlog := by
  have _ := hi  -- (the bound holds for every `i`; `hi` is not needed)
  exact pi_range' t mlog k i hm

/-- π_k is a permutation of [0, M) made of four M/4-circulant pieces: block `j` is sent to block
`(θ_k + j) mod 4`, rotated by `φ_k(j, M)` -/
theorem pi_perm (t : Tables) (mlog k : Nat) (hm : 2 ≤ mlog) :
    ((List.range (2 ^ mlog)).map (pi t mlog k)).Perm (List.range (2 ^ mlog)) ∧
    ∀ i, i < 2 ^ mlog →
      pi t mlog k i / 2 ^ (mlog - 2) = (t.theta.getD (k - 1) 0 + i / 2 ^ (mlog - 2)) % 4 ∧
      pi t mlog k i % 2 ^ (mlog - 2) =
        ((((t.phi.getD (i / 2 ^ (mlog - 2)) []).getD (k - 1) []).getD (mlog - 7) 0) + i) % 2 ^ (mlog - 2) := by
  exact ⟨pi_perm_range t mlog k hm, fun i _ => pi_blocks t mlog k i hm⟩

/-- dimensions: 3M rows; every entry is a column index below `ncols = M · (extra blocks + 5)`; rows have no duplicates -/
theorem ar4ja_dims (t : Tables) (rate mlog : Nat) (hm : 2 ≤ mlog) (hr : rate ≤ 2) :
    (ar4jaRows t rate mlog).length = 3 * 2 ^ mlog ∧
    ∀ row ∈ ar4jaRows t rate mlog, row.Nodup ∧ ∀ c ∈ row, c < ar4jaNcols rate mlog := by
  exact ar4jaRows_dims t rate mlog hm hr

/-- the six codes with k ≤ 4096: k + 3M columns with M from the Blue Book table, and the protograph's
block-column degrees (the punctured block has degree 6) — which also shows that no toggle cancelled -/
theorem ar4ja_profile_native : ∀ c ∈ standardCodes, c.2.1 ≤ 4096 →
    ar4jaNcols c.1 c.2.2 = c.2.1 + 3 * 2 ^ c.2.2 ∧
    blockDegrees (2 ^ c.2.2) (ar4jaNcols c.1 c.2.2) (ar4jaRows tables c.1 c.2.2) = (protographDegrees c.1).map (fun d => [d]) := by
  native_decide

/-- the six codes with k ≤ 4096: the last 3M columns have rank 3M (invertible tail ⇒ full row rank ⇒ systematic encoding works) -/
theorem ar4ja_tail_rank_native : ∀ c ∈ standardCodes, c.2.1 ≤ 4096 →
    rankBits ((ar4jaRows tables c.1 c.2.2).map (fun r =>
      bitsOfRow r (ar4jaNcols c.1 c.2.2 - 3 * 2 ^ c.2.2) (ar4jaNcols c.1 c.2.2))) = 3 * 2 ^ c.2.2 := by
  native_decide

/-- meaning of `rankBits`: when it equals the number of rows, the rows are linearly independent over GF(2) -/
theorem rankBits_full_indep (rows : List Nat) (hfull : rankBits rows = rows.length) : IndepBits rows := by
  exact indepBits_of_rankBits_full rows hfull

/-- C2: 1022 × 8176, row weight 32, column weight 4, rank 1020, no cycle of length 4 -/
theorem c2_facts_native :
    let rows := c2Rows CcsdsTables.c2
    rows.length = 1022 ∧ rows.all (fun r => r.length == 32 && r.all (· < 8176)) = true ∧
    (colsOfRows 8176 rows).all (fun c => c.length == 4) = true ∧
    rankBits (rows.map (fun r => bitsOfRow r 0 8176)) = 1020 ∧
    Dvbs2.noFourCycles 8176 rows = true := by
  native_decide

/-- the rate-1/2 k = 1024 matrix has no cycle of length 4 (its documented girth 6, together with the 6-cycle found by the implementation) -/
theorem ar4ja_r12_k1024_no_four_cycles_native :
    Dvbs2.noFourCycles (ar4jaNcols 0 9) (ar4jaRows tables 0 9) = true := by
  native_decide

/-- non-vacuity: π_1 for M = 128 really permutes; first rows of the rate-1/2 k = 1024 code -/
example : pi tables 7 1 0 = 97 ∧ pi tables 7 2 127 = 108 ∧
    ((ar4jaRows tables 0 9).getD 0 []) = [1024, 2048, 2048 + pi tables 9 1 0] := by
  decide +kernel

end LdpcV.C07
