/-
C11 — girth and BFS distances are exact graph quantities.
Model: LdpcV/Model/Graph.lean (the queue-driven BFS and the branch-labelled local-girth search of the
Rust code, with fuel).  Vocabulary: LdpcV/Spec/GraphSpec.lean.  Helper lemmas: LdpcV/Lemmas/GraphLemmas.lean.
-/
import LdpcV.Lemmas.GraphLemmas
namespace LdpcV.C11
open LdpcV LdpcV.Graph

/-- BFS never panics for an in-range root and labels every node with its true shortest-path distance,
`none` exactly for the unreachable nodes -/
theorem bfs_exact (h : SM) (hinv : h.Inv) (root : Node) (hr : inRange h root = true) :
    ∃ d, bfs h root = some d ∧ d.rows.length = h.nrows ∧ d.cols.length = h.ncols ∧
      ∀ v, inRange h v = true →
        (∀ k, d.get v = some (some k) ↔ IsDist h root v k) ∧
        (d.get v = some none ↔ ¬ Reachable h root v) :=
  bfs_correct h hinv root hr

/-- the local girth (unbounded search) is the length of the shortest cycle through the node,
`none` exactly when the node lies on no cycle -/
theorem local_girth_exact (h : SM) (hinv : h.Inv) (root : Node) (hr : inRange h root = true) :
    ∃ r, localGirth h root none = some r ∧
      (∀ g, r = some g ↔ IsLocalGirth h root g) ∧ (r = none ↔ OnNoCycle h root) :=
  localGirth_exact h hinv root hr

/-- the bounded local girth reports the unbounded value exactly when it does not exceed the bound -/
theorem local_girth_bounded (h : SM) (hinv : h.Inv) (root : Node) (hr : inRange h root = true) (b : Nat) :
    localGirth h root (some b) = (localGirth h root none).map (cutAt (some b)) :=
  localGirth_bounded h hinv root hr b

/-- the girth is the length of the shortest cycle of the Tanner graph, `none` exactly for a forest -/
theorem girth_exact (h : SM) (hinv : h.Inv) :
    (∀ g, girth h none = some g ↔ IsGirth h g) ∧ (girth h none = none ↔ IsForest h) :=
  girth_exact' h hinv

/-- the bounded girth reports it exactly when it does not exceed the bound -/
theorem girth_bounded (h : SM) (hinv : h.Inv) (b : Nat) :
    girth h (some b) = cutAt (some b) (girth h none) :=
  girth_bounded' h hinv b

/-- non-vacuity: the witness of the repaired defect D5 — a pendant path attached to a 4-cycle: the
global girth is 4, the local girth at the pendant column is none (the first-collision rule gave 8),
at a column on the cycle it is 4; distances from the pendant column -/
example :
    let h : SM := ⟨[[0, 1], [1, 2], [2, 1]], [[0], [0, 1, 2], [1, 2]]⟩
    localGirth h (.col 0) none = some none ∧ localGirth h (.row 0) none = some none ∧
    localGirth h (.col 1) none = some (some 4) ∧ girth h none = some 4 ∧ girth h (some 3) = none ∧
    (bfs h (.col 0)).map (fun d => (d.rows, d.cols)) = some ([some 1, some 3, some 3], [some 0, some 2, some 4]) := by
  decide +kernel

end LdpcV.C11
