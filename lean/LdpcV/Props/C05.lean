/-
C05 — variable updates are exact saturating sums; 8-bit arithmetic never overflows.
Helper lemmas: LdpcV/Lemmas/I8Var.lean.
-/
import LdpcV.Lemmas.I8Var
import LdpcV.Props.C04
namespace LdpcV.C05
open LdpcV LdpcV.I8

/-- the check-rule facts used below, from C04 -/
theorem checkFacts : CheckFacts where
  approx := fun cfg msgs hb hd hn =>
    let ⟨out, ho, hf⟩ := C04.approx_emits cfg msgs hb hd hn
    ⟨out, ho, hf, fun m hm => (C04.message_facts false cfg msgs out hb hd hn ho m hm).1⟩
  amin := fun cfg msgs hb hd hn =>
    let ⟨out, ho, hf⟩ := C04.amin_emits cfg msgs hb hd hn
    ⟨out, ho, hf, fun m hm => (C04.message_facts true cfg msgs out hb hd hn ho m hm).1⟩

/-- the quantiser on ALL 2^64 bit patterns: result in [-127,127]; NaN ↦ 0; ±∞ saturate; finite `x`:
nearest integer to `8x`, ties away from zero, saturated at ±127, sign of `x` -/
theorem quantize_spec (bits : UInt64) :
    (-127 ≤ quantize bits ∧ quantize bits ≤ 127) ∧
    (isNaN bits = true → quantize bits = 0) ∧
    (∀ neg num den, times8 bits = some (neg, num, den) →
      0 < den ∧
      (neg = true → quantize bits ≤ 0) ∧ (neg = false → 0 ≤ quantize bits) ∧
      (127 * den ≤ num → (quantize bits).natAbs = 127) ∧
      (num < 127 * den →
        (2 * (quantize bits).natAbs) * den ≤ 2 * num + den ∧ 2 * num < (2 * (quantize bits).natAbs + 1) * den)) :=
  quantize_spec_all bits

/-- the variable rule, degrees up to 257, any values in [-127,127]: no overflow, no panic, and
`new LLR = clip(jones?(deg1?(input) + Σ msgs))`, `message to c = clip(total − msg from c)`;
all outputs in [-127,127] (never -128) -/
theorem var_rule_spec (cfg : Cfg) (input : Int) (msgs : List (Nat × Int)) (hi : -127 ≤ input ∧ input ≤ 127)
    (hb : Bounded msgs) (hd : msgs.length ≤ 257) :
    let inp := if cfg.deg1 then deg1clip input (msgs.length == 1) else input
    let tot := cfg.jonesClip (inp + (msgs.map Prod.snd).foldl (· + ·) 0)
    varRule cfg input msgs = some (clip tot, msgs.map (fun m => (m.1, clip (tot - m.2)))) ∧
    (-127 ≤ clip tot ∧ clip tot ≤ 127) ∧ Bounded (msgs.map (fun m => (m.1, clip (tot - m.2)))) :=
  var_rule_spec_all cfg input msgs hi hb hd

/-- the bound 257 is tight: 258 messages of value 127 with input 127 overflow the i16 accumulator -/
theorem var_rule_tight : varRule ⟨false, false, false⟩ 127 ((List.range 258).map (fun i => (i, 127))) = none ∧
    (varRule ⟨false, false, false⟩ 127 ((List.range 257).map (fun i => (i, 127)))).isSome = true := by
  decide +kernel

/-- Jones clipping and degree-one clipping apply exactly where the names say -/
theorem clip_variants (x : Int) :
    (-127 ≤ clip x ∧ clip x ≤ 127) ∧ (-127 ≤ x → x ≤ 127 → clip x = x) ∧
    (deg1clip x false = x) ∧ (-116 ≤ deg1clip x true ∧ deg1clip x true ≤ 116) ∧ (-116 ≤ x → x ≤ 116 → deg1clip x true = x) ∧
    (∀ cfg : Cfg, cfg.jones = false → cfg.jonesClip x = x) ∧ (∀ cfg : Cfg, cfg.jones = true → cfg.jonesClip x = clip x) :=
  clip_variants_all x

/-- layered single-check update (approximate min*) = flooding check rule applied to the extrinsic values
`clip(var − old)`, then `var := var − old + new`; inside the envelope nothing overflows -/
theorem layer_approx_eq_flood (cfg : Cfg) (msgs : List (Nat × Int)) (vars : List Int) (hb : Bounded msgs)
    (hd : 2 ≤ msgs.length) (hn : (msgs.map Prod.fst).Nodup) (hr : ∀ m ∈ msgs, m.1 < vars.length)
    (henv : ∀ m ∈ msgs, (vars.getD m.1 0).natAbs ≤ 127 * 255) :
    ∃ ext emitted, extrinsics msgs vars = some ext ∧
      checkApprox cfg ((msgs.zip ext).map (fun p => (p.1.1, p.2))) = some emitted ∧
      layerApprox cfg msgs vars = some (emitted,
        (msgs.zip emitted).foldl (fun vs p => vs.set p.1.1 (vs.getD p.1.1 0 - p.1.2 + p.2.2)) vars) :=
  layer_approx_all checkFacts cfg msgs vars hb hd hn hr henv

/-- layered single-check update (A-Min*) = flooding A-Min* rule on the extrinsic values (looked up by
destination, since A-Min* emits the least reliable neighbour first), then `var := var − old + new` -/
theorem layer_amin_eq_flood (cfg : Cfg) (msgs : List (Nat × Int)) (vars : List Int) (hb : Bounded msgs)
    (hd : 2 ≤ msgs.length) (hn : (msgs.map Prod.fst).Nodup) (hr : ∀ m ∈ msgs, m.1 < vars.length)
    (henv : ∀ m ∈ msgs, (vars.getD m.1 0).natAbs ≤ 127 * 255) :
    ∃ ext emitted msgs', extrinsics msgs vars = some ext ∧
      checkAmin cfg ((msgs.zip ext).map (fun p => (p.1.1, p.2))) = some emitted ∧
      msgs' = msgs.map (fun m => (m.1, ((BPRef.sentTo emitted m.1).getD 0))) ∧
      layerAmin cfg msgs vars = some (msgs',
        (msgs.zip msgs').foldl (fun vs p => vs.set p.1.1 (vs.getD p.1.1 0 - p.1.2 + p.2.2)) vars) :=
  layer_amin_all checkFacts cfg msgs vars hb hd hn hr henv

/-- the flooding contract: each of the 16 8-bit arithmetics is well behaved on every matrix with
check degree ≥ 2 and variable degree ≤ 257, with the invariant "every value in flight is in [-127,127]" -/
theorem i8_wellBehaved (amin : Bool) (cfg : Cfg) (h : SM) (hinv : h.Inv)
    (hrow : ∀ r, r < h.nrows → 2 ≤ (h.row r).length) (hcol : ∀ c, c < h.ncols → (h.col c).length ≤ 257) :
    ∃ wb : WellBehaved (mkArith amin cfg) h,
      (∀ x : Int, wb.okLlr x ↔ (-127 ≤ x ∧ x ≤ 127)) ∧ (∀ x : Int, wb.okVar x ↔ (-127 ≤ x ∧ x ≤ 127)) ∧
      (∀ x : Int, wb.okCheck x ↔ (-127 ≤ x ∧ x ≤ 127)) :=
  ⟨wellBehaved checkFacts amin cfg h hinv hrow hcol, fun _ => Iff.rfl, fun _ => Iff.rfl, fun _ => Iff.rfl⟩

/-- non-vacuity -/
example : varRule ⟨true, false, true⟩ 120 [(4, 127)] = some (127, [(4, 0)]) ∧
    varRule ⟨false, false, true⟩ 120 [(4, -100)] = some (16, [(4, 116)]) ∧
    quantize 0x3FB0000000000000 = 1 ∧ quantize 0x7FF8000000000000 = 0 ∧ quantize 0xFFF0000000000000 = -127 := by
  decide +kernel

end LdpcV.C05
