/-
C07 — "… has full row rank and an invertible last-3M-column submatrix so that systematic encoding works":
the composition of the native rank facts of LdpcV/Props/C07.lean with C02 ("the encoder builds iff the tail is
invertible"): `Encoder::from_h` (model `Lin.fromH`) returns an encoder for the AR4JA matrices.
Helper lemmas: LdpcV/Lemmas/CcsdsEnc.lean.
-/
import LdpcV.Lemmas.CcsdsEnc
namespace LdpcV.C07Enc
open LdpcV LdpcV.Ccsds

/-- bridge between the two vocabularies: if the rows of the last-`nrows`-columns submatrix, as bitsets, are linearly
independent over GF(2) (`IndepBits`, the meaning of a full `rankBits`), that square submatrix is invertible
(`Lin.Nonsingular`, the hypothesis of the encoder theorems) -/
theorem tail_nonsingular_of_indepBits (h : SM) (hinv : h.Inv) (hn : h.nrows ≤ h.ncols)
    (hi : IndepBits (h.rows.map (fun r => bitsOfRow r (h.ncols - h.nrows) h.ncols))) :
    Lin.Nonsingular (Lin.tailMat h) := by
  have _ := hinv  -- (the bridge does not need the mirror invariant: `tailMat` reads the row lists only)
  exact CcsdsEnc.tail_nonsingular_of_indepBits' h hn hi

/-- the matrix object built from the AR4JA row lists is well formed -/
theorem ar4ja_sm_inv (rate mlog : Nat) (hm : 2 ≤ mlog) (hr : rate ≤ 2) :
    (C07Girth.smOf (ar4jaNcols rate mlog) (ar4jaRows tables rate mlog)).Inv :=
  CcsdsEnc.ar4ja_smOf_inv tables rate mlog hm hr

/-- the six AR4JA codes with k ≤ 4096: the systematic encoder accepts the matrix (neither the not-invertible error nor a panic) -/
theorem ar4ja_encoder_accepts : ∀ c ∈ standardCodes, c.2.1 ≤ 4096 →
    ∃ e, Lin.fromH (C07Girth.smOf (ar4jaNcols c.1 c.2.2) (ar4jaRows tables c.1 c.2.2)) = .ok e := by
  intro c hc hk
  have hb : ∀ c ∈ standardCodes, 2 ≤ c.2.2 ∧ c.1 ≤ 2 := by decide
  exact CcsdsEnc.ar4ja_accepts_of_rank tables c.1 c.2.2 (hb c hc).1 (hb c hc).2
    (C07.ar4ja_tail_rank_native c hc hk)

end LdpcV.C07Enc
