/-
C02 — the systematic encoder always emits a codeword that begins with the message.
Model: LdpcV/Model/Linalg.lean (`isStaircase`, `fromH`, `encode`, `gaussReduction` written loop for
loop like the Rust code, partial-row updates included).  Vocabulary: LdpcV/Spec/GF2Spec.lean.
Helper lemmas: LdpcV/Lemmas/GaussLemmas.lean.
-/
import LdpcV.Lemmas.GaussLemmas
namespace LdpcV.C02
open LdpcV LdpcV.Lin

/-- staircase recognition is exact: accepted iff the last `r` columns are the dual diagonal
(ones exactly on the main diagonal and the diagonal below it) -/
theorem staircase_iff (h : SM) (hinv : h.Inv) (hr : 1 ≤ h.nrows) (hn : h.nrows ≤ h.ncols) :
    ∃ b, isStaircase h = some b ∧
      (b = true ↔ ∀ i j, i < h.nrows → j < h.nrows →
        (h.mem i (h.ncols - h.nrows + j) = true ↔ (j = i ∨ j + 1 = i))) :=
  ⟨_, g_isStaircase_eq h hr hn, g_staircase_iff h hinv hr hn⟩

/-- building the encoder never panics for `1 ≤ r ≤ n` -/
theorem fromH_no_panic (h : SM) (hinv : h.Inv) (hr : 1 ≤ h.nrows) (hn : h.nrows ≤ h.ncols) :
    fromH h ≠ .panic :=
  g_fromH_no_panic h hinv hr hn

/-- every message encodes to `n` bits that begin with the message and satisfy every parity check —
for the staircase branch and for the dense branch alike -/
theorem encode_valid (h : SM) (hinv : h.Inv) (hr : 1 ≤ h.nrows) (hn : h.nrows ≤ h.ncols) (e : Encoder)
    (he : fromH h = .ok e) (msg : List Bool) (hm : msg.length = h.ncols - h.nrows) :
    ∃ cw, encode e msg = some cw ∧ cw.length = h.ncols ∧ cw.take (h.ncols - h.nrows) = msg ∧
      syndromeOK h cw = true := by
  rcases g_fromH_ok_inv h hinv hr hn e he with ⟨g, rfl, hs⟩ | ⟨a', rfl, hs⟩
  · have hg : msg.length = g.ncols := by rw [hm, hs.2.2.2.1]
    have hgr : g.rows.length = h.nrows := hs.2.2.1
    refine ⟨_, g_encode_staircase g hs.2.1 msg hg, ?_, List.take_left' hm, g_stair_valid h hinv hn g hs msg hm⟩
    simp [hm, hgr]; omega
  · have hl := g_dense_rows a' h.nrows h.ncols hs.1
    refine ⟨_, g_encode_dense _ msg (fun row hrow => by rw [hl row hrow, hm]), ?_, List.take_left' hm,
      g_dense_valid h hinv hn a' hs msg hm⟩
    simp [hm, hs.1.1]; omega

/-- encoding is linear over GF(2) -/
theorem encode_linear (h : SM) (hinv : h.Inv) (hr : 1 ≤ h.nrows) (hn : h.nrows ≤ h.ncols) (e : Encoder)
    (he : fromH h = .ok e) (m1 m2 : List Bool) (h1 : m1.length = h.ncols - h.nrows) (h2 : m2.length = h.ncols - h.nrows) :
    ∃ c1 c2 c12, encode e m1 = some c1 ∧ encode e m2 = some c2 ∧ encode e (vxor m1 m2) = some c12 ∧
      c12 = vxor c1 c2 := by
  have h12 : (vxor m1 m2).length = h.ncols - h.nrows := by simp [h1, h2]
  rcases g_fromH_ok_inv h hinv hr hn e he with ⟨g, rfl, hs⟩ | ⟨a', rfl, hs⟩
  · have hg : h.ncols - h.nrows = g.ncols := hs.2.2.2.1.symm
    exact ⟨_, _, _, g_encode_staircase g hs.2.1 m1 (h1.trans hg), g_encode_staircase g hs.2.1 m2 (h2.trans hg),
      g_encode_staircase g hs.2.1 _ (h12.trans hg), g_stair_linear g m1 m2 (h1.trans h2.symm)⟩
  · have hl := g_dense_rows a' h.nrows h.ncols hs.1
    exact ⟨_, _, _, g_encode_dense _ m1 (fun row hrow => by rw [hl row hrow, h1]),
      g_encode_dense _ m2 (fun row hrow => by rw [hl row hrow, h2]),
      g_encode_dense _ _ (fun row hrow => by rw [hl row hrow, h12]),
      g_dense_linear _ m1 m2 (h1.trans h2.symm)⟩

/-- success implies that the last `r` columns are invertible -/
theorem fromH_ok_nonsingular (h : SM) (hinv : h.Inv) (hr : 1 ≤ h.nrows) (hn : h.nrows ≤ h.ncols) (e : Encoder)
    (he : fromH h = .ok e) : Nonsingular (tailMat h) := by
  rcases g_fromH_ok_inv h hinv hr hn e he with ⟨g, _, hs⟩ | ⟨a', _, hs⟩
  · exact g_stair_nonsingular h g hs
  · exact g_dense_nonsingular h hinv hn a' hs

/-- the error is returned only when the last `r` columns are singular (so: builds iff invertible) -/
theorem fromH_err_singular (h : SM) (hinv : h.Inv) (hr : 1 ≤ h.nrows) (hn : h.nrows ≤ h.ncols)
    (he : fromH h = .err) : ¬ Nonsingular (tailMat h) :=
  g_err_singular h hinv hr hn he

/-- non-vacuity: the 3×5 staircase matrix of the Rust unit test, and a dense 2×4 one -/
example :
    let hs : SM := ⟨[[0, 2], [0, 1, 2, 3], [1, 3, 4]], [[0, 1], [1, 2], [0, 1], [1, 2], [2]]⟩
    fromH hs = .ok (.staircase ⟨[[0], [0, 1], [1]], [[0, 1], [1, 2]]⟩) ∧
    encode (.staircase ⟨[[0], [0, 1], [1]], [[0, 1], [1, 2]]⟩) [true, false] = some [true, false, true, false, false] ∧
    syndromeOK hs [true, false, true, false, false] = true ∧
    fromH ⟨[[0, 2, 3], [1, 2]], [[0], [1], [0, 1], [0]]⟩ = .ok (.dense [[false, true], [true, true]]) ∧
    fromH ⟨[[0, 2, 3], [1, 2, 3]], [[0], [1], [0, 1], [0, 1]]⟩ = .err := by
  decide +kernel

end LdpcV.C02
