/-
C03 — both decoding schedules are textbook belief propagation for any (well-behaved) arithmetic.
`BPRef.floodRef` / `BPRef.layerRef` (LdpcV/Spec/BPRef.lean) are stateless textbook schedules: no
buffers, no slot search; the theorems say the buffer-and-routing implementation model computes
exactly the same verdict, word and iteration count, from EVERY incoming decoder state.
Helper lemmas: LdpcV/Lemmas/FloodRefine.lean, LdpcV/Lemmas/HlRefine.lean.
-/
import LdpcV.Lemmas.FloodRefine
import LdpcV.Lemmas.HlRefine
namespace LdpcV.C03
open LdpcV

variable {A : Arith}

/-- flooding refines the textbook flooding schedule (and never panics) -/
theorem flood_refines (h : SM) (hinv : h.Inv) (wb : WellBehaved A h) (st : FloodSt A) (hs : Flood.Shape h st)
    (llrs : List UInt64) (hlen : llrs.length = h.ncols) (n : Nat) :
    ∃ v st', Flood.decode h st llrs n = some (v, st') ∧ BPRef.floodRef A h llrs n = some v := by
  obtain ⟨v, st', hd, hr, _⟩ := fr_refines h hinv wb st hs llrs hlen n
  exact ⟨v, st', hd, hr⟩

/-- horizontal layered refines the textbook layered schedule (and never panics) -/
theorem hl_refines (h : SM) (wb : WellBehavedLayer A h) (st : HlSt A) (hs : Hl.Shape h st)
    (llrs : List UInt64) (hlen : llrs.length = h.ncols) (n : Nat) :
    ∃ v st', Hl.decode h st llrs n = some (v, st') ∧ BPRef.layerRef A h llrs n = some v := by
  obtain ⟨v, st', hd, hr, _⟩ := hr_refines h wb st hs llrs hlen n
  exact ⟨v, st', hd, hr⟩

/-- without any assumption on the arithmetic the layered model and the textbook layered schedule
still agree whenever the decoder state has the right shape (also on panics) -/
theorem hl_refines_any (h : SM) (st : HlSt A) (hs : Hl.Shape h st) (llrs : List UInt64)
    (hlen : llrs.length = h.ncols) (n : Nat) :
    (Hl.decode h st llrs n).map Prod.fst = BPRef.layerRef A h llrs n :=
  hr_decode_eq h st hs llrs hlen n

/-- non-vacuity: the exact integer min-sum arithmetic is well behaved on a concrete matrix, and the
two sides really compute a non-trivial result there -/
example :
    let h : SM := ⟨[[0, 1], [1, 2]], [[0], [0, 1], [1]]⟩
    BPRef.floodRef ArithTest.intMinSum h [0x4000000000000000, 0xBFD0000000000000, 0x4000000000000000] 5
      = some (.success [false, false, false] 1) ∧
    BPRef.layerRef ArithTest.intMinSum h [0x4000000000000000, 0xBFD0000000000000, 0x4000000000000000] 5
      = some (.success [false, false, false] 1) := by
  decide +kernel

end LdpcV.C03
