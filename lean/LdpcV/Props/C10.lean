/-
C10 — a decoder object carries no state from one frame to the next.
For every history of calls on one decoder object — from a fresh object or from ANY state of the
right shape — each call returns exactly what a freshly built decoder returns for the same arguments.
Corollaries of the refinement theorems of C03 (the reference is a function of (H, LLRs, limit) only).
-/
import LdpcV.Props.C03
import LdpcV.Props.C05
import LdpcV.Props.C01
namespace LdpcV.C10
open LdpcV

variable {A : Arith}

/-- flooding, one call from an arbitrary incoming state = the call on a fresh decoder -/
theorem flood_call_independent (h : SM) (hinv : h.Inv) (wb : WellBehaved A h) (st : FloodSt A)
    (hs : Flood.Shape h st) (llrs : List UInt64) (hlen : llrs.length = h.ncols) (n : Nat) :
    (Flood.decode h st llrs n).map Prod.fst = (Flood.decode h (Flood.fresh A h) llrs n).map Prod.fst ∧
    (Flood.decode h st llrs n).isSome := by
  obtain ⟨v, st', hd, hr⟩ := C03.flood_refines h hinv wb st hs llrs hlen n
  obtain ⟨v0, st0, hd0, hr0⟩ := C03.flood_refines h hinv wb (Flood.fresh A h) (fr_fresh_shape h) llrs hlen n
  have hv : v0 = v := by rw [hr] at hr0; exact (Option.some.inj hr0).symm
  simp [hd, hd0, hv]

/-- layered, one call from an arbitrary incoming state = the call on a fresh decoder
(no assumption on the arithmetic at all) -/
theorem hl_call_independent (h : SM) (st : HlSt A) (hs : Hl.Shape h st) (llrs : List UInt64)
    (hlen : llrs.length = h.ncols) (n : Nat) :
    (Hl.decode h st llrs n).map Prod.fst = (Hl.decode h (Hl.fresh A h) llrs n).map Prod.fst := by
  rw [C03.hl_refines_any h st hs llrs hlen n, C03.hl_refines_any h _ (hr_fresh_shape h) llrs hlen n]

/-- whole histories on one object, flooding -/
theorem flood_history_independent (h : SM) (hinv : h.Inv) (wb : WellBehaved A h)
    (calls : List (List UInt64 × Nat)) (hcalls : ∀ c ∈ calls, c.1.length = h.ncols) :
    DecSt.runHistory h (DecSt.fresh A .flooding h) calls
      = some (calls.filterMap (fun c => ((DecSt.fresh A .flooding h).decode h c.1 c.2).map Prod.fst)) ∧
    (calls.filterMap (fun c => ((DecSt.fresh A .flooding h).decode h c.1 c.2).map Prod.fst)).length = calls.length :=
  fr_flood_history h hinv wb calls hcalls

/-- whole histories on one object, layered -/
theorem hl_history_independent (h : SM) (wb : WellBehavedLayer A h)
    (calls : List (List UInt64 × Nat)) (hcalls : ∀ c ∈ calls, c.1.length = h.ncols) :
    DecSt.runHistory h (DecSt.fresh A .layered h) calls
      = some (calls.filterMap (fun c => ((DecSt.fresh A .layered h).decode h c.1 c.2).map Prod.fst)) ∧
    (calls.filterMap (fun c => ((DecSt.fresh A .layered h).decode h c.1 c.2).map Prod.fst)).length = calls.length :=
  hr_hl_history h wb calls hcalls

/-- the contract is met by real arithmetics: for each of the 16 8-bit arithmetics on the flooding
schedule, every matrix with check degree ≥ 2 and variable degree ≤ 257, every history of calls with
LLR vectors of codeword length (ANY f64 bit patterns, including NaN and ±∞) and any limits: no call
panics or overflows, and each call returns what a fresh decoder returns — which is the textbook
flooding schedule's result -/
theorem i8_flooding_history_independent (amin : Bool) (cfg : I8.Cfg) (h : SM) (hinv : h.Inv)
    (hrow : ∀ r, r < h.nrows → 2 ≤ (h.row r).length) (hcol : ∀ c, c < h.ncols → (h.col c).length ≤ 257)
    (calls : List (List UInt64 × Nat)) (hcalls : ∀ c ∈ calls, c.1.length = h.ncols) :
    DecSt.runHistory h (DecSt.fresh (I8.mkArith amin cfg) .flooding h) calls
      = some (calls.filterMap (fun c => BPRef.floodRef (I8.mkArith amin cfg) h c.1 c.2)) ∧
    (calls.filterMap (fun c => BPRef.floodRef (I8.mkArith amin cfg) h c.1 c.2)).length = calls.length := by
  obtain ⟨wb, -⟩ := C05.i8_wellBehaved amin cfg h hinv hrow hcol
  have key : ∀ c ∈ calls, ((DecSt.fresh (I8.mkArith amin cfg) .flooding h).decode h c.1 c.2).map Prod.fst
      = BPRef.floodRef (I8.mkArith amin cfg) h c.1 c.2 := by
    intro c hc
    obtain ⟨v, st', hd, hr⟩ := C03.flood_refines h hinv wb (Flood.fresh _ h) (C01.shape_invariant h).1 c.1 (hcalls c hc) c.2
    simp [DecSt.fresh, DecSt.decode, hd, hr]
  have fm : ∀ (l : List (List UInt64 × Nat)), (∀ c ∈ l, c ∈ calls) →
      l.filterMap (fun c => ((DecSt.fresh (I8.mkArith amin cfg) .flooding h).decode h c.1 c.2).map Prod.fst)
        = l.filterMap (fun c => BPRef.floodRef (I8.mkArith amin cfg) h c.1 c.2) := by
    intro l
    induction l with
    | nil => intro _; rfl
    | cons a t ih =>
      intro hm
      simp only [List.filterMap_cons, key a (hm a (List.mem_cons_self ..))]
      rw [ih (fun c hc => hm c (List.mem_cons_of_mem _ hc))]
  have := flood_history_independent h hinv wb calls hcalls
  rw [fm calls (fun c hc => hc)] at this
  exact this

/-- non-vacuity + the repaired defect D4 on the model: limit-0 call after a 5-iteration call equals the fresh result -/
example :
    let h : SM := ⟨[[0, 1], [1, 2]], [[0], [0, 1], [1]]⟩
    let A := I8.mkArith false ⟨false, false, false⟩
    let a : List UInt64 := [0x4000000000000000, 0xBFD0000000000000, 0x4000000000000000]
    let b : List UInt64 := [0xC000000000000000, 0x3FD0000000000000, 0x4000000000000000]
    DecSt.runHistory h (DecSt.fresh A .flooding h) [(a, 5), (b, 0)]
      = some [.success [false, false, false] 1, .failure [true, false, false] 0] := by
  decide +kernel

end LdpcV.C10
