/-
C03, exactness clause, for the rule text of the CODE: the tanh arithmetic as modelled from `impl_tanhf!`
(LdpcV/Model/ArithFloat.lean: `tanh(clamp(x/2))`, product of the others, `2·atanh`; variable rule
`send_var_messages_no_clip`; layered rule = check rule on extrinsics, then add), instantiated at ℝ, computes on a
cycle-free matrix exactly what the ideal sum-product arithmetic computes — hence the true posterior LLRs (C03Tree) —
as long as the clamp never acts, which holds when the sum of the channel magnitudes is at most twice the clamp
(every message on a forest is bounded by that sum).  Helper lemmas: LdpcV/Lemmas/CodeRule*.lean.
-/
import LdpcV.Lemmas.CodeRule
namespace LdpcV.C03Code
open LdpcV LdpcV.Graph LdpcV.Ideal

/-- the modelled tanh arithmetic over the reals (the quantiser is irrelevant: the run starts from quantised values) -/
noncomputable def tanhReal (c : ℝ) : Arith := ArithFloat.mkArith Sc.real (fun _ => 0) c .tanh

/-- generic and specialised runs coincide for the ideal arithmetic (the definitions are the same recursion) -/
theorem floodRunA_ideal (h : SM) (lam : List ℝ) (t : Nat) :
    floodRunA (Ideal.arith Sc.real) h lam t = floodRun Sc.real h lam t :=
  CodeRule.floodRunA_ideal Sc.real h lam t

/-- flooding schedule with the CODE's tanh rule: exact on forests while the clamp is inactive
(the default of `getD` is written `(0 : ℝ)`: the carrier `(tanhReal c).Llr` is ℝ only up to unfolding, so a bare
numeral does not elaborate) -/
theorem tanh_flood_exact_on_forest (h : SM) (hinv : h.Inv) (hf : IsForest h) (hdeg : ∀ r ∈ h.rows, 2 ≤ r.length)
    (lam : List ℝ) (hl : lam.length = h.ncols) (c : ℝ) (hc : (lam.map (fun x => |x|)).sum ≤ 2 * c)
    (v : Nat) (hv : v < h.ncols) (t : Nat) (ht : ∀ u d, IsDist h (.col v) (.col u) d → d ≤ 2 * t) :
    ∃ em llrs, floodRunA (tanhReal c) h lam t = some (em, llrs) ∧ llrs.length = h.ncols ∧
      llrs.getD v (0 : ℝ) = posterior Sc.real h lam v :=
  CodeRule.tanh_flood_exact h hinv hf hdeg lam hl (fun _ => 0) c hc v hv t ht

/-- the same for the horizontal-layered schedule -/
theorem tanh_layer_exact_on_forest (h : SM) (hinv : h.Inv) (hf : IsForest h) (hdeg : ∀ r ∈ h.rows, 2 ≤ r.length)
    (lam : List ℝ) (hl : lam.length = h.ncols) (c : ℝ) (hc : (lam.map (fun x => |x|)).sum ≤ 2 * c)
    (v : Nat) (hv : v < h.ncols) (t : Nat) (ht : ∀ u d, IsDist h (.col v) (.col u) d → d ≤ 2 * t) :
    ∃ rcv llrs, layerRunA (tanhReal c) h lam t = some (rcv, llrs) ∧ llrs.length = h.ncols ∧
      llrs.getD v (0 : ℝ) = posterior Sc.real h lam v :=
  CodeRule.tanh_layer_exact h hinv hf hdeg lam hl (fun _ => 0) c hc v hv t ht

end LdpcV.C03Code
