/-
C18 — each decoder implementation name builds the arithmetic and schedule it names.
The model table `Factory.all` is written from the documentation (family, numeric type/options,
schedule); names follow the convention `[HL]<Family><type><options>`.  Parsing/printing theorems hold
for ALL strings.  The tie to the Rust macro table is the exhaustive translation validation of the
harness (36 names × Debug/Display/clap/from_str, and behaviour against directly constructed generic decoders).
-/
import LdpcV.Spec.Factory
namespace LdpcV.C18
open LdpcV LdpcV.Factory

/-- 36 implementations: 24 arithmetics on the flooding schedule, 12 of them also layered -/
theorem count : all.length = 36 ∧ (all.filter (fun i => i.sched == .flooding)).length = 24 ∧
    (all.filter (fun i => i.sched == .layered)).length = 12 := by decide

/-- the 36 names are pairwise distinct -/
theorem names_distinct : names.Nodup := by decide +kernel

/-- every name parses back to its implementation (print then parse) -/
theorem parse_print : ∀ i ∈ all, parse (print i) = some i := by decide +kernel

/-- for EVERY string: if it parses, printing the result gives the identical string, and the result is one of the 36 -/
theorem print_parse (s : String) (i : Impl) (h : parse s = some i) : print i = s ∧ i ∈ all := by
  unfold parse at h
  have h1 := List.find?_some h
  have h2 := List.mem_of_find?_eq_some h
  exact ⟨by simpa [print] using h1, h2⟩

/-- for EVERY string: it is rejected exactly when it is not one of the 36 names -/
theorem parse_rejects (s : String) : parse s = none ↔ s ∉ names := by
  unfold parse names
  rw [List.find?_eq_none]
  simp only [List.mem_map, not_exists, not_and, beq_iff_eq]

/-- `HL` prefix ⇔ horizontal layered schedule; otherwise flooding -/
theorem hl_iff_layered : ∀ i ∈ all, (i.name.startsWith "HL") = (i.sched == .layered) := by decide +kernel

/-- every layered implementation is the layered version of a flooding implementation with the same
arithmetic, and its name is `HL` followed by that implementation's name -/
theorem layered_has_flooding_twin : ∀ i ∈ all, i.sched = .layered →
    (⟨i.family, i.num, .flooding⟩ : Impl) ∈ all ∧ i.name = "HL" ++ (⟨i.family, i.num, .flooding⟩ : Impl).name := by
  decide +kernel

/-- the 20 8-bit names have an exact executable arithmetic model, the 16 float names do not -/
theorem exact_models : (all.filter (fun i => i.arith?.isSome)).length = 20 := by decide +kernel

/-- non-vacuity -/
example : parse "HLAminstari8PartialHardLimit" = some ⟨.aminstar, .i8 ⟨false, true, false⟩, .layered⟩ ∧
    parse "hlaminstari8" = none ∧ parse "" = none := by decide +kernel

end LdpcV.C18
