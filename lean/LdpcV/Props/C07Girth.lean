/-
C07 — the documented girths: the C2 matrix and the AR4JA rate-1/2 k = 1024 matrix have girth exactly 6
(no cycle of length 4 — the native 4-cycle tests of LdpcV/Props/C07.lean — and an explicit 6-cycle; the Tanner
graph is bipartite, so there is nothing in between).  Helper lemmas: LdpcV/Lemmas/CcsdsGirth.lean.
-/
import LdpcV.Lemmas.CcsdsGirth
namespace LdpcV.C07Girth
open LdpcV LdpcV.Ccsds

/-- the sparse matrix with the given row lists (column lists derived from them) -/
def smOf (n : Nat) (rows : List (List Nat)) : SM := ⟨rows, (colsOfRows n rows).toList⟩

/-- C2 (8176, 7156): girth 6 -/
theorem c2_girth_six : Graph.IsGirth (smOf 8176 (c2Rows CcsdsTables.c2)) 6 :=
  ⟨⟨_, CcsdsGirth.six_cycle_c2 _, rfl⟩,
   CcsdsGirth.no_short_cycle_of_rows 8176 _ _ C07.c2_facts_native.2.2.2.2⟩

/-- AR4JA rate 1/2, k = 1024: girth 6 (as documented in the Rust source) -/
theorem ar4ja_r12_k1024_girth_six : Graph.IsGirth (smOf (ar4jaNcols 0 9) (ar4jaRows tables 0 9)) 6 :=
  ⟨⟨_, CcsdsGirth.six_cycle_ar4ja_r12_k1024 _, rfl⟩,
   CcsdsGirth.no_short_cycle_of_rows _ _ _ C07.ar4ja_r12_k1024_no_four_cycles_native⟩

end LdpcV.C07Girth
