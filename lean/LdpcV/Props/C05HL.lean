/-
C05 / C10 (layered 8-bit decoders, end to end) — the reachable envelope of the horizontal-layered decoder with an
8-bit arithmetic: every variable LLR equals its channel LLR plus the current messages of its checks, hence
|variable LLR| ≤ 127·(degree + 1), the i16 accumulators never overflow, no call panics, and a decoder object reused
for any history of frames returns what the textbook layered schedule returns.
Helper lemmas: LdpcV/Lemmas/I8Layer.lean.
-/
import LdpcV.Lemmas.I8Layer
namespace LdpcV.C05HL
open LdpcV LdpcV.I8

/-- the layered contract (C03's `WellBehavedLayer`) holds for the 8-bit arithmetics on every matrix with check degree ≥ 2
and variable degree ≤ 254: the invariant is "var[v] = input[v] + Σ (messages currently stored for v), all inputs and
messages in [-127, 127]" -/
theorem i8_wellBehavedLayer (amin : Bool) (cfg : Cfg) (h : SM) (hinv : h.Inv)
    (hrow : ∀ r, r < h.nrows → 2 ≤ (h.row r).length) (hcol : ∀ c, c < h.ncols → (h.col c).length ≤ 254) :
    ∃ wb : WellBehavedLayer (mkArith amin cfg) h,
      ∀ (rcv : List (List (Nat × Int))) (vars : List Int), wb.okState rcv vars →
        (∀ v, v < h.ncols → (vars.getD v 0).natAbs ≤ 127 * ((h.col v).length + 1)) ∧
        (∀ l ∈ rcv, Bounded l) :=
  ⟨wellBehavedLayer amin cfg h hinv hrow hcol, fun _ _ ok => okSt_bound ok⟩

/-- hence: the four HL 8-bit implementations never panic or overflow on any history of frames (any f64 bit patterns,
any limits) and every call returns the textbook layered result -/
theorem i8_layered_history_independent (amin : Bool) (cfg : Cfg) (h : SM) (hinv : h.Inv)
    (hrow : ∀ r, r < h.nrows → 2 ≤ (h.row r).length) (hcol : ∀ c, c < h.ncols → (h.col c).length ≤ 254)
    (calls : List (List UInt64 × Nat)) (hcalls : ∀ c ∈ calls, c.1.length = h.ncols) :
    DecSt.runHistory h (DecSt.fresh (mkArith amin cfg) .layered h) calls
      = some (calls.filterMap (fun c => BPRef.layerRef (mkArith amin cfg) h c.1 c.2)) ∧
    (calls.filterMap (fun c => BPRef.layerRef (mkArith amin cfg) h c.1 c.2)).length = calls.length := by
  obtain ⟨wb, -⟩ := i8_wellBehavedLayer amin cfg h hinv hrow hcol
  have key : ∀ c ∈ calls, ((DecSt.fresh (mkArith amin cfg) .layered h).decode h c.1 c.2).map Prod.fst
      = BPRef.layerRef (mkArith amin cfg) h c.1 c.2 := by
    intro c hc
    obtain ⟨v, st', hd, hr⟩ := C03.hl_refines h wb (Hl.fresh _ h) (C01.shape_invariant h).2.1 c.1 (hcalls c hc) c.2
    simp [DecSt.fresh, DecSt.decode, hd, hr]
  have := C10.hl_history_independent h wb calls hcalls
  rw [filterMap_congr_mem _ _ calls key] at this
  exact this

end LdpcV.C05HL
