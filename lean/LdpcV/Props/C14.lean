/-
C14 — demodulator LLRs are the exact posterior log-ratios of the constellation.
The formulas of LdpcV/Model/Modulation.lean instantiated at ℝ (`Sc.real`); IEEE rounding is not covered.
Helper lemmas: LdpcV/Lemmas/ModulationLemmas.lean (imports single Mathlib modules).
-/
import LdpcV.Lemmas.ModulationLemmas
namespace LdpcV.C14
open LdpcV LdpcV.Modulation

/-- max* is the log-sum-exp of two numbers (Jacobian logarithm) -/
theorem maxstar_lse (a b : ℝ) : maxstar Sc.real a b = Real.log (Real.exp a + Real.exp b) := by
  exact ModL.maxstar_lse a b

/-- BPSK (bit 0 ↦ −1, bit 1 ↦ +1): the LLR is log(P(bit=0 | r) / P(bit=1 | r)) for equiprobable bits in
Gaussian noise of standard deviation σ (the Gaussian normalisation cancels) -/
theorem bpsk_llr (sigma r : ℝ) (hs : 0 < sigma) :
    bpskDemod Sc.real sigma r =
      Real.log (Real.exp (-(r - bpskMod Sc.real false) ^ 2 / (2 * sigma ^ 2)) /
                Real.exp (-(r - bpskMod Sc.real true) ^ 2 / (2 * sigma ^ 2))) := by
  exact ModL.bpsk_llr sigma r hs

/-- likelihood of the received point `r` given the constellation point of the bit triple -/
noncomputable def lik (sigma : ℝ) (r : ℝ × ℝ) (b0 b1 b2 : Bool) : ℝ :=
  Real.exp (-((r.1 - (psk8Mod Sc.real b0 b1 b2).1) ^ 2 + (r.2 - (psk8Mod Sc.real b0 b1 b2).2) ^ 2) / (2 * sigma ^ 2))

/-- 8PSK: each of the three LLRs is log(Σ_{s : bit = 0} p(r|s) / Σ_{s : bit = 1} p(r|s)), bit order as in the modulator -/
theorem psk8_llr (sigma : ℝ) (r : ℝ × ℝ) (hs : 0 < sigma) :
    (psk8Demod Sc.real sigma r).1 =
      Real.log ((lik sigma r false false false + lik sigma r false false true + lik sigma r false true false + lik sigma r false true true) /
                (lik sigma r true false false + lik sigma r true false true + lik sigma r true true false + lik sigma r true true true)) ∧
    (psk8Demod Sc.real sigma r).2.1 =
      Real.log ((lik sigma r false false false + lik sigma r false false true + lik sigma r true false false + lik sigma r true false true) /
                (lik sigma r false true false + lik sigma r false true true + lik sigma r true true false + lik sigma r true true true)) ∧
    (psk8Demod Sc.real sigma r).2.2 =
      Real.log ((lik sigma r false false false + lik sigma r false true false + lik sigma r true false false + lik sigma r true true false) /
                (lik sigma r false false true + lik sigma r false true true + lik sigma r true false true + lik sigma r true true true)) := by
  have _ := hs
  exact ModL.psk8_llr sigma r

/-- unit energy: every constellation point lies on the unit circle -/
theorem unit_energy (b0 b1 b2 : Bool) :
    (psk8Mod Sc.real b0 b1 b2).1 ^ 2 + (psk8Mod Sc.real b0 b1 b2).2 ^ 2 = 1 := by
  exact ModL.unit_energy b0 b1 b2

/-- the bit triples in the order of increasing angle 0°, 45°, …, 315° -/
def angularOrder : List (Bool × Bool × Bool) :=
  [(false, false, true), (false, false, false), (true, false, false), (true, true, false),
   (false, true, false), (false, true, true), (true, true, true), (true, false, true)]

/-- DVB-S2 Gray mapping: the i-th triple of `angularOrder` sits at angle i·45°, and cyclically neighbouring
points differ in exactly one bit -/
theorem gray_mapping :
    (∀ i : Fin 8, psk8Mod Sc.real (angularOrder[i]).1 (angularOrder[i]).2.1 (angularOrder[i]).2.2 =
        (Real.cos (i.val * (Real.pi / 4)), Real.sin (i.val * (Real.pi / 4)))) ∧
    (∀ i : Fin 8, let a := angularOrder[i]; let b := angularOrder[(⟨(i.val + 1) % 8, Nat.mod_lt _ (by decide)⟩ : Fin 8)]
        ((if a.1 != b.1 then 1 else 0) + (if a.2.1 != b.2.1 then 1 else 0) + (if a.2.2 != b.2.2 then 1 else 0) : Nat) = 1) := by
  exact ModL.gray_mapping

/-- noiseless hard decisions return the bits, for every σ > 0 and every bit triple:
the LLR of a bit that was sent as 0 is positive, of a bit sent as 1 negative (`llr <= 0` means 1) -/
theorem noiseless_hard (sigma : ℝ) (hs : 0 < sigma) (b0 b1 b2 : Bool) :
    let l := psk8Demod Sc.real sigma (psk8Mod Sc.real b0 b1 b2)
    (b0 = true ↔ l.1 < 0) ∧ (b0 = false ↔ 0 < l.1) ∧
    (b1 = true ↔ l.2.1 < 0) ∧ (b1 = false ↔ 0 < l.2.1) ∧
    (b2 = true ↔ l.2.2 < 0) ∧ (b2 = false ↔ 0 < l.2.2) := by
  exact ModL.noiseless_hard sigma hs b0 b1 b2

/-- … and hence for bit sequences of any length (a multiple of 3): demodulating the modulated bits and
taking hard decisions returns the sequence -/
theorem noiseless_hard_all (sigma : ℝ) (hs : 0 < sigma) (bits : List Bool) (syms : List (ℝ × ℝ))
    (hm : psk8ModAll Sc.real bits = some syms) :
    (psk8DemodAll Sc.real sigma syms).map (fun l => decide (l ≤ 0)) = bits := by
  exact ModL.noiseless_hard_all sigma hs bits syms hm

/-- the same for BPSK -/
theorem bpsk_noiseless_hard (sigma : ℝ) (hs : 0 < sigma) (b : Bool) :
    (b = true ↔ bpskDemod Sc.real sigma (bpskMod Sc.real b) < 0) ∧
    (b = false ↔ 0 < bpskDemod Sc.real sigma (bpskMod Sc.real b)) := by
  exact ModL.bpsk_noiseless_hard sigma hs b

/-- noise level: with rate R (after puncturing), B bits per symbol and unit symbol energy,
2σ² · R · B · (Eb/N0) = 1, i.e. σ² = N0/2 per dimension with Es/N0 = R·B·Eb/N0 -/
theorem sigma_law (ebn0Db rate bps : ℝ) (hr : 0 < rate) (hb : 0 < bps) :
    2 * (noiseSigma Sc.real ebn0Db rate bps) ^ 2 * rate * bps * (10 : ℝ) ^ (ebn0Db / 10) = 1 := by
  exact ModL.sigma_law ebn0Db rate bps hr hb

end LdpcV.C14
