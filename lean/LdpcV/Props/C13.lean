/-
C13 — BER statistics are exact and the run terminates under every thread schedule.
Statistics part: for EVERY arrival sequence of worker results (= every interleaving of the workers'
result streams) the counters are exactly those of the consumed whole frames, the point stops exactly
when the error target is reached, and the counters do not depend on the arrival order.
Model: LdpcV/Model/BerStats.lean.  Helper lemmas: LdpcV/Lemmas/BerLemmas.lean.
(The thread protocol — spawn / signal / join — is treated in LdpcV/Props/C13Proto.lean.)
-/
import LdpcV.Lemmas.BerLemmas
namespace LdpcV.C13
open LdpcV LdpcV.Ber

def count (p : Frame → Bool) (l : List Frame) : Nat := (l.filter p).length
def total (f : Frame → Nat) (l : List Frame) : Nat := (l.map f).foldl (· + ·) 0

/-- the consumed frames are a prefix of the arrival sequence, and the loop leaves through the error
branch exactly when the next arrival after them is an error and the target was not yet reached -/
theorem consumed_prefix (target bchMax : Nat) (arrivals : List (Option Frame)) :
    let r := collect target bchMax (Cur.new bchMax) arrivals
    (r.2.1.map some) = arrivals.take r.2.1.length ∧
    (r.2.2 = true → arrivals[r.2.1.length]? = some none ∧ r.1.errors < target) := by
  intro r
  exact ⟨collect_prefix _ _ _ _, collect_err _ _ _ _⟩

/-- every counter is the corresponding sum over the consumed whole frames -/
theorem counts_exact (target bchMax : Nat) (arrivals : List (Option Frame)) :
    let r := collect target bchMax (Cur.new bchMax) arrivals
    let c := r.1; let used := r.2.1
    c.numFrames = used.length ∧
    c.ldpc.frameErrors = count (·.frameError) used ∧
    c.ldpc.bitErrors = total (·.bitErrors) used ∧
    c.falseDecodes = count (·.falseDecode) used ∧
    c.totalIterations = total (·.iterations) used ∧
    c.ldpc.correctIterations = total (·.iterations) (used.filter (fun f => !f.frameError)) ∧
    c.totalIterations = c.ldpc.correctIterations + total (·.iterations) (used.filter (·.frameError)) := by
  intro r c used
  have hf : c = used.foldl (Cur.step bchMax) (Cur.new bchMax) := collect_fold _ _ _ _
  obtain ⟨h1, h2, h3, h4, h5, h6, h7⟩ := foldl_step_counts bchMax (Cur.new bchMax) used
  simp only [← hf] at h1 h2 h3 h4 h5 h6
  have hn : (Cur.new bchMax).numFrames = 0 ∧ (Cur.new bchMax).ldpc = {} ∧
      (Cur.new bchMax).falseDecodes = 0 ∧ (Cur.new bchMax).totalIterations = 0 := by
    simp [Cur.new]
  obtain ⟨n1, n2, n3, n4⟩ := hn
  rw [n1] at h1; rw [n2] at h2 h3 h6; rw [n3] at h4; rw [n4] at h5
  simp only [Nat.zero_add] at h1 h2 h3 h4 h5 h6
  refine ⟨h1, h2, h3, h4, h5, h6, ?_⟩
  rw [h5, h6]
  exact h7

/-- outer-code accounting applies its correction threshold: a frame counts as an outer-code frame
error exactly when it has more than `bchMax` bit errors -/
theorem bch_accounting (target bchMax : Nat) (hb : 0 < bchMax) (arrivals : List (Option Frame)) :
    let r := collect target bchMax (Cur.new bchMax) arrivals
    ∃ b, r.1.bch = some b ∧
      b.frameErrors = count (fun f => decide (f.bitErrors > bchMax)) r.2.1 ∧
      b.bitErrors = total (·.bitErrors) (r.2.1.filter (fun f => decide (f.bitErrors > bchMax))) ∧
      b.correctIterations = total (·.iterations) (r.2.1.filter (fun f => !decide (f.bitErrors > bchMax))) ∧
      r.1.errors = b.frameErrors := by
  intro r
  have hf : r.1 = r.2.1.foldl (Cur.step bchMax) (Cur.new bchMax) := collect_fold _ _ _ _
  have hx : (Cur.new bchMax).bch = some {} := by simp [Cur.new, hb]
  obtain ⟨y, hy, h1, h2, h3⟩ := foldl_step_bch_some bchMax _ _ r.2.1 hx
  rw [← hf] at hy
  refine ⟨y, hy, ?_, ?_, ?_, ?_⟩
  · simpa [count, cnt] using h1
  · simpa [total, tot] using h2
  · simpa [total, tot] using h3
  · simp [Cur.errors, hy]

/-- without outer code the termination measure is the number of LDPC frame errors -/
theorem no_bch (target : Nat) (arrivals : List (Option Frame)) :
    let r := collect target 0 (Cur.new 0) arrivals
    r.1.bch = none ∧ r.1.errors = r.1.ldpc.frameErrors := by
  intro r
  have hf : r.1 = r.2.1.foldl (Cur.step 0) (Cur.new 0) := collect_fold _ _ _ _
  have hx : (Cur.new 0).bch = none := by simp [Cur.new]
  have hn : r.1.bch = none := by rw [hf]; exact foldl_step_bch_none _ _ _ hx
  exact ⟨hn, by simp [Cur.errors, hn]⟩

/-- each point stops exactly when the required number of errors has been collected: the termination
measure never exceeds the target; if the loop stopped before the arrivals ran out (and not through the
error branch) it equals the target, the last consumed frame raised it, and before that frame it was below -/
theorem stop_exact (target bchMax : Nat) (ht : 1 ≤ target) (arrivals : List (Option Frame)) :
    let r := collect target bchMax (Cur.new bchMax) arrivals
    r.1.errors ≤ target ∧
    (r.2.2 = false → r.2.1.length < arrivals.length →
      r.1.errors = target ∧
      ∃ init last, r.2.1 = init ++ [last] ∧
        ((init.foldl (Cur.step bchMax) (Cur.new bchMax)).errors + 1 = target)) := by
  intro r
  have h0 : (Cur.new bchMax).errors = 0 := new_errors bchMax
  refine ⟨collect_le _ _ _ _ (by omega), ?_⟩
  intro he hl
  exact collect_target _ _ _ _ (by omega) he hl

/-- the counters depend only on WHICH frames were consumed, not on their order -/
theorem order_irrelevant (bchMax : Nat) (c : Cur) (l1 l2 : List Frame) (hp : l1.Perm l2) :
    l1.foldl (Cur.step bchMax) c = l2.foldl (Cur.step bchMax) c := by
  exact foldl_step_perm bchMax c l1 l2 hp

/-- what a worker reports for a frame: bit errors are counted on the systematic part only (the zip
with the message stops at its length), a frame error is one or more bit errors, a false decode is a
frame error that the decoder reported as success -/
theorem frame_of (message decoded : List Bool) (it : Nat) (success : Bool) :
    let f := frameOf message decoded it success
    f.bitErrors ≤ message.length ∧ (f.frameError = true ↔ 0 < f.bitErrors) ∧
    (f.falseDecode = true ↔ (f.frameError = true ∧ success = true)) ∧ f.iterations = it ∧
    (decoded.take message.length = message → f.bitErrors = 0) := by
  intro f
  refine ⟨zip_filter_le _ _, ?_, ?_, rfl, ?_⟩
  · simp [f, frameOf]
  · simp [f, frameOf]
  · intro h
    simp [f, frameOf, zip_filter_ne_of_take _ _ h]

/-- non-vacuity -/
example :
    let fr (be it : Nat) (ok : Bool) : Frame := ⟨be, be > 0, be > 0 && ok, it⟩
    let r := collect 2 1 (Cur.new 1) [some (fr 0 3 true), some (fr 1 4 true), some (fr 2 5 false), some (fr 3 6 true), some (fr 0 7 true)]
    r.1.numFrames = 4 ∧ r.1.errors = 2 ∧ r.1.ldpc.frameErrors = 3 ∧ r.1.falseDecodes = 2 ∧ r.2.2 = false := by
  decide

end LdpcV.C13
