/-
C04 (real-semantics part) — the floating-point check-node rules are exact / approximate box-plus.
The formulas of LdpcV/Model/ArithF.lean instantiated at ℝ (`Sc.real`); IEEE rounding is not covered.
Helper lemmas: LdpcV/Lemmas/BoxPlusLemmas.lean (imports single Mathlib modules).
-/
import LdpcV.Lemmas.BoxPlusLemmas
namespace LdpcV.C04Real
open LdpcV LdpcV.ArithF

/-- one exact min* step is the box-plus: tanh(min*(x, y)/2) = tanh(x/2)·tanh(y/2) -/
theorem minstar_exact (x y : ℝ) (hx : 0 ≤ x) (hy : 0 ≤ y) :
    Real.tanh (stepFull Sc.real x y / 2) = Real.tanh (x / 2) * Real.tanh (y / 2) := by
  have _ := hx; have _ := hy
  exact BoxL.minstar_exact x y

/-- the approximate step drops a positive term of at most ln 2: exact − ln 2 ≤ approx ≤ exact, floored at 0 -/
theorem approx_step_bounds (x y : ℝ) (hx : 0 ≤ x) (hy : 0 ≤ y) :
    0 ≤ stepApprox Sc.real x y ∧ stepApprox Sc.real x y ≤ stepFull Sc.real x y ∧
    stepFull Sc.real x y - Real.log 2 ≤ stepApprox Sc.real x y ∧ 0 ≤ stepFull Sc.real x y ∧
    stepFull Sc.real x y ≤ min x y := by
  exact BoxL.approx_step_bounds x y hx hy

/-- phi is an involution on the positive reals (where the 1e-30 guard is not active) -/
theorem phi_involution (x : ℝ) (hx : (1 : ℝ) / 10 ^ 30 ≤ x) (hp : (1 : ℝ) / 10 ^ 30 ≤ phi Sc.real x) :
    phi Sc.real (phi Sc.real x) = x := by
  exact BoxL.phi_involution x hx hp

/-- tanh(phi(x)/2) = exp(−x)… the identity behind the phi rule: phi turns the tanh-product into a sum -/
theorem phi_tanh (x : ℝ) (hx : (1 : ℝ) / 10 ^ 30 ≤ x) :
    Real.exp (-(phi Sc.real x)) = Real.tanh (x / 2) := by
  exact BoxL.phi_tanh x hx

/-- the phi rule is the exact box-plus: for every emitted message, tanh(|out|/2) = Π_{j≠i} tanh(|x_j|/2),
with the sign of the product of the other signs (whenever no 1e-30 guard is active) -/
theorem phi_rule (msgs : List (Nat × ℝ)) (hn : (msgs.map Prod.fst).Nodup)
    (hg : ∀ m ∈ msgs, (1 : ℝ) / 10 ^ 30 ≤ |m.2|)
    (hs : ∀ m ∈ msgs, (1 : ℝ) / 10 ^ 30 ≤ sum Sc.real ((msgs.filter (fun q => q.1 != m.1)).map (fun q => phi Sc.real |q.2|))) :
    (checkPhi Sc.real msgs).map Prod.fst = msgs.map Prod.fst ∧
    ∀ o ∈ checkPhi Sc.real msgs,
      Real.tanh (|o.2| / 2) = prod Sc.real ((msgs.filter (fun q => q.1 != o.1)).map (fun q => Real.tanh (|q.2| / 2))) ∧
      (o.2 ≠ 0 → (o.2 < 0 ↔ signParity Sc.real ((msgs.filter (fun q => q.1 != o.1)).map Prod.snd) = true)) := by
  exact BoxL.phi_rule msgs hn hg hs

/-- the tanh rule is the exact box-plus when the clamp is not active -/
theorem tanh_rule (clamp : ℝ) (msgs : List (Nat × ℝ)) (hn : (msgs.map Prod.fst).Nodup)
    (hc : ∀ m ∈ msgs, |m.2 / 2| ≤ clamp) :
    (checkTanh Sc.real clamp msgs).map Prod.fst = msgs.map Prod.fst ∧
    ∀ o ∈ checkTanh Sc.real clamp msgs, 2 ≤ msgs.length →
      Real.tanh (o.2 / 2) = prod Sc.real ((msgs.filter (fun q => q.1 != o.1)).map (fun q => Real.tanh (q.2 / 2))) := by
  exact BoxL.tanh_rule clamp msgs hn hc

/-- folding exact min* steps over non-negative magnitudes computes the box-plus of all of them -/
theorem fold_full_exact (xs : List ℝ) (acc : ℝ) (ha : 0 ≤ acc) :
    ∃ z, foldAbs Sc.real (stepFull Sc.real) xs (some acc) = some z ∧ 0 ≤ z ∧
      Real.tanh (z / 2) = Real.tanh (acc / 2) * prod Sc.real (xs.map (fun x => Real.tanh (|x| / 2))) := by
  exact BoxL.fold_full_exact xs acc ha

/-- folding approximate steps stays between the exact value minus (number of steps)·ln 2, floored at 0, and the exact value -/
theorem fold_approx_bounds (xs : List ℝ) (acc : ℝ) (ha : 0 ≤ acc) :
    ∃ z e, foldAbs Sc.real (stepApprox Sc.real) xs (some acc) = some z ∧
      foldAbs Sc.real (stepFull Sc.real) xs (some acc) = some e ∧
      0 ≤ z ∧ z ≤ e ∧ e - xs.length * Real.log 2 ≤ z := by
  exact BoxL.fold_approx_bounds xs acc ha

end LdpcV.C04Real
