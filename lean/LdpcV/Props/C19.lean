/-
C19 — the C interface is a faithful wrapper of the Rust encoder and decoder.
Model: LdpcV/Model/Capi.lean (the wrapper logic around an arbitrary decoder / the encoder of C02 / the puncturer
of C15 / the alist parser of C08 / the name table of C18).  Memory safety of the `unsafe` shims, CStr decoding and
file reading are not modelled.  Independence of repeated calls on one handle is C10's theorem (the handle owns one
decoder object).
-/
import LdpcV.Model.Capi
import LdpcV.Props.C18
namespace LdpcV.C19
open LdpcV LdpcV.Capi LdpcV.Blocks

/-- decode: the return value is the iteration count on success and -1 on failure, and the output buffer
receives the leading `outputLen` bits of exactly the word the decoder returns for the depunctured LLRs -/
theorem decode_wrapper (dec : List UInt64 → Nat → Option Verdict) (pattern : Option (List Bool)) (outputLen : Nat)
    (llrs : List UInt64) (maxIter : Nat) (ret : Int) (out : List Bool)
    (h : decodeWith dec pattern outputLen llrs maxIter = .ok (ret, out)) :
    ∃ l v, (match pattern with | some p => depuncture (0 : UInt64) p llrs | none => .ok llrs) = .ok l ∧
      dec l maxIter = some v ∧ out = v.word.take outputLen ∧ outputLen ≤ v.word.length ∧
      (∀ w it, v = .success w it → ret = it) ∧ (∀ w it, v = .failure w it → ret = -1) ∧
      (0 ≤ ret ↔ ∃ w it, v = .success w it) := by
  simp only [decodeWith] at h
  cases pattern with
  | none =>
    simp only at h
    refine ⟨llrs, ?_⟩
    cases hv : dec llrs maxIter with
    | none => simp [hv] at h
    | some v =>
      simp only [hv] at h
      split at h
      · rename_i hlen
        injection h with h; injection h with h1 h2
        refine ⟨v, rfl, rfl, h2.symm, hlen, ?_, ?_, ?_⟩
        · intro w it hv'; subst hv'; exact h1.symm
        · intro w it hv'; subst hv'; exact h1.symm
        · cases v with
          | success w it => simp at h1; subst h1; simp
          | failure w it => simp at h1; subst h1; simp
      · cases h
  | some p =>
    simp only at h
    cases hd : depuncture (0 : UInt64) p llrs with
    | err => simp [hd] at h
    | panic => simp [hd] at h
    | ok l =>
      simp only [hd] at h
      refine ⟨l, ?_⟩
      cases hv : dec l maxIter with
      | none => simp [hv] at h
      | some v =>
        simp only [hv] at h
        split at h
        · rename_i hlen
          injection h with h; injection h with h1 h2
          refine ⟨v, hd, rfl, h2.symm, hlen, ?_, ?_, ?_⟩
          · intro w it hv'; subst hv'; exact h1.symm
          · intro w it hv'; subst hv'; exact h1.symm
          · cases v with
            | success w it => simp at h1; subst h1; simp
            | failure w it => simp at h1; subst h1; simp
        · cases h

/-- encode: the output is exactly the punctured systematic codeword, and the output buffer has exactly its length;
input bytes other than 1 count as 0 -/
theorem encode_wrapper (e : EncHandle) (outputLen : Nat) (input : List Nat) (bits : List Bool)
    (h : encode e outputLen input = .ok bits) :
    ∃ cw, Lin.encode e.enc (input.map (· == 1)) = some cw ∧ outputLen = bits.length ∧
      (e.pattern = none → bits = cw) ∧ (∀ p, e.pattern = some p → puncture p cw = .ok bits) := by
  unfold encode at h
  split at h
  · cases h
  · rename_i cw hcw
    refine ⟨cw, hcw, ?_⟩
    cases hp : e.pattern with
    | none =>
      simp only [hp] at h
      split at h
      · rename_i hl; injection h with h; subst h; exact ⟨hl, fun _ => rfl, fun p hp' => (by cases hp')⟩
      · cases h
    | some p =>
      simp only [hp] at h
      split at h
      · rename_i b hb
        split at h
        · rename_i hl; injection h with h; subst h
          exact ⟨hl, fun h' => (by cases h'), fun p' hp' => (by cases hp'; exact hb)⟩
        · cases h
      · cases h

/-- the decoder constructor returns null exactly for malformed alist text, unknown implementation names and
malformed puncturing patterns (the empty pattern string means "no puncturing") -/
theorem decoder_ctor_null_iff (alist impl punct : List Char) :
    decoderCtor alist impl punct = none ↔
      ((∀ h, Alist.fromAlist alist ≠ .ok h) ∨ Factory.parse (String.ofList impl) = none ∨
       (punct ≠ [] ∧ parsePattern punct = none)) := by
  unfold decoderCtor patternArg
  cases ha : Alist.fromAlist alist with
  | ok h =>
    cases hi : Factory.parse (String.ofList impl) with
    | none => simp
    | some i =>
      by_cases hp : punct = []
      · simp [hp]
      · cases hq : parsePattern punct <;> simp [hp, List.isEmpty_iff]
  | err => simp
  | panic => simp

/-- the encoder constructor returns null exactly for malformed alist text, malformed patterns and matrices whose
last columns are singular (`Encoder::from_h` returns its error) -/
theorem encoder_ctor_null_iff (alist punct : List Char) :
    encoderCtor alist punct = .ok none ↔
      ((∀ h, Alist.fromAlist alist ≠ .ok h) ∨ (punct ≠ [] ∧ parsePattern punct = none) ∨
       (∃ h, Alist.fromAlist alist = .ok h ∧ Lin.fromH h = .err)) := by
  unfold encoderCtor patternArg
  cases ha : Alist.fromAlist alist with
  | ok h =>
    by_cases hp : punct = []
    · cases hf : Lin.fromH h <;> simp [hp, hf]
    · cases hq : parsePattern punct with
      | none => simp [hp, List.isEmpty_iff]
      | some p => cases hf : Lin.fromH h <;> simp [hp, hf, List.isEmpty_iff]
  | err => simp
  | panic => simp

/-- an accepted implementation string is one of the 36 names, and prints back identically (C18) -/
theorem decoder_ctor_name (alist impl punct : List Char) (hd : DecHandle) (h : decoderCtor alist impl punct = some hd) :
    hd.impl ∈ Factory.all ∧ Factory.print hd.impl = String.ofList impl := by
  unfold decoderCtor at h
  split at h
  · split at h
    · rename_i i hi
      cases hp : patternArg punct with
      | none => simp [hp] at h
      | some p =>
        simp [hp] at h
        subst h
        have := C18.print_parse _ _ hi
        exact ⟨this.2, this.1⟩
    · cases h
  · cases h

/-- pattern strings: `1,0,1` parses, anything with a piece other than `0`/`1` (empty piece, blank, `2`, trailing comma) is rejected -/
example : parsePattern "1,1,1,0".toList = some [true, true, true, false] ∧ parsePattern "1,,0".toList = none ∧
    parsePattern "1,0,".toList = none ∧ parsePattern " 1,0".toList = none ∧ parsePattern "2".toList = none ∧
    parsePattern "0".toList = some [false] := by decide

end LdpcV.C19
