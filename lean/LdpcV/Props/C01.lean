/-
C01 — a decoder never reports success on a word that is not a codeword.
Generic in the arithmetic `A` (so all 36 built-in combinations and any user-defined one), in the
parity-check matrix, the LLR vector (as f64 bit patterns), the iteration limit and the *incoming
decoder state* (a reused decoder object).  Helper lemmas: LdpcV/Lemmas/DecSound.lean.
-/
import LdpcV.Lemmas.DecSound
namespace LdpcV.C01
open LdpcV

variable {A : Arith}

/-- flooding: a success carries a word of codeword length that satisfies every parity check, with
`0 ≤ it ≤ n`; `it = 0` exactly when the sign pattern of the input LLRs already satisfies every check,
and the word is then that sign pattern -/
theorem flood_success (h : SM) (st st' : FloodSt A) (llrs : List UInt64) (n it : Nat) (w : List Bool)
    (hs : Flood.Shape h st) (hd : Flood.decode h st llrs n = some (.success w it, st')) :
    w.length = h.ncols ∧ syndromeOK h w = true ∧ it ≤ n ∧
    (it = 0 ↔ syndromeOK h (llrs.map f64LeZero) = true) ∧ (it = 0 → w = llrs.map f64LeZero) := by
  exact Flood.decode_success h st st' llrs n it w hs hd

/-- flooding: a failure has codeword length, `it = n`, and for `n ≥ 1` its word violates a check -/
theorem flood_failure (h : SM) (st st' : FloodSt A) (llrs : List UInt64) (n it : Nat) (w : List Bool)
    (hs : Flood.Shape h st) (hd : Flood.decode h st llrs n = some (.failure w it, st')) :
    w.length = h.ncols ∧ it = n ∧ (1 ≤ n → syndromeOK h w = false) := by
  exact Flood.decode_failure h st st' llrs n it w hs hd

/-- horizontal layered: same statement -/
theorem hl_success (h : SM) (st st' : HlSt A) (llrs : List UInt64) (n it : Nat) (w : List Bool)
    (hs : Hl.Shape h st) (hwb : ∀ msgs vars msgs' vars', A.layerRule msgs vars = some (msgs', vars') → vars'.length = vars.length)
    (hd : Hl.decode h st llrs n = some (.success w it, st')) :
    w.length = h.ncols ∧ syndromeOK h w = true ∧ it ≤ n ∧
    (it = 0 ↔ syndromeOK h (llrs.map f64LeZero) = true) ∧ (it = 0 → w = llrs.map f64LeZero) := by
  exact Hl.decode_success h st st' llrs n it w hs hwb hd

theorem hl_failure (h : SM) (st st' : HlSt A) (llrs : List UInt64) (n it : Nat) (w : List Bool)
    (hs : Hl.Shape h st) (hwb : ∀ msgs vars msgs' vars', A.layerRule msgs vars = some (msgs', vars') → vars'.length = vars.length)
    (hd : Hl.decode h st llrs n = some (.failure w it, st')) :
    w.length = h.ncols ∧ it = n ∧ (1 ≤ n → syndromeOK h w = false) := by
  exact Hl.decode_failure h st st' llrs n it w hs hwb hd

/-- the state a decode call leaves behind is again a state of a decoder for `h` (so the statements
above apply to every later call on the same object), and a freshly built decoder has that shape -/
theorem shape_invariant (h : SM) :
    Flood.Shape h (Flood.fresh A h) ∧ Hl.Shape h (Hl.fresh A h) ∧
    (∀ (st st' : FloodSt A) llrs n v, Flood.Shape h st → Flood.decode h st llrs n = some (v, st') → Flood.Shape h st') ∧
    (∀ (st st' : HlSt A) llrs n v, Hl.Shape h st →
      (∀ msgs vars msgs' vars', A.layerRule msgs vars = some (msgs', vars') →
        vars'.length = vars.length ∧ msgs'.map Prod.fst = msgs.map Prod.fst) →
      Hl.decode h st llrs n = some (v, st') → Hl.Shape h st') := by
  exact ⟨Flood.fresh_shape h, Hl.fresh_shape h,
    fun st st' llrs n v hs hd => Flood.decode_shape h st st' llrs n v hs hd,
    fun st st' llrs n v hs hwb hd => Hl.decode_shape h st st' llrs n v hs hwb hd⟩

/-- the parity evaluation really is "H·w = 0": every row has an even number of ones of `w` -/
theorem syndromeOK_iff (h : SM) (w : List Bool) :
    syndromeOK h w = true ↔ ∀ r, r < h.nrows → ((h.row r).filter (fun c => w.getD c false)).length % 2 = 0 := by
  exact syndromeOK_iff_rows h w

/-- non-vacuity: the 2×3 single-parity matrix, a non-codeword input, the exact 8-bit min* decoder:
a real success after one iteration and a real failure with limit 0 -/
example :
    let h : SM := ⟨[[0, 1], [1, 2]], [[0], [0, 1], [1]]⟩
    let A := I8.mkArith false ⟨false, false, false⟩
    (Flood.decode h (Flood.fresh A h) [0x4000000000000000, 0xBFD0000000000000, 0x4000000000000000] 5).map Prod.fst
        = some (.success [false, false, false] 1) ∧
    (Flood.decode h (Flood.fresh A h) [0x4000000000000000, 0xBFD0000000000000, 0x4000000000000000] 0).map Prod.fst
        = some (.failure [false, true, false] 0) := by
  decide +kernel

end LdpcV.C01
