/-
C15 — interleaving and puncturing are exact, invertible re-orderings.
Property theorems only (helper lemmas live in LdpcV/Lemmas/BlocksLemmas.lean).
All statements are for an arbitrary element type `α` and unbounded sizes.
-/
import LdpcV.Lemmas.BlocksLemmas
namespace LdpcV.C15
open LdpcV LdpcV.Blocks

variable {α : Type}

/-- the interleaver is the column-write / row-read permutation:
`out[r*C + c] = in[c*R + r]` (columns reversed when reading backwards) -/
theorem interleave_index (C : Nat) (bw : Bool) (xs : List α) (hC : 0 < C) (hd : xs.length % C = 0) :
    ∃ ys, interleave C bw xs = .ok ys ∧ ys.length = xs.length ∧
      ∀ r c, c < C → r < xs.length / C →
        ys[r * C + c]? = xs[(if bw then C - 1 - c else c) * (xs.length / C) + r]? :=
  Blocks.interleave_index' C bw xs hC hd

/-- deinterleaving is the exact inverse of interleaving … -/
theorem deinterleave_interleave (C : Nat) (bw : Bool) (xs ys : List α)
    (h : interleave C bw xs = .ok ys) : deinterleave C bw ys = .ok xs :=
  Blocks.deinterleave_interleave' C bw xs ys h

/-- … on both sides -/
theorem interleave_deinterleave (C : Nat) (bw : Bool) (xs ys : List α)
    (h : deinterleave C bw ys = .ok xs) : interleave C bw xs = .ok ys :=
  Blocks.interleave_deinterleave' C bw xs ys h

/-- the only non-ok outcome is the documented panic, exactly when the length is not divisible -/
theorem interleave_panic_iff (C : Nat) (bw : Bool) (xs : List α) :
    (interleave C bw xs = .panic ↔ (C = 0 ∨ xs.length % C ≠ 0)) ∧ interleave C bw xs ≠ .err ∧
    (deinterleave C bw xs = .panic ↔ (C = 0 ∨ xs.length % C ≠ 0)) ∧ deinterleave C bw xs ≠ .err :=
  Blocks.interleave_panic_iff' C bw xs

/-- puncturing keeps exactly the blocks marked true, in order -/
theorem puncture_blocks (p : List Bool) (xs : List α) (hp : p ≠ []) (hd : xs.length % p.length = 0) :
    puncture p xs = .ok (((List.range p.length).filter (fun k => p.getD k false)).flatMap
        (fun k => (xs.drop (k * (xs.length / p.length))).take (xs.length / p.length))) :=
  Blocks.puncture_blocks' p xs hp hd

/-- length of the punctured word; `rate = pattern length / kept blocks` as an exact fraction -/
theorem puncture_length (p : List Bool) (xs ys : List α) (h : puncture p xs = .ok ys) :
    ys.length * p.length = xs.length * numTrues p ∧ rate p = (p.length, numTrues p) :=
  Blocks.puncture_length' p xs ys h

/-- depuncturing restores the kept blocks and writes the neutral value `d` in the removed blocks -/
theorem depuncture_puncture (d : α) (p : List Bool) (xs ys : List α) (h : puncture p xs = .ok ys)
    (ht : numTrues p ≠ 0) :
    depuncture d p ys = .ok ((List.range p.length).flatMap (fun k =>
        if p.getD k false then (xs.drop (k * (xs.length / p.length))).take (xs.length / p.length)
        else List.replicate (xs.length / p.length) d)) :=
  Blocks.depuncture_puncture' d p xs ys h ht

/-- puncturing a depunctured word gives the word back -/
theorem puncture_depuncture (d : α) (p : List Bool) (ys zs : List α) (h : depuncture d p ys = .ok zs) :
    puncture p zs = .ok ys ∧ zs.length * numTrues p = ys.length * p.length :=
  Blocks.puncture_depuncture' d p ys zs h

/-- lengths that do not divide give the error value: never a panic, never a truncated result -/
theorem indivisible (d : α) (p : List Bool) (xs : List α) (hp : p ≠ []) :
    (xs.length % p.length ≠ 0 → puncture p xs = .err) ∧
    (numTrues p ≠ 0 → xs.length % numTrues p ≠ 0 → depuncture d p xs = .err) ∧
    (xs.length % p.length = 0 → ∃ ys, puncture p xs = .ok ys) ∧
    (numTrues p ≠ 0 → xs.length % numTrues p = 0 → ∃ ys, depuncture d p xs = .ok ys) :=
  Blocks.indivisible' d p xs hp

/-- non-vacuity: the example of the Rust unit test and a 3-column backward interleaver -/
example : puncture [true, true, false, true, false] [0,1,2,3,4,5,6,7,8,9] = .ok [0,1,2,3,6,7] ∧
    depuncture 0 [true, true, false, true, false] [1,2,3,4,5,6] = .ok [1,2,3,4,0,0,5,6,0,0] ∧
    interleave 3 true [0,1,2,3,4,5] = .ok [4,2,0,5,3,1] ∧
    deinterleave 3 true [4,2,0,5,3,1] = .ok [0,1,2,3,4,5] := by decide

end LdpcV.C15
