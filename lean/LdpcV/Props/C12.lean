/-
C12 — the BER chain hands the decoder correctly ordered, correctly scaled LLRs.
Real-number semantics of the generic chain LdpcV/Model/Chain.lean: puncturing, interleaving, modulation and
their inverses cancel exactly, for EVERY configuration whose block sizes fit.  Uses the theorems of C15
(interleaver / puncturer inverses) and C14 (noiseless hard decisions, σ law).
Helper lemmas: LdpcV/Lemmas/ChainLemmas.lean.
-/
import LdpcV.Lemmas.ChainLemmas
namespace LdpcV.C12
open LdpcV LdpcV.Chain LdpcV.Blocks

/-- the configuration fits a codeword of length `ncw`: the pattern is non-empty, has a true, its length
divides `ncw`; the interleaver columns are positive and divide the transmitted frame size; for 8PSK the
transmitted frame size is a multiple of 3 -/
def Fits (cfg : Config) (ncw : Nat) : Prop :=
  (∀ p, cfg.pattern = some p → p ≠ [] ∧ numTrues p ≠ 0 ∧ ncw % p.length = 0) ∧
  (∀ c bw, cfg.interleave = some (c, bw) → 0 < c ∧ frameSize cfg ncw % c = 0) ∧
  (cfg.psk8 = true → frameSize cfg ncw % 3 = 0)

/-- noise aside, the decoder receives, in codeword bit order: exactly-zero LLRs at the punctured positions and,
everywhere else, an LLR whose sign is the codeword bit (negative for 1, positive for 0); the vector has codeword length -/
theorem noiseless_chain (cfg : Config) (sigma : ℝ) (hs : 0 < sigma) (cw : List Bool) (hf : Fits cfg cw.length) :
    ∃ ys, noiseless Sc.real cfg sigma cw = .ok ys ∧ ys.length = cw.length ∧
      ∀ i, i < cw.length →
        (punctured cfg cw.length i = true → ys.getD i 1 = 0) ∧
        (punctured cfg cw.length i = false →
          ((cw.getD i false = true ↔ ys.getD i 0 < 0) ∧ (cw.getD i false = false ↔ 0 < ys.getD i 0))) := by
  exact Chain.chain_main cfg sigma hs cw hf.1 hf.2.1 hf.2.2

/-- the transmitted frame has `n = n_cw · trues / |pattern|` bits, exactly (rate is counted after puncturing: k / n) -/
theorem frame_sizes (cfg : Config) (ncw : Nat) (hf : Fits cfg ncw) (bits : List Bool) (cw : List Bool) (hl : cw.length = ncw)
    (ht : txBits cfg cw = .ok bits) :
    bits.length = frameSize cfg ncw ∧
    (∀ p, cfg.pattern = some p → frameSize cfg ncw * p.length = ncw * numTrues p) ∧
    (cfg.pattern = none → frameSize cfg ncw = ncw) := by
  subst hl
  refine ⟨Chain.txBits_length cfg cw bits ht, ?_, ?_⟩
  · intro p hp
    exact Chain.frameSize_mul cfg cw.length p hp (hf.1 p hp).2.2
  · intro hn
    simp [frameSize, hn]

/-- block sizes that do not fit make the chain fail visibly (an error or a panic), never a silently truncated frame -/
theorem misfit_fails (cfg : Config) (cw : List Bool) (p : List Bool) (hp : cfg.pattern = some p) (hne : p ≠ [])
    (hd : cw.length % p.length ≠ 0) : txBits cfg cw = .err := by
  have := (C15.indivisible (false) p cw hne).1 hd
  simp [txBits, hp, this, Res.bind]

/-- 8PSK with a transmitted frame whose length is not a multiple of 3 (for any scalar semantics): the modulator's
assertion fires — no LLR vector is produced, in particular none that is one or two LLRs short -/
theorem misfit_psk8_panics {α : Type} (S : Sc α) (cfg : Config) (sigma : α) (cw bits : List Bool) (hp : cfg.psk8 = true)
    (ht : txBits cfg cw = .ok bits) (h3 : bits.length % 3 ≠ 0) : noiseless S cfg sigma cw = .panic :=
  Chain.misfit_psk8 S cfg sigma cw bits hp ht h3

/-- an interleaver whose column count does not divide the frame length: the interleaver's assertion fires -/
theorem misfit_interleaver_panics {α : Type} (S : Sc α) (cfg : Config) (sigma : α) (cw : List Bool) (c : Nat) (bw : Bool)
    (hn : cfg.pattern = none) (hi : cfg.interleave = some (c, bw)) (hc : c = 0 ∨ cw.length % c ≠ 0) :
    noiseless S cfg sigma cw = .panic :=
  Chain.misfit_interleaver S cfg sigma cw c bw hn hi hc

end LdpcV.C12
