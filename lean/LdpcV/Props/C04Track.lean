/-
C04 (last clause) — "each 8-bit rule tracks its real-valued counterpart at 8 units per LLR within accumulated
table rounding".  The exact integer model of the 8-bit rules (LdpcV/Model/ArithI8.lean) against the SAME rule text
of the float arithmetics instantiated at ℝ (LdpcV/Model/ArithF.lean at `Sc.real`) on the inputs divided by 8:
every fold step adds at most the table rounding (1/2 per table lookup, C04Table.table_tracks_real) to the error
carried so far, because the real step is 1-Lipschitz in the accumulator.
Helper lemmas: LdpcV/Lemmas/TrackLemmas.lean.
-/
import LdpcV.Lemmas.TrackLemmas
namespace LdpcV.C04Track
open LdpcV

/-- the real-valued counterpart sees the 8-bit messages at 8 units per LLR -/
noncomputable def scale (msgs : List (Nat × Int)) : List (Nat × ℝ) := msgs.map (fun m => (m.1, (m.2 : ℝ) / 8))

/-- approximate min* fold (one table lookup per step): never panics on i8 inputs other than −128 and stays within
(number of steps)/2 units of 8 × the real fold -/
theorem approx_fold_tracks (xs : List Int) (hx : ∀ x ∈ xs, -127 ≤ x ∧ x ≤ 127) (hne : xs ≠ []) :
    ∃ z r, I8.foldAbs I8.stepApprox xs none = some (some z) ∧
      ArithF.foldAbs Sc.real (ArithF.stepApprox Sc.real) (xs.map (fun x => (x : ℝ) / 8)) none = some r ∧
      |(z : ℝ) - 8 * r| ≤ ((xs.length - 1 : Nat) : ℝ) / 2 := by
  rw [TrackL.bridge]
  exact TrackL.approx_fold xs hx hne

/-- exact-form min* fold (two table lookups per step): within (number of steps) units of 8 × the real fold,
which by C04Real.fold_full_exact is the box-plus -/
theorem full_fold_tracks (xs : List Int) (hx : ∀ x ∈ xs, -127 ≤ x ∧ x ≤ 127) (hne : xs ≠ []) :
    ∃ z r, I8.foldAbs I8.stepFull xs none = some (some z) ∧
      ArithF.foldAbs Sc.real (ArithF.stepFull Sc.real) (xs.map (fun x => (x : ℝ) / 8)) none = some r ∧
      |(z : ℝ) - 8 * r| ≤ ((xs.length - 1 : Nat) : ℝ) := by
  rw [TrackL.bridge]
  exact TrackL.full_fold xs hx hne

/-- the whole 8-bit approximate-min* check rule (variants without partial hard limiting) against the real rule
`impl_minstarapproxf!` on the scaled inputs: same destinations in the same order, every value within (d−2)/2 units -/
theorem approx_rule_tracks (cfg : I8.Cfg) (hc : cfg.hardLimit = false) (msgs : List (Nat × Int))
    (hn : (msgs.map Prod.fst).Nodup) (hr : ∀ m ∈ msgs, -127 ≤ m.2 ∧ m.2 ≤ 127) (hd : 2 ≤ msgs.length) :
    ∃ out outR, I8.checkApprox cfg msgs = some out ∧ ArithF.checkApprox Sc.real (scale msgs) = some outR ∧
      out.map Prod.fst = outR.map Prod.fst ∧
      ∀ i, i < out.length →
        |((out.getD i (0, 0)).2 : ℝ) - 8 * (outR.getD i (0, 0)).2| ≤ ((msgs.length - 2 : Nat) : ℝ) / 2 := by
  obtain ⟨out, outR, h1, h2, h3, h4⟩ := TrackL.approx_rule cfg msgs hn hr hd
  exact ⟨out, outR, h1, h2, h3, fun i hi => h4 i hi (Or.inl hc)⟩

/-- the whole 8-bit A-Min* check rule (variants without partial hard limiting) against the real rule
`impl_aminstarf!` on the scaled inputs: same destinations in the same order (least reliable first), every value
within (d−1) units (d−2 fold steps plus the final step towards the others, two table lookups each… one unit per step) -/
theorem amin_rule_tracks (cfg : I8.Cfg) (hc : cfg.hardLimit = false) (msgs : List (Nat × Int))
    (hn : (msgs.map Prod.fst).Nodup) (hr : ∀ m ∈ msgs, -127 ≤ m.2 ∧ m.2 ≤ 127) (hd : 2 ≤ msgs.length) :
    ∃ out outR, I8.checkAmin cfg msgs = some out ∧ ArithF.checkAmin Sc.real (scale msgs) = some outR ∧
      out.map Prod.fst = outR.map Prod.fst ∧
      ∀ i, i < out.length →
        |((out.getD i (0, 0)).2 : ℝ) - 8 * (outR.getD i (0, 0)).2| ≤ ((msgs.length - 1 : Nat) : ℝ) := by
  have _ := hn
  exact TrackL.amin_rule cfg hc msgs hr hd

/-- with partial hard limiting the same bounds hold for every emitted value of magnitude below 100 (values of at
least 100 are promoted to ±127, the documented exception) -/
theorem approx_rule_tracks_hl (cfg : I8.Cfg) (msgs : List (Nat × Int))
    (hn : (msgs.map Prod.fst).Nodup) (hr : ∀ m ∈ msgs, -127 ≤ m.2 ∧ m.2 ≤ 127) (hd : 2 ≤ msgs.length) :
    ∃ out outR, I8.checkApprox cfg msgs = some out ∧ ArithF.checkApprox Sc.real (scale msgs) = some outR ∧
      out.map Prod.fst = outR.map Prod.fst ∧
      ∀ i, i < out.length → (out.getD i (0, 0)).2.natAbs < 100 →
        |((out.getD i (0, 0)).2 : ℝ) - 8 * (outR.getD i (0, 0)).2| ≤ ((msgs.length - 2 : Nat) : ℝ) / 2 := by
  obtain ⟨out, outR, h1, h2, h3, h4⟩ := TrackL.approx_rule cfg msgs hn hr hd
  exact ⟨out, outR, h1, h2, h3, fun i hi hlt => h4 i hi (Or.inr hlt)⟩

/-- A-Min* with partial hard limiting: the same bound for every emitted value of magnitude below 100, and a value that
was promoted (magnitude ≥ 100, emitted as ±127) has a real counterpart of magnitude at least 100 − (d−1): promotion
never happens to a value whose real counterpart is clearly below 100 -/
theorem amin_rule_tracks_hl (cfg : I8.Cfg) (msgs : List (Nat × Int))
    (hn : (msgs.map Prod.fst).Nodup) (hr : ∀ m ∈ msgs, -127 ≤ m.2 ∧ m.2 ≤ 127) (hd : 2 ≤ msgs.length) :
    ∃ out outR, I8.checkAmin cfg msgs = some out ∧ ArithF.checkAmin Sc.real (scale msgs) = some outR ∧
      out.map Prod.fst = outR.map Prod.fst ∧
      ∀ i, i < out.length →
        ((out.getD i (0, 0)).2.natAbs < 100 →
          |((out.getD i (0, 0)).2 : ℝ) - 8 * (outR.getD i (0, 0)).2| ≤ ((msgs.length - 1 : Nat) : ℝ)) ∧
        (100 ≤ (out.getD i (0, 0)).2.natAbs →
          (100 : ℝ) - ((msgs.length - 1 : Nat) : ℝ) ≤ |8 * (outR.getD i (0, 0)).2|) := by
  have _ := hn
  exact TrackL.amin_rule_hl cfg msgs hr hd

/-- the promotion clause for the approximate rule: a promoted value (magnitude ≥ 100) has a real counterpart of
magnitude at least 100 − (d−2)/2 -/
theorem approx_rule_promotion (cfg : I8.Cfg) (msgs : List (Nat × Int))
    (hn : (msgs.map Prod.fst).Nodup) (hr : ∀ m ∈ msgs, -127 ≤ m.2 ∧ m.2 ≤ 127) (hd : 2 ≤ msgs.length) :
    ∃ out outR, I8.checkApprox cfg msgs = some out ∧ ArithF.checkApprox Sc.real (scale msgs) = some outR ∧
      out.map Prod.fst = outR.map Prod.fst ∧
      ∀ i, i < out.length → 100 ≤ (out.getD i (0, 0)).2.natAbs →
        (100 : ℝ) - ((msgs.length - 2 : Nat) : ℝ) / 2 ≤ |8 * (outR.getD i (0, 0)).2| := by
  obtain ⟨out, outR, h1, h2, h3, h4⟩ := TrackL.approx_rule_hl cfg msgs hn hr hd
  exact ⟨out, outR, h1, h2, h3, fun i hi => (h4 i hi).2⟩

/-- non-vacuity: a concrete degree-4 check -/
example : I8.checkApprox ⟨false, false, false⟩ [(0, 20), (1, -13), (2, 40), (3, 9)] =
    some [(0, -5), (1, 7), (2, -4), (3, -10)] := by
  decide

end LdpcV.C04Track
