/-
C04 under ROUNDING — "… (up to rounding)", "… within floating-point tolerance".
The same generic formula text (`Model/ArithF.lean`, `Model/Modulation.lean`) evaluated in the STANDARD MODEL OF
FLOATING-POINT ARITHMETIC (`Sc.rounded M`, LdpcV/Lemmas/RoundScalar.lean): every `+ - * /` and every literal returns
the exact result times (1+δ), |δ| ≤ u; `exp`, `ln_1p` return the exact value times (1+δ), |δ| ≤ e; negation, |·|, max,
min and comparisons are exact.  `M : FpModel` is universally quantified — the statements hold for every rounding
function with these properties (IEEE-754 binary64: u = 2⁻⁵³, binary32: u = 2⁻²⁴, away from overflow and underflow; the
accuracy e of the mathematical library is a parameter).  Not covered: overflow, subnormal underflow, NaN.
Helper lemmas: LdpcV/Lemmas/RoundLemmas.lean.   b = 1/(1−u),  γ_k = k·u/(1−k·u).
-/
import LdpcV.Lemmas.RoundPhi
namespace LdpcV.C04Round
open LdpcV LdpcV.ArithF LdpcV.Modulation LdpcV.Round

/-- C04: one floating-point step of the approximate min* (`max(min(x,y) − ln_1p(exp(−|x−y|)), 0)`) is non-negative,
at most b·min(x,y) ("never exceeds the smallest magnitude, up to rounding") and within
η(min(x,y)) = (1+u)(3e + u·b) + u·(min(x,y)+1) of the real step -/
theorem approx_step_rounded (M : FpModel) (x y : ℝ) (hx : 0 ≤ x) (hy : 0 ≤ y) :
    0 ≤ stepApprox (Sc.rounded M) x y ∧ stepApprox (Sc.rounded M) x y ≤ b M * min x y ∧
    |stepApprox (Sc.rounded M) x y - stepApprox Sc.real x y| ≤ eta M (min x y) :=
  stepApprox_err M x y hx hy

/-- C04: the whole floating-point approximate-min* check rule (`impl_minstarapproxf!`) against the same rule at ℝ, for
every degree d ≥ 2 and messages of magnitude at most B: it never panics, emits exactly one message per neighbour in
the same order, every value is within (d−2)·η(B) of the real rule's value (which by C04Real.fold_approx_bounds lies
between box-plus − (d−2)·ln 2 and box-plus), its magnitude is at most b^(d−2) times the smallest OTHER magnitude, and
whenever it is non-zero its sign is exactly the product of the other neighbours' signs -/
theorem approx_rule_rounded (M : FpModel) (B : ℝ) (msgs : List (Nat × ℝ)) (hn : (msgs.map Prod.fst).Nodup)
    (hB : ∀ m ∈ msgs, |m.2| ≤ B) (hd : 2 ≤ msgs.length) :
    ∃ out outR, checkApprox (Sc.rounded M) msgs = some out ∧ checkApprox Sc.real msgs = some outR ∧
      out.map Prod.fst = msgs.map Prod.fst ∧ outR.map Prod.fst = msgs.map Prod.fst ∧
      ∀ i, i < out.length →
        |(out.getD i (0, 0)).2 - (outR.getD i (0, 0)).2| ≤ ((msgs.length - 2 : ℕ) : ℝ) * eta M B ∧
        (∀ m ∈ msgs, m.1 ≠ (out.getD i (0, 0)).1 → |(out.getD i (0, 0)).2| ≤ (b M) ^ (msgs.length - 2) * |m.2|) ∧
        ((out.getD i (0, 0)).2 < 0 →
          signParity Sc.real ((msgs.filter (fun m => m.1 != (out.getD i (0, 0)).1)).map (·.2)) = true) ∧
        (0 < (out.getD i (0, 0)).2 →
          signParity Sc.real ((msgs.filter (fun m => m.1 != (out.getD i (0, 0)).1)).map (·.2)) = false) :=
  approx_rule M B msgs hn hB hd

/-- C04: one floating-point step of the exact-form min* (`min(x,y) − ln_1p(exp(−|x−y|)) + ln_1p(exp(−(x+y)))`, the step of A-Min*)
is within η_F(m) of the real step (which is the box-plus, C04Real.minstar_exact) whenever x + y ≥ −1 and |min(x,y)| ≤ m — the rounded
accumulator may be slightly negative, the real one never is -/
theorem full_step_rounded (M : FpModel) (x y m : ℝ) (hxy : -1 ≤ x + y) (hm : |min x y| ≤ m) :
    |stepFull (Sc.rounded M) x y - stepFull Sc.real x y| ≤ etaF M m :=
  stepFull_err M x y m hxy hm

/-- C04: the whole floating-point A-Min* check rule (`impl_aminstarf!`) against the same rule at ℝ (whose messages are exact
box-plus values, C04Real.fold_full_exact), for every degree d ≥ 2 and messages of magnitude at most B, as long as the accumulated
bound (d−1)·η_F(B+1) is at most 1: it selects the same least reliable neighbour (comparisons are exact), never panics, emits the
same destinations in the same order, and every value is within (d−1)·η_F(B+1) of the real rule's value -/
theorem amin_rule_rounded (M : FpModel) (B : ℝ) (msgs : List (Nat × ℝ)) (hB : ∀ m ∈ msgs, |m.2| ≤ B) (hd : 2 ≤ msgs.length)
    (hsmall : ((msgs.length - 1 : ℕ) : ℝ) * etaF M (B + 1) ≤ 1) :
    ∃ out outR, checkAmin (Sc.rounded M) msgs = some out ∧ checkAmin Sc.real msgs = some outR ∧
      out.map Prod.fst = outR.map Prod.fst ∧
      ∀ i, i < out.length →
        |(out.getD i (0, 0)).2 - (outR.getD i (0, 0)).2| ≤ ((msgs.length - 1 : ℕ) : ℝ) * etaF M (B + 1) :=
  amin_rule M B msgs hB hd hsmall

/-- C04: the floating-point tanh rule (`impl_tanhf!`: tanh of the clamped half-messages, rounded left-to-right product of the
others, `2·atanh`) in the TANH DOMAIN — the domain in which "agrees with 2·atanh(Π tanh(x/2))" is meaningful uniformly, since
2·atanh is ill-conditioned near ±1.  For every clamp C ≥ 0 and every degree: exactly one message per neighbour, in order, and
  |tanh(out/2) − Π_{j≠i} tanh(clamp(x_j/2))| ≤ 4ζ + pErr(d−1),
where ζ = (1+e)b² − 1 (the relative perturbation of the argument of the last tanh; a factor G perturbs tanh by at most 4|G−1|
however large the argument, `tanh_scale`), ε_t = e + (b²−1)·C (one rounded factor, `tF_err`; tanh is 1-Lipschitz, `tanh_lip`) and
pErr 0 = u, pErr (k+1) = pErr k·(1+e)(1+u) + ε_t + u(1+e) (the rounded product).  Hypothesis `hlt`: the ROUNDED product of the
other factors stays below 1 in magnitude — in the abstract model a product of values < 1 may round up to 1 (IEEE rounding is
monotone, the standard model is not), and `atanh 1` is not a number; the hypothesis is decidable on every concrete input -/
theorem tanh_rule_rounded (M : FpModel) (C : ℝ) (hC : 0 ≤ C) (hz : zeta M ≤ 1 / 2) (msgs : List (Nat × ℝ))
    (hlt : ∀ ex ∈ msgs, |prod (Sc.rounded M) ((msgs.filter (fun q => q.1 != ex.1)).map (fun q => tF M C q.2))| < 1) :
    (checkTanh (Sc.rounded M) C msgs).map Prod.fst = msgs.map Prod.fst ∧
    ∀ o ∈ checkTanh (Sc.rounded M) C msgs,
      |Real.tanh (o.2 / 2) - prod Sc.real ((msgs.filter (fun q => q.1 != o.1)).map (fun q => tR C q.2))| ≤
        4 * zeta M + pErr M (epsT M C) ((msgs.filter (fun q => q.1 != o.1)).length) :=
  tanh_rule_err M C hC hz msgs hlt

/-- C04: the floating-point `phi` (`−ln(tanh(max(x, 1e-30)/2))`) against the exact one, for arguments at least twice the guard:
absolute error at most α(phi x) = (1+e)·κ + e·phi(x), κ = 2ub + 2e  (scaling the argument of log∘tanh by a factor in [(1−u)², b²] moves it
by at most −log(1−u)² — tanh is concave on [0, ∞), `tanh_mul_ge` — plus the relative errors of `tanh` and `ln`) -/
theorem phi_fn_rounded (M : FpModel) (he : M.e ≤ 1 / 2) (x : ℝ) (hx : 2 * gPhi ≤ x) :
    |phi (Sc.rounded M) x - phi Sc.real x| ≤ alphaPhi M (phi Sc.real x) ∧ 0 ≤ phi Sc.real x :=
  phiF_err M he x hx

/-- C04: the whole floating-point phi rule (`impl_phif!`: phi of every magnitude, rounded left-to-right total, `total − own`, phi again,
sign by parity) in the tanh domain, for every degree d and inputs of magnitude ≥ 2·10⁻³⁰ whose exact partial sums stay 2·10⁻³⁰ + esPhi(d)
above 0 (the guard is then inactive on both sides): exactly one message per neighbour, in order, and for the message answering x_i
  | |tanh(out/2)| − exp(−Σ_{j≠i} phi(|x_j|)) | ≤ α(phiMax)/2 + esPhi(d),
where exp(−phi(|x_j|)) = tanh(|x_j|/2) (C04Real.phi_tanh), so the exponential IS Π_{j≠i} tanh(|x_j|/2);
phiMax = phi(2·10⁻³⁰) ≈ 69.1, etPhi d = (b^d − 1)·d(phiMax + α) + dα (the rounded total), esPhi d = u((d+1)phiMax + etPhi + α) + etPhi + α -/
theorem phi_rule_rounded (M : FpModel) (he : M.e ≤ 1 / 2) (msgs : List (Nat × ℝ)) (hv : ∀ m ∈ msgs, 2 * gPhi ≤ |m.2|)
    (hs : ∀ m ∈ msgs, 2 * gPhi + esPhi M msgs.length ≤
      (msgs.map (fun q => phi Sc.real (|q.2|))).sum - phi Sc.real (|m.2|)) :
    (checkPhi (Sc.rounded M) msgs).map Prod.fst = msgs.map Prod.fst ∧
    ∀ o ∈ checkPhi (Sc.rounded M) msgs, ∃ m ∈ msgs, o.1 = m.1 ∧
      |(|Real.tanh (o.2 / 2)|) - Real.exp (-((msgs.map (fun q => phi Sc.real (|q.2|))).sum - phi Sc.real (|m.2|)))| ≤
        alphaPhi M phiMax / 2 + esPhi M msgs.length :=
  phi_rule_err M he msgs hv hs

/-- the analytic facts behind it: tanh is 1-Lipschitz, and scaling its argument by G (|G−1| ≤ 1/2) moves it by at most 4|G−1| -/
theorem tanh_facts (x y a G : ℝ) (hG : |G - 1| ≤ 1 / 2) :
    |Real.tanh x - Real.tanh y| ≤ |x - y| ∧ |Real.tanh (a * G) - Real.tanh a| ≤ 4 * |G - 1| :=
  ⟨tanh_lip x y, tanh_scale a G hG⟩

/-- the per-step bounds in closed form, for u ≤ 1/64: η(m) ≤ 5(u+e)(m+1) (approximate step), η_F(m) ≤ 32(u+e)(m+1) (exact-form step) -/
theorem step_bounds_linear (M : FpModel) (hu : M.u ≤ 1 / 64) (m : ℝ) (hm : 0 ≤ m) :
    eta M m ≤ 5 * (M.u + M.e) * (m + 1) ∧ etaF M m ≤ 32 * (M.u + M.e) * (m + 1) :=
  ⟨eta_linear M hu m hm, etaF_linear M hu m hm⟩

/-- non-vacuity: exact arithmetic (u = e = 0, `fl = id`) is a floating-point model, so the hypotheses are satisfiable;
in it b = 1, η = 0 and the rounded rule IS the real rule -/
example : eta FpModel.exact 5 = 0 := by
  unfold eta FpModel.exact b; simp

/-- … in exact arithmetic ζ = 0, ε_t = 0 and pErr k = 0: the rounded tanh rule is the real one -/
example (C : ℝ) (k : ℕ) : zeta FpModel.exact = 0 ∧ epsT FpModel.exact C = 0 ∧ pErr FpModel.exact 0 k = 0 := by
  have hu : FpModel.exact.u = 0 := rfl
  have he : FpModel.exact.e = 0 := rfl
  refine ⟨by unfold zeta b FpModel.exact; simp, by unfold epsT b FpModel.exact; simp, ?_⟩
  induction k with
  | zero => simp only [pErr]; exact hu
  | succ k ih => simp only [pErr, ih, hu, he]; norm_num

/-- … and α = 0, esPhi d = 0 in exact arithmetic: the rounded phi rule is the real one -/
example (P : ℝ) (d : ℕ) : alphaPhi FpModel.exact P = 0 ∧ esPhi FpModel.exact d = 0 := by
  have h1 : ∀ P, alphaPhi FpModel.exact P = 0 := by
    intro P; unfold alphaPhi kappaPhi b FpModel.exact; simp
  refine ⟨h1 P, ?_⟩
  have hb : b FpModel.exact = 1 := by unfold b FpModel.exact; simp
  have hu : FpModel.exact.u = 0 := rfl
  unfold esPhi etPhi
  rw [h1, hb, hu]; simp

/-- … and the smallness hypothesis of `amin_rule_rounded` holds there for every degree -/
example (d : ℕ) (B : ℝ) : (d : ℝ) * etaF FpModel.exact (B + 1) ≤ 1 := by
  unfold etaF c1 c2 b FpModel.exact; simp

end LdpcV.C04Round
