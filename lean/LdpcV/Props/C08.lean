/-
C08 — alist text and matrices round-trip losslessly and the parser is total.
Model: LdpcV/Model/Alist.lean (token layer `writeLines` / `parseLines`, text layer `render` / `lexLine` /
`splitNL`).  Helper lemmas: LdpcV/Lemmas/AlistLemmas.lean.
-/
import LdpcV.Lemmas.AlistLemmas
namespace LdpcV.C08
open LdpcV LdpcV.Alist

/-- token-level round trip, padded and unpadded, for EVERY matrix (including empty rows/columns and the
all-zero matrix): same dimensions, same set of ones -/
theorem roundtrip_tokens (h : SM) (hinv : h.Inv) (padded : Bool) :
    ∃ h', parseLines ((writeLines h padded).map (fun l => l.map some)) = .ok h' ∧
      h'.nrows = h.nrows ∧ h'.ncols = h.ncols ∧ ∀ r c, h'.mem r c = h.mem r c := by
  exact parseLines_writeLines h hinv padded

/-- the parser never panics, on ANY token stream (in particular: out-of-range indices are errors) -/
theorem parse_total (lines : List (List (Option Nat))) : parseLines lines ≠ .panic := by
  exact parseLines_ne_panic lines

/-- whatever the parser accepts is a well-formed matrix of the declared dimensions -/
theorem parse_wellformed (lines : List (List (Option Nat))) (h : SM) (hp : parseLines lines = .ok h) :
    h.Inv ∧ ∃ nc nr rest, lines.head? = some (some nc :: some nr :: rest) ∧ h.ncols = nc ∧ h.nrows = nr := by
  exact parseLines_ok_spec lines h hp

/-- the parser reads only the column section and ignores padding zeros: padded and unpadded forms of
the same matrix parse to the same set of ones -/
theorem parse_accepts_both (h : SM) (hinv : h.Inv) :
    ∃ hp hu, parseLines ((writeLines h true).map (fun l => l.map some)) = .ok hp ∧
      parseLines ((writeLines h false).map (fun l => l.map some)) = .ok hu ∧ ∀ r c, hp.mem r c = hu.mem r c := by
  obtain ⟨hp, e1, _, _, m1⟩ := parseLines_writeLines h hinv true
  obtain ⟨hu, e2, _, _, m2⟩ := parseLines_writeLines h hinv false
  exact ⟨hp, hu, e1, e2, fun r c => by rw [m1, m2]⟩

/-- format: header `[ncols, nrows]`, maximum-weight line, the two weight lines, then one line per column
and per row; every index list is strictly increasing, 1-based, lists exactly the ones of that
column / row, and zeros occur only as trailing padding -/
theorem format_shape (h : SM) (hinv : h.Inv) (padded : Bool) :
    (writeLines h padded).length = 4 + h.ncols + h.nrows ∧
    (writeLines h padded).take 4 = [[h.ncols, h.nrows], [maxLen h.cols, maxLen h.rows],
        h.cols.map List.length, h.rows.map List.length] ∧
    (∀ c, c < h.ncols → ∃ k, (writeLines h padded).getD (4 + c) [] =
        (sortNat (h.col c)).map (· + 1) ++ List.replicate k 0 ∧ (padded = false → k = 0) ∧
        ((sortNat (h.col c)).Pairwise (· < ·)) ∧ ∀ r, r ∈ sortNat (h.col c) ↔ h.mem r c = true) ∧
    (∀ r, r < h.nrows → ∃ k, (writeLines h padded).getD (4 + h.ncols + r) [] =
        (sortNat (h.row r)).map (· + 1) ++ List.replicate k 0 ∧ (padded = false → k = 0) ∧
        ((sortNat (h.row r)).Pairwise (· < ·)) ∧ ∀ c, c ∈ sortNat (h.row r) ↔ h.mem r c = true) := by
  exact ⟨writeLines_length h padded, writeLines_take4 h padded,
    fun c hc => col_line_shape h hinv padded c hc, fun r hr => row_line_shape h hinv padded r hr⟩

/-- text layer: lexing a rendered line gives its numbers back (decimal print/parse round trip,
numbers below 2^64), and splitting the rendered text at '\n' gives the lines back -/
theorem lex_render (lines : List (List Nat)) (hb : ∀ l ∈ lines, ∀ x ∈ l, x < 2^64) :
    (splitNL (render lines)).map lexLine = lines.map (fun l => l.map some) ++ [[]] := by
  exact Alist.lex_render lines hb

/-- string-level round trip: `from_alist(alist(h))` has the same dimensions and the same ones
(dimensions and indices below 2^64) -/
theorem roundtrip_text (h : SM) (hinv : h.Inv) (padded : Bool) (hs : h.nrows < 2^64 - 1 ∧ h.ncols < 2^64 - 1) :
    ∃ h', fromAlist (alist h padded) = .ok h' ∧
      h'.nrows = h.nrows ∧ h'.ncols = h.ncols ∧ ∀ r c, h'.mem r c = h.mem r c := by
  rw [fromAlist_alist h hinv padded hs]
  exact parseLines_writeLines h hinv padded

/-- non-vacuity: a 2×3 matrix with an empty row, an empty column; the all-zero 2×3 matrix (defect D1);
an out-of-range row index is an error (defect D2) -/
example :
    String.ofList (alist ⟨[[2, 0], []], [[0], [], [0]]⟩ true) = "3 2\n1 2\n1 0 1\n2 0\n1\n0\n1\n1 3\n0 0\n" ∧
    String.ofList (alist (SM.new 2 3) true) = "3 2\n0 0\n0 0 0\n0 0\n0\n0\n0\n0\n0\n" ∧
    fromAlist "3 2\n1 1\n1 1 1\n1 1\n1\n2\n3\n1\n2\n".toList = .err ∧
    fromAlist "3 2\n1 2\n1 0 1\n2 0\n1\n0\n1\n1 3\n0 0\n".toList = .ok ⟨[[0, 2], []], [[0], [], [0]]⟩ := by
  decide +kernel

end LdpcV.C08
