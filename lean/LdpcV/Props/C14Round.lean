/-
C14 under ROUNDING — the standard model of floating-point arithmetic (`Sc.rounded M`, LdpcV/Lemmas/RoundScalar.lean):
every `+ - * /` and every literal returns the exact result times (1+δ), |δ| ≤ u; negation, |·|, max, min and
comparisons are exact.  `M : FpModel` is universally quantified (IEEE-754 binary64: u = 2⁻⁵³, binary32: u = 2⁻²⁴, away
from overflow and underflow).  Not covered: overflow, subnormal underflow, NaN.   b = 1/(1−u),  γ_k = k·u/(1−k·u).
Helper lemmas: LdpcV/Lemmas/RoundLemmas.lean.
-/
import LdpcV.Lemmas.RoundLemmas
namespace LdpcV.C14Round
open LdpcV LdpcV.ArithF LdpcV.Modulation LdpcV.Round

/-- C14: the BPSK demodulator's floating-point LLR is the exact posterior LLR up to four roundings: relative error at
most γ₄ = 4u/(1−4u), and its sign (the hard decision) is exactly the sign of the exact LLR — for every σ and r -/
theorem bpsk_rounded (M : FpModel) (h4 : 4 * M.u < 1) (sigma r : ℝ) :
    |bpskDemod (Sc.rounded M) sigma r - bpskDemod Sc.real sigma r| ≤ gamma M 4 * |bpskDemod Sc.real sigma r| ∧
    (bpskDemod (Sc.rounded M) sigma r < 0 ↔ bpskDemod Sc.real sigma r < 0) ∧
    (bpskDemod (Sc.rounded M) sigma r ≤ 0 ↔ bpskDemod Sc.real sigma r ≤ 0) := by
  have hn := bpsk_near M sigma r
  obtain ⟨s1, s2, s3⟩ := near_sign M hn
  refine ⟨near_err M hn (by exact_mod_cast h4), s1, ?_⟩
  rw [← not_lt, ← not_lt, s2]

/-- non-vacuity: exact arithmetic is a floating-point model with 4u < 1 -/
example : 4 * FpModel.exact.u < 1 := by unfold FpModel.exact; norm_num

end LdpcV.C14Round
