/-
C14 under ROUNDING — the standard model of floating-point arithmetic (`Sc.rounded M`, LdpcV/Lemmas/RoundScalar.lean):
every `+ - * /` and every literal returns the exact result times (1+δ), |δ| ≤ u; negation, |·|, max, min and
comparisons are exact.  `M : FpModel` is universally quantified (IEEE-754 binary64: u = 2⁻⁵³, binary32: u = 2⁻²⁴, away
from overflow and underflow).  Not covered: overflow, subnormal underflow, NaN.   b = 1/(1−u),  γ_k = k·u/(1−k·u).
Helper lemmas: LdpcV/Lemmas/RoundLemmas.lean.
-/
import LdpcV.Lemmas.RoundPsk
namespace LdpcV.C14Round
open LdpcV LdpcV.ArithF LdpcV.Modulation LdpcV.Round

/-- C14: the BPSK demodulator's floating-point LLR is the exact posterior LLR up to four roundings: relative error at
most γ₄ = 4u/(1−4u), and its sign (the hard decision) is exactly the sign of the exact LLR — for every σ and r -/
theorem bpsk_rounded (M : FpModel) (h4 : 4 * M.u < 1) (sigma r : ℝ) :
    |bpskDemod (Sc.rounded M) sigma r - bpskDemod Sc.real sigma r| ≤ gamma M 4 * |bpskDemod Sc.real sigma r| ∧
    (bpskDemod (Sc.rounded M) sigma r < 0 ↔ bpskDemod Sc.real sigma r < 0) ∧
    (bpskDemod (Sc.rounded M) sigma r ≤ 0 ↔ bpskDemod Sc.real sigma r ≤ 0) := by
  have hn := bpsk_near M sigma r
  obtain ⟨s1, s2, s3⟩ := near_sign M hn
  refine ⟨near_err M hn (by exact_mod_cast h4), s1, ?_⟩
  rw [← not_lt, ← not_lt, s2]

/-- C14: the 8PSK demodulator under rounding (additionally: `exp` and `ln_1p` with relative accuracy e).  With
D = (|re| + |im|)/σ² (a bound on the eight correlations), each of the three floating-point LLRs is within
`llrErr M ((b⁸−1)·D) D` of the exact posterior log-ratio (C14.psk8_llr), where
  c₁ = 3e + u·b,  stepE E K = E + c₁ + u·(K + 1 + E + c₁)   (one rounded max*, inputs within E, magnitudes ≤ K),
  E₁ = stepE E₀ D,  E₂ = stepE E₁ (D+1),  E₃ = stepE E₂ (D+2),  llrErr = 2·E₃·(1+u) + 2u·(D+3)
— to first order (24·D + 24)·u + 18·e: an ABSOLUTE error that grows with the size of the correlations, which is why
a relative tolerance cannot be right for extreme |r|/σ² -/
theorem psk8_rounded (M : FpModel) (sigma : ℝ) (r : ℝ × ℝ) :
    let D := dBound sigma r
    let E0 := ((b M) ^ 8 - 1) * D
    |(psk8Demod (Sc.rounded M) sigma r).1 - (psk8Demod Sc.real sigma r).1| ≤ llrErr M E0 D ∧
    |(psk8Demod (Sc.rounded M) sigma r).2.1 - (psk8Demod Sc.real sigma r).2.1| ≤ llrErr M E0 D ∧
    |(psk8Demod (Sc.rounded M) sigma r).2.2 - (psk8Demod Sc.real sigma r).2.2| ≤ llrErr M E0 D :=
  psk8_err M sigma r

/-- … in closed form: for u ≤ 1/64 each 8PSK LLR is within 47·(u + e)·(D + 1) of the exact posterior log-ratio -/
theorem psk8_rounded_linear (M : FpModel) (hu : M.u ≤ 1 / 64) (sigma : ℝ) (r : ℝ × ℝ) :
    let D := dBound sigma r
    |(psk8Demod (Sc.rounded M) sigma r).1 - (psk8Demod Sc.real sigma r).1| ≤ 47 * (M.u + M.e) * (D + 1) ∧
    |(psk8Demod (Sc.rounded M) sigma r).2.1 - (psk8Demod Sc.real sigma r).2.1| ≤ 47 * (M.u + M.e) * (D + 1) ∧
    |(psk8Demod (Sc.rounded M) sigma r).2.2 - (psk8Demod Sc.real sigma r).2.2| ≤ 47 * (M.u + M.e) * (D + 1) := by
  intro D
  obtain ⟨h1, h2, h3⟩ := psk8_err M sigma r
  have hl := llrErr_linear M hu D (dBound_nonneg sigma r)
  exact ⟨le_trans h1 hl, le_trans h2 hl, le_trans h3 hl⟩

/-- D is (|re| + |im|)/σ² -/
theorem dBound_eq (sigma : ℝ) (r : ℝ × ℝ) : dBound sigma r = (|r.1| + |r.2|) / (sigma * sigma) := by
  unfold dBound symR
  simp only [Int.cast_one, Nat.cast_one, div_one, abs_mul, abs_div, abs_one]
  rw [abs_mul_abs_self]
  ring

/-- non-vacuity: in exact arithmetic the 8PSK error bound is 0 -/
example (D : ℝ) : llrErr FpModel.exact (((b FpModel.exact) ^ 8 - 1) * D) D = 0 := by
  unfold llrErr E3 E2 E1 stepE c1 b FpModel.exact; simp

/-- non-vacuity: exact arithmetic is a floating-point model with 4u < 1 -/
example : 4 * FpModel.exact.u < 1 := by unfold FpModel.exact; norm_num

end LdpcV.C14Round
