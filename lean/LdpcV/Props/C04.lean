/-
C04 (8-bit part) — every 8-bit check-node rule is a faithful approximate box-plus:
exactly one message per neighbour, sign = product of the other signs, magnitude never above the
smallest other magnitude (except the documented partial hard-limiting), never outside [-127,127],
never below the smallest other magnitude minus 6 units per fold step.
All degrees ≥ 2, all message vectors with values in [-127,127], all 16 variants (`cfg`).
The real-semantics part (phi / tanh / min* identities over ℝ) is in LdpcV/Props/C04Real.lean.
Helper lemmas: LdpcV/Lemmas/I8Check.lean.
-/
import LdpcV.Lemmas.I8Check
namespace LdpcV.C04
open LdpcV LdpcV.I8

/-- the correction table is non-increasing, positive, starts at 6 = round(8 ln 2) and has 22 entries -/
theorem table_facts : table.length = 22 ∧ table.head? = some 6 ∧ (∀ x ∈ table, 1 ≤ x ∧ x ≤ 6) ∧
    table.Pairwise (fun a b => b ≤ a) := by
  decide

/-- min*-approx rule: total on degree ≥ 2, one message per neighbour in the same order -/
theorem approx_emits (cfg : Cfg) (msgs : List (Nat × Int)) (hb : Bounded msgs) (hd : 2 ≤ msgs.length)
    (hn : (msgs.map Prod.fst).Nodup) :
    ∃ out, checkApprox cfg msgs = some out ∧ out.map Prod.fst = msgs.map Prod.fst := by
  obtain ⟨out, h1, h2, _⟩ := checkApprox_spec cfg msgs hb hd hn
  exact ⟨out, h1, h2⟩

/-- A-Min* rule: total on degree ≥ 2, one message per neighbour (the least reliable one first) -/
theorem amin_emits (cfg : Cfg) (msgs : List (Nat × Int)) (hb : Bounded msgs) (hd : 2 ≤ msgs.length)
    (hn : (msgs.map Prod.fst).Nodup) :
    ∃ out, checkAmin cfg msgs = some out ∧ (out.map Prod.fst).Perm (msgs.map Prod.fst) := by
  obtain ⟨out, h1, h2, _⟩ := checkAmin_spec cfg msgs hb hd hn
  exact ⟨out, h1, h2⟩

/-- both rules, every emitted message `(d, v)`: range, sign rule, magnitude bound (with the
documented promotion of magnitudes ≥ 100 to 127 under partial hard-limiting) -/
theorem message_facts (amin : Bool) (cfg : Cfg) (msgs out : List (Nat × Int)) (hb : Bounded msgs)
    (hd : 2 ≤ msgs.length) (hn : (msgs.map Prod.fst).Nodup)
    (ho : (if amin then checkAmin cfg msgs else checkApprox cfg msgs) = some out) :
    ∀ m ∈ out,
      (-127 ≤ m.2 ∧ m.2 ≤ 127) ∧
      (m.2 ≠ 0 → (m.2 < 0 ↔ signParity (othersOf msgs m.1) = true)) ∧
      (cfg.hardLimit = false → LeAllAbs m.2 (othersOf msgs m.1)) ∧
      (cfg.hardLimit = true → m.2.natAbs < 100 → LeAllAbs m.2 (othersOf msgs m.1)) ∧
      (cfg.hardLimit = true → 100 ≤ m.2.natAbs → m.2.natAbs = 127 ∧ ∀ y ∈ othersOf msgs m.1, 100 ≤ y.natAbs) := by
  obtain ⟨out', h1, h2⟩ := rule_spec amin cfg msgs hb hd hn
  rw [ho] at h1
  cases h1
  exact fun m hm => (h2 m hm).facts

/-- integer shadow of "between exact − (d−2)·ln 2 and exact": without hard-limiting every fold step
loses at most `table[0] = 6` units, so the magnitude is at least (smallest other magnitude) − 6·(d−1),
floored at 0 (d−2 steps for the approximate rule and for A-Min* towards the least reliable input,
d−1 for A-Min* towards the others) -/
theorem lower_bound (amin : Bool) (cfg : Cfg) (msgs out : List (Nat × Int)) (hb : Bounded msgs)
    (hd : 2 ≤ msgs.length) (hn : (msgs.map Prod.fst).Nodup) (hl : cfg.hardLimit = false)
    (ho : (if amin then checkAmin cfg msgs else checkApprox cfg msgs) = some out) :
    ∀ m ∈ out, ∀ lo : Int, (∀ y ∈ msgs.map Prod.snd, lo ≤ y.natAbs) →
      lo - 6 * ((msgs.length : Int) - 1) ≤ m.2.natAbs := by
  obtain ⟨out', h1, h2⟩ := rule_spec amin cfg msgs hb hd hn
  rw [ho] at h1
  cases h1
  exact fun m hm lo hall => (h2 m hm).lower hl lo hall

/-- A-Min*: every neighbour other than the least reliable one receives the same magnitude -/
theorem amin_others_equal (cfg : Cfg) (msgs out : List (Nat × Int)) (hb : Bounded msgs)
    (hd : 2 ≤ msgs.length) (ho : checkAmin cfg msgs = some out) :
    ∀ a ∈ out.tail, ∀ b ∈ out.tail, a.2.natAbs = b.2.natAbs := by
  obtain ⟨d, h⟩ := amin_tail_equal cfg msgs out hb hd ho
  exact fun a ha b hb' => (h a ha).trans (h b hb').symm

/-- non-vacuity -/
example : checkApprox ⟨false, false, false⟩ [(0, 10), (3, -20), (5, 7)] = some [(0, -6), (3, 3), (5, -8)] ∧
    checkAmin ⟨false, true, false⟩ [(0, 10), (3, -20), (5, 7), (6, -127)] = some [(5, 8), (0, 3), (3, -3), (6, -3)] := by
  decide

end LdpcV.C04
