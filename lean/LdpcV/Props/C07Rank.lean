/-
C07 (rank uniqueness) — `rankBits` computes THE GF(2) rank: the size of its echelon basis is the dimension of the row
space, i.e. (a) the basis vectors are linearly independent, (b) every input row is a GF(2) combination (xor of a
sub-family) of basis vectors, and hence (c) any linearly independent sub-family of the rows has at most `rankBits` members
and any family of rows with more than `rankBits` members is dependent.  With C07.c2_facts_native this gives "rank exactly 1020".
Helper lemmas: LdpcV/Lemmas/RankLemmas.lean.
-/
import LdpcV.Lemmas.RankLemmas
namespace LdpcV.C07Rank
open LdpcV LdpcV.Ccsds

/-- xor of the sub-family of `rows` selected by `sel` -/
def comb (rows : List Nat) (sel : List Bool) : Nat :=
  (rows.zip sel).foldl (fun acc p => if p.2 then acc ^^^ p.1 else acc) 0

/-- any sub-family of the rows that is linearly independent has at most `rankBits rows` members -/
theorem indep_le_rank (rows : List Nat) (sub : List Nat) (hs : sub.Sublist rows) (hi : IndepBits sub) :
    sub.length ≤ rankBits rows := by
  rw [← indep_rank_full sub hi]
  exact rankBits_le_of_span sub rows (fun b hb => Span.mem (hs.subset hb))

/-- there IS an independent family of exactly `rankBits rows` vectors in the row space, each a combination of the rows -/
theorem rank_attained (rows : List Nat) :
    ∃ basis : List Nat, basis.length = rankBits rows ∧ IndepBits basis ∧
      (∀ b ∈ basis, ∃ sel, sel.length = rows.length ∧ comb rows sel = b) ∧
      (∀ r ∈ rows, ∃ sel, sel.length = basis.length ∧ comb basis sel = r) := by
  refine ⟨rows.foldl step [], (rankBits_eq rows).symm,
    indepBits_of_good _ (good_foldl_step rows [] good_nil), ?_, ?_⟩
  · intro b hb
    exact sel_of_span rows b (by simpa using foldl_step_mem_span rows [] b hb)
  · intro r hr
    exact sel_of_span _ r (span_foldl_step rows [] r (by simpa using hr))

end LdpcV.C07Rank
