/-
C09 — systematic conversion succeeds iff full rank and only permutes columns.
Model: LdpcV/Model/Linalg.lean (`rowEchelonForm`, `placeColumns`, `paritySystematic`).
Vocabulary: LdpcV/Spec/GF2Spec.lean.  Helper lemmas: LdpcV/Lemmas/EchelonLemmas.lean.
-/
import LdpcV.Lemmas.EchelonLemmas
namespace LdpcV.C09
open LdpcV LdpcV.Lin

/-- never panics for `1 ≤ r ≤ n` (the repaired defect D3), never the overdetermined error -/
theorem no_panic (h : SM) (hinv : h.Inv) (hr : 1 ≤ h.nrows) (hn : h.nrows ≤ h.ncols) :
    paritySystematic h ≠ .panic ∧ paritySystematic h ≠ .overdetermined := by
  rcases e_sys_main h hinv hr hn with ⟨_, he⟩ | ⟨_, g, he, _⟩ <;> rw [he] <;> exact ⟨nofun, nofun⟩

/-- the result only permutes columns: same dimensions, and there is a permutation `σ` of the column
indices with `column σ(c) of the result = column c of the input` (as lists, insertion order included) -/
theorem permutes_columns (h g : SM) (hinv : h.Inv) (hr : 1 ≤ h.nrows) (hn : h.nrows ≤ h.ncols)
    (hg : paritySystematic h = .ok g) :
    g.Inv ∧ g.nrows = h.nrows ∧ g.ncols = h.ncols ∧
    ∃ σ : List Nat, σ.Perm (List.range h.ncols) ∧ ∀ c, c < h.ncols → g.col (σ.getD c 0) = h.col c := by
  rcases e_sys_main h hinv hr hn with ⟨_, he⟩ | ⟨_, g', he, h1, h2, h3, h4, _⟩
  · rw [he] at hg; cases hg
  · rw [he] at hg; cases hg; exact ⟨h1, h2, h3, h4⟩

/-- the last `r` columns of the result are invertible, so the systematic encoder accepts it -/
theorem tail_nonsingular (h g : SM) (hinv : h.Inv) (hr : 1 ≤ h.nrows) (hn : h.nrows ≤ h.ncols)
    (hg : paritySystematic h = .ok g) : Nonsingular (tailMat g) := by
  rcases e_sys_main h hinv hr hn with ⟨_, he⟩ | ⟨_, g', he, _, _, _, _, h5⟩
  · rw [he] at hg; cases hg
  · rw [he] at hg; cases hg; exact h5

/-- the not-full-rank error is returned only for rank-deficient matrices … -/
theorem err_sound (h : SM) (hinv : h.Inv) (hr : 1 ≤ h.nrows) (hn : h.nrows ≤ h.ncols)
    (he : paritySystematic h = .notFullRank) : ¬ RowsIndep (denseOf h) h.ncols := by
  rcases e_sys_main h hinv hr hn with ⟨hd, _⟩ | ⟨_, g, hg, _⟩
  · exact hd
  · rw [hg] at he; cases he

/-- … and for every rank-deficient matrix -/
theorem err_complete (h : SM) (hinv : h.Inv) (hr : 1 ≤ h.nrows) (hn : h.nrows ≤ h.ncols)
    (hd : ¬ RowsIndep (denseOf h) h.ncols) : paritySystematic h = .notFullRank := by
  rcases e_sys_main h hinv hr hn with ⟨_, he⟩ | ⟨hi, _⟩
  · exact he
  · exact absurd hi hd

/-- non-vacuity: the input that used to hit the internal assertion (D3), the Rust unit-test shape, a
rank-deficient matrix -/
example :
    paritySystematic ⟨[[0, 1], [2], [3]], [[0], [0], [1], [2]]⟩ = .ok ⟨[[1, 0], [2], [3]], [[0], [0], [1], [2]]⟩ ∧
    paritySystematic ⟨[[0], [1]], [[0], [1]]⟩ = .ok ⟨[[0], [1]], [[0], [1]]⟩ ∧
    paritySystematic ⟨[[0, 1], [0, 1]], [[0, 1], [0, 1], []]⟩ = .notFullRank := by
  decide +kernel

end LdpcV.C09
