/-
C09 — systematic conversion succeeds iff full rank and only permutes columns.
Model: LdpcV/Model/Linalg.lean (`rowEchelonForm`, `placeColumns`, `paritySystematic`).
Vocabulary: LdpcV/Spec/GF2Spec.lean.  Helper lemmas: LdpcV/Lemmas/EchelonLemmas.lean.
-/
import LdpcV.Lemmas.EchelonLemmas
import LdpcV.Props.C02
import LdpcV.Lemmas.CodePerm
namespace LdpcV.C09
open LdpcV LdpcV.Lin

/-- never panics for `1 ≤ r ≤ n` (the repaired defect D3), never the overdetermined error -/
theorem no_panic (h : SM) (hinv : h.Inv) (hr : 1 ≤ h.nrows) (hn : h.nrows ≤ h.ncols) :
    paritySystematic h ≠ .panic ∧ paritySystematic h ≠ .overdetermined := by
  rcases e_sys_main h hinv hr hn with ⟨_, he⟩ | ⟨_, g, he, _⟩ <;> rw [he] <;> exact ⟨nofun, nofun⟩

/-- the result only permutes columns: same dimensions, and there is a permutation `σ` of the column
indices with `column σ(c) of the result = column c of the input` (as lists, insertion order included) -/
theorem permutes_columns (h g : SM) (hinv : h.Inv) (hr : 1 ≤ h.nrows) (hn : h.nrows ≤ h.ncols)
    (hg : paritySystematic h = .ok g) :
    g.Inv ∧ g.nrows = h.nrows ∧ g.ncols = h.ncols ∧
    ∃ σ : List Nat, σ.Perm (List.range h.ncols) ∧ ∀ c, c < h.ncols → g.col (σ.getD c 0) = h.col c := by
  rcases e_sys_main h hinv hr hn with ⟨_, he⟩ | ⟨_, g', he, h1, h2, h3, h4, _⟩
  · rw [he] at hg; cases hg
  · rw [he] at hg; cases hg; exact ⟨h1, h2, h3, h4⟩

/-- the last `r` columns of the result are invertible, so the systematic encoder accepts it -/
theorem tail_nonsingular (h g : SM) (hinv : h.Inv) (hr : 1 ≤ h.nrows) (hn : h.nrows ≤ h.ncols)
    (hg : paritySystematic h = .ok g) : Nonsingular (tailMat g) := by
  rcases e_sys_main h hinv hr hn with ⟨_, he⟩ | ⟨_, g', he, _, _, _, _, h5⟩
  · rw [he] at hg; cases hg
  · rw [he] at hg; cases hg; exact h5

/-- … and it does: `Encoder::from_h` on the converted matrix returns an encoder (neither the
not-invertible error nor a panic) — C09's tail invertibility composed with C02's "builds iff invertible" -/
theorem encoder_accepts (h g : SM) (hinv : h.Inv) (hr : 1 ≤ h.nrows) (hn : h.nrows ≤ h.ncols)
    (hg : paritySystematic h = .ok g) : ∃ e, fromH g = .ok e := by
  obtain ⟨gi, gr, gc, _⟩ := permutes_columns h g hinv hr hn hg
  have hns := tail_nonsingular h g hinv hr hn hg
  have hr' : 1 ≤ g.nrows := by omega
  have hn' : g.nrows ≤ g.ncols := by omega
  cases hf : fromH g with
  | ok e => exact ⟨e, rfl⟩
  | err => exact absurd hns (C02.fromH_err_singular g gi hr' hn' hf)
  | panic => exact absurd hf (C02.fromH_no_panic g gi hr' hn')

/-- the code is unchanged up to that coordinate permutation: with `σ` as in `permutes_columns` (column `c` of the
input is column `σ c` of the result), a word satisfies every check of the input iff the word with its bits moved
along `σ` satisfies every check of the result -/
theorem code_unchanged (h g : SM) (hinv : h.Inv) (hr : 1 ≤ h.nrows) (hn : h.nrows ≤ h.ncols)
    (hg : paritySystematic h = .ok g) :
    ∃ σ : List Nat, σ.Perm (List.range h.ncols) ∧ (∀ c, c < h.ncols → g.col (σ.getD c 0) = h.col c) ∧
      ∀ w : List Bool, w.length = h.ncols →
        syndromeOK g ((List.range h.ncols).map (fun j => w.getD (σ.idxOf j) false)) = syndromeOK h w := by
  obtain ⟨gi, gr, gc, σ, hσ, hcol⟩ := permutes_columns h g hinv hr hn hg
  exact ⟨σ, hσ, hcol, fun w _ => syndromeOK_colperm h g hinv gi gr gc σ hσ hcol w⟩

/-- the not-full-rank error is returned only for rank-deficient matrices … -/
theorem err_sound (h : SM) (hinv : h.Inv) (hr : 1 ≤ h.nrows) (hn : h.nrows ≤ h.ncols)
    (he : paritySystematic h = .notFullRank) : ¬ RowsIndep (denseOf h) h.ncols := by
  rcases e_sys_main h hinv hr hn with ⟨hd, _⟩ | ⟨_, g, hg, _⟩
  · exact hd
  · rw [hg] at he; cases he

/-- … and for every rank-deficient matrix -/
theorem err_complete (h : SM) (hinv : h.Inv) (hr : 1 ≤ h.nrows) (hn : h.nrows ≤ h.ncols)
    (hd : ¬ RowsIndep (denseOf h) h.ncols) : paritySystematic h = .notFullRank := by
  rcases e_sys_main h hinv hr hn with ⟨_, he⟩ | ⟨hi, _⟩
  · exact he
  · exact absurd hi hd

/-- non-vacuity: the input that used to hit the internal assertion (D3), the Rust unit-test shape, a
rank-deficient matrix -/
example :
    paritySystematic ⟨[[0, 1], [2], [3]], [[0], [0], [1], [2]]⟩ = .ok ⟨[[1, 0], [2], [3]], [[0], [0], [1], [2]]⟩ ∧
    paritySystematic ⟨[[0], [1]], [[0], [1]]⟩ = .ok ⟨[[0], [1]], [[0], [1]]⟩ ∧
    paritySystematic ⟨[[0, 1], [0, 1]], [[0, 1], [0, 1], []]⟩ = .notFullRank := by
  decide +kernel

end LdpcV.C09
