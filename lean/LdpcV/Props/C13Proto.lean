/-
C13 (protocol part) — the run joins all workers and cannot get stuck, for EVERY number of workers and
every interleaving of worker and collector steps.  Model: LdpcV/Model/BerProto.lean.
Liveness ("eventually done") needs a fairness assumption on the OS scheduler and is not stated; what is
proved is deadlock-freedom (every reachable unfinished state can move), that the collector never waits
for a worker that cannot exit, and the shape of the final state.
-/
import LdpcV.Lemmas.ProtoLemmas
namespace LdpcV.C13Proto
open LdpcV LdpcV.BerProto

/-- deadlock-freedom of the repaired protocol: every reachable state that is not finished has a successor -/
theorem no_deadlock (target n : Nat) (s : St) (hr : Reachable false target n s) (hd : isDone s = false) :
    ∃ s', Step false target s s' := by
  exact inv_progress (inv_of_reachable hr) hd

/-- when the point is finished every worker has been joined: none is still running -/
theorem all_joined (keep : Bool) (target n : Nat) (s : St) (hr : Reachable keep target n s) (hd : isDone s = true) :
    s.workers.length = n ∧ ∀ w ∈ s.workers, w ≠ .running := by
  have h := inv_of_reachable hr
  obtain ⟨ok, hph⟩ := done_phase hd
  refine ⟨h.len, ?_⟩
  intro w hw hrun
  obtain ⟨j, hj, hjw⟩ := List.getElem_of_mem hw
  have hjb : j < jb s := by simp [jb, hph, hj]
  apply h.joined j hjb
  rw [List.getElem?_eq_getElem hj, hjw, hrun]

/-- the result is an error exactly when an error result was consumed or some worker ended with an error / a panic -/
theorem error_reported (keep : Bool) (target n : Nat) (s : St) (hr : Reachable keep target n s) (ok : Bool)
    (hd : s.phase = .done ok) :
    (ok = false ↔ s.sawError = true) ∧ ((∃ w ∈ s.workers, w = .exitedErr ∨ w = .panicked) → ok = false) := by
  have h := inv_of_reachable hr
  have hok := h.doneOk ok hd
  have h1 : ok = false ↔ s.sawError = true := by
    rw [hok]; cases s.sawError <;> simp
  refine ⟨h1, ?_⟩
  rintro ⟨w, hw, hwe⟩
  obtain ⟨j, hj, hjw⟩ := List.getElem_of_mem hw
  have hjb : j < jb s := by simp [jb, hd, hj]
  apply h1.mpr
  apply h.saw j hjb
  rw [List.getElem?_eq_getElem hj, hjw]
  rcases hwe with hwe | hwe
  · exact Or.inl (by rw [hwe])
  · exact Or.inr (by rw [hwe])

/-- while the collector is still collecting, the error target has not been reached; it never collects more than the target -/
theorem stops_at_target (keep : Bool) (target n : Nat) (ht : 1 ≤ target) (s : St) (hr : Reachable keep target n s) :
    s.errors ≤ target ∧ (s.phase = .collecting → s.errors < target) := by
  exact target_of_reachable ht hr

/-- the defect D7 in the model: when the collector keeps its own sender alive, the state in which every
worker has panicked is reachable and stuck (for every N ≥ 1 and target ≥ 1) -/
theorem deadlock_before_repair (target n : Nat) (ht : 1 ≤ target) (hn : 1 ≤ n) :
    ∃ s, Reachable true target n s ∧ isDone s = false ∧ ¬ ∃ s', Step true target s s' := by
  -- (the stuck state exists for every `target` and `n`; the hypotheses are not needed)
  have _ := ht; have _ := hn
  refine ⟨panickedSt n 0, ?_, rfl, panicked_stuck target n⟩
  have := reachable_panicked target n 0
  simpa using this

end LdpcV.C13Proto
