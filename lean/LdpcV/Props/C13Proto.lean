/-
C13 (protocol part) — the run joins all workers and cannot get stuck, for EVERY number of workers and
every interleaving of worker and collector steps.  Model: LdpcV/Model/BerProto.lean.
Unconditional liveness ("eventually done") would need a fairness assumption on the OS scheduler while the collector
is still collecting (workers may produce frames for ever if the error target is never reached); what is
proved is deadlock-freedom (every reachable unfinished state can move), that the collector never waits
for a worker that cannot exit, the shape of the final state, and BOUNDED TERMINATION once the terminate messages
are out: from then on every schedule whatsoever ends within 2N+1 steps (no fairness needed).
-/
import LdpcV.Lemmas.ProtoLemmas
namespace LdpcV.C13Proto
open LdpcV LdpcV.BerProto

/-- deadlock-freedom of the repaired protocol: every reachable state that is not finished has a successor -/
theorem no_deadlock (target n : Nat) (s : St) (hr : Reachable false target n s) (hd : isDone s = false) :
    ∃ s', Step false target s s' := by
  exact inv_progress (inv_of_reachable hr) hd

/-- when the point is finished every worker has been joined: none is still running -/
theorem all_joined (keep : Bool) (target n : Nat) (s : St) (hr : Reachable keep target n s) (hd : isDone s = true) :
    s.workers.length = n ∧ ∀ w ∈ s.workers, w ≠ .running := by
  have h := inv_of_reachable hr
  obtain ⟨ok, hph⟩ := done_phase hd
  refine ⟨h.len, ?_⟩
  intro w hw hrun
  obtain ⟨j, hj, hjw⟩ := List.getElem_of_mem hw
  have hjb : j < jb s := by simp [jb, hph, hj]
  apply h.joined j hjb
  rw [List.getElem?_eq_getElem hj, hjw, hrun]

/-- the result is an error exactly when an error result was consumed or some worker ended with an error / a panic -/
theorem error_reported (keep : Bool) (target n : Nat) (s : St) (hr : Reachable keep target n s) (ok : Bool)
    (hd : s.phase = .done ok) :
    (ok = false ↔ s.sawError = true) ∧ ((∃ w ∈ s.workers, w = .exitedErr ∨ w = .panicked) → ok = false) := by
  have h := inv_of_reachable hr
  have hok := h.doneOk ok hd
  have h1 : ok = false ↔ s.sawError = true := by
    rw [hok]; cases s.sawError <;> simp
  refine ⟨h1, ?_⟩
  rintro ⟨w, hw, hwe⟩
  obtain ⟨j, hj, hjw⟩ := List.getElem_of_mem hw
  have hjb : j < jb s := by simp [jb, hd, hj]
  apply h1.mpr
  apply h.saw j hjb
  rw [List.getElem?_eq_getElem hj, hjw]
  rcases hwe with hwe | hwe
  · exact Or.inl (by rw [hwe])
  · exact Or.inr (by rw [hwe])

/-- while the collector is still collecting, the error target has not been reached; it never collects more than the target -/
theorem stops_at_target (keep : Bool) (target n : Nat) (ht : 1 ≤ target) (s : St) (hr : Reachable keep target n s) :
    s.errors ≤ target ∧ (s.phase = .collecting → s.errors < target) := by
  exact target_of_reachable ht hr

/-- bounded termination after the stop decision: once the collector has sent the terminate messages, EVERY
continuation of the run — any interleaving of the N workers and the collector — consists of at most 2N+1 steps
(each worker exits at most once, each is joined once, one final step), the measure `mu` strictly decreasing -/
theorem terminates_after_signal (keep : Bool) (target n k : Nat) (s s' : St) (hr : Reachable keep target n s)
    (ht : s.termSent = true) (hs : Steps keep target k s s') : k ≤ 2 * n + 1 ∧ s'.termSent = true := by
  have h := inv_of_reachable hr
  obtain ⟨h1, _, h3⟩ := steps_bounded h ht hs
  have h2 := mu_le h (by rw [← h.term]; exact ht)
  exact ⟨by omega, h3⟩

/-- … and such a run can only stop in the finished state: combined with `no_deadlock`, after the stop decision the
repaired protocol reaches `done` within 2N+1 steps under every schedule -/
theorem stuck_after_signal_is_done (target n k : Nat) (s s' : St) (hr : Reachable false target n s)
    (hs : Steps false target k s s') (hstuck : ¬ ∃ s'', Step false target s' s'') : isDone s' = true := by
  have hr' : Reachable false target n s' := by
    clear hstuck
    induction hs with
    | zero s => exact hr
    | succ hstep _ ih => exact ih (Reachable.step hr hstep)
  cases hd : isDone s' with
  | true => rfl
  | false => exact absurd (no_deadlock target n s' hr' hd) hstuck

/-- non-vacuity: with two workers, the state right after `signal` is reachable and has the terminate messages out -/
example : ∃ s, Reachable false 1 2 s ∧ s.termSent = true := by
  refine ⟨{ workers := [.running, .running], termSent := true, queue := [], errors := 1, sawError := false, phase := .joining 0 }, ?_, rfl⟩
  have r0 : Reachable false 1 2 (init 2) := Reachable.init
  have r1 := Reachable.step r0 (Step.workerSendsFrame (init 2) 0 (by decide) (by decide))
  have r2 := Reachable.step r1 (Step.collectFrame _ [] true (by decide) (by decide))
  have r3 := Reachable.step r2 (Step.signal _ (by decide))
  simpa [init] using r3

/-- the defect D7 in the model: when the collector keeps its own sender alive, the state in which every
worker has panicked is reachable and stuck (for every N ≥ 1 and target ≥ 1) -/
theorem deadlock_before_repair (target n : Nat) (ht : 1 ≤ target) (hn : 1 ≤ n) :
    ∃ s, Reachable true target n s ∧ isDone s = false ∧ ¬ ∃ s', Step true target s s' := by
  -- (the stuck state exists for every `target` and `n`; the hypotheses are not needed)
  have _ := ht; have _ := hn
  refine ⟨panickedSt n 0, ?_, rfl, panicked_stuck target n⟩
  have := reachable_panicked target n 0
  simpa using this

end LdpcV.C13Proto
