/-
C17 — sparse-matrix editing behaves like a set of (row, column) positions.
Property theorems only (helper lemmas live in LdpcV/Lemmas/SparseLemmas.lean).
-/
import LdpcV.Lemmas.SparseLemmas
namespace LdpcV.C17
open LdpcV

/-- every reachable matrix satisfies the mirror invariant, keeps its dimensions and denotes exactly
the set obtained by applying the same operations to a set of positions (all finite histories, all shapes) -/
theorem history (nr nc : Nat) (ops : List Op) (h : SM) (hrun : (SM.new nr nc).run ops = some h) :
    h.Inv ∧ h.nrows = nr ∧ h.ncols = nc ∧
    ∀ r c, h.mem r c = (ops.foldl PosSet.apply PosSet.empty) r c :=
  run_new_spec nr nc ops h hrun

/-- one step, from any invariant state (the inductive step of `history`, also used by C16/C07) -/
theorem step (h h' : SM) (op : Op) (hinv : h.Inv) (happ : h.apply op = some h') :
    h'.Inv ∧ h'.nrows = h.nrows ∧ h'.ncols = h.ncols ∧ ∀ r c, h'.mem r c = (PosSet.apply h.mem op) r c :=
  apply_spec h h' op hinv happ

/-- in-range operations never panic -/
theorem no_panic (h : SM) (op : Op) (hr : op.inRange h.nrows h.ncols = true) :
    ∃ h', h.apply op = some h' :=
  apply_total h op hr

/-- whole in-range histories never panic -/
theorem history_no_panic (nr nc : Nat) (ops : List Op) (hr : ∀ op ∈ ops, op.inRange nr nc = true) :
    ∃ h, (SM.new nr nc).run ops = some h :=
  run_total nr nc ops hr

/-- queries agree with the set: `contains` (read from the column list) = membership (read from the row
list); weights are the cardinalities of the row / column sections of the set -/
theorem queries (h : SM) (hinv : h.Inv) (r c : Nat) :
    h.has r c = h.mem r c ∧
    (h.row r).length = ((List.range h.ncols).filter (fun c => h.mem r c)).length ∧
    (h.col c).length = ((List.range h.nrows).filter (fun r => h.mem r c)).length :=
  queries_spec h hinv r c

/-- iterators: no duplicates, and they enumerate exactly the set -/
theorem iterators (h : SM) (hinv : h.Inv) :
    h.iterAll.Nodup ∧ (∀ r c, (r, c) ∈ h.iterAll ↔ h.mem r c = true) ∧
    (∀ r, (h.row r).Nodup ∧ ∀ c, c ∈ h.row r ↔ h.mem r c = true) ∧
    (∀ c, (h.col c).Nodup ∧ ∀ r, r ∈ h.col c ↔ h.mem r c = true) :=
  iterators_spec h hinv

/-- inserting a present entry / removing an absent one leaves the matrix *equal* (structural
equality = Rust's derived `PartialEq`) -/
theorem redundant_noop (h : SM) (hinv : h.Inv) (r c : Nat) (hr : h.inRange r c = true) :
    (h.mem r c = true → h.insert r c = some h) ∧ (h.mem r c = false → h.remove r c = some h) :=
  redundant_spec h hinv r c hr

/-- non-vacuity: a concrete non-trivial reachable state -/
example : ∃ h, (SM.new 2 3).run [.insert 0 1, .toggle 1 2, .setRow 0 [2, 0], .remove 1 2, .insertCol 1 [1, 0]] = some h
    ∧ h.mem 0 2 = true ∧ h.mem 1 2 = false ∧ h.mem 1 1 = true := by decide

end LdpcV.C17
