/-
C03, exactness clause — "with the exact sum-product arithmetics on a cycle-free parity-check matrix, the per-bit
LLRs after at least graph-diameter iterations equal the true posterior LLRs of the code given the channel LLRs".

Model: LdpcV/Model/ArithIdeal.lean — the ideal sum-product arithmetic `Ideal.arith S` plugged into the SAME textbook
schedules `BPRef.floodIter` / `BPRef.layerIter` that C03.flood_refines / C03.hl_refines tie to the decoder models,
run without the syndrome stop (`Ideal.floodRun`, `Ideal.layerRun`), instantiated at `Sc.real`; the posterior is the
brute-force marginal over all codewords (`Ideal.mass`, `Ideal.posterior`).  Vocabulary: LdpcV/Spec/GraphSpec.lean
(`IsForest`, `IsDist`).  Helper lemmas: LdpcV/Lemmas/TreeBP*.lean.

The iteration bound is sharp: bit `v` is exact as soon as `2·t` reaches the farthest variable node of its tree
(one iteration moves information over two edges), which `t ≥ diameter` implies.
-/
import LdpcV.Lemmas.TreeBP
namespace LdpcV.C03Tree
open LdpcV LdpcV.Graph LdpcV.Ideal

/-- flooding schedule, ideal sum-product arithmetic, cycle-free matrix, every check of weight ≥ 2: after `t`
iterations the LLR of every bit `v` whose tree lies within distance `2·t` IS the true posterior LLR -/
theorem flood_exact_on_forest (h : SM) (hinv : h.Inv) (hf : IsForest h) (hdeg : ∀ r ∈ h.rows, 2 ≤ r.length)
    (lam : List ℝ) (hl : lam.length = h.ncols) (v : Nat) (hv : v < h.ncols) (t : Nat)
    (ht : ∀ u d, IsDist h (.col v) (.col u) d → d ≤ 2 * t) :
    ∃ em llrs, floodRun Sc.real h lam t = some (em, llrs) ∧ llrs.length = h.ncols ∧
      0 < mass Sc.real h lam v false ∧ 0 < mass Sc.real h lam v true ∧
      llrs.getD v 0 = posterior Sc.real h lam v :=
  TreeBP.flood_exact h hinv hf hdeg lam hl v hv t ht

/-- the same for the horizontal-layered schedule -/
theorem layer_exact_on_forest (h : SM) (hinv : h.Inv) (hf : IsForest h) (hdeg : ∀ r ∈ h.rows, 2 ≤ r.length)
    (lam : List ℝ) (hl : lam.length = h.ncols) (v : Nat) (hv : v < h.ncols) (t : Nat)
    (ht : ∀ u d, IsDist h (.col v) (.col u) d → d ≤ 2 * t) :
    ∃ rcv llrs, layerRun Sc.real h lam t = some (rcv, llrs) ∧ llrs.length = h.ncols ∧
      llrs.getD v 0 = posterior Sc.real h lam v :=
  TreeBP.layer_exact h hinv hf hdeg lam hl v hv t ht

/-- the clause as the property states it: at least graph-diameter iterations, every bit, both schedules -/
theorem exact_after_diameter (h : SM) (hinv : h.Inv) (hf : IsForest h) (hdeg : ∀ r ∈ h.rows, 2 ≤ r.length)
    (lam : List ℝ) (hl : lam.length = h.ncols) (t : Nat) (hd : ∀ a b d, IsDist h a b d → d ≤ t) :
    (∃ em llrs, floodRun Sc.real h lam t = some (em, llrs) ∧
        ∀ v, v < h.ncols → llrs.getD v 0 = posterior Sc.real h lam v) ∧
    (∃ rcv llrs, layerRun Sc.real h lam t = some (rcv, llrs) ∧
        ∀ v, v < h.ncols → llrs.getD v 0 = posterior Sc.real h lam v) :=
  TreeBP.exact_diameter h hinv hf hdeg lam hl t hd

/-- consequence for the verdict: the hard decisions of the LLRs are then the bitwise-MAP decisions
(`x ≤ 0 ↦ 1`, i.e. bit 1 iff the codewords with a one there weigh at least as much) -/
theorem hard_decision_is_bitwise_map (h : SM) (hinv : h.Inv) (hf : IsForest h) (hdeg : ∀ r ∈ h.rows, 2 ≤ r.length)
    (lam : List ℝ) (hl : lam.length = h.ncols) (t : Nat) (hd : ∀ a b d, IsDist h a b d → d ≤ t) :
    ∃ em llrs, floodRun Sc.real h lam t = some (em, llrs) ∧
      ∀ v, v < h.ncols →
        ((Ideal.arith Sc.real).hard (llrs.getD v 0) = true ↔ mass Sc.real h lam v false ≤ mass Sc.real h lam v true) :=
  TreeBP.hard_map h hinv hf hdeg lam hl t hd

/-- non-vacuity: a concrete tree (a chain of three checks of weights 3, 2, 3 and an isolated bit) meets every
hypothesis, with diameter 6 -/
example :
    let h : SM := ⟨[[0, 1, 2], [2, 3], [3, 4, 5]], [[0], [0], [0, 1], [1, 2], [2], [2], []]⟩
    h.Inv ∧ IsForest h ∧ (∀ r ∈ h.rows, 2 ≤ r.length) ∧ (∀ a b d, IsDist h a b d → d ≤ 6) :=
  TreeBP.example_tree

end LdpcV.C03Tree
