/-
C10 / C03 for ALL 36 implementation names — also across panics.
`Factory.Impl.model` gives every name an arithmetic model (exact for the 8-bit names, the generic float formulas over a
scalar record for the others, LdpcV/Model/ArithFloat.lean).  Under the weakest contract `PanicOrBehaved`
(LdpcV/Spec/DecoderSpec.lean: a rule either panics or emits one message per incoming message, addressed to its source)
the flooding decoder model equals the textbook schedule from EVERY incoming state, panics included; the layered model
does so without any contract (C03.hl_refines_any).  Every model arithmetic meets the contract for every scalar
semantics, so: for every implementation name and every history of calls on one decoder object, each call returns — or
panics — exactly as a freshly built decoder does.
Helper lemmas: LdpcV/Lemmas/AllRefine*.lean.
-/
import LdpcV.Lemmas.AllRefine
namespace LdpcV.C10All
open LdpcV

variable {A : Arith}

/-- flooding refines the textbook schedule from any incoming state under the weakest contract — also on panics -/
theorem flood_refines_any (h : SM) (hinv : h.Inv) (pb : PanicOrBehaved A h) (st : FloodSt A) (hs : Flood.Shape h st)
    (llrs : List UInt64) (hlen : llrs.length = h.ncols) (n : Nat) :
    (Flood.decode h st llrs n).map Prod.fst = BPRef.floodRef A h llrs n := by
  exact ar_flood_refines_any h hinv pb st hs llrs hlen n

/-- every float arithmetic model meets the contract, for every scalar semantics, quantiser, clamp and matrix -/
theorem float_panicOrBehaved {α : Type} (S : Sc α) (q : UInt64 → α) (clamp : α) (k : ArithFloat.Kind) (h : SM)
    (hinv : h.Inv) : PanicOrBehaved (ArithFloat.mkArith S q clamp k) h := by
  have _ := hinv
  exact ar_float_panicOrBehaved S q clamp k h

/-- every 8-bit arithmetic model meets the contract on every matrix (whatever the degrees: where it does not panic it
emits one message per incoming message) -/
theorem i8_panicOrBehaved (amin : Bool) (cfg : I8.Cfg) (h : SM) (hinv : h.Inv) : PanicOrBehaved (I8.mkArith amin cfg) h := by
  have _ := hinv
  exact ar_i8_panicOrBehaved amin cfg h

/-- all 36 names -/
theorem all_panicOrBehaved (i : Factory.Impl) (h : SM) (hinv : h.Inv) : PanicOrBehaved i.model h := by
  have _ := hinv
  exact ar_all_panicOrBehaved i h

/-- one call on a decoder object in ANY state of the right shape = the call on a fresh decoder, for every
implementation name, both schedules, panics included; and the state keeps its shape -/
theorem all_call_independent (i : Factory.Impl) (h : SM) (hinv : h.Inv) (st : DecSt i.model) (hs : DecSt.Shape h st)
    (hsched : (match st with | .flood _ => Sched.flooding | .hl _ => Sched.layered) = i.sched)
    (llrs : List UInt64) (hlen : llrs.length = h.ncols) (n : Nat) :
    (st.decode h llrs n).map Prod.fst = ((DecSt.fresh i.model i.sched h).decode h llrs n).map Prod.fst ∧
    (∀ v st', st.decode h llrs n = some (v, st') → DecSt.Shape h st') := by
  refine ar_call_independent h hinv (ar_all_panicOrBehaved i h) (ar_all_layerKeeps i) i.sched st hs ?_ llrs hlen n
  cases st <;> exact hsched

/-- whole histories on one object: the list of results is the list of fresh-decoder results, and the history panics
exactly when some call would panic on a fresh decoder -/
theorem all_history_independent (i : Factory.Impl) (h : SM) (hinv : h.Inv)
    (calls : List (List UInt64 × Nat)) (hcalls : ∀ c ∈ calls, c.1.length = h.ncols) :
    DecSt.runHistory h (DecSt.fresh i.model i.sched h) calls
      = calls.mapM (fun c => ((DecSt.fresh i.model i.sched h).decode h c.1 c.2).map Prod.fst) := by
  exact ar_history h hinv (ar_all_panicOrBehaved i h) (ar_all_layerKeeps i) i.sched calls hcalls _
    (ar_fresh_shape _ h) (ar_fresh_sched _ h)

/-- and each of those results is the textbook schedule's -/
theorem all_refine_textbook (i : Factory.Impl) (h : SM) (hinv : h.Inv) (llrs : List UInt64)
    (hlen : llrs.length = h.ncols) (n : Nat) :
    ((DecSt.fresh i.model i.sched h).decode h llrs n).map Prod.fst = BPRef.decodeRef i.model i.sched h llrs n := by
  exact ar_fresh_ref h hinv (ar_all_panicOrBehaved i h) (ar_all_layerKeeps i) i.sched llrs hlen n

/-- the modelled `partial_cmp().unwrap()` panic: with at least two incoming messages the float A-Min* rule panics as
soon as one value is unordered with itself (NaN), whatever the scalar semantics -/
theorem amin_panics_on_nan {α : Type} (S : Sc α) (msgs : List (Nat × α)) (hd : 2 ≤ msgs.length)
    (hnan : ∃ m ∈ msgs, S.le (S.abs m.2) (S.abs m.2) = false) : ArithFloat.checkAminP S msgs = none := by
  exact ar_amin_panics_on_nan S msgs hd hnan

/-- non-vacuity: the hypotheses of `all_call_independent` are met by a concrete name, matrix and (fresh) state -/
example :
    let h : SM := ⟨[[0, 1], [1, 2]], [[0], [0, 1], [1]]⟩
    let i : Factory.Impl := ⟨.aminstar, .f32, .layered⟩
    i ∈ Factory.all ∧ h.Inv ∧ DecSt.Shape h (DecSt.fresh i.model i.sched h) ∧
      (match DecSt.fresh i.model i.sched h with | .flood _ => Sched.flooding | .hl _ => Sched.layered) = i.sched := by
  intro h i
  exact ⟨by decide, ar_inv_of_invB h (by decide), ar_fresh_shape _ h, rfl⟩

end LdpcV.C10All
