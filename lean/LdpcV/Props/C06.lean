/-
C06 — DVB-S2 parity-check matrices conform to ETSI EN 302 307-1.
Generic theorems hold for EVERY well-formed parameter set `(n, m, q, addr)`; the per-code theorems
evaluate the 21 pinned tables (LdpcV/Spec/Dvbs2Tables.lean, regenerated from the Rust source on every run
and compared).  Helper lemmas: LdpcV/Lemmas/Dvbs2Lemmas.lean.
Trusted evaluation: theorems named `*_native` use `native_decide` (compiler + runtime trusted).
-/
import LdpcV.Lemmas.Dvbs2Lemmas
namespace LdpcV.C06
open LdpcV LdpcV.Dvbs2

/-- dimensions -/
theorem dims (n m q : Nat) (addr : List (List Nat)) :
    (h n m q addr).nrows = m ∧ (h n m q addr).ncols = n :=
  h_dims n m q addr

/-- the two adjacency lists of the model matrix mirror each other -/
theorem h_inv (n m q : Nat) (addr : List (List Nat)) (hw : WellFormed n m q addr = true) :
    (h n m q addr).Inv :=
  Dvbs2.h_inv (wf_of hw)

/-- quasi-cyclic law: inside a 360-column group every column is the previous one shifted down by `q` rows modulo `m` -/
theorem quasi_cyclic (n m q : Nat) (addr : List (List Nat)) (hw : WellFormed n m q addr = true)
    (j : Nat) (hj : j < n - m) (hg : j % 360 ≠ 0) :
    (h n m q addr).col j = ((h n m q addr).col (j - 1)).map (fun r => (r + q) % m) :=
  h_quasi_cyclic (wf_of hw) j hj hg

/-- column degrees of the information part are the lengths of the address rows (no two shifted addresses collide) -/
theorem col_degree (n m q : Nat) (addr : List (List Nat)) (hw : WellFormed n m q addr = true)
    (j : Nat) (hj : j < n - m) :
    ((h n m q addr).col j).length = (addr.getD (j / 360) []).length :=
  h_col_degree (wf_of hw) j hj

set_option linter.unusedVariables false in -- the proof does not need `hw`, `hi`
/-- the parity part is the dual diagonal -/
theorem dual_diagonal (n m q : Nat) (addr : List (List Nat)) (hw : WellFormed n m q addr = true)
    (i r : Nat) (hi : i < m) (hr : r < m) :
    (h n m q addr).mem r (n - m + i) = true ↔ (r = i ∨ r = i + 1) :=
  h_mem_parity n m q addr i r hr

/-- hence the systematic encoder takes the linear-time staircase branch, and every message encodes to a codeword -/
theorem encoder_staircase (n m q : Nat) (addr : List (List Nat)) (hw : WellFormed n m q addr = true) :
    ∃ g, Lin.fromH (h n m q addr) = .ok (.staircase g) ∧
      ∀ msg : List Bool, msg.length = n - m →
        ∃ cw, Lin.encode (.staircase g) msg = some cw ∧ cw.take (n - m) = msg ∧ syndromeOK (h n m q addr) cw = true :=
  h_encoder_staircase (wf_of hw)

set_option linter.unusedVariables false in -- the proof does not need `hr`
/-- the executable 4-cycle test is sound: if it passes, no two rows share two columns -/
theorem noFourCycles_sound (n : Nat) (rowLists : List (List Nat)) (hr : ∀ l ∈ rowLists, l.Nodup ∧ ∀ c ∈ l, c < n)
    (hc : noFourCycles n rowLists = true) :
    ∀ r1 r2 c1 c2, r1 < rowLists.length → r2 < rowLists.length → r1 ≠ r2 → c1 ≠ c2 →
      ¬ (c1 ∈ rowLists.getD r1 [] ∧ c2 ∈ rowLists.getD r1 [] ∧ c1 ∈ rowLists.getD r2 [] ∧ c2 ∈ rowLists.getD r2 []) :=
  noFourCycles_sound' n rowLists hc

set_option linter.unusedVariables false in -- the proof does not need `hw`
/-- the one-pass row computation used by the executable checks gives exactly the rows of the model -/
theorem rows_fast_eq (n m q : Nat) (addr : List (List Nat)) (hw : WellFormed n m q addr = true) :
    rowsFastModel n m q addr = rows n m q addr :=
  rowsFastModel_eq n m q addr

/-- all 21 pinned parameter sets are well formed, have the standard's (n, k) and q = (n-k)/360 -/
theorem tables_standard : ∀ c ∈ Dvbs2Tables.codes,
    WellFormed c.2.1 c.2.2.1 c.2.2.2.1 c.2.2.2.2 = true ∧ c.2.1 = standardN c.1 ∧
    standardK c.1 = some (c.2.1 - c.2.2.1) ∧ c.2.2.2.1 * 360 = c.2.2.1 := by
  decide +kernel

/-- all 21 codes have the standard's column-degree profile -/
theorem tables_profile : Dvbs2Tables.codes.length = 21 ∧
    ∀ c ∈ Dvbs2Tables.codes, tableProfile c.2.2.2.2 = standardProfile c.1 ∧ standardProfile c.1 ≠ [] := by
  decide +kernel

/-- none of the 21 expanded matrices has a cycle of length 4 (evaluation of the expanded matrices) -/
theorem no_four_cycles_native : ∀ c ∈ Dvbs2Tables.codes,
    noFourCycles c.2.1 (rowsFastModel c.2.1 c.2.2.1 c.2.2.2.1 c.2.2.2.2) = true := by
  native_decide

/-- the documented girth 6 of the normal-frame rate-1/2 code: no 4-cycle, and an explicit 6-cycle
(column 1800 – row 59 – column 32459 – row 60 – column 2160 – row 21449) -/
theorem girth_R1_2 : Graph.IsGirth (h 64800 32400 90 Dvbs2Tables.addr_R1_2) 6 :=
  girth_six_R1_2 (no_four_cycles_native _ R1_2_mem_codes)

/-- non-vacuity: a toy well-formed parameter set -/
example : WellFormed 1080 360 1 [[0, 5, 7], [3, 100]] = true ∧
    (h 1080 360 1 [[0, 5, 7], [3, 100]]).col 361 = [4, 101] ∧ (h 1080 360 1 [[0, 5, 7], [3, 100]]).col 720 = [0, 1] := by
  decide +kernel

end LdpcV.C06
