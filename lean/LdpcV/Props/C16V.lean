/-
C16 — the validators used by the correspondence check accept exactly the runs of the models.
The harness evaluates `Constr.pegAccepts` / `Constr.mnAccepts` on every matrix the Rust constructions return.  These
theorems tie the validators to the models of LdpcV/Model/Constructions.lean: complete (every model run is accepted,
so the validator raises no alarm on anything the modelled algorithm can produce, for any random choices) and sound
(an accepted matrix IS the result of some run, so by the C16 theorems it has every promised property).
Helper lemmas: LdpcV/Lemmas/ValidatorLemmas*.lean.

Completeness holds as stated for both validators.  Soundness, as first stated, is false in one corner for each
validator (counterexamples below, marked NOT-A-THEOREM); the `_partial` versions add exactly the missing
hypothesis, and `peg_validator_exact` / `mn_validator_exact` show that nothing else is missing.
-/
import LdpcV.Lemmas.ValidatorLemmas
import LdpcV.Lemmas.CountLemmas
namespace LdpcV.C16V
open LdpcV LdpcV.Constr LdpcV.Graph

/-- PEG: whatever the picks, the result of a run is accepted by the validator -/
theorem peg_validator_complete (nrows ncols wc : Nat) (picks : List Nat) (H : SM)
    (hr : peg nrows ncols wc picks = some H) : pegAccepts nrows ncols wc H = true :=
  peg_complete nrows ncols wc picks H hr

/- NOT-A-THEOREM (corner `nrows = 0 < wc`, `0 < ncols`): with no rows every column list is empty and has the
required length `min wc 0 = 0`, so the validator accepts the empty `0 × ncols` matrix; but the model has no run at
all with these parameters (`Constr.peg_no_run`: the set of admissible rows is empty, so the first pick is
rejected, and the empty pick sequence is too short) — the Rust code would pick from an empty candidate list.
Counterexample (checked below): `nrows = 0`, `ncols = 1`, `wc = 1`, `H = ⟨[], [[]]⟩`.

/-- PEG: an accepted matrix is the result of a run (for some sequence of picks) -/
theorem peg_validator_sound (nrows ncols wc : Nat) (H : SM) (ha : pegAccepts nrows ncols wc H = true) :
    ∃ picks, peg nrows ncols wc picks = some H

Proved instead: the same statement with the hypothesis `0 < nrows ∨ wc = 0 ∨ ncols = 0`, i.e. for every parameter
set outside that corner (including `wc > nrows`, where the pick sequence is padded with re-picks of a
least-weight row once all rows are adjacent to the column). -/
example : pegAccepts 0 1 1 ⟨[], [[]]⟩ = true ∧ ∀ picks, peg 0 1 1 picks ≠ some ⟨[], [[]]⟩ :=
  peg_sound_counterexample

/-- PEG: an accepted matrix is the result of a run (for some sequence of picks), unless there are no rows at all
(while `wc > 0` and `ncols > 0`) -/
theorem peg_validator_sound_partial (nrows ncols wc : Nat) (h0 : 0 < nrows ∨ wc = 0 ∨ ncols = 0) (H : SM)
    (ha : pegAccepts nrows ncols wc H = true) : ∃ picks, peg nrows ncols wc picks = some H :=
  peg_sound nrows ncols wc h0 H ha

/-- PEG, outside that corner: the validator accepts exactly the run results -/
theorem peg_validator_exact (nrows ncols wc : Nat) (h0 : 0 < nrows ∨ wc = 0 ∨ ncols = 0) (H : SM) :
    (∃ picks, peg nrows ncols wc picks = some H) ↔ pegAccepts nrows ncols wc H = true :=
  peg_exact nrows ncols wc h0 H

/-- MacKay–Neal: whatever the selections, backtracking and girth retries, the result of a successful run is accepted -/
theorem mn_validator_complete (cfg : MnCfg) (sels : List (List Nat)) (H : SM)
    (hr : mnRun cfg (mnInit cfg) sels = some (.ok H)) : mnAccepts cfg H = true :=
  mn_complete cfg sels H hr

/- NOT-A-THEOREM: `mnAccepts` (like `SM.Inv`) does not look at the ORDER of the row lists when there is no girth
constraint, whereas a run fills the columns from left to right, so every row list of a run result is increasing
(`mn_validator_run_sorted`), and run results are compared structurally.
Counterexample (checked below): `cfg = ⟨1, 2, 2, 1, 0, 0, none, 0, .random⟩` (one row, two columns, `wr = 2`,
`wc = 1`), `H = ⟨[[1, 0]], [[0], [0]]⟩`: well-formed and accepted, but the only run result is `⟨[[0, 1]], [[0], [0]]⟩`.

/-- MacKay–Neal: an accepted matrix is the result of a (backtrack-free) successful run -/
theorem mn_validator_sound (cfg : MnCfg) (H : SM) (hinv : H.Inv) (ha : mnAccepts cfg H = true) :
    ∃ sels, mnRun cfg (mnInit cfg) sels = some (.ok H)

Proved instead: the same statement with the additional hypothesis that every row list of `H` is increasing
(`hsort`); the run is the backtrack-free one that selects the columns of `H` in order.  The harness can check
`hsort` on the matrices the Rust code returns, next to `mnAccepts`. -/
example :
    (⟨[[1, 0]], [[0], [0]]⟩ : SM).Inv ∧ mnAccepts ⟨1, 2, 2, 1, 0, 0, none, 0, .random⟩ ⟨[[1, 0]], [[0], [0]]⟩ = true ∧
    ∀ sels, mnRun ⟨1, 2, 2, 1, 0, 0, none, 0, .random⟩ (mnInit ⟨1, 2, 2, 1, 0, 0, none, 0, .random⟩) sels ≠
      some (.ok ⟨[[1, 0]], [[0], [0]]⟩) :=
  mn_sound_counterexample

/-- every row list of a run result is increasing -/
theorem mn_validator_run_sorted (cfg : MnCfg) (sels : List (List Nat)) (H : SM)
    (hr : mnRun cfg (mnInit cfg) sels = some (.ok H)) : ∀ r, (H.row r).Pairwise (· < ·) :=
  mn_run_sorted cfg sels H hr

/-- MacKay–Neal: an accepted matrix with increasing row lists is the result of a (backtrack-free) successful run -/
theorem mn_validator_sound_partial (cfg : MnCfg) (H : SM) (hinv : H.Inv) (hsort : ∀ r, (H.row r).Pairwise (· < ·))
    (ha : mnAccepts cfg H = true) : ∃ sels, mnRun cfg (mnInit cfg) sels = some (.ok H) :=
  mn_sound cfg H hinv hsort ha

/-- MacKay–Neal: the run results are exactly the well-formed accepted matrices with increasing row lists -/
theorem mn_validator_exact (cfg : MnCfg) (H : SM) :
    (∃ sels, mnRun cfg (mnInit cfg) sels = some (.ok H)) ↔
      H.Inv ∧ (∀ r, (H.row r).Pairwise (· < ·)) ∧ mnAccepts cfg H = true :=
  mn_exact cfg H

/-- hence an accepted matrix has the promised properties (with C16.mn_weights / mn_girth / mn_uniform_balanced) -/
theorem mn_accepted_has_props (cfg : MnCfg) (H : SM) (hinv : H.Inv) (ha : mnAccepts cfg H = true) :
    H.nrows = cfg.nrows ∧ H.ncols = cfg.ncols ∧ (∀ c, c < cfg.ncols → (H.col c).length = cfg.wc) ∧
      (∀ r, r < cfg.nrows → (H.row r).length ≤ cfg.wr) :=
  mn_accepted_props cfg H hinv ha

/-- non-vacuity: a concrete PEG run and a concrete MacKay–Neal run, both accepted -/
example :
    peg 3 4 2 [0, 1, 2, 0, 1, 2, 0, 1] = some ⟨[[0, 1, 3], [0, 2, 3], [1, 2]], [[0, 1], [2, 0], [1, 2], [0, 1]]⟩ ∧
    pegAccepts 3 4 2 ⟨[[0, 1, 3], [0, 2, 3], [1, 2]], [[0, 1], [2, 0], [1, 2], [0, 1]]⟩ = true := by
  decide +kernel

/-- an infeasible configuration (more ones requested than the rows can hold: `wr · nrows < wc · ncols`) never yields a
matrix, whatever the selections, the fill policy, backtracking and girth retries — so a successful result for such a
configuration is a violation by itself -/
theorem mn_infeasible_never_succeeds (cfg : MnCfg) (hinf : cfg.wr * cfg.nrows < cfg.wc * cfg.ncols)
    (sels : List (List Nat)) (H : SM) : mnRun cfg (mnInit cfg) sels ≠ some (.ok H) :=
  mn_infeasible cfg hinf sels H

end LdpcV.C16V
