/-
C19, last clause — "repeated calls on one handle are independent of each other".
A live decoder handle (`Capi.DecObj`, LdpcV/Model/Capi.lean) keeps the decoder object built by the constructor, with
all its buffers, between calls.  By C10All (every one of the 36 implementation models, panics included) each call on a
live handle returns what the wrapper returns around a FRESHLY built decoder.  Helper lemmas: LdpcV/Lemmas/HandleLemmas.lean.
-/
import LdpcV.Lemmas.HandleLemmas
namespace LdpcV.C19H
open LdpcV LdpcV.Capi LdpcV.Blocks

/-- the stateless wrapper around a freshly built decoder of the handle's implementation -/
def freshCall (hd : DecHandle) (outputLen : Nat) (llrs : List UInt64) (maxIter : Nat) : Res (Int × List Bool) :=
  decodeWith (fun l n => ((DecSt.fresh hd.impl.model hd.impl.sched hd.h).decode hd.h l n).map Prod.fst)
    hd.pattern outputLen llrs maxIter

/-- one call on a live handle in ANY state its decoder object can be in (right shape, right schedule) returns —
or panics — exactly as the wrapper around a fresh decoder, and leaves the object in such a state again -/
theorem handle_call_independent (alist impl punct : List Char) (hd : DecHandle)
    (hc : decoderCtor alist impl punct = some hd) (st : DecSt hd.impl.model) (hs : DecSt.Shape hd.h st)
    (hsched : (match st with | .flood _ => Sched.flooding | .hl _ => Sched.layered) = hd.impl.sched)
    (outputLen : Nat) (llrs : List UInt64) (maxIter : Nat) :
    (match DecObj.call ⟨hd, st⟩ outputLen llrs maxIter with
      | .ok (r, _) => Res.ok r | .err => .err | .panic => .panic) = freshCall hd outputLen llrs maxIter ∧
    (∀ r o', DecObj.call ⟨hd, st⟩ outputLen llrs maxIter = .ok (r, o') →
      o'.hd = hd ∧ ∃ st', o' = ⟨hd, st'⟩ ∧ DecSt.Shape hd.h st') := by
  have hsched' : ar_sched st = hd.impl.sched := by cases st <;> exact hsched
  obtain ⟨h1, h2⟩ := hl_call hd (hl_ctor_inv alist impl punct hd hc) st hs hsched' outputLen llrs maxIter
  refine ⟨(hl_result_match _).trans h1, fun r o' hx => ?_⟩
  obtain ⟨st', ho, hs', _⟩ := h2 r o' hx
  exact ⟨by rw [ho], st', ho, hs'⟩

/-- any sequence of calls on the handle returned by the constructor: the list of results is the list of
fresh-decoder results (and the process aborts exactly when some call would abort with a fresh decoder) -/
theorem handle_calls_independent (alist impl punct : List Char) (hd : DecHandle)
    (hc : decoderCtor alist impl punct = some hd) (cs : List (Nat × List UInt64 × Nat)) :
    (DecObj.fresh hd).calls cs =
      cs.mapM (fun c => match freshCall hd c.1 c.2.1 c.2.2 with | .ok r => some r | _ => none) := by
  exact hl_calls hd (hl_ctor_inv alist impl punct hd hc) cs _ (ar_fresh_shape _ hd.h) (ar_fresh_sched _ hd.h)

end LdpcV.C19H
