/-
C16 — pseudorandom constructions honour their configuration.
The generator is not modelled: `Constr.peg` / `Constr.mnRun` take the sequence of random picks as an argument
and reject picks the Rust code could not have made, so the theorems hold for EVERY choice sequence (hence
every seed).  Reproducibility, seed diversity and the rayon seed search are observed by the harness only.
Model: LdpcV/Model/Constructions.lean.  Helper lemmas: LdpcV/Lemmas/ConstrLemmas.lean.
-/
import LdpcV.Lemmas.ConstrLemmas
namespace LdpcV.C16
open LdpcV LdpcV.Constr LdpcV.Graph

/-- PEG, every pick sequence: requested size, well-formed matrix, every column weight = min(wc, rows) -/
theorem peg_props (nrows ncols wc : Nat) (picks : List Nat) (H : SM) (hr : peg nrows ncols wc picks = some H) :
    H.Inv ∧ H.nrows = nrows ∧ H.ncols = ncols ∧ ∀ c, c < ncols → (H.col c).length = min wc nrows :=
  peg_inv nrows ncols wc picks H hr

/-- PEG selection rule: a row is admissible exactly when no other row is better, where unreachable beats
reachable, larger true graph distance beats smaller, and lower degree breaks ties (distances are the true
shortest-path lengths by C11) -/
theorem peg_rule (h : SM) (hinv : h.Inv) (col r : Nat) (hc : col < h.ncols) :
    r ∈ pegAdmissible h col ↔
      r < h.nrows ∧ ∀ r', r' < h.nrows →
        ¬ ((¬ Reachable h (.col col) (.row r') ∧ Reachable h (.col col) (.row r')) ∨
           ((¬ Reachable h (.col col) (.row r')) ∧ Reachable h (.col col) (.row r)) ∨
           (∃ d d', IsDist h (.col col) (.row r) d ∧ IsDist h (.col col) (.row r') d' ∧ d < d') ∨
           (((¬ Reachable h (.col col) (.row r) ∧ ¬ Reachable h (.col col) (.row r')) ∨
             (∃ d, IsDist h (.col col) (.row r) d ∧ IsDist h (.col col) (.row r') d)) ∧ (h.row r').length < (h.row r).length)) :=
  peg_rule_aux h hinv col r hc

/-- MacKay–Neal, every selection sequence: requested size, every column has exactly `wc` ones, no row exceeds `wr` -/
theorem mn_weights (cfg : MnCfg) (sels : List (List Nat)) (H : SM)
    (hr : mnRun cfg (mnInit cfg) sels = some (.ok H)) :
    H.Inv ∧ H.nrows = cfg.nrows ∧ H.ncols = cfg.ncols ∧
    (∀ c, c < cfg.ncols → (H.col c).length = cfg.wc) ∧ (∀ r, r < cfg.nrows → (H.row r).length ≤ cfg.wr) := by
  obtain ⟨st, hI, -, hc, rfl⟩ := mnRun_ok_induct cfg (fun _ => True) (fun _ _ _ _ _ _ _ => trivial) sels _ H
    (mnInit_inv cfg) trivial hr
  exact ⟨hI.inv, hI.nrows, hI.ncols, fun c hc' => hI.full c (by omega), fun r _ => hI.wr r⟩

/-- MacKay–Neal with a girth constraint: the girth of the result is at least the requested minimum -/
theorem mn_girth (cfg : MnCfg) (g : Nat) (hg : cfg.minGirth = some g) (sels : List (List Nat)) (H : SM)
    (hr : mnRun cfg (mnInit cfg) sels = some (.ok H)) :
    ∀ c, IsCycle H c → g ≤ c.length := by
  obtain ⟨st, -, hG, -, rfl⟩ := mnRun_ok_induct cfg (GirthOk cfg) (fun _ _ _ hI hlt hG hs => hG.step hI hlt hs) sels _ H
    (mnInit_inv cfg) (girthOk_init cfg) hr
  exact hG g hg

-- (the proof needs neither `hg` nor `hw`: the prefix-balance invariant also survives girth rejections)
set_option linter.unusedVariables false in
/-- uniform policy without girth constraint: row weights differ by at most one -/
theorem mn_uniform_balanced (cfg : MnCfg) (hp : cfg.policy = .uniform) (hg : cfg.minGirth = none) (hw : cfg.wc ≤ cfg.nrows)
    (sels : List (List Nat)) (H : SM) (hr : mnRun cfg (mnInit cfg) sels = some (.ok H)) :
    ∀ r r', r < cfg.nrows → r' < cfg.nrows → (H.row r).length ≤ (H.row r').length + 1 := by
  obtain ⟨st, hI, hB, -, rfl⟩ := mnRun_ok_induct cfg (Balanced cfg) (fun _ _ _ hI _ hB hs => hB.step hI hp hs) sels _ H
    (mnInit_inv cfg) (balanced_init cfg) hr
  intro r r' hr hr'
  have := hB st.col (Nat.le_refl _) r r' hr hr'
  rwa [hI.filter_col, hI.filter_col] at this

/- NOT A THEOREM (my first formulation of the iteration bound was false for the model, an artefact of the model and not of the code): when an iteration ends the run with an error, `mnRun` returns that error and
ignores the remaining selections, so `sels` may be arbitrarily long.  Smallest counterexample (checked below):
`cfg = ⟨0, 1, 0, 1, 0, 0, none, 0, .uniform⟩` (no rows, one column, `wc = 1`, no backtracking left),
`sels = [[], [], [], []]`: the run is `some (.error .noMoreBacktrack)` but `4 > (1 + 1) * (0 + 1) + 0 + 1 = 3`.

/-- the run ends: the number of loop iterations is bounded by the trial counters and the number of columns -/
theorem mn_iterations_bounded (cfg : MnCfg) (sels : List (List Nat)) (r : Except MnErr SM)
    (hr : mnRun cfg (mnInit cfg) sels = some r) :
    sels.length ≤ (cfg.ncols + 1) * (cfg.backtrackTrials + 1) + cfg.girthTrials + 1

Proved instead: the bound for every successful run (`mn_iterations_bounded_partial`), and for every run, failed
ones included, that its result is determined by the first `k` selections for some `k` within the bound
(`mn_iterations_bounded_prefix`; `k` is the number of loop iterations actually executed). -/
example :
    mnRun ⟨0, 1, 0, 1, 0, 0, none, 0, .uniform⟩ (mnInit ⟨0, 1, 0, 1, 0, 0, none, 0, .uniform⟩) [[], [], [], []] =
      some (.error .noMoreBacktrack) ∧
    ¬ ([[], [], [], []] : List (List Nat)).length ≤ (1 + 1) * (0 + 1) + 0 + 1 :=
  ⟨rfl, by decide⟩

/-- a successful run ends: the number of loop iterations is bounded by the trial counters and the number of columns -/
theorem mn_iterations_bounded_partial (cfg : MnCfg) (sels : List (List Nat)) (H : SM)
    (hr : mnRun cfg (mnInit cfg) sels = some (.ok H)) :
    sels.length ≤ (cfg.ncols + 1) * (cfg.backtrackTrials + 1) + cfg.girthTrials + 1 := by
  obtain ⟨k, k1, -, -, k4⟩ := mnRun_prefix cfg sels _ _ (mnInit_inv cfg) hr
  have := potential_init_le cfg
  have := k4 H rfl
  omega

/-- every run (failed ones included) ends within the bound: its result is determined by the first `k` selections,
`k` within the bound, and a successful run consumes exactly `k = sels.length` selections -/
theorem mn_iterations_bounded_prefix (cfg : MnCfg) (sels : List (List Nat)) (r : Except MnErr SM)
    (hr : mnRun cfg (mnInit cfg) sels = some r) :
    ∃ k, k ≤ (cfg.ncols + 1) * (cfg.backtrackTrials + 1) + cfg.girthTrials + 1 ∧ k ≤ sels.length ∧
      mnRun cfg (mnInit cfg) (sels.take k) = some r ∧ (∀ H, r = .ok H → k = sels.length) := by
  obtain ⟨k, k1, k2, k3, k4⟩ := mnRun_prefix cfg sels _ _ (mnInit_inv cfg) hr
  exact ⟨k, Nat.le_trans k1 (potential_init_le cfg), k2, k3, k4⟩

/-- the executable predicates used on the implementation's results mean what they say -/
theorem props_sound (cfg : MnCfg) (H : SM) (hinv : H.Inv) (hp : mnProps cfg H = true) :
    H.nrows = cfg.nrows ∧ H.ncols = cfg.ncols ∧ (∀ c, c < cfg.ncols → (H.col c).length = cfg.wc) ∧
    (∀ r, r < cfg.nrows → (H.row r).length ≤ cfg.wr) ∧
    (∀ g, cfg.minGirth = some g → ∀ c, IsCycle H c → g ≤ c.length) :=
  mnProps_sound cfg H hinv hp

/-- non-vacuity: a concrete PEG run and a concrete MacKay–Neal run with backtracking -/
example :
    (peg 2 3 1 [0, 1, 0]).map (·.cols) = some [[0], [1], [0]] ∧ peg 2 3 1 [0, 0, 0] = none ∧
    (match mnRun ⟨2, 2, 1, 1, 1, 1, none, 0, .uniform⟩ (mnInit ⟨2, 2, 1, 1, 1, 1, none, 0, .uniform⟩) [[0], [1]] with
     | some (.ok H) => H.cols == [[0], [1]]
     | _ => false) = true := by
  decide +kernel

end LdpcV.C16
