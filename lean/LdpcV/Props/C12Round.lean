/-
C12 / C14 under ROUNDING — the noise level.  `noise_sigma` of `BerTest::do_run` (Model/Modulation.lean `noiseSigma`:
Eb/N0 = exp(0.1·dB·ln 10), Es/N0 = rate·bits/symbol·Eb/N0, σ = sqrt(0.5/EsN0)) evaluated in the standard model of
floating-point arithmetic (`Sc.rounded M`, every `FpModel`) against the real formula, whose value satisfies
2σ²·R·B·10^(dB/10) = 1 (C14.sigma_law).  Helper lemmas: LdpcV/Lemmas/RoundSigma.lean.
-/
import LdpcV.Lemmas.RoundSigma
namespace LdpcV.C12Round
open LdpcV LdpcV.Modulation LdpcV.Round

/-- the computed exponent 0.1·dB·ln 10 has relative error at most τ = expHi − expLo
(expHi = b³(1+ub)(1+e), expLo = (1−u)³(1−ub)(1−e): three roundings, the literal 10, one `ln`) -/
theorem exponent_rounded (M : FpModel) (hub : M.u * b M ≤ 1 / 2) (db : ℝ) :
    |expoF M db - expoR db| ≤ tauE M * |expoR db| :=
  expo_err M hub db

/-- the floating-point noise level is the exact one times a factor F with
(1−u)·sqrt((1−u)⁴·e^(−η)/(1+e)) ≤ F ≤ b·sqrt(b⁴·e^η/(1−e)),  η = τ·|0.1·dB·ln 10|
— to first order |σ̃/σ − 1| ≤ 3u + e/2 + η/2: the requested Eb/N0 is realised up to a few units in the last place
(at 10 dB: η ≈ 2.3·(5u + e)) -/
theorem sigma_rounded (M : FpModel) (he1 : M.e < 1) (hub : M.u * b M ≤ 1 / 2) (db rate bps : ℝ) (hr : 0 < rate) (hb : 0 < bps) :
    ∃ F, noiseSigma (Sc.rounded M) db rate bps = noiseSigma Sc.real db rate bps * F ∧
      sigLo M (tauE M * |expoR db|) ≤ F ∧ F ≤ sigHi M (tauE M * |expoR db|) :=
  sigma_err M he1 hub db rate bps hr hb

/-- the exponent of the real formula is 0.1·dB·ln 10 -/
theorem expoR_eq (db : ℝ) : expoR db = 1 / 10 * db * Real.log 10 := by
  unfold expoR; norm_num

/-- non-vacuity: in exact arithmetic τ = 0 and both bounds of F are 1 -/
example : tauE FpModel.exact = 0 ∧ sigLo FpModel.exact 0 = 1 ∧ sigHi FpModel.exact 0 = 1 := by
  refine ⟨?_, ?_, ?_⟩
  · unfold tauE expHi expLo b FpModel.exact; simp
  · unfold sigLo FpModel.exact; simp
  · unfold sigHi b FpModel.exact; simp

end LdpcV.C12Round
