/-
Counting lemmas for C16V `mn_infeasible_never_succeeds`: double counting the ones of a sparse matrix with the
mirror invariant.

* `sum_countP_swap`     : Σ_{a ∈ L} #{b ∈ M | p a b} = Σ_{b ∈ M} #{a ∈ L | p a b}
* `SM.Inv.row_length`   : `|row r|` = number of columns `c < ncols` whose column list contains `r`
* `SM.Inv.col_length`   : `|col c|` = number of rows `r < nrows` that the column list `col c` contains
* `SM.Inv.sum_rows_eq_sum_cols` : Σ_{r < nrows} |row r| = Σ_{c < ncols} |col c|
* `SM.Inv.weights_feasible`     : all column weights `= wc`, all row weights `≤ wr` ⟹ `wc · ncols ≤ wr · nrows`
* `Constr.mn_infeasible`        : a MacKay–Neal run with `wr · nrows < wc · ncols` never succeeds
-/
import LdpcV.Lemmas.SparseLemmas
import LdpcV.Lemmas.ConstrLemmas
namespace LdpcV
open SM

/-! ### sums over lists -/

theorem sum_map_add {α : Type} (L : List α) (f g : α → Nat) :
    (L.map (fun a => f a + g a)).sum = (L.map f).sum + (L.map g).sum := by
  induction L with
  | nil => rfl
  | cons a L ih => simp only [List.map_cons, List.sum_cons, ih]; omega

theorem sum_map_zero {α : Type} (L : List α) : (L.map (fun _ => 0)).sum = 0 := by
  induction L with
  | nil => rfl
  | cons a L ih => simp only [List.map_cons, List.sum_cons, ih]

theorem countP_eq_sum_ite {α : Type} (M : List α) (q : α → Bool) :
    M.countP q = (M.map (fun b => if q b = true then 1 else 0)).sum := by
  induction M with
  | nil => rfl
  | cons b M ih =>
    simp only [List.countP_cons, List.map_cons, List.sum_cons, ih]; omega

/-- swapping the order of a double count -/
theorem sum_countP_swap {α β : Type} (L : List α) (M : List β) (p : α → β → Bool) :
    (L.map (fun a => M.countP (fun b => p a b))).sum = (M.map (fun b => L.countP (fun a => p a b))).sum := by
  induction L with
  | nil => simp only [List.map_nil, List.sum_nil, List.countP_nil]; exact (sum_map_zero M).symm
  | cons a L ih =>
    simp only [List.map_cons, List.sum_cons, List.countP_cons, ih]
    rw [sum_map_add, countP_eq_sum_ite M (fun b => p a b)]; omega

theorem sum_map_range_le (n k : Nat) (f : Nat → Nat) (h : ∀ r, r < n → f r ≤ k) :
    ((List.range n).map f).sum ≤ k * n := by
  induction n with
  | zero => simp
  | succ n ih =>
    have h1 := ih (fun r hr => h r (by omega))
    have h2 := h n (by omega)
    simp only [List.range_succ, List.map_append, List.sum_append, List.map_cons, List.map_nil, List.sum_cons,
      List.sum_nil, Nat.mul_succ]
    omega

theorem sum_map_range_eq (n k : Nat) (f : Nat → Nat) (h : ∀ r, r < n → f r = k) :
    ((List.range n).map f).sum = k * n := by
  induction n with
  | zero => simp
  | succ n ih =>
    have h1 := ih (fun r hr => h r (by omega))
    have h2 := h n (by omega)
    simp only [List.range_succ, List.map_append, List.sum_append, List.map_cons, List.map_nil, List.sum_cons,
      List.sum_nil, Nat.mul_succ]
    omega

theorem sum_map_range_congr (n : Nat) (f g : Nat → Nat) (h : ∀ r, r < n → f r = g r) :
    ((List.range n).map f).sum = ((List.range n).map g).sum := by
  congr 1
  apply List.map_congr_left
  intro a ha
  exact h a (List.mem_range.mp ha)

/-! ### double counting the ones of a sparse matrix -/

/-- the length of a row list = the number of columns whose column list contains the row -/
theorem SM.Inv.row_length {h : SM} (hinv : h.Inv) (r : Nat) :
    (h.row r).length = (List.range h.ncols).countP (fun c => (h.col c).contains r) := by
  rw [List.countP_eq_length_filter]
  apply List.Perm.length_eq
  rw [List.perm_ext_iff_of_nodup (hinv.2.2.1 r) (nodup_filter _ List.nodup_range)]
  intro a
  simp only [List.mem_filter, List.mem_range, List.contains_iff_mem]
  constructor
  · intro ha; exact ⟨(hinv.1 r a ha).2.1, (hinv.1 r a ha).2.2⟩
  · rintro ⟨_, ha⟩; exact (hinv.2.1 r a ha).2.2

/-- the length of a column list = the number of rows it contains -/
theorem SM.Inv.col_length {h : SM} (hinv : h.Inv) (c : Nat) :
    (h.col c).length = (List.range h.nrows).countP (fun r => (h.col c).contains r) := by
  rw [List.countP_eq_length_filter]
  apply List.Perm.length_eq
  rw [List.perm_ext_iff_of_nodup (hinv.2.2.2 c) (nodup_filter _ List.nodup_range)]
  intro a
  simp only [List.mem_filter, List.mem_range, List.contains_iff_mem]
  constructor
  · intro ha; exact ⟨(hinv.2.1 a c ha).1, ha⟩
  · rintro ⟨_, ha⟩; exact ha

/-- double counting: the row lists and the column lists hold the same number of ones -/
theorem SM.Inv.sum_rows_eq_sum_cols {h : SM} (hinv : h.Inv) :
    ((List.range h.nrows).map (fun r => (h.row r).length)).sum =
      ((List.range h.ncols).map (fun c => (h.col c).length)).sum := by
  rw [sum_map_range_congr h.nrows _ _ (fun r _ => hinv.row_length r),
    sum_map_range_congr h.ncols _ _ (fun c _ => hinv.col_length c)]
  exact sum_countP_swap (List.range h.nrows) (List.range h.ncols) (fun r c => (h.col c).contains r)

/-- a matrix whose columns all have weight `wc` and whose rows have weight at most `wr` has `wc · ncols ≤ wr · nrows` -/
theorem SM.Inv.weights_feasible {h : SM} (hinv : h.Inv) (wc wr : Nat)
    (hc : ∀ c, c < h.ncols → (h.col c).length = wc) (hr : ∀ r, r < h.nrows → (h.row r).length ≤ wr) :
    wc * h.ncols ≤ wr * h.nrows := by
  have h1 := sum_map_range_eq h.ncols wc (fun c => (h.col c).length) hc
  have h2 := sum_map_range_le h.nrows wr (fun r => (h.row r).length) hr
  have h3 := hinv.sum_rows_eq_sum_cols
  omega

namespace Constr

/-- MacKay–Neal: more ones requested than the rows can hold — no successful run -/
theorem mn_infeasible (cfg : MnCfg) (hinf : cfg.wr * cfg.nrows < cfg.wc * cfg.ncols)
    (sels : List (List Nat)) (H : SM) : mnRun cfg (mnInit cfg) sels ≠ some (.ok H) := by
  intro hr
  obtain ⟨st, hI, -, hc, rfl⟩ := mnRun_ok_induct cfg (fun _ => True) (fun _ _ _ _ _ _ _ => trivial) sels _ H
    (mnInit_inv cfg) trivial hr
  have hn := hI.nrows
  have hm := hI.ncols
  have := hI.inv.weights_feasible cfg.wc cfg.wr
    (fun c hc' => hI.full c (by omega)) (fun r _ => hI.wr r)
  rw [hn, hm] at this
  omega

end Constr
end LdpcV
