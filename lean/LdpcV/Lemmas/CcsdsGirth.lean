/-
Helper lemmas for the girth statements of LdpcV/Props/C07Girth.lean: a passing 4-cycle test excludes every
cycle shorter than 6 (for any matrix given by its row lists), and explicit 6-cycles of the C2 matrix and of the
AR4JA rate-1/2 k = 1024 matrix.  Core only.
-/
import LdpcV.Props.C07
import LdpcV.Lemmas.Dvbs2Lemmas4
namespace LdpcV.CcsdsGirth
open LdpcV LdpcV.Graph LdpcV.Ccsds

/-- membership in a matrix whose row lists are `rows` (whatever its column lists are) -/
theorem mem_mk (rows cols : List (List Nat)) (r c : Nat) :
    (SM.mk rows cols).mem r c = (rows.getD r []).contains c := rfl

/-- a passing 4-cycle test on the row lists excludes every cycle shorter than 6 -/
theorem no_short_cycle_of_rows (n : Nat) (rows cols : List (List Nat))
    (hc : Dvbs2.noFourCycles n rows = true) :
    ∀ c, IsCycle (SM.mk rows cols) c → 6 ≤ c.length := by
  intro c hcyc
  refine Nat.le_of_not_lt (fun hl => ?_)
  obtain ⟨r1, r2, c1, c2, hr, hcc, m11, m12, m21, m22⟩ := Dvbs2.short_cycle _ c hcyc hl
  rw [SM.mem_iff] at m11 m12 m21 m22
  change c1 ∈ rows.getD r1 [] at m11
  change c2 ∈ rows.getD r1 [] at m12
  change c1 ∈ rows.getD r2 [] at m21
  change c2 ∈ rows.getD r2 [] at m22
  have b : ∀ r x, x ∈ rows.getD r [] → r < rows.length := by
    intro r x hx
    refine Nat.lt_of_not_le (fun hge => ?_)
    rw [List.getD_eq_getElem?_getD, List.getElem?_eq_none hge] at hx
    simp at hx
  exact Dvbs2.noFourCycles_sound' n rows hc r1 r2 c1 c2 (b _ _ m11) (b _ _ m21) hr hcc ⟨m11, m12, m21, m22⟩

/-- a 6-cycle from three rows and three columns, row node first -/
theorem six_cycle_rows (H : SM) (r1 c1 r2 c2 r3 c3 : Nat)
    (hnd : [Node.row r1, .col c1, .row r2, .col c2, .row r3, .col c3].Nodup)
    (h1 : H.mem r1 c1 = true) (h2 : H.mem r2 c1 = true) (h3 : H.mem r2 c2 = true)
    (h4 : H.mem r3 c2 = true) (h5 : H.mem r3 c3 = true) (h6 : H.mem r1 c3 = true) :
    IsCycle H [.row r1, .col c1, .row r2, .col c2, .row r3, .col c3] := by
  refine ⟨by simp, hnd, ?_⟩
  intro i hi
  simp only [List.length_cons, List.length_nil] at hi
  have : i = 0 ∨ i = 1 ∨ i = 2 ∨ i = 3 ∨ i = 4 ∨ i = 5 := by omega
  rcases this with rfl | rfl | rfl | rfl | rfl | rfl <;> simp [Adj, *]

/-- the explicit 6-cycle row 0 – column 0 – row 335 – column 335 – row 159 – column 1022 of C2 -/
theorem six_cycle_c2 (cols : List (List Nat)) : IsCycle (SM.mk (c2Rows CcsdsTables.c2) cols)
    [.row 0, .col 0, .row 335, .col 335, .row 159, .col 1022] := by
  refine six_cycle_rows _ _ _ _ _ _ _ (by decide) ?_ ?_ ?_ ?_ ?_ ?_ <;> rw [mem_mk] <;> decide +kernel

/-- the explicit 6-cycle row 256 – column 2304 – row 512 – column 512 – row 1152 – column 2176 of the
AR4JA rate-1/2 k = 1024 matrix -/
theorem six_cycle_ar4ja_r12_k1024 (cols : List (List Nat)) : IsCycle (SM.mk (ar4jaRows tables 0 9) cols)
    [.row 256, .col 2304, .row 512, .col 512, .row 1152, .col 2176] := by
  refine six_cycle_rows _ _ _ _ _ _ _ (by decide) ?_ ?_ ?_ ?_ ?_ ?_ <;> rw [mem_mk] <;> decide +kernel

end LdpcV.CcsdsGirth
