/- Helper lemmas (RoundAmin): the exact-form min* step and the A-Min* check rule of Model/ArithF.lean under the standard
model of floating-point arithmetic against the same formulas at ℝ.  The rounded accumulator may be slightly negative
(the real one never is), so the step is analysed on the domain x, y ≥ -1, x + y ≥ -1. -/
import LdpcV.Lemmas.RoundPsk
import Mathlib.Analysis.Complex.ExponentialBounds
namespace LdpcV.Round
open LdpcV LdpcV.ArithF

variable (M : FpModel)

/-- rounding error of the second correction term `ln_1p(exp(-(x+y)))` for x + y ≥ -1 -/
noncomputable def c2 : ℝ := 24 * M.e + 8 * (M.u * b M)

theorem c2_nonneg : 0 ≤ c2 M := by
  unfold c2; have := M.e_nonneg; have := M.u_nonneg; have := b_pos M; positivity

theorem exp_two_lt : Real.exp 2 < 8 := by
  have h := Real.exp_one_lt_d9
  have : Real.exp 2 = Real.exp 1 * Real.exp 1 := by rw [← Real.exp_add]; norm_num
  rw [this]
  have hp := Real.exp_pos 1
  nlinarith

/-- |e^(-d) - e^(-s)| ≤ 8·u·b when d = s·(1+δ), |δ| ≤ u, s ≥ -1 -/
theorem exp_pert2 (s δ : ℝ) (hs : -1 ≤ s) (hδ : |δ| ≤ M.u) :
    |Real.exp (-(s * (1 + δ))) - Real.exp (-s)| ≤ 8 * (M.u * b M) := by
  have hu := M.u_nonneg
  have hu1 := M.u_lt
  have hb1 := one_le_b M
  have hub : 0 ≤ M.u * b M := mul_nonneg hu (b_pos M).le
  rcases le_total 0 s with h0 | h0
  · have := exp_pert M s δ h0 hδ
    linarith
  · -- -1 ≤ s ≤ 0
    have hδ' := abs_le.mp hδ
    have hbig : ∀ t : ℝ, -2 ≤ t → Real.exp (-t) ≤ 8 := by
      intro t ht
      have : Real.exp (-t) ≤ Real.exp 2 := Real.exp_le_exp.2 (by linarith)
      have := exp_two_lt
      linarith
    have hd : -2 ≤ s * (1 + δ) := by nlinarith
    have hdiff : |s * (1 + δ) - s| ≤ M.u := by
      have : s * (1 + δ) - s = s * δ := by ring
      rw [this, abs_mul]
      have hs1 : |s| ≤ 1 := by rw [abs_le]; constructor <;> linarith
      calc |s| * |δ| ≤ 1 * M.u := mul_le_mul hs1 hδ (abs_nonneg _) (by norm_num)
        _ = M.u := one_mul _
    have hdiff' := abs_le.mp hdiff
    have hfin : |Real.exp (-(s * (1 + δ))) - Real.exp (-s)| ≤ 8 * M.u := by
      rcases le_total (s * (1 + δ)) s with hle | hle
      · have h1 := exp_neg_diff hle
        have h2 := hbig (s * (1 + δ)) hd
        have hnn : 0 ≤ Real.exp (-(s * (1 + δ))) - Real.exp (-s) := by
          have : Real.exp (-s) ≤ Real.exp (-(s * (1 + δ))) := Real.exp_le_exp.2 (by linarith)
          linarith
        rw [abs_of_nonneg hnn]
        refine le_trans h1 ?_
        have hc : s - s * (1 + δ) ≤ M.u := by linarith
        have hc0 : 0 ≤ s - s * (1 + δ) := by linarith
        calc (s - s * (1 + δ)) * Real.exp (-(s * (1 + δ))) ≤ M.u * 8 := mul_le_mul hc h2 (Real.exp_pos _).le hu
          _ = 8 * M.u := by ring
      · have h1 := exp_neg_diff hle
        have h2 := hbig s (by linarith)
        have hnn : 0 ≤ Real.exp (-s) - Real.exp (-(s * (1 + δ))) := by
          have : Real.exp (-(s * (1 + δ))) ≤ Real.exp (-s) := Real.exp_le_exp.2 (by linarith)
          linarith
        rw [abs_sub_comm, abs_of_nonneg hnn]
        refine le_trans h1 ?_
        have hc : s * (1 + δ) - s ≤ M.u := by linarith
        have hc0 : 0 ≤ s * (1 + δ) - s := by linarith
        calc (s * (1 + δ) - s) * Real.exp (-s) ≤ M.u * 8 := mul_le_mul hc h2 (Real.exp_pos _).le hu
          _ = 8 * M.u := by ring
    have : 8 * M.u ≤ 8 * (M.u * b M) := by nlinarith
    linarith

/-- the rounded second correction term `ln_1p(exp(-fl(x+y)))` against `log(1 + e^(-(x+y)))` for x + y ≥ -1 -/
theorem corr2_err (s : ℝ) (hs : -1 ≤ s) :
    0 ≤ M.flog1p (M.fexp (-(M.fl s))) ∧
    |M.flog1p (M.fexp (-(M.fl s))) - Real.log (1 + Real.exp (-s))| ≤ c2 M ∧
    0 ≤ Real.log (1 + Real.exp (-s)) ∧ Real.log (1 + Real.exp (-s)) ≤ 2 := by
  obtain ⟨δ, hδ, hfl⟩ := fl_eq M s
  have hδ' := abs_le.mp hδ
  have hu := M.u_nonneg
  have hu1 := M.u_lt
  have he := M.e_nonneg
  have he1 := M.e_le
  rw [hfl]
  set d := s * (1 + δ) with hd
  have hd2 : -2 ≤ d := by rw [hd]; nlinarith
  have hexp8 : Real.exp (-d) ≤ 8 := by
    have : Real.exp (-d) ≤ Real.exp 2 := Real.exp_le_exp.2 (by linarith)
    have := exp_two_lt; linarith
  have hexp0 : 0 < Real.exp (-d) := Real.exp_pos _
  set E := M.fexp (-d) with hE
  have hEerr := M.exp_err (-d)
  have hEerr' := abs_le.mp hEerr
  have hE0 : 0 ≤ E := by nlinarith
  have hE16 : E ≤ 16 := by nlinarith
  have hEd : |E - Real.exp (-d)| ≤ 8 * M.e := le_trans hEerr (by nlinarith)
  have hpert := exp_pert2 M s δ hs hδ
  have hEE0 : |E - Real.exp (-s)| ≤ 8 * M.e + 8 * (M.u * b M) := by
    have : E - Real.exp (-s) = (E - Real.exp (-d)) + (Real.exp (-d) - Real.exp (-s)) := by ring
    rw [this]; exact le_trans (abs_add_le _ _) (add_le_add hEd hpert)
  have hLerr := M.log1p_err E hE0
  have hlogE : Real.log (1 + E) ≤ E := by
    have := Real.log_le_sub_one_of_pos (show 0 < 1 + E by linarith); linarith
  have hlogE0 : 0 ≤ Real.log (1 + E) := Real.log_nonneg (by linarith)
  have hLerr' := abs_le.mp hLerr
  have hs8 : Real.exp (-s) ≤ Real.exp 1 := Real.exp_le_exp.2 (by linarith)
  have he3 : Real.exp 1 < 3 := by have := Real.exp_one_lt_d9; linarith
  have hs0 : 0 < Real.exp (-s) := Real.exp_pos _
  refine ⟨by nlinarith, ?_, Real.log_nonneg (by linarith), ?_⟩
  · have hlip := log1p_lip hE0 hs0.le
    have : M.flog1p E - Real.log (1 + Real.exp (-s)) =
        (M.flog1p E - Real.log (1 + E)) + (Real.log (1 + E) - Real.log (1 + Real.exp (-s))) := by ring
    rw [this]
    refine le_trans (abs_add_le _ _) ?_
    have h3 : |M.flog1p E - Real.log (1 + E)| ≤ 16 * M.e := le_trans hLerr (by nlinarith)
    have h4 := le_trans hlip hEE0
    unfold c2
    linarith
  · have h4 : 1 + Real.exp (-s) ≤ 4 := by linarith
    have := Real.log_le_log (by linarith) h4
    have h22 : Real.log 4 = 2 * Real.log 2 := by
      rw [show (4 : ℝ) = 2 ^ 2 by norm_num, Real.log_pow]; norm_num
    have := log_two_le_one
    linarith

/-- per-step rounding error bound of the exact-form min* step when |min(x,y)| ≤ m -/
noncomputable def etaF (m : ℝ) : ℝ :=
  ((1 + M.u) * c1 M + M.u * (m + 1)) + c2 M + M.u * (m + 3 + ((1 + M.u) * c1 M + M.u * (m + 1)) + c2 M)

theorem etaF_nonneg {m : ℝ} (hm : 0 ≤ m) : 0 ≤ etaF M m := by
  unfold etaF
  have := M.u_nonneg; have := c1_nonneg M; have := c2_nonneg M
  positivity

theorem stepFull_r (x y : ℝ) : stepFull (Sc.rounded M) x y =
    M.fl (M.fl (min x y - M.flog1p (M.fexp (-|M.fl (x - y)|))) + M.flog1p (M.fexp (-(M.fl (x + y))))) := rfl

/-- the rounded exact-form step against the real one, on x + y ≥ -1 with |min(x,y)| ≤ m -/
theorem stepFull_err (x y m : ℝ) (hxy : -1 ≤ x + y) (hm : |min x y| ≤ m) :
    |stepFull (Sc.rounded M) x y - stepFull Sc.real x y| ≤ etaF M m := by
  rw [stepFull_r, BoxL.stepFull_real]
  obtain ⟨_, hL1⟩ := corr_err M x y
  obtain ⟨hL2n, hL2, hL20a, hL20b⟩ := corr2_err M (x + y) hxy
  obtain ⟨hL10a, hL10b⟩ := corr_real_le x y
  set L1 := M.flog1p (M.fexp (-|M.fl (x - y)|)) with hL1d
  set L2 := M.flog1p (M.fexp (-(M.fl (x + y)))) with hL2d
  set L10 := Real.log (1 + Real.exp (-|x - y|)) with hL10d
  set L20 := Real.log (1 + Real.exp (-(x + y))) with hL20d
  set mn := min x y with hmn
  have hu := M.u_nonneg
  have hc1 := c1_nonneg M
  have hc2 := c2_nonneg M
  have hm0 : 0 ≤ m := le_trans (abs_nonneg _) hm
  have hL1' : |L1 - L10| ≤ c1 M := by unfold c1; exact hL1
  obtain ⟨δ1, hδ1, hfl1⟩ := fl_eq M (mn - L1)
  set A := M.fl (mn - L1) with hA
  set a := (1 + M.u) * c1 M + M.u * (m + 1) with ha
  have hAerr : |A - (mn - L10)| ≤ a := by
    have e : A - (mn - L10) = (L10 - L1) + (mn - L1) * δ1 := by rw [hfl1]; ring
    rw [e]
    refine le_trans (abs_add_le _ _) ?_
    have h1 : |L10 - L1| ≤ c1 M := by rw [abs_sub_comm]; exact hL1'
    have h2 : |(mn - L1) * δ1| ≤ (m + 1 + c1 M) * M.u := by
      rw [abs_mul]
      refine mul_le_mul ?_ hδ1 (abs_nonneg _) (by linarith)
      have hL1a := abs_le.mp hL1'
      have hma := abs_le.mp hm
      rw [abs_le]; constructor <;> linarith
    rw [ha]; nlinarith
  obtain ⟨δ2, hδ2, hfl2⟩ := fl_eq M (A + L2)
  rw [hfl2]
  have e : (A + L2) * (1 + δ2) - (mn - L10 + L20) = (A - (mn - L10)) + (L2 - L20) + (A + L2) * δ2 := by ring
  rw [e]
  have hAabs : |A + L2| ≤ m + 3 + a + c2 M := by
    have hAa := abs_le.mp hAerr
    have hL2a := abs_le.mp hL2
    have hma := abs_le.mp hm
    rw [abs_le]; constructor <;> linarith
  have h3 : |(A + L2) * δ2| ≤ (m + 3 + a + c2 M) * M.u := by
    rw [abs_mul]
    have ha0 : 0 ≤ a := by rw [ha]; positivity
    exact mul_le_mul hAabs hδ2 (abs_nonneg _) (by linarith)
  have h12 := abs_add_le (A - (mn - L10)) (L2 - L20)
  refine le_trans (abs_add_le _ _) ?_
  unfold etaF
  rw [← ha]
  nlinarith

/-! ### the fold -/

/-- folding the rounded exact-form step against folding the real one; `hsmall`: the accumulated error stays below 1, so
that the rounded accumulator never drops below -1 -/
theorem fold_full_err (B : ℝ) (hB0 : 0 ≤ B) (xs : List ℝ) (hB : ∀ x ∈ xs, |x| ≤ B) : ∀ (a a' : ℝ), 0 ≤ a' → a' ≤ B →
    |a - a'| + xs.length * etaF M (B + 1) ≤ 1 →
    ∃ z z', foldAbs (Sc.rounded M) (stepFull (Sc.rounded M)) xs (some a) = some z ∧
      foldAbs Sc.real (stepFull Sc.real) xs (some a') = some z' ∧ 0 ≤ z' ∧ z' ≤ B ∧
      |z - z'| ≤ |a - a'| + xs.length * etaF M (B + 1) := by
  induction xs with
  | nil => intro a a' ha' haB _; exact ⟨a, a', rfl, rfl, ha', haB, by simp⟩
  | cons v t ih =>
    intro a a' ha' haB hsmall
    rw [foldAbs_some_cons, foldAbs_some_cons, r_abs, real_abs]
    have hη := etaF_nonneg M (m := B + 1) (by linarith)
    have hvB : |v| ≤ B := hB v (by simp)
    have hlen : ((v :: t).length : ℝ) = (t.length : ℝ) + 1 := by simp
    rw [hlen] at hsmall
    have htl : 0 ≤ (t.length : ℝ) * etaF M (B + 1) := mul_nonneg (Nat.cast_nonneg _) hη
    have haa : |a - a'| ≤ 1 := by linarith
    have haa' := abs_le.mp haa
    have ha1 : -1 ≤ a := by linarith
    have hmin : |min |v| a| ≤ B + 1 := by
      have h0 := abs_nonneg v
      rw [abs_le]; constructor
      · have : -1 ≤ min |v| a := le_min (by linarith) ha1
        linarith
      · have := min_le_left |v| a; linarith
    have hstep1 := stepFull_err M |v| a (B + 1) (by have := abs_nonneg v; linarith) hmin
    have hlip := TrackL.full_lip2 |v| a a' (abs_nonneg v)
    have hstep : |stepFull (Sc.rounded M) |v| a - stepFull Sc.real |v| a'| ≤ |a - a'| + etaF M (B + 1) := by
      have e : stepFull (Sc.rounded M) |v| a - stepFull Sc.real |v| a' =
          (stepFull (Sc.rounded M) |v| a - stepFull Sc.real |v| a) + (stepFull Sc.real |v| a - stepFull Sc.real |v| a') := by ring
      rw [e]
      refine le_trans (abs_add_le _ _) ?_
      linarith
    obtain ⟨hr0, _, _, _, hrle⟩ := BoxL.approx_step_bounds |v| a' (abs_nonneg v) ha'
    have hnew0 : 0 ≤ stepFull Sc.real |v| a' := by
      have := BoxL.approx_step_bounds |v| a' (abs_nonneg v) ha'
      exact this.2.2.2.1
    have hnewB : stepFull Sc.real |v| a' ≤ B := by
      have := (BoxL.approx_step_bounds |v| a' (abs_nonneg v) ha').2.2.2.2
      exact le_trans this (le_trans (min_le_left _ _) hvB)
    obtain ⟨z, z', hz, hz', hz0, hzB, hzz⟩ := ih (fun x hx => hB x (by simp [hx]))
      (stepFull (Sc.rounded M) |v| a) (stepFull Sc.real |v| a') hnew0 hnewB (by linarith)
    refine ⟨z, z', hz, hz', hz0, hzB, ?_⟩
    rw [hlen]
    linarith

/-! ### the A-Min* rule -/

theorem r_argmin : ∀ vals : List ℝ, argminAbs (Sc.rounded M) vals = argminAbs Sc.real vals
  | [] => rfl
  | [_] => rfl
  | v :: w :: rest => by
    have ih := r_argmin (w :: rest)
    simp only [argminAbs]
    rw [ih]
    cases argminAbs Sc.real (w :: rest) with
    | none => rfl
    | some p =>
      obtain ⟨j, x⟩ := p
      simp only []
      by_cases h : |v| ≤ |x|
      · have h1 : (Sc.rounded M).le ((Sc.rounded M).abs v) ((Sc.rounded M).abs x) = true := by rw [r_le]; exact h
        have h2 : Sc.real.le (Sc.real.abs v) (Sc.real.abs x) = true := by rw [real_le]; exact h
        rw [if_pos h1, if_pos h2]
      · have h1 : ¬ (Sc.rounded M).le ((Sc.rounded M).abs v) ((Sc.rounded M).abs x) = true := by rw [r_le]; exact h
        have h2 : ¬ Sc.real.le (Sc.real.abs v) (Sc.real.abs x) = true := by rw [real_le]; exact h
        rw [if_neg h1, if_neg h2]

theorem argminR_some : ∀ vals : List ℝ, vals ≠ [] → ∃ j w, argminAbs Sc.real vals = some (j, w) ∧ vals[j]? = some w
  | [], h => absurd rfl h
  | [v], _ => ⟨0, v, rfl, rfl⟩
  | v :: w :: rest, _ => by
    obtain ⟨j, x, hj, hx⟩ := argminR_some (w :: rest) (by simp)
    simp only [argminAbs, hj]
    by_cases h : Sc.real.le (Sc.real.abs v) (Sc.real.abs x) = true
    · exact ⟨0, v, by rw [if_pos h], rfl⟩
    · exact ⟨j + 1, x, by rw [if_neg h], by simpa using hx⟩

theorem checkAminF_eq (ms : List (ℕ × ℝ)) (j : ℕ) (w dF : ℝ)
    (h1 : argminAbs (Sc.rounded M) (ms.map (·.2)) = some (j, w))
    (h2 : foldAbs (Sc.rounded M) (stepFull (Sc.rounded M)) ((((ms.map (·.2)).zipIdx.filter (fun p => p.2 != j)).map (·.1))) none
      = some dF) :
    checkAmin (Sc.rounded M) ms = some
      (((ms.getD j (0, w)).1, if (signParity (Sc.rounded M) (ms.map (·.2)) != isNeg (Sc.rounded M) w) then -dF else dF) ::
        (ms.zipIdx.filter (fun p => p.2 != j)).map (fun p =>
          (p.1.1, if (signParity (Sc.rounded M) (ms.map (·.2)) != isNeg (Sc.rounded M) p.1.2) then -(stepFull (Sc.rounded M) dF |w|)
            else stepFull (Sc.rounded M) dF |w|))) := by
  simp only [checkAmin, h1, h2, Option.bind_eq_bind, Option.bind_some, Option.pure_def, r_neg, r_abs]

def RelF (e : ℝ) (o o' : ℕ × ℝ) : Prop := o.1 = o'.1 ∧ |o.2 - o'.2| ≤ e

theorem ite_neg_err (c : Bool) (x y e : ℝ) (h : |x - y| ≤ e) : |(if c = true then -x else x) - (if c = true then -y else y)| ≤ e := by
  cases c
  · simpa using h
  · simp only [if_true]
    rw [neg_sub_neg, abs_sub_comm]; exact h

theorem amin_rule (B : ℝ) (msgs : List (ℕ × ℝ)) (hB : ∀ m ∈ msgs, |m.2| ≤ B) (hd : 2 ≤ msgs.length)
    (hsmall : ((msgs.length - 1 : ℕ) : ℝ) * etaF M (B + 1) ≤ 1) :
    ∃ out outR, checkAmin (Sc.rounded M) msgs = some out ∧ checkAmin Sc.real msgs = some outR ∧
      out.map Prod.fst = outR.map Prod.fst ∧
      ∀ i, i < out.length →
        |(out.getD i (0, 0)).2 - (outR.getD i (0, 0)).2| ≤ ((msgs.length - 1 : ℕ) : ℝ) * etaF M (B + 1) := by
  set vals := msgs.map (·.2) with hvals
  have hne : vals ≠ [] := by
    intro h
    have h0 : vals.length = 0 := by rw [h]; rfl
    rw [hvals, List.length_map] at h0; omega
  have hB0 : 0 ≤ B := by
    obtain ⟨m, hm⟩ := List.exists_mem_of_length_pos (show 0 < msgs.length by omega)
    exact le_trans (abs_nonneg _) (hB m hm)
  obtain ⟨j, w, harg, hw⟩ := argminR_some vals hne
  have hargF : argminAbs (Sc.rounded M) vals = some (j, w) := by rw [r_argmin]; exact harg
  have hjlt : j < vals.length := by
    by_contra hc
    rw [List.getElem?_eq_none (by omega)] at hw; cases hw
  have hwmem : w ∈ vals := List.mem_of_getElem? hw
  have hwB : |w| ≤ B := by
    obtain ⟨m, hm, rfl⟩ := List.mem_map.mp hwmem
    exact hB m hm
  set others := (vals.zipIdx.filter (fun p => p.2 != j)).map (·.1) with hoth
  have hoth' : others = vals.eraseIdx j := I8.filter_zipIdx_eq_eraseIdx' vals j
  have holen : others.length = msgs.length - 1 := by
    rw [hoth', List.length_eraseIdx, if_pos hjlt]; simp [hvals]
  have hoB : ∀ x ∈ others, |x| ≤ B := by
    intro x hx
    rw [hoth'] at hx
    have := List.mem_of_mem_eraseIdx hx
    obtain ⟨m, hm, rfl⟩ := List.mem_map.mp this
    exact hB m hm
  have hη := etaF_nonneg M (m := B + 1) (by linarith)
  cases hcase : others with
  | nil => rw [hcase] at holen; simp at holen; omega
  | cons v t =>
    have htlen : t.length = msgs.length - 2 := by rw [hcase] at holen; simp at holen; omega
    have hvB : |v| ≤ B := hoB v (by rw [hcase]; simp)
    have hsm1 : |(|v| - |v|)| + (t.length : ℝ) * etaF M (B + 1) ≤ 1 := by
      rw [sub_self, abs_zero, zero_add]
      have h1 : (t.length : ℝ) ≤ ((msgs.length - 1 : ℕ) : ℝ) := by
        have : t.length ≤ msgs.length - 1 := by omega
        exact_mod_cast this
      exact le_trans (mul_le_mul_of_nonneg_right h1 hη) hsmall
    obtain ⟨z, z', hz, hz', hz0, hzB, hzz⟩ := fold_full_err M B hB0 t (fun x hx => hoB x (by rw [hcase]; simp [hx]))
      |v| |v| (abs_nonneg v) hvB hsm1
    rw [sub_self, abs_zero, zero_add] at hzz
    have hfoldF : foldAbs (Sc.rounded M) (stepFull (Sc.rounded M)) others none = some z := by
      rw [hcase, foldAbs_none_cons, r_abs]; exact hz
    have hfoldR : foldAbs Sc.real (stepFull Sc.real) others none = some z' := by
      rw [hcase, foldAbs_none_cons, real_abs]; exact hz'
    have hF := checkAminF_eq M msgs j w z hargF hfoldF
    have hR := TrackL.checkAminR_eq msgs j w z' harg hfoldR
    -- the final step towards the others
    have htl1 : ((t.length : ℝ) + 1) = ((msgs.length - 1 : ℕ) : ℝ) := by
      have : t.length + 1 = msgs.length - 1 := by omega
      exact_mod_cast this
    have hzz1 : |z - z'| ≤ 1 := by
      refine le_trans hzz ?_
      have h1 : (t.length : ℝ) ≤ ((msgs.length - 1 : ℕ) : ℝ) := by rw [← htl1]; linarith
      exact le_trans (mul_le_mul_of_nonneg_right h1 hη) hsmall
    have hzz1' := abs_le.mp hzz1
    have hzl : -1 ≤ z := by linarith
    have haw0 : 0 ≤ |w| := abs_nonneg w
    set aw := |w| with haw
    have hmin : |min z aw| ≤ B + 1 := by
      rw [abs_le]; constructor
      · have : -1 ≤ min z aw := le_min hzl (by linarith)
        linarith
      · have := min_le_right z aw; linarith
    have hs2 := stepFull_err M z aw (B + 1) (by linarith) hmin
    have hl2 := TrackL.full_lip1 z z' aw haw0
    have hd2 : |stepFull (Sc.rounded M) z aw - stepFull Sc.real z' aw| ≤ ((msgs.length - 1 : ℕ) : ℝ) * etaF M (B + 1) := by
      have e : stepFull (Sc.rounded M) z aw - stepFull Sc.real z' aw =
          (stepFull (Sc.rounded M) z aw - stepFull Sc.real z aw) + (stepFull Sc.real z aw - stepFull Sc.real z' aw) := by ring
      rw [e, ← htl1]
      refine le_trans (abs_add_le _ _) ?_
      nlinarith
    have hd1 : |z - z'| ≤ ((msgs.length - 1 : ℕ) : ℝ) * etaF M (B + 1) := by
      refine le_trans hzz ?_
      rw [← htl1]; nlinarith
    have hsig : signParity (Sc.rounded M) vals = signParity Sc.real vals := r_signParity M vals
    have hneg : ∀ x, isNeg (Sc.rounded M) x = isNeg Sc.real x := r_isNeg M
    have hFor : List.Forall₂ (RelF (((msgs.length - 1 : ℕ) : ℝ) * etaF M (B + 1)))
        (((msgs.getD j (0, w)).1, if (signParity (Sc.rounded M) vals != isNeg (Sc.rounded M) w) then -z else z) ::
          (msgs.zipIdx.filter (fun p => p.2 != j)).map (fun p =>
            (p.1.1, if (signParity (Sc.rounded M) vals != isNeg (Sc.rounded M) p.1.2) then -(stepFull (Sc.rounded M) z aw)
              else stepFull (Sc.rounded M) z aw)))
        (((msgs.getD j (0, w)).1, if (signParity Sc.real vals != isNeg Sc.real w) then -z' else z') ::
          (msgs.zipIdx.filter (fun p => p.2 != j)).map (fun p =>
            (p.1.1, if (signParity Sc.real vals != isNeg Sc.real p.1.2) then -(stepFull Sc.real z' aw)
              else stepFull Sc.real z' aw))) := by
      refine List.Forall₂.cons ⟨rfl, ?_⟩ ?_
      · rw [hsig, hneg]
        exact ite_neg_err _ z z' _ hd1
      · apply TrackL.forall₂_map_same
        intro p _
        refine ⟨rfl, ?_⟩
        rw [hsig, hneg]
        exact ite_neg_err _ _ _ _ hd2
    refine ⟨_, _, hF, hR, TrackL.forall₂_map_fst hFor (fun a c h => h.1), ?_⟩
    intro i hi
    exact (TrackL.forall₂_getD hFor (0, 0) (0, 0) i hi).2

/-! ### linear forms of the per-step bounds -/

theorem c1_le (hu : M.u ≤ 1 / 64) : c1 M ≤ 3 * (M.u + M.e) := by
  unfold c1
  have h0 := M.u_nonneg; have he := M.e_nonneg
  have hb := b_le M hu
  nlinarith

theorem c2_le (hu : M.u ≤ 1 / 64) : c2 M ≤ 24 * (M.u + M.e) := by
  unfold c2
  have h0 := M.u_nonneg; have he := M.e_nonneg
  have hb := b_le M hu
  nlinarith

theorem eta_linear (hu : M.u ≤ 1 / 64) (m : ℝ) (hm : 0 ≤ m) : eta M m ≤ 5 * (M.u + M.e) * (m + 1) := by
  have h0 := M.u_nonneg; have he := M.e_nonneg
  have h1 := c1_le M hu
  have hc := c1_nonneg M
  have e : eta M m = (1 + M.u) * c1 M + M.u * (m + 1) := by unfold eta c1; ring
  rw [e]
  have h2 : M.u * c1 M ≤ (1 / 64) * c1 M := mul_le_mul_of_nonneg_right hu hc
  have h3 : M.u * (m + 1) ≤ (M.u + M.e) * (m + 1) := mul_le_mul_of_nonneg_right (by linarith) (by linarith)
  have hs : 0 ≤ (M.u + M.e) * m := mul_nonneg (by linarith) hm
  nlinarith

theorem etaF_linear (hu : M.u ≤ 1 / 64) (m : ℝ) (hm : 0 ≤ m) : etaF M m ≤ 32 * (M.u + M.e) * (m + 1) := by
  have h0 := M.u_nonneg; have he := M.e_nonneg
  have h1 := c1_le M hu
  have h2 := c2_le M hu
  have hc1 := c1_nonneg M
  have hc2 := c2_nonneg M
  set s := M.u + M.e with hs
  have hs0 : 0 ≤ s := by rw [hs]; linarith
  have hus : M.u ≤ s := by rw [hs]; linarith
  set a := (1 + M.u) * c1 M + M.u * (m + 1) with ha
  have ha0 : 0 ≤ a := by rw [ha]; positivity
  have hale : a ≤ (65 / 64) * (3 * s) + s * (m + 1) := by
    rw [ha]
    have h3 : M.u * c1 M ≤ (1 / 64) * c1 M := mul_le_mul_of_nonneg_right hu hc1
    have h4 : M.u * (m + 1) ≤ s * (m + 1) := mul_le_mul_of_nonneg_right hus (by linarith)
    nlinarith
  have e : etaF M m = a + c2 M + M.u * (m + 3 + a + c2 M) := by unfold etaF; rw [← ha]
  rw [e]
  have h5 : M.u * (a + c2 M) ≤ (1 / 64) * (a + c2 M) := mul_le_mul_of_nonneg_right hu (by linarith)
  have h6 : M.u * (m + 3) ≤ s * (m + 3) := mul_le_mul_of_nonneg_right hus (by linarith)
  have hsm : 0 ≤ s * m := mul_nonneg hs0 hm
  nlinarith

end LdpcV.Round
