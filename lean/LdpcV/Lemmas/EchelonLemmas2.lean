/-
EchelonLemmas2 — the list-level row operations of `Model/Linalg.lean` (`findPivot`, `swapFrom`,
`eliminate`) seen through `Mat.get`, and the echelon invariant of `rowEchelon`.
-/
import LdpcV.Lemmas.EchelonLemmas1
namespace LdpcV.Lin

/-- `n` rows, each of length `m` -/
def e_Shape (n m : Nat) (a : Mat) : Prop :=
  a.length = n ∧ ∀ i, i < n → (a.getD i []).length = m

theorem e_get_eq (a : Mat) (r c : Nat) : a.get r c = (a.getD r []).getD c false := rfl

theorem e_get_of_ge (a : Mat) (r c : Nat) (h : a.length ≤ r) : a.get r c = false := by
  simp [Mat.get, List.getD_eq_getElem?_getD, List.getElem?_eq_none h]

theorem e_getD_of_ge (l : List Bool) (c : Nat) (h : l.length ≤ c) : l.getD c false = false := by
  simp [List.getD_eq_getElem?_getD, List.getElem?_eq_none h]

/-! ### generic list facts -/

theorem e_zipIdxMap_getD {α : Type} (l : List α) (g : α × Nat → Bool) (c : Nat) :
    ((l.zipIdx).map g).getD c false = match l[c]? with | some v => g (v, c) | none => false := by
  simp only [List.getD_eq_getElem?_getD, List.getElem?_map, List.getElem?_zipIdx]
  cases l[c]? <;> simp

theorem e_zip_getElem? {α β : Type} (x : List α) (y : List β) (c : Nat) :
    (x.zip y)[c]? = match x[c]?, y[c]? with | some u, some v => some (u, v) | _, _ => none := by
  rw [List.zip_eq_zipWith, List.getElem?_zipWith]
  cases x[c]? <;> cases y[c]? <;> rfl

theorem e_getD_set (l : List (List Bool)) (i r : Nat) (v : List Bool) :
    (l.set i v).getD r [] = if i = r ∧ i < l.length then v else l.getD r [] := by
  simp only [List.getD_eq_getElem?_getD, List.getElem?_set]
  by_cases h1 : i = r
  · subst h1
    by_cases h2 : i < l.length
    · simp [h2]
    · simp [h2]
  · simp [h1]

/-! ### `mix` (row swap from a column on) and `xorFrom` -/

def e_mix (start : Nat) (x y : List Bool) : List Bool :=
  (x.zip y).zipIdx.map (fun p => if start ≤ p.2 then p.1.2 else p.1.1)

theorem e_swapFrom_eq (a : Mat) (i k start : Nat) :
    swapFrom a i k start =
      (a.set i (e_mix start (a.getD i []) (a.getD k []))).set k (e_mix start (a.getD k []) (a.getD i [])) :=
  rfl

theorem e_mix_length (start : Nat) (x y : List Bool) (h : x.length = y.length) :
    (e_mix start x y).length = x.length := by
  simp [e_mix, List.length_zip, h]

theorem e_mix_getD (start : Nat) (x y : List Bool) (c : Nat) (h : x.length = y.length) :
    (e_mix start x y).getD c false = if start ≤ c then y.getD c false else x.getD c false := by
  rw [e_mix, e_zipIdxMap_getD, e_zip_getElem?]
  simp only [List.getD_eq_getElem?_getD]
  by_cases hc : c < x.length
  · have hy : c < y.length := by omega
    rw [List.getElem?_eq_getElem hc, List.getElem?_eq_getElem hy]
    simp
  · rw [List.getElem?_eq_none (by omega : x.length ≤ c), List.getElem?_eq_none (by omega : y.length ≤ c)]
    simp

theorem e_xorFrom_length (rt rj : List Bool) (start : Nat) (h : rt.length = rj.length) :
    (xorFrom rt rj start).length = rt.length := by
  simp [xorFrom, List.length_zip, h]

theorem e_xorFrom_getD (rt rj : List Bool) (start c : Nat) (h : rt.length = rj.length) :
    (xorFrom rt rj start).getD c false =
      if start ≤ c then xor (rt.getD c false) (rj.getD c false) else rt.getD c false := by
  rw [xorFrom, e_zipIdxMap_getD, e_zip_getElem?]
  simp only [List.getD_eq_getElem?_getD]
  by_cases hc : c < rt.length
  · have hy : c < rj.length := by omega
    rw [List.getElem?_eq_getElem hc, List.getElem?_eq_getElem hy]
    simp
  · rw [List.getElem?_eq_none (by omega : rt.length ≤ c), List.getElem?_eq_none (by omega : rj.length ≤ c)]
    simp

/-! ### `swapFrom` -/

theorem e_swapFrom_getD (a : Mat) (n i k start r : Nat) (hn : a.length = n) (hi : i < n) (hk : k < n)
    (hik : i ≠ k) :
    (swapFrom a i k start).getD r [] =
      if r = k then e_mix start (a.getD k []) (a.getD i [])
      else if r = i then e_mix start (a.getD i []) (a.getD k []) else a.getD r [] := by
  rw [e_swapFrom_eq, e_getD_set, e_getD_set, List.length_set]
  by_cases h1 : r = k
  · subst h1; simp [hn, hk]
  · have : ¬ k = r := fun e => h1 e.symm
    by_cases h2 : r = i
    · subst h2; simp [this, h1, hn, hi]
    · have : ¬ i = r := fun e => h2 e.symm
      simp [*]

theorem e_swapFrom_shape (a : Mat) (n m i k start : Nat) (hs : e_Shape n m a) (hi : i < n) (hk : k < n)
    (hik : i ≠ k) : e_Shape n m (swapFrom a i k start) := by
  refine ⟨by simp [e_swapFrom_eq, hs.1], ?_⟩
  intro r hr
  rw [e_swapFrom_getD a n i k start r hs.1 hi hk hik]
  have h1 := hs.2 i hi
  have h2 := hs.2 k hk
  split
  · rw [e_mix_length _ _ _ (by omega)]; exact h2
  · split
    · rw [e_mix_length _ _ _ (by omega)]; exact h1
    · exact hs.2 r hr

theorem e_swapFrom_get (a : Mat) (n m i k start : Nat) (hs : e_Shape n m a) (hi : i < n) (hk : k < n)
    (hik : i ≠ k) (hzi : ∀ c, c < start → a.get i c = false) (hzk : ∀ c, c < start → a.get k c = false) :
    (swapFrom a i k start).get = e_swapF a.get i k := by
  funext r c
  have h1 := hs.2 i hi
  have h2 := hs.2 k hk
  rw [e_get_eq, e_swapFrom_getD a n i k start r hs.1 hi hk hik]
  simp only [e_swapF]
  by_cases hr1 : r = k
  · simp only [hr1, if_true]
    rw [e_mix_getD _ _ _ _ (by omega)]
    split
    · rfl
    · rw [← e_get_eq, hzk c (by omega), hzi c (by omega)]
  · simp only [hr1, if_false]
    by_cases hr2 : r = i
    · simp only [hr2, if_true]
      rw [e_mix_getD _ _ _ _ (by omega)]
      split
      · rfl
      · rw [← e_get_eq, hzk c (by omega), hzi c (by omega)]
    · simp only [hr2, if_false]; rfl

/-! ### `eliminate` -/

theorem e_eliminate_getD (a : Mat) (piv col start : Nat) (sel : Nat → Bool) (r : Nat) :
    (eliminate a piv col start sel).getD r [] =
      if sel r && a.get r col then xorFrom (a.getD r []) (a.getD piv []) start else a.getD r [] := by
  simp only [eliminate, List.getD_eq_getElem?_getD, List.getElem?_map, List.getElem?_zipIdx, Mat.get]
  cases h : a[r]? with
  | none => simp [xorFrom]
  | some row => simp

theorem e_eliminate_shape (a : Mat) (n m piv col start : Nat) (sel : Nat → Bool) (hs : e_Shape n m a)
    (hp : piv < n) : e_Shape n m (eliminate a piv col start sel) := by
  refine ⟨by simp [eliminate, hs.1], ?_⟩
  intro r hr
  rw [e_eliminate_getD]
  split
  · rw [e_xorFrom_length _ _ _ (by rw [hs.2 r hr, hs.2 piv hp])]; exact hs.2 r hr
  · exact hs.2 r hr

theorem e_eliminate_get (a : Mat) (n m piv col start : Nat) (sel : Nat → Bool) (hs : e_Shape n m a)
    (hp : piv < n) (hz : ∀ c, c < start → a.get piv c = false) :
    (eliminate a piv col start sel).get = e_addF a.get piv (fun t => sel t && a.get t col) := by
  funext r c
  rw [e_get_eq, e_eliminate_getD]
  simp only [e_addF]
  by_cases hr : r < n
  · cases hsel : (sel r && a.get r col) with
    | false => simp [e_get_eq]
    | true =>
      simp only [if_true, Bool.true_and]
      rw [e_xorFrom_getD _ _ _ _ (by rw [hs.2 r hr, hs.2 piv hp])]
      split
      · rfl
      · rw [hz c (by omega)]; simp [Mat.get]
  · have h1 : ∀ c, a.get r c = false := fun c => e_get_of_ge a r c (by have := hs.1; omega)
    rw [h1 col]
    simp only [Bool.and_false, Bool.false_eq_true, if_false, Bool.false_and, Bool.xor_false]
    rfl

/-! ### `findPivot` -/

theorem e_findPivot_some (a : Mat) (start col s : Nat) (h : findPivot a start col = some s) :
    start ≤ s ∧ s < a.length ∧ a.get s col = true := by
  unfold findPivot at h
  rw [List.head?_eq_some_iff] at h
  obtain ⟨ys, hys⟩ := h
  have : s ∈ (List.range a.length).filter (fun i => decide (start ≤ i) && a.get i col) := by
    rw [hys]; exact List.mem_cons_self ..
  simp only [List.mem_filter, List.mem_range, Bool.and_eq_true, decide_eq_true_eq] at this
  exact ⟨this.2.1, this.1, this.2.2⟩

theorem e_findPivot_none (a : Mat) (start col : Nat) (h : findPivot a start col = none) :
    ∀ r, start ≤ r → a.get r col = false := by
  unfold findPivot at h
  rw [List.head?_eq_none_iff, List.filter_eq_nil_iff] at h
  intro r hr
  by_cases hl : r < a.length
  · have := h r (List.mem_range.mpr hl)
    simpa [hr] using this
  · exact e_get_of_ge a r col (by omega)

/-! ### the echelon invariant of `rowEchelon` -/

theorem e_rowEchelon_spec (n m : Nat) (fuel j k : Nat) (a : Mat) (p : Nat → Nat)
    (hs : e_Shape n m a) (he : e_Ech a.get j k p) (hfuel : m ≤ fuel + j) (hj : j ≤ m) (hk : k ≤ n) :
    ∃ j' k' p', e_Ech (rowEchelon n m fuel j k a).get j' k' p' ∧ j' ≤ m ∧ k' ≤ n ∧
      (k' = n ∨ j' = m) ∧ e_RowEq n a.get (rowEchelon n m fuel j k a).get := by
  induction fuel generalizing j k a p with
  | zero =>
    refine ⟨j, k, p, ?_, hj, hk, Or.inr (by omega), ?_⟩
    · simpa [rowEchelon] using he
    · simpa [rowEchelon] using e_RowEq.refl _
  | succ fuel ih =>
    unfold rowEchelon
    by_cases hc : j < m ∧ k < n
    · rw [if_pos hc]
      cases hf : findPivot a k j with
      | none =>
        simp only []
        have hz := e_findPivot_none a k j hf
        have he' : e_Ech a.get (j + 1) k p := by
          refine ⟨?_, fun i hi => Nat.lt_succ_of_lt (he.plt i hi), he.pone, he.pzero, he.pbelow, he.pmono⟩
          intro r c hr hcj
          by_cases hcj' : c < j
          · exact he.zleft r c hr hcj'
          · have : c = j := by omega
            subst this; exact hz r hr
        exact ih (j + 1) k a p hs he' (by omega) (by omega) hk
      | some s =>
        simp only []
        obtain ⟨hks, hsn, hsj⟩ := e_findPivot_some a k j s hf
        rw [hs.1] at hsn
        -- the swap
        have hsw : ∃ a1 : Mat, (if s ≠ k then swapFrom a s k j else a) = a1 ∧ e_Shape n m a1 ∧
            a1.get = e_swapF a.get s k := by
          by_cases hsk : s = k
          · refine ⟨a, by simp [hsk], hs, ?_⟩
            funext r c; subst hsk; simp only [e_swapF]; split <;> simp_all
          · refine ⟨swapFrom a s k j, by simp [hsk], e_swapFrom_shape a n m s k j hs hsn hc.2 hsk, ?_⟩
            exact e_swapFrom_get a n m s k j hs hsn hc.2 hsk
              (fun c hcj => he.zleft s c hks hcj) (fun c hcj => he.zleft k c (Nat.le_refl k) hcj)
        obtain ⟨a1, ha1, hs1, hg1⟩ := hsw
        rw [ha1]
        have hz1 : ∀ r c, k ≤ r → c < j → a1.get r c = false := by
          intro r c hr hcj
          rw [hg1]; simp only [e_swapF]
          split
          · exact he.zleft s c hks hcj
          · split
            · exact he.zleft k c (Nat.le_refl k) hcj
            · exact he.zleft r c hr hcj
        have hlow1 : ∀ r c, r < k → a1.get r c = a.get r c := by
          intro r c hr
          rw [hg1]; simp only [e_swapF]
          rw [if_neg (by omega), if_neg (by omega)]
        have hpiv1 : a1.get k j = true := by
          rw [hg1]; simp only [e_swapF, if_true]; exact hsj
        -- the elimination
        have hg2 := e_eliminate_get a1 n m k j j (fun t => decide (k < t)) hs1 hc.2
          (fun c hcj => hz1 k c (Nat.le_refl k) hcj)
        have hs2 := e_eliminate_shape a1 n m k j j (fun t => decide (k < t)) hs1 hc.2
        generalize eliminate a1 k j j (fun t => decide (k < t)) = a2 at hg2 hs2 ⊢
        have hlow2 : ∀ r c, r ≤ k → a2.get r c = a1.get r c := by
          intro r c hr
          rw [hg2]; simp only [e_addF]
          have : decide (k < r) = false := by simp; omega
          simp [this]
        have hz2 : ∀ r c, k ≤ r → c < j → a2.get r c = false := by
          intro r c hr hcj
          rw [hg2]; simp only [e_addF]
          rw [hz1 r c hr hcj, hz1 k c (Nat.le_refl k) hcj]; simp
        have hcol2 : ∀ r, k < r → a2.get r j = false := by
          intro r hr
          rw [hg2]; simp only [e_addF]
          have : decide (k < r) = true := by simp; omega
          rw [this, hpiv1]
          cases a1.get r j <;> rfl
        have he2 : e_Ech a2.get (j + 1) (k + 1) (fun i => if i = k then j else p i) := by
          refine ⟨?_, ?_, ?_, ?_, ?_, ?_⟩
          · intro r c hr hcj
            by_cases hcj' : c < j
            · exact hz2 r c (by omega) hcj'
            · have : c = j := by omega
              subst this; exact hcol2 r (by omega)
          · intro i hi
            by_cases hik : i = k
            · simp [hik]
            · simp only [hik, if_false]
              have := he.plt i (by omega); omega
          · intro i hi
            by_cases hik : i = k
            · simp only [hik, if_true]
              rw [hlow2 k j (Nat.le_refl k)]; exact hpiv1
            · simp only [hik, if_false]
              rw [hlow2 i _ (by omega), hlow1 i _ (by omega)]
              exact he.pone i (by omega)
          · intro i c hi hcp
            by_cases hik : i = k
            · simp only [hik, if_true] at hcp
              subst hik
              exact hz2 i c (Nat.le_refl i) hcp
            · simp only [hik, if_false] at hcp
              rw [hlow2 i _ (by omega), hlow1 i _ (by omega)]
              exact he.pzero i c (by omega) hcp
          · intro i i' hi hii'
            by_cases hik : i = k
            · simp only [hik, if_true]
              exact hcol2 i' (by omega)
            · simp only [hik, if_false]
              have hik' : i < k := by omega
              by_cases hi'k : i' < k
              · rw [hlow2 i' _ (by omega), hlow1 i' _ hi'k]
                exact he.pbelow i i' hik' hii'
              · exact hz2 i' _ (by omega) (he.plt i hik')
          · intro i i' hii' hi'
            by_cases hi'k : i' = k
            · have hik : ¬ i = k := by omega
              simp only [hi'k, hik, if_true, if_false]
              exact he.plt i (by omega)
            · have hik : ¬ i = k := by omega
              simp only [hi'k, hik, if_false]
              exact he.pmono i i' hii' (by omega)
        obtain ⟨j', k', p', h1, h2, h3, h4, h5⟩ :=
          ih (j + 1) (k + 1) a2 _ hs2 he2 (by omega) (by omega) (by omega)
        refine ⟨j', k', p', h1, h2, h3, h4, ?_⟩
        -- a ~ a1 ~ a2 ~ result
        have h6 : e_RowEq n a1.get (rowEchelon n m fuel (j + 1) (k + 1) a2).get := by
          refine e_RowEq.add _ _ k (fun t => decide (k < t) && a1.get t j) hc.2 (by simp) ?_
          rw [← hg2]; exact h5
        by_cases hsk : s = k
        · have : a1 = a := by rw [← ha1]; simp [hsk]
          rw [← this]; exact h6
        · refine e_RowEq.swap s k hsn hc.2 hsk ?_
          rw [← hg1]; exact h6
    · rw [if_neg hc]
      refine ⟨j, k, p, he, hj, hk, ?_, e_RowEq.refl _⟩
      omega

/-- the final state of `rowEchelonForm`: either `n` pivots, or fewer and the rows from `k'` on vanish -/
theorem e_rowEchelonForm_spec (n m : Nat) (a : Mat) (hs : e_Shape n m a) :
    e_RowEq n a.get (rowEchelonForm a n m).get ∧
      ((∃ j' p', j' ≤ m ∧ e_Ech (rowEchelonForm a n m).get j' n p') ∨
       (∃ k', k' < n ∧ ∀ r c, k' ≤ r → c < m → (rowEchelonForm a n m).get r c = false)) := by
  have he0 : e_Ech a.get 0 0 (fun _ => 0) :=
    ⟨fun _ _ _ h => by omega, fun _ h => by omega, fun _ h => by omega, fun _ _ h => by omega,
     fun _ _ h => by omega, fun _ _ _ h => by omega⟩
  obtain ⟨j', k', p', h1, h2, h3, h4, h5⟩ :=
    e_rowEchelon_spec n m m 0 0 a _ hs he0 (by omega) (by omega) (by omega)
  refine ⟨h5, ?_⟩
  by_cases hk : k' = n
  · left
    subst hk
    exact ⟨j', p', h2, h1⟩
  · right
    have hj : j' = m := by omega
    subst hj
    exact ⟨k', by omega, fun r c hr hc => h1.zleft r c hr hc⟩

end LdpcV.Lin
