/-
GaussLemmas3 — the sparse side of `fromH` / `encode`: the dense image `ofSM` with the column map of
`fromH`, the fold of inserts that builds `H0`, the staircase recognizer (with the pigeonhole
argument), the running sums of the staircase encoder.  Core only.
-/
import LdpcV.Lemmas.GaussLemmas2
namespace LdpcV.Lin

attribute [-simp] List.getD_eq_getElem?_getD

/-! ### small list facts -/

theorem g_getD_append {α : Type} (a b : List α) (i : Nat) (d : α) :
    (a ++ b).getD i d = if i < a.length then a.getD i d else b.getD (i - a.length) d := by
  simp only [List.getD_eq_getElem?_getD, List.getElem?_append]
  split <;> rfl

theorem g_getD_map_range (n : Nat) (F : Nat → Bool) (i : Nat) (hi : i < n) :
    ((List.range n).map F).getD i false = F i := by
  simp [List.getD_eq_getElem?_getD, hi]

theorem g_getD_drop (l : List Bool) (n c : Nat) : (l.drop n).getD c false = l.getD (n + c) false := by
  simp [List.getD_eq_getElem?_getD, List.getElem?_drop]

theorem g_row_mem_rows (h : SM) (i : Nat) (hi : i < h.nrows) : h.rows[i]'hi = h.row i := by
  unfold SM.row
  rw [g_getD_lt _ _ _ hi]

theorem g_xorAll_map_xor (row : List Nat) (a b : Nat → Bool) :
    xorAll (row.map (fun k => xor (a k) (b k))) = xor (xorAll (row.map a)) (xorAll (row.map b)) := by
  induction row with
  | nil => rfl
  | cons k r ih =>
    simp only [List.map_cons, g_xorAll_cons, ih]
    cases a k <;> cases b k <;> cases xorAll (r.map a) <;> cases xorAll (r.map b) <;> rfl

/-! ### pigeonhole for duplicate-free lists -/

theorem g_nodup_length_le {α : Type} [DecidableEq α] (s : List α) :
    ∀ l : List α, l.Nodup → (∀ x ∈ l, x ∈ s) → l.length ≤ s.length := by
  induction s with
  | nil =>
    intro l _ hsub
    cases l with
    | nil => simp
    | cons x l => exact absurd (hsub x List.mem_cons_self) (by simp)
  | cons a s ih =>
    intro l hl hsub
    have h1 := ih (l.erase a) (hl.erase a) (by
      intro x hx
      rw [hl.mem_erase_iff] at hx
      have := hsub x hx.2
      simp only [List.mem_cons] at this
      rcases this with h | h
      · exact absurd h hx.1
      · exact h)
    rw [List.length_erase] at h1
    simp only [List.length_cons]
    split at h1 <;> omega

theorem g_pigeon {α : Type} [DecidableEq α] (l s : List α) (hl : l.Nodup)
    (hsub : ∀ x ∈ l, x ∈ s) (hlen : s.length ≤ l.length) : ∀ x ∈ s, x ∈ l := by
  intro x hx
  apply Classical.byContradiction
  intro hnx
  have h1 := g_nodup_length_le (s.erase x) l hl (by
    intro y hy
    have hne : y ≠ x := fun e => hnx (e ▸ hy)
    rw [List.mem_erase_of_ne hne]
    exact hsub y hy)
  rw [List.length_erase_of_mem hx] at h1
  have : 0 < s.length := List.length_pos_of_mem hx
  omega

/-! ### `ofSM` -/

theorem g_shape_ofSM (h : SM) (f : Nat → Nat) : g_Shape (ofSM h f) h.nrows h.ncols := by
  refine ⟨by simp [ofSM], ?_⟩
  intro r hr
  simp only [ofSM, List.mem_map] at hr
  obtain ⟨_, _, rfl⟩ := hr
  simp

theorem g_get_ofSM (h : SM) (f : Nat → Nat) (i t : Nat) (hi : i < h.nrows) (ht : t < h.ncols) :
    (ofSM h f).get i t = (h.row i).any (fun k => f k == t) := by
  have e : (ofSM h f).getD i [] =
      (List.range h.ncols).map (fun t => (h.row i).any (fun k => f k == t)) := by
    unfold ofSM
    rw [g_getD_lt _ _ _ (by simpa using hi)]
    simp
  unfold Mat.get
  rw [e, g_getD_map_range _ _ _ ht]

/-- the column map of `fromH`: the parity part (last `n` columns) moves to the front -/
def g_colmap (n m : Nat) : Nat → Nat := fun k => if k < m - n then k + n else k - (m - n)

theorem g_get_ofSM_left (h : SM) (hinv : h.Inv) (hn : h.nrows ≤ h.ncols)
    (i t : Nat) (hi : i < h.nrows) (ht : t < h.nrows) :
    (ofSM h (g_colmap h.nrows h.ncols)).get i t = h.mem i (h.ncols - h.nrows + t) := by
  rw [g_get_ofSM h _ i t hi (by omega), Bool.eq_iff_iff, List.any_eq_true, SM.mem_iff]
  constructor
  · rintro ⟨k, hk, hf⟩
    have hkm := (hinv.1 i k hk).2.1
    simp only [g_colmap, beq_iff_eq] at hf
    split at hf
    · omega
    · have : k = h.ncols - h.nrows + t := by omega
      rw [← this]; exact hk
  · intro hk
    refine ⟨_, hk, ?_⟩
    simp only [g_colmap, beq_iff_eq]
    split <;> omega

theorem g_get_ofSM_right (h : SM) (hinv : h.Inv) (hn : h.nrows ≤ h.ncols)
    (i t : Nat) (hi : i < h.nrows) (ht : t < h.ncols - h.nrows) :
    (ofSM h (g_colmap h.nrows h.ncols)).get i (h.nrows + t) = h.mem i t := by
  rw [g_get_ofSM h _ i _ hi (by omega), Bool.eq_iff_iff, List.any_eq_true, SM.mem_iff]
  constructor
  · rintro ⟨k, hk, hf⟩
    have hkm := (hinv.1 i k hk).2.1
    simp only [g_colmap, beq_iff_eq] at hf
    split at hf
    · have : k = t := by omega
      rw [← this]; exact hk
    · omega
  · intro hk
    refine ⟨_, hk, ?_⟩
    simp only [g_colmap, beq_iff_eq]
    split <;> omega

/-- a row sum of `[H1 H0]` against the permuted vector is the row sum of `H` -/
theorem g_rowsum_ofSM (h : SM) (hinv : h.Inv) (hn : h.nrows ≤ h.ncols) (wf : Nat → Bool)
    (i : Nat) (hi : i < h.nrows) :
    g_xsum h.ncols (fun c => (ofSM h (g_colmap h.nrows h.ncols)).get i c &&
        (if c < h.nrows then wf (h.ncols - h.nrows + c) else wf (c - h.nrows))) =
      g_xsum h.ncols (fun c => h.mem i c && wf c) := by
  have e1 : h.ncols = h.nrows + (h.ncols - h.nrows) := by omega
  have e2 : h.ncols = (h.ncols - h.nrows) + h.nrows := by omega
  generalize hd : h.ncols - h.nrows = d at *
  generalize hA : ofSM h (g_colmap h.nrows h.ncols) = A at *
  have hl := fun t ht => hd ▸ g_get_ofSM_left h hinv hn i t hi ht
  have hr := fun t ht => g_get_ofSM_right h hinv hn i t hi (hd ▸ ht)
  rw [hA] at hl hr
  have lhs : g_xsum h.ncols (fun c => A.get i c &&
        (if c < h.nrows then wf (d + c) else wf (c - h.nrows))) =
      xor (g_xsum h.nrows (fun c => h.mem i (d + c) && wf (d + c)))
        (g_xsum d (fun c => h.mem i c && wf c)) := by
    conv => lhs; rw [e1]
    rw [g_xsum_add]
    congr 1
    · apply g_xsum_congr
      intro c hc
      simp only [hc, if_true, hl c hc]
    · apply g_xsum_congr
      intro c hc
      have : ¬ h.nrows + c < h.nrows := by omega
      simp only [this, if_false, hr c hc, Nat.add_sub_cancel_left]
  have rhs : g_xsum h.ncols (fun c => h.mem i c && wf c) =
      xor (g_xsum d (fun c => h.mem i c && wf c))
        (g_xsum h.nrows (fun c => h.mem i (d + c) && wf (d + c))) := by
    conv => lhs; rw [e2]
    rw [g_xsum_add]
  rw [lhs, rhs, Bool.xor_comm]

/-! ### the fold of inserts that builds `H0` -/

theorem g_foldl_insert (l : List (Nat × Nat)) : ∀ (g0 g : SM), g0.Inv →
    l.foldlM (fun g p => g.insert p.1 p.2) g0 = some g →
    g.Inv ∧ g.nrows = g0.nrows ∧ g.ncols = g0.ncols ∧
      ∀ r c, g.mem r c = (g0.mem r c || decide ((r, c) ∈ l)) := by
  induction l with
  | nil =>
    intro g0 g hinv h
    simp only [List.foldlM_nil, Option.pure_def, Option.some.injEq] at h
    subst h
    exact ⟨hinv, rfl, rfl, by simp⟩
  | cons p l ih =>
    intro g0 g hinv h
    simp only [List.foldlM_cons] at h
    cases h1e : g0.insert p.1 p.2 with
    | none => simp [h1e] at h
    | some g1 =>
      rw [h1e] at h
      simp only [Option.bind_eq_bind, Option.bind_some] at h
      obtain ⟨i1, r1, c1, m1⟩ := SM.insert_spec g0 g1 p.1 p.2 hinv h1e
      obtain ⟨i2, r2, c2, m2⟩ := ih g1 g i1 h
      refine ⟨i2, r2.trans r1, c2.trans c1, ?_⟩
      intro r c
      rw [m2 r c, m1]
      simp only [PosSet.ins, List.mem_cons]
      have : ((r, c) = p) ↔ (r = p.1 ∧ c = p.2) := by
        cases p; simp
      by_cases hp : (r, c) = p
      · have hp' := this.mp hp
        simp [hp'.1, hp'.2]
      · have hp' : ¬ (r = p.1 ∧ c = p.2) := fun e => hp (this.mpr e)
        have : ((r == p.1) && (c == p.2)) = false := by
          by_cases hr1 : r = p.1 <;> by_cases hc1 : c = p.2 <;> simp_all
        simp [hp, this]

theorem g_foldl_insert_total (l : List (Nat × Nat)) : ∀ (g0 : SM),
    (∀ p ∈ l, p.1 < g0.nrows ∧ p.2 < g0.ncols) →
    ∃ g, l.foldlM (fun g p => g.insert p.1 p.2) g0 = some g := by
  induction l with
  | nil => intro g0 _; exact ⟨g0, rfl⟩
  | cons p l ih =>
    intro g0 hb
    have hp := hb p List.mem_cons_self
    have hi : g0.insert p.1 p.2 = some (g0.insertRaw p.1 p.2) := by
      simp [SM.insert, SM.inRange, hp.1, hp.2]
    simp only [List.foldlM_cons, hi, Option.bind_eq_bind, Option.bind_some]
    apply ih
    intro q hq
    simpa using hb q (List.mem_cons_of_mem _ hq)

/-! ### the staircase recognizer -/

/-- the `2n - 1` positions of the dual diagonal, shifted by `off` columns -/
def g_stairPos (n off : Nat) : List (Nat × Nat) :=
  (List.range n).map (fun i => (i, off + i)) ++ (List.range (n - 1)).map (fun i => (i + 1, off + i))

theorem g_length_stairPos (n off : Nat) (hn : 1 ≤ n) : (g_stairPos n off).length = 2 * n - 1 := by
  simp [g_stairPos]; omega

theorem g_mem_stairPos (n off : Nat) (p : Nat × Nat) :
    p ∈ g_stairPos n off ↔ p.1 < n ∧ (p.2 = off + p.1 ∨ (1 ≤ p.1 ∧ p.2 + 1 = off + p.1)) := by
  obtain ⟨r, c⟩ := p
  simp only [g_stairPos, List.mem_append, List.mem_map, List.mem_range, Prod.mk.injEq]
  constructor
  · rintro (⟨i, hi, rfl, rfl⟩ | ⟨i, hi, rfl, rfl⟩)
    · exact ⟨hi, Or.inl rfl⟩
    · exact ⟨by omega, Or.inr ⟨by omega, by omega⟩⟩
  · rintro ⟨hr, h | ⟨h1, h2⟩⟩
    · exact Or.inl ⟨r, hr, rfl, h.symm⟩
    · exact Or.inr ⟨r - 1, by omega, by omega, by omega⟩

theorem g_nodup_stairPos (n off : Nat) : (g_stairPos n off).Nodup := by
  unfold g_stairPos
  rw [List.nodup_append]
  refine ⟨?_, ?_, ?_⟩
  · rw [List.nodup_iff_pairwise_ne, List.pairwise_map]
    exact List.Pairwise.imp (fun hne e => hne (by simpa using congrArg Prod.fst e))
      (List.nodup_iff_pairwise_ne.mp List.nodup_range)
  · rw [List.nodup_iff_pairwise_ne, List.pairwise_map]
    exact List.Pairwise.imp (fun hne e => hne (by simpa using congrArg Prod.snd e))
      (List.nodup_iff_pairwise_ne.mp List.nodup_range)
  · intro a ha b hb e
    simp only [List.mem_map, List.mem_range] at ha hb
    obtain ⟨i, _, rfl⟩ := ha
    obtain ⟨k, _, rfl⟩ := hb
    simp only [Prod.mk.injEq] at e
    omega

/-- the tail scan of `isStaircase` -/
def g_tail (h : SM) : List (Nat × Nat) := h.iterAll.filter (fun p => h.ncols - h.nrows ≤ p.2)

def g_stairTest (h : SM) (p : Nat × Nat) : Bool :=
  if p.1 = 0 then p.2 = h.ncols - h.nrows
  else (p.2 = h.ncols - h.nrows + p.1 - 1 ∨ p.2 = h.ncols - h.nrows + p.1)

theorem g_isStaircase_eq (h : SM) (hr : 1 ≤ h.nrows) (hn : h.nrows ≤ h.ncols) :
    isStaircase h = some ((g_tail h).all (g_stairTest h) && decide ((g_tail h).length = 2 * h.nrows - 1)) := by
  unfold isStaircase
  have h1 : ¬ h.nrows > h.ncols := by omega
  have h2 : ¬ h.nrows = 0 := by omega
  simp only [h1, if_false, h2]
  show (if (g_tail h).all (g_stairTest h) = true then _ else _) = _
  split
  · next ha => rw [ha]; rfl
  · next ha =>
    have : (g_tail h).all (g_stairTest h) = false := by simpa using ha
    rw [this]; rfl

theorem g_mem_tail (h : SM) (r c : Nat) :
    (r, c) ∈ g_tail h ↔ h.mem r c = true ∧ h.ncols - h.nrows ≤ c := by
  simp [g_tail, List.mem_filter, SM.mem_iterAll, SM.mem_iff]

theorem g_nodup_tail (h : SM) (hinv : h.Inv) : (g_tail h).Nodup :=
  SM.nodup_filter _ (SM.nodup_iterAll h hinv.2.2.1)

theorem g_stairTest_iff (h : SM) (hn : h.nrows ≤ h.ncols) (i j : Nat) :
    g_stairTest h (i, h.ncols - h.nrows + j) = true ↔ (j = i ∨ j + 1 = i) := by
  unfold g_stairTest
  by_cases hi : i = 0
  · simp [hi]
  · simp only [hi, if_false, decide_eq_true_eq]
    omega

theorem g_staircase_iff (h : SM) (hinv : h.Inv) (hr : 1 ≤ h.nrows) (hn : h.nrows ≤ h.ncols) :
    ((g_tail h).all (g_stairTest h) && decide ((g_tail h).length = 2 * h.nrows - 1)) = true ↔
      ∀ i j, i < h.nrows → j < h.nrows →
        (h.mem i (h.ncols - h.nrows + j) = true ↔ (j = i ∨ j + 1 = i)) := by
  have hS := g_mem_stairPos h.nrows (h.ncols - h.nrows)
  have hT := g_mem_tail h
  -- every tail entry is in range
  have hrange : ∀ r c, (r, c) ∈ g_tail h → r < h.nrows ∧ ∃ j, j < h.nrows ∧ c = h.ncols - h.nrows + j := by
    intro r c hp
    rw [hT, SM.mem_iff] at hp
    have := hinv.1 r c hp.1
    exact ⟨this.1, c - (h.ncols - h.nrows), by omega, by omega⟩
  rw [Bool.and_eq_true, List.all_eq_true, decide_eq_true_eq]
  constructor
  · rintro ⟨hall, hlen⟩
    have hsub : ∀ p ∈ g_tail h, p ∈ g_stairPos h.nrows (h.ncols - h.nrows) := by
      rintro ⟨r, c⟩ hp
      obtain ⟨hr', j, hj, rfl⟩ := hrange r c hp
      have := (g_stairTest_iff h hn r j).mp (hall _ hp)
      rw [hS]
      exact ⟨hr', by simp only; omega⟩
    have hsup := g_pigeon _ _ (g_nodup_tail h hinv) hsub
      (by rw [g_length_stairPos _ _ hr, hlen]; exact Nat.le_refl _)
    intro i j hi hj
    constructor
    · intro hm
      have hp : (i, h.ncols - h.nrows + j) ∈ g_tail h := (hT _ _).mpr ⟨hm, by omega⟩
      exact (g_stairTest_iff h hn i j).mp (hall _ hp)
    · intro hij
      have hp : (i, h.ncols - h.nrows + j) ∈ g_stairPos h.nrows (h.ncols - h.nrows) := by
        rw [hS]; exact ⟨hi, by simp only; omega⟩
      exact ((hT _ _).mp (hsup _ hp)).1
  · intro hspec
    have hall : ∀ p ∈ g_tail h, g_stairTest h p = true := by
      rintro ⟨r, c⟩ hp
      obtain ⟨hr', j, hj, rfl⟩ := hrange r c hp
      exact (g_stairTest_iff h hn r j).mpr ((hspec r j hr' hj).mp ((hT _ _).mp hp).1)
    refine ⟨hall, ?_⟩
    rw [← g_length_stairPos _ (h.ncols - h.nrows) hr]
    apply List.Perm.length_eq
    rw [List.perm_ext_iff_of_nodup (g_nodup_tail h hinv) (g_nodup_stairPos _ _)]
    rintro ⟨r, c⟩
    constructor
    · intro hp
      obtain ⟨hr', j, hj, rfl⟩ := hrange r c hp
      have := (g_stairTest_iff h hn r j).mp (hall _ hp)
      rw [hS]
      exact ⟨hr', by simp only; omega⟩
    · intro hp
      rw [hS] at hp
      simp only at hp
      have hj : c - (h.ncols - h.nrows) < h.nrows := by omega
      have hc : c = h.ncols - h.nrows + (c - (h.ncols - h.nrows)) := by omega
      rw [hT]
      refine ⟨?_, by omega⟩
      rw [hc]
      exact (hspec r _ hp.1 hj).mpr (by omega)

/-! ### running sums of the staircase encoder -/

/-- `b ⊕ x0, b ⊕ x0 ⊕ x1, …` -/
def g_prefixXor : Bool → List Bool → List Bool
  | _, [] => []
  | b, x :: xs => xor b x :: g_prefixXor (xor b x) xs

theorem g_running_sums (raw : List Bool) : ∀ (b : Bool) (l : List Bool),
    (raw.foldl (fun (st : Bool × List Bool) x => let s := xor st.1 x; (s, s :: st.2)) (b, l)).2 =
      (g_prefixXor b raw).reverse ++ l := by
  induction raw with
  | nil => intro b l; rfl
  | cons x xs ih =>
    intro b l
    simp only [List.foldl_cons, g_prefixXor, List.reverse_cons, List.append_assoc,
      List.singleton_append]
    exact ih _ _

@[simp] theorem g_length_prefixXor (raw : List Bool) : ∀ b, (g_prefixXor b raw).length = raw.length := by
  induction raw with
  | nil => intro b; rfl
  | cons x xs ih => intro b; simp [g_prefixXor, ih]

theorem g_prefixXor_vxor (r1 : List Bool) : ∀ (r2 : List Bool) (b1 b2 : Bool),
    g_prefixXor (xor b1 b2) (vxor r1 r2) = vxor (g_prefixXor b1 r1) (g_prefixXor b2 r2) := by
  induction r1 with
  | nil => intro r2 b1 b2; simp [vxor, g_prefixXor]
  | cons x xs ih =>
    intro r2 b1 b2
    cases r2 with
    | nil => simp [vxor, g_prefixXor]
    | cons y ys =>
      have e : xor (xor b1 b2) (xor x y) = xor (xor b1 x) (xor b2 y) := by
        cases b1 <;> cases b2 <;> cases x <;> cases y <;> rfl
      have := ih ys (xor b1 x) (xor b2 y)
      simp only [vxor, List.zip_cons_cons, List.map_cons, g_prefixXor, e] at this ⊢
      rw [this]

theorem g_getD_prefixXor_zero (raw : List Bool) (b : Bool) (h : 0 < raw.length) :
    (g_prefixXor b raw).getD 0 false = xor b (raw.getD 0 false) := by
  cases raw with
  | nil => simp at h
  | cons x xs => simp [g_prefixXor, List.getD_eq_getElem?_getD]

theorem g_getD_prefixXor_succ (raw : List Bool) : ∀ (b : Bool) (i : Nat), i + 1 < raw.length →
    (g_prefixXor b raw).getD (i + 1) false =
      xor ((g_prefixXor b raw).getD i false) (raw.getD (i + 1) false) := by
  induction raw with
  | nil => intro b i h; simp at h
  | cons x xs ih =>
    intro b i h
    cases i with
    | zero =>
      simp only [g_prefixXor, List.getD_eq_getElem?_getD, List.getElem?_cons_succ,
        List.getElem?_cons_zero, Option.getD_some]
      have := g_getD_prefixXor_zero xs (xor b x) (by simpa using h)
      simpa only [List.getD_eq_getElem?_getD] using this
    | succ i =>
      have := ih (xor b x) i (by simpa using h)
      simpa only [g_prefixXor, List.getD_eq_getElem?_getD, List.getElem?_cons_succ] using this

/-- a row of the dual diagonal against a vector -/
theorem g_xsum_stair (n i : Nat) (hi : i < n) (p : Nat → Bool) :
    g_xsum n (fun c => decide (c = i ∨ c + 1 = i) && p c) =
      xor (p i) (if i = 0 then false else p (i - 1)) := by
  have : ∀ c, c < n → (decide (c = i ∨ c + 1 = i) && p c) =
      xor (if c = i then p i else false)
        (if c = i - 1 then (if i = 0 then false else p (i - 1)) else false) := by
    intro c _
    by_cases h1 : c = i
    · subst h1
      by_cases h0 : c = 0
      · simp [h0]
      · have : ¬ c = c - 1 := by omega
        simp [this]
    · by_cases h2 : c + 1 = i
      · subst h2
        simp
      · by_cases h3 : c = i - 1
        · have h4 : i = 0 := by omega
          subst h4
          simp [h3]
        · simp [h1, h2, h3]
  rw [g_xsum_congr this, g_xsum_xor, g_xsum_ite_eq, g_xsum_ite_eq]
  simp [hi, show i - 1 < n by omega]

end LdpcV.Lin
