/-
Helper development for C03Code (the CODE's tanh rule — clamp, product of the others, `2·atanh` — over ℝ is exact on
cycle-free matrices while the clamp is inactive):
  1 magnitudes: the exact check rule never amplifies; on a forest every message / extrinsic value in flight is bounded
    by the sum of the channel magnitudes over a computation tree, hence by the total `Σ |λ_u|`
  2 the runs: `checkTanh` = ideal rule when nothing is clamped; the flooding and layered runs of the tanh arithmetic
    are then the message functions `X`, `L`, `mL` of the ideal arithmetic (LdpcV/Lemmas/TreeBP*.lean)
This file assembles the statements of LdpcV/Props/C03Code.lean.
-/
import LdpcV.Lemmas.CodeRule2
namespace LdpcV.CodeRule
open LdpcV LdpcV.Graph LdpcV.Ideal LdpcV.TreeBP

section
variable (h : SM) (hinv : h.Inv) (hf : IsForest h) (hdeg : ∀ r ∈ h.rows, 2 ≤ r.length)
  (lam : List ℝ) (hl : lam.length = h.ncols) (q : UInt64 → ℝ) (cl : ℝ)
  (hc : (lam.map (fun x => |x|)).sum ≤ 2 * cl)

include hinv hf hl hc in
/-- every tree sum on an edge of the graph is at most twice the clamp -/
theorem Bd_le_clamp (s c u : Nat) (hu : u ∈ h.row c) : Bd h lam s u c ≤ 2 * cl :=
  (Bd_le_total h hinv hf lam hl s u c (hinv.1 c u hu).2.1).trans hc

include hinv hf hl hc in
/-- no flooding message is ever clamped -/
theorem flood_unclamped (s c u : Nat) (hu : u ∈ h.row c) : |1 / 2 * X h lam s u c| ≤ cl := by
  have b1 := X_bound hinv lam s u c (col_of_row hinv hu)
  have b2 := Bd_le_clamp h hinv hf lam hl cl hc s c u hu
  rw [abs_mul, abs_of_pos (by norm_num : (0 : ℝ) < 1 / 2)]
  linarith

include hinv hf hl hc in
/-- the flooding run of the tanh arithmetic IS the flooding run of the ideal arithmetic -/
theorem floodRunA_tanh_eq (t : Nat) :
    floodRunA (ArithFloat.mkArith Sc.real q cl .tanh) h lam t = floodRun Sc.real h lam t :=
  (floodRunA_TA h hinv q cl lam hl t (fun s _ c u hu => flood_unclamped h hinv hf lam hl cl hc s c u hu)).trans
    (floodRun_emOf h hinv lam hl t).symm

include hinv hf hl hc in
/-- the layered run of the tanh arithmetic IS the layered run of the ideal arithmetic -/
theorem layerRunA_tanh_eq (t : Nat) :
    layerRunA (ArithFloat.mkArith Sc.real q cl .tanh) h lam t = layerRun Sc.real h lam t :=
  (layerRunA_TA h hinv q cl lam hl (Bd_le_clamp h hinv hf lam hl cl hc) t).trans (layerRun_eq h hinv lam hl t).symm

include hinv hf hdeg hl hc in
theorem tanh_flood_exact (v : Nat) (hv : v < h.ncols) (t : Nat)
    (ht : ∀ u d, IsDist h (.col v) (.col u) d → d ≤ 2 * t) :
    ∃ (em : List (List (Nat × ℝ))) (llrs : List ℝ), floodRunA (ArithFloat.mkArith Sc.real q cl .tanh) h lam t = some (em, llrs) ∧
      llrs.length = h.ncols ∧ llrs.getD v 0 = posterior Sc.real h lam v := by
  obtain ⟨em, llrs, hrun, hlen, _, _, hp⟩ := flood_exact h hinv hf hdeg lam hl v hv t ht
  exact ⟨em, llrs, (floodRunA_tanh_eq h hinv hf lam hl q cl hc t).trans hrun, hlen, hp⟩

include hinv hf hdeg hl hc in
theorem tanh_layer_exact (v : Nat) (hv : v < h.ncols) (t : Nat)
    (ht : ∀ u d, IsDist h (.col v) (.col u) d → d ≤ 2 * t) :
    ∃ (rcv : List (List (Nat × ℝ))) (llrs : List ℝ), layerRunA (ArithFloat.mkArith Sc.real q cl .tanh) h lam t = some (rcv, llrs) ∧
      llrs.length = h.ncols ∧ llrs.getD v 0 = posterior Sc.real h lam v := by
  obtain ⟨rcv, llrs, hrun, hlen, hp⟩ := layer_exact h hinv hf hdeg lam hl v hv t ht
  exact ⟨rcv, llrs, (layerRunA_tanh_eq h hinv hf lam hl q cl hc t).trans hrun, hlen, hp⟩

end

end LdpcV.CodeRule
