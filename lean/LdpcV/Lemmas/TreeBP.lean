/-
Helper development for C03Tree (belief propagation — sum-product — is exact on cycle-free Tanner graphs).
The development is split over:
  0 definitions (schedules as functions, partition functions of the computation tree, iterated sums, tree lists)
  1 the flooding run of the model is the functions `X`, `L`        7 the layered run of the model is the table `mL`
  2 algebra: flooding messages = log-ratios of the partition functions `Zv`/`Zc` (tanh rule = XOR-convolution)
  3 iterated sums `sumOver` (congruence, permutation, block factorisation)   3w `mass` as an iterated sum
  4 the tree sum: Σ over the strict descendants of the local factors = `Zv` (when no variable repeats)
  5 graph theory: in a forest non-backtracking chains are simple and unique; `nodup_tree`, `lv_of_dist`
  6 the mass factorises as (positive constant) × `Ztot`              8 flooding core theorem, layered invariant
This file assembles the statements of LdpcV/Props/C03Tree.lean.
-/
import LdpcV.Lemmas.TreeBP1
import LdpcV.Lemmas.TreeBP5
import LdpcV.Lemmas.TreeBP7
import LdpcV.Lemmas.TreeBP8
namespace LdpcV.TreeBP
open LdpcV LdpcV.Graph LdpcV.Ideal

theorem hard_real (x : ℝ) : (Ideal.arith Sc.real).hard x = true ↔ x ≤ 0 := by
  show Sc.real.le x (ArithF.zero Sc.real) = true ↔ x ≤ 0
  rw [real_le, BoxL.zero_real]

section
variable (h : SM) (hinv : h.Inv) (hf : IsForest h) (hdeg : ∀ r ∈ h.rows, 2 ≤ r.length)
  (lam : List ℝ) (hl : lam.length = h.ncols)
include hinv hf hdeg hl

theorem flood_exact (v : Nat) (hv : v < h.ncols) (t : Nat)
    (ht : ∀ u d, IsDist h (.col v) (.col u) d → d ≤ 2 * t) :
    ∃ em llrs, floodRun Sc.real h lam t = some (em, llrs) ∧ llrs.length = h.ncols ∧
      0 < mass Sc.real h lam v false ∧ 0 < mass Sc.real h lam v true ∧
      llrs.getD v 0 = posterior Sc.real h lam v := by
  obtain ⟨m0, m1, hL⟩ := flood_core hinv hdeg lam hl t v hv (nodup_tree h hinv hf t v h.nrows)
    (lv_of_dist h hinv hf hdeg v hv t ht)
  refine ⟨_, _, floodRun_eq h hinv lam hl t, by simp, m0, m1, ?_⟩
  rw [getD_range_map _ _ _ _ hv, hL]

theorem layer_exact (v : Nat) (hv : v < h.ncols) (t : Nat)
    (ht : ∀ u d, IsDist h (.col v) (.col u) d → d ≤ 2 * t) :
    ∃ rcv llrs, layerRun Sc.real h lam t = some (rcv, llrs) ∧ llrs.length = h.ncols ∧
      llrs.getD v 0 = posterior Sc.real h lam v := by
  have hLv := lv_of_dist h hinv hf hdeg v hv t ht
  obtain ⟨_, _, hL⟩ := flood_core hinv hdeg lam hl t v hv (nodup_tree h hinv hf t v h.nrows) hLv
  refine ⟨_, _, layerRun_eq h hinv lam hl t, by simp, ?_⟩
  rw [getD_range_map _ _ _ _ hv, layer_total_eq hinv lam t v hLv, hL]

theorem exact_diameter (t : Nat) (hd : ∀ a b d, IsDist h a b d → d ≤ t) :
    (∃ em llrs, floodRun Sc.real h lam t = some (em, llrs) ∧
        ∀ v, v < h.ncols → llrs.getD v 0 = posterior Sc.real h lam v) ∧
    (∃ rcv llrs, layerRun Sc.real h lam t = some (rcv, llrs) ∧
        ∀ v, v < h.ncols → llrs.getD v 0 = posterior Sc.real h lam v) := by
  have ht : ∀ v u d, IsDist h (.col v) (.col u) d → d ≤ 2 * t := fun v u d hd' => by
    have := hd _ _ _ hd'
    omega
  constructor
  · refine ⟨_, _, floodRun_eq h hinv lam hl t, ?_⟩
    intro v hv
    obtain ⟨em, llrs, hrun, _, _, _, hp⟩ := flood_exact h hinv hf hdeg lam hl v hv t (ht v)
    rw [floodRun_eq h hinv lam hl t] at hrun
    cases hrun
    exact hp
  · refine ⟨_, _, layerRun_eq h hinv lam hl t, ?_⟩
    intro v hv
    obtain ⟨rcv, llrs, hrun, _, hp⟩ := layer_exact h hinv hf hdeg lam hl v hv t (ht v)
    rw [layerRun_eq h hinv lam hl t] at hrun
    cases hrun
    exact hp

theorem hard_map (t : Nat) (hd : ∀ a b d, IsDist h a b d → d ≤ t) :
    ∃ em llrs, floodRun Sc.real h lam t = some (em, llrs) ∧
      ∀ v, v < h.ncols →
        ((Ideal.arith Sc.real).hard (llrs.getD v 0) = true ↔
          mass Sc.real h lam v false ≤ mass Sc.real h lam v true) := by
  refine ⟨_, _, floodRun_eq h hinv lam hl t, ?_⟩
  intro v hv
  have ht : ∀ u d, IsDist h (.col v) (.col u) d → d ≤ 2 * t := fun u d hd' => by
    have := hd _ _ _ hd'
    omega
  obtain ⟨em, llrs, hrun, _, m0, m1, hp⟩ := flood_exact h hinv hf hdeg lam hl v hv t ht
  rw [floodRun_eq h hinv lam hl t] at hrun
  cases hrun
  rw [hp, posterior_real]
  have hq : 0 < mass Sc.real h lam v false / mass Sc.real h lam v true := div_pos m0 m1
  exact (hard_real _).trans ((Real.log_nonpos_iff hq.le).trans (div_le_one m1))

end

/-! ### tools for concrete matrices -/

/-- executable check of the mirror invariant -/
def invB (h : SM) : Bool :=
  (List.range h.nrows).all (fun r => (h.row r).all (fun c => decide (c < h.ncols) && (h.col c).contains r)) &&
  (List.range h.ncols).all (fun c => (h.col c).all (fun r => decide (r < h.nrows) && (h.row r).contains c)) &&
  (List.range h.nrows).all (fun r => decide (h.row r).Nodup) &&
  (List.range h.ncols).all (fun c => decide (h.col c).Nodup)

theorem getD_nil_of_le (l : List (List Nat)) (i : Nat) (hi : l.length ≤ i) : l.getD i [] = [] := by
  rw [List.getD_eq_getElem?_getD, List.getElem?_eq_none hi]
  rfl

theorem inv_of_invB (h : SM) (hb : invB h = true) : h.Inv := by
  simp only [invB, Bool.and_eq_true, List.all_eq_true, List.mem_range, decide_eq_true_eq,
    List.contains_iff_mem] at hb
  obtain ⟨⟨⟨h1, h2⟩, h3⟩, h4⟩ := hb
  refine ⟨?_, ?_, ?_, ?_⟩
  · intro r c hc
    by_cases hr : r < h.nrows
    · exact ⟨hr, h1 r hr c hc⟩
    · rw [SM.row, getD_nil_of_le _ _ (by simpa [SM.nrows] using hr)] at hc
      simp at hc
  · intro r c hc
    by_cases hcl : c < h.ncols
    · obtain ⟨a, b⟩ := h2 c hcl r hc
      exact ⟨a, hcl, b⟩
    · rw [SM.col, getD_nil_of_le _ _ (by simpa [SM.ncols] using hcl)] at hc
      simp at hc
  · intro r
    by_cases hr : r < h.nrows
    · exact h3 r hr
    · rw [SM.row, getD_nil_of_le _ _ (by simpa [SM.nrows] using hr)]
      exact List.nodup_nil
  · intro c
    by_cases hcl : c < h.ncols
    · exact h4 c hcl
    · rw [SM.col, getD_nil_of_le _ _ (by simpa [SM.ncols] using hcl)]
      exact List.nodup_nil

/-- all nodes of the Tanner graph -/
def nodes (h : SM) : List Node := (List.range h.nrows).map Node.row ++ (List.range h.ncols).map Node.col

theorem mem_nodes {h : SM} {x : Node} (hx : inRange h x = true) : x ∈ nodes h := by
  cases x with
  | row n => simp only [inRange, decide_eq_true_eq] at hx; simp [nodes, hx]
  | col n => simp only [inRange, decide_eq_true_eq] at hx; simp [nodes, hx]

/-- executable check: the BFS label of `b` from root `a`, if any, is at most `B` -/
def distLe (h : SM) (B : Nat) (a b : Node) : Bool :=
  match bfs h a with
  | some d =>
    match d.get b with
    | some (some k) => decide (k ≤ B)
    | _ => true
  | none => true

theorem walk_inRange_right {h : SM} {a b : Node} {n : Nat} (w : Walk h a b n) :
    inRange h b = true := by
  induction w with
  | nil _ hr => exact hr
  | cons _ _ ih => exact ih

theorem dist_le_of_check (h : SM) (hinv : h.Inv) (B : Nat)
    (hchk : (nodes h).all (fun a => (nodes h).all (fun b => distLe h B a b)) = true) :
    ∀ a b d, IsDist h a b d → d ≤ B := by
  intro a b k hk
  have ha : inRange h a = true := hk.1.inRange_left hinv
  have hb : inRange h b = true := walk_inRange_right hk.1
  obtain ⟨d, hd, _, _, hall⟩ := bfs_correct h hinv a ha
  have hget : d.get b = some (some k) := ((hall b hb).1 k).2 hk
  rw [List.all_eq_true] at hchk
  have h1 := hchk a (mem_nodes ha)
  rw [List.all_eq_true] at h1
  have h2 := h1 b (mem_nodes hb)
  simp only [distLe, hd, hget, decide_eq_true_eq] at h2
  exact h2

/-- the concrete tree of the non-vacuity example -/
theorem example_tree :
    let h : SM := ⟨[[0, 1, 2], [2, 3], [3, 4, 5]], [[0], [0], [0, 1], [1, 2], [2], [2], []]⟩
    h.Inv ∧ IsForest h ∧ (∀ r ∈ h.rows, 2 ≤ r.length) ∧ (∀ a b d, IsDist h a b d → d ≤ 6) := by
  intro h
  have hinv : h.Inv := inv_of_invB h (by decide +kernel)
  refine ⟨hinv, ?_, by decide, ?_⟩
  · exact (girth_exact' h hinv).2.1 (by decide +kernel)
  · exact dist_le_of_check h hinv 6 (by decide +kernel)

end LdpcV.TreeBP
