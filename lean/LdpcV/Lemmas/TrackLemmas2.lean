/- Helper lemmas (TrackLemmas2) for C04Track: the folds, sign parity / argmin under the scaling by 1/8, list plumbing. -/
import LdpcV.Lemmas.TrackLemmas1
namespace LdpcV.TrackL
open LdpcV LdpcV.ArithF

/-! ### folds -/

/-- an 8-bit step that follows a real step: the error of the accumulator grows by at most `c` -/
def TrackStep (istep : ℤ → ℤ → Option ℤ) (rstep : ℝ → ℝ → ℝ) (c : ℝ) : Prop :=
  ∀ x z : ℤ, 0 ≤ x → x ≤ 127 → 0 ≤ z → z ≤ 127 → ∀ r : ℝ, 0 ≤ r →
    ∃ z' : ℤ, istep x z = some z' ∧ 0 ≤ z' ∧ z' ≤ 127 ∧ 0 ≤ rstep ((x : ℝ) / 8) r ∧
      |(z' : ℝ) - 8 * rstep ((x : ℝ) / 8) r| ≤ |(z : ℝ) - 8 * r| + c

theorem trackStep_approx : TrackStep I8.stepApprox (stepApprox Sc.real) (1 / 2) :=
  fun x z hx0 hx1 hz0 hz1 r _ => approx_step_track x z hx0 hx1 hz0 hz1 r

theorem trackStep_full : TrackStep I8.stepFull (stepFull Sc.real) 1 := by
  intro x z hx0 hx1 hz0 hz1 r hr
  obtain ⟨z', h1, h2, h3, h4, h5⟩ := full_step_track x z hx0 hx1 hz0 hz1 ((x : ℝ) / 8) r (by positivity) hr
  refine ⟨z', h1, h2, h3, h4, ?_⟩
  have : (x : ℝ) - 8 * ((x : ℝ) / 8) = 0 := by ring
  rw [this, abs_zero, zero_add] at h5
  exact h5

theorem abs_cast_div (v : ℤ) : |(v : ℝ) / 8| = ((v.natAbs : ℤ) : ℝ) / 8 := by
  rw [Int.natCast_natAbs, Int.cast_abs, abs_div]
  norm_num

theorem foldAbs_cons_none (step : ℝ → ℝ → ℝ) (v : ℝ) (vs : List ℝ) :
    foldAbs Sc.real step (v :: vs) none = foldAbs Sc.real step vs (some |v|) := rfl

theorem i8fold_cons_some (step : ℤ → ℤ → Option ℤ) (v : ℤ) (vs : List ℤ) (z w : ℤ) (hv : -127 ≤ v)
    (hw : step (v.natAbs : ℤ) z = some w) :
    I8.foldAbs step (v :: vs) (some z) = I8.foldAbs step vs (some w) := by
  simp only [I8.foldAbs, I8.abs8_ok v hv, Option.bind_eq_bind, Option.bind_some, hw]

theorem i8fold_cons_none (step : ℤ → ℤ → Option ℤ) (v : ℤ) (vs : List ℤ) (hv : -127 ≤ v) :
    I8.foldAbs step (v :: vs) none = I8.foldAbs step vs (some (v.natAbs : ℤ)) := by
  simp only [I8.foldAbs, I8.abs8_ok v hv, Option.bind_eq_bind, Option.bind_some]

theorem fold_track {istep : ℤ → ℤ → Option ℤ} {rstep : ℝ → ℝ → ℝ} {c : ℝ} (hs : TrackStep istep rstep c)
    (vs : List ℤ) :
    ∀ (z : ℤ) (r : ℝ), 0 ≤ z → z ≤ 127 → 0 ≤ r → (∀ v ∈ vs, -127 ≤ v ∧ v ≤ 127) →
    ∃ (z' : ℤ) (r' : ℝ), I8.foldAbs istep vs (some z) = some (some z') ∧
      foldAbs Sc.real rstep (vs.map (fun x : ℤ => (x : ℝ) / 8)) (some r) = some r' ∧
      0 ≤ z' ∧ z' ≤ 127 ∧ 0 ≤ r' ∧ |(z' : ℝ) - 8 * r'| ≤ |(z : ℝ) - 8 * r| + vs.length * c := by
  induction vs with
  | nil => intro z r h0 h1 hr _; exact ⟨z, r, rfl, rfl, h0, h1, hr, by simp⟩
  | cons v vs ih =>
    intro z r h0 h1 hr hb
    have hv := hb v (by simp)
    obtain ⟨w, hw, hw0, hw1, hs0, hwe⟩ := hs v.natAbs z (by omega) (by omega) h0 h1 r hr
    obtain ⟨z', r', hz', hr', a, b, c', d⟩ := ih w _ hw0 hw1 hs0 (fun u hu => hb u (by simp [hu]))
    refine ⟨z', r', ?_, ?_, a, b, c', ?_⟩
    · rw [i8fold_cons_some istep v vs z w hv.1 hw]; exact hz'
    · rw [List.map_cons, BoxL.foldAbs_cons_some, abs_cast_div]; exact hr'
    · rw [List.length_cons]; push_cast; linarith

theorem fold_track_none {istep : ℤ → ℤ → Option ℤ} {rstep : ℝ → ℝ → ℝ} {c : ℝ} (hs : TrackStep istep rstep c)
    (xs : List ℤ) (hne : xs ≠ []) (hb : ∀ v ∈ xs, -127 ≤ v ∧ v ≤ 127) :
    ∃ (z : ℤ) (r : ℝ), I8.foldAbs istep xs none = some (some z) ∧
      foldAbs Sc.real rstep (xs.map (fun x : ℤ => (x : ℝ) / 8)) none = some r ∧
      0 ≤ z ∧ z ≤ 127 ∧ 0 ≤ r ∧ |(z : ℝ) - 8 * r| ≤ ((xs.length - 1 : ℕ) : ℝ) * c := by
  cases xs with
  | nil => exact absurd rfl hne
  | cons v vs =>
    have hv := hb v (by simp)
    obtain ⟨z, r, hz, hr, a, b, c', d⟩ := fold_track hs vs v.natAbs (((v.natAbs : ℤ) : ℝ) / 8) (by omega) (by omega)
      (by positivity) (fun u hu => hb u (by simp [hu]))
    refine ⟨z, r, ?_, ?_, a, b, c', ?_⟩
    · rw [i8fold_cons_none istep v vs hv.1]; exact hz
    · rw [List.map_cons, foldAbs_cons_none, abs_cast_div]; exact hr
    · have e : ((v.natAbs : ℤ) : ℝ) - 8 * (((v.natAbs : ℤ) : ℝ) / 8) = 0 := by ring
      rw [e, abs_zero, zero_add] at d
      simpa using d

/-- the statements of C04Track write `xs.map (fun x => (x : ℝ) / 8)` for `xs : List ℤ`; Lean elaborates this with
the list coerced elementwise to `List ℝ` first (`do let a ← xs; pure ↑a`) — the same list -/
theorem bridge (xs : List ℤ) :
    (xs.map (fun x => (x : ℝ) / 8) : List ℝ) = List.map (fun x : ℤ => (x : ℝ) / 8) xs := by
  induction xs with
  | nil => rfl
  | cons a l ih =>
    simp only [List.map_cons] at ih ⊢
    rw [← ih]
    rfl

/-! ### signs and argmin under the scaling -/

theorem isNeg_cast (x : ℤ) : isNeg Sc.real ((x : ℝ) / 8) = decide (x < 0) := by
  rw [BoxL.isNeg_real]
  have : ((x : ℝ) / 8 < 0) ↔ x < 0 := by
    rw [div_lt_iff₀ (by norm_num : (0 : ℝ) < 8), zero_mul]
    exact_mod_cast Iff.rfl
  exact decide_eq_decide.2 this

theorem signParity_cast (l : List ℤ) :
    signParity Sc.real (l.map (fun x : ℤ => (x : ℝ) / 8)) = I8.signParity l := by
  unfold signParity I8.signParity
  rw [List.filter_map, List.length_map]
  have : (isNeg Sc.real ∘ fun x : ℤ => (x : ℝ) / 8) = fun x : ℤ => decide (x < 0) := funext isNeg_cast
  rw [this]

theorem abs_le_cast (v w : ℤ) : |(v : ℝ) / 8| ≤ |(w : ℝ) / 8| ↔ (v.natAbs : ℤ) ≤ (w.natAbs : ℤ) := by
  rw [abs_cast_div, abs_cast_div, div_le_div_iff_of_pos_right (by norm_num : (0 : ℝ) < 8), Int.cast_le]

theorem argminR_cons2 (a b : ℝ) (l : List ℝ) (j : ℕ) (w : ℝ) (h : argminAbs Sc.real (b :: l) = some (j, w)) :
    argminAbs Sc.real (a :: b :: l) =
      if Sc.real.le (Sc.real.abs a) (Sc.real.abs w) then some (0, a) else some (j + 1, w) := by
  rw [argminAbs, h]
  intro h; cases h

theorem argmin_cast (vals : List ℤ) : ∀ (j : ℕ) (w : ℤ), (∀ v ∈ vals, -127 ≤ v) →
    I8.argminAbs vals = some (j, w) →
    argminAbs Sc.real (vals.map (fun x : ℤ => (x : ℝ) / 8)) = some (j, (w : ℝ) / 8) := by
  induction vals with
  | nil => intro j w _ h; simp [I8.argminAbs] at h
  | cons v vs ih =>
    intro j w hb h
    have hv := hb v (by simp)
    cases vs with
    | nil =>
      simp only [I8.argminAbs, I8.abs8_ok v hv, List.isEmpty_nil, if_true, Option.some.injEq, Prod.mk.injEq] at h
      obtain ⟨rfl, rfl⟩ := h
      rfl
    | cons u us =>
      unfold I8.argminAbs at h
      rw [I8.abs8_ok v hv] at h
      simp only at h
      cases hrec : I8.argminAbs (u :: us) with
      | none =>
        rw [hrec] at h
        simp at h
      | some p =>
        obtain ⟨j', w'⟩ := p
        rw [hrec] at h
        have hR := ih j' w' (fun x hx => hb x (by simp [hx])) hrec
        rw [List.map_cons] at hR
        rw [List.map_cons, List.map_cons, argminR_cons2 _ _ _ _ _ hR]
        simp only at h ⊢
        by_cases hc : (v.natAbs : ℤ) ≤ (w'.natAbs : ℤ)
        · rw [if_pos hc] at h
          simp only [Option.some.injEq, Prod.mk.injEq] at h
          obtain ⟨rfl, rfl⟩ := h
          have : Sc.real.le (Sc.real.abs ((v : ℝ) / 8)) (Sc.real.abs ((w' : ℝ) / 8)) = true := by
            rw [real_le, real_abs, real_abs, abs_le_cast]; exact hc
          rw [if_pos this]
        · rw [if_neg hc] at h
          simp only [Option.some.injEq, Prod.mk.injEq] at h
          obtain ⟨rfl, rfl⟩ := h
          have : ¬ Sc.real.le (Sc.real.abs ((v : ℝ) / 8)) (Sc.real.abs ((w' : ℝ) / 8)) = true := by
            rw [real_le, real_abs, real_abs, abs_le_cast]; exact hc
          rw [if_neg this]

/-! ### lists -/

theorem mapM_forall₂ {α β γ δ : Type} (f : α → Option β) (g : γ → Option δ) (h : α → γ) (R : β → δ → Prop)
    (l : List α) (H : ∀ x ∈ l, ∃ y y', f x = some y ∧ g (h x) = some y' ∧ R y y') :
    ∃ out out', l.mapM f = some out ∧ (l.map h).mapM g = some out' ∧ List.Forall₂ R out out' := by
  induction l with
  | nil => exact ⟨[], [], by simp, by simp, List.Forall₂.nil⟩
  | cons a l ih =>
    obtain ⟨y, y', hy, hy', hR⟩ := H a (by simp)
    obtain ⟨out, out', ho, ho', hF⟩ := ih (fun x hx => H x (by simp [hx]))
    exact ⟨y :: out, y' :: out', by simp [List.mapM_cons, hy, ho], by simp [List.mapM_cons, hy', ho'],
      List.Forall₂.cons hR hF⟩

theorem forall₂_getD {β δ : Type} {R : β → δ → Prop} {l : List β} {l' : List δ} (h : List.Forall₂ R l l')
    (a : β) (b : δ) : ∀ i, i < l.length → R (l.getD i a) (l'.getD i b) := by
  induction h with
  | nil => intro i hi; simp at hi
  | cons hR _ ih =>
    intro i hi
    cases i with
    | zero => simpa using hR
    | succ i => simpa using ih i (by simpa using hi)

theorem forall₂_map_fst {β δ : Type} {R : (ℕ × β) → (ℕ × δ) → Prop} {l : List (ℕ × β)} {l' : List (ℕ × δ)}
    (h : List.Forall₂ R l l') (hR : ∀ a b, R a b → a.1 = b.1) : l.map Prod.fst = l'.map Prod.fst := by
  induction h with
  | nil => rfl
  | cons h1 _ ih => simp [hR _ _ h1, ih]

theorem forall₂_map_same {α β δ : Type} {R : β → δ → Prop} (l : List α) (f : α → β) (g : α → δ)
    (h : ∀ x ∈ l, R (f x) (g x)) : List.Forall₂ R (l.map f) (l.map g) := by
  induction l with
  | nil => exact List.Forall₂.nil
  | cons a l ih =>
    exact List.Forall₂.cons (h a (by simp)) (ih (fun x hx => h x (by simp [hx])))

/-- the scaled message list -/
noncomputable def sc (msgs : List (ℕ × ℤ)) : List (ℕ × ℝ) := msgs.map (fun m => (m.1, (m.2 : ℝ) / 8))

theorem others_scale (msgs : List (ℕ × ℤ)) (d : ℕ) :
    ((sc msgs).filter (fun m => m.1 != d)).map (·.2) = (I8.othersOf msgs d).map (fun x : ℤ => (x : ℝ) / 8) := by
  unfold I8.othersOf sc
  rw [List.filter_map, List.map_map, List.map_map]
  rfl

theorem vals_scale (msgs : List (ℕ × ℤ)) :
    (sc msgs).map (·.2) = (msgs.map Prod.snd).map (fun x : ℤ => (x : ℝ) / 8) := by
  unfold sc
  rw [List.map_map, List.map_map]
  rfl

/-- `±z` against `±r` with the same sign -/
theorem pm_track (b : Bool) (z : ℤ) (r : ℝ) :
    |(((if b = true then -z else z : ℤ)) : ℝ) - 8 * (if b = true then -r else r)| = |(z : ℝ) - 8 * r| := by
  cases b
  · simp
  · simp only [if_true, Int.cast_neg]
    rw [show -(z : ℝ) - 8 * -r = -((z : ℝ) - 8 * r) by ring, abs_neg]

theorem hl_guard (cfg : I8.Cfg) (w : ℤ) (h : cfg.hardLimit = false ∨ (cfg.hl w).natAbs < 100) : cfg.hl w = w := by
  unfold I8.Cfg.hl at h ⊢
  rcases h with h | h
  · simp [h]
  · split
    · rename_i hh
      rw [if_pos hh] at h
      unfold I8.phl at h ⊢
      split
      · rename_i h1; rw [if_pos h1] at h; omega
      · rename_i h1
        rw [if_neg h1] at h
        split
        · rename_i h2; rw [if_pos h2] at h; omega
        · rfl
    · rfl

end LdpcV.TrackL
