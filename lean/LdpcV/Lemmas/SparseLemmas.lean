/-
Helper lemmas about the sparse-matrix model (used by C17 and by every property that needs the
mirror invariant).  Statements of the last block are fixed by LdpcV/Props/C17.lean.

Layout: list facts (`getD` of `modify`/`dropFrom`/`pushTo`), then per raw operation
(dimensions, `row`/`col` after, `Inv` preserved, `mem` after = spec), then the checked entry
points packaged as `SM.Sim`, then `apply`/`run`, totality, queries and iterators.
-/
import LdpcV.Model.Sparse
namespace LdpcV
open SM

/-! ### list facts -/

theorem getD_modify (l : List (List Nat)) (i j : Nat) (f : List Nat → List Nat) :
    (l.modify i f).getD j [] = if i = j ∧ j < l.length then f (l.getD j []) else l.getD j [] := by
  simp only [List.getD_eq_getElem?_getD, List.getElem?_modify]
  by_cases hj : j < l.length
  · by_cases hij : i = j <;> simp [hj, hij]
  · have : l[j]? = none := by simp; omega
    simp [hj]

theorem getD_dropFrom (l : List (List Nat)) (i x j : Nat) :
    (dropFrom l i x).getD j [] = if j = i then (l.getD j []).filter (· != x) else l.getD j [] := by
  unfold dropFrom
  rw [getD_modify]
  by_cases hij : i = j
  · subst hij
    by_cases hj : i < l.length
    · simp [hj]
    · have : l[i]? = none := by simp; omega
      simp [hj, List.getD_eq_getElem?_getD]
  · have : ¬ j = i := fun h => hij h.symm
    simp [hij, this]

theorem getD_pushTo (l : List (List Nat)) (i x j : Nat) (hi : i < l.length) :
    (pushTo l i x).getD j [] = if j = i then l.getD j [] ++ [x] else l.getD j [] := by
  unfold pushTo
  rw [getD_modify]
  by_cases hij : i = j
  · subst hij; simp [hi]
  · have : ¬ j = i := fun h => hij h.symm
    simp [hij, this]

@[simp] theorem length_dropFrom (l : List (List Nat)) (i x : Nat) : (dropFrom l i x).length = l.length := by
  simp [dropFrom]
@[simp] theorem length_pushTo (l : List (List Nat)) (i x : Nat) : (pushTo l i x).length = l.length := by
  simp [pushTo]

theorem length_foldl_dropFrom (cs : List Nat) (l : List (List Nat)) (x : Nat) :
    (cs.foldl (fun cols c => dropFrom cols c x) l).length = l.length := by
  induction cs generalizing l with
  | nil => rfl
  | cons c cs ih => simp [ih]

theorem getD_foldl_dropFrom (cs : List Nat) (l : List (List Nat)) (x j : Nat) :
    (cs.foldl (fun cols c => dropFrom cols c x) l).getD j [] =
      if j ∈ cs then (l.getD j []).filter (· != x) else l.getD j [] := by
  induction cs generalizing l with
  | nil => simp
  | cons c cs ih =>
    simp only [List.foldl_cons, ih, getD_dropFrom, List.mem_cons]
    by_cases h1 : j = c <;> by_cases h2 : j ∈ cs <;> simp [h1, h2, List.filter_filter]


/-- mirror invariant of the two adjacency lists -/
def SM.Inv (h : SM) : Prop :=
  (∀ r c, c ∈ h.row r → r < h.nrows ∧ c < h.ncols ∧ r ∈ h.col c) ∧
  (∀ r c, r ∈ h.col c → r < h.nrows ∧ c < h.ncols ∧ c ∈ h.row r) ∧
  (∀ r, (h.row r).Nodup) ∧ (∀ c, (h.col c).Nodup)

namespace SM

theorem has_iff (h : SM) (r c : Nat) : h.has r c = true ↔ r ∈ h.col c := by
  simp [has]
theorem mem_iff (h : SM) (r c : Nat) : h.mem r c = true ↔ c ∈ h.row r := by
  simp [mem]

theorem Inv.has_eq_mem {h : SM} (hinv : h.Inv) (r c : Nat) : h.has r c = h.mem r c := by
  rw [Bool.eq_iff_iff, has_iff, mem_iff]
  exact ⟨fun hm => (hinv.2.1 r c hm).2.2, fun hm => (hinv.1 r c hm).2.2⟩

@[simp] theorem nrows_insertRaw (h : SM) (r c : Nat) : (h.insertRaw r c).nrows = h.nrows := by
  unfold insertRaw; split <;> simp [nrows]
@[simp] theorem ncols_insertRaw (h : SM) (r c : Nat) : (h.insertRaw r c).ncols = h.ncols := by
  unfold insertRaw; split <;> simp [ncols]

theorem row_insertRaw (h : SM) (r c j : Nat) (hn : h.has r c = false) (hr : r < h.nrows) :
    (h.insertRaw r c).row j = if j = r then h.row j ++ [c] else h.row j := by
  simp only [insertRaw, hn, Bool.false_eq_true, if_false, row]
  exact getD_pushTo _ _ _ _ hr
theorem col_insertRaw (h : SM) (r c j : Nat) (hn : h.has r c = false) (hc : c < h.ncols) :
    (h.insertRaw r c).col j = if j = c then h.col j ++ [r] else h.col j := by
  simp only [insertRaw, hn, Bool.false_eq_true, if_false, col]
  exact getD_pushTo _ _ _ _ hc

theorem insertRaw_inv (h : SM) (r c : Nat) (hinv : h.Inv) (hr : r < h.nrows) (hc : c < h.ncols) :
    (h.insertRaw r c).Inv := by
  cases hn : h.has r c with
  | true => simp [insertRaw, hn, hinv]
  | false =>
    have hn1 : r ∉ h.col c := by rw [← has_iff]; simp [hn]
    have hn2 : c ∉ h.row r := by rw [← mem_iff, ← hinv.has_eq_mem]; simp [hn]
    obtain ⟨h1, h2, h3, h4⟩ := hinv
    refine ⟨?_, ?_, ?_, ?_⟩
    · intro r' c'
      simp only [row_insertRaw h r c _ hn hr, col_insertRaw h r c _ hn hc, nrows_insertRaw, ncols_insertRaw]
      grind
    · intro r' c'
      simp only [row_insertRaw h r c _ hn hr, col_insertRaw h r c _ hn hc, nrows_insertRaw, ncols_insertRaw]
      grind
    · intro r'
      simp only [row_insertRaw h r c _ hn hr]
      split
      · subst_vars; rw [List.nodup_append]; simp; grind
      · exact h3 r'
    · intro c'
      simp only [col_insertRaw h r c _ hn hc]
      split
      · subst_vars; rw [List.nodup_append]; simp; grind
      · exact h4 c'

theorem insertRaw_mem (h : SM) (r c : Nat) (hinv : h.Inv) (hr : r < h.nrows) :
    (h.insertRaw r c).mem = PosSet.ins h.mem r c := by
  funext r' c'
  cases hn : h.has r c with
  | true =>
    have : h.mem r c = true := by rw [← hinv.has_eq_mem]; exact hn
    simp only [insertRaw, hn, if_true, PosSet.ins]
    grind
  | false =>
    rw [Bool.eq_iff_iff, mem_iff, row_insertRaw h r c _ hn hr]
    simp only [PosSet.ins, Bool.or_eq_true, Bool.and_eq_true, beq_iff_eq, mem_iff]
    grind


/-! removeRaw -/
@[simp] theorem nrows_removeRaw (h : SM) (r c : Nat) : (h.removeRaw r c).nrows = h.nrows := by
  simp [removeRaw, nrows]
@[simp] theorem ncols_removeRaw (h : SM) (r c : Nat) : (h.removeRaw r c).ncols = h.ncols := by
  simp [removeRaw, ncols]
theorem row_removeRaw (h : SM) (r c j : Nat) :
    (h.removeRaw r c).row j = if j = r then (h.row j).filter (· != c) else h.row j :=
  getD_dropFrom _ _ _ _
theorem col_removeRaw (h : SM) (r c j : Nat) :
    (h.removeRaw r c).col j = if j = c then (h.col j).filter (· != r) else h.col j :=
  getD_dropFrom _ _ _ _

theorem nodup_filter {α : Type} {l : List α} (p : α → Bool) (hl : l.Nodup) : (l.filter p).Nodup :=
  List.Pairwise.sublist List.filter_sublist hl

theorem removeRaw_inv (h : SM) (r c : Nat) (hinv : h.Inv) : (h.removeRaw r c).Inv := by
  obtain ⟨h1, h2, h3, h4⟩ := hinv
  refine ⟨?_, ?_, ?_, ?_⟩
  · intro r' c'
    simp only [row_removeRaw, col_removeRaw, nrows_removeRaw, ncols_removeRaw]
    grind
  · intro r' c'
    simp only [row_removeRaw, col_removeRaw, nrows_removeRaw, ncols_removeRaw]
    grind
  · intro r'
    simp only [row_removeRaw]
    split
    · exact nodup_filter _ (h3 r')
    · exact h3 r'
  · intro c'
    simp only [col_removeRaw]
    split
    · exact nodup_filter _ (h4 c')
    · exact h4 c'

theorem removeRaw_mem (h : SM) (r c : Nat) : (h.removeRaw r c).mem = PosSet.del h.mem r c := by
  funext r' c'
  rw [Bool.eq_iff_iff, mem_iff, row_removeRaw]
  simp only [PosSet.del, Bool.and_eq_true, Bool.not_eq_true', mem_iff]
  grind

/-! toggleRaw -/
@[simp] theorem nrows_toggleRaw (h : SM) (r c : Nat) : (h.toggleRaw r c).nrows = h.nrows := by
  unfold toggleRaw; split <;> simp
@[simp] theorem ncols_toggleRaw (h : SM) (r c : Nat) : (h.toggleRaw r c).ncols = h.ncols := by
  unfold toggleRaw; split <;> simp
theorem toggleRaw_inv (h : SM) (r c : Nat) (hinv : h.Inv) (hr : r < h.nrows) (hc : c < h.ncols) :
    (h.toggleRaw r c).Inv := by
  unfold toggleRaw; split
  · exact removeRaw_inv h r c hinv
  · exact insertRaw_inv h r c hinv hr hc
theorem toggleRaw_mem (h : SM) (r c : Nat) (hinv : h.Inv) (hr : r < h.nrows) :
    (h.toggleRaw r c).mem = PosSet.tog h.mem r c := by
  unfold toggleRaw PosSet.tog
  rw [← hinv.has_eq_mem]
  split
  · exact removeRaw_mem h r c
  · exact insertRaw_mem h r c hinv hr

/-! clearRowRaw -/
@[simp] theorem nrows_clearRowRaw (h : SM) (r : Nat) : (h.clearRowRaw r).nrows = h.nrows := by
  simp [clearRowRaw, nrows]
@[simp] theorem ncols_clearRowRaw (h : SM) (r : Nat) : (h.clearRowRaw r).ncols = h.ncols := by
  simp [clearRowRaw, ncols, length_foldl_dropFrom]
theorem row_clearRowRaw (h : SM) (r j : Nat) :
    (h.clearRowRaw r).row j = if j = r then [] else h.row j := by
  simp only [clearRowRaw, row, getD_modify]
  by_cases hj : j = r
  · subst hj
    by_cases hl : j < h.rows.length
    · simp [hl]
    · simp [hl, List.getD_eq_getElem?_getD]
  · have : ¬ r = j := fun e => hj e.symm
    simp [hj, this]
theorem col_clearRowRaw (h : SM) (r j : Nat) :
    (h.clearRowRaw r).col j = if j ∈ h.row r then (h.col j).filter (· != r) else h.col j :=
  getD_foldl_dropFrom _ _ _ _

theorem clearRowRaw_inv (h : SM) (r : Nat) (hinv : h.Inv) : (h.clearRowRaw r).Inv := by
  obtain ⟨h1, h2, h3, h4⟩ := hinv
  refine ⟨?_, ?_, ?_, ?_⟩
  · intro r' c'
    simp only [row_clearRowRaw, col_clearRowRaw, nrows_clearRowRaw, ncols_clearRowRaw]
    grind
  · intro r' c'
    simp only [row_clearRowRaw, col_clearRowRaw, nrows_clearRowRaw, ncols_clearRowRaw]
    grind
  · intro r'
    simp only [row_clearRowRaw]
    split
    · exact List.nodup_nil
    · exact h3 r'
  · intro c'
    simp only [col_clearRowRaw]
    split
    · exact nodup_filter _ (h4 c')
    · exact h4 c'

theorem clearRowRaw_mem (h : SM) (r : Nat) : (h.clearRowRaw r).mem = PosSet.delRow h.mem r := by
  funext r' c'
  rw [Bool.eq_iff_iff, mem_iff, row_clearRowRaw]
  simp only [PosSet.delRow, Bool.and_eq_true, Bool.not_eq_true', mem_iff]
  grind

/-! clearColRaw -/
@[simp] theorem nrows_clearColRaw (h : SM) (c : Nat) : (h.clearColRaw c).nrows = h.nrows := by
  simp [clearColRaw, nrows, length_foldl_dropFrom]
@[simp] theorem ncols_clearColRaw (h : SM) (c : Nat) : (h.clearColRaw c).ncols = h.ncols := by
  simp [clearColRaw, ncols]
theorem col_clearColRaw (h : SM) (c j : Nat) :
    (h.clearColRaw c).col j = if j = c then [] else h.col j := by
  simp only [clearColRaw, col, getD_modify]
  by_cases hj : j = c
  · subst hj
    by_cases hl : j < h.cols.length
    · simp [hl]
    · simp [hl, List.getD_eq_getElem?_getD]
  · have : ¬ c = j := fun e => hj e.symm
    simp [hj, this]
theorem row_clearColRaw (h : SM) (c j : Nat) :
    (h.clearColRaw c).row j = if j ∈ h.col c then (h.row j).filter (· != c) else h.row j :=
  getD_foldl_dropFrom _ _ _ _

theorem clearColRaw_inv (h : SM) (c : Nat) (hinv : h.Inv) : (h.clearColRaw c).Inv := by
  obtain ⟨h1, h2, h3, h4⟩ := hinv
  refine ⟨?_, ?_, ?_, ?_⟩
  · intro r' c'
    simp only [row_clearColRaw, col_clearColRaw, nrows_clearColRaw, ncols_clearColRaw]
    grind
  · intro r' c'
    simp only [row_clearColRaw, col_clearColRaw, nrows_clearColRaw, ncols_clearColRaw]
    grind
  · intro r'
    simp only [row_clearColRaw]
    split
    · exact nodup_filter _ (h3 r')
    · exact h3 r'
  · intro c'
    simp only [col_clearColRaw]
    split
    · exact List.nodup_nil
    · exact h4 c'

theorem clearColRaw_mem (h : SM) (c : Nat) (hinv : h.Inv) :
    (h.clearColRaw c).mem = PosSet.delCol h.mem c := by
  obtain ⟨h1, h2, h3, h4⟩ := hinv
  funext r' c'
  rw [Bool.eq_iff_iff, mem_iff, row_clearColRaw]
  simp only [PosSet.delCol, Bool.and_eq_true, Bool.not_eq_true', mem_iff]
  grind


/-! checked entry points -/
theorem inRange_iff (h : SM) (r c : Nat) : h.inRange r c = true ↔ r < h.nrows ∧ c < h.ncols := by
  simp [inRange]

/-- simulation of one concrete step by an abstract one -/
def Sim (h h' : SM) (s : PosSet) : Prop :=
  h'.Inv ∧ h'.nrows = h.nrows ∧ h'.ncols = h.ncols ∧ h'.mem = s

theorem Sim.trans {h h1 h2 : SM} {s : PosSet} {f : PosSet → PosSet}
    (a : Sim h h1 s) (b : Sim h1 h2 (f h1.mem)) : Sim h h2 (f s) := by
  obtain ⟨_, a2, a3, a4⟩ := a
  obtain ⟨b1, b2, b3, b4⟩ := b
  exact ⟨b1, b2.trans a2, b3.trans a3, a4 ▸ b4⟩

theorem insert_spec (h h' : SM) (r c : Nat) (hinv : h.Inv) (hs : h.insert r c = some h') :
    Sim h h' (PosSet.ins h.mem r c) := by
  unfold insert at hs
  split at hs
  · next hr =>
    rw [inRange_iff] at hr
    cases hs
    exact ⟨insertRaw_inv h r c hinv hr.1 hr.2, by simp, by simp, insertRaw_mem h r c hinv hr.1⟩
  · cases hs

theorem remove_spec (h h' : SM) (r c : Nat) (hinv : h.Inv) (hs : h.remove r c = some h') :
    Sim h h' (PosSet.del h.mem r c) := by
  unfold remove at hs
  split at hs
  · cases hs
    exact ⟨removeRaw_inv h r c hinv, by simp, by simp, removeRaw_mem h r c⟩
  · cases hs

theorem toggle_spec (h h' : SM) (r c : Nat) (hinv : h.Inv) (hs : h.toggle r c = some h') :
    Sim h h' (PosSet.tog h.mem r c) := by
  unfold toggle at hs
  split at hs
  · next hr =>
    rw [inRange_iff] at hr
    cases hs
    exact ⟨toggleRaw_inv h r c hinv hr.1 hr.2, by simp, by simp, toggleRaw_mem h r c hinv hr.1⟩
  · cases hs

theorem clearRow_spec (h h' : SM) (r : Nat) (hinv : h.Inv) (hs : h.clearRow r = some h') :
    Sim h h' (PosSet.delRow h.mem r) := by
  unfold clearRow at hs
  split at hs
  · cases hs
    exact ⟨clearRowRaw_inv h r hinv, by simp, by simp, clearRowRaw_mem h r⟩
  · cases hs

theorem clearCol_spec (h h' : SM) (c : Nat) (hinv : h.Inv) (hs : h.clearCol c = some h') :
    Sim h h' (PosSet.delCol h.mem c) := by
  unfold clearCol at hs
  split at hs
  · cases hs
    exact ⟨clearColRaw_inv h c hinv, by simp, by simp, clearColRaw_mem h c hinv⟩
  · cases hs

theorem insertRow_spec (cs : List Nat) (h h' : SM) (r : Nat) (hinv : h.Inv)
    (hs : h.insertRow r cs = some h') : Sim h h' (PosSet.insRow h.mem r cs) := by
  induction cs generalizing h with
  | nil =>
    cases hs
    exact ⟨hinv, rfl, rfl, rfl⟩
  | cons c cs ih =>
    simp only [insertRow, List.foldlM_cons] at hs
    cases h1e : h.insert r c with
    | none => simp [h1e] at hs
    | some h1 =>
      rw [h1e] at hs
      have a := insert_spec h h1 r c hinv h1e
      have b := ih h1 a.1 hs
      exact Sim.trans (f := fun s => PosSet.insRow s r cs) a b

theorem insertCol_spec (rs : List Nat) (h h' : SM) (c : Nat) (hinv : h.Inv)
    (hs : h.insertCol c rs = some h') : Sim h h' (PosSet.insCol h.mem c rs) := by
  induction rs generalizing h with
  | nil =>
    cases hs
    exact ⟨hinv, rfl, rfl, rfl⟩
  | cons r rs ih =>
    simp only [insertCol, List.foldlM_cons] at hs
    cases h1e : h.insert r c with
    | none => simp [h1e] at hs
    | some h1 =>
      rw [h1e] at hs
      have a := insert_spec h h1 r c hinv h1e
      have b := ih h1 a.1 hs
      exact Sim.trans (f := fun s => PosSet.insCol s c rs) a b

theorem setRow_spec (cs : List Nat) (h h' : SM) (r : Nat) (hinv : h.Inv)
    (hs : h.setRow r cs = some h') : Sim h h' (PosSet.insRow (PosSet.delRow h.mem r) r cs) := by
  unfold setRow at hs
  cases h1e : h.clearRow r with
  | none => simp [h1e] at hs
  | some h1 =>
    rw [h1e] at hs
    have a := clearRow_spec h h1 r hinv h1e
    have b := insertRow_spec cs h1 h' r a.1 hs
    exact Sim.trans (f := fun s => PosSet.insRow s r cs) a b

theorem setCol_spec (rs : List Nat) (h h' : SM) (c : Nat) (hinv : h.Inv)
    (hs : h.setCol c rs = some h') : Sim h h' (PosSet.insCol (PosSet.delCol h.mem c) c rs) := by
  unfold setCol at hs
  cases h1e : h.clearCol c with
  | none => simp [h1e] at hs
  | some h1 =>
    rw [h1e] at hs
    have a := clearCol_spec h h1 c hinv h1e
    have b := insertCol_spec rs h1 h' c a.1 hs
    exact Sim.trans (f := fun s => PosSet.insCol s c rs) a b

theorem apply_sim (h h' : SM) (op : Op) (hinv : h.Inv) (happ : h.apply op = some h') :
    Sim h h' (PosSet.apply h.mem op) := by
  cases op with
  | insert r c => exact insert_spec h h' r c hinv happ
  | remove r c => exact remove_spec h h' r c hinv happ
  | toggle r c => exact toggle_spec h h' r c hinv happ
  | clearRow r => exact clearRow_spec h h' r hinv happ
  | clearCol c => exact clearCol_spec h h' c hinv happ
  | setRow r cs => exact setRow_spec cs h h' r hinv happ
  | setCol c rs => exact setCol_spec rs h h' c hinv happ
  | insertRow r cs => exact insertRow_spec cs h h' r hinv happ
  | insertCol c rs => exact insertCol_spec rs h h' c hinv happ

theorem run_sim (ops : List Op) (h h' : SM) (hinv : h.Inv) (hrun : h.run ops = some h') :
    Sim h h' (ops.foldl PosSet.apply h.mem) := by
  induction ops generalizing h with
  | nil =>
    cases hrun
    exact ⟨hinv, rfl, rfl, rfl⟩
  | cons op ops ih =>
    simp only [run, List.foldlM_cons] at hrun
    cases h1e : h.apply op with
    | none => simp [h1e] at hrun
    | some h1 =>
      rw [h1e] at hrun
      have a := apply_sim h h1 op hinv h1e
      have b := ih h1 a.1 hrun
      exact Sim.trans (f := fun s => ops.foldl PosSet.apply s) a b

theorem new_inv (nr nc : Nat) : (SM.new nr nc).Inv := by
  have hr : ∀ r, (SM.new nr nc).row r = [] := by
    intro r; simp [new, row, List.getD_eq_getElem?_getD, List.getElem?_replicate]; split <;> rfl
  have hc : ∀ c, (SM.new nr nc).col c = [] := by
    intro c; simp [new, col, List.getD_eq_getElem?_getD, List.getElem?_replicate]; split <;> rfl
  refine ⟨?_, ?_, ?_, ?_⟩ <;> intros <;> simp_all

theorem new_mem (nr nc : Nat) : (SM.new nr nc).mem = PosSet.empty := by
  funext r c
  simp [new, mem, row, List.getD_eq_getElem?_getD, List.getElem?_replicate, PosSet.empty]
  split <;> simp


/-! totality -/
theorem insertRow_total (cs : List Nat) (h : SM) (r : Nat) (hr : r < h.nrows)
    (hcs : cs.all (· < h.ncols) = true) : ∃ h', h.insertRow r cs = some h' := by
  induction cs generalizing h with
  | nil => exact ⟨h, rfl⟩
  | cons c cs ih =>
    simp only [List.all_cons, Bool.and_eq_true, decide_eq_true_eq] at hcs
    have hi : h.insert r c = some (h.insertRaw r c) := by
      simp [insert, inRange, hr, hcs.1]
    simp only [insertRow, List.foldlM_cons, hi]
    exact ih (h.insertRaw r c) (by simpa using hr) (by simpa using hcs.2)

theorem insertCol_total (rs : List Nat) (h : SM) (c : Nat) (hc : c < h.ncols)
    (hrs : rs.all (· < h.nrows) = true) : ∃ h', h.insertCol c rs = some h' := by
  induction rs generalizing h with
  | nil => exact ⟨h, rfl⟩
  | cons r rs ih =>
    simp only [List.all_cons, Bool.and_eq_true, decide_eq_true_eq] at hrs
    have hi : h.insert r c = some (h.insertRaw r c) := by
      simp [insert, inRange, hc, hrs.1]
    simp only [insertCol, List.foldlM_cons, hi]
    exact ih (h.insertRaw r c) (by simpa using hc) (by simpa using hrs.2)

/-! no-op removal -/
theorem dropFrom_eq_self (l : List (List Nat)) (i x : Nat) (hx : x ∉ l.getD i []) :
    dropFrom l i x = l := by
  apply List.ext_getElem?
  intro j
  rw [dropFrom, List.getElem?_modify]
  cases hj : l[j]? with
  | none => rfl
  | some a =>
    by_cases hij : i = j
    · subst hij
      simp only [List.getD_eq_getElem?_getD, hj, Option.getD_some] at hx
      simp only [Option.map_eq_map, Option.map_some, if_true, Option.some.injEq]
      rw [List.filter_eq_self]
      intro y hy
      simp only [bne_iff_ne, ne_eq]
      rintro rfl
      exact hx hy
    · simp [hij]

/-! iterAll -/
theorem mem_iterAll (h : SM) (r c : Nat) : (r, c) ∈ h.iterAll ↔ c ∈ h.row r := by
  simp only [iterAll, List.mem_flatMap, List.mem_map, Prod.mk.injEq, row, List.getD_eq_getElem?_getD]
  constructor
  · rintro ⟨p, hp, c', hc', rfl, rfl⟩
    rw [List.mem_zipIdx_iff_getElem?] at hp
    simpa [hp] using hc'
  · intro hc
    cases hl : h.rows[r]? with
    | none => simp [hl] at hc
    | some l =>
      refine ⟨(l, r), ?_, c, ?_, rfl, rfl⟩
      · rw [List.mem_zipIdx_iff_getElem?]; exact hl
      · simpa [hl] using hc

theorem pairwise_zipIdx_snd {α : Type} (l : List α) (k : Nat) :
    (l.zipIdx k).Pairwise (fun p q => p.2 ≠ q.2) := by
  induction l generalizing k with
  | nil => simp
  | cons a l ih =>
    rw [List.zipIdx_cons, List.pairwise_cons]
    refine ⟨?_, ih (k + 1)⟩
    rintro ⟨x, i⟩ hq
    have := List.mem_zipIdx hq
    simp only [ne_eq]
    omega

theorem nodup_iterAll (h : SM) (hrows : ∀ r, (h.row r).Nodup) : h.iterAll.Nodup := by
  rw [iterAll, List.nodup_iff_pairwise_ne, List.pairwise_flatMap]
  constructor
  · rintro ⟨l, i⟩ hp
    rw [List.mem_zipIdx_iff_getElem?] at hp
    have hl : l.Nodup := by
      have := hrows i
      simpa [row, List.getD_eq_getElem?_getD, hp] using this
    rw [List.pairwise_map]
    exact List.Pairwise.imp (fun hne => by simpa using hne) (List.nodup_iff_pairwise_ne.mp hl)
  · refine List.Pairwise.imp ?_ (pairwise_zipIdx_snd h.rows 0)
    rintro ⟨l1, i1⟩ ⟨l2, i2⟩ hne x hx y hy
    simp only [List.mem_map] at hx hy
    obtain ⟨_, _, rfl⟩ := hx
    obtain ⟨_, _, rfl⟩ := hy
    intro heq
    exact hne (congrArg Prod.fst heq)

/-! weights -/
theorem length_eq_filter_range (l : List Nat) (n : Nat) (hl : l.Nodup) (hb : ∀ x ∈ l, x < n) :
    l.length = ((List.range n).filter (fun x => l.contains x)).length := by
  apply List.Perm.length_eq
  rw [List.perm_ext_iff_of_nodup hl (nodup_filter _ List.nodup_range)]
  intro a
  simp only [List.mem_filter, List.mem_range, List.contains_iff_mem]
  exact ⟨fun ha => ⟨hb a ha, ha⟩, fun ha => ha.2⟩


end SM

open SM

/-! ### The statements used by `LdpcV/Props/C17.lean` -/

theorem apply_spec (h h' : SM) (op : Op) (hinv : h.Inv) (happ : h.apply op = some h') :
    h'.Inv ∧ h'.nrows = h.nrows ∧ h'.ncols = h.ncols ∧
      ∀ r c, h'.mem r c = (PosSet.apply h.mem op) r c := by
  obtain ⟨a, b, c, d⟩ := apply_sim h h' op hinv happ
  exact ⟨a, b, c, fun r c => by rw [d]⟩

theorem run_spec (h h' : SM) (ops : List Op) (hinv : h.Inv) (hrun : h.run ops = some h') :
    h'.Inv ∧ h'.nrows = h.nrows ∧ h'.ncols = h.ncols ∧
      ∀ r c, h'.mem r c = (ops.foldl PosSet.apply h.mem) r c := by
  obtain ⟨a, b, c, d⟩ := run_sim ops h h' hinv hrun
  exact ⟨a, b, c, fun r c => by rw [d]⟩

theorem run_new_spec (nr nc : Nat) (ops : List Op) (h : SM)
    (hrun : (SM.new nr nc).run ops = some h) :
    h.Inv ∧ h.nrows = nr ∧ h.ncols = nc ∧
      ∀ r c, h.mem r c = (ops.foldl PosSet.apply PosSet.empty) r c := by
  obtain ⟨a, b, c, d⟩ := run_sim ops _ h (new_inv nr nc) hrun
  rw [new_mem] at d
  exact ⟨a, by simpa [new, nrows] using b, by simpa [new, ncols] using c, fun r c => by rw [d]⟩

theorem apply_total (h : SM) (op : Op) (hr : op.inRange h.nrows h.ncols = true) :
    ∃ h', h.apply op = some h' := by
  cases op with
  | insert r c =>
    have hr' : h.inRange r c = true := hr
    exact ⟨h.insertRaw r c, by simp [SM.apply, SM.insert, hr']⟩
  | remove r c =>
    have hr' : h.inRange r c = true := hr
    exact ⟨h.removeRaw r c, by simp [SM.apply, SM.remove, hr']⟩
  | toggle r c =>
    have hr' : h.inRange r c = true := hr
    exact ⟨h.toggleRaw r c, by simp [SM.apply, SM.toggle, hr']⟩
  | clearRow r =>
    have hr' : r < h.nrows := by simpa [Op.inRange] using hr
    exact ⟨h.clearRowRaw r, by simp [SM.apply, SM.clearRow, hr']⟩
  | clearCol c =>
    have hr' : c < h.ncols := by simpa [Op.inRange] using hr
    exact ⟨h.clearColRaw c, by simp [SM.apply, SM.clearCol, hr']⟩
  | setRow r cs =>
    simp only [Op.inRange, Bool.and_eq_true, decide_eq_true_eq] at hr
    simp only [SM.apply, SM.setRow, SM.clearRow, hr.1, if_true, Option.bind_some]
    exact insertRow_total cs _ r (by simpa using hr.1) (by simpa using hr.2)
  | setCol c rs =>
    simp only [Op.inRange, Bool.and_eq_true, decide_eq_true_eq] at hr
    simp only [SM.apply, SM.setCol, SM.clearCol, hr.1, if_true, Option.bind_some]
    exact insertCol_total rs _ c (by simpa using hr.1) (by simpa using hr.2)
  | insertRow r cs =>
    simp only [Op.inRange, Bool.and_eq_true, decide_eq_true_eq] at hr
    exact insertRow_total cs h r hr.1 hr.2
  | insertCol c rs =>
    simp only [Op.inRange, Bool.and_eq_true, decide_eq_true_eq] at hr
    exact insertCol_total rs h c hr.1 hr.2

theorem run_total_from (ops : List Op) (h : SM) (hinv : h.Inv)
    (hr : ∀ op ∈ ops, op.inRange h.nrows h.ncols = true) : ∃ h', h.run ops = some h' := by
  induction ops generalizing h with
  | nil => exact ⟨h, rfl⟩
  | cons op ops ih =>
    obtain ⟨h1, h1e⟩ := apply_total h op (hr op (List.mem_cons_self ..))
    obtain ⟨a, b, c, _⟩ := apply_sim h h1 op hinv h1e
    simp only [SM.run, List.foldlM_cons, h1e]
    exact ih h1 a (fun op' hop' => by rw [b, c]; exact hr op' (List.mem_cons_of_mem _ hop'))

theorem run_total (nr nc : Nat) (ops : List Op) (hr : ∀ op ∈ ops, op.inRange nr nc = true) :
    ∃ h, (SM.new nr nc).run ops = some h :=
  run_total_from ops _ (new_inv nr nc) (by simpa [new, nrows, ncols] using hr)

theorem queries_spec (h : SM) (hinv : h.Inv) (r c : Nat) :
    h.has r c = h.mem r c ∧
    (h.row r).length = ((List.range h.ncols).filter (fun c => h.mem r c)).length ∧
    (h.col c).length = ((List.range h.nrows).filter (fun r => h.mem r c)).length := by
  refine ⟨hinv.has_eq_mem r c, ?_, ?_⟩
  · exact length_eq_filter_range _ _ (hinv.2.2.1 r) (fun x hx => (hinv.1 r x hx).2.1)
  · have : (fun r => h.mem r c) = (fun r => (h.col c).contains r) := by
      funext r'; rw [← hinv.has_eq_mem]; rfl
    rw [this]
    exact length_eq_filter_range _ _ (hinv.2.2.2 c) (fun x hx => (hinv.2.1 x c hx).1)

theorem iterators_spec (h : SM) (hinv : h.Inv) :
    h.iterAll.Nodup ∧ (∀ r c, (r, c) ∈ h.iterAll ↔ h.mem r c = true) ∧
    (∀ r, (h.row r).Nodup ∧ ∀ c, c ∈ h.row r ↔ h.mem r c = true) ∧
    (∀ c, (h.col c).Nodup ∧ ∀ r, r ∈ h.col c ↔ h.mem r c = true) := by
  refine ⟨nodup_iterAll h hinv.2.2.1, ?_, ?_, ?_⟩
  · intro r c; rw [mem_iterAll, mem_iff]
  · intro r; exact ⟨hinv.2.2.1 r, fun c => (mem_iff h r c).symm⟩
  · intro c
    exact ⟨hinv.2.2.2 c, fun r => by rw [← hinv.has_eq_mem, has_iff]⟩

theorem redundant_spec (h : SM) (hinv : h.Inv) (r c : Nat) (hr : h.inRange r c = true) :
    (h.mem r c = true → h.insert r c = some h) ∧ (h.mem r c = false → h.remove r c = some h) := by
  constructor
  · intro hm
    rw [← hinv.has_eq_mem] at hm
    simp [SM.insert, hr, insertRaw, hm]
  · intro hm
    have h1 : c ∉ h.row r := by rw [← mem_iff]; simp [hm]
    have h2 : r ∉ h.col c := by rw [← has_iff, hinv.has_eq_mem]; simp [hm]
    simp only [SM.remove, hr, if_true, removeRaw, Option.some.injEq]
    rw [dropFrom_eq_self _ _ _ h1, dropFrom_eq_self _ _ _ h2]

end LdpcV
