/- Projection lemmas of the real scalar record `Sc.real` (shared by ModulationLemmas and BoxPlusLemmas). -/
import LdpcV.Lemmas.RealScalar
import Mathlib.Tactic
namespace LdpcV

@[simp] theorem real_add (a b : ℝ) : Sc.real.add a b = a + b := rfl
@[simp] theorem real_sub (a b : ℝ) : Sc.real.sub a b = a - b := rfl
@[simp] theorem real_mul (a b : ℝ) : Sc.real.mul a b = a * b := rfl
@[simp] theorem real_div (a b : ℝ) : Sc.real.div a b = a / b := rfl
@[simp] theorem real_neg (a : ℝ) : Sc.real.neg a = -a := rfl
@[simp] theorem real_abs (a : ℝ) : Sc.real.abs a = |a| := rfl
@[simp] theorem real_max (a b : ℝ) : Sc.real.max a b = max a b := rfl
@[simp] theorem real_min (a b : ℝ) : Sc.real.min a b = min a b := rfl
@[simp] theorem real_exp (a : ℝ) : Sc.real.exp a = Real.exp a := rfl
@[simp] theorem real_log (a : ℝ) : Sc.real.log a = Real.log a := rfl
@[simp] theorem real_log1p (a : ℝ) : Sc.real.log1p a = Real.log (1 + a) := rfl
@[simp] theorem real_tanh (a : ℝ) : Sc.real.tanh a = Real.tanh a := rfl
@[simp] theorem real_atanh (a : ℝ) : Sc.real.atanh a = (1 / 2) * Real.log ((1 + a) / (1 - a)) := rfl
@[simp] theorem real_sqrt (a : ℝ) : Sc.real.sqrt a = Real.sqrt a := rfl
@[simp] theorem real_rat (n : Int) (d : Nat) : Sc.real.rat n d = (n : ℝ) / (d : ℝ) := rfl
@[simp] theorem real_lt (a b : ℝ) : Sc.real.lt a b = true ↔ a < b := by simp [Sc.real]
@[simp] theorem real_le (a b : ℝ) : Sc.real.le a b = true ↔ a ≤ b := by simp [Sc.real]
theorem real_lt_false (a b : ℝ) : Sc.real.lt a b = false ↔ b ≤ a := by simp [Sc.real]

/-- the function-level forms (for `foldl S.add` etc.) -/
theorem real_add_fn : Sc.real.add = (· + ·) := rfl
theorem real_mul_fn : Sc.real.mul = (· * ·) := rfl

end LdpcV
