/-
Helper development for C03Tree, part 6: the mass of the whole code factorises as (a positive constant, the weight of
everything outside the computation tree of `v`) × (the partition function `Ztot` of the computation tree of `v`),
provided the tree has no repeated variable and has height ≤ t.
-/
import LdpcV.Lemmas.TreeBP4
import LdpcV.Lemmas.TreeBP3w
namespace LdpcV.TreeBP
open LdpcV

/-! ### products and indicators over `flatMap` -/

theorem prod_map_flatMap (Ls : List Nat) (f : Nat → List Nat) (g : Nat → ℝ) :
    ((Ls.flatMap f).map g).prod = (Ls.map (fun i => ((f i).map g).prod)).prod := by
  induction Ls with
  | nil => simp
  | cons i Ls ih => simp [List.flatMap_cons, List.prod_append, ih]

theorem ind_all (Ls : List Nat) (p : Nat → Bool) : ind (Ls.all p) = (Ls.map (fun i => ind (p i))).prod := by
  induction Ls with
  | nil => simp
  | cons i Ls ih => simp [List.all_cons, ind_and, ih]

theorem ind_all_flatMap (Ls : List Nat) (f : Nat → List Nat) (p : Nat → Bool) :
    ind ((Ls.flatMap f).all p) = (Ls.map (fun i => ind ((f i).all p))).prod := by
  rw [List.all_flatMap, ind_all]

theorem Cv_succ (h : SM) (s u c : Nat) : Cv h (s + 1) u c =
    (oth (h.col u) c).flatMap (fun c' => c' :: (oth (h.row c') u).flatMap (fun u' => Cv h s u' c')) := rfl

/-- product form of the local factor of a tree -/
theorem Fv_prod (h : SM) (lam : List ℝ) (s u c : Nat) (a : Nat → Bool) :
    Fv h lam s u c a = ((u :: Dv h s u c).map (fun x => W lam x (a x))).prod *
      ind ((Cv h s u c).all (fun c' => !xr a (h.row c'))) := by
  induction s generalizing u c with
  | zero => simp [Fv, Dv, Cv]
  | succ s ih =>
    rw [Fv_succ, List.map_cons, List.prod_cons, mul_assoc]
    congr 1
    rw [Dv_succ, Cv_succ, prod_map_flatMap, ind_all_flatMap, ← List.prod_map_mul]
    congr 1
    apply List.map_congr_left
    intro c' _
    rw [prod_map_flatMap, List.all_cons, ind_and, ind_all_flatMap]
    have e : ((oth (h.row c') u).map (fun u' => Fv h lam s u' c' a)) =
        (oth (h.row c') u).map (fun u' => ((u' :: Dv h s u' c').map (fun x => W lam x (a x))).prod *
          ind ((Cv h s u' c').all (fun c' => !xr a (h.row c')))) :=
      List.map_congr_left (fun u' _ => ih u' c')
    rw [e, List.prod_map_mul]
    ring

/-! ### range and coverage -/

theorem Dv_lt {h : SM} (hinv : h.Inv) (s u c : Nat) : ∀ x ∈ Dv h s u c, x < h.ncols := by
  induction s generalizing u c with
  | zero => simp [Dv]
  | succ s ih =>
    intro x hx
    rw [mem_Dv_succ] at hx
    obtain ⟨c', _, u', hu', hx⟩ := hx
    rcases hx with rfl | hx
    · exact (hinv.1 c' x (mem_oth.1 hu').1).2.1
    · exact ih u' c' x hx

theorem mem_Cv_succ (h : SM) (s u c x : Nat) :
    x ∈ Cv h (s + 1) u c ↔ ∃ c' ∈ oth (h.col u) c, x = c' ∨ ∃ u' ∈ oth (h.row c') u, x ∈ Cv h s u' c' := by
  simp [Cv, List.mem_flatMap]

theorem Cv_lt {h : SM} (hinv : h.Inv) (s u c : Nat) : ∀ x ∈ Cv h s u c, x < h.nrows := by
  induction s generalizing u c with
  | zero => simp [Cv]
  | succ s ih =>
    intro x hx
    rw [mem_Cv_succ] at hx
    obtain ⟨c', hc', hx⟩ := hx
    rcases hx with rfl | ⟨u', _, hx⟩
    · exact (hinv.2.1 x u (mem_oth.1 hc').1).1
    · exact ih u' c' x hx

/-- under the height bound, every check of a variable of the tree is the excluded parent or a check of the tree -/
theorem cover (h : SM) (s u c : Nat) (hL : Lv h s u c) :
    ∀ x ∈ u :: Dv h s u c, ∀ c'' ∈ h.col x, c'' = c ∨ c'' ∈ Cv h s u c := by
  induction s generalizing u c with
  | zero =>
    intro x hx c'' hc''
    simp only [Dv, List.mem_singleton] at hx
    subst hx
    exact Or.inl (hL c'' hc'')
  | succ s ih =>
    intro x hx c'' hc''
    rcases List.mem_cons.1 hx with rfl | hx
    · by_cases hcc : c'' = c
      · exact Or.inl hcc
      · right
        rw [mem_Cv_succ]
        exact ⟨c'', mem_oth.2 ⟨hc'', hcc⟩, Or.inl rfl⟩
    · right
      rw [mem_Dv_succ] at hx
      obtain ⟨c', hc', u', hu', hx⟩ := hx
      have hL' : Lv h s u' c' := hL c' (mem_oth.1 hc').1 (mem_oth.1 hc').2 u' (mem_oth.1 hu').1 (mem_oth.1 hu').2
      have hx' : x ∈ u' :: Dv h s u' c' := by
        rcases hx with rfl | hx
        · simp
        · simp [hx]
      rw [mem_Cv_succ]
      refine ⟨c', hc', ?_⟩
      rcases ih u' c' hL' x hx' c'' hc'' with e | hm
      · exact Or.inl e
      · exact Or.inr ⟨u', hu', hm⟩

/-! ### splitting the coordinates and the factors -/

theorem perm_split (n : Nat) (T : List Nat) (hT : T.Nodup) (hlt : ∀ x ∈ T, x < n) :
    (List.range n).Perm ((List.range n).filter (fun x => !decide (x ∈ T)) ++ T) := by
  have h1 := (List.filter_append_perm (fun x => decide (x ∈ T)) (List.range n)).symm
  have h2 : ((List.range n).filter (fun x => decide (x ∈ T))).Perm T := by
    rw [List.perm_ext_iff_of_nodup (List.nodup_range.filter _) hT]
    intro x
    simp only [List.mem_filter, List.mem_range, decide_eq_true_eq]
    exact ⟨fun hx => hx.2, fun hx => ⟨hlt x hx, hx⟩⟩
  exact h1.trans ((h2.append_right _).trans List.perm_append_comm)

theorem all_split (m : Nat) (C : List Nat) (hlt : ∀ x ∈ C, x < m) (p : Nat → Bool) :
    (List.range m).all p = (C.all p && ((List.range m).filter (fun x => !decide (x ∈ C))).all p) := by
  rw [Bool.eq_iff_iff]
  simp only [List.all_eq_true, Bool.and_eq_true, List.mem_filter, List.mem_range, Bool.not_eq_true',
    decide_eq_false_iff_not]
  constructor
  · intro hall
    exact ⟨fun x hx => hall x (hlt x hx), fun x hx => hall x hx.1⟩
  · intro ⟨h1, h2⟩ x hx
    by_cases hxC : x ∈ C
    · exact h1 x hxC
    · exact h2 x ⟨hx, hxC⟩

/-- the factors outside the tree of `v` -/
noncomputable def Frest (h : SM) (lam : List ℝ) (t v : Nat) (a : Nat → Bool) : ℝ :=
  ind (((List.range h.nrows).filter (fun x => !decide (x ∈ Cv h t v h.nrows))).all (fun c => !xr a (h.row c))) *
    (((List.range h.ncols).filter (fun x => !decide (x ∈ v :: Dv h t v h.nrows))).map (fun u => W lam u (a u))).prod

theorem Ftot_split {h : SM} (hinv : h.Inv) (lam : List ℝ) (t v : Nat) (hv : v < h.ncols)
    (hN : (v :: Dv h t v h.nrows).Nodup) (b : Bool) (a : Nat → Bool) :
    Ftot h lam v b a = (ind (a v == b) * Fv h lam t v h.nrows a) * Frest h lam t v a := by
  have hlt : ∀ x ∈ v :: Dv h t v h.nrows, x < h.ncols := by
    intro x hx
    rcases List.mem_cons.1 hx with rfl | hx
    · exact hv
    · exact Dv_lt hinv _ _ _ x hx
  unfold Ftot Frest
  rw [Fv_prod, ((perm_split h.ncols _ hN hlt).map (fun u => W lam u (a u))).prod_eq, List.map_append,
    List.prod_append, all_split h.nrows (Cv h t v h.nrows) (Cv_lt hinv _ _ _), ind_and]
  ring

theorem xr_false (K : List Nat) : xr (fun _ => false) K = false := by
  simp [xr]

theorem Frest_pos (h : SM) (lam : List ℝ) (t v : Nat) : 0 < Frest h lam t v (fun _ => false) := by
  unfold Frest
  have e : (((List.range h.nrows).filter (fun x => !decide (x ∈ Cv h t v h.nrows))).all
      (fun c => !xr (fun _ => false) (h.row c))) = true := by
    simp [xr_false]
  rw [e, ind_true, one_mul]
  apply List.prod_pos
  intro x hx
  simp only [List.mem_map] at hx
  obtain ⟨u, _, rfl⟩ := hx
  exact W_pos lam u false

theorem Frest_nonneg (h : SM) (lam : List ℝ) (t v : Nat) (a : Nat → Bool) : 0 ≤ Frest h lam t v a := by
  unfold Frest
  apply mul_nonneg (ind_nonneg _)
  apply List.prod_nonneg
  intro x hx
  simp only [List.mem_map] at hx
  obtain ⟨u, _, rfl⟩ := hx
  exact (W_pos lam u (a u)).le

theorem all_congr_mem (l : List Nat) (p q : Nat → Bool) (hpq : ∀ x ∈ l, p x = q x) : l.all p = l.all q := by
  induction l with
  | nil => rfl
  | cons x l ih =>
    simp only [List.all_cons]
    rw [hpq x (by simp), ih (fun y hy => hpq y (by simp [hy]))]

/-- the factors outside the tree do not see the variables of the tree -/
theorem Frest_dep {h : SM} (hinv : h.Inv) (lam : List ℝ) (t v : Nat) (hL : Lv h t v h.nrows) (a a' : Nat → Bool)
    (haa : ∀ x, x ∉ v :: Dv h t v h.nrows → a' x = a x) : Frest h lam t v a' = Frest h lam t v a := by
  unfold Frest
  congr 1
  · congr 1
    apply all_congr_mem
    intro c hc
    simp only [List.mem_filter, List.mem_range, Bool.not_eq_true', decide_eq_false_iff_not] at hc
    congr 1
    apply xr_congr
    intro x hx
    apply haa
    intro hxT
    rcases cover h t v h.nrows hL x hxT c (col_of_row hinv hx) with e | hm
    · omega
    · exact hc.2 hm
  · congr 1
    apply List.map_congr_left
    intro u hu
    simp only [List.mem_filter, Bool.not_eq_true', decide_eq_false_iff_not] at hu
    rw [haa u hu.2]

/-! ### the factorisation -/

/-- summing the tree part over the variables of the tree -/
theorem tree_total {h : SM} (hinv : h.Inv) (lam : List ℝ) (t v : Nat) (hN : (v :: Dv h t v h.nrows).Nodup)
    (b : Bool) (a : Nat → Bool) :
    sumOver (v :: Dv h t v h.nrows) (fun a => ind (a v == b) * Fv h lam t v h.nrows a) a = Ztot h lam t v b := by
  have hvD : v ∉ Dv h t v h.nrows := (List.nodup_cons.1 hN).1
  have key : ∀ b', sumOver (Dv h t v h.nrows) (fun a => ind (a v == b) * Fv h lam t v h.nrows a)
      (Function.update a v b') = ind (b' == b) * Zv h lam t v h.nrows b' := by
    intro b'
    rw [sumOver_mul_left, tree_sum hinv lam t v h.nrows hN]
    · simp
    · intro a' ha'
      rw [ha' v hvD]
  simp only [sumOver]
  rw [key false, key true]
  unfold Ztot
  cases b <;> simp

theorem mass_factor {h : SM} (hinv : h.Inv) (lam : List ℝ) (hl : lam.length = h.ncols) (t v : Nat)
    (hv : v < h.ncols) (hN : (v :: Dv h t v h.nrows).Nodup) (hL : Lv h t v h.nrows) :
    ∃ K : ℝ, 0 < K ∧ ∀ b, Ideal.mass Sc.real h lam v b = K * Ztot h lam t v b := by
  refine ⟨sumOver ((List.range h.ncols).filter (fun x => !decide (x ∈ v :: Dv h t v h.nrows)))
    (Frest h lam t v) (fun _ => false), ?_, ?_⟩
  · refine lt_of_lt_of_le ?_ (sumOver_ge_false _ _ (Frest_nonneg h lam t v) _)
    have e : (fun x => if x ∈ (List.range h.ncols).filter (fun x => !decide (x ∈ v :: Dv h t v h.nrows))
        then false else (fun _ => false) x) = fun _ => false := by
      funext x; simp
    rw [e]
    exact Frest_pos h lam t v
  · intro b
    have hlt : ∀ x ∈ v :: Dv h t v h.nrows, x < h.ncols := by
      intro x hx
      rcases List.mem_cons.1 hx with rfl | hx
      · exact hv
      · exact Dv_lt hinv _ _ _ x hx
    rw [mass_eq_sumOver h hinv lam hl v hv b (fun _ => false),
      sumOver_perm (perm_split h.ncols _ hN hlt), sumOver_append, ← sumOver_mul_const]
    apply sumOver_congr
    intro a _
    have e : Ftot h lam v b = fun a => (ind (a v == b) * Fv h lam t v h.nrows a) * Frest h lam t v a :=
      funext (Ftot_split hinv lam t v hv hN b)
    rw [e, sumOver_mul_right _ _ _ _ (fun a' ha' => Frest_dep hinv lam t v hL a a' ha'),
      tree_total hinv lam t v hN b a, mul_comm]

end LdpcV.TreeBP
