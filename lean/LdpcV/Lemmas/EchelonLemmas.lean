/- Helper lemmas (EchelonLemmas) for the GF(2) linear-algebra properties C02 / C09.

Layout:
* EchelonLemmas1 — GF(2) sums, row operations on function matrices, `e_RowEq`, echelon structure `e_Ech`
* EchelonLemmas2 — `findPivot` / `swapFrom` / `eliminate` through `Mat.get`, invariant of `rowEchelon`
* EchelonLemmas3 — `placeColumns` on an echelon form with `n` pivots
* EchelonLemmas4 — bridges to the list-level vocabulary, the column-copy loop
* this file     — `paritySystematic` assembled: `e_sys_main`
-/
import LdpcV.Lemmas.EchelonLemmas4
namespace LdpcV.Lin
open LdpcV.SM

theorem e_paritySystematic_eq (h : SM) (hr : 1 ≤ h.nrows) (hn : h.nrows ≤ h.ncols) :
    paritySystematic h =
      if ¬ (List.range h.ncols).any
          (fun j => (rowEchelonForm (denseOf h) h.nrows h.ncols).get (h.nrows - 1) j) then .notFullRank
      else
        match placeColumns (rowEchelonForm (denseOf h) h.nrows h.ncols) h.nrows h.ncols with
        | none => .panic
        | some pl =>
          match pl.foldlM (fun g q => (h.col q.2).foldlM (fun g u => g.insert u q.1) g)
              (SM.new h.nrows h.ncols) with
          | some g => .ok g
          | none => .panic := by
  unfold paritySystematic
  simp only [e_ofSM_id]
  rw [if_neg (by omega), if_neg (by omega)]
  rfl

/-- everything about `paritySystematic` on an `n × m` input with `1 ≤ n ≤ m`: either the rows are dependent
and the answer is `notFullRank`, or they are independent and the answer is a column permutation of the
input whose last `n` columns are nonsingular -/
theorem e_sys_main (h : SM) (hinv : h.Inv) (hr : 1 ≤ h.nrows) (hn : h.nrows ≤ h.ncols) :
    (¬ RowsIndep (denseOf h) h.ncols ∧ paritySystematic h = .notFullRank) ∨
    (RowsIndep (denseOf h) h.ncols ∧ ∃ g, paritySystematic h = .ok g ∧ g.Inv ∧ g.nrows = h.nrows ∧
      g.ncols = h.ncols ∧
      (∃ σ : List Nat, σ.Perm (List.range h.ncols) ∧ ∀ c, c < h.ncols → g.col (σ.getD c 0) = h.col c) ∧
      Nonsingular (tailMat g)) := by
  have hshape := e_denseOf_shape h
  obtain ⟨hre, hcase⟩ := e_rowEchelonForm_spec h.nrows h.ncols (denseOf h) hshape
  rw [e_paritySystematic_eq h hr hn]
  rw [e_rowsIndep_iff _ _ _ hshape, hre.indep (m := h.ncols)]
  generalize rowEchelonForm (denseOf h) h.nrows h.ncols = A at hre hcase ⊢
  rcases hcase with ⟨j', p, hj', hech⟩ | ⟨k', hk', hzero⟩
  · -- full rank
    right
    refine ⟨hech.indep hj', ?_⟩
    have hlast : (List.range h.ncols).any (fun j => A.get (h.nrows - 1) j) = true := by
      rw [List.any_eq_true]
      refine ⟨p (h.nrows - 1), ?_, hech.pone _ (by omega)⟩
      have := hech.plt (h.nrows - 1) (by omega)
      exact List.mem_range.mpr (by omega)
    rw [if_neg (by simp [hlast])]
    obtain ⟨pl, hpl, hsrc, hdst, hpiv⟩ := e_placeColumns_spec A h.nrows h.ncols j' p hech hj' hn
    rw [hpl]
    simp only []
    have hnd : (pl.map Prod.fst).Nodup := hdst.nodup_iff.mpr List.nodup_range
    have hlt : ∀ q ∈ pl, q.1 < (SM.new h.nrows h.ncols).ncols := by
      intro q hq
      have : q.1 ∈ List.range h.ncols := hdst.mem_iff.mp (List.mem_map_of_mem (f := Prod.fst) hq)
      simpa [SM.new, SM.ncols] using this
    obtain ⟨g, hg, ginv, gr, gc, gcol, _⟩ := e_copy_spec h hinv pl (SM.new h.nrows h.ncols)
      (new_inv _ _) (by simp [SM.new, SM.nrows]) hlt hnd (fun q _ => e_new_col _ _ _)
    have gr' : g.nrows = h.nrows := by rw [gr]; simp [SM.new, SM.nrows]
    have gc' : g.ncols = h.ncols := by rw [gc]; simp [SM.new, SM.ncols]
    rw [hg]
    refine ⟨g, rfl, ginv, gr', gc', ⟨pl.map Prod.fst, hdst, ?_⟩, ?_⟩
    · intro c hc
      have hlen : pl.length = h.ncols := by
        have := congrArg List.length hsrc
        simpa using this
      have hcl : c < pl.length := by omega
      have h1 : (pl.map Prod.fst).getD c 0 = pl[c].1 := by
        simp [List.getD_eq_getElem?_getD, hcl]
      have h2 : pl[c].2 = c := by
        have := congrArg (fun l => l[c]?) hsrc
        simpa [hcl, hc] using this
      rw [h1, gcol _ (List.getElem_mem hcl), h2]
    · -- the tail is nonsingular
      intro x hx hz
      have hxn : x.length = g.nrows := by
        rw [hx]; exact (e_tailMat_shape g).1
      have hsum := e_mulVec_zero (tailMat g) g.nrows g.nrows x (e_tailMat_shape g) hxn hz
      have hH : ∀ i, i < h.nrows →
          e_csum h.nrows (fun c => (denseOf h).get i (p c) && x.getD c false) = false := by
        intro i hi
        refine Eq.trans ?_ (hsum i (by omega))
        rw [gr']
        apply e_csum_congr
        intro c hc
        have hpc : p c < h.ncols := by have := hech.plt c hc; omega
        rw [e_tailMat_get g i c (by omega) (by omega), e_denseOf_get h i (p c) hi hpc, gr', gc']
        rw [← ginv.has_eq_mem, ← hinv.has_eq_mem, SM.has, SM.has, gcol _ (hpiv c hc)]
      have hA := hre.ker p h.nrows (fun c => x.getD c false) hH
      have hx0 := hech.tri (fun c => x.getD c false) hA
      rw [e_isZero_iff]
      intro c hc
      exact hx0 c (by omega)
  · -- rank deficient
    left
    refine ⟨e_not_indep_of_zero_row (r := k') hk' (fun c hc => hzero k' c (Nat.le_refl _) hc), ?_⟩
    have hlast : (List.range h.ncols).any (fun j => A.get (h.nrows - 1) j) = false := by
      rw [List.any_eq_false]
      intro c hc
      rw [hzero (h.nrows - 1) c (by omega) (List.mem_range.mp hc)]
      simp
    rw [if_pos (by simp [hlast])]

end LdpcV.Lin
