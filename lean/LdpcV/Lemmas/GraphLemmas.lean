/- Helper lemmas for C11 (BFS / girth).  The development is split over seven files:
  1 nodes, labels, adjacency, termination measure      2 BFS correctness (`bfs_correct`)
  3 chains and cycles (parity, counting)                4 branch paths, cross-edge cycle, `no_short_cycle`
  5 inner loop of the girth search (`girthVisit_inv`)   6 outer loop, `localGirth_exact`, `localGirth_bounded`, `minOpt`
  7 the girth (`girth_exact'`, `girth_bounded'`) -/
import LdpcV.Lemmas.GraphLemmas1
import LdpcV.Lemmas.GraphLemmas2
import LdpcV.Lemmas.GraphLemmas3
import LdpcV.Lemmas.GraphLemmas4
import LdpcV.Lemmas.GraphLemmas5
import LdpcV.Lemmas.GraphLemmas6
import LdpcV.Lemmas.GraphLemmas7
