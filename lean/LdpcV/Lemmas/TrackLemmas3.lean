/- Helper lemmas (TrackLemmas3) for C04Track: the folds from `none`, the approximate-min* rule and the A-Min* rule
against the real rules on the scaled inputs. -/
import LdpcV.Lemmas.TrackLemmas2
namespace LdpcV.TrackL
open LdpcV LdpcV.ArithF

/-! ### the two folds -/

theorem approx_fold (xs : List ℤ) (hx : ∀ x ∈ xs, -127 ≤ x ∧ x ≤ 127) (hne : xs ≠ []) :
    ∃ (z : ℤ) (r : ℝ), I8.foldAbs I8.stepApprox xs none = some (some z) ∧
      foldAbs Sc.real (stepApprox Sc.real) (List.map (fun x : ℤ => (x : ℝ) / 8) xs) none = some r ∧
      |(z : ℝ) - 8 * r| ≤ ((xs.length - 1 : ℕ) : ℝ) / 2 := by
  obtain ⟨z, r, h1, h2, _, _, _, h⟩ := fold_track_none trackStep_approx xs hne hx
  exact ⟨z, r, h1, h2, by linarith⟩

theorem full_fold (xs : List ℤ) (hx : ∀ x ∈ xs, -127 ≤ x ∧ x ≤ 127) (hne : xs ≠ []) :
    ∃ (z : ℤ) (r : ℝ), I8.foldAbs I8.stepFull xs none = some (some z) ∧
      foldAbs Sc.real (stepFull Sc.real) (List.map (fun x : ℤ => (x : ℝ) / 8) xs) none = some r ∧
      |(z : ℝ) - 8 * r| ≤ ((xs.length - 1 : ℕ) : ℝ) := by
  obtain ⟨z, r, h1, h2, _, _, _, h⟩ := fold_track_none trackStep_full xs hne hx
  exact ⟨z, r, h1, h2, by linarith⟩

/-! ### approximate min* rule -/

/-- what the real rule computes for one neighbour -/
noncomputable def approxOneR (ms : List (ℕ × ℝ)) (ex : ℕ × ℝ) : Option (ℕ × ℝ) :=
  (foldAbs Sc.real (stepApprox Sc.real) ((ms.filter (fun m => m.1 != ex.1)).map (·.2)) none).map (fun mag =>
    (ex.1, if signParity Sc.real ((ms.filter (fun m => m.1 != ex.1)).map (·.2)) then -mag else mag))

theorem checkApproxR_eq (ms : List (ℕ × ℝ)) : checkApprox Sc.real ms = ms.mapM (approxOneR ms) := rfl

/-- no partial hard limiting, or an emitted value below the promotion threshold -/
def Guard (cfg : I8.Cfg) (v : ℤ) : Prop := cfg.hardLimit = false ∨ v.natAbs < 100

def RelA (cfg : I8.Cfg) (e : ℝ) (o : ℕ × ℤ) (o' : ℕ × ℝ) : Prop :=
  o.1 = o'.1 ∧ (Guard cfg o.2 → |(o.2 : ℝ) - 8 * o'.2| ≤ e)

theorem others_length (msgs : List (ℕ × ℤ)) (hn : (msgs.map Prod.fst).Nodup) (j : ℕ) (hj : j < msgs.length) :
    (I8.othersOf msgs msgs[j].1).length = msgs.length - 1 := by
  rw [I8.othersOf_getElem msgs hn j hj]
  simp [List.length_eraseIdx, hj]

theorem approxOne_track (cfg : I8.Cfg) (msgs : List (ℕ × ℤ)) (hb : I8.Bounded msgs) (hd : 2 ≤ msgs.length)
    (hn : (msgs.map Prod.fst).Nodup) (ex : ℕ × ℤ) (hex : ex ∈ msgs) :
    ∃ y y', I8.approxOne cfg msgs ex = some y ∧ approxOneR (sc msgs) (ex.1, (ex.2 : ℝ) / 8) = some y' ∧
      RelA cfg (((msgs.length - 2 : ℕ) : ℝ) / 2) y y' := by
  obtain ⟨j, hj, rfl⟩ := List.getElem_of_mem hex
  have hlen := others_length msgs hn j hj
  have hne : I8.othersOf msgs msgs[j].1 ≠ [] := by
    intro h
    rw [h] at hlen
    simp at hlen
    omega
  obtain ⟨z, r, hz, hr, _, _, _, he⟩ := fold_track_none trackStep_approx (I8.othersOf msgs msgs[j].1) hne
    (I8.othersOf_bounded msgs hb _)
  refine ⟨(msgs[j].1, cfg.hl (if I8.signParity (I8.othersOf msgs msgs[j].1) then -z else z)),
    (msgs[j].1, if I8.signParity (I8.othersOf msgs msgs[j].1) then -r else r), ?_, ?_, rfl, ?_⟩
  · rw [I8.approxOne_eq, hz]; rfl
  · unfold approxOneR
    simp only
    rw [others_scale, hr, signParity_cast]
    rfl
  · intro hg
    simp only at hg ⊢
    rw [hl_guard cfg _ hg, pm_track]
    rw [hlen] at he
    have e : msgs.length - 1 - 1 = msgs.length - 2 := by omega
    rw [e] at he
    linarith

/-- the approximate rule with the guard (both C04Track statements about it are instances) -/
theorem approx_rule (cfg : I8.Cfg) (msgs : List (ℕ × ℤ)) (hn : (msgs.map Prod.fst).Nodup)
    (hr : ∀ m ∈ msgs, -127 ≤ m.2 ∧ m.2 ≤ 127) (hd : 2 ≤ msgs.length) :
    ∃ out outR, I8.checkApprox cfg msgs = some out ∧ checkApprox Sc.real (sc msgs) = some outR ∧
      out.map Prod.fst = outR.map Prod.fst ∧
      ∀ i, i < out.length → Guard cfg (out.getD i (0, 0)).2 →
        |((out.getD i (0, 0)).2 : ℝ) - 8 * (outR.getD i (0, 0)).2| ≤ ((msgs.length - 2 : ℕ) : ℝ) / 2 := by
  obtain ⟨out, out', h1, h2, hF⟩ := mapM_forall₂ (I8.approxOne cfg msgs) (approxOneR (sc msgs))
    (fun m => (m.1, (m.2 : ℝ) / 8)) (RelA cfg (((msgs.length - 2 : ℕ) : ℝ) / 2)) msgs
    (fun ex hex => approxOne_track cfg msgs hr hd hn ex hex)
  refine ⟨out, out', ?_, ?_, forall₂_map_fst hF (fun a b h => h.1),
    fun i hi hg => (forall₂_getD hF (0, 0) (0, 0) i hi).2 hg⟩
  · rw [I8.checkApprox_eq]; exact h1
  · rw [checkApproxR_eq]; exact h2

/-! ### A-Min* rule -/

theorem checkAmin_eq (cfg : I8.Cfg) (msgs : List (ℕ × ℤ)) (j : ℕ) (hj : j < msgs.length) (delta delta2 : ℤ)
    (harg : I8.argminAbs (msgs.map Prod.snd) = some (j, msgs[j].2))
    (hfold : I8.foldAbs I8.stepFull ((msgs.map Prod.snd).eraseIdx j) none = some (some delta))
    (hv : -127 ≤ msgs[j].2) (hstep : I8.stepFull delta (msgs[j].2.natAbs : ℤ) = some delta2) :
    I8.checkAmin cfg msgs = some
      ((msgs[j].1, if I8.signParity (msgs.map Prod.snd) != decide (msgs[j].2 < 0) then -cfg.hl delta else cfg.hl delta) ::
        (msgs.zipIdx.filter (fun p => p.2 != j)).map (fun p =>
          (p.1.1, if I8.signParity (msgs.map Prod.snd) != decide (p.1.2 < 0) then -cfg.hl delta2 else cfg.hl delta2))) := by
  rw [← I8.filter_zipIdx_eq_eraseIdx'] at hfold
  have hget : msgs.getD j (0, 0) = msgs[j] := by simp [hj]
  simp only [I8.checkAmin, harg, hfold, I8.abs8_ok _ hv, hstep, hget, Option.bind_eq_bind, Option.bind_some,
    Option.pure_def, bne_iff_ne, ne_eq]

theorem checkAminR_eq (ms : List (ℕ × ℝ)) (j : ℕ) (w dR : ℝ)
    (h1 : argminAbs Sc.real (ms.map (·.2)) = some (j, w))
    (h2 : foldAbs Sc.real (stepFull Sc.real) ((((ms.map (·.2)).zipIdx.filter (fun p => p.2 != j)).map (·.1))) none
      = some dR) :
    checkAmin Sc.real ms = some
      (((ms.getD j (0, w)).1, if (signParity Sc.real (ms.map (·.2)) != isNeg Sc.real w) then -dR else dR) ::
        (ms.zipIdx.filter (fun p => p.2 != j)).map (fun p =>
          (p.1.1, if (signParity Sc.real (ms.map (·.2)) != isNeg Sc.real p.1.2) then -(stepFull Sc.real dR |w|)
            else stepFull Sc.real dR |w|))) := by
  simp only [checkAmin, h1, h2, Option.bind_eq_bind, Option.bind_some, Option.pure_def, real_neg, real_abs]

theorem zipIdx_scale (msgs : List (ℕ × ℤ)) (j : ℕ) :
    (sc msgs).zipIdx.filter (fun p => p.2 != j) =
      (msgs.zipIdx.filter (fun p => p.2 != j)).map (Prod.map (fun m => (m.1, (m.2 : ℝ) / 8)) id) := by
  unfold sc
  rw [List.zipIdx_map, List.filter_map]
  rfl

def RelB (e : ℝ) (o : ℕ × ℤ) (o' : ℕ × ℝ) : Prop := o.1 = o'.1 ∧ |(o.2 : ℝ) - 8 * o'.2| ≤ e

theorem amin_rule (cfg : I8.Cfg) (hc : cfg.hardLimit = false) (msgs : List (ℕ × ℤ))
    (hr : ∀ m ∈ msgs, -127 ≤ m.2 ∧ m.2 ≤ 127) (hd : 2 ≤ msgs.length) :
    ∃ out outR, I8.checkAmin cfg msgs = some out ∧ checkAmin Sc.real (sc msgs) = some outR ∧
      out.map Prod.fst = outR.map Prod.fst ∧
      ∀ i, i < out.length →
        |((out.getD i (0, 0)).2 : ℝ) - 8 * (outR.getD i (0, 0)).2| ≤ ((msgs.length - 1 : ℕ) : ℝ) := by
  have hbv : ∀ v ∈ msgs.map Prod.snd, -127 ≤ v ∧ v ≤ 127 := by
    intro v hv
    obtain ⟨m, hm, rfl⟩ := List.mem_map.1 hv
    exact hr m hm
  have hne : msgs.map Prod.snd ≠ [] := by
    intro h; have := congrArg List.length h; simp at this; subst this; simp at hd
  obtain ⟨j, w, harg⟩ := I8.argminAbs_total _ hne hbv
  obtain ⟨hj, hw, _⟩ := I8.argminAbs_spec _ j w harg
  have hj' : j < msgs.length := by simpa using hj
  have hw' : w = msgs[j].2 := by rw [← hw]; simp
  subst hw'
  have hbe : ∀ v ∈ (msgs.map Prod.snd).eraseIdx j, -127 ≤ v ∧ v ≤ 127 :=
    fun v hv => hbv v (List.mem_of_mem_eraseIdx hv)
  have hlen : ((msgs.map Prod.snd).eraseIdx j).length = msgs.length - 1 := by
    simp [List.length_eraseIdx, hj']
  have hne' : (msgs.map Prod.snd).eraseIdx j ≠ [] := by
    intro h; have := congrArg List.length h; rw [hlen] at this; simp at this; omega
  have hwb := hr msgs[j] (List.getElem_mem hj')
  -- the fold over the others, both sides
  obtain ⟨delta, dR, hfold, hfoldR, d0, d1, r0, he⟩ := fold_track_none trackStep_full _ hne' hbe
  rw [hlen, mul_one] at he
  -- the final step towards the others
  obtain ⟨delta2, hstep, _, _, _, he2⟩ := full_step_track delta (msgs[j].2.natAbs : ℤ) d0 d1 (by omega) (by omega)
    dR |(msgs[j].2 : ℝ) / 8| r0 (abs_nonneg _)
  have e0 : ((msgs[j].2.natAbs : ℤ) : ℝ) - 8 * |(msgs[j].2 : ℝ) / 8| = 0 := by rw [abs_cast_div]; ring
  rw [e0, abs_zero, add_zero] at he2
  -- the real side
  have hargR := argmin_cast _ j _ (fun v hv => (hbv v hv).1) harg
  rw [← vals_scale] at hargR
  have hfoldR' : foldAbs Sc.real (stepFull Sc.real)
      (((((sc msgs).map (·.2)).zipIdx.filter (fun p => p.2 != j)).map (·.1))) none = some dR := by
    rw [I8.filter_zipIdx_eq_eraseIdx', vals_scale, ← I8.map_eraseIdx']
    exact hfoldR
  have hsign : signParity Sc.real ((sc msgs).map (·.2)) = I8.signParity (msgs.map Prod.snd) := by
    rw [vals_scale, signParity_cast]
  have hb1 : (msgs.length - 1 - 1 : ℕ) ≤ msgs.length - 1 := by omega
  have hb1' : ((msgs.length - 1 - 1 : ℕ) : ℝ) ≤ ((msgs.length - 1 : ℕ) : ℝ) := by exact_mod_cast hb1
  have hb2 : ((msgs.length - 1 - 1 : ℕ) : ℝ) + 1 = ((msgs.length - 1 : ℕ) : ℝ) := by
    have : msgs.length - 1 - 1 + 1 = msgs.length - 1 := by omega
    exact_mod_cast this
  have hhl : ∀ x, cfg.hl x = x := fun x => by simp [I8.Cfg.hl, hc]
  have hF : List.Forall₂ (RelB ((msgs.length - 1 : ℕ) : ℝ))
      ((msgs[j].1, if I8.signParity (msgs.map Prod.snd) != decide (msgs[j].2 < 0) then -cfg.hl delta else cfg.hl delta) ::
        (msgs.zipIdx.filter (fun p => p.2 != j)).map (fun p =>
          (p.1.1, if I8.signParity (msgs.map Prod.snd) != decide (p.1.2 < 0) then -cfg.hl delta2 else cfg.hl delta2)))
      ((((sc msgs).getD j (0, (msgs[j].2 : ℝ) / 8)).1,
          if (signParity Sc.real ((sc msgs).map (·.2)) != isNeg Sc.real ((msgs[j].2 : ℝ) / 8)) then -dR else dR) ::
        (msgs.zipIdx.filter (fun p => p.2 != j)).map (fun p =>
          ((fun p : (ℕ × ℝ) × ℕ => (p.1.1, if (signParity Sc.real ((sc msgs).map (·.2)) != isNeg Sc.real p.1.2)
            then -(stepFull Sc.real dR |(msgs[j].2 : ℝ) / 8|) else stepFull Sc.real dR |(msgs[j].2 : ℝ) / 8|))
          (Prod.map (fun m : ℕ × ℤ => (m.1, (m.2 : ℝ) / 8)) id p)))) := by
    refine List.Forall₂.cons ?_ (forall₂_map_same _ _ _ ?_)
    · constructor
      · simp [sc, hj']
      · simp only [hsign, isNeg_cast, hhl]
        rw [pm_track]
        linarith
    · intro p _
      constructor
      · rfl
      · simp only [Prod.map_fst, hsign, isNeg_cast, hhl]
        rw [pm_track]
        linarith
  refine ⟨_, _, checkAmin_eq cfg msgs j hj' delta delta2 harg hfold hwb.1 hstep, ?_,
    forall₂_map_fst hF (fun a b h => h.1), fun i hi => (forall₂_getD hF (0, 0) (0, 0) i hi).2⟩
  rw [checkAminR_eq (sc msgs) j _ dR hargR hfoldR', zipIdx_scale, List.map_map]
  rfl

end LdpcV.TrackL
