/- Helper lemmas for C08 (alist writer / parser). -/
import LdpcV.Model.Alist
import LdpcV.Lemmas.SparseLemmas
namespace LdpcV.Alist
open LdpcV SM

/-! ### parser, token layer -/

theorem tokens_spec (nrows col : Nat) (ts : List (Option Nat)) (h : SM)
    (hinv : h.Inv) (hr : h.nrows = nrows) (hc : col < h.ncols) :
    parseCols.tokens nrows col ts h ≠ .panic ∧
    ∀ h', parseCols.tokens nrows col ts h = .ok h' →
      h'.Inv ∧ h'.nrows = h.nrows ∧ h'.ncols = h.ncols ∧
      ∀ r c, h'.mem r c = true ↔ (h.mem r c = true ∨ (c = col ∧ some (r+1) ∈ ts)) := by
  induction ts generalizing h with
  | nil => simp [parseCols.tokens, hinv]
  | cons t ts ih =>
    cases t with
    | none => simp [parseCols.tokens]
    | some row =>
      rw [parseCols.tokens.eq_3]
      by_cases h0 : row = 0
      · subst h0
        obtain ⟨i1, i2⟩ := ih h hinv hr hc
        refine ⟨by simpa using i1, fun h' hh => ?_⟩
        obtain ⟨a, b, c, d⟩ := i2 h' (by simpa using hh)
        refine ⟨a, b, c, fun r c => ?_⟩
        rw [d]; simp
      · by_cases h1 : row > nrows
        · simp [h0, h1]
        · simp only [h0, h1, if_false]
          have hi : h.insert (row - 1) col = some (h.insertRaw (row - 1) col) := by
            simp [SM.insert, inRange, hc, hr]; omega
          rw [hi]
          obtain ⟨s1, s2, s3, s4⟩ := insert_spec h _ _ _ hinv hi
          obtain ⟨i1, i2⟩ := ih (h.insertRaw (row - 1) col) s1 (by rw [s2, hr]) (by rw [s3]; exact hc)
          refine ⟨i1, fun h' hh => ?_⟩
          obtain ⟨a, b, c, d⟩ := i2 h' hh
          refine ⟨a, b.trans s2, c.trans s3, fun r c => ?_⟩
          rw [d, s4]
          simp only [PosSet.ins, Bool.or_eq_true, Bool.and_eq_true, beq_iff_eq, List.mem_cons, Option.some.injEq]
          constructor
          · rintro ((⟨rfl, rfl⟩ | hm) | ⟨rfl, hm⟩)
            · right; exact ⟨rfl, Or.inl (by omega)⟩
            · left; exact hm
            · right; exact ⟨rfl, Or.inr hm⟩
          · rintro (hm | ⟨rfl, (he | hm)⟩)
            · left; right; exact hm
            · left; left; exact ⟨by omega, rfl⟩
            · right; exact ⟨rfl, hm⟩

theorem tokens_ok (nrows col : Nat) (ts : List (Option Nat)) (h : SM)
    (hinv : h.Inv) (hr : h.nrows = nrows) (hc : col < h.ncols)
    (hts : ∀ t ∈ ts, ∃ x, t = some x ∧ x ≤ nrows) :
    ∃ h', parseCols.tokens nrows col ts h = .ok h' := by
  induction ts generalizing h with
  | nil => exact ⟨h, rfl⟩
  | cons t ts ih =>
    obtain ⟨row, rfl, hx⟩ := hts t (List.mem_cons_self ..)
    have hts' : ∀ t ∈ ts, ∃ x, t = some x ∧ x ≤ nrows := fun t ht => hts t (List.mem_cons_of_mem _ ht)
    rw [parseCols.tokens.eq_3]
    by_cases h0 : row = 0
    · simp only [h0, if_true]; exact ih h hinv hr hc hts'
    · have h1 : ¬ row > nrows := by omega
      simp only [h0, h1, if_false]
      have hi : h.insert (row - 1) col = some (h.insertRaw (row - 1) col) := by
        simp [SM.insert, inRange, hc, hr]; omega
      rw [hi]
      obtain ⟨s1, s2, s3, s4⟩ := insert_spec h _ _ _ hinv hi
      exact ih _ s1 (by rw [s2, hr]) (by rw [s3]; exact hc) hts'


theorem parseCols_spec (nrows k col : Nat) (lines : List (List (Option Nat))) (h : SM)
    (hinv : h.Inv) (hr : h.nrows = nrows) (hc : col + k ≤ h.ncols) :
    parseCols nrows k col lines h ≠ .panic ∧
    ∀ h', parseCols nrows k col lines h = .ok h' →
      h'.Inv ∧ h'.nrows = h.nrows ∧ h'.ncols = h.ncols ∧
      ∀ r c, h'.mem r c = true ↔
        (h.mem r c = true ∨ (col ≤ c ∧ c < col + k ∧ some (r+1) ∈ lines.getD (c - col) [])) := by
  induction k generalizing col lines h with
  | zero =>
    simp only [parseCols, ne_eq, reduceCtorEq, not_false_eq_true, Res.ok.injEq, true_and]
    rintro h' rfl
    refine ⟨hinv, rfl, rfl, fun r c => ?_⟩
    constructor
    · exact Or.inl
    · rintro (hm | ⟨a, b, _⟩)
      · exact hm
      · omega
  | succ k ih =>
    cases lines with
    | nil => simp [parseCols]
    | cons line rest =>
      rw [parseCols.eq_3]
      obtain ⟨t1, t2⟩ := tokens_spec nrows col line h hinv hr (by omega)
      cases ht : parseCols.tokens nrows col line h with
      | panic => exact absurd ht t1
      | err => simp
      | ok h1 =>
        obtain ⟨a, b, c, d⟩ := t2 h1 ht
        obtain ⟨i1, i2⟩ := ih (col + 1) rest h1 a (by rw [b, hr]) (by rw [c]; omega)
        refine ⟨i1, fun h' hh => ?_⟩
        obtain ⟨a', b', c', d'⟩ := i2 h' hh
        refine ⟨a', b'.trans b, c'.trans c, fun r cc => ?_⟩
        rw [d', d]
        constructor
        · rintro ((hm | ⟨rfl, hm⟩) | ⟨x, y, hm⟩)
          · exact Or.inl hm
          · right; refine ⟨Nat.le_refl _, by omega, by simpa using hm⟩
          · right; refine ⟨by omega, by omega, ?_⟩
            have : cc - col = (cc - (col + 1)) + 1 := by omega
            rw [this]; simpa using hm
        · rintro (hm | ⟨x, y, hm⟩)
          · exact Or.inl (Or.inl hm)
          · by_cases hcc : cc = col
            · subst hcc; left; right; exact ⟨rfl, by simpa using hm⟩
            · right; refine ⟨by omega, by omega, ?_⟩
              have : cc - col = (cc - (col + 1)) + 1 := by omega
              rw [this] at hm; simpa using hm

theorem parseCols_ok (nrows k col : Nat) (lines : List (List (Option Nat))) (h : SM)
    (hinv : h.Inv) (hr : h.nrows = nrows) (hc : col + k ≤ h.ncols) (hl : k ≤ lines.length)
    (hts : ∀ i, i < k → ∀ t ∈ lines.getD i [], ∃ x, t = some x ∧ x ≤ nrows) :
    ∃ h', parseCols nrows k col lines h = .ok h' := by
  induction k generalizing col lines h with
  | zero => exact ⟨h, by simp [parseCols]⟩
  | succ k ih =>
    cases lines with
    | nil => simp at hl
    | cons line rest =>
      rw [parseCols.eq_3]
      obtain ⟨h1, ht⟩ := tokens_ok nrows col line h hinv hr (by omega) (by simpa using hts 0 (by omega))
      obtain ⟨a, b, c, d⟩ := (tokens_spec nrows col line h hinv hr (by omega)).2 h1 ht
      rw [ht]
      exact ih (col + 1) rest h1 a (by rw [b, hr]) (by rw [c]; omega) (by simpa using hl)
        (fun i hi => by simpa using hts (i + 1) (by omega))

/-! ### writer, token layer -/

theorem mem_insertSorted (x y : Nat) (l : List Nat) : y ∈ insertSorted x l ↔ y = x ∨ y ∈ l := by
  induction l with
  | nil => simp [insertSorted]
  | cons a l ih =>
    simp only [insertSorted]
    split
    · simp
    · simp only [List.mem_cons, ih]; grind

theorem mem_sortNat (x : Nat) (l : List Nat) : x ∈ sortNat l ↔ x ∈ l := by
  induction l with
  | nil => simp [sortNat]
  | cons a l ih =>
    have : sortNat (a :: l) = insertSorted a (sortNat l) := rfl
    rw [this, mem_insertSorted, ih]; simp

theorem insertSorted_pairwise (x : Nat) (l : List Nat) (hl : l.Pairwise (· < ·)) (hx : x ∉ l) :
    (insertSorted x l).Pairwise (· < ·) := by
  induction l with
  | nil => simp [insertSorted]
  | cons a l ih =>
    rw [List.pairwise_cons] at hl
    simp only [List.mem_cons, not_or] at hx
    simp only [insertSorted]
    split
    · rw [List.pairwise_cons]
      refine ⟨?_, List.pairwise_cons.mpr hl⟩
      intro b hb
      rcases List.mem_cons.mp hb with rfl | hb
      · omega
      · have := hl.1 b hb; omega
    · rw [List.pairwise_cons]
      refine ⟨?_, ih hl.2 hx.2⟩
      intro b hb
      rcases (mem_insertSorted _ _ _).mp hb with rfl | hb
      · omega
      · exact hl.1 b hb

theorem sortNat_pairwise (l : List Nat) (hl : l.Nodup) : (sortNat l).Pairwise (· < ·) := by
  induction l with
  | nil => simp [sortNat]
  | cons a l ih =>
    have : sortNat (a :: l) = insertSorted a (sortNat l) := rfl
    rw [List.nodup_cons] at hl
    rw [this]
    exact insertSorted_pairwise a _ (ih hl.2) (by rw [mem_sortNat]; exact hl.1)

theorem indexLine_shape (padded : Bool) (d : Nat) (el : List Nat) :
    ∃ k, indexLine padded d el = (sortNat el).map (· + 1) ++ List.replicate k 0 ∧ (padded = false → k = 0) := by
  cases padded with
  | false => exact ⟨0, by simp [indexLine], fun _ => rfl⟩
  | true =>
    cases el with
    | nil =>
      refine ⟨(d - 1) + 1, ?_, by simp⟩
      simp [indexLine, sortNat, List.replicate_succ]
    | cons a l => exact ⟨d - max (a :: l).length 1, by simp [indexLine], by simp⟩

theorem mem_indexLine (padded : Bool) (d : Nat) (el : List Nat) (x : Nat) :
    x ∈ indexLine padded d el ↔ (∃ r ∈ el, x = r + 1) ∨ (x = 0 ∧ x ∈ indexLine padded d el) := by
  obtain ⟨k, hk, _⟩ := indexLine_shape padded d el
  rw [hk]
  simp only [List.mem_append, List.mem_map, mem_sortNat, List.mem_replicate]
  grind

theorem succ_mem_indexLine (padded : Bool) (d : Nat) (el : List Nat) (r : Nat) :
    r + 1 ∈ indexLine padded d el ↔ r ∈ el := by
  rw [mem_indexLine]; simp

theorem writeLines_length (h : SM) (padded : Bool) :
    (writeLines h padded).length = 4 + h.ncols + h.nrows := by
  simp [writeLines, nrows, ncols]; omega

theorem writeLines_getD_col (h : SM) (padded : Bool) (c : Nat) (hc : c < h.ncols) :
    (writeLines h padded).getD (4 + c) [] = indexLine padded (maxLen h.cols) (h.col c) := by
  have hc' : c < h.cols.length := hc
  rw [show 4 + c = c + 1 + 1 + 1 + 1 by omega]
  simp only [writeLines, List.cons_append, List.nil_append, List.getD_eq_getElem?_getD,
    List.getElem?_cons_succ]
  rw [List.getElem?_append_left (by simpa using hc')]
  simp [col, List.getD_eq_getElem?_getD, hc']

theorem writeLines_getD_row (h : SM) (padded : Bool) (r : Nat) (hr : r < h.nrows) :
    (writeLines h padded).getD (4 + h.ncols + r) [] = indexLine padded (maxLen h.rows) (h.row r) := by
  have hr' : r < h.rows.length := hr
  rw [show 4 + h.ncols + r = (h.ncols + r) + 1 + 1 + 1 + 1 by omega]
  simp [writeLines, row, ncols, List.getD_eq_getElem?_getD, hr']

/-! ### round trip, token layer -/

theorem parseLines_ne_panic (lines : List (List (Option Nat))) : parseLines lines ≠ .panic := by
  unfold parseLines
  split
  · simp
  · split
    · exact (parseCols_spec _ _ 0 _ _ (new_inv _ _) (by simp [new, nrows]) (by simp [new, ncols])).1
    · simp

theorem parseLines_ok_spec (lines : List (List (Option Nat))) (h : SM) (hp : parseLines lines = .ok h) :
    h.Inv ∧ ∃ nc nr rest, lines.head? = some (some nc :: some nr :: rest) ∧ h.ncols = nc ∧ h.nrows = nr := by
  unfold parseLines at hp
  split at hp
  · cases hp
  · split at hp
    · next nc nr rest' =>
      obtain ⟨a, b, c, _⟩ := (parseCols_spec _ _ 0 _ _ (new_inv _ _) (by simp [new, nrows])
        (by simp [new, ncols])).2 h hp
      exact ⟨a, nc, nr, rest', rfl, by simpa [new, ncols] using c, by simpa [new, nrows] using b⟩
    · cases hp

theorem parseLines_writeLines (h : SM) (hinv : h.Inv) (padded : Bool) :
    ∃ h', parseLines ((writeLines h padded).map (fun l => l.map some)) = .ok h' ∧
      h'.nrows = h.nrows ∧ h'.ncols = h.ncols ∧ ∀ r c, h'.mem r c = h.mem r c := by
  have hget : ∀ i, i < h.ncols →
      (((writeLines h padded).map (fun l => l.map some)).tail.drop 3).getD i [] =
        (indexLine padded (maxLen h.cols) (h.col i)).map some := by
    intro i hi
    rw [← writeLines_getD_col h padded i hi]
    simp [List.getD_eq_getElem?_getD, List.getElem?_drop, Nat.add_comm]
    cases (writeLines h padded)[i + 4]? <;> simp
  have hp : parseLines ((writeLines h padded).map (fun l => l.map some)) =
      parseCols h.nrows h.ncols 0 (((writeLines h padded).map (fun l => l.map some)).tail.drop 3)
        (SM.new h.nrows h.ncols) := by
    simp [writeLines, parseLines]
  have hnew := new_inv h.nrows h.ncols
  have hnr : (SM.new h.nrows h.ncols).nrows = h.nrows := by simp [new, nrows]
  have hnc : (SM.new h.nrows h.ncols).ncols = h.ncols := by simp [new, ncols]
  have hlen : h.ncols ≤ (((writeLines h padded).map (fun l => l.map some)).tail.drop 3).length := by
    simp [writeLines_length]; omega
  obtain ⟨h', hok⟩ := parseCols_ok h.nrows h.ncols 0 _ _ hnew hnr (by omega) hlen (by
    intro i hi t ht
    rw [hget i hi, List.mem_map] at ht
    obtain ⟨x, hx, rfl⟩ := ht
    refine ⟨x, rfl, ?_⟩
    rcases (mem_indexLine _ _ _ _).mp hx with ⟨r, hr, rfl⟩ | ⟨rfl, _⟩
    · exact (hinv.2.1 r i hr).1
    · omega)
  obtain ⟨a, b, c, d⟩ := (parseCols_spec h.nrows h.ncols 0 _ _ hnew hnr (by omega)).2 h' hok
  refine ⟨h', hp.trans hok, b.trans hnr, c.trans hnc, fun r cc => ?_⟩
  rw [Bool.eq_iff_iff, d, new_mem]
  simp only [PosSet.empty, Bool.false_eq_true, false_or, Nat.zero_le, true_and, Nat.zero_add, Nat.sub_zero]
  constructor
  · rintro ⟨hcc, hm⟩
    rw [hget cc hcc] at hm
    have : r + 1 ∈ indexLine padded (maxLen h.cols) (h.col cc) := by simpa using hm
    rw [succ_mem_indexLine, ← has_iff, hinv.has_eq_mem] at this
    exact this
  · intro hm
    rw [← hinv.has_eq_mem, has_iff] at hm
    have hcc := (hinv.2.1 r cc hm).2.1
    refine ⟨hcc, ?_⟩
    rw [hget cc hcc]
    simpa using (succ_mem_indexLine padded _ _ r).mpr hm

/-! ### text layer -/

theorem splitNL_go_noNL (l cur : List Char) (hl : ∀ c ∈ l, c ≠ '\n') :
    splitNL.go l cur = [cur.reverse ++ l] := by
  induction l generalizing cur with
  | nil => simp [splitNL.go]
  | cons c cs ih =>
    have hc : (c == '\n') = false := by simpa using hl c (List.mem_cons_self ..)
    simp only [splitNL.go, hc, Bool.false_eq_true, if_false]
    rw [ih _ (fun c' hc' => hl c' (List.mem_cons_of_mem _ hc'))]
    simp

theorem splitNL_go_line (l rest cur : List Char) (hl : ∀ c ∈ l, c ≠ '\n') :
    splitNL.go (l ++ '\n' :: rest) cur = (cur.reverse ++ l) :: splitNL.go rest [] := by
  induction l generalizing cur with
  | nil => simp [splitNL.go]
  | cons c cs ih =>
    have hc : (c == '\n') = false := by simpa using hl c (List.mem_cons_self ..)
    simp only [List.cons_append, splitNL.go, hc, Bool.false_eq_true, if_false]
    rw [ih _ (fun c' hc' => hl c' (List.mem_cons_of_mem _ hc'))]
    simp

theorem splitWs_go_word (w rest cur : List Char) (hw : ∀ c ∈ w, isWs c = false) :
    splitWs.go (w ++ rest) cur = splitWs.go rest (w.reverse ++ cur) := by
  induction w generalizing cur with
  | nil => simp
  | cons c cs ih =>
    have hc : isWs c = false := hw c (List.mem_cons_self ..)
    simp only [List.cons_append, splitWs.go, hc, Bool.false_eq_true, if_false]
    rw [ih _ (fun c' hc' => hw c' (List.mem_cons_of_mem _ hc'))]
    simp

/-- the text of a line without its final newline -/
def lineBody : List Nat → List Char
  | [] => []
  | x :: xs => digitsOf x ++ xs.flatMap (fun y => ' ' :: digitsOf y)

theorem renderLine_eq (l : List Nat) : renderLine l = lineBody l ++ ['\n'] := by
  cases l <;> simp [renderLine, lineBody]

theorem digit_of_mem_digitsOf {n : Nat} {c : Char} (hc : c ∈ digitsOf n) : c.isDigit = true :=
  Nat.isDigit_of_mem_toDigits (by decide) (by decide) hc

theorem foldl_digitsOf (n : Nat) :
    (digitsOf n).foldl (fun acc c => acc * 10 + (c.toNat - '0'.toNat)) 0 = n := by
  have h := @Nat.ofDigitChars_ten_toDigits n
  rw [Nat.ofDigitChars_eq_foldl] at h
  have hf : (fun acc (c : Char) => acc * 10 + (c.toNat - '0'.toNat)) =
      (fun sofar (c : Char) => 10 * sofar + (c.toNat - '0'.toNat)) := by
    funext a c; rw [Nat.mul_comm]
  rw [hf]; exact h


theorem isDigit_bounds {c : Char} (hc : c.isDigit = true) : 48 ≤ c.toNat ∧ c.toNat ≤ 57 := by
  simp only [Char.isDigit, Bool.and_eq_true, decide_eq_true_eq, ge_iff_le, UInt32.le_iff_toNat_le] at hc
  exact hc

theorem isDigit_not_ws {c : Char} (hc : c.isDigit = true) : isWs c = false := by
  have := isDigit_bounds hc
  simp only [isWs, Bool.or_eq_false_iff, Bool.and_eq_false_iff, decide_eq_false_iff_not, beq_eq_false_iff_ne]
  omega

theorem parseUsize_noPlus (t : List Char) (ht : ∀ rest, t ≠ '+' :: rest) :
    parseUsize t =
      if t.isEmpty then none
      else if t.all (fun c => '0' ≤ c && c ≤ '9') then
        let v := t.foldl (fun acc c => acc * 10 + (c.toNat - '0'.toNat)) 0
        if v < 2^64 then some v else none
      else none := by
  unfold parseUsize
  split
  · next rest => exact absurd rfl (ht rest)
  · rfl

theorem isDigit_ne_nl {c : Char} (hc : c.isDigit = true) : c ≠ '\n' := by
  rintro rfl; simp at hc

theorem parseUsize_digitsOf (n : Nat) (hn : n < 2^64) : parseUsize (digitsOf n) = some n := by
  have hne : digitsOf n ≠ [] := Nat.toDigits_ne_nil
  have hall : (digitsOf n).all (fun c => '0' ≤ c && c ≤ '9') = true := by
    rw [List.all_eq_true]
    intro c hc
    have := isDigit_bounds (digit_of_mem_digitsOf hc)
    simp only [Bool.and_eq_true, decide_eq_true_eq, Char.le_def, UInt32.le_iff_toNat_le]
    exact this
  rw [parseUsize_noPlus]
  · have hf := foldl_digitsOf n
    simp only [Char.reduceToNat] at hf
    simp [hne, hall, hf, hn]
  · intro rest heq
    have := isDigit_bounds (digit_of_mem_digitsOf (n := n) (c := '+') (by rw [heq]; simp))
    simp at this

theorem digitsOf_noWs {n : Nat} : ∀ c ∈ digitsOf n, isWs c = false :=
  fun _ hc => isDigit_not_ws (digit_of_mem_digitsOf hc)

theorem splitWs_go_tail (x : Nat) (xs : List Nat) :
    splitWs.go (digitsOf x ++ xs.flatMap (fun y => ' ' :: digitsOf y)) [] = (x :: xs).map digitsOf := by
  induction xs generalizing x with
  | nil =>
    have hne : digitsOf x ≠ [] := Nat.toDigits_ne_nil
    rw [List.flatMap_nil, splitWs_go_word _ _ _ digitsOf_noWs]
    simp [splitWs.go, hne]
  | cons y ys ih =>
    have hne : digitsOf x ≠ [] := Nat.toDigits_ne_nil
    rw [List.flatMap_cons, splitWs_go_word _ _ _ digitsOf_noWs]
    have hsp : isWs ' ' = true := by decide
    simp only [List.cons_append, splitWs.go, hsp, if_true]
    rw [ih y]
    simp [hne]

theorem lexLine_lineBody (l : List Nat) (hb : ∀ x ∈ l, x < 2^64) : lexLine (lineBody l) = l.map some := by
  cases l with
  | nil => simp [lexLine, lineBody, splitWs, splitWs.go]
  | cons x xs =>
    simp only [lexLine, lineBody, splitWs, splitWs_go_tail, List.map_map]
    apply List.map_congr_left
    intro y hy
    exact parseUsize_digitsOf y (hb y hy)

theorem lineBody_noNL (l : List Nat) : ∀ c ∈ lineBody l, c ≠ '\n' := by
  intro c hc
  cases l with
  | nil => simp [lineBody] at hc
  | cons x xs =>
    simp only [lineBody, List.mem_append, List.mem_flatMap, List.mem_cons] at hc
    rcases hc with hc | ⟨y, _, rfl | hc⟩
    · exact isDigit_ne_nl (digit_of_mem_digitsOf hc)
    · decide
    · exact isDigit_ne_nl (digit_of_mem_digitsOf hc)

theorem splitNL_render (lines : List (List Nat)) :
    splitNL (render lines) = lines.map lineBody ++ [[]] := by
  unfold splitNL
  induction lines with
  | nil => simp [render, splitNL.go]
  | cons l ls ih =>
    have : render (l :: ls) = lineBody l ++ '\n' :: render ls := by
      simp [render, renderLine_eq]
    rw [this, splitNL_go_line _ _ _ (lineBody_noNL l), ih]
    simp

theorem lex_render (lines : List (List Nat)) (hb : ∀ l ∈ lines, ∀ x ∈ l, x < 2^64) :
    (splitNL (render lines)).map lexLine = lines.map (fun l => l.map some) ++ [[]] := by
  rw [splitNL_render, List.map_append, List.map_map]
  congr 1
  · apply List.map_congr_left
    intro l hl
    exact lexLine_lineBody l (hb l hl)

/-! ### round trip, text layer -/

theorem parseCols_append (nrows k col : Nat) (lines extra : List (List (Option Nat))) (h : SM)
    (hl : k ≤ lines.length) :
    parseCols nrows k col (lines ++ extra) h = parseCols nrows k col lines h := by
  induction k generalizing col lines h with
  | zero => simp [parseCols]
  | succ k ih =>
    cases lines with
    | nil => simp at hl
    | cons line rest =>
      rw [List.cons_append, parseCols.eq_3, parseCols.eq_3]
      cases parseCols.tokens nrows col line h with
      | ok h1 => exact ih _ _ _ (by simpa using hl)
      | err => rfl
      | panic => rfl

theorem parseLines_writeLines_append (h : SM) (padded : Bool) (extra : List (List (Option Nat))) :
    parseLines ((writeLines h padded).map (fun l => l.map some) ++ extra) =
      parseLines ((writeLines h padded).map (fun l => l.map some)) := by
  simp only [writeLines, parseLines, List.cons_append, List.nil_append, List.map_cons, List.drop_succ_cons,
    List.drop_zero]
  rw [parseCols_append]
  simp [ncols]

theorem maxLen_le (l : List (List Nat)) (b : Nat) (hl : ∀ x ∈ l, x.length ≤ b) : maxLen l ≤ b := by
  unfold maxLen
  suffices ∀ a, a ≤ b → (l.map List.length).foldl max a ≤ b from this 0 (Nat.zero_le _)
  induction l with
  | nil => intro a ha; simpa using ha
  | cons x xs ih =>
    intro a ha
    simp only [List.map_cons, List.foldl_cons]
    exact ih (fun y hy => hl y (List.mem_cons_of_mem _ hy)) _
      (Nat.max_le.mpr ⟨ha, hl x (List.mem_cons_self ..)⟩)

theorem col_length_le (h : SM) (hinv : h.Inv) (c : Nat) : (h.col c).length ≤ h.nrows := by
  rw [(queries_spec h hinv 0 c).2.2]
  exact Nat.le_trans (List.length_filter_le _ _) (by simp)

theorem row_length_le (h : SM) (hinv : h.Inv) (r : Nat) : (h.row r).length ≤ h.ncols := by
  rw [(queries_spec h hinv r 0).2.1]
  exact Nat.le_trans (List.length_filter_le _ _) (by simp)

theorem mem_cols (h : SM) (l : List Nat) (hl : l ∈ h.cols) : ∃ c, c < h.ncols ∧ l = h.col c := by
  obtain ⟨c, hc, rfl⟩ := List.mem_iff_getElem.mp hl
  exact ⟨c, hc, by simp [col, List.getD_eq_getElem?_getD, hc]⟩

theorem mem_rows (h : SM) (l : List Nat) (hl : l ∈ h.rows) : ∃ r, r < h.nrows ∧ l = h.row r := by
  obtain ⟨r, hr, rfl⟩ := List.mem_iff_getElem.mp hl
  exact ⟨r, hr, by simp [row, List.getD_eq_getElem?_getD, hr]⟩

theorem writeLines_bound (h : SM) (hinv : h.Inv) (padded : Bool) (b : Nat) (hr : h.nrows ≤ b) (hc : h.ncols ≤ b) :
    ∀ l ∈ writeLines h padded, ∀ x ∈ l, x ≤ b := by
  have hcl : ∀ l ∈ h.cols, l.length ≤ b := fun l hl => by
    obtain ⟨c, _, rfl⟩ := mem_cols h l hl; exact Nat.le_trans (col_length_le h hinv c) hr
  have hrl : ∀ l ∈ h.rows, l.length ≤ b := fun l hl => by
    obtain ⟨r, _, rfl⟩ := mem_rows h l hl; exact Nat.le_trans (row_length_le h hinv r) hc
  intro l hl x hx
  simp only [writeLines, List.cons_append, List.nil_append, List.mem_cons, List.mem_append, List.mem_map] at hl
  rcases hl with rfl | rfl | rfl | rfl | ⟨el, hel, rfl⟩ | ⟨el, hel, rfl⟩
  · simp at hx; omega
  · simp at hx
    rcases hx with rfl | rfl
    · exact maxLen_le _ _ hcl
    · exact maxLen_le _ _ hrl
  · obtain ⟨el, hel, rfl⟩ := List.mem_map.mp hx; exact hcl el hel
  · obtain ⟨el, hel, rfl⟩ := List.mem_map.mp hx; exact hrl el hel
  · obtain ⟨c, _, rfl⟩ := mem_cols h el hel
    rcases (mem_indexLine _ _ _ _).mp hx with ⟨r, hr', rfl⟩ | ⟨rfl, _⟩
    · have := (hinv.2.1 r c hr').1; omega
    · omega
  · obtain ⟨r, _, rfl⟩ := mem_rows h el hel
    rcases (mem_indexLine _ _ _ _).mp hx with ⟨c, hc', rfl⟩ | ⟨rfl, _⟩
    · have := (hinv.1 r c hc').2.1; omega
    · omega

theorem fromAlist_alist (h : SM) (hinv : h.Inv) (padded : Bool) (hs : h.nrows < 2^64 - 1 ∧ h.ncols < 2^64 - 1) :
    fromAlist (alist h padded) = parseLines ((writeLines h padded).map (fun l => l.map some)) := by
  unfold fromAlist alist
  rw [lex_render, parseLines_writeLines_append]
  intro l hl x hx
  have := writeLines_bound h hinv padded (2^64 - 2) (by omega) (by omega) l hl x hx
  omega

/-! ### format -/

theorem writeLines_take4 (h : SM) (padded : Bool) :
    (writeLines h padded).take 4 = [[h.ncols, h.nrows], [maxLen h.cols, maxLen h.rows],
        h.cols.map List.length, h.rows.map List.length] := by
  simp [writeLines]

theorem col_line_shape (h : SM) (hinv : h.Inv) (padded : Bool) (c : Nat) (hc : c < h.ncols) :
    ∃ k, (writeLines h padded).getD (4 + c) [] =
        (sortNat (h.col c)).map (· + 1) ++ List.replicate k 0 ∧ (padded = false → k = 0) ∧
        ((sortNat (h.col c)).Pairwise (· < ·)) ∧ ∀ r, r ∈ sortNat (h.col c) ↔ h.mem r c = true := by
  obtain ⟨k, hk, hk0⟩ := indexLine_shape padded (maxLen h.cols) (h.col c)
  refine ⟨k, by rw [writeLines_getD_col h padded c hc, hk], hk0, sortNat_pairwise _ (hinv.2.2.2 c), fun r => ?_⟩
  rw [mem_sortNat, ← has_iff, hinv.has_eq_mem]

theorem row_line_shape (h : SM) (hinv : h.Inv) (padded : Bool) (r : Nat) (hr : r < h.nrows) :
    ∃ k, (writeLines h padded).getD (4 + h.ncols + r) [] =
        (sortNat (h.row r)).map (· + 1) ++ List.replicate k 0 ∧ (padded = false → k = 0) ∧
        ((sortNat (h.row r)).Pairwise (· < ·)) ∧ ∀ c, c ∈ sortNat (h.row r) ↔ h.mem r c = true := by
  obtain ⟨k, hk, hk0⟩ := indexLine_shape padded (maxLen h.rows) (h.row r)
  refine ⟨k, by rw [writeLines_getD_row h padded r hr, hk], hk0, sortNat_pairwise _ (hinv.2.2.1 r), fun c => ?_⟩
  rw [mem_sortNat, mem_iff]

end LdpcV.Alist
