/- Helper lemmas for C13 (BER statistics accumulation). -/
import LdpcV.Model.BerStats
namespace LdpcV.Ber

/-! ### sums -/

/-- sum of `f` over a list, in the `foldl` form used by `LdpcV.C13.total` -/
def tot (f : Frame → Nat) (l : List Frame) : Nat := (l.map f).foldl (· + ·) 0

/-- number of frames satisfying `p`, in the form used by `LdpcV.C13.count` -/
def cnt (p : Frame → Bool) (l : List Frame) : Nat := (l.filter p).length

theorem foldl_add_acc (l : List Nat) (acc : Nat) :
    l.foldl (· + ·) acc = acc + l.foldl (· + ·) 0 := by
  induction l generalizing acc with
  | nil => simp
  | cons a l ih =>
    simp only [List.foldl_cons]
    rw [ih (acc + a), ih (0 + a)]
    omega

@[simp] theorem tot_nil (f : Frame → Nat) : tot f [] = 0 := rfl

theorem tot_cons (f : Frame → Nat) (a : Frame) (l : List Frame) :
    tot f (a :: l) = f a + tot f l := by
  unfold tot
  simp only [List.map_cons, List.foldl_cons]
  rw [foldl_add_acc]
  omega

@[simp] theorem cnt_nil (p : Frame → Bool) : cnt p [] = 0 := rfl

theorem cnt_cons (p : Frame → Bool) (a : Frame) (l : List Frame) :
    cnt p (a :: l) = (if p a then 1 else 0) + cnt p l := by
  unfold cnt
  by_cases h : p a = true
  · simp [h]; omega
  · simp [h]

/-! ### the accumulator -/

theorem new_errors (b : Nat) : (Cur.new b).errors = 0 := by
  unfold Cur.new Cur.errors
  by_cases h : b > 0 <;> simp [h]

theorem step_errors_le (b : Nat) (c : Cur) (f : Frame) :
    (c.step b f).errors ≤ c.errors + 1 := by
  unfold Cur.errors Cur.step
  cases hb : c.bch with
  | none => simp only [Option.map_none]; split <;> omega
  | some x =>
    simp only [Option.map_some]
    split <;> simp

theorem step_errors_ge (b : Nat) (c : Cur) (f : Frame) :
    c.errors ≤ (c.step b f).errors := by
  unfold Cur.errors Cur.step
  cases hb : c.bch with
  | none => simp only [Option.map_none]; omega
  | some x =>
    simp only [Option.map_some]
    split <;> simp

/-- two accumulation steps commute -/
theorem step_comm (b : Nat) (c : Cur) (f g : Frame) :
    (c.step b f).step b g = (c.step b g).step b f := by
  unfold Cur.step
  cases hb : c.bch with
  | none =>
    simp only [Option.map_none, Cur.mk.injEq, CodeStats.mk.injEq]
    refine ⟨trivial, ?_, ?_, ⟨?_, ?_, ?_⟩, trivial⟩ <;> omega
  | some x =>
    simp only [Option.map_some, Cur.mk.injEq, CodeStats.mk.injEq, Option.some.injEq]
    refine ⟨trivial, ?_, ?_, ⟨?_, ?_, ?_⟩, ?_⟩
    · omega
    · omega
    · omega
    · omega
    · omega
    · by_cases h1 : f.bitErrors > b <;> by_cases h2 : g.bitErrors > b <;>
        simp [h1, h2] <;> omega

theorem foldl_step_perm (b : Nat) (c : Cur) (l1 l2 : List Frame) (hp : l1.Perm l2) :
    l1.foldl (Cur.step b) c = l2.foldl (Cur.step b) c := by
  induction hp generalizing c with
  | nil => rfl
  | cons x _ ih => simp only [List.foldl_cons]; exact ih _
  | swap x y l => simp only [List.foldl_cons]; rw [step_comm]
  | trans _ _ ih1 ih2 => exact (ih1 c).trans (ih2 c)

/-- the LDPC-side counters after folding a list of frames into `c` -/
theorem foldl_step_counts (b : Nat) (c : Cur) (l : List Frame) :
    let c' := l.foldl (Cur.step b) c
    c'.numFrames = c.numFrames + l.length ∧
    c'.ldpc.frameErrors = c.ldpc.frameErrors + cnt (·.frameError) l ∧
    c'.ldpc.bitErrors = c.ldpc.bitErrors + tot (·.bitErrors) l ∧
    c'.falseDecodes = c.falseDecodes + cnt (·.falseDecode) l ∧
    c'.totalIterations = c.totalIterations + tot (·.iterations) l ∧
    c'.ldpc.correctIterations =
      c.ldpc.correctIterations + tot (·.iterations) (l.filter (fun f => !f.frameError)) ∧
    tot (·.iterations) l =
      tot (·.iterations) (l.filter (fun f => !f.frameError)) + tot (·.iterations) (l.filter (·.frameError)) := by
  induction l generalizing c with
  | nil => simp
  | cons f l ih =>
    have h := ih (c.step b f)
    simp only [List.foldl_cons, List.length_cons]
    simp only at h
    obtain ⟨h1, h2, h3, h4, h5, h6, h7⟩ := h
    rw [h1, h2, h3, h4, h5, h6]
    simp only [cnt_cons, tot_cons, List.filter_cons]
    cases hfe : f.frameError <;> cases hfd : f.falseDecode <;>
      simp [Cur.step, hfe, hfd, tot_cons] <;> omega

/-- the outer-code counters after folding a list of frames into `c` -/
theorem foldl_step_bch_some (b : Nat) (c : Cur) (x : CodeStats) (l : List Frame) (hx : c.bch = some x) :
    ∃ y, (l.foldl (Cur.step b) c).bch = some y ∧
      y.frameErrors = x.frameErrors + cnt (fun f => decide (f.bitErrors > b)) l ∧
      y.bitErrors = x.bitErrors + tot (·.bitErrors) (l.filter (fun f => decide (f.bitErrors > b))) ∧
      y.correctIterations =
        x.correctIterations + tot (·.iterations) (l.filter (fun f => !decide (f.bitErrors > b))) := by
  induction l generalizing c x with
  | nil => exact ⟨x, by simpa using hx, by simp, by simp, by simp⟩
  | cons f l ih =>
    simp only [List.foldl_cons]
    by_cases hf : f.bitErrors > b
    · have hs : (c.step b f).bch =
          some { x with bitErrors := x.bitErrors + f.bitErrors, frameErrors := x.frameErrors + 1 } := by
        simp [Cur.step, hx, hf]
      obtain ⟨y, hy, h1, h2, h3⟩ := ih _ _ hs
      refine ⟨y, hy, ?_, ?_, ?_⟩
      · rw [h1, cnt_cons]; simp [hf]; omega
      · rw [h2]; simp [hf, tot_cons]; omega
      · rw [h3]; simp [hf]
    · have hs : (c.step b f).bch =
          some { x with correctIterations := x.correctIterations + f.iterations } := by
        simp [Cur.step, hx, hf]
      obtain ⟨y, hy, h1, h2, h3⟩ := ih _ _ hs
      refine ⟨y, hy, ?_, ?_, ?_⟩
      · rw [h1, cnt_cons]; simp [hf]
      · rw [h2]; simp [hf]
      · rw [h3]; simp [hf, tot_cons]; omega

theorem foldl_step_bch_none (b : Nat) (c : Cur) (l : List Frame) (hx : c.bch = none) :
    (l.foldl (Cur.step b) c).bch = none := by
  induction l generalizing c with
  | nil => simpa using hx
  | cons f l ih =>
    simp only [List.foldl_cons]
    apply ih
    simp [Cur.step, hx]

/-! ### the consumption loop -/

theorem collect_nil (t b : Nat) (c : Cur) : collect t b c [] = (c, [], false) := by
  simp [collect]

theorem collect_stop (t b : Nat) (c : Cur) (arr : List (Option Frame)) (h : ¬ c.errors < t) :
    collect t b c arr = (c, [], false) := by
  cases arr with
  | nil => simp [collect]
  | cons a rest => simp [collect, h]

theorem collect_cons_none (t b : Nat) (c : Cur) (rest : List (Option Frame)) (h : c.errors < t) :
    collect t b c (none :: rest) = (c, [], true) := by
  simp [collect, h]

theorem collect_cons_some (t b : Nat) (c : Cur) (f : Frame) (rest : List (Option Frame))
    (h : c.errors < t) :
    collect t b c (some f :: rest) =
      ((collect t b (c.step b f) rest).1, f :: (collect t b (c.step b f) rest).2.1,
        (collect t b (c.step b f) rest).2.2) := by
  simp [collect, h]

/-- the final counters are the fold of the consumed frames -/
theorem collect_fold (t b : Nat) (c : Cur) (arr : List (Option Frame)) :
    (collect t b c arr).1 = (collect t b c arr).2.1.foldl (Cur.step b) c := by
  induction arr generalizing c with
  | nil => simp [collect_nil]
  | cons a rest ih =>
    by_cases h : c.errors < t
    · cases a with
      | none => simp [collect_cons_none, h]
      | some f => rw [collect_cons_some _ _ _ _ _ h]; simp only [List.foldl_cons]; exact ih _
    · simp [collect_stop _ _ _ _ h]

theorem collect_prefix (t b : Nat) (c : Cur) (arr : List (Option Frame)) :
    (collect t b c arr).2.1.map some = arr.take (collect t b c arr).2.1.length := by
  induction arr generalizing c with
  | nil => simp [collect_nil]
  | cons a rest ih =>
    by_cases h : c.errors < t
    · cases a with
      | none => simp [collect_cons_none, h]
      | some f =>
        rw [collect_cons_some _ _ _ _ _ h]
        simp only [List.map_cons, List.length_cons, List.take_succ_cons]
        rw [ih]
    · simp [collect_stop _ _ _ _ h]

theorem collect_err (t b : Nat) (c : Cur) (arr : List (Option Frame))
    (he : (collect t b c arr).2.2 = true) :
    arr[(collect t b c arr).2.1.length]? = some none ∧ (collect t b c arr).1.errors < t := by
  induction arr generalizing c with
  | nil => simp [collect_nil] at he
  | cons a rest ih =>
    by_cases h : c.errors < t
    · cases a with
      | none => simp [collect_cons_none, h]
      | some f =>
        rw [collect_cons_some _ _ _ _ _ h] at he ⊢
        simp only [List.length_cons, List.getElem?_cons_succ]
        exact ih _ he
    · simp [collect_stop _ _ _ _ h] at he

theorem collect_le (t b : Nat) (c : Cur) (arr : List (Option Frame)) (hc : c.errors ≤ t) :
    (collect t b c arr).1.errors ≤ t := by
  induction arr generalizing c with
  | nil => simpa [collect_nil] using hc
  | cons a rest ih =>
    by_cases h : c.errors < t
    · cases a with
      | none => simpa [collect_cons_none, h] using hc
      | some f =>
        rw [collect_cons_some _ _ _ _ _ h]
        apply ih
        have := step_errors_le b c f
        omega
    · simpa [collect_stop _ _ _ _ h] using hc

/-- leaving the loop through the `while` condition before the arrivals ran out -/
theorem collect_target (t b : Nat) (c : Cur) (arr : List (Option Frame)) (hc : c.errors < t)
    (he : (collect t b c arr).2.2 = false)
    (hl : (collect t b c arr).2.1.length < arr.length) :
    (collect t b c arr).1.errors = t ∧
    ∃ init last, (collect t b c arr).2.1 = init ++ [last] ∧
      (init.foldl (Cur.step b) c).errors + 1 = t := by
  induction arr generalizing c with
  | nil => simp at hl
  | cons a rest ih =>
    cases a with
    | none => simp [collect_cons_none, hc] at he
    | some f =>
      rw [collect_cons_some _ _ _ _ _ hc] at he hl ⊢
      simp only [List.length_cons] at hl
      simp only at he
      by_cases h1 : (c.step b f).errors < t
      · obtain ⟨h2, init, last, h3, h4⟩ := ih _ h1 he (by omega)
        refine ⟨h2, f :: init, last, ?_, ?_⟩
        · simp [h3]
        · simpa using h4
      · rw [collect_stop _ _ _ _ h1]
        have := step_errors_le b c f
        refine ⟨by simp only; omega, [], f, by simp, ?_⟩
        simp only [List.foldl_nil]
        omega

/-! ### `frameOf` -/

theorem zip_filter_ne_of_take (message decoded : List Bool)
    (h : decoded.take message.length = message) :
    (message.zip decoded).filter (fun p => p.1 != p.2) = [] := by
  induction message generalizing decoded with
  | nil => simp
  | cons m ms ih =>
    cases decoded with
    | nil => simp at h
    | cons d ds =>
      simp only [List.length_cons, List.take_succ_cons, List.cons.injEq] at h
      obtain ⟨h1, h2⟩ := h
      subst h1
      simp only [List.zip_cons_cons, List.filter_cons]
      simp [ih ds h2]

theorem zip_filter_le (message decoded : List Bool) :
    ((message.zip decoded).filter (fun p => p.1 != p.2)).length ≤ message.length := by
  refine Nat.le_trans (List.length_filter_le _ _) ?_
  simp only [List.length_zip]
  omega

end LdpcV.Ber
