/- Helper lemmas (RoundPsk): the 8PSK demodulator of Model/Modulation.lean under the standard model of floating-point
arithmetic against the same formula at ℝ. -/
import LdpcV.Lemmas.RoundLemmas
namespace LdpcV.Round
open LdpcV LdpcV.Modulation

variable (M : FpModel)

/-- rounding error of one correction term `ln_1p(exp(-|a-b|))` (RoundLemmas.corr_err) -/
noncomputable def c1 : ℝ := 3 * M.e + M.u * b M

theorem c1_nonneg : 0 ≤ c1 M := by
  unfold c1; have := M.e_nonneg; have := M.u_nonneg; have := b_pos M; positivity

/-- error propagation through one rounded max*: inputs within `E` of real inputs of magnitude at most `K` -/
noncomputable def stepE (E K : ℝ) : ℝ := E + c1 M + M.u * (K + 1 + E + c1 M)

theorem stepE_ge {E K : ℝ} (hE : 0 ≤ E) (hK : 0 ≤ K) : E ≤ stepE M E K := by
  unfold stepE
  have := c1_nonneg M; have := M.u_nonneg
  have : 0 ≤ M.u * (K + 1 + E + c1 M) := by positivity
  linarith

theorem stepE_mono {E E' K K' : ℝ} (hE : E ≤ E') (hK : K ≤ K') : stepE M E K ≤ stepE M E' K' := by
  unfold stepE
  have := M.u_nonneg
  nlinarith

/-! ### log-sum-exp -/

theorem lse_le {a a' c c' E : ℝ} (ha : a' ≤ a + E) (hc : c' ≤ c + E) :
    Real.log (Real.exp a' + Real.exp c') ≤ Real.log (Real.exp a + Real.exp c) + E := by
  have h1 : Real.exp a' ≤ Real.exp a * Real.exp E := by rw [← Real.exp_add]; exact Real.exp_le_exp.2 ha
  have h2 : Real.exp c' ≤ Real.exp c * Real.exp E := by rw [← Real.exp_add]; exact Real.exp_le_exp.2 hc
  have hpos : 0 < Real.exp a + Real.exp c := by positivity
  have : Real.log (Real.exp a + Real.exp c) + E = Real.log ((Real.exp a + Real.exp c) * Real.exp E) := by
    rw [Real.log_mul hpos.ne' (Real.exp_pos _).ne', Real.log_exp]
  rw [this]
  apply Real.log_le_log (by positivity)
  nlinarith

theorem lse_lip {a a' c c' E : ℝ} (ha : |a' - a| ≤ E) (hc : |c' - c| ≤ E) :
    |Real.log (Real.exp a' + Real.exp c') - Real.log (Real.exp a + Real.exp c)| ≤ E := by
  have ha' := abs_le.mp ha
  have hc' := abs_le.mp hc
  rw [abs_le]; constructor
  · have := lse_le (a := a') (a' := a) (c := c') (c' := c) (E := E) (by linarith) (by linarith)
    linarith
  · have := lse_le (a := a) (a' := a') (c := c) (c' := c') (E := E) (by linarith) (by linarith)
    linarith

theorem lse_bound {a c K : ℝ} (ha : |a| ≤ K) (hc : |c| ≤ K) : |Real.log (Real.exp a + Real.exp c)| ≤ K + 1 := by
  have ha' := abs_le.mp ha
  have hc' := abs_le.mp hc
  rw [abs_le]; constructor
  · have : Real.exp a ≤ Real.exp a + Real.exp c := by have := Real.exp_pos c; linarith
    have h := Real.log_le_log (Real.exp_pos a) this
    rw [Real.log_exp] at h; linarith
  · have h1 : Real.exp a ≤ Real.exp K := Real.exp_le_exp.2 ha'.2
    have h2 : Real.exp c ≤ Real.exp K := Real.exp_le_exp.2 hc'.2
    have h3 : Real.exp a + Real.exp c ≤ 2 * Real.exp K := by linarith
    have h := Real.log_le_log (by positivity) h3
    rw [Real.log_mul (by norm_num) (Real.exp_pos _).ne', Real.log_exp] at h
    have := log_two_le_one
    linarith

/-! ### one rounded max* -/

theorem maxstar_r (a c : ℝ) :
    maxstar (Sc.rounded M) a c = M.fl (max a c + M.flog1p (M.fexp (-|M.fl (a - c)|))) := rfl

theorem maxstar_err {a a' c c' E K : ℝ} (_hE : 0 ≤ E) (ha : |a' - a| ≤ E) (hc : |c' - c| ≤ E)
    (hKa : |a| ≤ K) (hKc : |c| ≤ K) :
    |maxstar (Sc.rounded M) a' c' - maxstar Sc.real a c| ≤ stepE M E K ∧ |maxstar Sc.real a c| ≤ K + 1 := by
  have hb := lse_bound hKa hKc
  have hl := lse_lip ha hc
  rw [← ModL.maxstar_lse, ← ModL.maxstar_lse] at hl
  rw [← ModL.maxstar_lse] at hb
  refine ⟨?_, hb⟩
  obtain ⟨_, hcorr⟩ := corr_err M a' c'
  rw [maxstar_r]
  set X := max a' c' + M.flog1p (M.fexp (-|M.fl (a' - c')|)) with hX
  have hXr : |X - maxstar Sc.real a' c'| ≤ c1 M := by
    rw [ModL.maxstar_real, hX]
    have : max a' c' + M.flog1p (M.fexp (-|M.fl (a' - c')|)) - (max a' c' + Real.log (1 + Real.exp (-|a' - c'|)))
        = M.flog1p (M.fexp (-|M.fl (a' - c')|)) - Real.log (1 + Real.exp (-|a' - c'|)) := by ring
    rw [this]; exact hcorr
  have hXabs : |X| ≤ K + 1 + E + c1 M := by
    have e : X = (X - maxstar Sc.real a' c') + (maxstar Sc.real a' c' - maxstar Sc.real a c) + maxstar Sc.real a c := by ring
    rw [e]
    refine le_trans (abs_add_le _ _) ?_
    have := abs_add_le (X - maxstar Sc.real a' c') (maxstar Sc.real a' c' - maxstar Sc.real a c)
    linarith
  have hfl := M.fl_err X
  have hu := M.u_nonneg
  have e : M.fl X - maxstar Sc.real a c =
      (M.fl X - X) + (X - maxstar Sc.real a' c') + (maxstar Sc.real a' c' - maxstar Sc.real a c) := by ring
  rw [e]
  refine le_trans (abs_add_le _ _) ?_
  have h2 := abs_add_le (M.fl X - X) (X - maxstar Sc.real a' c')
  have h3 : M.u * |X| ≤ M.u * (K + 1 + E + c1 M) := mul_le_mul_of_nonneg_left hXabs hu
  unfold stepE
  linarith

/-- the three chained errors of `maxstar4` -/
noncomputable def E1 (E0 D : ℝ) : ℝ := stepE M E0 D
noncomputable def E2 (E0 D : ℝ) : ℝ := stepE M (E1 M E0 D) (D + 1)
noncomputable def E3 (E0 D : ℝ) : ℝ := stepE M (E2 M E0 D) (D + 2)

theorem maxstar4_err {x0 x1 x2 x3 y0 y1 y2 y3 E0 D : ℝ} (hE : 0 ≤ E0) (hD : 0 ≤ D)
    (h0 : |y0 - x0| ≤ E0) (h1 : |y1 - x1| ≤ E0) (h2 : |y2 - x2| ≤ E0) (h3 : |y3 - x3| ≤ E0)
    (k0 : |x0| ≤ D) (k1 : |x1| ≤ D) (k2 : |x2| ≤ D) (k3 : |x3| ≤ D) :
    |maxstar4 (Sc.rounded M) y0 y1 y2 y3 - maxstar4 Sc.real x0 x1 x2 x3| ≤ E3 M E0 D ∧
    |maxstar4 Sc.real x0 x1 x2 x3| ≤ D + 3 := by
  unfold maxstar4
  obtain ⟨a1, b1⟩ := maxstar_err M hE h0 h1 k0 k1
  have hE1 : 0 ≤ E1 M E0 D := le_trans hE (stepE_ge M hE hD)
  have hE01 : E0 ≤ E1 M E0 D := stepE_ge M hE hD
  obtain ⟨a2, b2⟩ := maxstar_err M (E := E1 M E0 D) (K := D + 1) hE1 a1 (le_trans h2 hE01) b1 (by linarith)
  have hE2 : 0 ≤ E2 M E0 D := le_trans hE1 (stepE_ge M hE1 (by linarith))
  have hE12 : E1 M E0 D ≤ E2 M E0 D := stepE_ge M hE1 (by linarith)
  obtain ⟨a3, b3⟩ := maxstar_err M (E := E2 M E0 D) (K := D + 2) hE2 a2 (le_trans h3 (le_trans hE01 hE12))
    (by linarith) (by linarith)
  exact ⟨a3, by linarith⟩

/-- the final subtraction -/
noncomputable def llrErr (E0 D : ℝ) : ℝ := 2 * E3 M E0 D * (1 + M.u) + 2 * M.u * (D + 3)

theorem llr_err {A A' B' B E D : ℝ} (hA : |A' - A| ≤ E) (hB : |B' - B| ≤ E) (kA : |A| ≤ D + 3) (kB : |B| ≤ D + 3) :
    |M.fl (A' - B') - (A - B)| ≤ 2 * E * (1 + M.u) + 2 * M.u * (D + 3) := by
  obtain ⟨δ, hδ, hfl⟩ := fl_eq M (A' - B')
  rw [hfl]
  have e : (A' - B') * (1 + δ) - (A - B) = ((A' - A) - (B' - B)) * (1 + δ) + (A - B) * δ := by ring
  rw [e]
  have hu := M.u_nonneg
  have hδ' := abs_le.mp hδ
  have h1 : |((A' - A) - (B' - B)) * (1 + δ)| ≤ (2 * E) * (1 + M.u) := by
    rw [abs_mul]
    have hE0 : 0 ≤ E := le_trans (abs_nonneg _) hA
    refine mul_le_mul ?_ ?_ (abs_nonneg _) (by linarith)
    · have := abs_sub (A' - A) (B' - B); linarith
    · rw [abs_le]; constructor <;> linarith
  have h2 : |(A - B) * δ| ≤ (2 * (D + 3)) * M.u := by
    rw [abs_mul]
    have hD : 0 ≤ D + 3 := le_trans (abs_nonneg _) kA
    refine mul_le_mul ?_ hδ (abs_nonneg _) (by linarith)
    have := abs_sub A B; linarith
  refine le_trans (abs_add_le _ _) ?_
  linarith

/-! ### the correlations -/

theorem dot_r (s p : ℝ × ℝ) : dot (Sc.rounded M) s p = M.fl (M.fl (s.1 * p.1) + M.fl (s.2 * p.2)) := rfl
theorem dot_real (s p : ℝ × ℝ) : dot Sc.real s p = s.1 * p.1 + s.2 * p.2 := rfl

theorem dot_err {s s' p p' : ℝ × ℝ} (hs1 : Near M 4 s.1 s'.1) (hs2 : Near M 4 s.2 s'.2)
    (hp1 : Near M 2 p.1 p'.1) (hp2 : Near M 2 p.2 p'.2) (k1 : |p.1| ≤ 1) (k2 : |p.2| ≤ 1) :
    |dot (Sc.rounded M) s' p' - dot Sc.real s p| ≤ ((b M) ^ 8 - 1) * (|s.1| + |s.2|) ∧
    |dot Sc.real s p| ≤ |s.1| + |s.2| := by
  rw [dot_r, dot_real]
  have n1 := near_abs M (near_fl M (near_mul M hs1 hp1))
  have n2 := near_abs M (near_fl M (near_mul M hs2 hp2))
  simp only [show 4 + 2 + 1 = 7 from rfl] at n1 n2
  set P1 := M.fl (s'.1 * p'.1)
  set P2 := M.fl (s'.2 * p'.2)
  set q1 := s.1 * p.1
  set q2 := s.2 * p.2
  have hq1 : |q1| ≤ |s.1| := by
    show |s.1 * p.1| ≤ _
    rw [abs_mul]; nlinarith [abs_nonneg s.1]
  have hq2 : |q2| ≤ |s.2| := by
    show |s.2 * p.2| ≤ _
    rw [abs_mul]; nlinarith [abs_nonneg s.2]
  obtain ⟨δ, hδ, hfl⟩ := fl_eq M (P1 + P2)
  have hδ' := abs_le.mp hδ
  have hu := M.u_nonneg
  have hb1 := one_le_b M
  have hb := one_add_le_b M
  have hP : (1 : ℝ) ≤ (b M) ^ 7 := one_le_pow₀ hb1
  constructor
  · rw [hfl]
    have e : (P1 + P2) * (1 + δ) - (q1 + q2) = ((P1 - q1) + (P2 - q2)) * (1 + δ) + (q1 + q2) * δ := by ring
    rw [e]
    have hQ : 0 ≤ |q1| + |q2| := by positivity
    have h1 : |((P1 - q1) + (P2 - q2)) * (1 + δ)| ≤ (((b M) ^ 7 - 1) * (|q1| + |q2|)) * (1 + M.u) := by
      rw [abs_mul]
      refine mul_le_mul ?_ ?_ (abs_nonneg _) (mul_nonneg (by linarith) hQ)
      · refine le_trans (abs_add_le _ _) ?_
        rw [mul_add]; exact add_le_add n1 n2
      · rw [abs_le]; constructor <;> linarith
    have h2 : |(q1 + q2) * δ| ≤ (|q1| + |q2|) * M.u := by
      rw [abs_mul]
      exact mul_le_mul (abs_add_le _ _) hδ (abs_nonneg _) hQ
    refine le_trans (abs_add_le _ _) (le_trans (add_le_add h1 h2) ?_)
    have hS : |q1| + |q2| ≤ |s.1| + |s.2| := add_le_add hq1 hq2
    have e2 : ((b M) ^ 7 - 1) * (|q1| + |q2|) * (1 + M.u) + (|q1| + |q2|) * M.u
        = ((b M) ^ 7 * (1 + M.u) - 1) * (|q1| + |q2|) := by ring
    rw [e2]
    have h8 : (b M) ^ 7 * (1 + M.u) - 1 ≤ (b M) ^ 8 - 1 := by
      rw [pow_succ (b M) 7]
      have := mul_le_mul_of_nonneg_left hb (by linarith : (0 : ℝ) ≤ (b M) ^ 7)
      linarith
    have h80 : 0 ≤ (b M) ^ 7 * (1 + M.u) - 1 := by nlinarith
    calc ((b M) ^ 7 * (1 + M.u) - 1) * (|q1| + |q2|) ≤ ((b M) ^ 7 * (1 + M.u) - 1) * (|s.1| + |s.2|) :=
          mul_le_mul_of_nonneg_left hS h80
      _ ≤ ((b M) ^ 8 - 1) * (|s.1| + |s.2|) := mul_le_mul_of_nonneg_right h8 (by positivity)
  · exact le_trans (abs_add_le _ _) (add_le_add hq1 hq2)

/-! ### the constellation points -/

theorem near_rat1 (n : ℤ) (d : ℕ) : Near M 2 ((n : ℝ) / (d : ℝ)) (M.fl ((n : ℝ) / (d : ℝ))) :=
  near_mono M (by norm_num) (near_fl M (near_refl M _))

theorem near_a : Near M 2 (Real.sqrt (((1 : ℤ) : ℝ) / ((2 : ℕ) : ℝ))) (M.fl (Real.sqrt (M.fl (((1 : ℤ) : ℝ) / ((2 : ℕ) : ℝ))))) :=
  near_fl M (near_sqrt M (by positivity) (near_fl M (near_refl M _)))

theorem sqrt_half_le : |Real.sqrt (((1 : ℤ) : ℝ) / ((2 : ℕ) : ℝ))| ≤ 1 := by
  rw [abs_of_nonneg (Real.sqrt_nonneg _)]
  calc Real.sqrt (((1 : ℤ) : ℝ) / ((2 : ℕ) : ℝ)) ≤ Real.sqrt 1 := Real.sqrt_le_sqrt (by norm_num)
    _ = 1 := Real.sqrt_one

theorem pt_near (b0 b1 b2 : Bool) :
    Near M 2 (psk8Mod Sc.real b0 b1 b2).1 (psk8Mod (Sc.rounded M) b0 b1 b2).1 ∧
    Near M 2 (psk8Mod Sc.real b0 b1 b2).2 (psk8Mod (Sc.rounded M) b0 b1 b2).2 ∧
    |(psk8Mod Sc.real b0 b1 b2).1| ≤ 1 ∧ |(psk8Mod Sc.real b0 b1 b2).2| ≤ 1 := by
  have ha := near_a M
  have hna := near_neg M ha
  have h1 := near_rat1 M 1 1
  have hm1 := near_rat1 M (-1) 1
  have h0 : Near M 2 (((0 : ℤ) : ℝ) / ((1 : ℕ) : ℝ)) (M.fl (((0 : ℤ) : ℝ) / ((1 : ℕ) : ℝ))) := near_rat1 M 0 1
  have ka := sqrt_half_le
  have kna : |-Real.sqrt (((1 : ℤ) : ℝ) / ((2 : ℕ) : ℝ))| ≤ 1 := by rw [abs_neg]; exact ka
  have k1 : |((1 : ℤ) : ℝ) / ((1 : ℕ) : ℝ)| ≤ 1 := by norm_num
  have km1 : |((-1 : ℤ) : ℝ) / ((1 : ℕ) : ℝ)| ≤ 1 := by norm_num
  have k0 : |((0 : ℤ) : ℝ) / ((1 : ℕ) : ℝ)| ≤ 1 := by norm_num
  cases b0 <;> cases b1 <;> cases b2 <;>
    simp only [psk8Mod, r_rat, real_rat, r_neg, real_neg, real_sqrt] <;>
    first
      | exact ⟨ha, ha, ka, ka⟩ | exact ⟨h0, h1, k0, k1⟩ | exact ⟨hna, ha, kna, ka⟩ | exact ⟨hm1, h0, km1, k0⟩
      | exact ⟨hna, hna, kna, kna⟩ | exact ⟨h0, hm1, k0, km1⟩ | exact ⟨ha, hna, ka, kna⟩ | exact ⟨h1, h0, k1, k0⟩

/-! ### the demodulator -/

/-- the scaled received symbol of the real formula -/
noncomputable def symR (sigma : ℝ) (r : ℝ × ℝ) : ℝ × ℝ :=
  (r.1 * ((((1 : ℤ) : ℝ) / ((1 : ℕ) : ℝ)) / (sigma * sigma)), r.2 * ((((1 : ℤ) : ℝ) / ((1 : ℕ) : ℝ)) / (sigma * sigma)))

noncomputable def symF (sigma : ℝ) (r : ℝ × ℝ) : ℝ × ℝ :=
  (M.fl (r.1 * M.fl (M.fl (((1 : ℤ) : ℝ) / ((1 : ℕ) : ℝ)) / M.fl (sigma * sigma))),
   M.fl (r.2 * M.fl (M.fl (((1 : ℤ) : ℝ) / ((1 : ℕ) : ℝ)) / M.fl (sigma * sigma))))

theorem sym_near (sigma : ℝ) (r : ℝ × ℝ) :
    Near M 4 (symR sigma r).1 (symF M sigma r).1 ∧ Near M 4 (symR sigma r).2 (symF M sigma r).2 := by
  have hs : Near M 3 ((((1 : ℤ) : ℝ) / ((1 : ℕ) : ℝ)) / (sigma * sigma))
      (M.fl (M.fl (((1 : ℤ) : ℝ) / ((1 : ℕ) : ℝ)) / M.fl (sigma * sigma))) :=
    near_fl M (near_div M (near_fl M (near_refl M _)) (near_fl M (near_refl M _)))
  constructor
  · have := near_fl M (near_mul M (near_refl M r.1) hs)
    simpa [symR, symF] using this
  · have := near_fl M (near_mul M (near_refl M r.2) hs)
    simpa [symR, symF] using this

/-- magnitude bound of the eight correlations: D = (|re| + |im|)/σ² -/
noncomputable def dBound (sigma : ℝ) (r : ℝ × ℝ) : ℝ := |(symR sigma r).1| + |(symR sigma r).2|

theorem d_err (sigma : ℝ) (r : ℝ × ℝ) (b0 b1 b2 : Bool) :
    |dot (Sc.rounded M) (symF M sigma r) (psk8Mod (Sc.rounded M) b0 b1 b2) -
      dot Sc.real (symR sigma r) (psk8Mod Sc.real b0 b1 b2)| ≤ ((b M) ^ 8 - 1) * dBound sigma r ∧
    |dot Sc.real (symR sigma r) (psk8Mod Sc.real b0 b1 b2)| ≤ dBound sigma r := by
  obtain ⟨s1, s2⟩ := sym_near M sigma r
  obtain ⟨p1, p2, k1, k2⟩ := pt_near M b0 b1 b2
  exact dot_err M s1 s2 p1 p2 k1 k2

theorem psk8Demod_r (sigma : ℝ) (r : ℝ × ℝ) :
    psk8Demod (Sc.rounded M) sigma r =
      (let d (b0 b1 b2 : Bool) : ℝ := dot (Sc.rounded M) (symF M sigma r) (psk8Mod (Sc.rounded M) b0 b1 b2)
       (M.fl (maxstar4 (Sc.rounded M) (d false false false) (d false false true) (d false true false) (d false true true) -
              maxstar4 (Sc.rounded M) (d true false false) (d true false true) (d true true false) (d true true true)),
        M.fl (maxstar4 (Sc.rounded M) (d false false false) (d false false true) (d true false false) (d true false true) -
              maxstar4 (Sc.rounded M) (d false true false) (d false true true) (d true true false) (d true true true)),
        M.fl (maxstar4 (Sc.rounded M) (d false false false) (d false true false) (d true false false) (d true true false) -
              maxstar4 (Sc.rounded M) (d false false true) (d false true true) (d true false true) (d true true true)))) := rfl

theorem psk8Demod_real (sigma : ℝ) (r : ℝ × ℝ) :
    psk8Demod Sc.real sigma r =
      (let d (b0 b1 b2 : Bool) : ℝ := dot Sc.real (symR sigma r) (psk8Mod Sc.real b0 b1 b2)
       (maxstar4 Sc.real (d false false false) (d false false true) (d false true false) (d false true true) -
        maxstar4 Sc.real (d true false false) (d true false true) (d true true false) (d true true true),
        maxstar4 Sc.real (d false false false) (d false false true) (d true false false) (d true false true) -
        maxstar4 Sc.real (d false true false) (d false true true) (d true true false) (d true true true),
        maxstar4 Sc.real (d false false false) (d false true false) (d true false false) (d true true false) -
        maxstar4 Sc.real (d false false true) (d false true true) (d true false true) (d true true true))) := rfl

theorem dBound_nonneg (sigma : ℝ) (r : ℝ × ℝ) : 0 ≤ dBound sigma r := by unfold dBound; positivity

theorem psk8_err (sigma : ℝ) (r : ℝ × ℝ) :
    let E0 := ((b M) ^ 8 - 1) * dBound sigma r
    let D := dBound sigma r
    |(psk8Demod (Sc.rounded M) sigma r).1 - (psk8Demod Sc.real sigma r).1| ≤ llrErr M E0 D ∧
    |(psk8Demod (Sc.rounded M) sigma r).2.1 - (psk8Demod Sc.real sigma r).2.1| ≤ llrErr M E0 D ∧
    |(psk8Demod (Sc.rounded M) sigma r).2.2 - (psk8Demod Sc.real sigma r).2.2| ≤ llrErr M E0 D := by
  intro E0 D
  have hD : 0 ≤ D := dBound_nonneg sigma r
  have hE : 0 ≤ E0 := mul_nonneg (by have := one_le_pow₀ (one_le_b M) (n := 8); linarith) hD
  rw [psk8Demod_r, psk8Demod_real]
  simp only []
  have d := d_err M sigma r
  have m4 := fun (a0 a1 a2 : Bool) (c0 c1 c2 : Bool) (e0 e1 e2 : Bool) (g0 g1 g2 : Bool) =>
    maxstar4_err M hE hD (d a0 a1 a2).1 (d c0 c1 c2).1 (d e0 e1 e2).1 (d g0 g1 g2).1
      (d a0 a1 a2).2 (d c0 c1 c2).2 (d e0 e1 e2).2 (d g0 g1 g2).2
  refine ⟨?_, ?_, ?_⟩
  · obtain ⟨x1, x2⟩ := m4 false false false false false true false true false false true true
    obtain ⟨y1, y2⟩ := m4 true false false true false true true true false true true true
    exact llr_err M x1 y1 x2 y2
  · obtain ⟨x1, x2⟩ := m4 false false false false false true true false false true false true
    obtain ⟨y1, y2⟩ := m4 false true false false true true true true false true true true
    exact llr_err M x1 y1 x2 y2
  · obtain ⟨x1, x2⟩ := m4 false false false false true false true false false true true false
    obtain ⟨y1, y2⟩ := m4 false false true false true true true false true true true true
    exact llr_err M x1 y1 x2 y2

/-! ### a linear form of the bound -/

theorem b_le (hu : M.u ≤ 1 / 64) : b M ≤ 1 + 2 * M.u := by
  unfold b
  have h0 := M.u_nonneg
  rw [div_le_iff₀ (by linarith)]
  nlinarith

theorem llrErr_linear (hu : M.u ≤ 1 / 64) (D : ℝ) (hD : 0 ≤ D) :
    llrErr M (((b M) ^ 8 - 1) * D) D ≤ 47 * (M.u + M.e) * (D + 1) := by
  have h0 := M.u_nonneg
  have he := M.e_nonneg
  have hb := b_le M hu
  have hb1 := one_le_b M
  set s := M.u + M.e with hs
  have hs0 : 0 ≤ s := by positivity
  have hus : M.u ≤ s := by linarith
  have hes : M.e ≤ s := by linarith
  have h8 : (b M) ^ 8 - 1 ≤ 16 * M.u := by
    have hk : ((8 : ℕ) : ℝ) * M.u < 1 := by push_cast; linarith
    have := b_pow_le M 8 hk
    have hg : gamma M 8 ≤ 16 * M.u := by
      unfold gamma; push_cast
      rw [div_le_iff₀ (by linarith)]
      nlinarith
    linarith
  have hE0 : ((b M) ^ 8 - 1) * D ≤ 16 * s * D := by
    have : ((b M) ^ 8 - 1) * D ≤ (16 * M.u) * D := mul_le_mul_of_nonneg_right h8 hD
    nlinarith
  have hc1 : c1 M ≤ 3 * s := by
    unfold c1; nlinarith
  have hc10 := c1_nonneg M
  have hstep : ∀ E K A B : ℝ, 0 ≤ E → 0 ≤ K → E ≤ A * s * D + B * s → 0 ≤ A → 0 ≤ B →
      stepE M E K ≤ (65 / 64) * (A * s * D + B * s + 3 * s) + s * (K + 1) := by
    intro E K A B hE hK hEb hA hB
    unfold stepE
    have hsD : 0 ≤ s * D := mul_nonneg hs0 hD
    have h1 : M.u * (E + c1 M) ≤ (1 / 64) * (E + c1 M) := mul_le_mul_of_nonneg_right hu (by linarith)
    have h2 : M.u * (K + 1) ≤ s * (K + 1) := mul_le_mul_of_nonneg_right hus (by linarith)
    nlinarith
  have hE0n : 0 ≤ ((b M) ^ 8 - 1) * D := mul_nonneg (by have := one_le_pow₀ hb1 (n := 8); linarith) hD
  have hsD : 0 ≤ s * D := mul_nonneg hs0 hD
  have e1 := hstep _ D 16 0 hE0n hD (by linarith) (by norm_num) (by norm_num)
  have hE1n : 0 ≤ E1 M (((b M) ^ 8 - 1) * D) D := le_trans hE0n (stepE_ge M hE0n hD)
  have e1' : E1 M (((b M) ^ 8 - 1) * D) D ≤ 18 * s * D + 5 * s := by
    unfold E1; nlinarith
  have e2 := hstep _ (D + 1) 18 5 hE1n (by linarith) e1' (by norm_num) (by norm_num)
  have hE2n : 0 ≤ E2 M (((b M) ^ 8 - 1) * D) D := le_trans hE1n (stepE_ge M hE1n (by linarith))
  have e2' : E2 M (((b M) ^ 8 - 1) * D) D ≤ 20 * s * D + 11 * s := by
    unfold E2; nlinarith
  have e3 := hstep _ (D + 2) 20 11 hE2n (by linarith) e2' (by norm_num) (by norm_num)
  have e3' : E3 M (((b M) ^ 8 - 1) * D) D ≤ 22 * s * D + 18 * s := by
    unfold E3; nlinarith
  have hE3n : 0 ≤ E3 M (((b M) ^ 8 - 1) * D) D := le_trans hE2n (stepE_ge M hE2n (by linarith))
  unfold llrErr
  have h3 : 2 * E3 M (((b M) ^ 8 - 1) * D) D * (1 + M.u) ≤ 2 * (22 * s * D + 18 * s) * (65 / 64) := by
    have : (1 + M.u) ≤ 65 / 64 := by linarith
    nlinarith
  have h4 : 2 * M.u * (D + 3) ≤ 2 * s * (D + 3) := by nlinarith
  nlinarith
end LdpcV.Round
