/- Helper lemmas for C15 (interleaver / puncturer). -/
import LdpcV.Model.Blocks
namespace LdpcV.Blocks

variable {α : Type}

/-! ### `filterMap` over `range` with in-bounds reads is a `map` -/

theorem filterMap_range_read (xs : List α) (f : Nat → Nat) :
    ∀ n, (∀ i, i < n → f i < xs.length) →
      ((List.range n).filterMap (fun i => xs[f i]?)).length = n ∧
      ∀ i, i < n → ((List.range n).filterMap (fun i => xs[f i]?))[i]? = xs[f i]? := by
  intro n
  induction n with
  | zero => intro _; simp
  | succ n ih =>
    intro h
    have ⟨ihl, ihg⟩ := ih (fun i hi => h i (Nat.lt_succ_of_lt hi))
    have hn : f n < xs.length := h n (Nat.lt_succ_self n)
    have hlast : List.filterMap (fun i => xs[f i]?) [n] = [xs[f n]] := by
      simp [List.getElem?_eq_getElem hn]
    rw [List.range_succ, List.filterMap_append, hlast]
    refine ⟨by simp [ihl], ?_⟩
    intro i hi
    by_cases hin : i < n
    · rw [List.getElem?_append_left (by omega)]
      exact ihg i hin
    · have : i = n := by omega
      subst this
      rw [List.getElem?_append_right (by omega), ihl]
      simp [List.getElem?_eq_getElem hn]

/-! ### index arithmetic -/

theorem flip_lt {C c : Nat} (bw : Bool) (hc : c < C) : (if bw then C - 1 - c else c) < C := by
  split <;> omega

theorem flip_flip {C c : Nat} (bw : Bool) (hc : c < C) :
    (if bw then C - 1 - (if bw then C - 1 - c else c) else (if bw then C - 1 - c else c)) = c := by
  cases bw <;> simp <;> omega

/-- `c < C`, `r < R` gives `c*R + r < R*C` -/
theorem idx_lt {C R c r : Nat} (hc : c < C) (hr : r < R) : c * R + r < R * C := by
  have h1 : (c + 1) * R ≤ C * R := Nat.mul_le_mul_right R hc
  rw [Nat.succ_mul, Nat.mul_comm C R] at h1
  omega

theorem idx_lt' {C R c r : Nat} (hc : c < C) (hr : r < R) : r * C + c < R * C := by
  have := idx_lt (C := R) (R := C) hr hc
  rwa [Nat.mul_comm C R] at this

theorem ilvSrc_lt {C R : Nat} (bw : Bool) {i : Nat} (hC : 0 < C) (hi : i < R * C) :
    ilvSrc C R bw i < R * C := by
  unfold ilvSrc
  exact idx_lt (flip_lt bw (Nat.mod_lt _ hC)) ((Nat.div_lt_iff_lt_mul hC).2 hi)

theorem dilvSrc_lt {C R : Nat} (bw : Bool) {i : Nat} (hi : i < R * C) :
    dilvSrc C R bw i < R * C := by
  have hR : 0 < R := by
    rcases Nat.eq_zero_or_pos R with h | h
    · subst h; simp at hi
    · exact h
  unfold dilvSrc
  refine idx_lt' (flip_lt bw ?_) (Nat.mod_lt _ hR)
  rw [Nat.div_lt_iff_lt_mul hR, Nat.mul_comm]; exact hi

theorem ilvSrc_mk {C R : Nat} (bw : Bool) {r c : Nat} (hc : c < C) :
    ilvSrc C R bw (r * C + c) = (if bw then C - 1 - c else c) * R + r := by
  have hC : 0 < C := by omega
  unfold ilvSrc
  have h1 : (r * C + c) / C = r := by
    rw [Nat.mul_comm, Nat.mul_add_div hC, Nat.div_eq_of_lt hc]; rfl
  have h2 : (r * C + c) % C = c := by
    rw [Nat.mul_comm, Nat.mul_add_mod, Nat.mod_eq_of_lt hc]
  simp only [h1, h2]

theorem dilvSrc_mk {C R : Nat} (bw : Bool) {r c : Nat} (hr : r < R) :
    dilvSrc C R bw (c * R + r) = r * C + (if bw then C - 1 - c else c) := by
  have hR : 0 < R := by omega
  unfold dilvSrc
  have h1 : (c * R + r) / R = c := by
    rw [Nat.mul_comm, Nat.mul_add_div hR, Nat.div_eq_of_lt hr]; rfl
  have h2 : (c * R + r) % R = r := by
    rw [Nat.mul_comm, Nat.mul_add_mod, Nat.mod_eq_of_lt hr]
  simp only [h1, h2]

/-- reading position `dilvSrc i` of the interleaved word reads position `i` of the input -/
theorem ilvSrc_dilvSrc {C R : Nat} (bw : Bool) {i : Nat} (hi : i < R * C) :
    ilvSrc C R bw (dilvSrc C R bw i) = i := by
  have hR : 0 < R := by
    rcases Nat.eq_zero_or_pos R with h | h
    · subst h; simp at hi
    · exact h
  have hc : i / R < C := by rw [Nat.div_lt_iff_lt_mul hR, Nat.mul_comm]; exact hi
  have : dilvSrc C R bw i = (i % R) * C + (if bw then C - 1 - i / R else i / R) := rfl
  rw [this, ilvSrc_mk bw (flip_lt bw hc), flip_flip bw hc, Nat.mul_comm]
  exact Nat.div_add_mod i R

theorem dilvSrc_ilvSrc {C R : Nat} (bw : Bool) {i : Nat} (hC : 0 < C) (hi : i < R * C) :
    dilvSrc C R bw (ilvSrc C R bw i) = i := by
  have hr : i / C < R := (Nat.div_lt_iff_lt_mul hC).2 hi
  have hc : i % C < C := Nat.mod_lt _ hC
  have : ilvSrc C R bw i = (if bw then C - 1 - i % C else i % C) * R + i / C := rfl
  rw [this, dilvSrc_mk bw hr, flip_flip bw hc, Nat.mul_comm]
  exact Nat.div_add_mod i C

/-! ### interleaver -/

theorem interleave_ok (C : Nat) (bw : Bool) (xs : List α) (hC : 0 < C) (hd : xs.length % C = 0) :
    interleave C bw xs =
      .ok ((List.range xs.length).filterMap (fun i => xs[ilvSrc C (xs.length / C) bw i]?)) := by
  unfold interleave
  rw [if_neg (by omega), if_neg (by omega)]

theorem deinterleave_ok (C : Nat) (bw : Bool) (xs : List α) (hC : 0 < C) (hd : xs.length % C = 0) :
    deinterleave C bw xs =
      .ok ((List.range xs.length).filterMap (fun i => xs[dilvSrc C (xs.length / C) bw i]?)) := by
  unfold deinterleave
  rw [if_neg (by omega), if_neg (by omega)]

theorem interleave_eq_ok (C : Nat) (bw : Bool) (xs ys : List α) (h : interleave C bw xs = .ok ys) :
    0 < C ∧ xs.length % C = 0 := by
  unfold interleave at h
  split at h
  · cases h
  · split at h
    · cases h
    · omega

theorem deinterleave_eq_ok (C : Nat) (bw : Bool) (xs ys : List α)
    (h : deinterleave C bw ys = .ok xs) : 0 < C ∧ ys.length % C = 0 := by
  unfold deinterleave at h
  split at h
  · cases h
  · split at h
    · cases h
    · omega

theorem length_eq_mul {C n : Nat} (hd : n % C = 0) : n = n / C * C :=
  (Nat.div_mul_cancel (Nat.dvd_of_mod_eq_zero hd)).symm

/-- elementwise description of the interleaver output -/
theorem interleave_spec (C : Nat) (bw : Bool) (xs : List α) (hC : 0 < C) (hd : xs.length % C = 0) :
    ∃ ys, interleave C bw xs = .ok ys ∧ ys.length = xs.length ∧
      ∀ i, i < xs.length → ys[i]? = xs[ilvSrc C (xs.length / C) bw i]? := by
  refine ⟨_, interleave_ok C bw xs hC hd, ?_⟩
  have hlen := length_eq_mul hd
  apply filterMap_range_read
  intro i hi
  exact Nat.lt_of_lt_of_eq (ilvSrc_lt bw hC (Nat.lt_of_lt_of_eq hi hlen)) hlen.symm

theorem deinterleave_spec (C : Nat) (bw : Bool) (xs : List α) (hC : 0 < C)
    (hd : xs.length % C = 0) :
    ∃ ys, deinterleave C bw xs = .ok ys ∧ ys.length = xs.length ∧
      ∀ i, i < xs.length → ys[i]? = xs[dilvSrc C (xs.length / C) bw i]? := by
  refine ⟨_, deinterleave_ok C bw xs hC hd, ?_⟩
  have hlen := length_eq_mul hd
  apply filterMap_range_read
  intro i hi
  exact Nat.lt_of_lt_of_eq (dilvSrc_lt bw (Nat.lt_of_lt_of_eq hi hlen)) hlen.symm

theorem interleave_index' (C : Nat) (bw : Bool) (xs : List α) (hC : 0 < C)
    (hd : xs.length % C = 0) :
    ∃ ys, interleave C bw xs = .ok ys ∧ ys.length = xs.length ∧
      ∀ r c, c < C → r < xs.length / C →
        ys[r * C + c]? = xs[(if bw then C - 1 - c else c) * (xs.length / C) + r]? := by
  obtain ⟨ys, h1, h2, h3⟩ := interleave_spec C bw xs hC hd
  refine ⟨ys, h1, h2, ?_⟩
  intro r c hc hr
  have hlt : r * C + c < xs.length :=
    Nat.lt_of_lt_of_eq (idx_lt' hc hr) (length_eq_mul hd).symm
  rw [h3 _ hlt, ilvSrc_mk bw hc]

theorem deinterleave_interleave' (C : Nat) (bw : Bool) (xs ys : List α)
    (h : interleave C bw xs = .ok ys) : deinterleave C bw ys = .ok xs := by
  obtain ⟨hC, hd⟩ := interleave_eq_ok C bw xs ys h
  obtain ⟨ys', h1, h2, h3⟩ := interleave_spec C bw xs hC hd
  rw [h] at h1
  cases h1
  obtain ⟨zs, g1, g2, g3⟩ := deinterleave_spec C bw ys hC (by rw [h2]; exact hd)
  rw [g1]
  congr 1
  apply List.ext_getElem?
  intro i
  by_cases hi : i < xs.length
  · have hi' : i < xs.length / C * C := by rw [← length_eq_mul hd]; exact hi
    have hlt : dilvSrc C (xs.length / C) bw i < xs.length :=
      Nat.lt_of_lt_of_eq (dilvSrc_lt bw hi') (length_eq_mul hd).symm
    rw [g3 i (by omega), h2, h3 _ hlt, ilvSrc_dilvSrc bw hi']
  · rw [List.getElem?_eq_none (by omega), List.getElem?_eq_none (by omega)]

theorem interleave_deinterleave' (C : Nat) (bw : Bool) (xs ys : List α)
    (h : deinterleave C bw ys = .ok xs) : interleave C bw xs = .ok ys := by
  obtain ⟨hC, hd⟩ := deinterleave_eq_ok C bw xs ys h
  obtain ⟨xs', h1, h2, h3⟩ := deinterleave_spec C bw ys hC hd
  rw [h] at h1
  cases h1
  obtain ⟨zs, g1, g2, g3⟩ := interleave_spec C bw xs hC (by rw [h2]; exact hd)
  rw [g1]
  congr 1
  apply List.ext_getElem?
  intro i
  by_cases hi : i < ys.length
  · have hi' : i < ys.length / C * C := by rw [← length_eq_mul hd]; exact hi
    have hlt : ilvSrc C (ys.length / C) bw i < ys.length :=
      Nat.lt_of_lt_of_eq (ilvSrc_lt bw hC hi') (length_eq_mul hd).symm
    rw [g3 i (by omega), h2, h3 _ hlt, dilvSrc_ilvSrc bw hC hi']
  · rw [List.getElem?_eq_none (by omega), List.getElem?_eq_none (by omega)]

theorem interleave_panic_iff' (C : Nat) (bw : Bool) (xs : List α) :
    (interleave C bw xs = .panic ↔ (C = 0 ∨ xs.length % C ≠ 0)) ∧ interleave C bw xs ≠ .err ∧
    (deinterleave C bw xs = .panic ↔ (C = 0 ∨ xs.length % C ≠ 0)) ∧
      deinterleave C bw xs ≠ .err := by
  unfold interleave deinterleave
  by_cases hC : C = 0
  · simp [hC]
  · by_cases hd : xs.length % C = 0
    · simp [hC, hd]
    · simp [hC, hd]

/-! ### puncturer -/

@[simp] theorem numTrues_nil : numTrues [] = 0 := rfl
@[simp] theorem numTrues_true (p : List Bool) : numTrues (true :: p) = numTrues p + 1 := by
  simp [numTrues]
@[simp] theorem numTrues_false (p : List Bool) : numTrues (false :: p) = numTrues p := by
  simp [numTrues]

theorem numTrues_le (p : List Bool) : numTrues p ≤ p.length := List.count_le_length

theorem punctureGo_length (B : Nat) : ∀ (p : List Bool) (xs : List α),
    xs.length = B * p.length → (punctureGo B p xs).length = B * numTrues p
  | [], _, _ => by simp [punctureGo]
  | true :: p, xs, h => by
    have h' : xs.length = B * p.length + B := by simpa [Nat.mul_succ] using h
    have ih := punctureGo_length B p (xs.drop B) (by simp [h'])
    simp [punctureGo, ih, Nat.mul_succ]
    omega
  | false :: p, xs, h => by
    have h' : xs.length = B * p.length + B := by simpa [Nat.mul_succ] using h
    have ih := punctureGo_length B p (xs.drop B) (by simp [h'])
    simp [punctureGo, ih]

theorem depunctureGo_length (B : Nat) (d : α) : ∀ (p : List Bool) (ys : List α),
    ys.length = B * numTrues p → (depunctureGo B d p ys).length = B * p.length
  | [], _, _ => by simp [depunctureGo]
  | true :: p, ys, h => by
    have h' : ys.length = B * numTrues p + B := by simpa [Nat.mul_succ] using h
    have ih := depunctureGo_length B d p (ys.drop B) (by simp [h'])
    simp [depunctureGo, ih, Nat.mul_succ]
    omega
  | false :: p, ys, h => by
    have ih := depunctureGo_length B d p ys (by simpa using h)
    simp [depunctureGo, ih, Nat.mul_succ]
    omega

theorem drop_succ_mul (B k : Nat) (xs : List α) :
    (xs.drop B).drop (k * B) = xs.drop ((k + 1) * B) := by
  rw [List.drop_drop, Nat.succ_mul, Nat.add_comm]

theorem punctureGo_eq_flatMap (B : Nat) : ∀ (p : List Bool) (xs : List α),
    punctureGo B p xs = ((List.range p.length).filter (fun k => p.getD k false)).flatMap
      (fun k => (xs.drop (k * B)).take B)
  | [], _ => by simp [punctureGo]
  | b :: p, xs => by
    have ih := punctureGo_eq_flatMap B p (xs.drop B)
    rw [List.length_cons, List.range_succ_eq_map, List.filter_cons]
    have hmap : List.filter (fun k => (b :: p).getD k false) (List.map Nat.succ (List.range p.length))
        = List.map Nat.succ (List.filter (fun k => p.getD k false) (List.range p.length)) := by
      rw [List.filter_map]; rfl
    rw [hmap]
    cases b
    · simp only [punctureGo, ih, List.getD_cons_zero, Bool.false_eq_true, if_false,
        List.flatMap_map, Nat.succ_eq_add_one, drop_succ_mul]
    · simp only [punctureGo, ih, List.getD_cons_zero, if_true, List.flatMap_cons,
        List.flatMap_map, Nat.succ_eq_add_one, drop_succ_mul, Nat.zero_mul, List.drop_zero]

theorem depunctureGo_punctureGo (B : Nat) (d : α) : ∀ (p : List Bool) (xs : List α),
    xs.length = B * p.length →
    depunctureGo B d p (punctureGo B p xs) = (List.range p.length).flatMap (fun k =>
      if p.getD k false then (xs.drop (k * B)).take B else List.replicate B d)
  | [], _, _ => by simp [depunctureGo]
  | b :: p, xs, h => by
    have h' : xs.length = B * p.length + B := by simpa [Nat.mul_succ] using h
    have ih := depunctureGo_punctureGo B d p (xs.drop B) (by simp [h'])
    rw [List.length_cons, List.range_succ_eq_map, List.flatMap_cons, List.flatMap_map]
    cases b
    · simp only [punctureGo, depunctureGo, ih, List.getD_cons_zero, Bool.false_eq_true, if_false,
        Nat.succ_eq_add_one, List.getD_cons_succ, drop_succ_mul]
    · have hl : (xs.take B).length = B := by simp [h']
      simp only [punctureGo, depunctureGo, ih, List.getD_cons_zero, if_true,
        Nat.succ_eq_add_one, List.getD_cons_succ, drop_succ_mul, Nat.zero_mul, List.drop_zero,
        List.take_left' hl, List.drop_left' hl]

theorem punctureGo_depunctureGo (B : Nat) (d : α) : ∀ (p : List Bool) (ys : List α),
    ys.length = B * numTrues p → punctureGo B p (depunctureGo B d p ys) = ys
  | [], ys, h => by
    have : ys = [] := List.eq_nil_of_length_eq_zero (by simpa using h)
    simp [punctureGo, this]
  | true :: p, ys, h => by
    have h' : ys.length = B * numTrues p + B := by simpa [Nat.mul_succ] using h
    have ih := punctureGo_depunctureGo B d p (ys.drop B) (by simp [h'])
    have hl : (ys.take B).length = B := by simp [h']
    simp only [punctureGo, depunctureGo, List.take_left' hl, List.drop_left' hl, ih,
      List.take_append_drop]
  | false :: p, ys, h => by
    have ih := punctureGo_depunctureGo B d p ys (by simpa using h)
    have hl : (List.replicate B d).length = B := by simp
    simp only [punctureGo, depunctureGo, List.drop_left' hl, ih]

theorem puncture_ok (p : List Bool) (xs : List α) (hp : p ≠ []) (hd : xs.length % p.length = 0) :
    puncture p xs = .ok (punctureGo (xs.length / p.length) p xs) := by
  unfold puncture
  rw [if_neg hp, if_neg (by omega)]

theorem puncture_eq_ok (p : List Bool) (xs ys : List α) (h : puncture p xs = .ok ys) :
    p ≠ [] ∧ xs.length % p.length = 0 ∧ ys = punctureGo (xs.length / p.length) p xs := by
  unfold puncture at h
  split at h
  · cases h
  · split at h
    · cases h
    · cases h; exact ⟨by assumption, by omega, rfl⟩

theorem depuncture_ok (d : α) (p : List Bool) (ys : List α) (hp : p ≠ []) (ht : numTrues p ≠ 0)
    (hd : ys.length % numTrues p = 0) :
    depuncture d p ys = .ok (depunctureGo (ys.length / numTrues p) d p ys) := by
  unfold depuncture
  rw [if_neg hp, if_neg ht, if_neg (by omega)]

theorem depuncture_eq_ok (d : α) (p : List Bool) (ys zs : List α)
    (h : depuncture d p ys = .ok zs) :
    p ≠ [] ∧ numTrues p ≠ 0 ∧ ys.length % numTrues p = 0 ∧
      zs = depunctureGo (ys.length / numTrues p) d p ys := by
  unfold depuncture at h
  split at h
  · cases h
  · split at h
    · cases h
    · split at h
      · cases h
      · cases h; exact ⟨by assumption, by assumption, by omega, rfl⟩

theorem length_pos_of_ne_nil {p : List Bool} (hp : p ≠ []) : 0 < p.length :=
  List.length_pos_iff.2 hp

theorem puncture_blocks' (p : List Bool) (xs : List α) (hp : p ≠ [])
    (hd : xs.length % p.length = 0) :
    puncture p xs = .ok (((List.range p.length).filter (fun k => p.getD k false)).flatMap
        (fun k => (xs.drop (k * (xs.length / p.length))).take (xs.length / p.length))) := by
  rw [puncture_ok p xs hp hd, punctureGo_eq_flatMap]

theorem puncture_length' (p : List Bool) (xs ys : List α) (h : puncture p xs = .ok ys) :
    ys.length * p.length = xs.length * numTrues p ∧ rate p = (p.length, numTrues p) := by
  obtain ⟨hp, hd, rfl⟩ := puncture_eq_ok p xs ys h
  refine ⟨?_, rfl⟩
  have hx : xs.length = xs.length / p.length * p.length := length_eq_mul hd
  rw [punctureGo_length _ p xs hx]
  conv => rhs; rw [hx]
  rw [Nat.mul_assoc, Nat.mul_assoc, Nat.mul_comm (numTrues p)]

theorem depuncture_puncture' (d : α) (p : List Bool) (xs ys : List α)
    (h : puncture p xs = .ok ys) (ht : numTrues p ≠ 0) :
    depuncture d p ys = .ok ((List.range p.length).flatMap (fun k =>
        if p.getD k false then (xs.drop (k * (xs.length / p.length))).take (xs.length / p.length)
        else List.replicate (xs.length / p.length) d)) := by
  obtain ⟨hp, hd, rfl⟩ := puncture_eq_ok p xs ys h
  have hx : xs.length = xs.length / p.length * p.length := length_eq_mul hd
  have hy := punctureGo_length _ p xs hx
  have hT : 0 < numTrues p := Nat.pos_of_ne_zero ht
  have hdiv : (punctureGo (xs.length / p.length) p xs).length / numTrues p
      = xs.length / p.length := by
    rw [hy, Nat.mul_div_cancel _ hT]
  rw [depuncture_ok d p _ hp ht (by rw [hy]; exact Nat.mul_mod_left _ _), hdiv,
    depunctureGo_punctureGo _ d p xs hx]

theorem puncture_depuncture' (d : α) (p : List Bool) (ys zs : List α)
    (h : depuncture d p ys = .ok zs) :
    puncture p zs = .ok ys ∧ zs.length * numTrues p = ys.length * p.length := by
  obtain ⟨hp, ht, hd, rfl⟩ := depuncture_eq_ok d p ys zs h
  have hy : ys.length = ys.length / numTrues p * numTrues p := length_eq_mul hd
  have hz := depunctureGo_length _ d p ys hy
  have hL : 0 < p.length := length_pos_of_ne_nil hp
  have hdiv : (depunctureGo (ys.length / numTrues p) d p ys).length / p.length
      = ys.length / numTrues p := by
    rw [hz, Nat.mul_div_cancel _ hL]
  constructor
  · rw [puncture_ok p _ hp (by rw [hz]; exact Nat.mul_mod_left _ _), hdiv,
      punctureGo_depunctureGo _ d p ys hy]
  · rw [hz]
    conv => rhs; rw [hy]
    rw [Nat.mul_assoc, Nat.mul_assoc, Nat.mul_comm (numTrues p)]

theorem indivisible' (d : α) (p : List Bool) (xs : List α) (hp : p ≠ []) :
    (xs.length % p.length ≠ 0 → puncture p xs = .err) ∧
    (numTrues p ≠ 0 → xs.length % numTrues p ≠ 0 → depuncture d p xs = .err) ∧
    (xs.length % p.length = 0 → ∃ ys, puncture p xs = .ok ys) ∧
    (numTrues p ≠ 0 → xs.length % numTrues p = 0 → ∃ ys, depuncture d p xs = .ok ys) := by
  refine ⟨?_, ?_, ?_, ?_⟩
  · intro h; unfold puncture; rw [if_neg hp, if_pos h]
  · intro ht h; unfold depuncture; rw [if_neg hp, if_neg ht, if_pos h]
  · intro h; exact ⟨_, puncture_ok p xs hp h⟩
  · intro ht h; exact ⟨_, depuncture_ok d p xs hp ht h⟩

end LdpcV.Blocks
