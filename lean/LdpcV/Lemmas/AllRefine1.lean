/- Helper lemmas (AllRefine1) for C10All: every arithmetic model meets the contract `PanicOrBehaved`. -/
import LdpcV.Spec.DecoderSpec
import LdpcV.Spec.Factory
import LdpcV.Lemmas.I8Check
namespace LdpcV

/-! ## generic list facts -/

/-- a successful `mapM` whose function keeps a key keeps the list of keys -/
theorem ar_mapM_keys {α β γ : Type} (f : α → Option β) (k : α → γ) (k' : β → γ)
    (hk : ∀ x y, f x = some y → k' y = k x) (l : List α) (out : List β) (h : l.mapM f = some out) :
    out.map k' = l.map k := by
  induction l generalizing out with
  | nil =>
    simp at h
    subst h
    rfl
  | cons a l ih =>
    rw [List.mapM_cons] at h
    cases hfa : f a with
    | none => simp [hfa] at h
    | some y =>
      cases hl : l.mapM f with
      | none => simp [hfa, hl] at h
      | some ys =>
        simp [hfa, hl] at h
        subst h
        simp [hk a y hfa, ih ys hl]

/-- `first :: rest` of the A-Min* rules is addressed to a permutation of the sources -/
theorem ar_amin_perm {β γ : Type} (msgs : List (Nat × β)) (j : Nat) (hj : j < msgs.length) (d : Nat × β)
    (g : (Nat × β) × Nat → γ) (x : γ) :
    ((((msgs.getD j d).1, x) :: (msgs.zipIdx.filter (fun p => p.2 != j)).map (fun p => (p.1.1, g p))).map Prod.fst).Perm
      (msgs.map Prod.fst) := by
  have h1 : ((msgs.zipIdx.filter (fun p => p.2 != j)).map (fun p => (p.1.1, g p))).map Prod.fst
      = (msgs.eraseIdx j).map Prod.fst := by
    rw [← I8.filter_zipIdx_eq_eraseIdx' msgs j]
    simp [List.map_map, Function.comp_def]
  have h2 : (msgs.getD j d).1 = (msgs[j]).1 := by simp [List.getD_eq_getElem?_getD, hj]
  rw [List.map_cons, h1, h2]
  exact ((I8.perm_cons_eraseIdx msgs j hj).map Prod.fst)

/-! ## float rules -/

section Float
variable {α : Type}

theorem ar_checkPhi_keys (S : Sc α) (msgs : List (Nat × α)) :
    (ArithF.checkPhi S msgs).map Prod.fst = msgs.map Prod.fst := by
  unfold ArithF.checkPhi
  simp only [List.map_map, Function.comp_def]
  rw [show (fun (x : (Nat × α) × α) => x.1.1) = Prod.fst ∘ Prod.fst from rfl, ← List.map_map,
    List.map_fst_zip (by simp)]

theorem ar_checkTanh_keys (S : Sc α) (clamp : α) (msgs : List (Nat × α)) :
    (ArithF.checkTanh S clamp msgs).map Prod.fst = msgs.map Prod.fst := by
  unfold ArithF.checkTanh
  simp [List.map_map, Function.comp_def]

theorem ar_checkApprox_keys (S : Sc α) (msgs out : List (Nat × α)) (h : ArithF.checkApprox S msgs = some out) :
    out.map Prod.fst = msgs.map Prod.fst := by
  unfold ArithF.checkApprox at h
  refine ar_mapM_keys _ Prod.fst Prod.fst ?_ msgs out h
  intro x y hxy
  simp only [Option.map_eq_some_iff] at hxy
  obtain ⟨_, _, rfl⟩ := hxy
  rfl

theorem ar_argminAbs_lt (S : Sc α) (vals : List α) : ∀ (j : Nat) (w : α), ArithF.argminAbs S vals = some (j, w) →
    j < vals.length := by
  induction vals with
  | nil => intro j w h; simp [ArithF.argminAbs] at h
  | cons v vs ih =>
    intro j w h
    cases vs with
    | nil =>
      simp [ArithF.argminAbs] at h
      simp [h.1.symm]
    | cons u us =>
      rw [ArithF.argminAbs] at h
      · cases hr : ArithF.argminAbs S (u :: us) with
        | none =>
          simp [hr] at h
          simp [h.1.symm]
        | some p =>
          obtain ⟨j', w'⟩ := p
          have := ih j' w' hr
          simp only [hr] at h
          split at h
          · simp at h
            simp [h.1.symm]
          · simp at h
            rw [← h.1]
            simpa using this
      · simp

theorem ar_checkAmin_perm (S : Sc α) (msgs out : List (Nat × α)) (h : ArithF.checkAmin S msgs = some out) :
    (out.map Prod.fst).Perm (msgs.map Prod.fst) := by
  unfold ArithF.checkAmin at h
  cases ha : ArithF.argminAbs S (msgs.map (·.2)) with
  | none => simp [ha] at h
  | some p =>
    obtain ⟨j, w⟩ := p
    have hj : j < msgs.length := by simpa using ar_argminAbs_lt S _ j w ha
    simp only [ha, Option.bind_eq_bind, Option.bind_some] at h
    cases hf : ArithF.foldAbs S (ArithF.stepFull S)
        (((msgs.map (·.2)).zipIdx.filter (fun p => p.2 != j)).map (·.1)) none with
    | none => simp [hf] at h
    | some delta =>
      simp only [hf, Option.bind_some, Option.pure_def, Option.some.injEq] at h
      subst h
      exact ar_amin_perm msgs j hj _ _ _

theorem ar_checkOf_perm (S : Sc α) (clamp : α) (k : ArithFloat.Kind) (msgs out : List (Nat × α))
    (h : ArithFloat.checkOf S clamp k msgs = some out) : (out.map Prod.fst).Perm (msgs.map Prod.fst) := by
  cases k with
  | phi =>
    simp only [ArithFloat.checkOf, Option.some.injEq] at h
    subst h
    rw [ar_checkPhi_keys]
  | tanh =>
    simp only [ArithFloat.checkOf, Option.some.injEq] at h
    subst h
    rw [ar_checkTanh_keys]
  | approx =>
    simp only [ArithFloat.checkOf] at h
    rw [ar_checkApprox_keys S msgs out h]
  | amin =>
    simp only [ArithFloat.checkOf, ArithFloat.checkAminP] at h
    split at h
    · exact ar_checkAmin_perm S msgs out h
    · cases h

theorem ar_varRuleF_keys (S : Sc α) (x : α) (msgs : List (Nat × α)) :
    (ArithF.varRule S x msgs).2.map Prod.fst = msgs.map Prod.fst := by
  unfold ArithF.varRule
  simp [List.map_map, Function.comp_def]

theorem ar_float_panicOrBehaved (S : Sc α) (q : UInt64 → α) (clamp : α) (k : ArithFloat.Kind) (h : SM) :
    PanicOrBehaved (ArithFloat.mkArith S q clamp k) h := by
  constructor
  · intro c _ msgs _ out hout
    exact ar_checkOf_perm S clamp k msgs out hout
  · intro v _ llr msgs _ l out hout
    simp only [ArithFloat.mkArith, Option.some.injEq] at hout
    have := ar_varRuleF_keys S llr msgs
    rw [hout] at this
    exact List.Perm.of_eq this

/-- the modelled `partial_cmp().unwrap()` panic -/
theorem ar_amin_panics_on_nan (S : Sc α) (msgs : List (Nat × α)) (hd : 2 ≤ msgs.length)
    (hnan : ∃ m ∈ msgs, S.le (S.abs m.2) (S.abs m.2) = false) : ArithFloat.checkAminP S msgs = none := by
  obtain ⟨m, hm, hle⟩ := hnan
  unfold ArithFloat.checkAminP ArithFloat.allOrdered
  have h1 : decide ((msgs.map (·.2)).length < 2) = false := by simp; omega
  have h2 : (msgs.map (·.2)).all (fun x => S.le (S.abs x) (S.abs x)) = false := by
    rw [List.all_eq_false]
    exact ⟨m.2, List.mem_map_of_mem hm, by simp [hle]⟩
  rw [h1, h2]
  rfl

end Float

/-! ## 8-bit rules -/

theorem ar_i8_checkApprox_keys (cfg : I8.Cfg) (msgs out : List (Nat × Int)) (h : I8.checkApprox cfg msgs = some out) :
    out.map Prod.fst = msgs.map Prod.fst := by
  unfold I8.checkApprox at h
  refine ar_mapM_keys _ Prod.fst Prod.fst ?_ msgs out h
  intro x y hxy
  simp only [Option.bind_eq_bind, Option.bind_eq_some_iff, Option.pure_def, Option.some.injEq] at hxy
  obtain ⟨_, _, _, _, rfl⟩ := hxy
  rfl

theorem ar_i8_checkAmin_perm (cfg : I8.Cfg) (msgs out : List (Nat × Int)) (h : I8.checkAmin cfg msgs = some out) :
    (out.map Prod.fst).Perm (msgs.map Prod.fst) := by
  unfold I8.checkAmin at h
  cases ha : I8.argminAbs (msgs.map (·.2)) with
  | none => simp [ha] at h
  | some p =>
    obtain ⟨j, w⟩ := p
    obtain ⟨hj0, _, _⟩ := I8.argminAbs_spec _ j w ha
    have hj : j < msgs.length := by simpa using hj0
    simp only [ha, Option.bind_eq_bind, Option.bind_some, Option.bind_eq_some_iff, Option.pure_def,
      Option.some.injEq] at h
    obtain ⟨_, _, _, _, _, _, _, _, rfl⟩ := h
    exact ar_amin_perm msgs j hj _ _ _

theorem ar_i8_varRule_keys (cfg : I8.Cfg) (x : Int) (msgs : List (Nat × Int)) (l : Int) (out : List (Nat × Int))
    (h : I8.varRule cfg x msgs = some (l, out)) : out.map Prod.fst = msgs.map Prod.fst := by
  unfold I8.varRule at h
  simp only [Option.bind_eq_bind, Option.bind_eq_some_iff, Option.pure_def, Option.some.injEq, Prod.mk.injEq] at h
  obtain ⟨_, _, _, _, out', hm, _, rfl⟩ := h
  refine ar_mapM_keys _ Prod.fst Prod.fst ?_ msgs out' hm
  intro a b hab
  simp only [Option.bind_eq_some_iff, Option.some.injEq] at hab
  obtain ⟨_, _, rfl⟩ := hab
  rfl

theorem ar_i8_panicOrBehaved (amin : Bool) (cfg : I8.Cfg) (h : SM) : PanicOrBehaved (I8.mkArith amin cfg) h := by
  constructor
  · intro c _ msgs _ out hout
    cases amin with
    | true => exact ar_i8_checkAmin_perm cfg msgs out hout
    | false =>
      exact List.Perm.of_eq (ar_i8_checkApprox_keys cfg msgs out hout)
  · intro v _ llr msgs _ l out hout
    exact List.Perm.of_eq (ar_i8_varRule_keys cfg llr msgs l out hout)

theorem ar_all_panicOrBehaved (i : Factory.Impl) (h : SM) : PanicOrBehaved i.model h := by
  unfold Factory.Impl.model
  cases i.num with
  | f64 => exact ar_float_panicOrBehaved _ _ _ _ h
  | f32 => exact ar_float_panicOrBehaved _ _ _ _ h
  | i8 cfg => exact ar_i8_panicOrBehaved _ cfg h

end LdpcV
