/- Helper lemmas for C06 (part 2): soundness of the executable 4-cycle test. -/
import LdpcV.Lemmas.Dvbs2Lemmas1
namespace LdpcV.Dvbs2
open LdpcV

theorem nodup_of_adjacentDistinct (l : List Nat) (hs : l.Pairwise (fun a b => a ≤ b))
    (ha : adjacentDistinct l = true) : l.Nodup := by
  induction l with
  | nil => simp
  | cons a t ih =>
    cases t with
    | nil => simp
    | cons b t =>
      simp only [adjacentDistinct, Bool.and_eq_true, bne_iff_ne, ne_eq] at ha
      rw [List.pairwise_cons] at hs
      have hnd := ih hs.2 ha.2
      rw [List.nodup_cons]
      refine ⟨fun hm => ?_, hnd⟩
      rcases List.mem_cons.mp hm with rfl | hm
      · exact ha.1 rfl
      · have h1 := hs.1 b (by simp)
        have h2 := (List.pairwise_cons.mp hs.2).1 a hm
        exact ha.1 (by omega)

theorem nodup_keys_of_noFourCycles (n : Nat) (rowLists : List (List Nat)) (hc : noFourCycles n rowLists = true) :
    (rowLists.flatMap (pairKeys n)).Nodup := by
  unfold noFourCycles at hc
  rw [← (List.mergeSort_perm _ (fun a b => decide (a ≤ b))).nodup_iff]
  refine nodup_of_adjacentDistinct _ ?_ hc
  have := List.pairwise_mergeSort (le := fun (a b : Nat) => decide (a ≤ b))
    (by intro a b c; simp; omega) (by intro a b; simp; omega) (rowLists.flatMap (pairKeys n))
  simpa using this

theorem flatMap_nodup_disjoint {α : Type} (f : List Nat → List α) (L : List (List Nat))
    (hn : (L.flatMap f).Nodup) (i j : Nat) (hij : i < j) (hj : j < L.length) (k : α)
    (hi : k ∈ f (L.getD i [])) (hk : k ∈ f (L.getD j [])) : False := by
  induction L generalizing i j with
  | nil => simp at hj
  | cons x t ih =>
    rw [List.flatMap_cons, List.nodup_append] at hn
    obtain ⟨j', rfl⟩ : ∃ j', j = j' + 1 := ⟨j - 1, by omega⟩
    simp only [List.length_cons, Nat.add_lt_add_iff_right] at hj
    cases i with
    | zero =>
      simp only [List.getD_cons_zero, List.getD_cons_succ] at hi hk
      refine hn.2.2 k hi k ?_ rfl
      rw [List.mem_flatMap]
      refine ⟨t.getD j' [], ?_, hk⟩
      simp [List.getD_eq_getElem?_getD, hj]
    | succ i' =>
      simp only [List.getD_cons_succ] at hi hk
      exact ih hn.2.1 i' j' (by omega) hj hi hk

theorem mem_pairKeys (n : Nat) (l : List Nat) (a b : Nat) (hab : a < b) (ha : a ∈ l) (hb : b ∈ l) :
    a * n + b ∈ pairKeys n l := by
  induction l with
  | nil => simp at ha
  | cons x t ih =>
    simp only [pairKeys, List.mem_append, List.mem_map]
    rcases List.mem_cons.mp ha with rfl | ha'
    · rcases List.mem_cons.mp hb with rfl | hb'
      · omega
      · exact Or.inl ⟨b, hb', by simp [hab]⟩
    · rcases List.mem_cons.mp hb with rfl | hb'
      · exact Or.inl ⟨a, ha', by simp [show ¬ b < a by omega]⟩
      · exact Or.inr (ih ha' hb')

theorem noFourCycles_sound' (n : Nat) (rowLists : List (List Nat)) (hc : noFourCycles n rowLists = true) :
    ∀ r1 r2 c1 c2, r1 < rowLists.length → r2 < rowLists.length → r1 ≠ r2 → c1 ≠ c2 →
      ¬ (c1 ∈ rowLists.getD r1 [] ∧ c2 ∈ rowLists.getD r1 [] ∧ c1 ∈ rowLists.getD r2 [] ∧ c2 ∈ rowLists.getD r2 []) := by
  have hnd := nodup_keys_of_noFourCycles n rowLists hc
  -- ordered version
  have key : ∀ r1 r2 a b, r1 < r2 → r2 < rowLists.length → a < b →
      ¬ (a ∈ rowLists.getD r1 [] ∧ b ∈ rowLists.getD r1 [] ∧ a ∈ rowLists.getD r2 [] ∧ b ∈ rowLists.getD r2 []) := by
    intro r1 r2 a b hr h2 hab ⟨h11, h12, h21, h22⟩
    exact flatMap_nodup_disjoint (pairKeys n) rowLists hnd r1 r2 hr h2 (a * n + b)
      (mem_pairKeys n _ a b hab h11 h12) (mem_pairKeys n _ a b hab h21 h22)
  intro r1 r2 c1 c2 h1 h2 hr hcne ⟨h11, h12, h21, h22⟩
  rcases Nat.lt_or_gt_of_ne hr with hr | hr <;> rcases Nat.lt_or_gt_of_ne hcne with hcl | hcl
  · exact key r1 r2 c1 c2 hr h2 hcl ⟨h11, h12, h21, h22⟩
  · exact key r1 r2 c2 c1 hr h2 hcl ⟨h12, h11, h22, h21⟩
  · exact key r2 r1 c1 c2 hr h1 hcl ⟨h21, h22, h11, h12⟩
  · exact key r2 r1 c2 c1 hr h1 hcl ⟨h22, h21, h12, h11⟩

end LdpcV.Dvbs2
