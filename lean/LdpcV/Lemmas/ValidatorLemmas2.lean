/- Helper lemmas for C16V, part 2: the MacKay–Neal validator `mnAccepts`.
`pre c H` is the prefix matrix of the validator (columns `< c` of `H`).  Completeness: the invariant `MnVOk`
(every finished column was admissible for its prefix and passed the girth test) survives backtracking and
girth retries.  Soundness: the columns of `H`, fed in order, are a backtrack-free run — provided the row
lists of `H` are increasing, which every run result satisfies (`mn_run_sorted`). -/
import LdpcV.Lemmas.ValidatorLemmas1
namespace LdpcV.Constr
open LdpcV LdpcV.SM LdpcV.Graph

/-! ### the prefix matrix -/

/-- columns `< c` of `H`, the later columns blanked (the `pre` of `mnAccepts`; its `withC` is `pre (c + 1)`) -/
def pre (c : Nat) (H : SM) : SM :=
  ⟨H.rows.map (fun r => r.filter (· < c)), (H.cols.zipIdx).map (fun p => if p.2 < c then p.1 else [])⟩

@[simp] theorem pre_nrows (c : Nat) (H : SM) : (pre c H).nrows = H.nrows := by simp [pre, nrows]
@[simp] theorem pre_ncols (c : Nat) (H : SM) : (pre c H).ncols = H.ncols := by simp [pre, ncols]

theorem pre_row (c : Nat) (H : SM) (j : Nat) : (pre c H).row j = (H.row j).filter (· < c) := by
  simp only [pre, row, List.getD_eq_getElem?_getD, List.getElem?_map]
  cases H.rows[j]? <;> simp

theorem pre_col (c : Nat) (H : SM) (j : Nat) : (pre c H).col j = if j < c then H.col j else [] := by
  simp only [pre, col, List.getD_eq_getElem?_getD, List.getElem?_map, List.getElem?_zipIdx]
  cases H.cols[j]? <;> simp

theorem withC_eq (c : Nat) (H : SM) :
    (⟨H.rows.map (fun r => r.filter (· ≤ c)), (H.cols.zipIdx).map (fun p => if p.2 ≤ c then p.1 else [])⟩ : SM) =
      pre (c + 1) H := by
  simp only [pre, Nat.lt_succ_iff]

theorem mnAccepts_iff (cfg : MnCfg) (H : SM) :
    mnAccepts cfg H = true ↔
      H.nrows = cfg.nrows ∧ H.ncols = cfg.ncols ∧
      ∀ c, c < cfg.ncols → admissibleRows cfg (pre c H) (H.col c) = true ∧ tooSmall cfg (pre (c + 1) H) c = false := by
  have e : mnAccepts cfg H = (H.nrows == cfg.nrows && H.ncols == cfg.ncols &&
      (List.range cfg.ncols).all (fun c => admissibleRows cfg (pre c H) (H.col c) &&
        !tooSmall cfg (pre (c + 1) H) c)) := by
    unfold mnAccepts tooSmall
    congr 1
    apply List.all_congr rfl
    intro c
    simp only [withC_eq]
    congr 1
    cases cfg.minGirth <;> rfl
  rw [e]
  simp only [Bool.and_eq_true, beq_iff_eq, List.all_eq_true, List.mem_range, Bool.not_eq_eq_eq_not, Bool.not_true,
    and_assoc]

/-- a prefix that contains every non-empty column is the whole matrix -/
theorem pre_eq_self (k : Nat) (h : SM) (hinv : h.Inv) (he : ∀ c, k ≤ c → h.col c = []) : pre k h = h := by
  apply sm_ext (by simp) (by simp)
  · intro j
    rw [pre_row, List.filter_eq_self]
    intro x hx
    have := (hinv.1 j x hx).2.2
    have hlt : x < k := by
      apply Nat.lt_of_not_le
      intro hle
      rw [he x hle] at this
      cases this
    simpa using hlt
  · intro j
    rw [pre_col]
    split
    · rfl
    · exact (he j (by omega)).symm

theorem pre_ncols_self (h : SM) (hinv : h.Inv) : pre h.ncols h = h :=
  pre_eq_self _ h hinv (fun c hc => col_out_of_range h c hc)

theorem pre_clearCols (h : SM) (hinv : h.Inv) (a b k : Nat) (hk : k ≤ a) : pre k (clearCols h a b) = pre k h := by
  obtain ⟨_, a2, a3, a4, a5⟩ := clearCols_spec h hinv a b
  apply sm_ext (by simpa using a2) (by simpa using a3)
  · intro j
    rw [pre_row, pre_row, a5 j, List.filter_filter]
    apply List.filter_congr
    intro x _
    by_cases hxk : x < k
    · have : ¬ a ≤ x := by omega
      simp [hxk, this]
    · simp [hxk]
  · intro j
    rw [pre_col, pre_col, a4 j]
    split
    · rw [if_neg (by omega)]
    · rfl

/-! ### effect of the three kinds of step on the prefixes -/

/-- a rejected column leaves the matrix exactly as it was -/
theorem reject_eq {cfg : MnCfg} {st : MnSt} (hI : MnInv cfg st) {rows : List Nat} {h' : SM}
    (hadm : admissibleRows cfg st.h rows = true) (hins : st.h.insertCol st.col rows = some h') :
    h'.clearColRaw st.col = st.h := by
  obtain ⟨b1, b2, b3, b4, b5⟩ := hI.insert_facts hadm hins
  apply sm_ext (by simp [b2, hI.nrows]) (by simp [b3, hI.ncols])
  · intro j
    rw [row_clearColRaw_inv h' b1, b5 j]
    have hf : (st.h.row j).filter (· != st.col) = st.h.row j := by
      rw [List.filter_eq_self]
      intro x hx
      have := hI.row_lt hx
      simp only [bne_iff_ne, ne_eq]
      omega
    split
    · rw [List.filter_append, hf]; simp
    · exact hf
  · intro j
    rw [col_clearColRaw, b4 j]
    split
    · next hj => subst hj; exact (hI.empty _ (Nat.le_refl _)).symm
    · rfl

theorem pre_accept {cfg : MnCfg} {st : MnSt} (hI : MnInv cfg st) {rows : List Nat} {h' : SM}
    (hadm : admissibleRows cfg st.h rows = true) (hins : st.h.insertCol st.col rows = some h')
    (k : Nat) (hk : k ≤ st.col) : pre k h' = pre k st.h := by
  obtain ⟨_, b2, b3, b4, b5⟩ := hI.insert_facts hadm hins
  apply sm_ext (by simp [b2, hI.nrows]) (by simp [b3, hI.ncols])
  · intro j
    rw [pre_row, pre_row, b5 j]
    split
    · rw [List.filter_append]
      have : ¬ st.col < k := by omega
      simp [this]
    · rfl
  · intro j
    rw [pre_col, pre_col, b4 j]
    split
    · rw [if_neg (by omega)]
    · rfl

/-! ### completeness -/

/-- every finished column was admissible for its prefix and passed the girth test (the two conditions of `mnAccepts`) -/
def MnVOk (cfg : MnCfg) (st : MnSt) : Prop :=
  ∀ c, c < st.col → admissibleRows cfg (pre c st.h) (st.h.col c) = true ∧ tooSmall cfg (pre (c + 1) st.h) c = false

theorem mnVOk_init (cfg : MnCfg) : MnVOk cfg (mnInit cfg) := by
  intro c hc
  simp [mnInit] at hc

theorem MnVOk.step {cfg : MnCfg} {st st' : MnSt} {rows : List Nat} (hI : MnInv cfg st)
    (hV : MnVOk cfg st) (hs : MnStepOk cfg st rows st') : MnVOk cfg st' := by
  cases hs with
  | backtrack hav hb =>
    obtain ⟨_, _, _, a4, _⟩ := clearCols_spec st.h hI.inv (st.col - min st.col cfg.backtrackCols) st.col
    intro c hc
    simp only at hc ⊢
    rw [pre_clearCols st.h hI.inv _ _ c (by omega), pre_clearCols st.h hI.inv _ _ (c + 1) (by omega), a4 c,
      if_neg (by omega)]
    exact hV c (by omega)
  | reject h' hadm hins hts hg =>
    intro c hc
    simp only at hc ⊢
    rw [reject_eq hI hadm hins]
    exact hV c hc
  | accept h' hadm hins hts =>
    obtain ⟨b1, b2, b3, b4, b5⟩ := hI.insert_facts hadm hins
    intro c hc
    simp only at hc ⊢
    by_cases hcc : c < st.col
    · rw [pre_accept hI hadm hins c (by omega), pre_accept hI hadm hins (c + 1) (by omega), b4 c,
        if_neg (by omega)]
      exact hV c hcc
    · have : c = st.col := by omega
      subst this
      rw [pre_accept hI hadm hins st.col (Nat.le_refl _), pre_eq_self st.col st.h hI.inv hI.empty, b4 st.col,
        if_pos rfl]
      have e : pre (st.col + 1) h' = h' := by
        apply pre_eq_self _ h' b1
        intro c hc
        rw [b4 c, if_neg (by omega)]
        exact hI.empty c (by omega)
      rw [e]
      exact ⟨hadm, hts⟩

theorem mn_complete (cfg : MnCfg) (sels : List (List Nat)) (H : SM)
    (hr : mnRun cfg (mnInit cfg) sels = some (.ok H)) : mnAccepts cfg H = true := by
  obtain ⟨st, hI, hV, hc, rfl⟩ := mnRun_ok_induct cfg (MnVOk cfg) (fun _ _ _ hI _ hV hs => hV.step hI hs) sels _ H
    (mnInit_inv cfg) (mnVOk_init cfg) hr
  rw [mnAccepts_iff]
  exact ⟨hI.nrows, hI.ncols, fun c hcc => hV c (by omega)⟩

/-! ### every run result has increasing row lists -/

def RowsSorted (h : SM) : Prop := ∀ r, (h.row r).Pairwise (· < ·)

theorem rowsSorted_step {cfg : MnCfg} {st st' : MnSt} {rows : List Nat} (hI : MnInv cfg st)
    (hS : RowsSorted st.h) (hs : MnStepOk cfg st rows st') : RowsSorted st'.h := by
  cases hs with
  | backtrack hav hb =>
    obtain ⟨_, _, _, _, a5⟩ := clearCols_spec st.h hI.inv (st.col - min st.col cfg.backtrackCols) st.col
    intro r
    simp only
    rw [a5 r]
    exact (hS r).filter _
  | reject h' hadm hins hts hg =>
    intro r
    simp only
    rw [reject_eq hI hadm hins]
    exact hS r
  | accept h' hadm hins hts =>
    obtain ⟨_, _, _, _, b5⟩ := hI.insert_facts hadm hins
    intro r
    simp only
    rw [b5 r]
    split
    · rw [List.pairwise_append]
      refine ⟨hS r, by simp, fun a ha b hb => ?_⟩
      simp only [List.mem_singleton] at hb
      subst hb
      exact hI.row_lt ha
    · exact hS r

theorem mn_run_sorted (cfg : MnCfg) (sels : List (List Nat)) (H : SM)
    (hr : mnRun cfg (mnInit cfg) sels = some (.ok H)) : ∀ r, (H.row r).Pairwise (· < ·) := by
  obtain ⟨st, _, hS, _, rfl⟩ := mnRun_ok_induct cfg (fun st => RowsSorted st.h)
    (fun _ _ _ hI _ hS hs => rowsSorted_step hI hS hs) sels _ H (mnInit_inv cfg)
    (by intro r; simp [mnInit, new_row]) hr
  exact hS

/-! ### soundness (for matrices with increasing row lists) -/

theorem filter_lt_succ (l : List Nat) (hs : l.Pairwise (· < ·)) (k : Nat) :
    l.filter (· < k + 1) = l.filter (· < k) ++ if k ∈ l then [k] else [] := by
  induction l with
  | nil => simp
  | cons a l ih =>
    rw [List.pairwise_cons] at hs
    obtain ⟨ha, hs⟩ := hs
    by_cases h1 : a < k
    · have h2 : a < k + 1 := by omega
      have h3 : k ≠ a := by omega
      simp only [List.filter_cons, h1, h2, decide_true, if_true, List.mem_cons, h3, false_or, List.cons_append]
      rw [ih hs]
    · -- from `a` on everything is `≥ k`
      have hnil : l.filter (· < k) = [] := by
        rw [List.filter_eq_nil_iff]
        intro x hx
        have := ha x hx
        simp only [decide_eq_true_eq]
        omega
      have hnil' : l.filter (· < k + 1) = [] := by
        rw [List.filter_eq_nil_iff]
        intro x hx
        have := ha x hx
        simp only [decide_eq_true_eq]
        omega
      have hkl : k ∉ l := fun hx => by have := ha k hx; omega
      by_cases h2 : a = k
      · subst h2
        simp [hnil, hnil']
      · have h3 : ¬ a < k + 1 := by omega
        have h4 : k ≠ a := fun e => h2 e.symm
        simp [h1, h3, hnil, hnil', hkl, h4]

theorem adm_avail_len {cfg : MnCfg} {h : SM} {rows : List Nat} (hadm : admissibleRows cfg h rows = true) :
    cfg.wc ≤ (availRows cfg h).length := by
  rw [admissibleRows_iff] at hadm
  obtain ⟨h1, h2, h3, _⟩ := hadm
  rw [← h1, length_eq_filter_range rows h.nrows h2 (fun x hx => (h3 x hx).1)]
  unfold availRows
  rw [← List.countP_eq_length_filter, ← List.countP_eq_length_filter]
  apply List.countP_mono_left
  intro x _ hx
  simp only [List.contains_iff_mem] at hx
  simpa using (h3 x hx).2

/-- inserting column `k` of `H` into the prefix `pre k H` gives the prefix `pre (k + 1) H` -/
theorem insertCol_pre (cfg : MnCfg) (H : SM) (hinv : H.Inv) (hsort : ∀ r, (H.row r).Pairwise (· < ·)) (k : Nat)
    (hk : k < H.ncols) (hadm : admissibleRows cfg (pre k H) (H.col k) = true) :
    (pre k H).insertCol k (H.col k) = some (pre (k + 1) H) := by
  have hadm' := hadm
  rw [admissibleRows_iff] at hadm'
  obtain ⟨_, hnd, hav, _⟩ := hadm'
  obtain ⟨h', hins⟩ := insertCol_total (H.col k) (pre k H) k (by simpa using hk)
    (by simp only [List.all_eq_true, decide_eq_true_eq]; exact fun r hr => (hav r hr).1)
  have he : (pre k H).col k = [] := by rw [pre_col, if_neg (by omega)]
  obtain ⟨a1, a2, _, a4, a5⟩ := insertCol_exact (H.col k) (pre k H) h' k hnd (by simp [he]) hins
  rw [hins]
  congr 1
  apply sm_ext (by simpa using a1) (by simpa using a2)
  · intro j
    rw [a5 j, pre_row, pre_row, filter_lt_succ _ (hsort j) k]
    have hiff : j ∈ H.col k ↔ k ∈ H.row j :=
      ⟨fun hm => (hinv.2.1 j k hm).2.2, fun hm => (hinv.1 j k hm).2.2⟩
    by_cases hm : j ∈ H.col k
    · simp [hm, hiff.1 hm]
    · have : k ∉ H.row j := fun hx => hm (hiff.2 hx)
      simp [hm, this]
  · intro j
    rw [a4 j, pre_col, pre_col]
    by_cases h1 : j = k
    · subst h1; simp
    · by_cases h2 : j < k
      · have : j < k + 1 := by omega
        simp [h1, h2, this]
      · have : ¬ j < k + 1 := by omega
        simp [h1, h2, this]

theorem mnStep_accept (cfg : MnCfg) (st : MnSt) (rows : List Nat) (h' : SM)
    (hadm : admissibleRows cfg st.h rows = true) (hins : st.h.insertCol st.col rows = some h')
    (hts : tooSmall cfg h' st.col = false) :
    mnStep cfg st rows = some (.ok { st with h := h', col := st.col + 1 }) := by
  have hav := adm_avail_len hadm
  unfold mnStep
  rw [if_neg (by omega)]
  simp only [hadm, Bool.not_true, Bool.false_eq_true, if_false, hins]
  change (if tooSmall cfg h' st.col = true then _ else _) = _
  rw [hts]
  simp

theorem mn_sound_from (cfg : MnCfg) (H : SM) (hinv : H.Inv) (hsort : ∀ r, (H.row r).Pairwise (· < ·))
    (hnc : H.ncols = cfg.ncols)
    (hV : ∀ c, c < cfg.ncols → admissibleRows cfg (pre c H) (H.col c) = true ∧ tooSmall cfg (pre (c + 1) H) c = false)
    (n : Nat) : ∀ (k bt gt : Nat), k + n = cfg.ncols →
      mnRun cfg ⟨pre k H, k, bt, gt⟩ ((List.range' k n).map H.col) = some (.ok H) := by
  induction n with
  | zero =>
    intro k bt gt hk
    unfold mnRun
    have : k = H.ncols := by omega
    subst this
    simp [pre_ncols_self H hinv]
  | succ n ih =>
    intro k bt gt hk
    unfold mnRun
    have hlt : ¬ k ≥ (pre k H).ncols := by simp; omega
    simp only [hlt, if_false, List.range'_succ, List.map_cons]
    obtain ⟨hadm, hts⟩ := hV k (by omega)
    have hins := insertCol_pre cfg H hinv hsort k (by omega) hadm
    rw [mnStep_accept cfg ⟨pre k H, k, bt, gt⟩ (H.col k) (pre (k + 1) H) hadm hins hts]
    exact ih (k + 1) bt gt (by omega)

/-- soundness of the MacKay–Neal validator for matrices whose row lists are increasing -/
theorem mn_sound (cfg : MnCfg) (H : SM) (hinv : H.Inv) (hsort : ∀ r, (H.row r).Pairwise (· < ·))
    (ha : mnAccepts cfg H = true) : ∃ sels, mnRun cfg (mnInit cfg) sels = some (.ok H) := by
  rw [mnAccepts_iff] at ha
  obtain ⟨hnr, hnc, hV⟩ := ha
  refine ⟨(List.range' 0 cfg.ncols).map H.col, ?_⟩
  have h0 : pre 0 H = SM.new cfg.nrows cfg.ncols := by
    apply sm_ext (by simpa using hnr) (by simpa using hnc)
    · intro j; rw [pre_row, new_row]; simp
    · intro j; rw [pre_col, new_col]; simp
  have := mn_sound_from cfg H hinv hsort hnc hV cfg.ncols 0 cfg.backtrackTrials cfg.girthTrials (by omega)
  rw [h0] at this
  exact this

/-! ### the promised weights, directly from the validator -/

theorem filter_lt_succ_le (l : List Nat) (hl : l.Nodup) (k : Nat) :
    (l.filter (· < k + 1)).length ≤ (l.filter (· < k)).length + if k ∈ l then 1 else 0 := by
  induction l with
  | nil => simp
  | cons a l ih =>
    rw [List.nodup_cons] at hl
    have ih := ih hl.2
    by_cases h2 : a = k
    · subst h2
      have h1 : ¬ a < a := by omega
      simp only [List.filter_cons, h1, decide_false, Nat.lt_succ_self, decide_true, if_true, List.mem_cons,
        true_or, List.length_cons, hl.1, if_false, Bool.false_eq_true] at ih ⊢
      omega
    · have h4 : k ≠ a := fun e => h2 e.symm
      by_cases h1 : a < k
      · have h3 : a < k + 1 := by omega
        simp only [List.filter_cons, h1, h3, decide_true, if_true, List.length_cons, List.mem_cons, h4, false_or]
        omega
      · have h3 : ¬ a < k + 1 := by omega
        simp only [List.filter_cons, h1, h3, decide_false, Bool.false_eq_true, if_false, List.mem_cons, h4,
          false_or]
        exact ih

theorem mn_accepted_props (cfg : MnCfg) (H : SM) (hinv : H.Inv) (ha : mnAccepts cfg H = true) :
    H.nrows = cfg.nrows ∧ H.ncols = cfg.ncols ∧ (∀ c, c < cfg.ncols → (H.col c).length = cfg.wc) ∧
      (∀ r, r < cfg.nrows → (H.row r).length ≤ cfg.wr) := by
  rw [mnAccepts_iff] at ha
  obtain ⟨hnr, hnc, hV⟩ := ha
  refine ⟨hnr, hnc, fun c hc => ?_, fun r _ => ?_⟩
  · have := (hV c hc).1
    rw [admissibleRows_iff] at this
    exact this.1
  · -- by induction on `k`, the part of row `r` in the columns `< k` has at most `wr` entries
    have key : ∀ k, ((H.row r).filter (· < k)).length ≤ cfg.wr := by
      intro k
      induction k with
      | zero =>
        have : (H.row r).filter (· < 0) = [] := by rw [List.filter_eq_nil_iff]; intro a _; simp
        rw [this]; exact Nat.zero_le _
      | succ k ih =>
        have hle := filter_lt_succ_le (H.row r) (hinv.2.2.1 r) k
        by_cases hm : k ∈ H.row r
        · obtain ⟨_, hkc, hrk⟩ := hinv.1 r k hm
          have := (hV k (by omega)).1
          rw [admissibleRows_iff] at this
          have := (this.2.2.1 r hrk).2
          rw [pre_row] at this
          simp only [hm, if_true] at hle
          omega
        · simp only [hm, if_false] at hle
          omega
    have hall : (H.row r).filter (· < H.ncols) = H.row r := by
      rw [List.filter_eq_self]
      intro x hx
      simpa using (hinv.1 r x hx).2.1
    have := key H.ncols
    rwa [hall] at this

end LdpcV.Constr
