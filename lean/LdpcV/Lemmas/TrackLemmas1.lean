/- Helper lemmas (TrackLemmas1) for C04Track: real analysis of the min* steps (1-Lipschitz in each argument) and the
one-step comparison of the 8-bit steps with the real steps at 8 units per LLR. -/
import LdpcV.Lemmas.BoxPlusLemmas
import LdpcV.Lemmas.I8Check
import LdpcV.Props.C04Table
namespace LdpcV.TrackL
open LdpcV LdpcV.ArithF

/-! ### the real steps -/

/-- `min(x,y) − ln(1 + e^(−|x−y|))`, the common part of the two real steps -/
noncomputable def F (x y : ℝ) : ℝ := min x y - Real.log (1 + Real.exp (-|x - y|))

theorem F_eq (x y : ℝ) : F x y = -Real.log (Real.exp (-x) + Real.exp (-y)) := by
  unfold F
  wlog h : x ≤ y generalizing x y
  · have := this y x (le_of_not_ge h)
    rw [min_comm, abs_sub_comm, add_comm (Real.exp (-x))]; exact this
  rw [min_eq_left h, abs_sub_comm, abs_of_nonneg (sub_nonneg.2 h)]
  have e : Real.exp (-x) + Real.exp (-y) = Real.exp (-x) * (1 + Real.exp (-(y - x))) := by
    rw [mul_add, mul_one, ← Real.exp_add]; congr 2; ring
  rw [e, Real.log_mul (Real.exp_pos _).ne' (by positivity), Real.log_exp]; ring

theorem F_mono (x : ℝ) {y y' : ℝ} (h : y ≤ y') : F x y ≤ F x y' := by
  rw [F_eq, F_eq, neg_le_neg_iff]
  apply Real.log_le_log (by positivity)
  have : Real.exp (-y') ≤ Real.exp (-y) := Real.exp_le_exp.2 (by linarith)
  linarith

theorem F_lip (x : ℝ) {y y' : ℝ} (h : y ≤ y') : F x y' ≤ F x y + (y' - y) := by
  rw [F_eq, F_eq]
  have hp : 0 < Real.exp (-x) + Real.exp (-y') := by positivity
  have h1 : Real.log ((Real.exp (-x) + Real.exp (-y')) * Real.exp (y' - y)) =
      Real.log (Real.exp (-x) + Real.exp (-y')) + (y' - y) := by
    rw [Real.log_mul hp.ne' (Real.exp_pos _).ne', Real.log_exp]
  have h2 : Real.exp (-x) + Real.exp (-y) ≤ (Real.exp (-x) + Real.exp (-y')) * Real.exp (y' - y) := by
    have e1 : Real.exp (-y') * Real.exp (y' - y) = Real.exp (-y) := by
      rw [← Real.exp_add]; congr 1; ring
    have e2 : 1 ≤ Real.exp (y' - y) := Real.one_le_exp (by linarith)
    have e3 : 0 < Real.exp (-x) := Real.exp_pos _
    rw [add_mul, e1]
    nlinarith
  have h3 := Real.log_le_log (by positivity) h2
  rw [h1] at h3
  linarith

theorem F_abs (x y y' : ℝ) : |F x y - F x y'| ≤ |y - y'| := by
  rcases le_total y y' with h | h
  · have h1 := F_mono x h
    have h2 := F_lip x h
    rw [abs_sub_comm, abs_sub_comm y, abs_of_nonneg (by linarith), abs_of_nonneg (by linarith)]
    linarith
  · have h1 := F_mono x h
    have h2 := F_lip x h
    rw [abs_of_nonneg (by linarith), abs_of_nonneg (by linarith)]
    linarith

theorem stepApprox_F (x y : ℝ) : stepApprox Sc.real x y = max (F x y) 0 := BoxL.stepApprox_real x y

theorem stepFull_F (x y : ℝ) : stepFull Sc.real x y = F x y + Real.log (1 + Real.exp (-(x + y))) :=
  BoxL.stepFull_real x y

/-- the approximate real step is 1-Lipschitz in the accumulator -/
theorem approx_lip (x y y' : ℝ) : |stepApprox Sc.real x y - stepApprox Sc.real x y'| ≤ |y - y'| := by
  rw [stepApprox_F, stepApprox_F]
  exact le_trans (abs_max_sub_max_le_abs _ _ _) (F_abs x y y')

theorem stepApprox_nonneg (x y : ℝ) : 0 ≤ stepApprox Sc.real x y := by
  rw [stepApprox_F]; exact le_max_right _ _

/-- the exact real step is 1-Lipschitz in the second argument (first argument non-negative) -/
theorem full_lip2 (x y y' : ℝ) (hx : 0 ≤ x) : |stepFull Sc.real x y - stepFull Sc.real x y'| ≤ |y - y'| := by
  rcases le_total y y' with h | h
  · have h1 := BoxL.stepFull_mono x y y' hx h
    have h2 := BoxL.stepFull_lipschitz x y y' h
    rw [abs_sub_comm, abs_sub_comm y, abs_of_nonneg (by linarith), abs_of_nonneg (by linarith)]
    linarith
  · have h1 := BoxL.stepFull_mono x y' y hx h
    have h2 := BoxL.stepFull_lipschitz x y' y h
    rw [abs_of_nonneg (by linarith), abs_of_nonneg (by linarith)]
    linarith

/-- … and in the first argument (second argument non-negative) -/
theorem full_lip1 (x x' y : ℝ) (hy : 0 ≤ y) : |stepFull Sc.real x y - stepFull Sc.real x' y| ≤ |x - x'| := by
  rw [BoxL.stepFull_comm x y, BoxL.stepFull_comm x' y]
  exact full_lip2 y x x' hy

/-! ### the table against the real correction -/

theorem tab_track (n : ℕ) (h : n ≤ 127) :
    |((I8.tab n : ℤ) : ℝ) - 8 * Real.log (1 + Real.exp (-((n : ℝ) / 8)))| ≤ 1 / 2 := by
  have := C04Table.table_tracks_real n h
  rw [neg_div] at this
  exact this

theorem tab_track_big (n : ℕ) (h : 22 ≤ n) :
    |((I8.tab 127 : ℤ) : ℝ) - 8 * Real.log (1 + Real.exp (-((n : ℝ) / 8)))| ≤ 1 / 2 := by
  have := TableReal.track_zero n h
  rw [neg_div] at this
  rw [I8.tab_big 127 (by norm_num)]
  exact this

theorem cast_natAbs_div (x z : ℤ) : (((x - z).natAbs : ℤ) : ℝ) / 8 = |(x : ℝ) / 8 - (z : ℝ) / 8| := by
  rw [Int.natCast_natAbs, Int.cast_abs, Int.cast_sub, ← sub_div, abs_div]
  norm_num

/-- correction of the difference: within 1/2 -/
theorem tab_diff (x z : ℤ) (hx0 : 0 ≤ x) (hx1 : x ≤ 127) (hz0 : 0 ≤ z) (hz1 : z ≤ 127) :
    |((I8.tab (x - z).natAbs : ℤ) : ℝ) - 8 * Real.log (1 + Real.exp (-|(x : ℝ) / 8 - (z : ℝ) / 8|))| ≤ 1 / 2 := by
  have h := tab_track (x - z).natAbs (by omega)
  rw [← cast_natAbs_div]
  simpa using h

/-- correction of the (saturated) sum: within 1/2 -/
theorem tab_sum (x z : ℤ) (hx0 : 0 ≤ x) (hx1 : x ≤ 127) (hz0 : 0 ≤ z) (hz1 : z ≤ 127) :
    |((I8.tab (I8.satAdd8 x z).toNat : ℤ) : ℝ) - 8 * Real.log (1 + Real.exp (-((x : ℝ) / 8 + (z : ℝ) / 8)))| ≤ 1 / 2 := by
  have hs := I8.satAdd8_nonneg x z hx0 hz0
  have hn : (((x + z).toNat : ℕ) : ℝ) / 8 = (x : ℝ) / 8 + (z : ℝ) / 8 := by
    have : (((x + z).toNat : ℕ) : ℤ) = x + z := Int.toNat_of_nonneg (by omega)
    have h2 : (((x + z).toNat : ℕ) : ℝ) = (x : ℝ) + z := by exact_mod_cast this
    rw [h2]; ring
  rw [← hn]
  by_cases h : x + z ≤ 127
  · have e : (I8.satAdd8 x z).toNat = (x + z).toNat := by rw [hs]; congr 1; omega
    rw [e]
    exact tab_track _ (by omega)
  · have e : (I8.satAdd8 x z).toNat = 127 := by rw [hs]; omega
    rw [e]
    exact tab_track_big _ (by omega)

/-! ### explicit form of the 8-bit steps -/

theorem stepApprox_eq (x y : ℤ) :
    I8.stepApprox x y = some (max (min x y - I8.tab (x - y).natAbs) 0) := by
  unfold I8.stepApprox
  rw [I8.lookup_nat]
  rfl

theorem stepFull_eq (x y : ℤ) (hx : 0 ≤ x) (hx' : x ≤ 127) (hy : 0 ≤ y) (hy' : y ≤ 127) :
    I8.stepFull x y = some (max (min x y - I8.tab (x - y).natAbs + I8.tab (I8.satAdd8 x y).toNat) 0) := by
  have h1 := I8.tab_range (x - y).natAbs
  have h2 := I8.tab_range (I8.satAdd8 x y).toNat
  have hs := I8.satAdd8_nonneg x y hx hy
  have h4 : 0 ≤ I8.satAdd8 x y := by omega
  have h3 : I8.tab (I8.satAdd8 x y).toNat ≤ I8.tab (x - y).natAbs := by
    apply I8.tab_mono; omega
  have e1 := I8.chk8_ok (min x y - I8.tab (x - y).natAbs) (by omega) (by omega)
  have e2 := I8.chk8_ok (min x y - I8.tab (x - y).natAbs + I8.tab (I8.satAdd8 x y).toNat) (by omega) (by omega)
  unfold I8.stepFull
  rw [I8.lookup_nat, I8.lookup_nonneg _ h4]
  simp only [Option.bind_eq_bind, Option.bind_some, e1, e2]
  rfl

/-! ### one step: integer against real at the exact point -/

theorem eight_min (x z : ℤ) : 8 * min ((x : ℝ) / 8) ((z : ℝ) / 8) = ((min x z : ℤ) : ℝ) := by
  rw [Int.cast_min]
  rcases le_total (x : ℝ) z with h | h
  · rw [min_eq_left h, min_eq_left (by linarith)]; ring
  · rw [min_eq_right h, min_eq_right (by linarith)]; ring

theorem approx_point (x z : ℤ) (hx0 : 0 ≤ x) (hx1 : x ≤ 127) (hz0 : 0 ≤ z) (hz1 : z ≤ 127) :
    |((max (min x z - I8.tab (x - z).natAbs) 0 : ℤ) : ℝ) - 8 * stepApprox Sc.real ((x : ℝ) / 8) ((z : ℝ) / 8)| ≤ 1 / 2 := by
  have ht := tab_diff x z hx0 hx1 hz0 hz1
  rw [stepApprox_F]
  have e : 8 * max (F ((x : ℝ) / 8) ((z : ℝ) / 8)) 0 = max (8 * F ((x : ℝ) / 8) ((z : ℝ) / 8)) 0 := by
    rcases le_total (F ((x : ℝ) / 8) ((z : ℝ) / 8)) 0 with h | h
    · rw [max_eq_right h, max_eq_right (by linarith)]; ring
    · rw [max_eq_left h, max_eq_left (by linarith)]
  rw [e, Int.cast_max, Int.cast_zero]
  refine le_trans (abs_max_sub_max_le_abs _ _ _) ?_
  unfold F
  rw [mul_sub, eight_min, Int.cast_sub]
  rw [abs_le] at ht ⊢
  constructor <;> linarith [ht.1, ht.2]

theorem full_point (x z : ℤ) (hx0 : 0 ≤ x) (hx1 : x ≤ 127) (hz0 : 0 ≤ z) (hz1 : z ≤ 127) :
    |((max (min x z - I8.tab (x - z).natAbs + I8.tab (I8.satAdd8 x z).toNat) 0 : ℤ) : ℝ)
      - 8 * stepFull Sc.real ((x : ℝ) / 8) ((z : ℝ) / 8)| ≤ 1 := by
  have ht := tab_diff x z hx0 hx1 hz0 hz1
  have hs := tab_sum x z hx0 hx1 hz0 hz1
  have h0 : 0 ≤ stepFull Sc.real ((x : ℝ) / 8) ((z : ℝ) / 8) :=
    BoxL.stepFull_nonneg _ _ (by positivity) (by positivity)
  have e : 8 * stepFull Sc.real ((x : ℝ) / 8) ((z : ℝ) / 8) =
      max (8 * stepFull Sc.real ((x : ℝ) / 8) ((z : ℝ) / 8)) 0 := by
    rw [max_eq_left (by linarith)]
  rw [e, Int.cast_max, Int.cast_zero]
  refine le_trans (abs_max_sub_max_le_abs _ _ _) ?_
  rw [stepFull_F]
  unfold F
  rw [mul_add, mul_sub, eight_min, Int.cast_add, Int.cast_sub]
  rw [abs_le] at ht hs ⊢
  constructor <;> linarith [ht.1, ht.2, hs.1, hs.2]

/-! ### one step: integer against real, both arguments carrying an error -/

theorem approx_step_track (x z : ℤ) (hx0 : 0 ≤ x) (hx1 : x ≤ 127) (hz0 : 0 ≤ z) (hz1 : z ≤ 127) (r : ℝ) :
    ∃ z' : ℤ, I8.stepApprox x z = some z' ∧ 0 ≤ z' ∧ z' ≤ 127 ∧ 0 ≤ stepApprox Sc.real ((x : ℝ) / 8) r ∧
      |(z' : ℝ) - 8 * stepApprox Sc.real ((x : ℝ) / 8) r| ≤ |(z : ℝ) - 8 * r| + 1 / 2 := by
  have hr := I8.tab_range (x - z).natAbs
  refine ⟨_, stepApprox_eq x z, by omega, by omega, stepApprox_nonneg _ _, ?_⟩
  have h1 := approx_point x z hx0 hx1 hz0 hz1
  have h2 := approx_lip ((x : ℝ) / 8) ((z : ℝ) / 8) r
  have h3 : |(z : ℝ) / 8 - r| = |(z : ℝ) - 8 * r| / 8 := by
    rw [show (z : ℝ) / 8 - r = ((z : ℝ) - 8 * r) / 8 by ring, abs_div]; norm_num
  rw [h3] at h2
  rw [abs_le] at h1 h2 ⊢
  constructor <;> linarith [h1.1, h1.2, h2.1, h2.2]

theorem full_step_track (x z : ℤ) (hx0 : 0 ≤ x) (hx1 : x ≤ 127) (hz0 : 0 ≤ z) (hz1 : z ≤ 127) (a r : ℝ)
    (ha : 0 ≤ a) (hr : 0 ≤ r) :
    ∃ z' : ℤ, I8.stepFull x z = some z' ∧ 0 ≤ z' ∧ z' ≤ 127 ∧ 0 ≤ stepFull Sc.real a r ∧
      |(z' : ℝ) - 8 * stepFull Sc.real a r| ≤ |(x : ℝ) - 8 * a| + |(z : ℝ) - 8 * r| + 1 := by
  obtain ⟨w, hw, hw0, _, hwu⟩ := I8.stepFull_spec x z hx0 hz0 hx1 hz1
  have hw' := stepFull_eq x z hx0 hx1 hz0 hz1
  rw [hw] at hw'
  refine ⟨w, hw, hw0, by omega, BoxL.stepFull_nonneg _ _ ha hr, ?_⟩
  have h1 := full_point x z hx0 hx1 hz0 hz1
  rw [← Option.some.inj hw'] at h1
  have h2 := full_lip1 ((x : ℝ) / 8) a ((z : ℝ) / 8) (by positivity)
  have h3 := full_lip2 a ((z : ℝ) / 8) r ha
  have e2 : |(x : ℝ) / 8 - a| = |(x : ℝ) - 8 * a| / 8 := by
    rw [show (x : ℝ) / 8 - a = ((x : ℝ) - 8 * a) / 8 by ring, abs_div]; norm_num
  have e3 : |(z : ℝ) / 8 - r| = |(z : ℝ) - 8 * r| / 8 := by
    rw [show (z : ℝ) / 8 - r = ((z : ℝ) - 8 * r) / 8 by ring, abs_div]; norm_num
  rw [e2] at h2
  rw [e3] at h3
  rw [abs_le] at h1 h2 h3 ⊢
  constructor <;> linarith [h1.1, h1.2, h2.1, h2.2, h3.1, h3.2]

end LdpcV.TrackL
