/- Helper lemmas for C11, part 3: chains of adjacent nodes and cycles. -/
import LdpcV.Lemmas.GraphLemmas1
namespace LdpcV.Graph

/-! ### chains -/

/-- consecutive nodes of the list are adjacent -/
def Chain (h : SM) : List Node → Prop
  | [] => True
  | a :: t => (∀ b, t.head? = some b → Adj h a b) ∧ Chain h t

theorem Chain.append {h : SM} : ∀ (p q : List Node), Chain h p → Chain h q →
    (∀ a b, p.getLast? = some a → q.head? = some b → Adj h a b) → Chain h (p ++ q)
  | [], q, _, hq, _ => by simpa using hq
  | [a], q, _, hq, hj => by
    simp only [List.singleton_append, Chain]
    exact ⟨fun b hb => hj a b rfl hb, hq⟩
  | a :: a' :: t, q, hp, hq, hj => by
    simp only [List.cons_append, Chain] at hp ⊢
    refine ⟨fun b hb => hp.1 b (by simpa using hb), ?_⟩
    have := Chain.append (a' :: t) q (by simpa [Chain] using hp.2) hq
      (fun x y hx hy => hj x y (by simpa using hx) hy)
    simpa [Chain] using this

theorem Chain.reverse {h : SM} : ∀ (p : List Node), Chain h p → Chain h p.reverse
  | [], _ => by simp [Chain]
  | a :: t, hp => by
    simp only [List.reverse_cons]
    refine Chain.append _ _ (Chain.reverse t hp.2) (by simp [Chain]) ?_
    intro x y hx hy
    simp only [List.getLast?_reverse] at hx
    simp only [List.head?_cons, Option.some.injEq] at hy
    subst hy
    exact (hp.1 x hx).symm

theorem Chain.getD {h : SM} : ∀ (c : List Node) (i : Nat), Chain h c → i + 1 < c.length →
    Adj h (c.getD i (.row 0)) (c.getD (i + 1) (.row 0))
  | [], _, _, hi => by simp at hi
  | [_], _, _, hi => by simp at hi
  | a :: b :: t, 0, hc, _ => by simpa using hc.1 b rfl
  | a :: b :: t, i + 1, hc, hi => by
    have := Chain.getD (b :: t) i hc.2 (by simpa using hi)
    simpa using this

theorem isCycle_of_chain {h : SM} (c : List Node) (h3 : 3 ≤ c.length) (nd : c.Nodup) (ch : Chain h c)
    (wrap : ∀ a b, c.getLast? = some a → c.head? = some b → Adj h a b) : IsCycle h c := by
  refine ⟨h3, nd, ?_⟩
  intro i hi
  by_cases hlt : i + 1 < c.length
  · rw [Nat.mod_eq_of_lt hlt]; exact ch.getD c i hlt
  · have hi' : i + 1 = c.length := by omega
    rw [hi', Nat.mod_self]
    apply wrap
    · rw [List.getLast?_eq_getElem?, List.getD_eq_getElem?_getD]
      have : c.length - 1 = i := by omega
      rw [this, List.getElem?_eq_getElem hi]; rfl
    · rw [List.head?_eq_getElem?, List.getD_eq_getElem?_getD, List.getElem?_eq_getElem (by omega)]; rfl

/-! ### cycles as periodic sequences -/

/-- the cycle read from position `p` on -/
def cseq (c : List Node) (p i : Nat) : Node := c.getD ((p + i) % c.length) (.row 0)

theorem cseq_adj {h : SM} {c : List Node} (hc : IsCycle h c) (p i : Nat) :
    Adj h (cseq c p i) (cseq c p (i + 1)) := by
  have hpos : 0 < c.length := by have := hc.1; omega
  have := hc.2.2 ((p + i) % c.length) (Nat.mod_lt _ hpos)
  rw [Nat.mod_add_mod] at this
  exact this

theorem cseq_period (c : List Node) (p i : Nat) : cseq c p (i + c.length) = cseq c p i := by
  unfold cseq; rw [← Nat.add_assoc, Nat.add_mod_right]

theorem cseq_zero (c : List Node) (p : Nat) (hp : p < c.length) : cseq c p 0 = c.getD p (.row 0) := by
  unfold cseq; rw [Nat.add_zero, Nat.mod_eq_of_lt hp]

theorem cseq_inj {h : SM} {c : List Node} (hc : IsCycle h c) (p : Nat) (hp : p < c.length) (i j : Nat)
    (hi : i < c.length) (hj : j < c.length) (he : cseq c p i = cseq c p j) : i = j := by
  have hpos : 0 < c.length := by omega
  unfold cseq at he
  have := (List.getD_inj (Nat.mod_lt _ hpos) (Nat.mod_lt _ hpos) hc.2.1).1 he
  have e1 : ∀ k, k < c.length → (p + k) % c.length = if p + k < c.length then p + k else p + k - c.length := by
    intro k hk
    split
    · rename_i hlt; exact Nat.mod_eq_of_lt hlt
    · rename_i hge
      rw [Nat.mod_eq_sub_mod (by omega), Nat.mod_eq_of_lt (by omega)]
  rw [e1 i hi, e1 j hj] at this
  split at this <;> split at this <;> omega

theorem exists_cseq {h : SM} {c : List Node} (_hc : IsCycle h c) {root : Node} (hr : root ∈ c) :
    ∃ p, p < c.length ∧ cseq c p 0 = root := by
  obtain ⟨p, hp, rfl⟩ := List.mem_iff_getElem.1 hr
  refine ⟨p, hp, ?_⟩
  rw [cseq_zero c p hp, List.getD_eq_getElem?_getD, List.getElem?_eq_getElem hp]; rfl

/-- cycles of a bipartite graph have even length -/
theorem IsCycle.even {h : SM} {c : List Node} (hc : IsCycle h c) : c.length % 2 = 0 := by
  have key : ∀ i, (cseq c 0 (2 * i)).isRow = (cseq c 0 0).isRow ∧
      (cseq c 0 (2 * i + 1)).isRow = !(cseq c 0 0).isRow := by
    intro i
    induction i with
    | zero => exact ⟨rfl, (cseq_adj hc 0 0).isRow⟩
    | succ i ih =>
      have h1 := (cseq_adj hc 0 (2 * i + 1)).isRow
      have h2 := (cseq_adj hc 0 (2 * i + 1 + 1)).isRow
      have e1 : 2 * (i + 1) = 2 * i + 1 + 1 := by omega
      rw [e1]
      constructor
      · rw [h1, ih.2]; simp
      · rw [h2, h1, ih.2]; simp
  by_cases hodd : c.length % 2 = 0
  · exact hodd
  · have e : c.length = 2 * (c.length / 2) + 1 := by omega
    have h1 := (key (c.length / 2)).2
    rw [← e] at h1
    have h2 := cseq_period c 0 0
    rw [Nat.zero_add] at h2
    rw [h2] at h1
    cases hx : (cseq c 0 0).isRow <;> simp [hx] at h1

/-! ### counting -/

theorem nodup_length_le (l : List Nat) (n : Nat) (hl : l.Nodup) (hb : ∀ x ∈ l, x < n) : l.length ≤ n := by
  rw [SM.length_eq_filter_range l n hl hb]
  exact Nat.le_trans (List.length_filter_le _ _) (by simp)

def Node.rowIdx? : Node → Option Nat
  | .row n => some n
  | .col _ => none

def Node.colIdx? : Node → Option Nat
  | .row _ => none
  | .col n => some n

theorem nodes_length_le (h : SM) (l : List Node) (hl : l.Nodup) (hb : ∀ x ∈ l, inRange h x = true) :
    l.length ≤ h.nrows + h.ncols := by
  have hsplit : ∀ l : List Node, l.length = (l.filterMap Node.rowIdx?).length + (l.filterMap Node.colIdx?).length := by
    intro l
    induction l with
    | nil => rfl
    | cons a t ih => cases a <;> simp [Node.rowIdx?, Node.colIdx?, List.filterMap_cons, ih] <;> omega
  have hnd : ∀ l : List Node, l.Nodup → (l.filterMap Node.rowIdx?).Nodup ∧ (l.filterMap Node.colIdx?).Nodup := by
    intro l
    induction l with
    | nil => intro _; simp
    | cons a t ih =>
      intro hnd
      obtain ⟨hn, ht⟩ := List.nodup_cons.1 hnd
      obtain ⟨i1, i2⟩ := ih ht
      cases a with
      | row n =>
        simp only [List.filterMap_cons, Node.rowIdx?, Node.colIdx?, List.nodup_cons]
        refine ⟨⟨?_, i1⟩, i2⟩
        intro hm
        obtain ⟨x, hx, hxe⟩ := List.mem_filterMap.1 hm
        cases x <;> simp [Node.rowIdx?] at hxe
        subst hxe; exact hn hx
      | col n =>
        simp only [List.filterMap_cons, Node.rowIdx?, Node.colIdx?, List.nodup_cons]
        refine ⟨i1, ⟨?_, i2⟩⟩
        intro hm
        obtain ⟨x, hx, hxe⟩ := List.mem_filterMap.1 hm
        cases x <;> simp [Node.colIdx?] at hxe
        subst hxe; exact hn hx
  rw [hsplit l]
  have h1 : (l.filterMap Node.rowIdx?).length ≤ h.nrows := by
    apply nodup_length_le _ _ (hnd l hl).1
    intro x hx
    obtain ⟨y, hy, hye⟩ := List.mem_filterMap.1 hx
    cases y <;> simp [Node.rowIdx?] at hye
    subst hye; simpa [inRange] using hb _ hy
  have h2 : (l.filterMap Node.colIdx?).length ≤ h.ncols := by
    apply nodup_length_le _ _ (hnd l hl).2
    intro x hx
    obtain ⟨y, hy, hye⟩ := List.mem_filterMap.1 hx
    cases y <;> simp [Node.colIdx?] at hye
    subst hye; simpa [inRange] using hb _ hy
  omega

theorem IsCycle.mem_inRange {h : SM} (hinv : h.Inv) {c : List Node} (hc : IsCycle h c) {x : Node} (hx : x ∈ c) :
    inRange h x = true := by
  obtain ⟨p, hp, rfl⟩ := exists_cseq hc hx
  exact (cseq_adj hc p 0).inRange_left hinv

theorem IsCycle.length_le {h : SM} (hinv : h.Inv) {c : List Node} (hc : IsCycle h c) :
    c.length ≤ h.nrows + h.ncols :=
  nodes_length_le h c hc.2.1 (fun _ hx => hc.mem_inRange hinv hx)

theorem cseq_mem {c : List Node} (hpos : 0 < c.length) (p i : Nat) : cseq c p i ∈ c := by
  unfold cseq
  have hlt := Nat.mod_lt (p + i) hpos
  rw [List.getD_eq_getElem?_getD, List.getElem?_eq_getElem hlt]
  exact List.getElem_mem hlt

/-- every cycle passes through a column node -/
theorem IsCycle.exists_col {h : SM} (hinv : h.Inv) {c : List Node} (hc : IsCycle h c) :
    ∃ n, n < h.ncols ∧ Node.col n ∈ c := by
  have hpos : 0 < c.length := by have := hc.1; omega
  have hadj := cseq_adj hc 0 0
  have m0 := cseq_mem hpos 0 0
  have m1 := cseq_mem hpos 0 1
  have r0 := hc.mem_inRange hinv m0
  have r1 := hc.mem_inRange hinv m1
  generalize cseq c 0 0 = a at *
  generalize cseq c 0 1 = b at *
  cases a with
  | col n => exact ⟨n, by simpa [inRange] using r0, m0⟩
  | row n =>
    cases b with
    | col m => exact ⟨m, by simpa [inRange] using r1, m1⟩
    | row m => simp [Adj] at hadj

end LdpcV.Graph
