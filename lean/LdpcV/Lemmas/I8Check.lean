/- Helper lemmas (I8Check) for the 8-bit arithmetic properties C04 / C05. -/
import LdpcV.Spec.ArithSpec
namespace LdpcV.I8

/-- table entry, 0 beyond the table -/
def tab (n : Nat) : Int := table.getD n 0

theorem tab_mono_small : ∀ i < 23, ∀ j < 23, i ≤ j → tab j ≤ tab i := by decide

theorem tab_range_small : ∀ i < 23, 0 ≤ tab i ∧ tab i ≤ 6 := by decide

theorem tab_big (i : Nat) (h : 22 ≤ i) : tab i = 0 := by
  unfold tab
  rw [List.getD_eq_getElem?_getD, List.getElem?_eq_none (by simpa [table] using h)]
  rfl

theorem tab_range (i : Nat) : 0 ≤ tab i ∧ tab i ≤ 6 := by
  by_cases h : i < 23
  · exact tab_range_small i h
  · rw [tab_big i (by omega)]; omega

theorem tab_mono (i j : Nat) (h : i ≤ j) : tab j ≤ tab i := by
  by_cases hj : j < 23
  · exact tab_mono_small i (by omega) j hj h
  · rw [tab_big j (by omega)]; exact (tab_range i).1

theorem lookup_nonneg (x : Int) (h : 0 ≤ x) : lookup x = some (tab x.toNat) := by
  have : ¬ x < 0 := by omega
  simp only [lookup, this, if_false, tab]

theorem lookup_nat (n : Nat) : lookup (n : Int) = some (tab n) := by
  rw [lookup_nonneg _ (by omega)]; simp

theorem satAdd8_nonneg (x y : Int) (hx : 0 ≤ x) (hy : 0 ≤ y) : satAdd8 x y = min (x + y) 127 := by
  unfold satAdd8
  split
  · omega
  · split <;> omega

theorem chk8_ok (x : Int) (h1 : -128 ≤ x) (h2 : x ≤ 127) : chk8 x = some x := by
  simp [chk8, inI8, h1, h2]

/-- step bounds -/
theorem stepApprox_spec (x y : Int) (hx : 0 ≤ x) (hy : 0 ≤ y) :
    ∃ z, stepApprox x y = some z ∧ 0 ≤ z ∧ min x y - 6 ≤ z ∧ z ≤ min x y := by
  have := tab_range (x - y).natAbs
  refine ⟨max (min x y - tab (x - y).natAbs) 0, ?_, ?_, ?_, ?_⟩
  · simp [stepApprox, lookup_nat]
  all_goals omega

theorem stepFull_spec (x y : Int) (hx : 0 ≤ x) (hy : 0 ≤ y) (hx' : x ≤ 127) (hy' : y ≤ 127) :
    ∃ z, stepFull x y = some z ∧ 0 ≤ z ∧ min x y - 6 ≤ z ∧ z ≤ min x y := by
  have h1 := tab_range (x - y).natAbs
  have h2 := tab_range (satAdd8 x y).toNat
  have hs := satAdd8_nonneg x y hx hy
  have h3 : tab (satAdd8 x y).toNat ≤ tab (x - y).natAbs := by
    apply tab_mono; omega
  have h4 : 0 ≤ satAdd8 x y := by omega
  refine ⟨max (min x y - tab (x - y).natAbs + tab (satAdd8 x y).toNat) 0, ?_, ?_, ?_, ?_⟩
  · have e1 := chk8_ok (min x y - tab (x - y).natAbs) (by omega) (by omega)
    have e2 := chk8_ok (min x y - tab (x - y).natAbs + tab (satAdd8 x y).toNat) (by omega) (by omega)
    simp [stepFull, lookup_nat, lookup_nonneg _ h4, e1, e2]
  all_goals omega
theorem abs8_ok (v : Int) (h : -127 ≤ v) : abs8 v = some (v.natAbs : Int) := by
  have : v ≠ -128 := by omega
  simp [abs8, this]

/-- a fold step that loses at most 6 units and stays in range -/
def GoodStep (step : Int → Int → Option Int) : Prop :=
  ∀ x y : Int, 0 ≤ x → x ≤ 127 → 0 ≤ y → y ≤ 127 →
    ∃ z, step x y = some z ∧ 0 ≤ z ∧ min x y - 6 ≤ z ∧ z ≤ min x y

theorem goodStep_approx : GoodStep stepApprox := fun x y hx _ hy _ => stepApprox_spec x y hx hy
theorem goodStep_full : GoodStep stepFull := fun x y hx hx' hy hy' => stepFull_spec x y hx hy hx' hy'

theorem foldAbs_some (step) (hs : GoodStep step) (vals : List Int) :
    ∀ (a : Int), 0 ≤ a → a ≤ 127 → (∀ v ∈ vals, -127 ≤ v ∧ v ≤ 127) →
    ∃ z, foldAbs step vals (some a) = some (some z) ∧ 0 ≤ z ∧ z ≤ a ∧ (∀ v ∈ vals, z ≤ v.natAbs) ∧
      (∀ lo : Int, lo ≤ a → (∀ v ∈ vals, lo ≤ v.natAbs) → lo - 6 * vals.length ≤ z) := by
  induction vals with
  | nil => intro a h0 h1 _; exact ⟨a, rfl, h0, Int.le_refl _, by simp, by simp⟩
  | cons v vs ih =>
    intro a h0 h1 hb
    have hv := hb v (by simp)
    obtain ⟨z, hz, hz0, hzl, hzu⟩ := hs v.natAbs a (by omega) (by omega) h0 h1
    obtain ⟨w, hw, hw0, hwz, hwv, hwl⟩ := ih z hz0 (by omega) (fun u hu => hb u (by simp [hu]))
    refine ⟨w, ?_, hw0, by omega, ?_, ?_⟩
    · simp [foldAbs, abs8_ok v hv.1, hz, hw]
    · intro u hu
      rcases List.mem_cons.1 hu with rfl | hu
      · omega
      · exact hwv u hu
    · intro lo hlo hall
      have h1 := hall v (by simp)
      have := hwl (lo - 6) (by omega) (fun u hu => by have := hall u (by simp [hu]); omega)
      simp only [List.length_cons, Int.natCast_add, Int.natCast_one]
      omega

theorem foldAbs_none (step) (hs : GoodStep step) (vals : List Int) (hne : vals ≠ [])
    (hb : ∀ v ∈ vals, -127 ≤ v ∧ v ≤ 127) :
    ∃ z, foldAbs step vals none = some (some z) ∧ 0 ≤ z ∧ z ≤ 127 ∧ (∀ v ∈ vals, z ≤ v.natAbs) ∧
      (∀ lo : Int, (∀ v ∈ vals, lo ≤ v.natAbs) → lo - 6 * ((vals.length : Int) - 1) ≤ z) := by
  cases vals with
  | nil => exact absurd rfl hne
  | cons v vs =>
    have hv := hb v (by simp)
    obtain ⟨w, hw, hw0, hwz, hwv, hwl⟩ := foldAbs_some step hs vs v.natAbs (by omega) (by omega)
      (fun u hu => hb u (by simp [hu]))
    refine ⟨w, ?_, hw0, by omega, ?_, ?_⟩
    · simp [foldAbs, abs8_ok v hv.1, hw]
    · intro u hu
      rcases List.mem_cons.1 hu with rfl | hu
      · omega
      · exact hwv u hu
    · intro lo hall
      have := hwl lo (hall v (by simp)) (fun u hu => hall u (by simp [hu]))
      simp only [List.length_cons, Int.natCast_add, Int.natCast_one]
      omega
theorem signParity_nil : signParity [] = false := by decide

theorem signParity_cons (a : Int) (l : List Int) :
    signParity (a :: l) = (decide (a < 0) != signParity l) := by
  unfold signParity
  by_cases h : a < 0
  · simp only [h, decide_true, List.filter_cons_of_pos, List.length_cons, Bool.true_bne]
    generalize (List.filter (fun x => decide (x < 0)) l).length = n
    have hn : n % 2 = 0 ∨ n % 2 = 1 := by omega
    rcases hn with hn | hn
    · have : (n + 1) % 2 = 1 := by omega
      simp [hn, this]
    · have : (n + 1) % 2 = 0 := by omega
      simp [hn, this]
  · simp [h]

theorem signParity_eraseIdx (l : List Int) : ∀ (j : Nat) (h : j < l.length),
    signParity (l.eraseIdx j) = (signParity l != decide (l[j] < 0)) := by
  induction l with
  | nil => intro j h; simp at h
  | cons a l ih =>
    intro j h
    cases j with
    | zero => simp [signParity_cons]; cases signParity l <;> cases decide (a < 0) <;> rfl
    | succ j =>
      have hj : j < l.length := by simpa using h
      simp only [List.eraseIdx_cons_succ, signParity_cons, List.getElem_cons_succ]
      rw [ih j hj]
      cases signParity l <;> cases decide (a < 0) <;> cases decide (l[j] < 0) <;> rfl

theorem filter_zipIdx_ge {α} (l : List α) (k j : Nat) (h : j < k) :
    (l.zipIdx k).filter (fun p => p.2 != j) = l.zipIdx k := by
  apply List.filter_eq_self.2
  intro p hp
  have := List.le_snd_of_mem_zipIdx hp
  simp; omega

theorem filter_zipIdx_eq_eraseIdx {α} (l : List α) : ∀ (k j : Nat),
    ((l.zipIdx k).filter (fun p => p.2 != k + j)).map (·.1) = l.eraseIdx j := by
  induction l with
  | nil => intro k j; simp
  | cons a l ih =>
    intro k j
    cases j with
    | zero =>
      simp only [List.zipIdx_cons, Nat.add_zero, List.eraseIdx_cons_zero]
      rw [List.filter_cons_of_neg (by simp), filter_zipIdx_ge l (k+1) k (by omega)]
      simp
    | succ j =>
      simp only [List.zipIdx_cons, List.eraseIdx_cons_succ]
      rw [List.filter_cons_of_pos (by simp), List.map_cons]
      have := ih (k+1) j
      rw [show k + 1 + j = k + (j + 1) by omega] at this
      rw [this]

theorem filter_zipIdx_eq_eraseIdx' {α} (l : List α) (j : Nat) :
    (l.zipIdx.filter (fun p => p.2 != j)).map (·.1) = l.eraseIdx j := by
  have := filter_zipIdx_eq_eraseIdx l 0 j
  simpa using this

theorem filter_ne_eq_eraseIdx (msgs : List (Nat × Int)) (hn : (msgs.map Prod.fst).Nodup) :
    ∀ (j : Nat) (h : j < msgs.length),
    msgs.filter (fun m => m.1 != msgs[j].1) = msgs.eraseIdx j := by
  induction msgs with
  | nil => intro j h; simp at h
  | cons a l ih =>
    intro j h
    rw [List.map_cons, List.nodup_cons] at hn
    cases j with
    | zero =>
      simp only [List.getElem_cons_zero, List.eraseIdx_cons_zero]
      rw [List.filter_cons_of_neg (by simp)]
      apply List.filter_eq_self.2
      intro m hm
      have : m.1 ≠ a.1 := fun e => hn.1 (e ▸ List.mem_map_of_mem hm)
      simpa using this
    | succ j =>
      simp only [List.getElem_cons_succ, List.eraseIdx_cons_succ]
      have hj : j < l.length := by simpa using h
      have : a.1 ≠ l[j].1 := fun e => hn.1 (e ▸ List.mem_map_of_mem (List.getElem_mem hj))
      rw [List.filter_cons_of_pos (by simpa using this), ih hn.2 j hj]

theorem perm_cons_eraseIdx {α} (l : List α) : ∀ (j : Nat) (h : j < l.length),
    (l[j] :: l.eraseIdx j).Perm l := by
  induction l with
  | nil => intro j h; simp at h
  | cons a l ih =>
    intro j h
    cases j with
    | zero => simp
    | succ j =>
      simp only [List.getElem_cons_succ, List.eraseIdx_cons_succ]
      exact (List.Perm.swap _ _ _).trans ((ih j (by simpa using h)).cons a)

theorem argminAbs_spec (vals : List Int) : ∀ (j : Nat) (w : Int), argminAbs vals = some (j, w) →
    ∃ h : j < vals.length, vals[j] = w ∧ ∀ v ∈ vals, w.natAbs ≤ v.natAbs := by
  induction vals with
  | nil => intro j w h; simp [argminAbs] at h
  | cons v vs ih =>
    intro j w h
    unfold argminAbs at h
    split at h
    · simp at h
    · rename_i a ha
      have hva : a = v.natAbs := by
        unfold abs8 at ha; split at ha <;> simp at ha; omega
      split at h
      · rename_i hnone
        split at h
        · rename_i hemp
          simp at h
          obtain ⟨rfl, rfl⟩ := h
          have : vs = [] := by simpa using hemp
          subst this
          simp
        · simp at h
      · rename_i j' w' hsome
        obtain ⟨hj', hw', hall⟩ := ih j' w' hsome
        split at h
        · rename_i hle
          simp at h
          obtain ⟨rfl, rfl⟩ := h
          refine ⟨by simp, by simp, ?_⟩
          intro u hu
          rcases List.mem_cons.1 hu with rfl | hu
          · omega
          · have := hall u hu; omega
        · rename_i hle
          simp at h
          obtain ⟨rfl, rfl⟩ := h
          refine ⟨by simpa using hj', by simpa using hw', ?_⟩
          intro u hu
          rcases List.mem_cons.1 hu with rfl | hu
          · omega
          · exact hall u hu

theorem argminAbs_total (vals : List Int) (hne : vals ≠ []) (hb : ∀ v ∈ vals, -127 ≤ v ∧ v ≤ 127) :
    ∃ j w, argminAbs vals = some (j, w) := by
  induction vals with
  | nil => exact absurd rfl hne
  | cons v vs ih =>
    have hv := hb v (by simp)
    unfold argminAbs
    rw [abs8_ok v hv.1]
    by_cases he : vs = []
    · subst he; simp [argminAbs]
    · obtain ⟨j, w, h⟩ := ih he (fun u hu => hb u (by simp [hu]))
      simp only [h]
      split
      · exact ⟨_, _, rfl⟩
      · exact ⟨_, _, rfl⟩
theorem phl_neg (x : Int) : phl (-x) = -phl x := by
  unfold phl
  split <;> split <;> (try split) <;> (try split) <;> omega

theorem hl_neg (cfg : Cfg) (x : Int) : cfg.hl (-x) = -cfg.hl x := by
  unfold Cfg.hl; split
  · exact phl_neg x
  · rfl

theorem phl_small (x : Int) (h0 : 0 ≤ x) (h : x < 100) : phl x = x := by
  unfold phl; split
  · omega
  · split <;> omega

theorem phl_big (x : Int) (h : 100 ≤ x) : phl x = 127 := by
  have h1 : ¬ x ≤ -100 := by omega
  have h2 : x ≥ 100 := h
  simp only [phl, h1, h2, if_true, if_false]

theorem mapM_option_spec {α β} (f : α → Option β) (l : List α)
    (h : ∀ x ∈ l, ∃ y, f x = some y) :
    ∃ out, l.mapM f = some out ∧ (∀ y ∈ out, ∃ x ∈ l, f x = some y) ∧
      (∀ {γ} (k : α → γ) (k' : β → γ), (∀ x y, f x = some y → k' y = k x) → out.map k' = l.map k) := by
  induction l with
  | nil => exact ⟨[], by simp, by simp, by simp⟩
  | cons a l ih =>
    obtain ⟨y, hy⟩ := h a (by simp)
    obtain ⟨out, ho, hm, hk⟩ := ih (fun x hx => h x (by simp [hx]))
    refine ⟨y :: out, by simp [List.mapM_cons, hy, ho], ?_, ?_⟩
    · intro z hz
      rcases List.mem_cons.1 hz with rfl | hz
      · exact ⟨a, by simp, hy⟩
      · obtain ⟨x, hx, hxz⟩ := hm z hz
        exact ⟨x, by simp [hx], hxz⟩
    · intro γ k k' hkk
      simp [hkk a y hy, hk k k' hkk]

/-- the facts of C04 `message_facts` for a message `±hl(mag)` -/
theorem msg_core (cfg : Cfg) (mag : Int) (s : Bool) (others : List Int) (h0 : 0 ≤ mag) (h1 : mag ≤ 127)
    (hle : ∀ y ∈ others, mag ≤ y.natAbs) (v : Int)
    (hv : v = if s then -(cfg.hl mag) else cfg.hl mag) :
    (-127 ≤ v ∧ v ≤ 127) ∧
    (v ≠ 0 → (v < 0 ↔ s = true)) ∧
    (cfg.hardLimit = false → LeAllAbs v others) ∧
    (cfg.hardLimit = true → v.natAbs < 100 → LeAllAbs v others) ∧
    (cfg.hardLimit = true → 100 ≤ v.natAbs → v.natAbs = 127 ∧ ∀ y ∈ others, 100 ≤ y.natAbs) ∧
    (cfg.hardLimit = false → (v.natAbs : Int) = mag) := by
  have habs : v.natAbs = (cfg.hl mag).natAbs := by
    subst hv; cases s <;> simp
  have hnn : 0 ≤ cfg.hl mag ∧ cfg.hl mag ≤ 127 := by
    unfold Cfg.hl; split
    · by_cases h : mag < 100
      · rw [phl_small mag h0 h]; omega
      · rw [phl_big mag (by omega)]; omega
    · omega
  refine ⟨?_, ?_, ?_, ?_, ?_, ?_⟩
  · subst hv; cases s <;> simp <;> omega
  · subst hv; cases s <;> simp <;> omega
  · intro hh y hy
    have := hle y hy
    have e : cfg.hl mag = mag := by simp [Cfg.hl, hh]
    omega
  · intro hh hlt y hy
    have := hle y hy
    have e : cfg.hl mag = mag := by
      simp only [Cfg.hl, hh, if_true] at habs hnn ⊢
      by_cases h : mag < 100
      · exact phl_small mag h0 h
      · rw [phl_big mag (by omega)] at habs; omega
    omega
  · intro hh hge
    simp only [Cfg.hl, hh, if_true] at habs hnn
    by_cases h : mag < 100
    · rw [phl_small mag h0 h] at habs; omega
    · rw [phl_big mag (by omega)] at habs
      refine ⟨by omega, fun y hy => ?_⟩
      have := hle y hy; omega
  · intro hh
    have e : cfg.hl mag = mag := by simp [Cfg.hl, hh]
    omega
theorem othersOf_bounded (msgs : List (Nat × Int)) (hb : Bounded msgs) (d : Nat) :
    ∀ v ∈ othersOf msgs d, -127 ≤ v ∧ v ≤ 127 := by
  intro v hv
  simp only [othersOf, List.mem_map, List.mem_filter] at hv
  obtain ⟨m, ⟨hm, _⟩, rfl⟩ := hv
  exact hb m hm

theorem othersOf_sub (msgs : List (Nat × Int)) (d : Nat) :
    ∀ v ∈ othersOf msgs d, v ∈ msgs.map Prod.snd := by
  intro v hv
  simp only [othersOf, List.mem_map, List.mem_filter] at hv
  obtain ⟨m, ⟨hm, _⟩, rfl⟩ := hv
  exact List.mem_map_of_mem hm

theorem map_eraseIdx' {α β} (f : α → β) (l : List α) : ∀ j : Nat,
    (l.eraseIdx j).map f = (l.map f).eraseIdx j := by
  induction l with
  | nil => intro j; simp
  | cons a l ih =>
    intro j
    cases j with
    | zero => simp
    | succ j => simp [ih j]

theorem othersOf_getElem (msgs : List (Nat × Int)) (hn : (msgs.map Prod.fst).Nodup) (j : Nat)
    (h : j < msgs.length) : othersOf msgs msgs[j].1 = (msgs.map Prod.snd).eraseIdx j := by
  unfold othersOf
  rw [filter_ne_eq_eraseIdx msgs hn j h, map_eraseIdx']

/-- what `checkApprox` computes for one neighbour -/
def approxOne (cfg : Cfg) (msgs : List (Nat × Int)) (ex : Nat × Int) : Option (Nat × Int) := do
  let others := (msgs.filter (fun m => m.1 != ex.1)).map (·.2)
  let r ← foldAbs stepApprox others none
  let mag ← r
  let v := if signParity others then -mag else mag
  pure (ex.1, cfg.hl v)

theorem approxOne_eq (cfg : Cfg) (msgs : List (Nat × Int)) (ex : Nat × Int) :
    approxOne cfg msgs ex = (foldAbs stepApprox (othersOf msgs ex.1) none).bind (fun r => r.bind (fun mag =>
      some (ex.1, cfg.hl (if signParity (othersOf msgs ex.1) then -mag else mag)))) := rfl

theorem checkApprox_eq (cfg : Cfg) (msgs : List (Nat × Int)) :
    checkApprox cfg msgs = msgs.mapM (approxOne cfg msgs) := rfl

/-- magnitude facts shared by all emitted messages -/
def MagOk (cfg : Cfg) (others all : List Int) (len : Nat) (s : Bool) (v : Int) : Prop :=
  ∃ mag : Int, 0 ≤ mag ∧ mag ≤ 127 ∧ (∀ y ∈ others, mag ≤ y.natAbs) ∧
    (∀ lo : Int, (∀ y ∈ all, lo ≤ y.natAbs) → lo - 6 * ((len : Int) - 1) ≤ mag) ∧
    v = if s then -(cfg.hl mag) else cfg.hl mag

theorem approxOne_spec (cfg : Cfg) (msgs : List (Nat × Int)) (hb : Bounded msgs) (hd : 2 ≤ msgs.length)
    (hn : (msgs.map Prod.fst).Nodup) (ex : Nat × Int) (hex : ex ∈ msgs) :
    ∃ v, approxOne cfg msgs ex = some (ex.1, v) ∧
      MagOk cfg (othersOf msgs ex.1) (othersOf msgs ex.1) (othersOf msgs ex.1).length
        (signParity (othersOf msgs ex.1)) v := by
  obtain ⟨j, hj, rfl⟩ := List.getElem_of_mem hex
  have hne : othersOf msgs msgs[j].1 ≠ [] := by
    rw [othersOf_getElem msgs hn j hj]
    intro h
    have := congrArg List.length h
    simp [List.length_eraseIdx, hj] at this
    omega
  obtain ⟨z, hz, hz0, hz1, hzle, hzlo⟩ := foldAbs_none stepApprox goodStep_approx _ hne
    (othersOf_bounded msgs hb _)
  refine ⟨cfg.hl (if signParity (othersOf msgs msgs[j].1) then -z else z), ?_, z, hz0, hz1, hzle, hzlo, ?_⟩
  · rw [approxOne_eq, hz]; rfl
  · split
    · exact hl_neg cfg z
    · rfl

theorem MagOk.mono {cfg : Cfg} {others all all' : List Int} {k n : Nat} {s : Bool} {v : Int}
    (h : MagOk cfg others all k s v) (hkn : k ≤ n) (hsub : ∀ y ∈ all, y ∈ all') :
    MagOk cfg others all' n s v := by
  obtain ⟨mag, h0, h1, hle, hlo, hv⟩ := h
  refine ⟨mag, h0, h1, hle, fun lo hall => ?_, hv⟩
  have := hlo lo (fun y hy => hall y (hsub y hy))
  omega

theorem othersOf_length_le (msgs : List (Nat × Int)) (d : Nat) : (othersOf msgs d).length ≤ msgs.length := by
  simp only [othersOf, List.length_map]
  exact List.length_filter_le _ _

theorem approxOne_fst (cfg : Cfg) (msgs : List (Nat × Int)) (ex y : Nat × Int)
    (h : approxOne cfg msgs ex = some y) : y.1 = ex.1 := by
  rw [approxOne_eq] at h
  simp only [Option.bind_eq_some_iff] at h
  obtain ⟨r, _, mag, _, h⟩ := h
  cases h
  rfl

theorem checkApprox_spec (cfg : Cfg) (msgs : List (Nat × Int)) (hb : Bounded msgs) (hd : 2 ≤ msgs.length)
    (hn : (msgs.map Prod.fst).Nodup) :
    ∃ out, checkApprox cfg msgs = some out ∧ out.map Prod.fst = msgs.map Prod.fst ∧
      ∀ m ∈ out, MagOk cfg (othersOf msgs m.1) (msgs.map Prod.snd) msgs.length
        (signParity (othersOf msgs m.1)) m.2 := by
  obtain ⟨out, ho, hm, hk⟩ := mapM_option_spec (approxOne cfg msgs) msgs (fun ex hex => by
    obtain ⟨v, hv, _⟩ := approxOne_spec cfg msgs hb hd hn ex hex
    exact ⟨_, hv⟩)
  refine ⟨out, ho, ?_, ?_⟩
  · apply hk
    exact approxOne_fst cfg msgs
  · intro m hm'
    obtain ⟨ex, hex, hexm⟩ := hm m hm'
    obtain ⟨v, hv, hok⟩ := approxOne_spec cfg msgs hb hd hn ex hex
    rw [hexm] at hv
    cases hv
    exact hok.mono (othersOf_length_le _ _) (othersOf_sub msgs _)

theorem checkAmin_shape (cfg : Cfg) (msgs : List (Nat × Int)) (hb : Bounded msgs) (hd : 2 ≤ msgs.length) :
    ∃ (j : Nat) (hj : j < msgs.length) (delta delta2 : Int),
      0 ≤ delta ∧ delta ≤ 127 ∧
      (∀ v ∈ (msgs.map Prod.snd).eraseIdx j, delta ≤ v.natAbs) ∧
      (∀ lo : Int, (∀ v ∈ (msgs.map Prod.snd).eraseIdx j, lo ≤ v.natAbs) →
        lo - 6 * ((msgs.length : Int) - 2) ≤ delta) ∧
      0 ≤ delta2 ∧ min delta (msgs[j].2.natAbs : Int) - 6 ≤ delta2 ∧ delta2 ≤ min delta (msgs[j].2.natAbs : Int) ∧
      checkAmin cfg msgs = some
        ((msgs[j].1, if signParity (msgs.map Prod.snd) != decide (msgs[j].2 < 0) then -cfg.hl delta else cfg.hl delta) ::
          (msgs.zipIdx.filter (fun p => p.2 != j)).map (fun p =>
            (p.1.1, if signParity (msgs.map Prod.snd) != decide (p.1.2 < 0) then -cfg.hl delta2 else cfg.hl delta2))) := by
  have hbv : ∀ v ∈ msgs.map Prod.snd, -127 ≤ v ∧ v ≤ 127 := by
    intro v hv
    obtain ⟨m, hm, rfl⟩ := List.mem_map.1 hv
    exact hb m hm
  have hne : msgs.map Prod.snd ≠ [] := by
    intro h; have := congrArg List.length h; simp at this; subst this; simp at hd
  obtain ⟨j, w, harg⟩ := argminAbs_total _ hne hbv
  obtain ⟨hj, hw, hmin⟩ := argminAbs_spec _ j w harg
  have hj' : j < msgs.length := by simpa using hj
  have hw' : w = msgs[j].2 := by rw [← hw]; simp
  subst hw'
  have hbe : ∀ v ∈ (msgs.map Prod.snd).eraseIdx j, -127 ≤ v ∧ v ≤ 127 :=
    fun v hv => hbv v (List.mem_of_mem_eraseIdx hv)
  have hlen : ((msgs.map Prod.snd).eraseIdx j).length = msgs.length - 1 := by
    simp [List.length_eraseIdx, hj']
  have hne' : (msgs.map Prod.snd).eraseIdx j ≠ [] := by
    intro h; have := congrArg List.length h; rw [hlen] at this; simp at this; omega
  obtain ⟨delta, hfold, hd0, hd1, hdle, hdlo⟩ := foldAbs_none stepFull goodStep_full _ hne' hbe
  have hwb := hb msgs[j] (List.getElem_mem hj')
  obtain ⟨delta2, hstep, h20, h2l, h2u⟩ := stepFull_spec delta (msgs[j].2.natAbs : Int) hd0 (by omega) hd1 (by omega)
  refine ⟨j, hj', delta, delta2, hd0, hd1, hdle, ?_, h20, h2l, h2u, ?_⟩
  · intro lo hall
    have := hdlo lo hall
    rw [hlen] at this
    omega
  · rw [← filter_zipIdx_eq_eraseIdx'] at hfold
    have hget : msgs[j]?.getD (0, 0) = msgs[j] := by simp [hj']
    simp only [checkAmin]
    simp [harg, hfold, abs8_ok _ hwb.1, hstep, hget]
theorem mem_vals_cases (vals : List Int) (j : Nat) (hj : j < vals.length) (y : Int) (hy : y ∈ vals) :
    y = vals[j] ∨ y ∈ vals.eraseIdx j := by
  have := (perm_cons_eraseIdx vals j hj).mem_iff.2 hy
  simpa using this

theorem checkAmin_spec (cfg : Cfg) (msgs : List (Nat × Int)) (hb : Bounded msgs) (hd : 2 ≤ msgs.length)
    (hn : (msgs.map Prod.fst).Nodup) :
    ∃ out, checkAmin cfg msgs = some out ∧ (out.map Prod.fst).Perm (msgs.map Prod.fst) ∧
      ∀ m ∈ out, MagOk cfg (othersOf msgs m.1) (msgs.map Prod.snd) msgs.length
        (signParity (othersOf msgs m.1)) m.2 := by
  obtain ⟨j, hj, delta, delta2, hd0, hd1, hdle, hdlo, h20, h2l, h2u, hout⟩ := checkAmin_shape cfg msgs hb hd
  have hjv : j < (msgs.map Prod.snd).length := by simpa using hj
  refine ⟨_, hout, ?_, ?_⟩
  · have h1 : ((msgs.zipIdx.filter (fun p => p.2 != j)).map (fun p =>
        (p.1.1, if signParity (msgs.map Prod.snd) != decide (p.1.2 < 0) then -cfg.hl delta2 else cfg.hl delta2))).map Prod.fst
        = (msgs.eraseIdx j).map Prod.fst := by
      rw [← filter_zipIdx_eq_eraseIdx' msgs j]
      simp [List.map_map, Function.comp_def]
    rw [List.map_cons, h1]
    exact (perm_cons_eraseIdx msgs j hj).map Prod.fst
  · intro m hm
    rcases List.mem_cons.1 hm with rfl | hm
    · refine ⟨delta, hd0, hd1, ?_, ?_, ?_⟩
      · simp only
        rw [othersOf_getElem msgs hn j hj]; exact hdle
      · intro lo hall
        have := hdlo lo (fun v hv => hall v (List.mem_of_mem_eraseIdx hv))
        omega
      · simp only
        rw [othersOf_getElem msgs hn j hj, signParity_eraseIdx _ j hjv]
        simp
    · obtain ⟨p, hp, rfl⟩ := List.mem_map.1 hm
      obtain ⟨hpz, hpj⟩ := List.mem_filter.1 hp
      obtain ⟨x, i⟩ := p
      have hi : i < msgs.length := (List.mem_zipIdx' hpz).1
      have hx : x = msgs[i]'hi := (List.mem_zipIdx' hpz).2
      clear hp hpz
      subst hx
      clear hm
      have hij : i ≠ j := by simpa using hpj
      have hiv : i < (msgs.map Prod.snd).length := by simpa using hi
      have hwall : ∀ y ∈ msgs.map Prod.snd, delta2 ≤ y.natAbs := by
        intro y hy
        rcases mem_vals_cases _ j hjv y hy with rfl | hy
        · simp; omega
        · have := hdle y hy; omega
      refine ⟨delta2, h20, by omega, ?_, ?_, ?_⟩
      · intro y hy
        exact hwall y (othersOf_sub msgs _ y hy)
      · intro lo hall
        have h1 := hdlo lo (fun v hv => hall v (List.mem_of_mem_eraseIdx hv))
        have h2 := hall msgs[j].2 (List.mem_map_of_mem (List.getElem_mem hj))
        omega
      · simp only
        rw [othersOf_getElem msgs hn i hi, signParity_eraseIdx _ i hiv]
        simp
theorem rule_spec (amin : Bool) (cfg : Cfg) (msgs : List (Nat × Int)) (hb : Bounded msgs)
    (hd : 2 ≤ msgs.length) (hn : (msgs.map Prod.fst).Nodup) :
    ∃ out, (if amin then checkAmin cfg msgs else checkApprox cfg msgs) = some out ∧
      ∀ m ∈ out, MagOk cfg (othersOf msgs m.1) (msgs.map Prod.snd) msgs.length
        (signParity (othersOf msgs m.1)) m.2 := by
  cases amin
  · obtain ⟨out, h1, _, h3⟩ := checkApprox_spec cfg msgs hb hd hn
    exact ⟨out, h1, h3⟩
  · obtain ⟨out, h1, _, h3⟩ := checkAmin_spec cfg msgs hb hd hn
    exact ⟨out, h1, h3⟩

theorem MagOk.facts {cfg : Cfg} {others all : List Int} {n : Nat} {s : Bool} {v : Int}
    (h : MagOk cfg others all n s v) :
    (-127 ≤ v ∧ v ≤ 127) ∧
    (v ≠ 0 → (v < 0 ↔ s = true)) ∧
    (cfg.hardLimit = false → LeAllAbs v others) ∧
    (cfg.hardLimit = true → v.natAbs < 100 → LeAllAbs v others) ∧
    (cfg.hardLimit = true → 100 ≤ v.natAbs → v.natAbs = 127 ∧ ∀ y ∈ others, 100 ≤ y.natAbs) := by
  obtain ⟨mag, h0, h1, hle, _, hv⟩ := h
  obtain ⟨a, b, c, d, e, _⟩ := msg_core cfg mag s others h0 h1 hle v hv
  exact ⟨a, b, c, d, e⟩

theorem MagOk.lower {cfg : Cfg} {others all : List Int} {n : Nat} {s : Bool} {v : Int}
    (h : MagOk cfg others all n s v) (hl : cfg.hardLimit = false) (lo : Int)
    (hall : ∀ y ∈ all, lo ≤ y.natAbs) : lo - 6 * ((n : Int) - 1) ≤ v.natAbs := by
  obtain ⟨mag, h0, h1, hle, hlo, hv⟩ := h
  have := (msg_core cfg mag s others h0 h1 hle v hv).2.2.2.2.2 hl
  have := hlo lo hall
  omega

theorem amin_tail_equal (cfg : Cfg) (msgs out : List (Nat × Int)) (hb : Bounded msgs)
    (hd : 2 ≤ msgs.length) (ho : checkAmin cfg msgs = some out) :
    ∃ d : Nat, ∀ a ∈ out.tail, a.2.natAbs = d := by
  obtain ⟨j, hj, delta, delta2, _, _, _, _, _, _, _, hout⟩ := checkAmin_shape cfg msgs hb hd
  rw [hout] at ho
  cases ho
  refine ⟨(cfg.hl delta2).natAbs, ?_⟩
  intro a ha
  simp only [List.tail_cons] at ha
  obtain ⟨p, _, rfl⟩ := List.mem_map.1 ha
  simp only
  split <;> simp
end LdpcV.I8
