/- Helper lemmas (RoundTanh): the tanh check rule of Model/ArithF.lean (`impl_tanhf!`) under the standard model of
floating-point arithmetic, compared with the exact box-plus IN THE TANH DOMAIN (2·atanh is ill-conditioned near ±1, so a
bound on the LLR itself cannot be uniform; the tanh-domain distance is what the harness compares, too). -/
import LdpcV.Lemmas.RoundAmin
import Mathlib.Analysis.SpecialFunctions.Trigonometric.DerivHyp
import Mathlib.Analysis.Calculus.Deriv.MeanValue
namespace LdpcV.Round
open LdpcV LdpcV.ArithF

/-! ### real analysis: tanh is 1-Lipschitz; a multiplicative perturbation of atanh moves tanh by little -/

theorem sinh_le_mul_cosh {t : ℝ} (ht : 0 ≤ t) : Real.sinh t ≤ t * Real.cosh t := by
  have hd : ∀ x : ℝ, HasDerivAt (fun x => x * Real.cosh x - Real.sinh x) (x * Real.sinh x) x := by
    intro x
    have h1 : HasDerivAt (fun x => x * Real.cosh x - Real.sinh x) (1 * Real.cosh x + x * Real.sinh x - Real.cosh x) x :=
      ((hasDerivAt_id' x).mul (Real.hasDerivAt_cosh x)).sub (Real.hasDerivAt_sinh x)
    exact h1.congr_deriv (by ring)
  have hmono : MonotoneOn (fun x => x * Real.cosh x - Real.sinh x) (Set.Ici 0) := by
    apply monotoneOn_of_deriv_nonneg (convex_Ici 0)
    · exact fun x _ => (hd x).continuousAt.continuousWithinAt
    · exact fun x _ => (hd x).differentiableAt.differentiableWithinAt
    · intro x hx
      rw [interior_Ici] at hx
      rw [(hd x).deriv]
      have hx0 : 0 < x := hx
      exact mul_nonneg hx0.le (Real.sinh_nonneg_iff.mpr hx0.le)
  have := hmono (Set.mem_Ici.mpr (le_refl 0)) (Set.mem_Ici.mpr ht) ht
  simp at this
  linarith

theorem tanh_sub (x y : ℝ) : Real.tanh x - Real.tanh y = Real.sinh (x - y) / (Real.cosh x * Real.cosh y) := by
  rw [Real.tanh_eq_sinh_div_cosh, Real.tanh_eq_sinh_div_cosh, Real.sinh_sub]
  have hx := (Real.cosh_pos x).ne'
  have hy := (Real.cosh_pos y).ne'
  field_simp

theorem tanh_lip_aux {x y : ℝ} (h : y ≤ x) : Real.tanh x - Real.tanh y ≤ x - y ∧ 0 ≤ Real.tanh x - Real.tanh y := by
  have hs : 0 ≤ x - y := by linarith
  set s := x - y with hsd
  set hh := s / 2 with hhd
  have hh0 : 0 ≤ hh := by rw [hhd]; linarith
  have hcc : 0 < Real.cosh x * Real.cosh y := mul_pos (Real.cosh_pos x) (Real.cosh_pos y)
  rw [tanh_sub]
  constructor
  · rw [div_le_iff₀ hcc]
    -- cosh x cosh y = (cosh(x+y) + cosh(x−y))/2 ≥ (1 + cosh s)/2 = cosh²(s/2)
    have h1 : Real.cosh x * Real.cosh y = (Real.cosh (x + y) + Real.cosh (x - y)) / 2 := by
      rw [Real.cosh_add, Real.cosh_sub]; ring
    have h2 : 1 ≤ Real.cosh (x + y) := Real.one_le_cosh _
    have h3 : Real.cosh s = Real.cosh hh ^ 2 + Real.sinh hh ^ 2 := by
      have : s = 2 * hh := by rw [hhd]; ring
      rw [this, Real.cosh_two_mul]
    have h4 : Real.sinh s = 2 * Real.sinh hh * Real.cosh hh := by
      have : s = 2 * hh := by rw [hhd]; ring
      rw [this, Real.sinh_two_mul]
    have h5 := Real.cosh_sq hh
    have h6 := sinh_le_mul_cosh hh0
    have hch := Real.cosh_pos hh
    have hsh : 0 ≤ Real.sinh hh := Real.sinh_nonneg_iff.mpr hh0
    rw [h1, ← hsd, h3, h4]
    have hs2 : s = 2 * hh := by rw [hhd]; ring
    rw [hs2]
    nlinarith [mul_le_mul_of_nonneg_right h6 hch.le, sq_nonneg (Real.cosh hh), sq_nonneg (Real.sinh hh)]
  · exact div_nonneg (Real.sinh_nonneg_iff.mpr hs) hcc.le

/-- tanh is 1-Lipschitz -/
theorem tanh_lip (x y : ℝ) : |Real.tanh x - Real.tanh y| ≤ |x - y| := by
  rcases le_total y x with h | h
  · obtain ⟨h1, h2⟩ := tanh_lip_aux h
    rw [abs_of_nonneg h2, abs_of_nonneg (by linarith)]; exact h1
  · obtain ⟨h1, h2⟩ := tanh_lip_aux h
    rw [abs_sub_comm, abs_sub_comm x y, abs_of_nonneg h2, abs_of_nonneg (by linarith)]; exact h1

theorem abs_tanh_le_one (x : ℝ) : |Real.tanh x| ≤ 1 := by
  rw [abs_le]; exact ⟨(Real.neg_one_lt_tanh x).le, (Real.tanh_lt_one x).le⟩

theorem cosh_ge_half_exp (t : ℝ) : Real.exp |t| / 2 ≤ Real.cosh t := by
  rw [Real.cosh_eq]
  rcases le_total 0 t with h | h
  · rw [abs_of_nonneg h]; have := Real.exp_pos (-t); linarith
  · rw [abs_of_nonpos h]; have := Real.exp_pos t; linarith

theorem abs_sinh_le (s : ℝ) : |Real.sinh s| ≤ |s| * Real.cosh s := by
  rw [Real.abs_sinh]
  have := sinh_le_mul_cosh (abs_nonneg s)
  rwa [Real.cosh_abs] at this

/-- scaling the argument of tanh by a factor G close to 1 moves the value by at most 4·|G − 1| (for |G − 1| ≤ 1/2), however
large the argument is: |tanh(aG) − tanh a| = |sinh(a(G−1))| / (cosh(aG)·cosh a) and |a|·e^{|a|z} ≤ e^{|a|(2−z)} -/
theorem tanh_scale (a G : ℝ) (hG : |G - 1| ≤ 1 / 2) : |Real.tanh (a * G) - Real.tanh a| ≤ 4 * |G - 1| := by
  rw [tanh_sub, abs_div, abs_mul, abs_of_pos (Real.cosh_pos _), abs_of_pos (Real.cosh_pos _)]
  rw [div_le_iff₀ (mul_pos (Real.cosh_pos _) (Real.cosh_pos _))]
  have e : a * G - a = a * (G - 1) := by ring
  rw [e]
  set z := |G - 1| with hz
  set A := |a| with hA
  have hz0 : 0 ≤ z := abs_nonneg _
  have hA0 : 0 ≤ A := abs_nonneg _
  have h1 := abs_sinh_le (a * (G - 1))
  rw [abs_mul, ← hz, ← hA] at h1
  have hc1 : Real.cosh (a * (G - 1)) ≤ Real.exp (A * z) := by
    rw [← Real.cosh_abs, abs_mul, ← hz, ← hA, Real.cosh_eq]
    have hp : 0 ≤ A * z := mul_nonneg hA0 hz0
    have : Real.exp (-(A * z)) ≤ Real.exp (A * z) := Real.exp_le_exp.2 (by linarith)
    linarith
  have hGabs : 1 - z ≤ |G| := by
    have h2 := abs_le.mp hG
    have h3 : (1 : ℝ) - z ≤ G := by
      have := neg_abs_le (G - 1); rw [← hz] at this; linarith
    exact le_trans h3 (le_abs_self G)
  have hc2 : Real.exp (A * (1 - z)) / 2 ≤ Real.cosh (a * G) := by
    refine le_trans ?_ (cosh_ge_half_exp (a * G))
    rw [abs_mul, ← hA]
    have : Real.exp (A * (1 - z)) ≤ Real.exp (A * |G|) := Real.exp_le_exp.2 (mul_le_mul_of_nonneg_left hGabs hA0)
    linarith
  have hc3 : Real.exp A / 2 ≤ Real.cosh a := cosh_ge_half_exp a
  -- A·e^{Az} ≤ e^{A(1−z)}·e^{A}
  have hkey : A * Real.exp (A * z) ≤ Real.exp (A * (1 - z)) * Real.exp A := by
    rw [← Real.exp_add]
    have e2 : A * (1 - z) + A = A * z + A * (2 - 2 * z) := by ring
    rw [e2, Real.exp_add]
    have h4 : A ≤ Real.exp (A * (2 - 2 * z)) := by
      have h5 : A ≤ A * (2 - 2 * z) := by nlinarith
      have h6 := Real.add_one_le_exp (A * (2 - 2 * z))
      linarith
    have hp := Real.exp_pos (A * z)
    nlinarith
  have hp1 := Real.exp_pos (A * (1 - z))
  have hp2 := Real.exp_pos A
  have hcosh1 := Real.cosh_pos (a * G)
  have hcosh2 := Real.cosh_pos a
  have hprod : Real.exp (A * (1 - z)) * Real.exp A ≤ 4 * (Real.cosh (a * G) * Real.cosh a) := by
    have := mul_le_mul hc2 hc3 (by positivity) hcosh1.le
    nlinarith
  calc |Real.sinh (a * (G - 1))| ≤ A * z * Real.cosh (a * (G - 1)) := h1
    _ ≤ A * z * Real.exp (A * z) := mul_le_mul_of_nonneg_left hc1 (mul_nonneg hA0 hz0)
    _ = z * (A * Real.exp (A * z)) := by ring
    _ ≤ z * (4 * (Real.cosh (a * G) * Real.cosh a)) := mul_le_mul_of_nonneg_left (le_trans hkey hprod) hz0
    _ = 4 * z * (Real.cosh (a * G) * Real.cosh a) := by ring

variable (M : FpModel)

/-! ### the clamp and one tanh factor -/

/-- `max(-C, min(C, y))` -/
noncomputable def clampR (C y : ℝ) : ℝ := max (-C) (min C y)

theorem clampR_abs (C y : ℝ) (hC : 0 ≤ C) : |clampR C y| ≤ C := by
  unfold clampR
  rw [abs_le]; constructor
  · exact le_max_left _ _
  · exact max_le (by linarith) (min_le_left _ _)

/-- scaling the argument by a positive factor f moves the clamped value by at most |f − 1|·C -/
theorem clampR_scale (C y f : ℝ) (hC : 0 ≤ C) (hf : 0 < f) : |clampR C (y * f) - clampR C y| ≤ |f - 1| * C := by
  unfold clampR
  rcases le_total 0 y with hy | hy
  · have hyf : 0 ≤ y * f := mul_nonneg hy hf.le
    have e1 : max (-C) (min C (y * f)) = min C (y * f) := max_eq_right (le_min (by linarith) (by linarith))
    have e2 : max (-C) (min C y) = min C y := max_eq_right (le_min (by linarith) (by linarith))
    rw [e1, e2]
    rcases le_total 1 f with h1 | h1
    · rw [abs_of_nonneg (by linarith : 0 ≤ f - 1)]
      have hle : y ≤ y * f := by nlinarith
      have hmono : min C y ≤ min C (y * f) := min_le_min (le_refl C) hle
      rw [abs_of_nonneg (by linarith)]
      -- min(C, yf) ≤ f·min(C, y)
      have : min C (y * f) ≤ f * min C y := by
        rcases le_total C y with hc | hc
        · rw [min_eq_left hc]; exact le_trans (min_le_left _ _) (by nlinarith)
        · rw [min_eq_right hc]; exact le_trans (min_le_right _ _) (by linarith)
      have hm : min C y ≤ C := min_le_left _ _
      have hm0 : 0 ≤ min C y := le_min hC hy
      nlinarith
    · rw [abs_of_nonpos (by linarith : f - 1 ≤ 0)]
      have hle : y * f ≤ y := by nlinarith
      have hmono : min C (y * f) ≤ min C y := min_le_min (le_refl C) hle
      rw [abs_of_nonpos (by linarith)]
      have : f * min C y ≤ min C (y * f) := by
        apply le_min
        · have hm : min C y ≤ C := min_le_left _ _
          have hm0 : 0 ≤ min C y := le_min hC hy
          nlinarith
        · have hm : min C y ≤ y := min_le_right _ _
          nlinarith
      have hm : min C y ≤ C := min_le_left _ _
      have hm0 : 0 ≤ min C y := le_min hC hy
      nlinarith
  · -- y ≤ 0: symmetric, through max
    have hyf : y * f ≤ 0 := mul_nonpos_of_nonpos_of_nonneg hy hf.le
    have e1 : min C (y * f) = y * f := min_eq_right (by linarith)
    have e2 : min C y = y := min_eq_right (by linarith)
    rw [e1, e2]
    rcases le_total 1 f with h1 | h1
    · rw [abs_of_nonneg (by linarith : 0 ≤ f - 1)]
      have hle : y * f ≤ y := by nlinarith
      have hmono : max (-C) (y * f) ≤ max (-C) y := max_le_max (le_refl _) hle
      rw [abs_of_nonpos (by linarith)]
      have : f * max (-C) y ≤ max (-C) (y * f) := by
        rcases le_total (-C) y with hc | hc
        · rw [max_eq_right hc]; exact le_trans (by linarith) (le_max_right _ _)
        · rw [max_eq_left hc]; exact le_trans (by nlinarith) (le_max_left _ _)
      have hm : -C ≤ max (-C) y := le_max_left _ _
      have hm0 : max (-C) y ≤ 0 := max_le (by linarith) hy
      nlinarith
    · rw [abs_of_nonpos (by linarith : f - 1 ≤ 0)]
      have hle : y ≤ y * f := by nlinarith
      have hmono : max (-C) y ≤ max (-C) (y * f) := max_le_max (le_refl _) hle
      rw [abs_of_nonneg (by linarith)]
      have : max (-C) (y * f) ≤ f * max (-C) y := by
        apply max_le
        · have hm : -C ≤ max (-C) y := le_max_left _ _
          have hm0 : max (-C) y ≤ 0 := max_le (by linarith) hy
          nlinarith
        · have hm : y ≤ max (-C) y := le_max_right _ _
          nlinarith
      have hm : -C ≤ max (-C) y := le_max_left _ _
      have hm0 : max (-C) y ≤ 0 := max_le (by linarith) hy
      nlinarith

/-- the rounded and the real tanh factor of one incoming message -/
noncomputable def tF (C x : ℝ) : ℝ :=
  (Sc.rounded M).tanh ((Sc.rounded M).max ((Sc.rounded M).neg C) ((Sc.rounded M).min C ((Sc.rounded M).mul ((Sc.rounded M).rat 1 2) x)))
noncomputable def tR (C x : ℝ) : ℝ :=
  Sc.real.tanh (Sc.real.max (Sc.real.neg C) (Sc.real.min C (Sc.real.mul (Sc.real.rat 1 2) x)))

/-- error of one factor: e + (b² − 1)·C -/
noncomputable def epsT (C : ℝ) : ℝ := M.e + ((b M) ^ 2 - 1) * C

theorem tF_err (C x : ℝ) (hC : 0 ≤ C) : |tF M C x - tR C x| ≤ epsT M C ∧ |tR C x| ≤ 1 ∧ |tF M C x| ≤ 1 + M.e := by
  unfold tF tR
  simp only [r_mul, r_rat, r_neg, r_max, r_min, real_mul, real_rat, real_neg, real_max, real_min, real_tanh]
  have hn : Near M 2 ((((1 : ℤ) : ℝ) / ((2 : ℕ) : ℝ)) * x) (M.fl (M.fl (((1 : ℤ) : ℝ) / ((2 : ℕ) : ℝ)) * x)) :=
    near_fl M (near_mul M (near_fl M (near_refl M _)) (near_refl M x))
  obtain ⟨f, hf, f1, f2⟩ := hn
  set y := (((1 : ℤ) : ℝ) / ((2 : ℕ) : ℝ)) * x with hy
  have hfpos : 0 < f := lt_of_lt_of_le (pow_pos (one_sub_pos M) 2) f1
  have hfb : |f - 1| ≤ (b M) ^ 2 - 1 := by
    have hprod : (1 - M.u) ^ 2 * (b M) ^ 2 = 1 := by rw [← mul_pow, mul_comm, b_mul, one_pow]
    have hup1 : 1 ≤ (b M) ^ 2 := one_le_pow₀ (one_le_b M)
    have hlow : 0 < (1 - M.u) ^ 2 := pow_pos (one_sub_pos M) 2
    rw [abs_le]; constructor
    · have : 2 ≤ (1 - M.u) ^ 2 + (b M) ^ 2 := by nlinarith [sq_nonneg ((b M) ^ 2 - 1), sq_nonneg ((1 - M.u) ^ 2 - 1)]
      linarith
    · linarith
  rw [hf]
  have hcl := clampR_scale C y f hC hfpos
  unfold clampR at hcl
  have hcl' : |max (-C) (min C (y * f)) - max (-C) (min C y)| ≤ ((b M) ^ 2 - 1) * C :=
    le_trans hcl (mul_le_mul_of_nonneg_right hfb hC)
  set cF := max (-C) (min C (y * f)) with hcF
  set cR := max (-C) (min C y) with hcR
  have hlip := tanh_lip cF cR
  have hte := M.tanh_err cF
  have h1F := abs_tanh_le_one cF
  have he := M.e_nonneg
  have htF : (Sc.rounded M).tanh cF = M.ftanh cF := rfl
  rw [htF]
  refine ⟨?_, abs_tanh_le_one cR, ?_⟩
  · have e : M.ftanh cF - Real.tanh cR = (M.ftanh cF - Real.tanh cF) + (Real.tanh cF - Real.tanh cR) := by ring
    rw [e]
    refine le_trans (abs_add_le _ _) ?_
    unfold epsT
    have : M.e * |Real.tanh cF| ≤ M.e := by nlinarith
    linarith
  · have e : M.ftanh cF = (M.ftanh cF - Real.tanh cF) + Real.tanh cF := by ring
    rw [e]
    refine le_trans (abs_add_le _ _) ?_
    have : M.e * |Real.tanh cF| ≤ M.e := by nlinarith
    linarith

/-! ### the rounded product -/

/-- error of the rounded left-to-right product after k factors, each within εt of a real factor of magnitude ≤ 1 -/
noncomputable def pErr (εt : ℝ) : ℕ → ℝ
  | 0 => M.u
  | k + 1 => pErr εt k * ((1 + M.e) * (1 + M.u)) + εt + M.u * (1 + M.e)

theorem pErr_nonneg (εt : ℝ) (hε : 0 ≤ εt) : ∀ k, 0 ≤ pErr M εt k
  | 0 => M.u_nonneg
  | k + 1 => by
    have := pErr_nonneg εt hε k
    have := M.u_nonneg; have := M.e_nonneg
    simp only [pErr]; positivity

theorem foldl_mul_err (εt : ℝ) (hε : 0 ≤ εt) : ∀ (xs ys : List ℝ) (acc acc' E : ℝ), xs.length = ys.length →
    (∀ i, i < xs.length → |xs.getD i 0 - ys.getD i 0| ≤ εt ∧ |ys.getD i 0| ≤ 1 ∧ |xs.getD i 0| ≤ 1 + M.e) →
    |acc - acc'| ≤ E → |acc'| ≤ 1 → 0 ≤ E →
    ∃ E', |xs.foldl (Sc.rounded M).mul acc - ys.foldl (· * ·) acc'| ≤ E' ∧ |ys.foldl (· * ·) acc'| ≤ 1 ∧
      (∀ k, E ≤ pErr M εt k → E' ≤ pErr M εt (k + xs.length))
  | [], [], acc, acc', E, _, _, h1, h2, _ => ⟨E, by simpa using h1, by simpa using h2, fun k hk => by simpa using hk⟩
  | [], _ :: _, _, _, _, hl, _, _, _, _ => by simp at hl
  | _ :: _, [], _, _, _, hl, _, _, _, _ => by simp at hl
  | x :: xs, y :: ys, acc, acc', E, hl, hxy, h1, h2, hE => by
    simp only [List.foldl_cons, r_mul]
    obtain ⟨hx0, hy0, hxT⟩ := hxy 0 (by simp)
    simp only [List.getD_cons_zero] at hx0 hy0 hxT
    obtain ⟨δ, hδ, hfl⟩ := fl_eq M (acc * x)
    have hδ' := abs_le.mp hδ
    have hu := M.u_nonneg
    have he := M.e_nonneg
    have hacc : |acc| ≤ 1 + E := by
      have : acc = (acc - acc') + acc' := by ring
      rw [this]; exact le_trans (abs_add_le _ _) (by linarith)
    set E1 := E * ((1 + M.e) * (1 + M.u)) + εt + M.u * (1 + M.e) with hE1
    have hstep : |M.fl (acc * x) - acc' * y| ≤ E1 := by
      rw [hfl]
      have e : acc * x * (1 + δ) - acc' * y = (acc - acc') * x + acc' * (x - y) + acc * x * δ := by ring
      rw [e]
      have t1 : |(acc - acc') * x| ≤ E * (1 + M.e) := by rw [abs_mul]; exact mul_le_mul h1 hxT (abs_nonneg _) hE
      have t2 : |acc' * (x - y)| ≤ 1 * εt := by rw [abs_mul]; exact mul_le_mul h2 hx0 (abs_nonneg _) (by norm_num)
      have t3 : |acc * x * δ| ≤ (1 + E) * (1 + M.e) * M.u := by
        rw [abs_mul, abs_mul]
        exact mul_le_mul (mul_le_mul hacc hxT (abs_nonneg _) (by linarith)) hδ (abs_nonneg _) (by positivity)
      have := abs_add_le ((acc - acc') * x + acc' * (x - y)) (acc * x * δ)
      have := abs_add_le ((acc - acc') * x) (acc' * (x - y))
      rw [hE1]; nlinarith
    have h2' : |acc' * y| ≤ 1 := by rw [abs_mul]; nlinarith [abs_nonneg acc', abs_nonneg y]
    have hE1' : 0 ≤ E1 := by rw [hE1]; positivity
    obtain ⟨E', hE', hb', hk'⟩ := foldl_mul_err εt hε xs ys (M.fl (acc * x)) (acc' * y) E1 (by simpa using hl)
      (fun i hi => by
        have := hxy (i + 1) (by simpa using hi)
        simpa using this) hstep h2' hE1'
    refine ⟨E', hE', hb', ?_⟩
    intro k hk
    have hmono : E1 ≤ pErr M εt (k + 1) := by
      simp only [pErr]; rw [hE1]
      have : 0 ≤ (1 + M.e) * (1 + M.u) := by positivity
      nlinarith
    have := hk' (k + 1) hmono
    simpa [Nat.add_assoc, Nat.add_comm 1] using this

/-! ### the emitted message -/

/-- relative perturbation of the argument of the final tanh: (1+e)·b² − 1 -/
noncomputable def zeta : ℝ := (1 + M.e) * (b M) ^ 2 - 1

theorem zeta_nonneg : 0 ≤ zeta M := by
  unfold zeta
  have := M.e_nonneg
  have h1 : 1 ≤ (b M) ^ 2 := one_le_pow₀ (one_le_b M)
  nlinarith

/-- `fatanh p = atanh p · (1 + ε)`, |ε| ≤ e -/
theorem atanh_eq (p : ℝ) (hp : |p| < 1) :
    ∃ ε, |ε| ≤ M.e ∧ M.fatanh p = ((1 / 2) * Real.log ((1 + p) / (1 - p))) * (1 + ε) := by
  set a := (1 / 2) * Real.log ((1 + p) / (1 - p)) with ha
  have h := M.atanh_err p hp
  rw [← ha] at h
  by_cases h0 : a = 0
  · refine ⟨0, by simpa using M.e_nonneg, ?_⟩
    rw [h0] at h ⊢
    simp only [sub_zero, abs_zero, mul_zero] at h
    rw [abs_eq_zero.mp (le_antisymm h (abs_nonneg _))]; ring
  · refine ⟨(M.fatanh p - a) / a, ?_, by field_simp; ring⟩
    rw [abs_div, div_le_iff₀ (abs_pos.mpr h0)]
    exact h

/-- one emitted value of the rounded tanh rule against the real product of the other factors, in the tanh domain -/
theorem out_err (εt : ℝ) (hε : 0 ≤ εt) (hz : zeta M ≤ 1 / 2) (xsF xsR : List ℝ) (hl : xsF.length = xsR.length)
    (hrel : ∀ i, i < xsF.length → |xsF.getD i 0 - xsR.getD i 0| ≤ εt ∧ |xsR.getD i 0| ≤ 1 ∧ |xsF.getD i 0| ≤ 1 + M.e)
    (hlt : |prod (Sc.rounded M) xsF| < 1) :
    |Real.tanh (((Sc.rounded M).mul ((Sc.rounded M).rat 2 1) ((Sc.rounded M).atanh (prod (Sc.rounded M) xsF))) / 2)
      - prod Sc.real xsR| ≤ 4 * zeta M + pErr M εt xsF.length := by
  have hprodF : prod (Sc.rounded M) xsF = xsF.foldl (Sc.rounded M).mul (M.fl (((1 : ℤ) : ℝ) / ((1 : ℕ) : ℝ))) := rfl
  have hprodR : prod Sc.real xsR = xsR.foldl (· * ·) 1 := by
    have : Sc.real.rat 1 1 = 1 := by simp
    simp only [prod, this, real_mul_fn]
  have hone : (((1 : ℤ) : ℝ) / ((1 : ℕ) : ℝ)) = 1 := by norm_num
  have hacc : |M.fl (((1 : ℤ) : ℝ) / ((1 : ℕ) : ℝ)) - 1| ≤ M.u := by
    have := M.fl_err (((1 : ℤ) : ℝ) / ((1 : ℕ) : ℝ))
    rw [hone] at this ⊢
    simpa using this
  obtain ⟨E', hE', _, hk⟩ := foldl_mul_err M εt hε xsF xsR _ 1 M.u hl hrel hacc (by simp) M.u_nonneg
  have hE'' : E' ≤ pErr M εt xsF.length := by
    have := hk 0 (le_refl _)
    simpa using this
  rw [← hprodF, ← hprodR] at hE'
  set pt := prod (Sc.rounded M) xsF with hpt
  obtain ⟨ε1, hε1, hat⟩ := atanh_eq M pt hlt
  set a := (1 / 2) * Real.log ((1 + pt) / (1 - pt)) with ha
  have hta : Real.tanh a = pt := by
    have := BoxL.tanh_atanh pt hlt
    rw [← ha] at this
    have e : 2 * a / 2 = a := by ring
    rwa [e] at this
  -- the emitted value
  simp only [r_mul, r_rat]
  have hat' : (Sc.rounded M).atanh pt = a * (1 + ε1) := hat
  rw [hat']
  have n2 : Near M 2 ((((2 : ℤ) : ℝ) / ((1 : ℕ) : ℝ)) * (a * (1 + ε1))) (M.fl (M.fl (((2 : ℤ) : ℝ) / ((1 : ℕ) : ℝ)) * (a * (1 + ε1)))) :=
    near_fl M (near_mul M (near_fl M (near_refl M _)) (near_refl M _))
  obtain ⟨g, hg, g1, g2⟩ := n2
  rw [hg]
  have htwo : (((2 : ℤ) : ℝ) / ((1 : ℕ) : ℝ)) = 2 := by norm_num
  rw [htwo]
  set G := (1 + ε1) * g with hG
  have hval : 2 * (a * (1 + ε1)) * g / 2 = a * G := by rw [hG]; ring
  rw [hval]
  -- |G − 1| ≤ ζ
  have hε1' := abs_le.mp hε1
  have he := M.e_nonneg
  have he1 := M.e_le
  have hq : 0 < (1 - M.u) ^ 2 := pow_pos (one_sub_pos M) 2
  have hq1 : (1 - M.u) ^ 2 ≤ 1 := pow_le_one₀ (one_sub_pos M).le (one_sub_le_one M)
  have hb2 : 1 ≤ (b M) ^ 2 := one_le_pow₀ (one_le_b M)
  have hqb : (1 - M.u) ^ 2 * (b M) ^ 2 = 1 := by rw [← mul_pow, mul_comm, b_mul, one_pow]
  have hgpos : 0 < g := lt_of_lt_of_le hq g1
  have hGz : |G - 1| ≤ zeta M := by
    unfold zeta
    rw [abs_le]; constructor
    · -- G ≥ (1−e)q and 1 − (1−e)q ≤ (1+e)/q − 1
      have hGl : (1 - M.e) * (1 - M.u) ^ 2 ≤ G := by
        rw [hG]
        have : (1 - M.e) * (1 - M.u) ^ 2 ≤ (1 + ε1) * (1 - M.u) ^ 2 := mul_le_mul_of_nonneg_right (by linarith) hq.le
        have : (1 + ε1) * (1 - M.u) ^ 2 ≤ (1 + ε1) * g := mul_le_mul_of_nonneg_left g1 (by linarith)
        linarith
      have hsum : 2 ≤ (1 - M.e) * (1 - M.u) ^ 2 + (1 + M.e) * (b M) ^ 2 := by
        have h2 : 2 ≤ (1 - M.u) ^ 2 + (b M) ^ 2 := by nlinarith [sq_nonneg ((b M) ^ 2 - 1), sq_nonneg ((1 - M.u) ^ 2 - 1)]
        nlinarith
      linarith
    · have : G ≤ (1 + M.e) * (b M) ^ 2 := by
        rw [hG]
        exact mul_le_mul (by linarith) g2 hgpos.le (by linarith)
      linarith
  have hscale := tanh_scale a G (le_trans hGz hz)
  rw [hta] at hscale
  have e : Real.tanh (a * G) - prod Sc.real xsR = (Real.tanh (a * G) - pt) + (pt - prod Sc.real xsR) := by ring
  rw [e]
  refine le_trans (abs_add_le _ _) ?_
  have h4 : 4 * |G - 1| ≤ 4 * zeta M := by linarith
  linarith

/-! ### the rule -/

theorem checkTanh_r (C : ℝ) (msgs : List (ℕ × ℝ)) :
    checkTanh (Sc.rounded M) C msgs = msgs.map (fun ex =>
      (ex.1, (Sc.rounded M).mul ((Sc.rounded M).rat 2 1) ((Sc.rounded M).atanh
        (prod (Sc.rounded M) ((msgs.filter (fun q => q.1 != ex.1)).map (fun q => tF M C q.2)))))) := by
  unfold checkTanh
  apply List.map_congr_left
  intro ex _
  simp only []
  congr 4
  rw [List.filter_map, List.map_map]
  rfl

theorem map_rel (C : ℝ) (hC : 0 ≤ C) (l : List (ℕ × ℝ)) :
    ∀ i, i < (l.map (fun q => tF M C q.2)).length →
      |(l.map (fun q => tF M C q.2)).getD i 0 - (l.map (fun q => tR C q.2)).getD i 0| ≤ epsT M C ∧
      |(l.map (fun q => tR C q.2)).getD i 0| ≤ 1 ∧ |(l.map (fun q => tF M C q.2)).getD i 0| ≤ 1 + M.e := by
  intro i hi
  have hi' : i < l.length := by simpa using hi
  have e1 : (l.map (fun q => tF M C q.2)).getD i 0 = tF M C l[i].2 := by
    simp [List.getD_eq_getElem?_getD, hi']
  have e2 : (l.map (fun q => tR C q.2)).getD i 0 = tR C l[i].2 := by
    simp [List.getD_eq_getElem?_getD, hi']
  rw [e1, e2]
  exact tF_err M C l[i].2 hC

theorem epsT_nonneg (C : ℝ) (hC : 0 ≤ C) : 0 ≤ epsT M C := by
  unfold epsT
  have := M.e_nonneg
  have h1 : 1 ≤ (b M) ^ 2 := one_le_pow₀ (one_le_b M)
  have : 0 ≤ ((b M) ^ 2 - 1) * C := mul_nonneg (by linarith) hC
  linarith

/-- the whole rounded tanh rule: one message per neighbour in order; in the tanh domain every value is within
4ζ + pErr(d−1) of the product of the other neighbours' (clamped) tanh factors, provided the rounded product stays below 1 -/
theorem tanh_rule_err (C : ℝ) (hC : 0 ≤ C) (hz : zeta M ≤ 1 / 2) (msgs : List (ℕ × ℝ))
    (hlt : ∀ ex ∈ msgs, |prod (Sc.rounded M) ((msgs.filter (fun q => q.1 != ex.1)).map (fun q => tF M C q.2))| < 1) :
    (checkTanh (Sc.rounded M) C msgs).map Prod.fst = msgs.map Prod.fst ∧
    ∀ o ∈ checkTanh (Sc.rounded M) C msgs,
      |Real.tanh (o.2 / 2) - prod Sc.real ((msgs.filter (fun q => q.1 != o.1)).map (fun q => tR C q.2))| ≤
        4 * zeta M + pErr M (epsT M C) ((msgs.filter (fun q => q.1 != o.1)).length) := by
  rw [checkTanh_r]
  constructor
  · rw [List.map_map]; rfl
  · intro o ho
    obtain ⟨ex, hex, rfl⟩ := List.mem_map.mp ho
    simp only []
    have := out_err M (epsT M C) (epsT_nonneg M C hC) hz
      ((msgs.filter (fun q => q.1 != ex.1)).map (fun q => tF M C q.2))
      ((msgs.filter (fun q => q.1 != ex.1)).map (fun q => tR C q.2)) (by simp)
      (map_rel M C hC _) (hlt ex hex)
    simpa using this

end LdpcV.Round
