/-
GaussLemmas2 — the dense elimination routines of `Linalg.lean` seen through `Mat.get`:
entry-level specifications of `xorFrom`, `eliminate`, `swapFrom`, `findPivot`, then the loop
invariants of `gaussForward` / `gaussBackward` and the preservation of the kernel.  Core only.
-/
import LdpcV.Lemmas.GaussLemmas1
namespace LdpcV.Lin

attribute [-simp] List.getD_eq_getElem?_getD

/-- `n` rows, each of length `m` -/
def g_Shape (a : Mat) (n m : Nat) : Prop := a.length = n ∧ ∀ r ∈ a, r.length = m

theorem g_getD_lt {α : Type} (l : List α) (i : Nat) (d : α) (h : i < l.length) : l.getD i d = l[i] := by
  simp [List.getD_eq_getElem?_getD, h]

theorem g_shape_row {a : Mat} {n m : Nat} (hs : g_Shape a n m) (i : Nat) (hi : i < n) :
    (a.getD i []).length = m := by
  have hi' : i < a.length := by rw [hs.1]; exact hi
  rw [g_getD_lt _ _ _ hi']
  exact hs.2 _ (List.getElem_mem _)

theorem g_get_row_ge {a : Mat} {n m : Nat} (hs : g_Shape a n m) (i c : Nat) (hi : n ≤ i) :
    a.get i c = false := by
  unfold Mat.get
  rw [g_getD_of_le a i [] (by rw [hs.1]; exact hi)]
  rfl

theorem g_get_col_ge {a : Mat} {n m : Nat} (hs : g_Shape a n m) (i c : Nat) (hc : m ≤ c) :
    a.get i c = false := by
  by_cases hi : i < n
  · unfold Mat.get
    exact g_getD_of_le _ _ _ (by rw [g_shape_row hs i hi]; exact hc)
  · exact g_get_row_ge hs i c (by omega)

/-! ### row operations, entry by entry -/

theorem g_length_xorFrom (rt rj : List Bool) (s : Nat) (h : rt.length = rj.length) :
    (xorFrom rt rj s).length = rt.length := by
  simp [xorFrom, h]

theorem g_getD_xorFrom (rt rj : List Bool) (s c : Nat) (h : rt.length = rj.length) :
    (xorFrom rt rj s).getD c false =
      if s ≤ c then xor (rt.getD c false) (rj.getD c false) else rt.getD c false := by
  by_cases hc : c < rt.length
  · have hc' : c < rj.length := by omega
    have h1 : c < (xorFrom rt rj s).length := by rw [g_length_xorFrom _ _ _ h]; exact hc
    rw [g_getD_lt _ _ _ h1, g_getD_lt _ _ _ hc, g_getD_lt _ _ _ hc']
    simp [xorFrom]
  · rw [g_getD_of_le _ _ _ (by rw [g_length_xorFrom _ _ _ h]; omega),
      g_getD_of_le rt _ _ (by omega), g_getD_of_le rj _ _ (by omega)]
    simp

theorem g_shape_eliminate {a : Mat} {n m : Nat} (hs : g_Shape a n m) (piv col s : Nat)
    (sel : Nat → Bool) (hp : piv < n) : g_Shape (eliminate a piv col s sel) n m := by
  refine ⟨by simp [eliminate, hs.1], ?_⟩
  intro r hr
  simp only [eliminate, List.mem_map] at hr
  obtain ⟨⟨r0, i⟩, hmem, rfl⟩ := hr
  have hr0 : r0 ∈ a := (List.mem_zipIdx_iff_getElem?.mp hmem) |> List.mem_of_getElem?
  have hl : r0.length = m := hs.2 r0 hr0
  dsimp only
  split
  · rw [g_length_xorFrom _ _ _ (by rw [hl, g_shape_row hs piv hp]), hl]
  · exact hl

theorem g_get_eliminate {a : Mat} {n m : Nat} (hs : g_Shape a n m) (piv col s : Nat)
    (sel : Nat → Bool) (hp : piv < n) (i c : Nat) :
    (eliminate a piv col s sel).get i c =
      if (sel i && a.get i col) = true ∧ s ≤ c then xor (a.get i c) (a.get piv c) else a.get i c := by
  by_cases hi : i < n
  · have hi' : i < a.length := by rw [hs.1]; exact hi
    have hrow : (eliminate a piv col s sel).getD i [] =
        if (sel i && a.get i col) = true then xorFrom (a.getD i []) (a.getD piv []) s else a.getD i [] := by
      have h1 : i < (eliminate a piv col s sel).length := by simp [eliminate, hi']
      have e : a.getD i [] = a[i] := g_getD_lt _ _ _ hi'
      rw [g_getD_lt _ _ _ h1]
      unfold Mat.get
      rw [e]
      simp [eliminate]
    unfold Mat.get at *
    rw [hrow]
    by_cases hcnd : (sel i && (a.getD i []).getD col false) = true
    · rw [if_pos hcnd, g_getD_xorFrom _ _ _ _ (by rw [g_shape_row hs i hi, g_shape_row hs piv hp])]
      simp only [hcnd, true_and]
    · rw [if_neg hcnd]
      simp [hcnd]
  · rw [g_get_row_ge (g_shape_eliminate hs piv col s sel hp) i c (by omega)]
    have h1 := g_get_row_ge hs i c (by omega)
    have h2 := g_get_row_ge hs i col (by omega)
    simp [h1, h2]

/-- the `mix` of `swapFrom` -/
theorem g_getD_mix (x y : List Bool) (s c : Nat) (h : x.length = y.length) :
    ((x.zip y).zipIdx.map (fun p => if s ≤ p.2 then p.1.2 else p.1.1)).getD c false =
      if s ≤ c then y.getD c false else x.getD c false := by
  by_cases hc : c < x.length
  · have hc' : c < y.length := by omega
    have h1 : c < ((x.zip y).zipIdx.map (fun p => if s ≤ p.2 then p.1.2 else p.1.1)).length := by
      simp; omega
    rw [g_getD_lt _ _ _ h1, g_getD_lt _ _ _ hc, g_getD_lt _ _ _ hc']
    simp
  · rw [g_getD_of_le _ _ _ (by simp; omega), g_getD_of_le x _ _ (by omega),
      g_getD_of_le y _ _ (by omega)]
    simp

theorem g_shape_swapFrom {a : Mat} {n m : Nat} (hs : g_Shape a n m) (i k s : Nat)
    (hi : i < n) (hk : k < n) : g_Shape (swapFrom a i k s) n m := by
  refine ⟨by simp [swapFrom, hs.1], ?_⟩
  intro r hr
  have li := g_shape_row hs i hi
  have lk := g_shape_row hs k hk
  simp only [swapFrom] at hr
  rcases List.mem_or_eq_of_mem_set hr with hr | rfl
  · rcases List.mem_or_eq_of_mem_set hr with hr | rfl
    · exact hs.2 r hr
    · simp [li, lk]
  · simp [li, lk]

theorem g_get_swapFrom {a : Mat} {n m : Nat} (hs : g_Shape a n m) (i k s : Nat)
    (hi : i < n) (hk : k < n) (hik : i ≠ k) (r c : Nat) :
    (swapFrom a i k s).get r c =
      if r = i then (if s ≤ c then a.get k c else a.get i c)
      else if r = k then (if s ≤ c then a.get i c else a.get k c) else a.get r c := by
  have li := g_shape_row hs i hi
  have lk := g_shape_row hs k hk
  have hi' : i < a.length := by rw [hs.1]; exact hi
  have hk' : k < a.length := by rw [hs.1]; exact hk
  unfold Mat.get swapFrom
  simp only [List.getD_eq_getElem?_getD (l := (a.set i _).set k _), List.getElem?_set,
    List.length_set]
  by_cases hrk : r = k
  · subst hrk
    have : ¬ r = i := fun e => hik e.symm
    simp only [if_true, hk', this, if_false, Option.getD_some]
    exact g_getD_mix _ _ _ _ (by rw [li, lk])
  · have hkr : ¬ k = r := fun e => hrk e.symm
    simp only [hkr, if_false, hrk]
    by_cases hri : r = i
    · subst hri
      simp only [if_true, hi', Option.getD_some]
      exact g_getD_mix _ _ _ _ (by rw [li, lk])
    · have hir : ¬ i = r := fun e => hri e.symm
      simp only [hir, if_false, hri, List.getD_eq_getElem?_getD]

theorem g_findPivot_some {a : Mat} {s col k : Nat} (h : findPivot a s col = some k) :
    k < a.length ∧ s ≤ k ∧ a.get k col = true := by
  unfold findPivot at h
  rw [List.head?_filter] at h
  have h1 := List.find?_some h
  have h2 := List.mem_of_find?_eq_some h
  simp only [Bool.and_eq_true, decide_eq_true_eq] at h1
  exact ⟨by simpa using h2, h1.1, h1.2⟩

theorem g_findPivot_none {a : Mat} {s col : Nat} (h : findPivot a s col = none) (i : Nat)
    (hi : i < a.length) (hsi : s ≤ i) : a.get i col = false := by
  unfold findPivot at h
  rw [List.head?_filter, List.find?_eq_none] at h
  have := h i (by simpa using hi)
  simpa [hsi] using this

/-! ### kernels -/

/-- `x` is in the kernel of the `n × m` matrix `A` -/
def g_Ker (A : Nat → Nat → Bool) (n m : Nat) (x : Nat → Bool) : Prop :=
  ∀ i, i < n → g_xsum m (fun c => A i c && x c) = false

theorem g_rowsum_xor (A : Nat → Nat → Bool) (m i p : Nat) (x : Nat → Bool) :
    g_xsum m (fun c => xor (A i c) (A p c) && x c) =
      xor (g_xsum m (fun c => A i c && x c)) (g_xsum m (fun c => A p c && x c)) := by
  rw [← g_xsum_xor]
  apply g_xsum_congr
  intro c _
  cases A i c <;> cases A p c <;> cases x c <;> rfl

/-- adding the (unchanged) row `p` to some other rows does not change the kernel -/
theorem g_ker_elim {A A' : Nat → Nat → Bool} {n m p : Nat} (hp : p < n)
    (hpr : ∀ c, A' p c = A p c)
    (hrow : ∀ i, i < n → (∀ c, A' i c = A i c) ∨ (∀ c, A' i c = xor (A i c) (A p c)))
    (x : Nat → Bool) : g_Ker A' n m x ↔ g_Ker A n m x := by
  have key : ∀ i, i < n → g_xsum m (fun c => A p c && x c) = false →
      g_xsum m (fun c => A' i c && x c) = g_xsum m (fun c => A i c && x c) := by
    intro i hi h0
    rcases hrow i hi with h | h
    · simp only [h]
    · simp only [h]
      rw [g_rowsum_xor, h0]; simp
  constructor
  · intro hk i hi
    have h0 : g_xsum m (fun c => A p c && x c) = false := by
      have := hk p hp
      simpa only [hpr] using this
    rw [← key i hi h0]; exact hk i hi
  · intro hk i hi
    rw [key i hi (hk p hp)]; exact hk i hi

/-- exchanging two rows does not change the kernel -/
theorem g_ker_swap {A A' : Nat → Nat → Bool} {n m i k : Nat} (hi : i < n) (hk : k < n)
    (h1 : ∀ c, A' i c = A k c) (h2 : ∀ c, A' k c = A i c)
    (h3 : ∀ r, r ≠ i → r ≠ k → ∀ c, A' r c = A r c)
    (x : Nat → Bool) : g_Ker A' n m x ↔ g_Ker A n m x := by
  constructor
  · intro hker r hr
    by_cases hri : r = i
    · subst hri; have := hker k hk; simpa only [h2] using this
    · by_cases hrk : r = k
      · subst hrk; have := hker i hi; simpa only [h1] using this
      · have := hker r hr; simpa only [h3 r hri hrk] using this
  · intro hker r hr
    by_cases hri : r = i
    · subst hri; simp only [h1]; exact hker k hk
    · by_cases hrk : r = k
      · subst hrk; simp only [h2]; exact hker i hi
      · simp only [h3 r hri hrk]; exact hker r hr

/-! ### forward phase -/

/-- columns `< j` are unit upper triangular: one on the diagonal, zero below -/
def g_Fwd (A : Nat → Nat → Bool) (j : Nat) : Prop :=
  ∀ c, c < j → A c c = true ∧ ∀ i, c < i → A i c = false

theorem g_forward_swap {a : Mat} {n m j k : Nat} (hs : g_Shape a n m) (hj : j < n) (hk : k < n)
    (hjk : j ≤ k) (hpiv : a.get k j = true) (hf : g_Fwd a.get j) :
    let a1 := if k ≠ j then swapFrom a j k j else a
    g_Shape a1 n m ∧ g_Fwd a1.get j ∧ a1.get j j = true ∧
      ∀ x, g_Ker a1.get n m x ↔ g_Ker a.get n m x := by
  intro a1
  by_cases hkj : k = j
  · subst hkj
    have : a1 = a := by simp [a1]
    rw [this]
    exact ⟨hs, hf, hpiv, fun _ => Iff.rfl⟩
  · have e : a1 = swapFrom a j k j := by simp [a1, hkj]
    rw [e]
    have hne : j ≠ k := fun e => hkj e.symm
    have hg := g_get_swapFrom hs j k j hj hk hne
    have zj : ∀ c, c < j → a.get j c = false := fun c hc => (hf c hc).2 j hc
    have zk : ∀ c, c < j → a.get k c = false := fun c hc => (hf c hc).2 k (by omega)
    refine ⟨g_shape_swapFrom hs j k j hj hk, ?_, ?_, ?_⟩
    · intro c hc
      have hcj : c ≠ j := by omega
      have hck : c ≠ k := by omega
      refine ⟨by rw [hg]; simp [hcj, hck, (hf c hc).1], ?_⟩
      intro i hi
      rw [hg]
      have hnc : ¬ j ≤ c := by omega
      by_cases hij : i = j
      · simp [hij, hnc, zj c hc]
      · by_cases hik : i = k
        · simp [hik, hkj, hnc, zk c hc]
        · simp [hij, hik, (hf c hc).2 i hi]
    · rw [hg]; simp [hpiv]
    · apply g_ker_swap hj hk
      · intro c
        rw [hg]
        by_cases hc : j ≤ c
        · simp [hc]
        · simp [hc, zj c (by omega), zk c (by omega)]
      · intro c
        rw [hg]
        by_cases hc : j ≤ c
        · simp [hc, hkj]
        · simp [hc, hkj, zj c (by omega), zk c (by omega)]
      · intro r h1 h2 c
        rw [hg]; simp [h1, h2]

theorem g_forward_elim {a : Mat} {n m j : Nat} (hs : g_Shape a n m) (hj : j < n)
    (hpiv : a.get j j = true) (hf : g_Fwd a.get j) :
    let a2 := eliminate a j j j (fun t => j < t)
    g_Shape a2 n m ∧ g_Fwd a2.get (j + 1) ∧ ∀ x, g_Ker a2.get n m x ↔ g_Ker a.get n m x := by
  intro a2
  have hg := g_get_eliminate hs j j j (fun t => decide (j < t)) hj
  have zj : ∀ c, c < j → a.get j c = false := fun c hc => (hf c hc).2 j hc
  refine ⟨g_shape_eliminate hs j j j _ hj, ?_, ?_⟩
  · intro c hc
    constructor
    · show a2.get c c = true
      rw [show a2.get c c = _ from hg c c]
      have : ¬ j < c := by omega
      by_cases hcj : c = j
      · subst hcj; simp [hpiv]
      · simp [this, (hf c (by omega)).1]
    · intro i hi
      rw [show a2.get i c = _ from hg i c]
      by_cases hcj : c = j
      · subst hcj
        cases a.get i c <;> simp [hi, hpiv]
      · have hc' : c < j := by omega
        have hnc : ¬ j ≤ c := by omega
        simp [hnc, (hf c hc').2 i hi]
  · apply g_ker_elim hj
    · intro c
      rw [show a2.get j c = _ from hg j c]; simp
    · intro i _
      by_cases hcnd : (decide (j < i) && a.get i j) = true
      · right
        intro c
        rw [show a2.get i c = _ from hg i c]
        by_cases hc : j ≤ c
        · simp [hcnd, hc]
        · simp [hc, zj c (by omega)]
      · left
        intro c
        rw [show a2.get i c = _ from hg i c]
        simp [hcnd]

/-- a kernel vector when the forward phase finds no pivot in column `j` -/
theorem g_kernel_vector (A : Nat → Nat → Bool) (n m j : Nat) (hj : j < n) (hnm : n ≤ m)
    (hf : g_Fwd A j) (hz : ∀ i, j ≤ i → i < n → A i j = false) :
    ∃ x : Nat → Bool, x j = true ∧ (∀ i, j < i → x i = false) ∧ g_Ker A n m x := by
  suffices h : ∀ d, d ≤ j → ∃ x : Nat → Bool, x j = true ∧ (∀ i, j < i → x i = false) ∧
      ∀ i, j - d ≤ i → i < n → g_xsum m (fun c => A i c && x c) = false by
    obtain ⟨x, h1, h2, h3⟩ := h j (Nat.le_refl _)
    exact ⟨x, h1, h2, fun i hi => h3 i (by omega) hi⟩
  intro d
  induction d with
  | zero =>
    intro _
    refine ⟨fun c => decide (c = j), by simp, fun i hi => by simp; omega, ?_⟩
    intro i hi hin
    have : ∀ c, c < m → (A i c && decide (c = j)) = if c = j then A i j else false := by
      intro c _
      by_cases hc : c = j <;> simp [hc]
    rw [g_xsum_congr this, g_xsum_ite_eq]
    simp [show j < m by omega, hz i (by omega) hin]
  | succ d ih =>
    intro hd
    obtain ⟨x, h1, h2, h3⟩ := ih (by omega)
    let t := j - (d + 1)
    have htj : t < j := by omega
    let s := g_xsum m (fun c => A t c && x c)
    refine ⟨fun c => if c = t then xor (x t) s else x c, ?_, ?_, ?_⟩
    · have : j ≠ t := by omega
      simp [this, h1]
    · intro i hi
      have : i ≠ t := by omega
      simp [this, h2 i hi]
    · intro i hi hin
      rw [g_xsum_update m t (by omega) (A i) x s]
      by_cases hit : i = t
      · rw [hit, (hf t htj).1]
        show xor s (true && s) = false
        cases s <;> rfl
      · have hti : t < i := by omega
        rw [(hf t htj).2 i hti, h3 i (by omega) hin]
        rfl

theorem g_forward (n m : Nat) (hnm : n ≤ m) : ∀ (rem : Nat) (a : Mat), rem ≤ n → g_Shape a n m →
    g_Fwd a.get (n - rem) →
    (∀ a', gaussForward n rem a = some a' →
      g_Shape a' n m ∧ g_Fwd a'.get n ∧ ∀ x, g_Ker a'.get n m x ↔ g_Ker a.get n m x) ∧
    (gaussForward n rem a = none →
      ∃ x : Nat → Bool, (∃ k, k < n ∧ x k = true) ∧ (∀ i, n ≤ i → x i = false) ∧ g_Ker a.get n m x) := by
  intro rem
  induction rem with
  | zero =>
    intro a _ hs hf
    refine ⟨?_, by simp [gaussForward]⟩
    intro a' h
    simp only [gaussForward, Option.some.injEq] at h
    subst h
    exact ⟨hs, by simpa using hf, fun _ => Iff.rfl⟩
  | succ rem ih =>
    intro a hr hs hf
    have hj : n - (rem + 1) < n := by omega
    generalize hjd : n - (rem + 1) = j at hf hj
    have hjr : n - rem = j + 1 := by omega
    cases hp : findPivot a j j with
    | none =>
      refine ⟨by simp [gaussForward, hjd, hp], ?_⟩
      intro _
      have hz : ∀ i, j ≤ i → i < n → a.get i j = false :=
        fun i h1 h2 => g_findPivot_none hp i (by rw [hs.1]; exact h2) h1
      obtain ⟨x, h1, h2, h3⟩ := g_kernel_vector a.get n m j hj hnm hf hz
      exact ⟨x, ⟨j, hj, h1⟩, fun i hi => h2 i (by omega), h3⟩
    | some k =>
      obtain ⟨hk1, hk2, hk3⟩ := g_findPivot_some hp
      rw [hs.1] at hk1
      obtain ⟨s1, f1, p1, k1⟩ := g_forward_swap hs hj hk1 hk2 hk3 hf
      obtain ⟨s2, f2, k2⟩ := g_forward_elim s1 hj p1 f1
      have := ih _ (by omega) s2 (by rw [hjr]; exact f2)
      have e : gaussForward n (rem + 1) a =
          gaussForward n rem (eliminate (if k ≠ j then swapFrom a j k j else a) j j j (fun t => j < t)) := by
        simp only [gaussForward, hjd, hp]
      rw [e]
      refine ⟨?_, ?_⟩
      · intro a' ha'
        obtain ⟨s3, f3, k3⟩ := this.1 a' ha'
        exact ⟨s3, f3, fun x => (k3 x).trans ((k2 x).trans (k1 x))⟩
      · intro hn
        obtain ⟨x, h1, h2, h3⟩ := this.2 hn
        exact ⟨x, h1, h2, (k1 x).mp ((k2 x).mp h3)⟩

/-! ### backward phase -/

/-- unit upper triangular, and the columns `j..n` are already unit columns -/
def g_Bwd (A : Nat → Nat → Bool) (n j : Nat) : Prop :=
  g_Fwd A n ∧ ∀ c, j ≤ c → c < n → ∀ i, i < c → A i c = false

theorem g_backward_elim {a : Mat} {n m j : Nat} (hs : g_Shape a n m) (hj : j < n)
    (hb : g_Bwd a.get n (j + 1)) :
    let a2 := eliminate a j j j (fun t => t < j)
    g_Shape a2 n m ∧ g_Bwd a2.get n j ∧ ∀ x, g_Ker a2.get n m x ↔ g_Ker a.get n m x := by
  intro a2
  have hg := g_get_eliminate hs j j j (fun t => decide (t < j)) hj
  obtain ⟨hf, hu⟩ := hb
  have zj : ∀ c, c < j → a.get j c = false := fun c hc => (hf c (by omega)).2 j hc
  have hjj : a.get j j = true := (hf j hj).1
  refine ⟨g_shape_eliminate hs j j j _ hj, ⟨?_, ?_⟩, ?_⟩
  · intro c hc
    constructor
    · rw [show a2.get c c = _ from hg c c]
      by_cases hcj : c < j
      · have : ¬ j ≤ c := by omega
        simp [this, (hf c hc).1]
      · have : ¬ c < j := hcj
        simp [this, (hf c hc).1]
    · intro i hi
      rw [show a2.get i c = _ from hg i c]
      by_cases hij : i < j
      · have : ¬ j ≤ c := by omega
        simp [this, (hf c hc).2 i hi]
      · simp [hij, (hf c hc).2 i hi]
  · intro c hjc hcn i hic
    rw [show a2.get i c = _ from hg i c]
    by_cases hcj : c = j
    · subst hcj
      cases a.get i c <;> simp [hic, hjj]
    · have h1 : a.get i c = false := hu c (by omega) hcn i hic
      have h2 : a.get j c = false := hu c (by omega) hcn j (by omega)
      simp [h1, h2]
  · apply g_ker_elim hj
    · intro c
      rw [show a2.get j c = _ from hg j c]; simp
    · intro i _
      by_cases hcnd : (decide (i < j) && a.get i j) = true
      · right
        intro c
        rw [show a2.get i c = _ from hg i c]
        by_cases hc : j ≤ c
        · simp [hcnd, hc]
        · simp [hc, zj c (by omega)]
      · left
        intro c
        rw [show a2.get i c = _ from hg i c]
        simp [hcnd]

theorem g_backward (n m : Nat) : ∀ (j : Nat) (a : Mat), j ≤ n → g_Shape a n m → g_Bwd a.get n j →
    g_Shape (gaussBackward j a) n m ∧ g_Bwd (gaussBackward j a).get n 0 ∧
      ∀ x, g_Ker (gaussBackward j a).get n m x ↔ g_Ker a.get n m x := by
  intro j
  induction j with
  | zero =>
    intro a _ hs hb
    exact ⟨hs, hb, fun _ => Iff.rfl⟩
  | succ j ih =>
    intro a hj hs hb
    obtain ⟨s2, b2, k2⟩ := g_backward_elim hs (by omega) hb
    obtain ⟨s3, b3, k3⟩ := ih _ (by omega) s2 b2
    exact ⟨s3, b3, fun x => (k3 x).trans (k2 x)⟩

/-! ### `gaussReduction` -/

theorem g_gaussReduction_ok {a a' : Mat} {n m : Nat} (hs : g_Shape a n m)
    (h : gaussReduction a n m = some (some a')) :
    g_Shape a' n m ∧ (∀ i c, i < n → c < n → a'.get i c = decide (i = c)) ∧
      ∀ x, g_Ker a'.get n m x ↔ g_Ker a.get n m x := by
  unfold gaussReduction at h
  split at h
  · cases h
  · next hnm =>
    cases hf : gaussForward n n a with
    | none => simp [hf] at h
    | some a1 =>
      simp only [hf, Option.some.injEq] at h
      subst h
      obtain ⟨s1, f1, k1⟩ := (g_forward n m (by omega) n a (Nat.le_refl _) hs
        (by intro c hc; omega)).1 a1 hf
      obtain ⟨s2, b2, k2⟩ := g_backward n m n a1 (Nat.le_refl _) s1
        ⟨f1, fun c h1 h2 => by omega⟩
      refine ⟨s2, ?_, fun x => (k2 x).trans (k1 x)⟩
      intro i c hi hc
      rcases Nat.lt_trichotomy i c with h1 | h1 | h1
      · have : ¬ i = c := by omega
        simp [this, b2.2 c (by omega) hc i h1]
      · subst h1; simp [(b2.1 i hi).1]
      · have : ¬ i = c := by omega
        simp [this, (b2.1 c hc).2 i h1]

theorem g_gaussReduction_err {a : Mat} {n m : Nat} (hs : g_Shape a n m)
    (h : gaussReduction a n m = some none) :
    ∃ x : Nat → Bool, (∃ k, k < n ∧ x k = true) ∧ (∀ i, n ≤ i → x i = false) ∧ g_Ker a.get n m x := by
  unfold gaussReduction at h
  split at h
  · cases h
  · next hnm =>
    cases hf : gaussForward n n a with
    | none =>
      exact (g_forward n m (by omega) n a (Nat.le_refl _) hs (by intro c hc; omega)).2 hf
    | some a1 => simp [hf] at h

theorem g_gaussReduction_ne_none {a : Mat} {n m : Nat} (hnm : n ≤ m) : gaussReduction a n m ≠ none := by
  unfold gaussReduction
  have : ¬ n > m := by omega
  simp only [this, if_false]
  split <;> simp

end LdpcV.Lin
