/- Helper lemmas (hl_) for C19H: repeated calls on one live C decoder handle (`Capi.DecObj`) are independent of each
other.  Generic part: a decoder state of the right shape and a fresh one both fail the `assert_eq!` on the length of
the LLR vector, so `ar_call_independent` extends to LLR vectors of any length.  Handle part: the wrapper logic around
the threaded decoder object equals `decodeWith` around a fresh decoder; the history induction. -/
import LdpcV.Props.C10All
import LdpcV.Props.C08
import LdpcV.Props.C19
import LdpcV.Model.Capi
namespace LdpcV
open LdpcV.Blocks LdpcV.Capi

section Generic
variable {A : Arith}

/-- a state of the right shape panics on an LLR vector that does not have codeword length (`assert_eq!`) -/
theorem hl_wrong_len (h : SM) (st : DecSt A) (hs : DecSt.Shape h st) (llrs : List UInt64)
    (hlen : llrs.length ≠ h.ncols) (n : Nat) : st.decode h llrs n = none := by
  cases st with
  | flood s =>
    have hi : s.input.length = h.ncols := hs.input
    simp [DecSt.decode, Flood.decode, hi, hlen]
  | hl s =>
    have hi : s.llrs.length = h.ncols := hs.llrs
    simp [DecSt.decode, Hl.decode, hi, hlen]

/-- a call keeps the schedule of the decoder object -/
theorem hl_decode_sched (h : SM) (st : DecSt A) (llrs : List UInt64) (n : Nat) (v : Verdict) (st' : DecSt A)
    (hd : st.decode h llrs n = some (v, st')) : ar_sched st' = ar_sched st := by
  cases st with
  | flood s =>
    simp only [DecSt.decode] at hd
    cases hx : Flood.decode h s llrs n with
    | none => simp [hx] at hd
    | some p =>
      simp only [hx, Option.map_some, Option.some.injEq, Prod.mk.injEq] at hd
      rw [← hd.2]; rfl
  | hl s =>
    simp only [DecSt.decode] at hd
    cases hx : Hl.decode h s llrs n with
    | none => simp [hx] at hd
    | some p =>
      simp only [hx, Option.map_some, Option.some.injEq, Prod.mk.injEq] at hd
      rw [← hd.2]; rfl

/-- `ar_call_independent` without the hypothesis on the length of the LLR vector; shape AND schedule are kept -/
theorem hl_call_independent_anylen (h : SM) (hinv : h.Inv) (pb : PanicOrBehaved A h) (hk : LayerKeeps A) (s : Sched)
    (st : DecSt A) (hs : DecSt.Shape h st) (hsched : ar_sched st = s) (llrs : List UInt64) (n : Nat) :
    (st.decode h llrs n).map Prod.fst = ((DecSt.fresh A s h).decode h llrs n).map Prod.fst ∧
    (∀ v st', st.decode h llrs n = some (v, st') → DecSt.Shape h st' ∧ ar_sched st' = s) := by
  by_cases hlen : llrs.length = h.ncols
  · obtain ⟨h1, h2⟩ := ar_call_independent h hinv pb hk s st hs hsched llrs hlen n
    exact ⟨h1, fun v st' hd => ⟨h2 v st' hd, (hl_decode_sched h st llrs n v st' hd).trans hsched⟩⟩
  · rw [hl_wrong_len h st hs llrs hlen n, hl_wrong_len h _ (ar_fresh_shape s h) llrs hlen n]
    exact ⟨rfl, fun v st' hd => by cases hd⟩

end Generic

/-! ### the live handle -/

/-- the constructor only returns handles whose matrix is well formed -/
theorem hl_ctor_inv (alist impl punct : List Char) (hd : DecHandle)
    (hc : decoderCtor alist impl punct = some hd) : hd.h.Inv := by
  unfold decoderCtor at hc
  cases ha : Alist.fromAlist alist with
  | err => simp [ha] at hc
  | panic => simp [ha] at hc
  | ok h =>
    simp only [ha] at hc
    cases hp : Factory.parse (String.ofList impl) with
    | none => simp [hp] at hc
    | some i =>
      simp only [hp] at hc
      cases hq : patternArg punct with
      | none => simp [hq] at hc
      | some p =>
        simp only [hq, Option.map_some, Option.some.injEq] at hc
        subst hc
        exact (C08.parse_wellformed _ h ha).1

/-- the stateless wrapper around a freshly built decoder of the handle's implementation (= `C19H.freshCall`) -/
def hl_freshCall (hd : DecHandle) (outputLen : Nat) (llrs : List UInt64) (maxIter : Nat) : Res (Int × List Bool) :=
  decodeWith (fun l n => ((DecSt.fresh hd.impl.model hd.impl.sched hd.h).decode hd.h l n).map Prod.fst)
    hd.pattern outputLen llrs maxIter

/-- the result of a call with the new object dropped -/
def hl_result : Res ((Int × List Bool) × DecObj) → Res (Int × List Bool)
  | .ok (r, _) => .ok r
  | .err => .err
  | .panic => .panic

/-- the depunctured LLRs of a call -/
def hl_dep (pattern : Option (List Bool)) (llrs : List UInt64) : Res (List UInt64) :=
  match pattern with
  | some p => depuncture (0 : UInt64) p llrs
  | none => .ok llrs

/-- `DecObj.call` after the depuncturer -/
def hl_callDep (hd : DecHandle) (st : DecSt hd.impl.model) (outputLen maxIter : Nat) (dep : Res (List UInt64)) :
    Res ((Int × List Bool) × DecObj) :=
  match dep with
  | .ok l =>
    match st.decode hd.h l maxIter with
    | none => .panic
    | some (v, st') =>
      if outputLen ≤ v.word.length then
        .ok (((match v with | .success _ it => (it : Int) | .failure _ _ => -1), v.word.take outputLen), ⟨hd, st'⟩)
      else .panic
  | _ => .panic

/-- `decodeWith` after the depuncturer -/
def hl_withDep (dec : List UInt64 → Nat → Option Verdict) (outputLen maxIter : Nat) (dep : Res (List UInt64)) :
    Res (Int × List Bool) :=
  match dep with
  | .ok l =>
    match dec l maxIter with
    | none => .panic
    | some v =>
      if outputLen ≤ v.word.length then
        .ok ((match v with | .success _ it => (it : Int) | .failure _ _ => -1), v.word.take outputLen)
      else .panic
  | _ => .panic

theorem hl_call_eq (hd : DecHandle) (st : DecSt hd.impl.model) (outputLen : Nat) (llrs : List UInt64) (maxIter : Nat) :
    DecObj.call ⟨hd, st⟩ outputLen llrs maxIter = hl_callDep hd st outputLen maxIter (hl_dep hd.pattern llrs) := by
  simp only [DecObj.call, hl_callDep, hl_dep]
  cases hd.pattern with
  | none =>
    simp only
    cases DecSt.decode hd.h st llrs maxIter with
    | none => rfl
    | some q => obtain ⟨v, st'⟩ := q; cases v <;> rfl
  | some p =>
    simp only
    cases depuncture (0 : UInt64) p llrs with
    | err => rfl
    | panic => rfl
    | ok l =>
      simp only
      cases DecSt.decode hd.h st l maxIter with
      | none => rfl
      | some q => obtain ⟨v, st'⟩ := q; cases v <;> rfl

theorem hl_with_eq (dec : List UInt64 → Nat → Option Verdict) (pattern : Option (List Bool)) (outputLen : Nat)
    (llrs : List UInt64) (maxIter : Nat) :
    decodeWith dec pattern outputLen llrs maxIter = hl_withDep dec outputLen maxIter (hl_dep pattern llrs) := by
  simp only [decodeWith, hl_withDep, hl_dep]
  cases pattern with
  | none =>
    simp only
    cases dec llrs maxIter with
    | none => rfl
    | some v => cases v <;> rfl
  | some p =>
    simp only
    cases depuncture (0 : UInt64) p llrs with
    | err => rfl
    | panic => rfl
    | ok l =>
      simp only
      cases dec l maxIter with
      | none => rfl
      | some v => cases v <;> rfl

/-- one call on a live handle whose decoder object has the right shape and schedule -/
theorem hl_call (hd : DecHandle) (hinv : hd.h.Inv) (st : DecSt hd.impl.model) (hs : DecSt.Shape hd.h st)
    (hsched : ar_sched st = hd.impl.sched) (outputLen : Nat) (llrs : List UInt64) (maxIter : Nat) :
    hl_result (DecObj.call ⟨hd, st⟩ outputLen llrs maxIter) = hl_freshCall hd outputLen llrs maxIter ∧
    (∀ r o', DecObj.call ⟨hd, st⟩ outputLen llrs maxIter = .ok (r, o') →
      ∃ st', o' = ⟨hd, st'⟩ ∧ DecSt.Shape hd.h st' ∧ ar_sched st' = hd.impl.sched) := by
  rw [hl_call_eq, hl_freshCall, hl_with_eq]
  generalize hl_dep hd.pattern llrs = dep
  cases dep with
  | err => exact ⟨rfl, fun r o' hx => by cases hx⟩
  | panic => exact ⟨rfl, fun r o' hx => by cases hx⟩
  | ok l =>
    obtain ⟨h1, h2⟩ := hl_call_independent_anylen hd.h hinv (ar_all_panicOrBehaved hd.impl hd.h)
      (ar_all_layerKeeps hd.impl) hd.impl.sched st hs hsched l maxIter
    simp only [hl_callDep, hl_withDep]
    rw [← h1]
    cases hx : st.decode hd.h l maxIter with
    | none => exact ⟨rfl, fun r o' hy => by cases hy⟩
    | some p =>
      obtain ⟨v, st'⟩ := p
      simp only [Option.map_some]
      by_cases hlen : outputLen ≤ v.word.length
      · simp only [hlen, if_true]
        refine ⟨rfl, fun r o' hy => ?_⟩
        injection hy with hy
        injection hy with hy1 hy2
        exact ⟨st', hy2.symm, h2 v st' hx⟩
      · simp only [hlen, if_false]
        exact ⟨rfl, fun r o' hy => by cases hy⟩

/-- the schedule written as the `match` of the statements -/
theorem hl_sched_match {A : Arith} (st : DecSt A) :
    (match st with | .flood _ => Sched.flooding | .hl _ => Sched.layered) = ar_sched st := by
  cases st <;> rfl

theorem hl_result_match (x : Res ((Int × List Bool) × DecObj)) :
    (match x with | .ok (r, _) => Res.ok r | .err => .err | .panic => .panic) = hl_result x := by
  cases x with
  | ok p => cases p; rfl
  | err => rfl
  | panic => rfl

/-- whole histories on a live handle from any state of the right shape and schedule -/
theorem hl_calls (hd : DecHandle) (hinv : hd.h.Inv) (cs : List (Nat × List UInt64 × Nat))
    (st : DecSt hd.impl.model) (hs : DecSt.Shape hd.h st) (hsched : ar_sched st = hd.impl.sched) :
    DecObj.calls ⟨hd, st⟩ cs =
      cs.mapM (fun c => match hl_freshCall hd c.1 c.2.1 c.2.2 with | .ok r => some r | _ => none) := by
  induction cs generalizing st with
  | nil => rfl
  | cons c rest ih =>
    obtain ⟨outLen, llrs, maxIter⟩ := c
    obtain ⟨h1, h2⟩ := hl_call hd hinv st hs hsched outLen llrs maxIter
    rw [List.mapM_cons]
    simp only [DecObj.calls]
    rw [← h1]
    cases hx : DecObj.call ⟨hd, st⟩ outLen llrs maxIter with
    | err => rfl
    | panic => rfl
    | ok p =>
      obtain ⟨r, o'⟩ := p
      obtain ⟨st', ho, hs', hsched'⟩ := h2 r o' hx
      subst ho
      simp only [hl_result]
      rw [ih st' hs' hsched']
      cases List.mapM (fun c : Nat × List UInt64 × Nat =>
        match hl_freshCall hd c.1 c.2.1 c.2.2 with | .ok r => some r | _ => none) rest <;> rfl

end LdpcV
