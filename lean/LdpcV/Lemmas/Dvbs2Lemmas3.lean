/- Helper lemmas for C06 (part 3): the one-pass row computation `rowsFast` gives the rows of the model. -/
import LdpcV.Lemmas.Dvbs2Lemmas2
namespace LdpcV.Dvbs2
open LdpcV

theorem inner_getElem? (c : Nat) (l : List Nat) (arr : Array (List Nat)) (i : Nat) (hn : l.Nodup) :
    (l.foldl (fun rows r => rows.modify r (fun l => c :: l)) arr)[i]? =
      if i ∈ l then arr[i]?.map (fun l => c :: l) else arr[i]? := by
  induction l generalizing arr with
  | nil => simp
  | cons r t ih =>
    rw [List.nodup_cons] at hn
    rw [List.foldl_cons, ih _ hn.2, Array.getElem?_modify]
    by_cases hir : r = i
    · subst hir; simp [hn.1]
    · have : ¬ i = r := fun h => hir h.symm
      simp [hir, this]

theorem outer_getElem? (L : List (List Nat × Nat)) (arr : Array (List Nat)) (i : Nat)
    (hn : ∀ p ∈ L, p.1.Nodup) :
    (L.foldl (fun (rows : Array (List Nat)) p =>
        p.1.foldl (fun rows r => rows.modify r (fun l => p.2 :: l)) rows) arr)[i]? =
      arr[i]?.map (fun l => ((L.filter (fun p => p.1.contains i)).map (·.2)).reverse ++ l) := by
  induction L generalizing arr with
  | nil => simp
  | cons p T ih =>
    rw [List.foldl_cons, ih _ (fun p hp => hn p (by simp [hp])), inner_getElem? _ _ _ _ (hn p (by simp))]
    by_cases hi : i ∈ p.1
    · simp [hi, Option.map_map, Function.comp_def]
    · simp [hi]

theorem rowsFast_getElem? (m : Nat) (cs : List (List Nat)) (hn : ∀ c ∈ cs, c.Nodup) (i : Nat) :
    (rowsFast m cs)[i]? =
      if i < m then some ((cs.zipIdx.filter (fun p => p.1.contains i)).map (·.2)) else none := by
  unfold rowsFast
  rw [Array.getElem?_map, outer_getElem? _ _ _ (fun p hp => hn p.1 (List.fst_mem_of_mem_zipIdx hp)),
    Array.getElem?_replicate]
  split <;> simp

theorem zipIdx_map_range (k : Nat) (g : Nat → List Nat) :
    ((List.range k).map g).zipIdx = (List.range k).map (fun j => (g j, j)) := by
  apply List.ext_getElem?
  intro i
  rw [List.getElem?_zipIdx]
  by_cases hi : i < k <;> simp [hi]

theorem cols_take (n m q : Nat) (addr : List (List Nat)) :
    (cols n m q addr).take (n - m) = (List.range (n - m)).map (infoCol m q addr) := by
  unfold cols
  rw [← List.map_take, List.take_range, Nat.min_eq_left (Nat.sub_le n m)]
  apply List.map_congr_left
  intro j hj
  simp only [List.mem_range] at hj
  simp [hj]

theorem rowsFastModel_eq (n m q : Nat) (addr : List (List Nat)) :
    rowsFastModel n m q addr = rows n m q addr := by
  unfold rowsFastModel rows
  apply List.ext_getElem?
  intro i
  rw [List.getElem?_map, List.getElem?_zipIdx, Array.getElem?_toList, cols_take,
    rowsFast_getElem? _ _ (by
      intro c hc
      simp only [List.mem_map] at hc
      obtain ⟨j, _, rfl⟩ := hc
      exact infoCol_nodup ..),
    zipIdx_map_range, List.filter_map, List.map_map]
  by_cases hi : i < m
  · simp [hi, row, Function.comp_def]
  · simp [hi]

end LdpcV.Dvbs2
