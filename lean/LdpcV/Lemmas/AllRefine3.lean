/- Helper lemmas (AllRefine3) for C10All: the layered primitive of every arithmetic model keeps the destinations of the
check's messages and the number of variables (where it does not panic) — what `Hl.decode_shape` needs. -/
import LdpcV.Lemmas.AllRefine1
namespace LdpcV

theorem ar_mapM_length {α β : Type} (f : α → Option β) (l : List α) (out : List β) (h : l.mapM f = some out) :
    out.length = l.length := by
  have := ar_mapM_keys f (fun _ => ()) (fun _ => ()) (fun _ _ _ => rfl) l out h
  simpa using congrArg List.length this

theorem ar_foldl_set_length {α γ : Type} (f : γ → Nat) (g : γ → α) (l : List γ) (vars : List α) :
    (l.foldl (fun vs p => vs.set (f p) (g p)) vars).length = vars.length := by
  induction l generalizing vars with
  | nil => rfl
  | cons a l ih => rw [List.foldl_cons, ih, List.length_set]

/-! ## float -/

theorem ar_layerBy_shape {α : Type} (S : Sc α) (rule : List (Nat × α) → Option (List (Nat × α)))
    (msgs : List (Nat × α)) (vars : List α) (msgs' : List (Nat × α)) (vars' : List α)
    (h : ArithF.layerBy S rule msgs vars = some (msgs', vars')) :
    vars'.length = vars.length ∧ msgs'.map Prod.fst = msgs.map Prod.fst := by
  unfold ArithF.layerBy at h
  simp only [Option.bind_eq_bind, Option.bind_eq_some_iff, Option.pure_def, Option.some.injEq, Prod.mk.injEq] at h
  obtain ⟨ext, hext, emitted, _, news, hnews, rfl, rfl⟩ := h
  refine ⟨ar_foldl_set_length _ _ _ _, ?_⟩
  have h1 : ext.map Prod.fst = msgs.map Prod.fst := by
    refine ar_mapM_keys _ Prod.fst Prod.fst ?_ msgs ext hext
    intro x y hxy
    simp only [Option.map_eq_some_iff] at hxy
    obtain ⟨_, _, rfl⟩ := hxy
    rfl
  have h2 : news.map Prod.fst = ext.map Prod.fst := by
    refine ar_mapM_keys _ Prod.fst Prod.fst ?_ ext news hnews
    intro x y hxy
    simp only [Option.map_eq_some_iff] at hxy
    obtain ⟨_, _, rfl⟩ := hxy
    rfl
  rw [h2, h1]

/-! ## 8-bit -/

theorem ar_writeBack_length (ms : List (Nat × Int)) : ∀ (ns vars vars' : List Int),
    I8.writeBack ms ns vars = some vars' → vars'.length = vars.length := by
  induction ms with
  | nil =>
    intro ns vars vars' h
    simp [I8.writeBack] at h
    rw [h]
  | cons m ms ih =>
    intro ns vars vars' h
    cases ns with
    | nil => simp [I8.writeBack] at h
    | cons n ns =>
      simp only [I8.writeBack, Option.bind_eq_bind, Option.bind_eq_some_iff] at h
      obtain ⟨q, _, d, _, q', _, h⟩ := h
      rw [ih ns _ vars' h, List.length_set]

theorem ar_layerApprox_shape (cfg : I8.Cfg) (msgs : List (Nat × Int)) (vars : List Int) (msgs' : List (Nat × Int))
    (vars' : List Int) (h : I8.layerApprox cfg msgs vars = some (msgs', vars')) :
    vars'.length = vars.length ∧ msgs'.map Prod.fst = msgs.map Prod.fst := by
  unfold I8.layerApprox at h
  simp only [Option.bind_eq_bind, Option.bind_eq_some_iff, Option.pure_def, Option.some.injEq, Prod.mk.injEq] at h
  obtain ⟨news, hnews, vs, hwb, rfl, rfl⟩ := h
  refine ⟨ar_writeBack_length msgs news vars _ hwb, ?_⟩
  have hl := ar_mapM_length _ msgs news hnews
  simp only [List.map_map, Function.comp_def]
  rw [show (fun (x : (Nat × Int) × Int) => x.1.1) = Prod.fst ∘ Prod.fst from rfl, ← List.map_map,
    List.map_fst_zip (by omega)]

theorem ar_aminGo_shape (argmin : Nat) (sign : Bool) (minRcv dhl2 : Int) (ms : List (Nat × Int)) :
    ∀ (j : Nat) (vars : List Int) (ms' : List (Nat × Int)) (vars' : List Int),
    I8.layerAmin.go argmin sign minRcv dhl2 ms j vars = some (ms', vars') →
    vars'.length = vars.length ∧ ms'.map Prod.fst = ms.map Prod.fst := by
  induction ms with
  | nil =>
    intro j vars ms' vars' h
    simp [I8.layerAmin.go] at h
    obtain ⟨rfl, rfl⟩ := h
    exact ⟨rfl, rfl⟩
  | cons m ms ih =>
    intro j vars ms' vars' h
    simp only [I8.layerAmin.go, Option.bind_eq_bind, Option.bind_eq_some_iff, Option.pure_def, Option.some.injEq,
      Prod.mk.injEq] at h
    obtain ⟨q, _, x, _, q', _, ⟨rest, vs⟩, hgo, rfl, rfl⟩ := h
    obtain ⟨h1, h2⟩ := ih _ _ _ _ hgo
    refine ⟨by rw [h1, List.length_set], ?_⟩
    simp [h2]

theorem ar_layerAmin_shape (cfg : I8.Cfg) (msgs : List (Nat × Int)) (vars : List Int) (msgs' : List (Nat × Int))
    (vars' : List Int) (h : I8.layerAmin cfg msgs vars = some (msgs', vars')) :
    vars'.length = vars.length ∧ msgs'.map Prod.fst = msgs.map Prod.fst := by
  unfold I8.layerAmin at h
  simp only [Option.bind_eq_bind, Option.bind_eq_some_iff] at h
  obtain ⟨ext, _, ⟨j, w⟩, _, r, _, delta, _, vmin, _, delta2, _, hgo⟩ := h
  exact ar_aminGo_shape _ _ _ _ msgs 0 vars msgs' vars' hgo

theorem ar_i8_layer_shape (amin : Bool) (cfg : I8.Cfg) (msgs : List (Nat × (I8.mkArith amin cfg).CheckMsg))
    (vars : List (I8.mkArith amin cfg).VarLlr) (msgs' : List (Nat × (I8.mkArith amin cfg).CheckMsg))
    (vars' : List (I8.mkArith amin cfg).VarLlr)
    (h : (I8.mkArith amin cfg).layerRule msgs vars = some (msgs', vars')) :
    vars'.length = vars.length ∧ msgs'.map Prod.fst = msgs.map Prod.fst := by
  cases amin with
  | true => exact ar_layerAmin_shape cfg msgs vars msgs' vars' h
  | false => exact ar_layerApprox_shape cfg msgs vars msgs' vars' h

/-! ## all 36 names -/

theorem ar_all_layer_shape (i : Factory.Impl) (msgs : List (Nat × i.model.CheckMsg)) (vars : List i.model.VarLlr)
    (msgs' : List (Nat × i.model.CheckMsg)) (vars' : List i.model.VarLlr)
    (h : i.model.layerRule msgs vars = some (msgs', vars')) :
    vars'.length = vars.length ∧ msgs'.map Prod.fst = msgs.map Prod.fst := by
  obtain ⟨fam, num, sched⟩ := i
  cases num with
  | f64 => exact ar_layerBy_shape _ _ msgs vars msgs' vars' h
  | f32 => exact ar_layerBy_shape _ _ msgs vars msgs' vars' h
  | i8 cfg => exact ar_i8_layer_shape _ cfg msgs vars msgs' vars' h

end LdpcV
