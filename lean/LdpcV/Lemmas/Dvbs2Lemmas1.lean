import LdpcV.Spec.CodesSpec
import LdpcV.Props.C02
import LdpcV.Lemmas.SparseLemmas
namespace LdpcV.Dvbs2
open LdpcV

theorem mem_insertDedup (l : List Nat) (x y : Nat) : y ∈ insertDedup l x ↔ y ∈ l ∨ y = x := by
  unfold insertDedup; split <;> simp_all

theorem mem_foldl_insertDedup (l acc : List Nat) (y : Nat) :
    y ∈ l.foldl insertDedup acc ↔ y ∈ acc ∨ y ∈ l := by
  induction l generalizing acc with
  | nil => simp
  | cons a t ih => simp [ih, mem_insertDedup]; grind

theorem nodup_insertDedup (l : List Nat) (x : Nat) (h : l.Nodup) : (insertDedup l x).Nodup := by
  unfold insertDedup; split
  · exact h
  · rw [List.nodup_append]; simp_all; grind

theorem nodup_foldl_insertDedup (l acc : List Nat) (h : acc.Nodup) : (l.foldl insertDedup acc).Nodup := by
  induction l generalizing acc with
  | nil => simpa
  | cons a t ih => exact ih _ (nodup_insertDedup _ _ h)

theorem foldl_insertDedup_of_nodup (l acc : List Nat) (h : (acc ++ l).Nodup) :
    l.foldl insertDedup acc = acc ++ l := by
  induction l generalizing acc with
  | nil => simp
  | cons a t ih =>
    have ha : a ∉ acc := by
      rw [List.nodup_append] at h; intro hm; exact h.2.2 a hm a (by simp) rfl
    have : insertDedup acc a = acc ++ [a] := by simp [insertDedup, ha]
    rw [List.foldl_cons, this, ih] <;> simp_all

theorem add_mod_inj {m c x y : Nat} (hx : x < m) (hy : y < m) (h : (x + c) % m = (y + c) % m) : x = y := by
  have h1 := Nat.sub_mod_eq_zero_of_mod_eq h
  have h2 := Nat.sub_mod_eq_zero_of_mod_eq h.symm
  have e1 : x + c - (y + c) = x - y := by omega
  have e2 : y + c - (x + c) = y - x := by omega
  rw [e1, Nat.mod_eq_of_lt (by omega)] at h1
  rw [e2, Nat.mod_eq_of_lt (by omega)] at h2
  omega


/-! ### unpacking `WellFormed` -/

structure WF (n m q : Nat) (addr : List (List Nat)) : Prop where
  hm : m = 360 * q
  hk : n - m = 360 * addr.length
  hmn : m < n
  hq : 0 < q
  hlt : ∀ row ∈ addr, ∀ x ∈ row, x < m
  hnd : ∀ row ∈ addr, row.Nodup

theorem wf_of {n m q : Nat} {addr : List (List Nat)} (hw : WellFormed n m q addr = true) : WF n m q addr := by
  simp only [WellFormed, Bool.and_eq_true, beq_iff_eq, decide_eq_true_eq, List.all_eq_true] at hw
  obtain ⟨⟨⟨⟨h1, h2⟩, h3⟩, h4⟩, h5⟩ := hw
  exact ⟨h1, h2, h3, h4, fun row hr x hx => (h5 row hr).1 x hx, fun row hr => (h5 row hr).2⟩

theorem WF.mpos {n m q : Nat} {addr : List (List Nat)} (w : WF n m q addr) : 0 < m := by
  have := w.hm; have := w.hq; omega

theorem getD_addr_lt {n m q : Nat} {addr : List (List Nat)} (w : WF n m q addr) (g : Nat) :
    ∀ x ∈ addr.getD g [], x < m := by
  intro x hx
  by_cases hg : g < addr.length
  · simp [List.getD_eq_getElem?_getD, hg] at hx
    exact w.hlt _ (List.getElem_mem hg) x hx
  · simp [List.getD_eq_getElem?_getD, Nat.not_lt.mp hg] at hx

theorem getD_addr_nodup {n m q : Nat} {addr : List (List Nat)} (w : WF n m q addr) (g : Nat) :
    (addr.getD g []).Nodup := by
  by_cases hg : g < addr.length
  · simp [List.getD_eq_getElem?_getD, hg]
    exact w.hnd _ (List.getElem_mem hg)
  · simp [List.getD_eq_getElem?_getD, Nat.not_lt.mp hg]

theorem nodup_map_shift {m : Nat} (c : Nat) (l : List Nat) (hl : ∀ x ∈ l, x < m) (hn : l.Nodup) :
    (l.map (fun x => (x + c) % m)).Nodup := by
  induction l with
  | nil => simp
  | cons a t ih =>
    simp only [List.map_cons, List.nodup_cons, List.mem_map, not_exists, not_and] at hn ⊢
    refine ⟨fun x hx he => ?_, ih (fun x hx => hl x (by simp [hx])) hn.2⟩
    have := add_mod_inj (hl x (by simp [hx])) (hl a (by simp)) he
    subst this; exact hn.1 hx

/-- under `WellFormed` no shifted address is dropped -/
theorem infoCol_eq {n m q : Nat} {addr : List (List Nat)} (w : WF n m q addr) (j : Nat) :
    infoCol m q addr j = (addr.getD (j / 360) []).map (fun x => (x + (j % 360) * q) % m) := by
  unfold infoCol
  rw [foldl_insertDedup_of_nodup _ _ (by simpa using nodup_map_shift _ _ (getD_addr_lt w _) (getD_addr_nodup w _))]
  simp

theorem infoCol_nodup (m q : Nat) (addr : List (List Nat)) (j : Nat) : (infoCol m q addr j).Nodup :=
  nodup_foldl_insertDedup _ _ (by simp)

theorem infoCol_lt {m : Nat} (hm : 0 < m) (q : Nat) (addr : List (List Nat)) (j r : Nat)
    (hr : r ∈ infoCol m q addr j) : r < m := by
  unfold infoCol at hr
  rw [mem_foldl_insertDedup] at hr
  simp at hr
  obtain ⟨x, _, rfl⟩ := hr
  exact Nat.mod_lt _ hm

/-! ### the matrix -/

theorem rows_getD (n m q : Nat) (addr : List (List Nat)) (r : Nat) :
    (rows n m q addr).getD r [] = if r < m then row n m q addr r else [] := by
  unfold rows
  by_cases hr : r < m <;> simp [List.getD_eq_getElem?_getD, hr]

theorem cols_getD (n m q : Nat) (addr : List (List Nat)) (c : Nat) :
    (cols n m q addr).getD c [] =
      if c < n then (if c < n - m then infoCol m q addr c else parityCol m (c - (n - m))) else [] := by
  unfold cols
  by_cases hc : c < n <;> simp [List.getD_eq_getElem?_getD, hc]

theorem h_row (n m q : Nat) (addr : List (List Nat)) (r : Nat) :
    (h n m q addr).row r = if r < m then row n m q addr r else [] := rows_getD ..

theorem h_col (n m q : Nat) (addr : List (List Nat)) (c : Nat) :
    (h n m q addr).col c =
      if c < n then (if c < n - m then infoCol m q addr c else parityCol m (c - (n - m))) else [] := cols_getD ..

theorem h_dims (n m q : Nat) (addr : List (List Nat)) :
    (h n m q addr).nrows = m ∧ (h n m q addr).ncols = n := by
  simp [h, SM.nrows, SM.ncols, rows, cols]

theorem mem_row (n m q : Nat) (addr : List (List Nat)) (r c : Nat) :
    c ∈ row n m q addr r ↔ (c < n - m ∧ r ∈ infoCol m q addr c) ∨
      (if r = 0 then c = n - m else (c = r + (n - m) ∨ c = r + (n - m) - 1)) := by
  unfold row
  by_cases hr : r = 0 <;> simp [hr]

theorem mem_parityCol (m i r : Nat) : r ∈ parityCol m i ↔ r = i ∨ (r = i + 1 ∧ i + 1 < m) := by
  unfold parityCol; split <;> simp_all

theorem h_inv {n m q : Nat} {addr : List (List Nat)} (w : WF n m q addr) : (h n m q addr).Inv := by
  have hm := w.mpos
  have hmn := w.hmn
  refine ⟨?_, ?_, ?_, ?_⟩
  · intro r c hc
    rw [h_row] at hc
    rw [(h_dims ..).1, (h_dims ..).2, h_col]
    split at hc
    · rename_i hr
      rw [mem_row] at hc
      rcases hc with ⟨h1, h2⟩ | hc
      · refine ⟨hr, by omega, ?_⟩
        simp [show c < n by omega, h1, h2]
      · split at hc
        · subst_vars
          refine ⟨hr, by omega, ?_⟩
          simp [show n - m < n by omega, mem_parityCol]
        · rcases hc with rfl | rfl
          · refine ⟨hr, by omega, ?_⟩
            rw [if_pos (by omega), if_neg (by omega), mem_parityCol]; left; omega
          · refine ⟨hr, by omega, ?_⟩
            rw [if_pos (by omega), if_neg (by omega), mem_parityCol]; right; omega
    · simp at hc
  · intro r c hr
    rw [h_col] at hr
    rw [(h_dims ..).1, (h_dims ..).2, h_row]
    split at hr
    · rename_i hc
      split at hr
      · rename_i hc2
        have hrm := infoCol_lt hm _ _ _ _ hr
        refine ⟨hrm, hc, ?_⟩
        rw [if_pos hrm, mem_row]; exact Or.inl ⟨hc2, hr⟩
      · rw [mem_parityCol] at hr
        have hrm : r < m := by omega
        refine ⟨hrm, hc, ?_⟩
        rw [if_pos hrm, mem_row]; right
        split <;> omega
    · simp at hr
  · intro r
    rw [h_row]
    split
    · unfold row
      rw [List.nodup_append]
      refine ⟨List.Nodup.sublist List.filter_sublist List.nodup_range, ?_, ?_⟩
      · split <;> simp; omega
      · intro a ha b hb
        simp at ha
        split at hb <;> simp at hb <;> omega
    · simp
  · intro c
    rw [h_col]
    split
    · split
      · exact infoCol_nodup ..
      · unfold parityCol; split <;> simp
    · simp

theorem h_mem_parity (n m q : Nat) (addr : List (List Nat)) (i r : Nat) (hr : r < m) :
    (h n m q addr).mem r (n - m + i) = true ↔ (r = i ∨ r = i + 1) := by
  rw [SM.mem_iff, h_row, if_pos hr, mem_row]
  split <;> omega


theorem h_quasi_cyclic {n m q : Nat} {addr : List (List Nat)} (w : WF n m q addr)
    (j : Nat) (hj : j < n - m) (hg : j % 360 ≠ 0) :
    (h n m q addr).col j = ((h n m q addr).col (j - 1)).map (fun r => (r + q) % m) := by
  rw [h_col, h_col, if_pos (by omega), if_pos hj, if_pos (by omega), if_pos (by omega),
    infoCol_eq w, infoCol_eq w, List.map_map]
  have e1 : (j - 1) / 360 = j / 360 := by omega
  obtain ⟨t, ht⟩ : ∃ t, j % 360 = t + 1 := ⟨j % 360 - 1, by omega⟩
  have e2 : (j - 1) % 360 = t := by omega
  rw [e1, e2, ht]
  apply List.map_congr_left
  intro x _
  simp only [Function.comp_apply, Nat.mod_add_mod, Nat.succ_mul, Nat.add_assoc]

theorem h_col_degree {n m q : Nat} {addr : List (List Nat)} (w : WF n m q addr)
    (j : Nat) (hj : j < n - m) :
    ((h n m q addr).col j).length = (addr.getD (j / 360) []).length := by
  rw [h_col, if_pos (by omega), if_pos hj, infoCol_eq w, List.length_map]

theorem h_encoder_staircase {n m q : Nat} {addr : List (List Nat)} (w : WF n m q addr) :
    ∃ g, Lin.fromH (h n m q addr) = .ok (.staircase g) ∧
      ∀ msg : List Bool, msg.length = n - m →
        ∃ cw, Lin.encode (.staircase g) msg = some cw ∧ cw.take (n - m) = msg ∧ syndromeOK (h n m q addr) cw = true := by
  have hinv := h_inv w
  have hr : 1 ≤ (h n m q addr).nrows := by rw [(h_dims ..).1]; exact w.mpos
  have hn : (h n m q addr).nrows ≤ (h n m q addr).ncols := by
    rw [(h_dims ..).1, (h_dims ..).2]; exact Nat.le_of_lt w.hmn
  obtain ⟨b, hb, hiff⟩ := C02.staircase_iff _ hinv hr hn
  have hbt : b = true := by
    rw [hiff, (h_dims ..).1, (h_dims ..).2]
    intro i j hi _
    rw [h_mem_parity n m q addr j i hi]; omega
  subst hbt
  have hnp := C02.fromH_no_panic _ hinv hr hn
  have hok : ∃ g, Lin.fromH (h n m q addr) = .ok (.staircase g) := by
    unfold Lin.fromH at hnp ⊢
    simp only [hb] at hnp ⊢
    split at hnp
    · rename_i g hg; exact ⟨g, by simp⟩
    · exact absurd rfl hnp
  obtain ⟨g, hg⟩ := hok
  refine ⟨g, hg, fun msg hmsg => ?_⟩
  obtain ⟨cw, h1, _, h3, h4⟩ := C02.encode_valid _ hinv hr hn _ hg msg (by rw [(h_dims ..).1, (h_dims ..).2]; exact hmsg)
  rw [(h_dims ..).1, (h_dims ..).2] at h3
  exact ⟨cw, h1, h3, h4⟩

end LdpcV.Dvbs2
