/-
CcsdsEnc2 — helper lemmas for LdpcV/Props/C07Enc.lean, part 2: `colsOfRows n rows` is the transposed adjacency
of `rows` (when the rows have no duplicates and every entry is below `n`), so `smOf n rows` satisfies the mirror
invariant `SM.Inv`.
-/
import LdpcV.Props.C07Girth
namespace LdpcV.CcsdsEnc
open LdpcV LdpcV.Ccsds

/-- the rows (numbered from `k`) that contain `j`, last row first -/
def colSpec : Nat → List (List Nat) → Nat → List Nat
  | _, [], _ => []
  | k, row :: rest, j => colSpec (k + 1) rest j ++ (if j ∈ row then [k] else [])

theorem mem_colSpec (rows : List (List Nat)) (j x : Nat) : ∀ k,
    x ∈ colSpec k rows j ↔ k ≤ x ∧ x - k < rows.length ∧ j ∈ rows.getD (x - k) [] := by
  induction rows with
  | nil => intro k; simp [colSpec]
  | cons row rest ih =>
    intro k
    simp only [colSpec, List.mem_append, ih, List.length_cons]
    constructor
    · rintro (⟨h1, h2, h3⟩ | h)
      · refine ⟨by omega, by omega, ?_⟩
        have : x - k = (x - (k + 1)) + 1 := by omega
        rw [this, List.getD_cons_succ]; exact h3
      · split at h
        · next hj =>
          have : x = k := by simpa using h
          subst this
          simpa using hj
        · simp at h
    · rintro ⟨h1, h2, h3⟩
      by_cases hx : x = k
      · right
        subst hx
        simp at h3
        simp [h3]
      · left
        refine ⟨by omega, by omega, ?_⟩
        have : x - k = (x - (k + 1)) + 1 := by omega
        rw [this, List.getD_cons_succ] at h3; exact h3

theorem nodup_colSpec (rows : List (List Nat)) (j : Nat) : ∀ k, (colSpec k rows j).Nodup := by
  induction rows with
  | nil => intro k; simp [colSpec]
  | cons row rest ih =>
    intro k
    simp only [colSpec]
    rw [List.nodup_append]
    refine ⟨ih _, by split <;> simp, ?_⟩
    intro a ha b hb
    rw [mem_colSpec] at ha
    split at hb
    · have : b = k := by simpa using hb
      omega
    · simp at hb

/-- one row: `r` is pushed on the column lists of the entries of `row` -/
theorem inner_getElem? (r : Nat) (row : List Nat) (hnd : row.Nodup) (j : Nat) : ∀ cols : Array (List Nat),
    (row.foldl (fun (cols : Array (List Nat)) c => cols.modify c (fun l => r :: l)) cols)[j]? =
      if j ∈ row then cols[j]?.map (fun l => r :: l) else cols[j]? := by
  induction row with
  | nil => intro cols; simp
  | cons c cs ih =>
    intro cols
    have hnd' := List.nodup_cons.mp hnd
    rw [List.foldl_cons, ih hnd'.2, Array.getElem?_modify]
    by_cases hjc : c = j
    · subst hjc
      simp [hnd'.1]
    · have : ¬ j = c := fun e => hjc e.symm
      simp [hjc, this]

theorem inner_size (r : Nat) (row : List Nat) : ∀ cols : Array (List Nat),
    (row.foldl (fun (cols : Array (List Nat)) c => cols.modify c (fun l => r :: l)) cols).size = cols.size := by
  induction row with
  | nil => intro cols; rfl
  | cons c cs ih => intro cols; rw [List.foldl_cons, ih, Array.size_modify]

theorem outer_getElem? (rows : List (List Nat)) (hnd : ∀ row ∈ rows, row.Nodup) (j : Nat) :
    ∀ (k : Nat) (acc : Array (List Nat)),
    ((rows.zipIdx k).foldl (fun (cols : Array (List Nat)) p =>
        p.1.foldl (fun cols c => cols.modify c (fun l => p.2 :: l)) cols) acc)[j]? =
      acc[j]?.map (fun l => colSpec k rows j ++ l) := by
  induction rows with
  | nil => intro k acc; simp [colSpec]
  | cons row rest ih =>
    intro k acc
    rw [List.zipIdx_cons, List.foldl_cons, ih (fun r hr => hnd r (List.mem_cons_of_mem _ hr)),
      inner_getElem? k row (hnd row List.mem_cons_self)]
    simp only [colSpec]
    split
    · cases acc[j]? <;> simp
    · cases acc[j]? <;> simp

theorem outer_size (rows : List (List Nat)) : ∀ (k : Nat) (acc : Array (List Nat)),
    ((rows.zipIdx k).foldl (fun (cols : Array (List Nat)) p =>
        p.1.foldl (fun cols c => cols.modify c (fun l => p.2 :: l)) cols) acc).size = acc.size := by
  induction rows with
  | nil => intro k acc; rfl
  | cons row rest ih =>
    intro k acc
    rw [List.zipIdx_cons, List.foldl_cons, ih, inner_size]

theorem size_colsOfRows (n : Nat) (rows : List (List Nat)) : (colsOfRows n rows).size = n := by
  unfold colsOfRows
  rw [Array.size_map, outer_size, Array.size_replicate]

theorem colsOfRows_getElem? (n : Nat) (rows : List (List Nat)) (hnd : ∀ row ∈ rows, row.Nodup) (j : Nat) :
    (colsOfRows n rows)[j]? = if j < n then some (colSpec 0 rows j).reverse else none := by
  unfold colsOfRows
  rw [Array.getElem?_map, outer_getElem? rows hnd]
  by_cases hj : j < n
  · simp [hj]
  · simp [hj]

/-- column `c` of `smOf n rows` -/
theorem smOf_col (n : Nat) (rows : List (List Nat)) (hnd : ∀ row ∈ rows, row.Nodup) (c : Nat) :
    (C07Girth.smOf n rows).col c = if c < n then (colSpec 0 rows c).reverse else [] := by
  unfold SM.col C07Girth.smOf
  simp only [List.getD_eq_getElem?_getD, Array.getElem?_toList, colsOfRows_getElem? n rows hnd]
  split <;> rfl

theorem smOf_nrows (n : Nat) (rows : List (List Nat)) : (C07Girth.smOf n rows).nrows = rows.length := rfl

theorem smOf_ncols (n : Nat) (rows : List (List Nat)) : (C07Girth.smOf n rows).ncols = n := by
  simp [C07Girth.smOf, SM.ncols, size_colsOfRows]

/-- the matrix object built from row lists without duplicates and with entries below `n` is well formed -/
theorem smOf_inv (n : Nat) (rows : List (List Nat)) (hnd : ∀ row ∈ rows, row.Nodup)
    (hlt : ∀ row ∈ rows, ∀ c ∈ row, c < n) : (C07Girth.smOf n rows).Inv := by
  have hrow : ∀ r, (C07Girth.smOf n rows).row r = rows.getD r [] := fun _ => rfl
  have hin : ∀ r c, c ∈ rows.getD r [] → r < rows.length ∧ rows.getD r [] ∈ rows := by
    intro r c hc
    by_cases hr : r < rows.length
    · refine ⟨hr, ?_⟩
      have : rows.getD r [] = rows[r] := by simp [List.getD_eq_getElem?_getD, hr]
      rw [this]; exact List.getElem_mem hr
    · have : rows.getD r [] = [] := by
        rw [List.getD_eq_getElem?_getD, List.getElem?_eq_none (by omega)]; rfl
      rw [this] at hc; simp at hc
  refine ⟨?_, ?_, ?_, ?_⟩
  · intro r c hc
    rw [hrow] at hc
    obtain ⟨hr, hm⟩ := hin r c hc
    have hcn := hlt _ hm c hc
    rw [smOf_nrows, smOf_ncols, smOf_col n rows hnd, if_pos hcn, List.mem_reverse, mem_colSpec]
    exact ⟨hr, hcn, Nat.zero_le _, hr, hc⟩
  · intro r c hr
    rw [smOf_col n rows hnd] at hr
    split at hr
    · next hcn =>
      rw [List.mem_reverse, mem_colSpec] at hr
      rw [smOf_nrows, smOf_ncols, hrow]
      exact ⟨hr.2.1, hcn, hr.2.2⟩
    · simp at hr
  · intro r
    rw [hrow]
    by_cases hr : r < rows.length
    · have : rows.getD r [] = rows[r] := by simp [List.getD_eq_getElem?_getD, hr]
      rw [this]; exact hnd _ (List.getElem_mem hr)
    · have : rows.getD r [] = [] := by
        rw [List.getD_eq_getElem?_getD, List.getElem?_eq_none (by omega)]; rfl
      rw [this]; exact List.nodup_nil
  · intro c
    rw [smOf_col n rows hnd]
    split
    · exact (List.reverse_perm _).nodup_iff.mpr (nodup_colSpec rows c 0)
    · exact List.nodup_nil

end LdpcV.CcsdsEnc
