/- Helper lemmas for the uniqueness of the GF(2) rank computed by `rankBits` (C07Rank). -/
import LdpcV.Lemmas.CcsdsLemmas
namespace LdpcV.Ccsds

/-! ### selections and spans -/

theorem selFold_acc (l : List (Nat × Bool)) : ∀ acc, selFold acc l = acc ^^^ selFold 0 l := by
  induction l with
  | nil => intro acc; simp [selFold]
  | cons p l ih =>
    intro acc
    have e : ∀ a, selFold a (p :: l) = selFold (if p.2 then a ^^^ p.1 else a) l := fun _ => rfl
    rw [e, e, ih, ih (if p.2 then 0 ^^^ p.1 else 0)]
    cases p.2
    · simp
    · simp [Nat.xor_assoc]

theorem selFold_cons (r : Nat) (rows : List Nat) (s : Bool) (sel : List Bool) :
    selFold 0 ((r :: rows).zip (s :: sel)) = (if s then r else 0) ^^^ selFold 0 (rows.zip sel) := by
  have e : selFold 0 ((r :: rows).zip (s :: sel)) = selFold (if s then 0 ^^^ r else 0) (rows.zip sel) := rfl
  rw [e, selFold_acc]
  cases s <;> simp

/-- every selection is in the span -/
theorem span_of_sel (l : List Nat) : ∀ sel : List Bool, Span l (selFold 0 (l.zip sel)) := by
  induction l with
  | nil => intro sel; simp [selFold]; exact .zero
  | cons a l ih =>
    intro sel
    cases sel with
    | nil => simp [selFold]; exact .zero
    | cons s sel =>
      rw [selFold_cons]
      have h := (ih sel).mono (T := a :: l) (by simp +contextual)
      cases s
      · simpa using h
      · exact .add (by simp) h

/-- every element of the span is a selection -/
theorem sel_of_span (l : List Nat) : ∀ x, Span l x →
    ∃ sel : List Bool, sel.length = l.length ∧ selFold 0 (l.zip sel) = x := by
  induction l with
  | nil => intro x hx; rw [hx.nil]; exact ⟨[], rfl, rfl⟩
  | cons a l ih =>
    intro x hx
    rcases hx.cons with h | h
    · obtain ⟨sel, hl, hs⟩ := ih x h
      refine ⟨false :: sel, by simp [hl], ?_⟩
      rw [selFold_cons, hs]; simp
    · obtain ⟨sel, hl, hs⟩ := ih _ h
      refine ⟨true :: sel, by simp [hl], ?_⟩
      rw [selFold_cons, hs]
      simp only [if_true]
      rw [Nat.xor_comm x a, ← Nat.xor_assoc, Nat.xor_self, Nat.zero_xor]

theorem Span.of_subset_span {S T : List Nat} (h : ∀ b ∈ S, Span T b) {x : Nat} (hx : Span S x) :
    Span T x := by
  induction hx with
  | zero => exact .zero
  | add hb _ ih => exact (h _ hb).xor ih

/-! ### the span of the echelon basis -/

theorem mem_step_of_mem (B : List Nat) (r : Nat) : ∀ b ∈ B, b ∈ step B r := by
  intro b hb
  unfold step
  simp only []
  split
  · exact hb
  · simp only [List.mem_append, List.mem_filter, List.mem_singleton, decide_eq_true_eq]
    rcases Nat.lt_trichotomy b (reduce B r) with h | h | h
    · exact Or.inr ⟨hb, h⟩
    · exact Or.inl (Or.inr h)
    · exact Or.inl (Or.inl ⟨hb, h⟩)

theorem span_reduce (B : List Nat) (r : Nat) : Span (r :: B) (reduce B r) := by
  have h1 : Span (r :: B) (reduce B r ^^^ r) := (reduce_span B r).mono (by simp +contextual)
  have h2 := h1.xor (Span.mem (S := r :: B) (b := r) (by simp))
  rwa [xor_cancel_right] at h2

theorem step_mem_span (B : List Nat) (r : Nat) : ∀ b ∈ step B r, Span (r :: B) b := by
  intro b hb
  unfold step at hb
  simp only [] at hb
  split at hb
  · exact Span.mem (by simp [hb])
  · simp only [List.mem_append, List.mem_filter, List.mem_singleton] at hb
    rcases hb with (hb | hb) | hb
    · exact Span.mem (by simp [hb.1])
    · subst hb; exact span_reduce B r
    · exact Span.mem (by simp [hb.1])

theorem span_step_row (B : List Nat) (r : Nat) : Span (step B r) r := by
  by_cases h0 : reduce B r = 0
  · rw [step_of_reduce_zero B r h0]
    have := reduce_span B r
    rwa [h0, Nat.zero_xor] at this
  · have hmem : reduce B r ∈ step B r := by
      unfold step
      simp only [h0, if_false, List.mem_append, List.mem_singleton]
      exact Or.inl (Or.inr trivial)
    have h1 : Span (step B r) (reduce B r ^^^ r) := (reduce_span B r).mono (mem_step_of_mem B r)
    have h2 := (Span.mem hmem).xor h1
    rwa [← Nat.xor_assoc, Nat.xor_self, Nat.zero_xor] at h2

theorem good_nil : Good [] := ⟨List.Pairwise.nil, by simp⟩

theorem good_foldl_step (rows : List Nat) : ∀ B, Good B → Good (rows.foldl step B) := by
  induction rows with
  | nil => intro B h; exact h
  | cons r rows ih => intro B h; exact ih _ (good_step B r h)

/-- every vector of the final basis is a combination of the initial basis and the rows -/
theorem foldl_step_mem_span (rows : List Nat) : ∀ B, ∀ b ∈ rows.foldl step B, Span (B ++ rows) b := by
  induction rows with
  | nil => intro B b hb; exact Span.mem (by simpa using hb)
  | cons r rows ih =>
    intro B b hb
    refine (ih (step B r) b hb).of_subset_span ?_
    intro c hc
    rcases List.mem_append.1 hc with hc | hc
    · exact (step_mem_span B r c hc).mono (by
        intro x hx
        rcases List.mem_cons.1 hx with rfl | hx
        · simp
        · simp [hx])
    · exact Span.mem (by simp [hc])

/-- the initial basis and every row are combinations of the final basis -/
theorem span_foldl_step (rows : List Nat) : ∀ B, ∀ b ∈ B ++ rows, Span (rows.foldl step B) b := by
  induction rows with
  | nil => intro B b hb; exact Span.mem (by simpa using hb)
  | cons r rows ih =>
    intro B b hb
    have hsp : ∀ x, Span (step B r) x → Span (rows.foldl step (step B r)) x := fun x hx =>
      hx.of_subset_span (fun c hc => ih (step B r) c (by simp [hc]))
    simp only [List.mem_append, List.mem_cons] at hb
    rcases hb with hb | rfl | hb
    · exact hsp _ (Span.mem (mem_step_of_mem B r b hb))
    · exact hsp _ (span_step_row B b)
    · exact ih (step B r) b (by simp [hb])

/-! ### a good basis is independent -/

theorem good_sel_ne_zero (B : List Nat) : Good B → ∀ sel : List Bool, sel.length = B.length →
    sel.contains true → selFold 0 (B.zip sel) ≠ 0 := by
  induction B with
  | nil =>
    intro _ sel hl ht
    cases sel with
    | nil => simp at ht
    | cons s sel => simp at hl
  | cons b B ih =>
    intro hg sel hl ht
    cases sel with
    | nil => simp at hl
    | cons s sel =>
      simp only [List.length_cons, Nat.add_right_cancel_iff] at hl
      rw [selFold_cons]
      cases s with
      | false =>
        have ht' : sel.contains true = true := by simpa using ht
        simpa using ih hg.tail sel hl ht'
      | true =>
        have hb0 : b ≠ 0 := hg.2 b (by simp)
        have h1 : 2 ^ b.log2 ≤ b := Nat.log2_self_le hb0
        have h2 : b < 2 ^ (b.log2 + 1) := Nat.lt_log2_self
        have hbk : b.testBit b.log2 = true := Nat.testBit_of_two_pow_le_and_two_pow_add_one_gt h1 h2
        have hy : (selFold 0 (B.zip sel)).testBit b.log2 = false :=
          Nat.testBit_lt_two_pow ((span_of_sel B sel).lt_two_pow (hg.head h2))
        intro h
        have : ((if true = true then b else 0) ^^^ selFold 0 (B.zip sel)).testBit b.log2 = true := by
          rw [Nat.testBit_xor, hy]; simpa using hbk
        rw [h] at this
        simp at this

theorem indepBits_of_good (B : List Nat) (hg : Good B) : IndepBits B :=
  fun sel hl ht => good_sel_ne_zero B hg sel hl ht

/-! ### independent rows enlarge the basis at every step -/

theorem filter_gt_lt_length_eq (B : List Nat) (x : Nat) (hx : x ∉ B) :
    (B.filter (· > x)).length + (B.filter (· < x)).length = B.length := by
  induction B with
  | nil => simp
  | cons b B ih =>
    have hbx : b ≠ x := fun h => hx (by simp [h])
    have ih := ih (fun h => hx (List.mem_cons_of_mem _ h))
    simp only [List.filter_cons, List.length_cons]
    by_cases h1 : b > x
    · have h2 : ¬ b < x := by omega
      simp only [h1, h2, decide_true, decide_false, if_true, List.length_cons]
      simp only [Bool.false_eq_true, if_false]
      omega
    · have h2 : b < x := by omega
      simp only [h1, h2, decide_true, decide_false, if_true, List.length_cons]
      simp only [Bool.false_eq_true, if_false]
      omega

theorem step_length_of_reduce_ne_zero (B : List Nat) (r : Nat) (hg : Good B) (h0 : reduce B r ≠ 0) :
    (step B r).length = B.length + 1 := by
  have hx : reduce B r ∉ B := by
    intro hmem
    have hb0 := hg.2 _ hmem
    have h1 : 2 ^ (reduce B r).log2 ≤ reduce B r := Nat.log2_self_le hb0
    have h2 : reduce B r < 2 ^ ((reduce B r).log2 + 1) := Nat.lt_log2_self
    have := reduce_reduced B hg r _ hmem _ h1 h2
    rw [Nat.testBit_of_two_pow_le_and_two_pow_add_one_gt h1 h2] at this
    cases this
  have := filter_gt_lt_length_eq B _ hx
  unfold step
  simp only [h0, if_false, List.length_append, List.length_cons, List.length_nil]
  omega

/-- rows independent modulo the span of a good basis all enlarge it -/
theorem foldl_step_length_of_indep (rows : List Nat) : ∀ B, Good B →
    (∀ sel : List Bool, sel.length = rows.length → Span B (selFold 0 (rows.zip sel)) →
      sel.contains true = false) →
    (rows.foldl step B).length = B.length + rows.length := by
  induction rows with
  | nil => intro B _ _; rfl
  | cons r rows ih =>
    intro B hg H
    have h0 : reduce B r ≠ 0 := by
      intro h0
      have hr : Span B r := by
        have := reduce_span B r
        rwa [h0, Nat.zero_xor] at this
      have := H (true :: List.replicate rows.length false) (by simp) (by
        rw [selFold_cons]
        have hz : selFold 0 (rows.zip (List.replicate rows.length false)) = 0 :=
          selFold_no_true rows _ 0 (by simp)
        rw [hz]; simpa using hr)
      simp at this
    have hlen := step_length_of_reduce_ne_zero B r hg h0
    have := ih (step B r) (good_step B r hg) (by
      intro sel hl hs
      have hs' : Span (r :: B) (selFold 0 (rows.zip sel)) := hs.of_subset_span (step_mem_span B r)
      rcases hs'.cons with h | h
      · have := H (false :: sel) (by simp [hl]) (by rw [selFold_cons]; simpa using h)
        simpa using this
      · have := H (true :: sel) (by simp [hl]) (by
          rw [selFold_cons]; simp only [if_true]; rwa [Nat.xor_comm])
        simp at this)
    simp only [List.foldl_cons, List.length_cons]
    omega

/-- an independent family has full `rankBits` -/
theorem indep_rank_full (sub : List Nat) (hi : IndepBits sub) : rankBits sub = sub.length := by
  rw [rankBits_eq]
  have := foldl_step_length_of_indep sub [] good_nil (by
    intro sel hl hs
    cases hc : sel.contains true with
    | false => rfl
    | true => exact absurd hs.nil (hi sel hl hc))
  simpa using this

/-! ### the length of a good basis is determined (monotonically) by its span -/

theorem log2_eq_of_bounds {x k : Nat} (h1 : 2 ^ k ≤ x) (h2 : x < 2 ^ (k + 1)) : x.log2 = k := by
  have hx0 : x ≠ 0 := by
    have : 0 < 2 ^ k := Nat.pow_pos (by omega)
    omega
  have a := (Nat.le_log2 hx0 (k := k)).2 h1
  have b := (Nat.log2_lt hx0 (k := k + 1)).2 h2
  omega

/-- a non-zero vector that reduces to 0 has the leading bit of some basis vector -/
theorem exists_log2_of_reduce_zero (B : List Nat) : ∀ x, x ≠ 0 → reduce B x = 0 →
    ∃ c ∈ B, c.log2 = x.log2 := by
  induction B with
  | nil => intro x hx h; exact absurd h hx
  | cons c B ih =>
    intro x hx h
    rw [reduce_cons] at h
    split at h
    · rename_i hlt
      have hc0 : c ≠ 0 := by
        intro hc; rw [hc, Nat.xor_zero] at hlt; omega
      have c1 : 2 ^ c.log2 ≤ c := Nat.log2_self_le hc0
      have c2 : c < 2 ^ (c.log2 + 1) := Nat.lt_log2_self
      have x1 : 2 ^ x.log2 ≤ x := Nat.log2_self_le hx
      have x2 : x < 2 ^ (x.log2 + 1) := Nat.lt_log2_self
      have hbit := (xor_lt_iff _ c x c1 c2).1 hlt
      have hle : c.log2 ≤ x.log2 := (Nat.le_log2 hx).2 (Nat.ge_two_pow_of_testBit hbit)
      by_cases heq : c.log2 = x.log2
      · exact ⟨c, by simp, heq⟩
      · have hlt' : c.log2 + 1 ≤ x.log2 := by omega
        have hcx : c < 2 ^ x.log2 := Nat.lt_of_lt_of_le c2 (Nat.pow_le_pow_right (by omega) hlt')
        have hxb : (x ^^^ c).testBit x.log2 = true := by
          rw [Nat.testBit_xor, Nat.testBit_lt_two_pow hcx,
            Nat.testBit_of_two_pow_le_and_two_pow_add_one_gt x1 x2]; rfl
        have y1 : 2 ^ x.log2 ≤ x ^^^ c := Nat.ge_two_pow_of_testBit hxb
        have y2 : x ^^^ c < 2 ^ (x.log2 + 1) := by omega
        have hy0 : x ^^^ c ≠ 0 := by
          have : 0 < 2 ^ x.log2 := Nat.pow_pos (by omega)
          omega
        obtain ⟨d, hd, hdl⟩ := ih _ hy0 h
        exact ⟨d, List.mem_cons_of_mem _ hd, by rw [hdl, log2_eq_of_bounds y1 y2]⟩
    · obtain ⟨d, hd, hdl⟩ := ih x hx h
      exact ⟨d, List.mem_cons_of_mem _ hd, hdl⟩

theorem Above.log2_lt {a b : Nat} (h : Above a b) (hb : b ≠ 0) : b.log2 < a.log2 := by
  obtain ⟨k, hbk, hka⟩ := h
  have ha : a ≠ 0 := by
    have : 0 < 2 ^ k := Nat.pow_pos (by omega)
    omega
  have := (Nat.log2_lt hb).2 hbk
  have := (Nat.le_log2 ha).2 hka
  omega

theorem good_log2_nodup (B : List Nat) (hg : Good B) : (B.map Nat.log2).Nodup := by
  rw [List.nodup_iff_pairwise_ne, List.pairwise_map]
  refine List.Pairwise.imp_of_mem ?_ hg.1
  intro a b _ hb hab
  have := hab.log2_lt (hg.2 b hb)
  omega

/-- a good basis inside the span of another good basis is not longer -/
theorem good_length_le (B1 B2 : List Nat) (h1 : Good B1) (h2 : Good B2)
    (hsub : ∀ b ∈ B1, Span B2 b) : B1.length ≤ B2.length := by
  have := (good_log2_nodup B1 h1).length_le_of_subset (l₂ := B2.map Nat.log2) (by
    intro k hk
    obtain ⟨b, hb, rfl⟩ := List.mem_map.1 hk
    obtain ⟨c, hc, hcl⟩ := exists_log2_of_reduce_zero B2 b (h1.2 b hb)
      (reduce_eq_zero B2 h2 b (hsub b hb))
    exact List.mem_map.2 ⟨c, hc, hcl⟩)
  simpa using this

/-- `rankBits` is monotone along sub-families (indeed along inclusion of spans) -/
theorem rankBits_le_of_span (sub rows : List Nat) (h : ∀ b ∈ sub, Span rows b) :
    rankBits sub ≤ rankBits rows := by
  rw [rankBits_eq, rankBits_eq]
  refine good_length_le _ _ (good_foldl_step sub [] good_nil) (good_foldl_step rows [] good_nil) ?_
  intro b hb
  have h1 : Span sub b := by simpa using foldl_step_mem_span sub [] b hb
  have h2 : Span rows b := h1.of_subset_span h
  exact h2.of_subset_span (fun c hc => span_foldl_step rows [] c (by simpa using hc))

end LdpcV.Ccsds
