/- Helper lemmas for C11, part 5: the inner loop of the branch-labelled girth search. -/
import LdpcV.Lemmas.GraphLemmas4
namespace LdpcV.Graph

/-- facts about one queue entry -/
structure QOK (h : SM) (root : Node) (mx : Nat) (dist : Labels Nat) (branch : Labels Node) (q : PathHead) : Prop where
  lab : dist.get q.node = some (some q.len)
  rootp : q.node = root → q.parent = none
  par : q.node ≠ root → q.len < mx ∧ ∃ p b, q.parent = some p ∧ branch.get q.node = some (some b) ∧
      (p = root ∨ ∃ k', dist.get p = some (some k') ∧ branch.get p = some (some b)) ∧
      (Adj h q.node root → p = root)

theorem QOK.mono {h : SM} {root : Node} {mx : Nat} {dist dist' : Labels Nat} {branch branch' : Labels Node}
    (hd : dist.Mono dist') (hb : branch.Mono branch') {q : PathHead} (hq : QOK h root mx dist branch q) :
    QOK h root mx dist' branch' q := by
  refine ⟨hd _ _ hq.lab, hq.rootp, ?_⟩
  intro hne
  obtain ⟨h1, p, b, h2, h3, h4, h5⟩ := hq.par hne
  refine ⟨h1, p, b, h2, hb _ _ h3, ?_, h5⟩
  rcases h4 with h4 | ⟨k', h4, h4'⟩
  · exact .inl h4
  · exact .inr ⟨k', hd _ _ h4, hb _ _ h4'⟩

/-- invariant of the inner loop while the neighbours of `u` (level `l`) are visited -/
structure GVInv (h : SM) (root : Node) (mx l : Nat) (u : Node) (dist : Labels Nat) (branch : Labels Node)
    (queue : List PathHead) : Prop where
  sized : dist.Sized h
  bsized : branch.Sized h
  root0 : dist.get root = some (some 0)
  rootb : branch.get root = some none
  sound : ∀ v k, dist.get v = some (some k) → v ≠ root → ∃ b p, GoodPath h root branch b v k p
  bd : ∀ x b, branch.get x = some (some b) → ∃ k, dist.get x = some (some k)
  qok : ∀ q ∈ queue, QOK h root mx dist branch q
  sorted : queue.Pairwise (fun a b => a.len ≤ b.len)
  qge : ∀ q ∈ queue, l ≤ q.len
  le : ∀ v k, dist.get v = some (some k) → k ≤ l + 1
  closed : ∀ v k, dist.get v = some (some k) →
    mx ≤ k ∨ v = u ∨ (∃ q ∈ queue, q.node = v) ∨ GExp h root dist branch v k

/-- facts about the head being expanded -/
structure HeadOK (root : Node) (mx l : Nat) (u : Node) (hb : Option Node) (dist : Labels Nat)
    (branch : Labels Node) : Prop where
  lab : dist.get u = some (some l)
  cases : (u = root ∧ hb = none) ∨ (u ≠ root ∧ l < mx ∧ ∃ b, hb = some b ∧ branch.get u = some (some b))

theorem HeadOK.mono {root : Node} {mx l : Nat} {u : Node} {hb : Option Node} {dist dist' : Labels Nat}
    {branch branch' : Labels Node} (hd : dist.Mono dist') (hbm : branch.Mono branch')
    (ho : HeadOK root mx l u hb dist branch) : HeadOK root mx l u hb dist' branch' := by
  refine ⟨hd _ _ ho.lab, ?_⟩
  rcases ho.cases with h1 | ⟨h1, h2, b, h3, h4⟩
  · exact .inl h1
  · exact .inr ⟨h1, h2, b, h3, hbm _ _ h4⟩

theorem GVInv.lowExp {h : SM} {root : Node} {mx l : Nat} {u : Node} {hb : Option Node} {dist : Labels Nat}
    {branch : Labels Node} {queue : List PathHead} (hv : GVInv h root mx l u dist branch queue)
    (ho : HeadOK root mx l u hb dist branch) :
    ∀ v k, dist.get v = some (some k) → k < l → GExp h root dist branch v k := by
  intro v k hvk hkl
  rcases hv.closed v k hvk with h1 | rfl | ⟨q, hq, rfl⟩ | h4
  · exfalso
    rcases ho.cases with ⟨rfl, _⟩ | ⟨_, h2, _⟩
    · have := ho.lab; rw [hv.root0] at this; simp at this; omega
    · omega
  · have := ho.lab; rw [hvk] at this; simp at this; omega
  · have := (hv.qok q hq).lab; rw [hvk] at this; simp at this
    have := hv.qge q hq; omega
  · exact h4

/-- what the inner loop establishes -/
def StepPost (h : SM) (root : Node) (mx l : Nat) (u : Node) (hb : Option Node) (dist : Labels Nat)
    (branch : Labels Node) (queue : List PathHead) (items : List PathHead) : Step → Prop
  | .continue d' b' q' =>
    GVInv h root mx l u d' b' q' ∧
    (∀ nh ∈ items, ∃ k', d'.get nh.node = some (some k') ∧ b'.get nh.node = some (some (hb.getD nh.node))) ∧
    dist.Mono d' ∧ branch.Mono b' ∧ d'.unl + q'.length ≤ dist.unl + queue.length
  | .found t => IsLocalGirth h root t

theorem StepPost.step {h : SM} {root : Node} {mx l : Nat} {u : Node} {hb : Option Node}
    {dist dist' : Labels Nat} {branch branch' : Labels Node} {queue queue' : List PathHead}
    {nh : PathHead} {rest : List PathHead} {r : Step}
    (hd : dist.Mono dist') (hbm : branch.Mono branch')
    (hmeas : dist'.unl + queue'.length ≤ dist.unl + queue.length)
    (hnh : ∃ k', dist'.get nh.node = some (some k') ∧ branch'.get nh.node = some (some (hb.getD nh.node)))
    (hp : StepPost h root mx l u hb dist' branch' queue' rest r) :
    StepPost h root mx l u hb dist branch queue (nh :: rest) r := by
  cases r with
  | found t => exact hp
  | «continue» d' b' q' =>
    obtain ⟨h1, h2, h3, h4, h5⟩ := hp
    refine ⟨h1, ?_, hd.trans h3, hbm.trans h4, by omega⟩
    intro x hx
    rcases List.mem_cons.1 hx with rfl | hx
    · obtain ⟨k', e1, e2⟩ := hnh
      exact ⟨k', h3 _ _ e1, h4 _ _ e2⟩
    · exact h2 x hx

theorem girthVisit_cons_same (mx : Nat) (hb : Option Node) (dist : Labels Nat) (branch : Labels Node)
    (queue : List PathHead) (nh : PathHead) (rest : List PathHead) (d : Nat)
    (h1 : dist.get nh.node = some (some d))
    (h2 : (branch.get nh.node).getD none = some (hb.getD nh.node)) :
    girthVisit mx hb dist branch queue (nh :: rest) = girthVisit mx hb dist branch queue rest := by
  rw [girthVisit]; simp [h1, h2]

theorem girthVisit_cons_found (mx : Nat) (hb : Option Node) (dist : Labels Nat) (branch : Labels Node)
    (queue : List PathHead) (nh : PathHead) (rest : List PathHead) (d : Nat)
    (h1 : dist.get nh.node = some (some d))
    (h2 : (branch.get nh.node).getD none ≠ some (hb.getD nh.node)) :
    girthVisit mx hb dist branch queue (nh :: rest) = .found (d + nh.len) := by
  rw [girthVisit]; simp [h1, h2]

theorem girthVisit_cons_new (mx : Nat) (hb : Option Node) (dist : Labels Nat) (branch : Labels Node)
    (queue : List PathHead) (nh : PathHead) (rest : List PathHead)
    (h1 : dist.get nh.node = some none) :
    girthVisit mx hb dist branch queue (nh :: rest) =
      girthVisit mx hb (dist.set nh.node nh.len) (branch.set nh.node (hb.getD nh.node))
        (if nh.len < mx then queue ++ [nh] else queue) rest := by
  rw [girthVisit]; simp [h1]

/-- a collision between two different branches yields the exact local girth -/
theorem found_exact {h : SM} {root : Node} {mx l : Nat} {u : Node} {hb : Option Node}
    {dist : Labels Nat} {branch : Labels Node} {queue : List PathHead}
    (hv : GVInv h root mx l u dist branch queue) (ho : HeadOK root mx l u hb dist branch)
    {w : Node} {d : Nat} (hadj : Adj h u w) (hwr : w ≠ root) (hw : dist.get w = some (some d))
    (hcol : (branch.get w).getD none ≠ some (hb.getD w)) :
    IsLocalGirth h root (d + (l + 1)) := by
  obtain ⟨b2, p2, hp2⟩ := hv.sound w d hw hwr
  have hle := hv.le w d hw
  have hbw := hp2.branch_eq
  rcases ho.cases with ⟨rfl, rfl⟩ | ⟨hur, hlmx, b1, rfl, hbu⟩
  · -- the head is the root: no collision is possible
    exfalso
    have hl0 : l = 0 := by have := ho.lab; rw [hv.root0] at this; simpa using this.symm
    have := hp2.one (by omega)
    subst this
    apply hcol
    rw [hbw]; rfl
  · obtain ⟨b1', p1, hp1⟩ := hv.sound u l ho.lab hur
    have : b1' = b1 := by have := hp1.branch_eq; rw [hbu] at this; simpa using this.symm
    subst this
    have hne : b1' ≠ b2 := by
      intro he; apply hcol; rw [hbw, he]; rfl
    refine ⟨cycle_of_paths hp1 hp2 hne hadj, ?_⟩
    intro c hc hrc
    have hl1 := hp1.pos
    have := no_short_cycle (hv.lowExp ho) hv.root0 hv.rootb hl1 hc hrc
    have := hc.even
    omega

theorem girthVisit_inv {h : SM} (hinv : h.Inv) {root : Node} {mx l : Nat} {u : Node} {hb : Option Node}
    (items : List PathHead) :
    ∀ (dist : Labels Nat) (branch : Labels Node) (queue : List PathHead),
      GVInv h root mx l u dist branch queue → HeadOK root mx l u hb dist branch →
      (∀ nh ∈ items, nh.len = l + 1 ∧ Adj h u nh.node ∧ nh.node ≠ root ∧ nh.parent = some u) →
      StepPost h root mx l u hb dist branch queue items (girthVisit mx hb dist branch queue items) := by
  induction items with
  | nil =>
    intro dist branch queue hv _ _
    exact ⟨hv, by simp, Labels.Mono.refl _, Labels.Mono.refl _, Nat.le_refl _⟩
  | cons nh rest ih =>
    intro dist branch queue hv ho hitems
    obtain ⟨hlen, hadj, hwr, hpar⟩ := hitems nh List.mem_cons_self
    have hrest : ∀ nh ∈ rest, nh.len = l + 1 ∧ Adj h u nh.node ∧ nh.node ≠ root ∧ nh.parent = some u :=
      fun x hx => hitems x (List.mem_cons_of_mem _ hx)
    obtain ⟨o, ho'⟩ := (hv.sized.get_isSome nh.node).2 (hadj.inRange_right hinv)
    cases o with
    | some d =>
      by_cases hcol : (branch.get nh.node).getD none = some (hb.getD nh.node)
      · rw [girthVisit_cons_same mx hb dist branch queue nh rest d ho' hcol]
        refine StepPost.step (Labels.Mono.refl _) (Labels.Mono.refl _) (Nat.le_refl _) ⟨d, ho', ?_⟩
          (ih dist branch queue hv ho hrest)
        cases hbn : branch.get nh.node with
        | none => simp [hbn] at hcol
        | some o => simp [hbn] at hcol; rw [hcol]
      · rw [girthVisit_cons_found mx hb dist branch queue nh rest d ho' hcol, hlen]
        exact found_exact hv ho hadj hwr ho' hcol
    | none =>
      rw [girthVisit_cons_new mx hb dist branch queue nh rest ho']
      -- the node is unlabelled in both arrays
      have hbnone : branch.get nh.node = some none := by
        obtain ⟨o, hbo⟩ := (hv.bsized.get_isSome nh.node).2 (hadj.inRange_right hinv)
        cases o with
        | none => exact hbo
        | some b => obtain ⟨k, hk⟩ := hv.bd _ _ hbo; rw [ho'] at hk; simp at hk
      have hdm := Labels.Mono.set dist nh.node nh.len ho'
      have hbm := Labels.Mono.set branch nh.node (hb.getD nh.node) hbnone
      have hdnew : (dist.set nh.node nh.len).get nh.node = some (some nh.len) := Labels.get_set_same _ _ _ _ ho'
      have hbnew : (branch.set nh.node (hb.getD nh.node)).get nh.node = some (some (hb.getD nh.node)) :=
        Labels.get_set_same _ _ _ _ hbnone
      have hold : ∀ v k, (dist.set nh.node nh.len).get v = some (some k) →
          (v = nh.node ∧ k = nh.len) ∨ (v ≠ nh.node ∧ dist.get v = some (some k)) := by
        intro v k hvk
        by_cases hvn : v = nh.node
        · subst hvn; rw [hdnew] at hvk; left; exact ⟨rfl, by simpa using hvk.symm⟩
        · right; rw [Labels.get_set_ne _ _ _ _ hvn] at hvk; exact ⟨hvn, hvk⟩
      have hune : u ≠ nh.node := by
        intro he; have := ho.lab; rw [he, ho'] at this; simp at this
      -- the new tree path
      have hpath : ∃ b p, GoodPath h root (branch.set nh.node (hb.getD nh.node)) b nh.node nh.len p := by
        rcases ho.cases with ⟨rfl, rfl⟩ | ⟨hur, _, b1, rfl, hbu⟩
        · have hl0 : l = 0 := by have := ho.lab; rw [hv.root0] at this; simpa using this.symm
          refine ⟨nh.node, [nh.node], ?_, rfl, rfl, hadj, by simp [Chain], by simp, ?_⟩
          · simp [hlen, hl0]
          · intro x hx; simp only [List.mem_singleton] at hx; subst hx
            exact ⟨hwr, hbnew⟩
        · obtain ⟨b1', p1, hp1⟩ := hv.sound u l ho.lab hur
          have : b1' = b1 := by have := hp1.branch_eq; rw [hbu] at this; simpa using this.symm
          subst this
          have hp1' := hp1.mono hbm
          have hnotin : nh.node ∉ p1 := by
            intro hm; have := (hp1.br _ hm).2; rw [hbnone] at this; simp at this
          refine ⟨b1', nh.node :: p1, ?_, rfl, ?_, hp1.adjroot, ⟨?_, hp1.chain⟩, ?_, ?_⟩
          · simp [hp1.len, hlen]
          · have hne : p1 ≠ [] := List.ne_nil_of_mem hp1.mem_head
            cases p1 with
            | nil => exact (hne rfl).elim
            | cons a t => rw [List.getLast?_cons_cons]; exact hp1.last
          · intro b hbh; rw [hp1.head] at hbh; cases hbh; exact hadj.symm
          · exact List.nodup_cons.2 ⟨hnotin, hp1.nodup⟩
          · intro x hx
            rcases List.mem_cons.1 hx with rfl | hx
            · exact ⟨hwr, hbnew⟩
            · exact hp1'.br x hx
      have hv' : GVInv h root mx l u (dist.set nh.node nh.len) (branch.set nh.node (hb.getD nh.node))
          (if nh.len < mx then queue ++ [nh] else queue) := by
        have hqold : ∀ q ∈ queue, QOK h root mx (dist.set nh.node nh.len)
            (branch.set nh.node (hb.getD nh.node)) q := fun q hq => (hv.qok q hq).mono hdm hbm
        refine ⟨hv.sized.set _ _, hv.bsized.set _ _, hdm _ _ hv.root0, ?_, ?_, ?_, ?_, ?_, ?_, ?_, ?_⟩
        · rw [Labels.get_set_ne _ _ _ _ (Ne.symm hwr)]; exact hv.rootb
        · intro v k hvk hvr
          rcases hold v k hvk with ⟨rfl, rfl⟩ | ⟨_, hvk'⟩
          · exact hpath
          · obtain ⟨b, p, hp⟩ := hv.sound v k hvk' hvr
            exact ⟨b, p, hp.mono hbm⟩
        · intro x b hxb
          by_cases hx : x = nh.node
          · subst hx; exact ⟨_, hdnew⟩
          · rw [Labels.get_set_ne _ _ _ _ hx] at hxb
            obtain ⟨k, hk⟩ := hv.bd x b hxb
            exact ⟨k, hdm _ _ hk⟩
        · intro q hq
          split at hq
          · rename_i hlt
            rcases List.mem_append.1 hq with hq | hq
            · exact hqold q hq
            · simp only [List.mem_singleton] at hq; subst hq
              refine ⟨hdnew, fun he => (hwr he).elim, fun _ => ⟨hlt, u, hb.getD q.node, hpar, hbnew, ?_, ?_⟩⟩
              · rcases ho.cases with ⟨h1, _⟩ | ⟨_, _, b1, rfl, hbu⟩
                · exact .inl h1
                · exact .inr ⟨l, hdm _ _ ho.lab, hbm _ _ hbu⟩
              · intro hadjr
                rcases ho.cases with ⟨h1, _⟩ | ⟨hur, _, _, _, _⟩
                · exact h1
                · exfalso
                  obtain ⟨b1, p1, hp1⟩ := hv.sound u l ho.lab hur
                  have hl1 := hp1.pos
                  obtain ⟨k', hk', _⟩ := hv.lowExp ho root 0 hv.root0 (by omega) q.node hadjr.symm hwr
                  rw [ho'] at hk'; simp at hk'
          · exact hqold q hq
        · split
          · rw [List.pairwise_append]
            refine ⟨hv.sorted, List.pairwise_singleton _ _, ?_⟩
            intro a ha b hbm'
            simp only [List.mem_singleton] at hbm'; subst hbm'
            rw [hlen]; exact hv.le _ _ (hv.qok a ha).lab
          · exact hv.sorted
        · intro q hq
          split at hq
          · rcases List.mem_append.1 hq with hq | hq
            · exact hv.qge q hq
            · simp only [List.mem_singleton] at hq; subst hq; omega
          · exact hv.qge q hq
        · intro v k hvk
          rcases hold v k hvk with ⟨rfl, rfl⟩ | ⟨_, hvk'⟩
          · omega
          · exact hv.le v k hvk'
        · intro v k hvk
          rcases hold v k hvk with ⟨rfl, rfl⟩ | ⟨hvn, hvk'⟩
          · by_cases hlt : nh.len < mx
            · right; right; left; exact ⟨nh, by simp [hlt], rfl⟩
            · left; omega
          · rcases hv.closed v k hvk' with h1 | h2 | ⟨q, hq, rfl⟩ | h4
            · exact .inl h1
            · exact .inr (.inl h2)
            · refine .inr (.inr (.inl ⟨q, ?_, rfl⟩))
              split
              · exact List.mem_append_left _ hq
              · exact hq
            · exact .inr (.inr (.inr (h4.mono hdm hbm (Labels.get_set_ne _ _ _ _ hvn))))
      refine StepPost.step hdm hbm ?_ ⟨_, hdnew, hbnew⟩ (ih _ _ _ hv' (ho.mono hdm hbm) hrest)
      have := Labels.unl_set dist nh.node nh.len ho'
      split
      · rw [List.length_append, List.length_singleton]; omega
      · omega

end LdpcV.Graph
