/-
The STANDARD MODEL OF FLOATING-POINT ARITHMETIC as a third instance of the scalar record `Sc`:
every arithmetic operation returns the exact real result times (1 + δ) with |δ| ≤ u (u = unit roundoff: 2⁻⁵³ for f64,
2⁻²⁴ for f32), every transcendental function returns the exact value times (1 + δ) with |δ| ≤ e (the accuracy of the
mathematical library, a parameter), and negation, absolute value, max, min and comparisons are exact.  The model is
a STRUCTURE whose fields are hypotheses of the theorems (no axiom): the theorems of C04Round / C05Round / C14Round
hold for EVERY rounding function with these properties.  IEEE-754 round-to-nearest satisfies `fl_err` whenever neither
overflow nor underflow to subnormals occurs (trusted, stated in the trusted base); libm accuracy is a parameter.

`Near k x y`: y = x · f with (1-u)^k ≤ f ≤ (1-u)^(-k) — closed under products, quotients and rounding, which turns
Higham's θ_k/γ_k calculus into three one-line lemmas.
-/
import LdpcV.Lemmas.RealScalar
import LdpcV.Lemmas.RealScalarSimp
import Mathlib.Tactic
namespace LdpcV

/-- the standard model of floating-point arithmetic (Higham, Accuracy and Stability of Numerical Algorithms, (2.4)) -/
structure FpModel where
  /-- unit roundoff of `+ - * / sqrt` and of literals -/
  u : ℝ
  /-- relative accuracy of `exp`, `ln`, `ln_1p`, `tanh`, `atanh` -/
  e : ℝ
  fl : ℝ → ℝ
  fexp : ℝ → ℝ
  flog : ℝ → ℝ
  flog1p : ℝ → ℝ
  ftanh : ℝ → ℝ
  fatanh : ℝ → ℝ
  u_nonneg : 0 ≤ u
  u_lt : u < 1
  e_nonneg : 0 ≤ e
  e_le : e ≤ 1
  fl_err : ∀ x, |fl x - x| ≤ u * |x|
  exp_err : ∀ x, |fexp x - Real.exp x| ≤ e * Real.exp x
  log_err : ∀ x, 0 < x → |flog x - Real.log x| ≤ e * |Real.log x|
  log1p_err : ∀ x, 0 ≤ x → |flog1p x - Real.log (1 + x)| ≤ e * Real.log (1 + x)
  tanh_err : ∀ x, |ftanh x - Real.tanh x| ≤ e * |Real.tanh x|
  atanh_err : ∀ x, |x| < 1 → |fatanh x - (1 / 2) * Real.log ((1 + x) / (1 - x))| ≤ e * |(1 / 2) * Real.log ((1 + x) / (1 - x))|

/-- the scalar record of a floating-point model: the SAME generic formula text of `Model/ArithF.lean` and
`Model/Modulation.lean` evaluated with rounding after every operation -/
noncomputable def Sc.rounded (M : FpModel) : Sc ℝ where
  add := fun a b => M.fl (a + b)
  sub := fun a b => M.fl (a - b)
  mul := fun a b => M.fl (a * b)
  div := fun a b => M.fl (a / b)
  neg := fun x => -x
  abs := fun x => |x|
  max := fun a b => Max.max a b
  min := fun a b => Min.min a b
  exp := M.fexp
  log := M.flog
  log1p := M.flog1p
  tanh := M.ftanh
  atanh := M.fatanh
  sqrt := fun x => M.fl (Real.sqrt x)
  rat := fun n d => M.fl ((n : ℝ) / (d : ℝ))
  lt := fun a b => decide (a < b)
  le := fun a b => decide (a ≤ b)

/-- non-vacuity: exact arithmetic (u = e = 0, `fl = id`) is a floating-point model, so the hypotheses are satisfiable;
in it b = 1, η = 0 and the rounded rule IS the real rule -/
noncomputable def FpModel.exact : FpModel where
  u := 0
  e := 0
  fl := id
  fexp := Real.exp
  flog := Real.log
  flog1p := fun x => Real.log (1 + x)
  ftanh := Real.tanh
  fatanh := fun x => (1 / 2) * Real.log ((1 + x) / (1 - x))
  u_nonneg := le_refl 0
  u_lt := by norm_num
  e_nonneg := le_refl 0
  e_le := by norm_num
  fl_err := by intro x; simp
  exp_err := by intro x; simp
  log_err := by intro x _; simp
  log1p_err := by intro x _; simp
  tanh_err := by intro x; simp
  atanh_err := by intro x _; simp


namespace Round

variable (M : FpModel)

theorem one_sub_pos : 0 < 1 - M.u := by have := M.u_lt; linarith
theorem one_sub_le_one : 1 - M.u ≤ 1 := by have := M.u_nonneg; linarith

/-- base of the multiplicative error intervals: b = 1/(1-u) ≥ 1 + u -/
noncomputable def b : ℝ := 1 / (1 - M.u)

theorem b_pos : 0 < b M := by unfold b; exact one_div_pos.mpr (one_sub_pos M)
theorem one_le_b : 1 ≤ b M := by
  unfold b; rw [le_div_iff₀ (one_sub_pos M)]; have := M.u_nonneg; linarith
theorem one_add_le_b : 1 + M.u ≤ b M := by
  unfold b; rw [le_div_iff₀ (one_sub_pos M)]; have := M.u_nonneg; nlinarith
theorem b_mul : b M * (1 - M.u) = 1 := by
  unfold b; field_simp [(one_sub_pos M).ne']

theorem fl_zero : M.fl 0 = 0 := by
  have h := M.fl_err 0
  simp only [sub_zero, abs_zero, mul_zero] at h
  exact abs_eq_zero.mp (le_antisymm h (abs_nonneg _))

/-- `fl x = x (1 + δ)`, |δ| ≤ u -/
theorem fl_eq (x : ℝ) : ∃ δ, |δ| ≤ M.u ∧ M.fl x = x * (1 + δ) := by
  by_cases hx : x = 0
  · exact ⟨0, by simpa using M.u_nonneg, by rw [hx, fl_zero]; ring⟩
  · refine ⟨(M.fl x - x) / x, ?_, by field_simp; ring⟩
    rw [abs_div, div_le_iff₀ (abs_pos.mpr hx)]
    exact M.fl_err x

/-- y is x up to k roundings: y = x·f, (1-u)^k ≤ f ≤ (1-u)^(-k) -/
def Near (k : ℕ) (x y : ℝ) : Prop := ∃ f, y = x * f ∧ (1 - M.u) ^ k ≤ f ∧ f ≤ (b M) ^ k

theorem near_refl (x : ℝ) : Near M 0 x x := ⟨1, by ring, by simp, by simp⟩

theorem near_mono {j k : ℕ} (h : j ≤ k) {x y : ℝ} (hn : Near M j x y) : Near M k x y := by
  obtain ⟨f, hy, h1, h2⟩ := hn
  refine ⟨f, hy, le_trans ?_ h1, le_trans h2 ?_⟩
  · exact pow_le_pow_of_le_one (one_sub_pos M).le (one_sub_le_one M) h
  · exact pow_le_pow_right₀ (one_le_b M) h

theorem near_fl {k : ℕ} {x y : ℝ} (hn : Near M k x y) : Near M (k + 1) x (M.fl y) := by
  obtain ⟨f, hy, h1, h2⟩ := hn
  obtain ⟨δ, hδ, hfl⟩ := fl_eq M y
  have hδ' := abs_le.mp hδ
  have hf0 : 0 ≤ f := le_trans (pow_nonneg (one_sub_pos M).le k) h1
  refine ⟨f * (1 + δ), by rw [hfl, hy]; ring, ?_, ?_⟩
  · rw [pow_succ]
    exact mul_le_mul h1 (by linarith) (one_sub_pos M).le hf0
  · rw [pow_succ]
    exact mul_le_mul h2 (by have := one_add_le_b M; linarith) (by linarith [one_sub_pos M]) (pow_nonneg (b_pos M).le k)

theorem near_mul {j k : ℕ} {x x' y y' : ℝ} (hx : Near M j x x') (hy : Near M k y y') : Near M (j + k) (x * y) (x' * y') := by
  obtain ⟨f, hf, f1, f2⟩ := hx
  obtain ⟨g, hg, g1, g2⟩ := hy
  have hf0 : 0 ≤ f := le_trans (pow_nonneg (one_sub_pos M).le j) f1
  have hg0 : 0 ≤ g := le_trans (pow_nonneg (one_sub_pos M).le k) g1
  refine ⟨f * g, by rw [hf, hg]; ring, ?_, ?_⟩
  · rw [pow_add]; exact mul_le_mul f1 g1 (pow_nonneg (one_sub_pos M).le k) hf0
  · rw [pow_add]; exact mul_le_mul f2 g2 hg0 (pow_nonneg (b_pos M).le j)

theorem inv_pow_b (k : ℕ) : ((b M) ^ k)⁻¹ = (1 - M.u) ^ k := by
  unfold b; rw [one_div, inv_pow, inv_inv]

theorem near_div {j k : ℕ} {x x' y y' : ℝ} (hx : Near M j x x') (hy : Near M k y y') : Near M (j + k) (x / y) (x' / y') := by
  obtain ⟨f, hf, f1, f2⟩ := hx
  obtain ⟨g, hg, g1, g2⟩ := hy
  have hf0 : 0 ≤ f := le_trans (pow_nonneg (one_sub_pos M).le j) f1
  have hgp : 0 < g := lt_of_lt_of_le (pow_pos (one_sub_pos M) k) g1
  refine ⟨f / g, by rw [hf, hg]; field_simp, ?_, ?_⟩
  · rw [pow_add, div_eq_mul_inv]
    refine mul_le_mul f1 ?_ (pow_nonneg (one_sub_pos M).le k) hf0
    rw [← inv_pow_b]
    exact inv_anti₀ hgp g2
  · rw [pow_add, div_eq_mul_inv]
    refine mul_le_mul f2 ?_ (inv_nonneg.mpr hgp.le) (pow_nonneg (b_pos M).le j)
    have : (b M) ^ k = ((1 - M.u) ^ k)⁻¹ := by rw [← inv_pow_b, inv_inv]
    rw [this]
    exact inv_anti₀ (pow_pos (one_sub_pos M) k) g1

theorem near_neg {k : ℕ} {x y : ℝ} (hn : Near M k x y) : Near M k (-x) (-y) := by
  obtain ⟨f, hy, h1, h2⟩ := hn
  exact ⟨f, by rw [hy]; ring, h1, h2⟩

theorem near_zero (k : ℕ) : Near M k 0 0 :=
  ⟨1, by ring, pow_le_one₀ (one_sub_pos M).le (one_sub_le_one M), one_le_pow₀ (one_le_b M)⟩

theorem near_sqrt {k : ℕ} {x y : ℝ} (hx : 0 ≤ x) (hn : Near M k x y) : Near M k (Real.sqrt x) (Real.sqrt y) := by
  obtain ⟨f, hy, h1, h2⟩ := hn
  have hlow : 0 < (1 - M.u) ^ k := pow_pos (one_sub_pos M) k
  have hf0 : 0 ≤ f := le_trans hlow.le h1
  have hlow1 : (1 - M.u) ^ k ≤ 1 := pow_le_one₀ (one_sub_pos M).le (one_sub_le_one M)
  have hup1 : 1 ≤ (b M) ^ k := one_le_pow₀ (one_le_b M)
  have hg0 : 0 ≤ Real.sqrt f := Real.sqrt_nonneg f
  have hgg : Real.sqrt f * Real.sqrt f = f := Real.mul_self_sqrt hf0
  refine ⟨Real.sqrt f, by rw [hy, Real.sqrt_mul hx], ?_, ?_⟩
  · rcases le_total f 1 with h | h
    · have hg1 : Real.sqrt f ≤ 1 := by
        by_contra hc; rw [not_le] at hc; nlinarith
      have : f ≤ Real.sqrt f := by nlinarith
      linarith
    · have : 1 ≤ Real.sqrt f := by
        by_contra hc; rw [not_le] at hc; nlinarith
      linarith
  · rcases le_total f 1 with h | h
    · have hg1 : Real.sqrt f ≤ 1 := by
        by_contra hc; rw [not_le] at hc; nlinarith
      linarith
    · have hg1 : 1 ≤ Real.sqrt f := by
        by_contra hc; rw [not_le] at hc; nlinarith
      have : Real.sqrt f ≤ f := by nlinarith
      linarith

/-- absolute form of `Near`: |y - x| ≤ (b^k - 1)·|x| (no side condition on k·u) -/
theorem near_abs {k : ℕ} {x y : ℝ} (hn : Near M k x y) : |y - x| ≤ ((b M) ^ k - 1) * |x| := by
  obtain ⟨f, hy, h1, h2⟩ := hn
  have hlow : 0 < (1 - M.u) ^ k := pow_pos (one_sub_pos M) k
  have hprod : (1 - M.u) ^ k * (b M) ^ k = 1 := by rw [← mul_pow, mul_comm, b_mul, one_pow]
  have hup1 : 1 ≤ (b M) ^ k := one_le_pow₀ (one_le_b M)
  have hf : |f - 1| ≤ (b M) ^ k - 1 := by
    rw [abs_le]; constructor
    · -- 1 - f ≤ 1 - (1-u)^k ≤ b^k - 1  since (1-u)^k + b^k ≥ 2
      have : 2 ≤ (1 - M.u) ^ k + (b M) ^ k := by nlinarith [sq_nonneg ((b M) ^ k - 1), sq_nonneg ((1 - M.u) ^ k - 1)]
      linarith
    · linarith
  have : y - x = x * (f - 1) := by rw [hy]; ring
  rw [this, abs_mul, mul_comm]
  exact mul_le_mul_of_nonneg_right hf (abs_nonneg x)

/-- Bernoulli: (1-u)^k ≥ 1 - k u -/
theorem pow_ge (k : ℕ) : 1 - k * M.u ≤ (1 - M.u) ^ k := by
  have h := one_add_mul_le_pow (a := -M.u) (by have := M.u_lt; linarith) k
  have e1 : (1 : ℝ) + ↑k * -M.u = 1 - k * M.u := by ring
  have e2 : (1 : ℝ) + -M.u = 1 - M.u := by ring
  rw [e1, e2] at h; exact h

/-- Higham's γ_k = k u / (1 - k u) -/
noncomputable def gamma (k : ℕ) : ℝ := k * M.u / (1 - k * M.u)

theorem gamma_nonneg (k : ℕ) (hk : k * M.u < 1) : 0 ≤ gamma M k := by
  unfold gamma
  exact div_nonneg (mul_nonneg (Nat.cast_nonneg k) M.u_nonneg) (by linarith)

theorem b_pow_le (k : ℕ) (hk : k * M.u < 1) : (b M) ^ k ≤ 1 + gamma M k := by
  have hpos : 0 < 1 - k * M.u := by linarith
  have h1 : (b M) ^ k = ((1 - M.u) ^ k)⁻¹ := by rw [← inv_pow_b, inv_inv]
  rw [h1]
  have h2 : ((1 - M.u) ^ k)⁻¹ ≤ (1 - k * M.u)⁻¹ := inv_anti₀ hpos (pow_ge M k)
  refine le_trans h2 (le_of_eq ?_)
  unfold gamma; field_simp; ring

/-- the relative error of `Near k` is at most γ_k -/
theorem near_err {k : ℕ} {x y : ℝ} (hn : Near M k x y) (hk : k * M.u < 1) : |y - x| ≤ gamma M k * |x| := by
  obtain ⟨f, hy, h1, h2⟩ := hn
  have hpos : 0 < 1 - k * M.u := by linarith
  have hb := b_pow_le M k hk
  have hg := gamma_nonneg M k hk
  have hlow : 1 - gamma M k ≤ 1 - k * M.u := by
    have : (k : ℝ) * M.u ≤ gamma M k := by
      unfold gamma; rw [le_div_iff₀ hpos]
      have : 0 ≤ (k : ℝ) * M.u := mul_nonneg (Nat.cast_nonneg k) M.u_nonneg
      nlinarith
    linarith
  have hf : |f - 1| ≤ gamma M k := by
    rw [abs_le]; constructor
    · have := pow_ge M k; linarith
    · linarith
  have : y - x = x * (f - 1) := by rw [hy]; ring
  rw [this, abs_mul, mul_comm]
  exact mul_le_mul_of_nonneg_right hf (abs_nonneg x)

/-- `Near` keeps the sign (x and y are both negative, both zero or both positive) -/
theorem near_sign {k : ℕ} {x y : ℝ} (hn : Near M k x y) : (y < 0 ↔ x < 0) ∧ (0 < y ↔ 0 < x) ∧ (y = 0 ↔ x = 0) := by
  obtain ⟨f, hy, h1, _⟩ := hn
  have hfp : 0 < f := lt_of_lt_of_le (pow_pos (one_sub_pos M) k) h1
  subst hy
  refine ⟨?_, ?_, ?_⟩
  · constructor
    · intro h; by_contra hx; rw [not_lt] at hx; have := mul_nonneg hx hfp.le; linarith
    · intro h; exact mul_neg_of_neg_of_pos h hfp
  · constructor
    · intro h; by_contra hx; rw [not_lt] at hx; have := mul_nonpos_of_nonpos_of_nonneg hx hfp.le; linarith
    · intro h; exact mul_pos h hfp
  · constructor
    · intro h; rcases mul_eq_zero.mp h with h | h; exact h; exact absurd h hfp.ne'
    · intro h; rw [h]; ring

end Round
end LdpcV
