/- Helper lemmas for C11, part 1: nodes, labels, adjacency, the termination measure. -/
import LdpcV.Spec.GraphSpec
namespace LdpcV.Graph

/-! ### nodes -/

theorem Node.beq_iff (a b : Node) : (a == b) = true ↔ a = b := by
  cases a <;> cases b <;> simp [BEq.beq, instBEqNode.beq]

instance : LawfulBEq Node where
  eq_of_beq {a b} h := (Node.beq_iff a b).1 h
  rfl {a} := (Node.beq_iff a a).2 rfl

def Node.isRow : Node → Bool
  | .row _ => true
  | .col _ => false

/-! ### labels -/

theorem getElem?_set_some {α : Type} (l : List (Option α)) (n m : Nat) (v : α) :
    (l.set n (some v))[m]? = if m = n then l[n]?.map (fun _ => some v) else l[m]? := by
  by_cases hnm : m = n
  · subst hnm
    by_cases hlt : m < l.length
    · simp [hlt]
    · simp [hlt]
  · have : ¬ n = m := fun h' => hnm h'.symm
    simp [hnm, this]

theorem Labels.get_set {α : Type} (l : Labels α) (x y : Node) (v : α) :
    (l.set x v).get y = if y = x then (l.get x).map (fun _ => some v) else l.get y := by
  cases x <;> cases y <;> simp [Labels.set, Labels.get, getElem?_set_some]

theorem Labels.get_set_same {α : Type} (l : Labels α) (x : Node) (v : α) (o : Option α)
    (hx : l.get x = some o) : (l.set x v).get x = some (some v) := by
  simp [Labels.get_set, hx]

theorem Labels.get_set_ne {α : Type} (l : Labels α) (x y : Node) (v : α) (hxy : y ≠ x) :
    (l.set x v).get y = l.get y := by
  simp [Labels.get_set, hxy]

@[simp] theorem Labels.rows_length_set {α : Type} (l : Labels α) (x : Node) (v : α) :
    (l.set x v).rows.length = l.rows.length := by
  cases x <;> simp [Labels.set]

@[simp] theorem Labels.cols_length_set {α : Type} (l : Labels α) (x : Node) (v : α) :
    (l.set x v).cols.length = l.cols.length := by
  cases x <;> simp [Labels.set]

/-- the label arrays have the dimensions of the matrix -/
def Labels.Sized {α : Type} (h : SM) (l : Labels α) : Prop :=
  l.rows.length = h.nrows ∧ l.cols.length = h.ncols

theorem Labels.Sized.set {α : Type} {h : SM} {l : Labels α} (hs : l.Sized h) (x : Node) (v : α) :
    (l.set x v).Sized h := by
  simpa [Labels.Sized] using hs

theorem Labels.Sized.blank {α : Type} (h : SM) : (Labels.blank h : Labels α).Sized h := by
  simp [Labels.Sized, Labels.blank]

theorem Labels.Sized.get_isSome {α : Type} {h : SM} {l : Labels α} (hs : l.Sized h) (x : Node) :
    (∃ o, l.get x = some o) ↔ inRange h x = true := by
  cases x <;> simp only [Labels.get, inRange, decide_eq_true_eq, ← hs.1, ← hs.2]
  all_goals
    constructor
    · rintro ⟨o, ho⟩; exact (List.getElem?_eq_some_iff.1 ho).1
    · intro hlt; exact ⟨_, List.getElem?_eq_getElem hlt⟩

theorem Labels.get_blank {α : Type} (h : SM) (x : Node) (hx : inRange h x = true) :
    (Labels.blank h : Labels α).get x = some none := by
  cases x <;> simp [Labels.get, Labels.blank, inRange] at * <;> simp [hx]

/-- number of unlabelled positions -/
def Labels.unl {α : Type} (l : Labels α) : Nat :=
  l.rows.countP Option.isNone + l.cols.countP Option.isNone

theorem Labels.unl_set {α : Type} (l : Labels α) (x : Node) (v : α) (hx : l.get x = some none) :
    (l.set x v).unl + 1 = l.unl := by
  cases x <;> simp only [Labels.get] at hx <;>
    obtain ⟨hlt, hv⟩ := List.getElem?_eq_some_iff.1 hx <;>
    simp [Labels.unl, Labels.set, List.countP_set hlt, hv] <;>
    have := (List.countP_pos_iff (p := Option.isNone)).2 ⟨_, List.getElem_mem hlt, by rw [hv]; rfl⟩ <;> omega

theorem Labels.unl_blank {α : Type} (h : SM) : (Labels.blank h : Labels α).unl = h.nrows + h.ncols := by
  simp [Labels.unl, Labels.blank, List.countP_replicate]

/-! ### adjacency -/

theorem Adj.symm {h : SM} {a b : Node} (hab : Adj h a b) : Adj h b a := by
  cases a <;> cases b <;> simp_all [Adj]

theorem Adj.ne {h : SM} {a b : Node} (hab : Adj h a b) : a ≠ b := by
  cases a <;> cases b <;> simp_all [Adj]

theorem Adj.isRow {h : SM} {a b : Node} (hab : Adj h a b) : b.isRow = !a.isRow := by
  cases a <;> cases b <;> simp_all [Adj, Node.isRow]

theorem Adj.inRange_left {h : SM} (hinv : h.Inv) {a b : Node} (hab : Adj h a b) : inRange h a = true := by
  cases a <;> cases b <;> simp only [Adj, SM.mem_iff] at hab
  · simpa [inRange] using (hinv.1 _ _ hab).1
  · simpa [inRange] using (hinv.1 _ _ hab).2.1

theorem Adj.inRange_right {h : SM} (hinv : h.Inv) {a b : Node} (hab : Adj h a b) : inRange h b = true :=
  hab.symm.inRange_left hinv

theorem mem_neighbours {h : SM} (hinv : h.Inv) (a b : Node) : b ∈ neighbours h a ↔ Adj h a b := by
  cases a <;> cases b <;> simp only [neighbours, Adj, SM.mem_iff, List.mem_map, Node.row.injEq,
    Node.col.injEq, reduceCtorEq, and_false, exists_false, exists_eq_right]
  rename_i c r
  exact ⟨fun hm => (hinv.2.1 r c hm).2.2, fun hm => (hinv.1 r c hm).2.2⟩

/-- the entries produced by `PathHead.next` -/
theorem mem_next {h : SM} (hinv : h.Inv) (p nh : PathHead) :
    nh ∈ p.next h ↔ Adj h p.node nh.node ∧ (∀ q, p.parent = some q → nh.node ≠ q) ∧
      nh.parent = some p.node ∧ nh.len = p.len + 1 := by
  simp only [PathHead.next, List.mem_map, List.mem_filter, mem_neighbours hinv]
  constructor
  · rintro ⟨x, ⟨hadj, hf⟩, rfl⟩
    refine ⟨hadj, ?_, rfl, rfl⟩
    intro q hq; simp only [hq] at hf; simpa using hf
  · rintro ⟨hadj, hf, hp, hl⟩
    refine ⟨nh.node, ⟨hadj, ?_⟩, ?_⟩
    · cases hq : p.parent with
      | none => rfl
      | some q => simpa using hf q hq
    · cases nh; simp_all

/-! ### walks -/

theorem Walk.inRange_left {h : SM} (hinv : h.Inv) {a b : Node} {n : Nat} (w : Walk h a b n) :
    inRange h a = true := by
  cases w with
  | nil _ hr => exact hr
  | cons hab _ => exact hab.inRange_left hinv

theorem Walk.snoc {h : SM} (hinv : h.Inv) {a b c : Node} {n : Nat} (w : Walk h a b n) (hbc : Adj h b c) :
    Walk h a c (n + 1) := by
  induction w with
  | nil a hr => exact .cons hbc (.nil _ (hbc.inRange_right hinv))
  | cons hab _ ih => exact .cons hab (ih hbc)

end LdpcV.Graph
