/-
EchelonLemmas4 — bridges between the list-level specification vocabulary (`dot`, `mulVec`, `rowComb`,
`RowsIndep`, `Nonsingular`, `denseOf`, `tailMat`) and the function-level algebra of EchelonLemmas1,
and the column-copy loop of `paritySystematic`.
-/
import LdpcV.Lemmas.EchelonLemmas3
namespace LdpcV.Lin
open LdpcV.SM

/-! ### sums -/

theorem e_foldl_xor (l : List Bool) (b : Bool) : l.foldl xor b = xor b (l.foldl xor false) := by
  induction l generalizing b with
  | nil => simp
  | cons x l ih =>
    simp only [List.foldl_cons]
    rw [ih (xor b x), ih (xor false x)]
    cases b <;> cases x <;> simp

theorem e_xorAll_cons (b : Bool) (l : List Bool) : xorAll (b :: l) = xor b (xorAll l) := by
  simp only [xorAll, List.foldl_cons]
  rw [e_foldl_xor]; simp

theorem e_csum_shift (n : Nat) (f : Nat → Bool) :
    e_csum (n + 1) f = xor (f 0) (e_csum n (fun i => f (i + 1))) := by
  induction n with
  | zero => simp [e_csum]
  | succ n ih =>
    rw [e_csum, ih]
    simp only [e_csum]
    cases f 0 <;> cases e_csum n (fun i => f (i + 1)) <;> cases f (n + 1) <;> rfl

theorem e_xorAll_eq_csum (l : List Bool) : xorAll l = e_csum l.length (fun i => l.getD i false) := by
  induction l with
  | nil => rfl
  | cons b l ih =>
    rw [e_xorAll_cons, List.length_cons, e_csum_shift, ih]
    simp

theorem e_isZero_iff (v : List Bool) : isZero v ↔ ∀ c, c < v.length → v.getD c false = false := by
  constructor
  · intro h c hc
    have : v.getD c false = v[c] := by simp [List.getD_eq_getElem?_getD, hc]
    rw [this]; exact h _ (List.getElem_mem hc)
  · intro h b hb
    obtain ⟨c, hc, rfl⟩ := List.mem_iff_getElem.mp hb
    have := h c hc
    simpa [List.getD_eq_getElem?_getD, hc] using this

theorem e_dot_csum (row x : List Bool) (n : Nat) (h1 : row.length = n) (h2 : x.length = n) :
    dot row x = e_csum n (fun c => row.getD c false && x.getD c false) := by
  rw [dot, e_xorAll_eq_csum]
  simp only [List.length_map, List.length_zip, h1, h2, Nat.min_self]
  apply e_csum_congr
  intro i hi
  simp only [List.getD_eq_getElem?_getD, List.getElem?_map, e_zip_getElem?]
  rw [List.getElem?_eq_getElem (by omega : i < row.length), List.getElem?_eq_getElem (by omega : i < x.length)]
  simp

theorem e_getD_map_range (n : Nat) (f : Nat → Bool) (c : Nat) (hc : c < n) :
    ((List.range n).map f).getD c false = f c := by
  simp [List.getD_eq_getElem?_getD, hc]

theorem e_mulVec_zero (a : Mat) (n w : Nat) (x : List Bool) (hs : e_Shape n w a) (hx : x.length = w)
    (hz : isZero (a.mulVec x)) :
    ∀ r, r < n → e_csum w (fun c => a.get r c && x.getD c false) = false := by
  intro r hr
  have hra : r < a.length := by rw [hs.1]; exact hr
  have h1 : dot a[r] x ∈ a.mulVec x := by
    simp only [Mat.mulVec, List.mem_map]
    exact ⟨a[r], List.getElem_mem hra, rfl⟩
  have h2 := hz _ h1
  have h3 : a.getD r [] = a[r] := by simp [List.getD_eq_getElem?_getD, hra]
  have h4 := hs.2 r hr
  rw [h3] at h4
  rw [e_dot_csum _ _ w h4 hx] at h2
  refine Eq.trans ?_ h2
  apply e_csum_congr
  intro c _
  simp only [Mat.get, h3]

/-! ### `rowComb` -/

theorem e_vxor_length (a b : List Bool) (h : b.length = a.length) : (vxor a b).length = a.length := by
  simp [vxor, List.length_zip, h]

theorem e_vxor_getD (a b : List Bool) (c : Nat) (h : b.length = a.length) :
    (vxor a b).getD c false = xor (a.getD c false) (b.getD c false) := by
  simp only [vxor, List.getD_eq_getElem?_getD, List.getElem?_map, e_zip_getElem?]
  by_cases hc : c < a.length
  · rw [List.getElem?_eq_getElem hc, List.getElem?_eq_getElem (by omega : c < b.length)]
    simp
  · rw [List.getElem?_eq_none (by omega : a.length ≤ c), List.getElem?_eq_none (by omega : b.length ≤ c)]
    simp

theorem e_foldl_comb (l : List (List Bool × Bool)) (acc : List Bool)
    (hl : ∀ q ∈ l, q.1.length = acc.length) :
    (l.foldl (fun acc p => if p.2 then vxor acc p.1 else acc) acc).length = acc.length ∧
    ∀ c, (l.foldl (fun acc p => if p.2 then vxor acc p.1 else acc) acc).getD c false =
      xor (acc.getD c false) (xorAll (l.map (fun q => q.2 && q.1.getD c false))) := by
  induction l generalizing acc with
  | nil => simp [xorAll]
  | cons q l ih =>
    have hq := hl q (List.mem_cons_self ..)
    simp only [List.foldl_cons, List.map_cons]
    cases hq2 : q.2 with
    | false =>
      simp only [Bool.false_eq_true, if_false]
      have := ih acc (fun q' hq' => hl q' (List.mem_cons_of_mem _ hq'))
      refine ⟨this.1, fun c => ?_⟩
      rw [this.2 c, e_xorAll_cons]; simp
    | true =>
      simp only [if_true]
      have hlen := e_vxor_length acc q.1 hq
      have := ih (vxor acc q.1) (fun q' hq' => by rw [hlen]; exact hl q' (List.mem_cons_of_mem _ hq'))
      refine ⟨this.1.trans hlen, fun c => ?_⟩
      rw [this.2 c, e_xorAll_cons, e_vxor_getD _ _ _ hq]
      simp only [Bool.true_and]
      cases acc.getD c false <;> cases q.1.getD c false <;> simp

theorem e_rowComb_spec (a : Mat) (n m : Nat) (y : List Bool) (hs : e_Shape n m a) (hy : y.length = n) :
    (rowComb a y m).length = m ∧
    ∀ c, (rowComb a y m).getD c false = e_csum n (fun i => y.getD i false && a.get i c) := by
  have hl : ∀ q ∈ a.zip y, q.1.length = (List.replicate m false).length := by
    intro q hq
    have hq1 : q.1 ∈ a := (List.of_mem_zip hq).1
    obtain ⟨i, hi, hqi⟩ := List.mem_iff_getElem.mp hq1
    have := hs.2 i (by rw [← hs.1]; exact hi)
    simp only [List.getD_eq_getElem?_getD, List.getElem?_eq_getElem hi, Option.getD_some] at this
    rw [← hqi, this]; simp
  have := e_foldl_comb (a.zip y) (List.replicate m false) hl
  refine ⟨by rw [rowComb, this.1]; simp, fun c => ?_⟩
  rw [rowComb, this.2 c, e_xorAll_eq_csum]
  have hz : (List.replicate m false).getD c false = false := by
    simp only [List.getD_eq_getElem?_getD, List.getElem?_replicate]; split <;> rfl
  rw [hz]
  simp only [List.length_map, List.length_zip, hs.1, hy, Nat.min_self, Bool.false_xor]
  apply e_csum_congr
  intro i hi
  simp only [List.getD_eq_getElem?_getD, List.getElem?_map, e_zip_getElem?, Mat.get]
  rw [List.getElem?_eq_getElem (by have := hs.1; omega : i < a.length),
    List.getElem?_eq_getElem (by omega : i < y.length)]
  simp

theorem e_rowsIndep_iff (a : Mat) (n m : Nat) (hs : e_Shape n m a) :
    RowsIndep a m ↔ e_IndepF n m a.get := by
  constructor
  · intro hind y hy i hi
    have hlen : ((List.range n).map y).length = a.length := by simp [hs.1]
    have hsp := e_rowComb_spec a n m ((List.range n).map y) hs (by simp)
    have hz : isZero (rowComb a ((List.range n).map y) m) := by
      rw [e_isZero_iff]
      intro c hc
      rw [hsp.1] at hc
      rw [hsp.2 c]
      refine Eq.trans ?_ (hy c hc)
      apply e_csum_congr
      intro i hi
      rw [e_getD_map_range n y i hi]
    have h1 := hind _ hlen hz
    rw [e_isZero_iff] at h1
    have := h1 i (by simpa using hi)
    rwa [e_getD_map_range n y i hi] at this
  · intro hind y hy hz
    rw [hs.1] at hy
    have hsp := e_rowComb_spec a n m y hs hy
    rw [e_isZero_iff] at hz ⊢
    have := hind (fun i => y.getD i false) (by
      intro c hc
      rw [← hsp.2 c]
      exact hz c (by rw [hsp.1]; exact hc))
    intro c hc
    exact this c (by omega)

/-! ### `denseOf`, `ofSM`, `tailMat` -/

theorem e_ofSM_id (h : SM) : ofSM h id = denseOf h := by
  unfold ofSM denseOf
  apply List.map_congr_left
  intro r _
  apply List.map_congr_left
  intro t _
  simp only [SM.mem, id]
  rw [Bool.eq_iff_iff]
  simp

theorem e_getD_map_range_list (n : Nat) (f : Nat → List Bool) (r : Nat) (hr : r < n) :
    ((List.range n).map f).getD r [] = f r := by
  simp [List.getD_eq_getElem?_getD, hr]

theorem e_denseOf_shape (h : SM) : e_Shape h.nrows h.ncols (denseOf h) := by
  refine ⟨by simp [denseOf], ?_⟩
  intro r hr
  rw [denseOf, e_getD_map_range_list _ _ r hr]; simp

theorem e_denseOf_get (h : SM) (r c : Nat) (hr : r < h.nrows) (hc : c < h.ncols) :
    (denseOf h).get r c = h.mem r c := by
  rw [Mat.get, denseOf, e_getD_map_range_list _ _ r hr, e_getD_map_range _ _ c hc]

theorem e_tailMat_shape (g : SM) : e_Shape g.nrows g.nrows (tailMat g) := by
  refine ⟨by simp [tailMat], ?_⟩
  intro r hr
  rw [tailMat, e_getD_map_range_list _ _ r hr]; simp

theorem e_tailMat_get (g : SM) (r c : Nat) (hr : r < g.nrows) (hc : c < g.nrows) :
    (tailMat g).get r c = g.mem r (g.ncols - g.nrows + c) := by
  rw [Mat.get, tailMat, e_getD_map_range_list _ _ r hr, e_getD_map_range _ _ c hc]

/-! ### the column-copy loop -/

theorem e_new_col (nr nc c : Nat) : (SM.new nr nc).col c = [] := by
  simp only [SM.new, SM.col, List.getD_eq_getElem?_getD, List.getElem?_replicate]; split <;> rfl

theorem e_insertCol_col (rs : List Nat) (g : SM) (c : Nat) (hinv : g.Inv) (hc : c < g.ncols)
    (hrs : ∀ r ∈ rs, r < g.nrows) (hnd : (g.col c ++ rs).Nodup) :
    ∃ g', rs.foldlM (fun g u => g.insert u c) g = some g' ∧ g'.Inv ∧ g'.nrows = g.nrows ∧
      g'.ncols = g.ncols ∧ g'.col c = g.col c ++ rs ∧ ∀ c', c' ≠ c → g'.col c' = g.col c' := by
  induction rs generalizing g with
  | nil => exact ⟨g, rfl, hinv, rfl, rfl, by simp, fun _ _ => rfl⟩
  | cons r rs ih =>
    have hr : r < g.nrows := hrs r (List.mem_cons_self ..)
    have hi : g.insert r c = some (g.insertRaw r c) := by simp [SM.insert, SM.inRange, hr, hc]
    have hnot : r ∉ g.col c := by
      intro hmem
      rw [List.nodup_append] at hnd
      exact hnd.2.2 r hmem r (List.mem_cons_self ..) rfl
    have hhas : g.has r c = false := by
      cases hh : g.has r c with
      | false => rfl
      | true => exact absurd ((has_iff g r c).mp hh) hnot
    have hcol := fun j => col_insertRaw g r c j hhas hc
    obtain ⟨g', h1, h2, h3, h4, h5, h6⟩ := ih (g.insertRaw r c) (insertRaw_inv g r c hinv hr hc)
      (by simpa using hc) (fun r' hr' => by simpa using hrs r' (List.mem_cons_of_mem _ hr'))
      (by rw [hcol c]; simpa using hnd)
    refine ⟨g', ?_, h2, by simpa using h3, by simpa using h4, ?_, ?_⟩
    · simp only [List.foldlM_cons, hi]; exact h1
    · rw [h5, hcol c]; simp
    · intro c' hc'
      rw [h6 c' hc', hcol c']; simp [hc']

theorem e_copy_spec (h : SM) (hinv : h.Inv) (pl : List (Nat × Nat)) (g : SM) (ginv : g.Inv)
    (hr : g.nrows = h.nrows) (hd : ∀ q ∈ pl, q.1 < g.ncols) (hnd : (pl.map Prod.fst).Nodup)
    (hempty : ∀ q ∈ pl, g.col q.1 = []) :
    ∃ g', pl.foldlM (fun g q => (h.col q.2).foldlM (fun g u => g.insert u q.1) g) g = some g' ∧
      g'.Inv ∧ g'.nrows = g.nrows ∧ g'.ncols = g.ncols ∧ (∀ q ∈ pl, g'.col q.1 = h.col q.2) ∧
      ∀ c, c ∉ pl.map Prod.fst → g'.col c = g.col c := by
  induction pl generalizing g with
  | nil => exact ⟨g, rfl, ginv, rfl, rfl, by simp, fun _ _ => rfl⟩
  | cons q pl ih =>
    have hq := hd q (List.mem_cons_self ..)
    have he := hempty q (List.mem_cons_self ..)
    simp only [List.map_cons, List.nodup_cons] at hnd
    obtain ⟨g1, a1, a2, a3, a4, a5, a6⟩ := e_insertCol_col (h.col q.2) g q.1 ginv hq
      (fun r hr' => by rw [hr]; exact (hinv.2.1 r q.2 hr').1)
      (by rw [he]; simpa using hinv.2.2.2 q.2)
    have hne : ∀ q' ∈ pl, q'.1 ≠ q.1 := by
      intro q' hq' heq
      exact hnd.1 (heq ▸ List.mem_map_of_mem (f := Prod.fst) hq')
    obtain ⟨g', b1, b2, b3, b4, b5, b6⟩ := ih g1 a2 (a3.trans hr)
      (fun q' hq' => by rw [a4]; exact hd q' (List.mem_cons_of_mem _ hq')) hnd.2
      (fun q' hq' => by rw [a6 _ (hne q' hq')]; exact hempty q' (List.mem_cons_of_mem _ hq'))
    refine ⟨g', ?_, b2, b3.trans a3, b4.trans a4, ?_, ?_⟩
    · simp only [List.foldlM_cons, a1]; exact b1
    · intro q' hq'
      rcases List.mem_cons.mp hq' with rfl | hq'
      · rw [b6 _ hnd.1, a5, he]; simp
      · exact b5 q' hq'
    · intro c hc
      simp only [List.map_cons, List.mem_cons, not_or] at hc
      rw [b6 c hc.2, a6 c hc.1]

end LdpcV.Lin
