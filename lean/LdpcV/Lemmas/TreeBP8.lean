/-
Helper development for C03Tree, part 8: exactness of the flooding LLR under the height bound, and the layered schedule
(every layered message whose subtree has stabilised equals the flooding message of the corresponding depth).
-/
import LdpcV.Lemmas.TreeBP6
namespace LdpcV.TreeBP
open LdpcV

/-! ### flooding -/

theorem posterior_real (h : SM) (lam : List ℝ) (v : Nat) :
    Ideal.posterior Sc.real h lam v =
      Real.log (Ideal.mass Sc.real h lam v false / Ideal.mass Sc.real h lam v true) := rfl

/-- flooding LLR after `t` iterations = true posterior, when the computation tree of `v` has no repeated variable and
height ≤ `t` -/
theorem flood_core {h : SM} (hinv : h.Inv) (hdeg : ∀ r ∈ h.rows, 2 ≤ r.length) (lam : List ℝ)
    (hl : lam.length = h.ncols) (t v : Nat) (hv : v < h.ncols) (hN : (v :: Dv h t v h.nrows).Nodup)
    (hL : Lv h t v h.nrows) :
    0 < Ideal.mass Sc.real h lam v false ∧ 0 < Ideal.mass Sc.real h lam v true ∧
      L h lam t v = Ideal.posterior Sc.real h lam v := by
  obtain ⟨K, hK, hm⟩ := mass_factor hinv lam hl t v hv hN hL
  have z0 := Ztot_pos hinv hdeg lam t v false
  have z1 := Ztot_pos hinv hdeg lam t v true
  refine ⟨by rw [hm]; positivity, by rw [hm]; positivity, ?_⟩
  rw [posterior_real, hm, hm, mul_div_mul_left _ _ hK.ne', L_exact hinv hdeg lam t v]

/-! ### layered -/

theorem chkMsg_congr (h : SM) (x x' : Nat → Nat → ℝ) (c v : Nat)
    (hx : ∀ u ∈ oth (h.row c) v, x u c = x' u c) : chkMsg h x c v = chkMsg h x' c v := by
  unfold chkMsg
  have e : (oth (h.row c) v).map (fun u => Real.tanh (1 / 2 * x u c)) =
      (oth (h.row c) v).map (fun u => Real.tanh (1 / 2 * x' u c)) :=
    List.map_congr_left (fun u hu => by rw [hx u hu])
  rw [e]

theorem stepL_same (h : SM) (lam : List ℝ) (m : Nat → Nat → ℝ) (c v : Nat) :
    stepL h lam m c c v = chkMsg h (fun u _ => totLlr h lam m u - m c u) c v := by
  simp [stepL]

theorem stepL_other (h : SM) (lam : List ℝ) (m : Nat → Nat → ℝ) (c c' v : Nat) (hne : c' ≠ c) :
    stepL h lam m c c' v = m c' v := by
  simp [stepL, hne]

/-- extrinsic form of the flooding variable message -/
theorem X_succ_ext {h : SM} (hinv : h.Inv) (lam : List ℝ) (t v c : Nat) (hc : c ∈ h.col v) :
    X h lam (t + 1) v c = lamAt lam v + ((oth (h.col v) c).map (fun c' => M h lam (t + 1) c' v)).sum := by
  simp only [X, totLlr, M]
  rw [sum_map_oth (hinv.2.2.2 v) hc (fun c' => chkMsg h (X h lam t) c' v)]
  ring

/-- the subtree below check `c` seen from `v` has at most `s` further levels of checks -/
def Hc (h : SM) (s c v : Nat) : Prop := ∀ u ∈ h.row c, u ≠ v → Lv h s u c

/-- mid-sweep invariant: messages of stabilised subtrees equal the flooding messages; the checks `< c0` have already
been processed in sweep `k + 1` -/
def LInv (h : SM) (lam : List ℝ) (k c0 : Nat) (m : Nat → Nat → ℝ) : Prop :=
  ∀ c v, v ∈ h.row c → ∀ s, (s < k ∨ (s = k ∧ c < c0)) → Hc h s c v → m c v = M h lam (s + 1) c v

theorem LInv_step {h : SM} (hinv : h.Inv) (lam : List ℝ) (k c0 : Nat) (m : Nat → Nat → ℝ)
    (hI : LInv h lam k c0 m) : LInv h lam k (c0 + 1) (stepL h lam m c0) := by
  intro c v hv s hs hH
  by_cases hc : c = c0
  · subst hc
    rw [stepL_same]
    show _ = chkMsg h (X h lam s) c v
    apply chkMsg_congr
    intro u hu
    obtain ⟨hur, huv⟩ := mem_oth.1 hu
    have hcu : c ∈ h.col u := col_of_row hinv hur
    have hLu : Lv h s u c := hH u hur huv
    show totLlr h lam m u - m c u = X h lam s u c
    have e1 : totLlr h lam m u - m c u = lamAt lam u + ((oth (h.col u) c).map (fun c' => m c' u)).sum := by
      simp only [totLlr]
      rw [sum_map_oth (hinv.2.2.2 u) hcu (fun c' => m c' u)]
      ring
    rw [e1]
    cases s with
    | zero =>
      have : oth (h.col u) c = [] := by
        rw [oth, List.filter_eq_nil_iff]
        intro c' hc'
        simp [hLu c' hc']
      rw [this]
      simp [X]
    | succ s0 =>
      rw [X_succ_ext hinv lam s0 u c hcu]
      congr 2
      apply List.map_congr_left
      intro c' hc'
      obtain ⟨hc'u, hc'c⟩ := mem_oth.1 hc'
      apply hI c' u (row_of_col hinv hc'u) s0
      · left
        rcases hs with hlt | ⟨he, _⟩ <;> omega
      · intro u' hu' hu'u
        exact hLu c' hc'u hc'c u' hu' hu'u
  · rw [stepL_other h lam m c0 c v hc]
    apply hI c v hv s _ hH
    rcases hs with hlt | ⟨he, hlt⟩
    · exact Or.inl hlt
    · exact Or.inr ⟨he, by omega⟩

theorem LInv_fold {h : SM} (hinv : h.Inv) (lam : List ℝ) (k : Nat) (m : Nat → Nat → ℝ)
    (hI : LInv h lam k 0 m) (n : Nat) : LInv h lam k n ((List.range n).foldl (stepL h lam) m) := by
  induction n with
  | zero => simpa using hI
  | succ n ih =>
    rw [List.range_succ, List.foldl_append]
    exact LInv_step hinv lam k n _ ih

theorem LInv_mL {h : SM} (hinv : h.Inv) (lam : List ℝ) (t : Nat) : LInv h lam t 0 (mL h lam t) := by
  induction t with
  | zero =>
    intro c v _ s hs _
    rcases hs with hlt | ⟨_, hlt⟩ <;> omega
  | succ t ih =>
    have hf := LInv_fold hinv lam t _ ih h.nrows
    intro c v hv s hs hH
    apply hf c v hv s _ hH
    have hc : c < h.nrows := (hinv.1 c v hv).1
    rcases hs with hlt | ⟨_, hlt⟩
    · by_cases e : s = t
      · exact Or.inr ⟨e, hc⟩
      · left; omega
    · omega

/-- the layered total of `v` after `t` sweeps is the flooding LLR after `t` iterations when the tree of `v` has
height ≤ `t` -/
theorem layer_total_eq {h : SM} (hinv : h.Inv) (lam : List ℝ) (t v : Nat) (hL : Lv h t v h.nrows) :
    totLlr h lam (mL h lam t) v = L h lam t v := by
  cases t with
  | zero =>
    have : h.col v = [] := by
      rw [List.eq_nil_iff_forall_not_mem]
      intro c hc
      exact nrows_not_mem_col hinv v (hL c hc ▸ hc)
    simp [totLlr, L, this]
  | succ s =>
    show _ = totLlr h lam (chkMsg h (X h lam s)) v
    simp only [totLlr]
    congr 2
    apply List.map_congr_left
    intro c hc
    have hne : c ≠ h.nrows := fun e => nrows_not_mem_col hinv v (e ▸ hc)
    exact LInv_mL hinv lam (s + 1) c v (row_of_col hinv hc) s (Or.inl (by omega))
      (fun u hu huv => hL c hc hne u hu huv)

end LdpcV.TreeBP
