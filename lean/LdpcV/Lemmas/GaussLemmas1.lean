/-
GaussLemmas1 — GF(2) sums indexed by `Nat` (`g_xsum`) and the bridges from the list vocabulary
(`xorAll`, `dot`, `Mat.mulVec`, `isZero`, `parityOK`, `syndromeOK`) to them.  Core only.
-/
import LdpcV.Spec.GF2Spec
namespace LdpcV.Lin

/-! ### Bool algebra -/

theorem g_xor_left_comm (a b c : Bool) : xor a (xor b c) = xor b (xor a c) := by
  cases a <;> cases b <;> cases c <;> rfl

/-! ### `xorAll` -/

theorem g_foldl_xor (l : List Bool) (b : Bool) : l.foldl xor b = xor b (l.foldl xor false) := by
  induction l generalizing b with
  | nil => simp
  | cons a l ih =>
    simp only [List.foldl_cons, Bool.false_xor]
    rw [ih (xor b a), ih a, Bool.xor_assoc]

@[simp] theorem g_xorAll_nil : xorAll [] = false := rfl

theorem g_xorAll_cons (a : Bool) (l : List Bool) : xorAll (a :: l) = xor a (xorAll l) := by
  simp only [xorAll, List.foldl_cons, Bool.false_xor]
  exact g_foldl_xor l a

/-! ### sums over `0..n` -/

/-- `F 0 ⊕ F 1 ⊕ … ⊕ F (n-1)` -/
def g_xsum : Nat → (Nat → Bool) → Bool
  | 0, _ => false
  | n + 1, F => xor (g_xsum n F) (F n)

@[simp] theorem g_xsum_zero (F : Nat → Bool) : g_xsum 0 F = false := rfl
theorem g_xsum_succ (n : Nat) (F : Nat → Bool) : g_xsum (n + 1) F = xor (g_xsum n F) (F n) := rfl

theorem g_xsum_succ' (n : Nat) (F : Nat → Bool) :
    g_xsum (n + 1) F = xor (F 0) (g_xsum n (fun i => F (i + 1))) := by
  induction n with
  | zero => simp [g_xsum]
  | succ n ih =>
    rw [g_xsum_succ, ih, g_xsum_succ, Bool.xor_assoc]

theorem g_xsum_congr {n : Nat} {F G : Nat → Bool} (h : ∀ i, i < n → F i = G i) :
    g_xsum n F = g_xsum n G := by
  induction n with
  | zero => rfl
  | succ n ih =>
    rw [g_xsum_succ, g_xsum_succ, ih (fun i hi => h i (by omega)), h n (by omega)]

theorem g_xsum_false {n : Nat} {F : Nat → Bool} (h : ∀ i, i < n → F i = false) :
    g_xsum n F = false := by
  induction n with
  | zero => rfl
  | succ n ih =>
    rw [g_xsum_succ, ih (fun i hi => h i (by omega)), h n (by omega)]; rfl

theorem g_xsum_xor (n : Nat) (F G : Nat → Bool) :
    g_xsum n (fun i => xor (F i) (G i)) = xor (g_xsum n F) (g_xsum n G) := by
  induction n with
  | zero => rfl
  | succ n ih =>
    simp only [g_xsum_succ, ih]
    cases g_xsum n F <;> cases g_xsum n G <;> cases F n <;> cases G n <;> rfl

theorem g_xsum_and_const (n : Nat) (F : Nat → Bool) (b : Bool) :
    g_xsum n (fun i => F i && b) = (g_xsum n F && b) := by
  induction n with
  | zero => rfl
  | succ n ih =>
    simp only [g_xsum_succ, ih]
    cases g_xsum n F <;> cases F n <;> cases b <;> rfl

/-- a sum whose terms vanish except at `k` -/
theorem g_xsum_single {n k : Nat} {F : Nat → Bool} (hk : k < n)
    (h : ∀ i, i < n → i ≠ k → F i = false) : g_xsum n F = F k := by
  induction n with
  | zero => omega
  | succ n ih =>
    rw [g_xsum_succ]
    by_cases hkn : k = n
    · subst hkn
      rw [g_xsum_false (fun i hi => h i (by omega) (by omega))]; simp
    · rw [ih (by omega) (fun i hi hne => h i (by omega) hne), h n (by omega) (by omega)]; simp

theorem g_xsum_ite_eq (n k : Nat) (v : Bool) :
    g_xsum n (fun i => if i = k then v else false) = if k < n then v else false := by
  by_cases hk : k < n
  · rw [g_xsum_single hk (fun i _ hne => by simp [hne])]; simp [hk]
  · have h0 : ∀ i, i < n → (fun i => if i = k then v else false) i = false := by
      intro i hi
      have : i ≠ k := by omega
      simp [this]
    rw [g_xsum_false h0]; simp [hk]

/-- split a sum at `n` -/
theorem g_xsum_add (n k : Nat) (F : Nat → Bool) :
    g_xsum (n + k) F = xor (g_xsum n F) (g_xsum k (fun i => F (n + i))) := by
  induction k with
  | zero => simp
  | succ k ih =>
    rw [← Nat.add_assoc, g_xsum_succ, ih, g_xsum_succ, Bool.xor_assoc]

/-- trailing zero terms can be dropped -/
theorem g_xsum_extend {n n' : Nat} {F : Nat → Bool} (hn : n ≤ n')
    (h : ∀ i, n ≤ i → i < n' → F i = false) : g_xsum n' F = g_xsum n F := by
  obtain ⟨k, rfl⟩ := Nat.exists_eq_add_of_le hn
  rw [g_xsum_add, g_xsum_false (fun i hi => h (n + i) (by omega) (by omega))]; simp

/-- changing the vector at one coordinate changes a row sum by the matrix entry there -/
theorem g_xsum_update (n t : Nat) (ht : t < n) (A x : Nat → Bool) (s : Bool) :
    g_xsum n (fun c => A c && (if c = t then xor (x t) s else x c)) =
      xor (g_xsum n (fun c => A c && x c)) (A t && s) := by
  have : ∀ c, c < n → (A c && (if c = t then xor (x t) s else x c)) =
      xor (A c && x c) (if c = t then (A t && s) else false) := by
    intro c _
    by_cases hc : c = t
    · subst hc; simp; cases A c <;> cases x c <;> cases s <;> rfl
    · simp [hc]
  rw [g_xsum_congr this, g_xsum_xor, g_xsum_ite_eq]; simp [ht]

/-! ### lists as functions -/

theorem g_xorAll_eq_xsum (l : List Bool) : xorAll l = g_xsum l.length (fun i => l.getD i false) := by
  induction l with
  | nil => rfl
  | cons a l ih =>
    rw [g_xorAll_cons, List.length_cons, g_xsum_succ', ih]
    simp

theorem g_xorAll_map_range (n : Nat) (F : Nat → Bool) :
    xorAll ((List.range n).map F) = g_xsum n F := by
  rw [g_xorAll_eq_xsum]
  simp only [List.length_map, List.length_range]
  apply g_xsum_congr
  intro i hi
  simp [List.getD_eq_getElem?_getD, hi]

theorem g_getD_of_le {α : Type} (l : List α) (i : Nat) (d : α) (h : l.length ≤ i) : l.getD i d = d := by
  simp [List.getD_eq_getElem?_getD, List.getElem?_eq_none h]

/-- the dot product as a sum, over any bound `K` that covers the shorter of the two lists -/
theorem g_dot_eq (row x : List Bool) (K : Nat) (hK : min row.length x.length ≤ K) :
    dot row x = g_xsum K (fun c => row.getD c false && x.getD c false) := by
  rw [dot, g_xorAll_eq_xsum]
  simp only [List.length_map, List.length_zip]
  rw [g_xsum_extend hK]
  · apply g_xsum_congr
    intro i hi
    have h1 : i < row.length := by omega
    have h2 : i < x.length := by omega
    have h3 : i < (row.zip x).length := by simp; omega
    simp [List.getD_eq_getElem?_getD, h1, h2, List.getElem?_eq_getElem h3]
  · intro i h1 _
    by_cases h2 : row.length ≤ i
    · rw [g_getD_of_le _ _ _ h2]; rfl
    · have h3 : x.length ≤ i := by omega
      rw [g_getD_of_le _ _ _ h3]; simp

theorem g_isZero_iff (v : List Bool) : isZero v ↔ ∀ i, i < v.length → v.getD i false = false := by
  constructor
  · intro h i hi
    apply h
    simp [List.getD_eq_getElem?_getD, hi]
  · intro h b hb
    obtain ⟨i, hi, rfl⟩ := List.getElem_of_mem hb
    have := h i hi
    simpa [List.getD_eq_getElem?_getD, hi] using this

theorem g_getD_mulVec (a : Mat) (x : List Bool) (i : Nat) (hi : i < a.length) :
    (a.mulVec x).getD i false = dot (a.getD i []) x := by
  simp [Mat.mulVec, List.getD_eq_getElem?_getD, hi]

theorem g_getD_vxor (a b : List Bool) (h : a.length = b.length) (i : Nat) :
    (vxor a b).getD i false = xor (a.getD i false) (b.getD i false) := by
  by_cases hi : i < a.length
  · have hi' : i < b.length := by omega
    have h3 : i < (a.zip b).length := by simp; omega
    simp [vxor, List.getD_eq_getElem?_getD, hi, hi', List.getElem?_eq_getElem h3]
  · rw [g_getD_of_le _ _ _ (by simp [vxor]; omega), g_getD_of_le _ _ _ (by omega),
      g_getD_of_le _ _ _ (by omega)]; rfl

@[simp] theorem g_length_vxor (a b : List Bool) : (vxor a b).length = min a.length b.length := by
  simp [vxor]

theorem g_vxor_append (a b c d : List Bool) (h : a.length = b.length) :
    vxor (a ++ c) (b ++ d) = vxor a b ++ vxor c d := by
  simp [vxor, List.zip_append h]

theorem g_vxor_map {α : Type} (l : List α) (F G : α → Bool) :
    vxor (l.map F) (l.map G) = l.map (fun r => xor (F r) (G r)) := by
  simp [vxor, List.zip_map']

theorem g_dot_vxor (row x y : List Bool) (h : x.length = y.length) :
    dot row (vxor x y) = xor (dot row x) (dot row y) := by
  rw [g_dot_eq row (vxor x y) row.length (by simp; omega), g_dot_eq row x row.length (by omega),
    g_dot_eq row y row.length (by omega), ← g_xsum_xor]
  apply g_xsum_congr
  intro i _
  rw [g_getD_vxor _ _ h]
  cases row.getD i false <;> simp

/-! ### sparse rows -/

/-- a sum over the entries of a duplicate-free sparse row is the dense sum with the indicator -/
theorem g_xorAll_sparse (row : List Nat) (N : Nat) (f : Nat → Bool) (hnd : row.Nodup)
    (hb : ∀ c ∈ row, c < N) :
    xorAll (row.map f) = g_xsum N (fun c => row.contains c && f c) := by
  induction row with
  | nil => simp [g_xsum_false]
  | cons a r ih =>
    rw [List.nodup_cons] at hnd
    rw [List.map_cons, g_xorAll_cons, ih hnd.2 (fun c hc => hb c (List.mem_cons_of_mem _ hc))]
    have : ∀ c, c < N → ((a :: r).contains c && f c) =
        xor (if c = a then f a else false) (r.contains c && f c) := by
      intro c _
      by_cases hc : c = a
      · subst hc
        have : c ∉ r := hnd.1
        simp [this]
      · have : (c == a) = false := by simpa using hc
        simp [hc]
    rw [g_xsum_congr this, g_xsum_xor, g_xsum_ite_eq]
    simp [hb a List.mem_cons_self]

theorem g_parity_filter (p : Nat → Bool) (row : List Nat) :
    ((row.filter p).length % 2 == 0) = !(xorAll (row.map p)) := by
  induction row with
  | nil => rfl
  | cons a r ih =>
    rw [List.map_cons, g_xorAll_cons, List.filter_cons]
    cases hw : p a
    · simpa using ih
    · simp only [if_true, List.length_cons, Bool.true_xor, Bool.not_not]
      have ih' : xorAll (List.map p r) = !((r.filter p).length % 2 == 0) := by rw [ih]; simp
      rw [ih']
      rcases Nat.mod_two_eq_zero_or_one (r.filter p).length with h | h
      · have h' : ((r.filter p).length + 1) % 2 = 1 := by omega
        rw [h, h']; rfl
      · have h' : ((r.filter p).length + 1) % 2 = 0 := by omega
        rw [h, h']; rfl

theorem g_parityOK_iff (w : List Bool) (row : List Nat) :
    parityOK w row = true ↔ xorAll (row.map (fun c => w.getD c false)) = false := by
  unfold parityOK
  rw [g_parity_filter]
  cases xorAll (row.map (fun c => w.getD c false)) <;> simp

/-- `syndromeOK` as dense row sums -/
theorem g_syndromeOK_iff (h : SM) (hinv : h.Inv) (w : List Bool) :
    syndromeOK h w = true ↔
      ∀ i, i < h.nrows → g_xsum h.ncols (fun c => h.mem i c && w.getD c false) = false := by
  unfold syndromeOK
  rw [List.all_eq_true]
  constructor
  · intro hall i hi
    have hrow : h.row i ∈ h.rows := by
      simp only [SM.row, List.getD_eq_getElem?_getD]
      rw [List.getElem?_eq_getElem (by simpa [SM.nrows] using hi)]
      exact List.getElem_mem _
    have := (g_parityOK_iff w _).mp (hall _ hrow)
    rw [g_xorAll_sparse _ h.ncols _ (hinv.2.2.1 i) (fun c hc => (hinv.1 i c hc).2.1)] at this
    exact this
  · intro hall row hrow
    obtain ⟨i, hi, rfl⟩ := List.getElem_of_mem hrow
    have e : h.rows[i] = h.row i := by
      simp [SM.row, List.getD_eq_getElem?_getD, hi]
    rw [e, g_parityOK_iff,
      g_xorAll_sparse _ h.ncols _ (hinv.2.2.1 i) (fun c hc => (hinv.1 i c hc).2.1)]
    exact hall i hi

end LdpcV.Lin
