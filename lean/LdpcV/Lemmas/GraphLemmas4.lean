/- Helper lemmas for C11, part 4: branch-labelled tree paths, the cycle closed by a cross edge, and
the "no short cycle through the root" consequence of closedness. -/
import LdpcV.Lemmas.GraphLemmas2
import LdpcV.Lemmas.GraphLemmas3
namespace LdpcV.Graph

theorem nodup_reverse' {α : Type} {l : List α} (hl : l.Nodup) : l.reverse.Nodup := by
  rw [List.nodup_iff_pairwise_ne, List.pairwise_reverse]
  exact hl.imp (fun hab => fun hba => hab hba.symm)

/-- `p = [v, …, b]` is a simple path inside the branch `b` (the root itself is not listed) -/
structure GoodPath (h : SM) (root : Node) (branch : Labels Node) (b v : Node) (k : Nat) (p : List Node) : Prop where
  len : p.length = k
  head : p.head? = some v
  last : p.getLast? = some b
  adjroot : Adj h root b
  chain : Chain h p
  nodup : p.Nodup
  br : ∀ x ∈ p, x ≠ root ∧ branch.get x = some (some b)

theorem GoodPath.mono {h : SM} {root : Node} {branch branch' : Labels Node} (hm : branch.Mono branch')
    {b v : Node} {k : Nat} {p : List Node} (hp : GoodPath h root branch b v k p) :
    GoodPath h root branch' b v k p :=
  { hp with br := fun x hx => ⟨(hp.br x hx).1, hm _ _ (hp.br x hx).2⟩ }

theorem GoodPath.mem_head {h : SM} {root : Node} {branch : Labels Node} {b v : Node} {k : Nat} {p : List Node}
    (hp : GoodPath h root branch b v k p) : v ∈ p := by
  have := hp.head
  cases p with
  | nil => simp at this
  | cons a t => simp at this; simp [this]

theorem GoodPath.pos {h : SM} {root : Node} {branch : Labels Node} {b v : Node} {k : Nat} {p : List Node}
    (hp : GoodPath h root branch b v k p) : 1 ≤ k := by
  have := hp.mem_head
  have := List.length_pos_of_mem this
  have := hp.len
  omega

theorem GoodPath.branch_eq {h : SM} {root : Node} {branch : Labels Node} {b v : Node} {k : Nat} {p : List Node}
    (hp : GoodPath h root branch b v k p) : branch.get v = some (some b) :=
  (hp.br v hp.mem_head).2

theorem GoodPath.one {h : SM} {root : Node} {branch : Labels Node} {b v : Node} {k : Nat} {p : List Node}
    (hp : GoodPath h root branch b v k p) (hk : k ≤ 1) : b = v := by
  have h1 := hp.head
  have h2 := hp.last
  have h3 := hp.len
  match p, h1, h2, h3 with
  | [a], h1, h2, _ => simp at h1 h2; rw [← h1, ← h2]
  | [], h1, _, _ => simp at h1
  | _ :: _ :: _, _, _, h3 => simp at h3; omega

/-- a cross edge between two different branches closes a simple cycle through the root -/
theorem cycle_of_paths {h : SM} {root : Node} {branch : Labels Node} {b1 b2 u v : Node} {l d : Nat}
    {p1 p2 : List Node} (hp1 : GoodPath h root branch b1 u l p1) (hp2 : GoodPath h root branch b2 v d p2)
    (hne : b1 ≠ b2) (huv : Adj h u v) :
    ∃ c, IsCycle h c ∧ root ∈ c ∧ c.length = d + (l + 1) := by
  refine ⟨p1 ++ root :: p2.reverse, ?_, by simp, ?_⟩
  · have l1 := hp1.pos
    have l2 := hp2.pos
    apply isCycle_of_chain
    · simp [hp1.len, hp2.len]; omega
    · rw [List.nodup_append]
      refine ⟨hp1.nodup, ?_, ?_⟩
      · rw [List.nodup_cons]
        refine ⟨?_, nodup_reverse' hp2.nodup⟩
        intro hm
        exact (hp2.br root (List.mem_reverse.1 hm)).1 rfl
      · intro a ha b hb hab
        subst hab
        rcases List.mem_cons.1 hb with rfl | hb
        · exact (hp1.br _ ha).1 rfl
        · have e1 := (hp1.br a ha).2
          have e2 := (hp2.br a (List.mem_reverse.1 hb)).2
          rw [e1] at e2
          simp at e2; exact hne e2
    · apply Chain.append
      · exact hp1.chain
      · refine ⟨?_, hp2.chain.reverse⟩
        intro b hb
        rw [List.head?_reverse, hp2.last] at hb
        cases hb; exact hp2.adjroot
      · intro a b ha hb
        rw [hp1.last] at ha
        simp at hb
        cases ha; subst hb; exact hp1.adjroot.symm
    · intro a b ha hb
      have hp1ne : p1 ≠ [] := List.ne_nil_of_mem hp1.mem_head
      have hp2ne : p2 ≠ [] := List.ne_nil_of_mem hp2.mem_head
      rw [List.head?_append, hp1.head] at hb
      simp at hb
      rw [List.getLast?_append] at ha
      have : (root :: p2.reverse).getLast? = some v := by
        rw [List.getLast?_cons, List.getLast?_reverse, hp2.head]; rfl
      rw [this] at ha
      simp at ha
      subst ha; subst hb
      exact huv.symm
  · simp [hp1.len, hp2.len]; omega

/-- `v` has been expanded by the girth search: every neighbour except the root is labelled, at most one
level deeper, and lies in the branch of `v` (its own branch if `v` is the root) -/
def GExp (h : SM) (root : Node) (dist : Labels Nat) (branch : Labels Node) (v : Node) (k : Nat) : Prop :=
  ∀ w, Adj h v w → w ≠ root →
    ∃ k', dist.get w = some (some k') ∧ k' ≤ k + 1 ∧
      branch.get w = some (some (((branch.get v).getD none).getD w))

theorem GExp.mono {h : SM} {root : Node} {dist dist' : Labels Nat} {branch branch' : Labels Node}
    (hd : dist.Mono dist') (hb : branch.Mono branch') {v : Node} {k : Nat}
    (hv : branch'.get v = branch.get v) (he : GExp h root dist branch v k) :
    GExp h root dist' branch' v k := by
  intro w hw hwr
  obtain ⟨k', h1, h2, h3⟩ := he w hw hwr
  exact ⟨k', hd _ _ h1, h2, by rw [hv]; exact hb _ _ h3⟩

/-- walking away from the root along expanded nodes stays inside one branch -/
theorem chain_branch {h : SM} {root : Node} {dist : Labels Nat} {branch : Labels Node} {L : Nat}
    (hexp : ∀ v k, dist.get v = some (some k) → k < L → GExp h root dist branch v k)
    (hroot : dist.get root = some (some 0)) (hbr : branch.get root = some none)
    (x : Nat → Node) (hx0 : x 0 = root) (m : Nat) (hm : m ≤ L)
    (hadj : ∀ i, i < m → Adj h (x i) (x (i + 1)))
    (hne : ∀ i, 0 < i → i ≤ m → x i ≠ root) :
    ∀ i, 1 ≤ i → i ≤ m →
      ∃ k, dist.get (x i) = some (some k) ∧ k ≤ i ∧ branch.get (x i) = some (some (x 1)) := by
  intro i
  induction i with
  | zero => intro h1; omega
  | succ i ih =>
    intro _ him
    by_cases hi0 : i = 0
    · subst hi0
      have hadj0 := hadj 0 (by omega)
      rw [hx0] at hadj0
      obtain ⟨k', h1, h2, h3⟩ := hexp root 0 hroot (by omega) (x 1) hadj0 (hne 1 (by omega) him)
      refine ⟨k', h1, by omega, ?_⟩
      rw [h3, hbr]; rfl
    · obtain ⟨k, h1, h2, h3⟩ := ih (by omega) (by omega)
      obtain ⟨k', h1', h2', h3'⟩ := hexp (x i) k h1 (by omega) (x (i + 1)) (hadj i (by omega))
        (hne (i + 1) (by omega) him)
      refine ⟨k', h1', by omega, ?_⟩
      rw [h3', h3]; rfl

/-- if every node labelled below `L` has been expanded, no cycle through the root has length `≤ 2 L` -/
theorem no_short_cycle {h : SM} {root : Node} {dist : Labels Nat} {branch : Labels Node} {L : Nat}
    (hexp : ∀ v k, dist.get v = some (some k) → k < L → GExp h root dist branch v k)
    (hroot : dist.get root = some (some 0)) (hbr : branch.get root = some none) (hL : 1 ≤ L)
    {c : List Node} (hc : IsCycle h c) (hr : root ∈ c) : 2 * L < c.length := by
  apply Nat.lt_of_not_le
  intro hle
  have h3 := hc.1
  obtain ⟨p, hp, hp0⟩ := exists_cseq hc hr
  have hinj := cseq_inj hc p hp
  have hper := cseq_period c p 0
  rw [Nat.zero_add] at hper
  -- forward and backward traversals
  let m := min L (c.length - 1)
  have hneF : ∀ i, 0 < i → i < c.length → cseq c p i ≠ root := by
    intro i hi0 hin he
    rw [← hp0] at he
    have := hinj i 0 hin (by omega) he
    omega
  have fwd := chain_branch hexp hroot hbr (cseq c p) hp0 m (Nat.min_le_left _ _)
    (fun i _ => cseq_adj hc p i) (fun i hi0 him => hneF i hi0 (by omega))
  have bwd := chain_branch hexp hroot hbr (fun i => cseq c p (c.length - i)) (by simpa [hper] using hp0) m
    (Nat.min_le_left _ _)
    (fun i him => by
      have := cseq_adj hc p (c.length - (i + 1))
      have e : c.length - (i + 1) + 1 = c.length - i := by omega
      rw [e] at this
      exact this.symm)
    (fun i hi0 him => hneF _ (by omega) (by omega))
  have hm1 : 1 ≤ m := by omega
  obtain ⟨_, _, _, f3⟩ := fwd m hm1 (Nat.le_refl _)
  have hb1 : 1 ≤ c.length - m := by omega
  have hb2 : c.length - m ≤ m := by omega
  obtain ⟨_, _, _, b3⟩ := bwd (c.length - m) hb1 hb2
  have e : c.length - (c.length - m) = m := by omega
  rw [e, f3] at b3
  simp only [Option.some.injEq] at b3
  have := hinj 1 (c.length - 1) (by omega) (by omega) b3
  omega

end LdpcV.Graph
