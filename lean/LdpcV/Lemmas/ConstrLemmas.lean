/- Helper lemmas for C16 (PEG / MacKay–Neal).  The development is split over four files:
  1 exact effect of `insertCol` / `clearColRaw` / `clearCols`, the MacKay–Neal step relation and base invariant
  2 MacKay–Neal: termination measure, girth invariant, balance invariant
  3 PEG: selection rule in graph terms, run invariant
  4 the executable predicate `mnProps` -/
import LdpcV.Lemmas.ConstrLemmas1
import LdpcV.Lemmas.ConstrLemmas2
import LdpcV.Lemmas.ConstrLemmas3
import LdpcV.Lemmas.ConstrLemmas4
