/- Helper lemmas for C04Track (the 8-bit check rules track the real rules at 8 units per LLR):
TrackLemmas1 (real analysis of the steps, one-step comparison), TrackLemmas2 (folds, signs, argmin, lists),
TrackLemmas3 (the folds from `none`, the two rules), TrackLemmas4 (partial hard limiting factored out as an emission
map; promotion clauses). -/
import LdpcV.Lemmas.TrackLemmas1
import LdpcV.Lemmas.TrackLemmas2
import LdpcV.Lemmas.TrackLemmas3
import LdpcV.Lemmas.TrackLemmas4
