/- Helper lemmas (BoxPlusLemmas): real-number semantics (imports single Mathlib modules via RealScalar). -/
import LdpcV.Lemmas.RealScalar
import LdpcV.Lemmas.RealScalarSimp
import LdpcV.Model.Modulation
import LdpcV.Model.ArithF
import Mathlib.Tactic
namespace LdpcV.BoxL
open LdpcV LdpcV.ArithF

/-! ### unfolding at `Sc.real` -/

theorem zero_real : zero Sc.real = 0 := by simp [zero]

theorem stepFull_real (x y : ℝ) : stepFull Sc.real x y =
    min x y - Real.log (1 + Real.exp (-|x - y|)) + Real.log (1 + Real.exp (-(x + y))) := rfl

theorem stepApprox_real (x y : ℝ) : stepApprox Sc.real x y =
    max (min x y - Real.log (1 + Real.exp (-|x - y|))) 0 := by
  simp [stepApprox, zero]

theorem phi_real (x : ℝ) : phi Sc.real x = -Real.log (Real.tanh (1 / 2 * max x (1 / 10 ^ 30))) := by
  simp [phi]
  norm_num

theorem isNeg_real (x : ℝ) : isNeg Sc.real x = decide (x < 0) := by
  simp [isNeg, zero, Sc.real]

theorem sum_real (l : List ℝ) : sum Sc.real l = l.sum := by
  simp only [sum, zero_real, real_add_fn]
  rw [List.sum_eq_foldl]

theorem prod_real (l : List ℝ) : prod Sc.real l = l.prod := by
  have : Sc.real.rat 1 1 = 1 := by simp
  simp only [prod, this, real_mul_fn]
  rw [List.prod_eq_foldl]

/-! ### exact min* step -/

theorem tanh_half (z : ℝ) : Real.tanh (z / 2) = (Real.exp z - 1) / (Real.exp z + 1) := by
  rw [Real.tanh_eq_sinh_div_cosh, Real.sinh_eq, Real.cosh_eq]
  have h1 : Real.exp z = Real.exp (z / 2) * Real.exp (z / 2) := by rw [← Real.exp_add]; ring_nf
  have h2 : Real.exp (-(z / 2)) = (Real.exp (z / 2))⁻¹ := Real.exp_neg _
  have hp : 0 < Real.exp (z / 2) := Real.exp_pos _
  rw [h1, h2]
  field_simp

theorem exp_stepFull_le {x y : ℝ} (hxy : x ≤ y) :
    Real.exp (stepFull Sc.real x y) = (1 + Real.exp x * Real.exp y) / (Real.exp x + Real.exp y) := by
  rw [stepFull_real]
  have hmin : min x y = x := min_eq_left hxy
  have habs : |x - y| = y - x := by rw [abs_sub_comm]; exact abs_of_nonneg (by linarith)
  rw [hmin, habs]
  have p1 : 0 < 1 + Real.exp (-(y - x)) := by positivity
  have p2 : 0 < 1 + Real.exp (-(x + y)) := by positivity
  rw [Real.exp_add, Real.exp_sub, Real.exp_log p1, Real.exp_log p2]
  have e1 : Real.exp (-(y - x)) = Real.exp x / Real.exp y := by rw [← Real.exp_sub]; ring_nf
  have e2 : Real.exp (-(x + y)) = 1 / (Real.exp x * Real.exp y) := by rw [Real.exp_neg, Real.exp_add]; simp
  rw [e1, e2]
  have hx : 0 < Real.exp x := Real.exp_pos _
  have hy : 0 < Real.exp y := Real.exp_pos _
  field_simp
  ring

theorem stepFull_comm (x y : ℝ) : stepFull Sc.real x y = stepFull Sc.real y x := by
  rw [stepFull_real, stepFull_real, min_comm, abs_sub_comm, add_comm x y]

theorem exp_stepFull (x y : ℝ) :
    Real.exp (stepFull Sc.real x y) = (1 + Real.exp x * Real.exp y) / (Real.exp x + Real.exp y) := by
  rcases le_total x y with h | h
  · exact exp_stepFull_le h
  · rw [stepFull_comm, exp_stepFull_le h, add_comm (Real.exp y), mul_comm]

/-- the exact step is the box-plus, for all real arguments -/
theorem minstar_exact (x y : ℝ) :
    Real.tanh (stepFull Sc.real x y / 2) = Real.tanh (x / 2) * Real.tanh (y / 2) := by
  rw [tanh_half, tanh_half, tanh_half, exp_stepFull]
  have hx : 0 < Real.exp x := Real.exp_pos _
  have hy : 0 < Real.exp y := Real.exp_pos _
  field_simp
  ring

theorem stepFull_nonneg (x y : ℝ) (hx : 0 ≤ x) (hy : 0 ≤ y) : 0 ≤ stepFull Sc.real x y := by
  rw [← Real.exp_le_exp, exp_stepFull, Real.exp_zero]
  have hu : 1 ≤ Real.exp x := Real.one_le_exp hx
  have hv : 1 ≤ Real.exp y := Real.one_le_exp hy
  rw [le_div_iff₀ (by positivity)]
  nlinarith [mul_nonneg (sub_nonneg.2 hu) (sub_nonneg.2 hv)]

theorem approx_step_bounds (x y : ℝ) (hx : 0 ≤ x) (hy : 0 ≤ y) :
    0 ≤ stepApprox Sc.real x y ∧ stepApprox Sc.real x y ≤ stepFull Sc.real x y ∧
    stepFull Sc.real x y - Real.log 2 ≤ stepApprox Sc.real x y ∧ 0 ≤ stepFull Sc.real x y ∧
    stepFull Sc.real x y ≤ min x y := by
  have h0 := stepFull_nonneg x y hx hy
  rw [stepApprox_real]
  rw [stepFull_real] at h0 ⊢
  have e1 : Real.exp (-(x + y)) ≤ 1 := Real.exp_le_one_iff.2 (by linarith)
  have e2 : Real.exp (-(x + y)) ≤ Real.exp (-|x - y|) := by
    apply Real.exp_le_exp.2
    have : |x - y| ≤ x + y := abs_le.2 ⟨by linarith, by linarith⟩
    linarith
  have hL2 : 0 ≤ Real.log (1 + Real.exp (-(x + y))) :=
    Real.log_nonneg (by linarith [Real.exp_pos (-(x + y))])
  have hL2' : Real.log (1 + Real.exp (-(x + y))) ≤ Real.log 2 :=
    Real.log_le_log (by positivity) (by linarith)
  have hL21 : Real.log (1 + Real.exp (-(x + y))) ≤ Real.log (1 + Real.exp (-|x - y|)) :=
    Real.log_le_log (by positivity) (by linarith)
  refine ⟨le_max_right _ _, max_le (by linarith) h0, ?_, h0, by linarith⟩
  exact le_trans (by linarith) (le_max_left _ _)

/-! ### phi -/

theorem eps_pos : (0 : ℝ) < 1 / 10 ^ 30 := by positivity

theorem phi_of_ge (x : ℝ) (hx : (1 : ℝ) / 10 ^ 30 ≤ x) : phi Sc.real x = -Real.log (Real.tanh (x / 2)) := by
  rw [phi_real, max_eq_left hx]
  congr 3; ring

theorem tanh_half_pos (x : ℝ) (hx : 0 < x) : 0 < Real.tanh (x / 2) := by
  rw [tanh_half]
  have : 1 < Real.exp x := Real.one_lt_exp_iff.2 hx
  exact div_pos (by linarith) (by linarith)

theorem phi_tanh (x : ℝ) (hx : (1 : ℝ) / 10 ^ 30 ≤ x) :
    Real.exp (-(phi Sc.real x)) = Real.tanh (x / 2) := by
  rw [phi_of_ge x hx, neg_neg, Real.exp_log (tanh_half_pos x (lt_of_lt_of_le eps_pos hx))]

/-- `tanh(phi(x)/2) = exp(−x)` -/
theorem tanh_half_neg_log_tanh (x : ℝ) (hx : 0 < x) :
    Real.tanh ((-Real.log (Real.tanh (x / 2))) / 2) = Real.exp (-x) := by
  have hT := tanh_half_pos x hx
  rw [tanh_half (-Real.log (Real.tanh (x / 2))), Real.exp_neg, Real.exp_log hT, tanh_half x, Real.exp_neg]
  have he : 1 < Real.exp x := Real.one_lt_exp_iff.2 hx
  have h1 : Real.exp x - 1 ≠ 0 := by linarith
  have h2 : Real.exp x + 1 ≠ 0 := by linarith
  have h3 : Real.exp x ≠ 0 := by linarith
  field_simp
  ring

theorem phi_nonneg_of_ge (x : ℝ) (hx : (1 : ℝ) / 10 ^ 30 ≤ x) : 0 ≤ phi Sc.real x := by
  rw [phi_of_ge x hx]
  have := Real.log_nonpos (tanh_half_pos x (lt_of_lt_of_le eps_pos hx)).le (Real.tanh_lt_one _).le
  linarith

theorem tanh_half_phi (x : ℝ) (hx : (1 : ℝ) / 10 ^ 30 ≤ x) :
    Real.tanh (phi Sc.real x / 2) = Real.exp (-x) := by
  rw [phi_of_ge x hx, tanh_half_neg_log_tanh x (lt_of_lt_of_le eps_pos hx)]

theorem phi_involution (x : ℝ) (hx : (1 : ℝ) / 10 ^ 30 ≤ x) (hp : (1 : ℝ) / 10 ^ 30 ≤ phi Sc.real x) :
    phi Sc.real (phi Sc.real x) = x := by
  rw [phi_of_ge _ hp, tanh_half_phi x hx, Real.log_exp, neg_neg]

/-! ### products of tanh's -/

theorem prod_cons (x : ℝ) (l : List ℝ) : prod Sc.real (x :: l) = x * prod Sc.real l := by
  rw [prod_real, prod_real, List.prod_cons]

theorem prod_nil : prod Sc.real [] = 1 := by rw [prod_real, List.prod_nil]

theorem abs_prod_le_one (l : List ℝ) (h : ∀ x ∈ l, |x| < 1) : |l.prod| ≤ 1 := by
  induction l with
  | nil => simp
  | cons a t ih =>
    rw [List.prod_cons, abs_mul]
    have h1 := h a (by simp)
    have h2 := ih (fun x hx => h x (by simp [hx]))
    nlinarith [abs_nonneg a, abs_nonneg t.prod]

theorem abs_prod_lt_one (l : List ℝ) (hl : l ≠ []) (h : ∀ x ∈ l, |x| < 1) : |l.prod| < 1 := by
  cases l with
  | nil => exact absurd rfl hl
  | cons a t =>
    rw [List.prod_cons, abs_mul]
    have h1 := h a (by simp)
    have h2 := abs_prod_le_one t (fun x hx => h x (by simp [hx]))
    nlinarith [abs_nonneg a, abs_nonneg t.prod]

/-- `tanh (atanh p) = p` for `|p| < 1`, in the shape `tanh ((2 · atanh p) / 2)` of the tanh rule -/
theorem tanh_atanh (p : ℝ) (hp : |p| < 1) :
    Real.tanh ((2 * ((1 / 2) * Real.log ((1 + p) / (1 - p)))) / 2) = p := by
  obtain ⟨h1, h2⟩ := abs_lt.1 hp
  have hq : 0 < (1 + p) / (1 - p) := div_pos (by linarith) (by linarith)
  rw [show (2 * ((1 / 2) * Real.log ((1 + p) / (1 - p)))) / 2 = Real.log ((1 + p) / (1 - p)) / 2 by ring,
    tanh_half, Real.exp_log hq]
  have : 1 - p ≠ 0 := by linarith
  field_simp
  ring

/-! ### folds of steps -/

theorem foldAbs_cons_some (step : ℝ → ℝ → ℝ) (v : ℝ) (vs : List ℝ) (y : ℝ) :
    foldAbs Sc.real step (v :: vs) (some y) = foldAbs Sc.real step vs (some (step |v| y)) := rfl

theorem fold_full_exact (xs : List ℝ) : ∀ (acc : ℝ), 0 ≤ acc →
    ∃ z, foldAbs Sc.real (stepFull Sc.real) xs (some acc) = some z ∧ 0 ≤ z ∧
      Real.tanh (z / 2) = Real.tanh (acc / 2) * prod Sc.real (xs.map (fun x => Real.tanh (|x| / 2))) := by
  induction xs with
  | nil => intro acc ha; exact ⟨acc, rfl, ha, by simp [prod_nil]⟩
  | cons v vs ih =>
    intro acc ha
    have h0 := stepFull_nonneg |v| acc (abs_nonneg v) ha
    obtain ⟨z, hz, hz0, hzt⟩ := ih _ h0
    refine ⟨z, hz, hz0, ?_⟩
    rw [hzt, minstar_exact, List.map_cons, prod_cons]; ring

theorem stepFull_mono (x y y' : ℝ) (hx : 0 ≤ x) (h : y ≤ y') :
    stepFull Sc.real x y ≤ stepFull Sc.real x y' := by
  rw [← Real.exp_le_exp, exp_stepFull, exp_stepFull]
  have hu : 1 ≤ Real.exp x := Real.one_le_exp hx
  have hv : Real.exp y ≤ Real.exp y' := Real.exp_le_exp.2 h
  have hv0 : 0 < Real.exp y := Real.exp_pos _
  have hv0' : 0 < Real.exp y' := Real.exp_pos _
  rw [div_le_div_iff₀ (by positivity) (by positivity)]
  nlinarith [mul_nonneg (sub_nonneg.2 hv) (by nlinarith : (0 : ℝ) ≤ Real.exp x * Real.exp x - 1)]

theorem stepFull_lipschitz (x y y' : ℝ) (h : y ≤ y') :
    stepFull Sc.real x y' ≤ stepFull Sc.real x y + (y' - y) := by
  rw [← Real.exp_le_exp, Real.exp_add, exp_stepFull, exp_stepFull, Real.exp_sub]
  have hv : Real.exp y ≤ Real.exp y' := Real.exp_le_exp.2 h
  have hu0 : 0 < Real.exp x := Real.exp_pos _
  have hv0 : 0 < Real.exp y := Real.exp_pos _
  have hv0' : 0 < Real.exp y' := Real.exp_pos _
  rw [div_mul_div_comm, div_le_div_iff₀ (by positivity) (by positivity)]
  nlinarith [mul_nonneg (sub_nonneg.2 hv)
    (by positivity : (0 : ℝ) ≤ Real.exp x + Real.exp y' + Real.exp y + Real.exp x * Real.exp y * Real.exp y')]

theorem fold_approx_gen (xs : List ℝ) : ∀ (a f : ℝ), 0 ≤ a → a ≤ f →
    ∃ z e, foldAbs Sc.real (stepApprox Sc.real) xs (some a) = some z ∧
      foldAbs Sc.real (stepFull Sc.real) xs (some f) = some e ∧
      0 ≤ z ∧ z ≤ e ∧ e - (f - a) - xs.length * Real.log 2 ≤ z := by
  induction xs with
  | nil => intro a f ha haf; exact ⟨a, f, rfl, rfl, ha, haf, by simp⟩
  | cons v vs ih =>
    intro a f ha haf
    obtain ⟨b1, b2, b3, b4, b5⟩ := approx_step_bounds |v| a (abs_nonneg v) ha
    have m1 := stepFull_mono |v| a f (abs_nonneg v) haf
    have l1 := stepFull_lipschitz |v| a f haf
    obtain ⟨z, e, hz, he, hz0, hze, hlow⟩ := ih (stepApprox Sc.real |v| a) (stepFull Sc.real |v| f) b1 (le_trans b2 m1)
    refine ⟨z, e, hz, he, hz0, hze, ?_⟩
    rw [List.length_cons]; push_cast
    linarith

theorem fold_approx_bounds (xs : List ℝ) (acc : ℝ) (ha : 0 ≤ acc) :
    ∃ z e, foldAbs Sc.real (stepApprox Sc.real) xs (some acc) = some z ∧
      foldAbs Sc.real (stepFull Sc.real) xs (some acc) = some e ∧
      0 ≤ z ∧ z ≤ e ∧ e - xs.length * Real.log 2 ≤ z := by
  obtain ⟨z, e, hz, he, hz0, hze, hlow⟩ := fold_approx_gen xs acc acc ha le_rfl
  exact ⟨z, e, hz, he, hz0, hze, by linarith⟩

/-! ### lists with distinct keys -/

theorem perm_cons_filter (msgs : List (Nat × ℝ)) (hn : (msgs.map Prod.fst).Nodup) (m : Nat × ℝ) (hm : m ∈ msgs) :
    msgs.Perm (m :: msgs.filter (fun q => q.1 != m.1)) := by
  induction msgs with
  | nil => simp at hm
  | cons a t ih =>
    rw [List.map_cons, List.nodup_cons] at hn
    obtain ⟨hat, ht⟩ := hn
    rcases List.mem_cons.1 hm with rfl | hmt
    · have : (m :: t).filter (fun q => q.1 != m.1) = t := by
        rw [List.filter_cons_of_neg (by simp)]
        apply List.filter_eq_self.2
        intro q hq
        have : q.1 ≠ m.1 := fun h => hat (h ▸ List.mem_map_of_mem hq)
        simpa using this
      rw [this]
    · have hne : a.1 ≠ m.1 := fun h => hat (h ▸ List.mem_map_of_mem hmt)
      rw [List.filter_cons_of_pos (by simpa using hne)]
      exact ((ih ht hmt).cons a).trans (List.Perm.swap _ _ _)

theorem filter_ne_nil (msgs : List (Nat × ℝ)) (hn : (msgs.map Prod.fst).Nodup) (h2 : 2 ≤ msgs.length) (k : Nat) :
    msgs.filter (fun q => q.1 != k) ≠ [] := by
  match msgs, hn, h2 with
  | m1 :: m2 :: rest, hn, _ =>
    intro h
    rw [List.filter_eq_nil_iff] at h
    have h1 := h m1 (by simp)
    have h2 := h m2 (by simp)
    simp only [bne_iff_ne, ne_eq, not_not] at h1 h2
    simp only [List.map_cons, List.nodup_cons, List.mem_cons] at hn
    exact hn.1 (Or.inl (h1.trans h2.symm))

/-! ### the tanh rule -/

theorem tanh_rule (clamp : ℝ) (msgs : List (Nat × ℝ)) (hn : (msgs.map Prod.fst).Nodup)
    (hc : ∀ m ∈ msgs, |m.2 / 2| ≤ clamp) :
    (checkTanh Sc.real clamp msgs).map Prod.fst = msgs.map Prod.fst ∧
    ∀ o ∈ checkTanh Sc.real clamp msgs, 2 ≤ msgs.length →
      Real.tanh (o.2 / 2) = prod Sc.real ((msgs.filter (fun q => q.1 != o.1)).map (fun q => Real.tanh (q.2 / 2))) := by
  constructor
  · simp [checkTanh, Function.comp_def]
  · intro o ho h2
    simp only [checkTanh, List.mem_map] at ho
    obtain ⟨ex, hex, rfl⟩ := ho
    have hP : ((msgs.map (fun m => (m.1, Sc.real.tanh (Sc.real.max (Sc.real.neg clamp) (Sc.real.min clamp
          (Sc.real.mul (Sc.real.rat 1 2) m.2)))))).filter (fun t => t.1 != ex.1)).map (·.2)
        = (msgs.filter (fun q => q.1 != ex.1)).map (fun q => Real.tanh (q.2 / 2)) := by
      rw [List.filter_map, List.map_map]
      apply List.map_congr_left
      intro q hq
      have hq' := hc q (List.mem_of_mem_filter hq)
      obtain ⟨h1, h2⟩ := abs_le.1 hq'
      have e : Sc.real.mul (Sc.real.rat 1 2) q.2 = q.2 / 2 := by simp; ring
      simp only [Function.comp_apply, e, real_tanh, real_max, real_min, real_neg]
      rw [min_eq_right h2, max_eq_right h1]
    rw [hP]
    simp only [real_mul, real_atanh]
    have e2 : Sc.real.rat 2 1 = 2 := by simp
    rw [e2, prod_real]
    apply tanh_atanh
    apply abs_prod_lt_one
    · simpa using filter_ne_nil msgs hn h2 ex.1
    · intro x hx
      simp only [List.mem_map] at hx
      obtain ⟨q, _, rfl⟩ := hx
      exact Real.abs_tanh_lt_one _

/-! ### the phi rule -/

theorem zip_map_self {α β : Type} (l : List α) (f : α → β) : l.zip (l.map f) = l.map (fun a => (a, f a)) := by
  induction l with
  | nil => rfl
  | cons a t ih => simp [ih]

theorem exp_neg_sum_map {α : Type} (l : List α) (f : α → ℝ) :
    Real.exp (-(l.map f).sum) = (l.map (fun a => Real.exp (-(f a)))).prod := by
  induction l with
  | nil => simp
  | cons a t ih => rw [List.map_cons, List.sum_cons, neg_add, Real.exp_add, ih, List.map_cons, List.prod_cons]

theorem signParity_cons (x : ℝ) (l : List ℝ) :
    signParity Sc.real (x :: l) = (if isNeg Sc.real x then !signParity Sc.real l else signParity Sc.real l) := by
  unfold signParity
  by_cases h : isNeg Sc.real x = true
  · rw [List.filter_cons_of_pos h, if_pos h, List.length_cons]
    rcases Nat.mod_two_eq_zero_or_one (List.filter (isNeg Sc.real) l).length with h0 | h0 <;>
      simp [Nat.add_mod, h0]
  · rw [List.filter_cons_of_neg h, if_neg h]

theorem signParity_perm (l l' : List ℝ) (h : l.Perm l') : signParity Sc.real l = signParity Sc.real l' := by
  unfold signParity
  rw [(h.filter _).length_eq]

theorem checkPhi_real (msgs : List (Nat × ℝ)) :
    checkPhi Sc.real msgs = msgs.map (fun m =>
      (m.1, if (if isNeg Sc.real m.2 then !signParity Sc.real (msgs.map (·.2)) else signParity Sc.real (msgs.map (·.2)))
        then -phi Sc.real ((msgs.map (fun m => phi Sc.real |m.2|)).sum - phi Sc.real |m.2|)
        else phi Sc.real ((msgs.map (fun m => phi Sc.real |m.2|)).sum - phi Sc.real |m.2|))) := by
  unfold checkPhi
  simp only [real_abs, zip_map_self, List.map_map]
  have : List.foldl Sc.real.add (zero Sc.real) (msgs.map (fun m => phi Sc.real |m.2|)) =
      (msgs.map (fun m => phi Sc.real |m.2|)).sum := sum_real _
  rw [this]
  rfl

theorem phi_rule (msgs : List (Nat × ℝ)) (hn : (msgs.map Prod.fst).Nodup)
    (hg : ∀ m ∈ msgs, (1 : ℝ) / 10 ^ 30 ≤ |m.2|)
    (hs : ∀ m ∈ msgs, (1 : ℝ) / 10 ^ 30 ≤ sum Sc.real ((msgs.filter (fun q => q.1 != m.1)).map (fun q => phi Sc.real |q.2|))) :
    (checkPhi Sc.real msgs).map Prod.fst = msgs.map Prod.fst ∧
    ∀ o ∈ checkPhi Sc.real msgs,
      Real.tanh (|o.2| / 2) = prod Sc.real ((msgs.filter (fun q => q.1 != o.1)).map (fun q => Real.tanh (|q.2| / 2))) ∧
      (o.2 ≠ 0 → (o.2 < 0 ↔ signParity Sc.real ((msgs.filter (fun q => q.1 != o.1)).map Prod.snd) = true)) := by
  rw [checkPhi_real]
  constructor
  · simp [Function.comp_def]
  · intro o ho
    simp only [List.mem_map] at ho
    obtain ⟨m, hm, rfl⟩ := ho
    have hperm := perm_cons_filter msgs hn m hm
    -- the real subtraction is the sum over the others
    have hS : (msgs.map (fun m => phi Sc.real |m.2|)).sum - phi Sc.real |m.2| =
        ((msgs.filter (fun q => q.1 != m.1)).map (fun q => phi Sc.real |q.2|)).sum := by
      rw [(hperm.map (fun m => phi Sc.real |m.2|)).sum_eq, List.map_cons, List.sum_cons]; ring
    have hSge := hs m hm
    rw [sum_real, ← hS] at hSge
    set S := (msgs.map (fun m => phi Sc.real |m.2|)).sum - phi Sc.real |m.2| with hSdef
    have hy0 : 0 ≤ phi Sc.real S := phi_nonneg_of_ge S hSge
    -- the sign
    have hsign : (if isNeg Sc.real m.2 then !signParity Sc.real (msgs.map (·.2)) else signParity Sc.real (msgs.map (·.2)))
        = signParity Sc.real ((msgs.filter (fun q => q.1 != m.1)).map Prod.snd) := by
      rw [signParity_perm _ _ (hperm.map (·.2)), List.map_cons, signParity_cons]
      by_cases h : isNeg Sc.real m.2 = true <;> simp [h]
    rw [hsign]
    dsimp only
    constructor
    · have habs : |if signParity Sc.real ((msgs.filter (fun q => q.1 != m.1)).map Prod.snd) = true
          then -phi Sc.real S else phi Sc.real S| = phi Sc.real S := by
        split
        · rw [abs_neg, abs_of_nonneg hy0]
        · exact abs_of_nonneg hy0
      rw [habs, tanh_half_phi S hSge, hS, exp_neg_sum_map, prod_real]
      congr 1
      apply List.map_congr_left
      intro q hq
      exact phi_tanh |q.2| (hg q (List.mem_of_mem_filter hq))
    · intro hne
      by_cases hb : signParity Sc.real ((msgs.filter (fun q => q.1 != m.1)).map Prod.snd) = true
      · rw [if_pos hb] at hne ⊢
        have : phi Sc.real S ≠ 0 := fun h => hne (by rw [h, neg_zero])
        have : 0 < phi Sc.real S := lt_of_le_of_ne hy0 (Ne.symm this)
        simp only [hb, iff_true]; linarith
      · rw [if_neg hb]
        exact ⟨fun h => absurd h (not_lt.2 hy0), fun h => absurd h hb⟩

end LdpcV.BoxL
