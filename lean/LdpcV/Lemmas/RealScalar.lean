/-
The real-number instance of the scalar record: the generic formulas of LdpcV/Model/{Modulation,ArithF}.lean
instantiated at ℝ are what the real-semantics theorems (C04Real, C12, C14) talk about.
-/
import LdpcV.Model.Scalar
import Mathlib.Analysis.SpecialFunctions.Log.Basic
import Mathlib.Analysis.SpecialFunctions.Trigonometric.Basic
import Mathlib.Analysis.SpecialFunctions.Sqrt
namespace LdpcV

open Classical in
/-- ℝ with its usual operations; `atanh x = ½·log((1+x)/(1-x))`, `ln_1p x = log (1 + x)` -/
noncomputable def Sc.real : Sc ℝ where
  add := (· + ·)
  sub := (· - ·)
  mul := (· * ·)
  div := (· / ·)
  neg := fun x => -x
  abs := fun x => |x|
  max := fun a b => Max.max a b
  min := fun a b => Min.min a b
  exp := Real.exp
  log := Real.log
  log1p := fun x => Real.log (1 + x)
  tanh := Real.tanh
  atanh := fun x => (1 / 2) * Real.log ((1 + x) / (1 - x))
  sqrt := Real.sqrt
  rat := fun n d => (n : ℝ) / (d : ℝ)
  lt := fun a b => decide (a < b)
  le := fun a b => decide (a ≤ b)

end LdpcV
