/-
Helper development for C03Tree, part 1: the flooding schedule of LdpcV/Spec/BPRef.lean run with the ideal arithmetic
over ℝ (`Ideal.floodRun Sc.real`) never fails and computes the message functions `X`, `L` of TreeBP0.
-/
import LdpcV.Lemmas.TreeBP0
import LdpcV.Lemmas.BoxPlusLemmas
namespace LdpcV.TreeBP
open LdpcV

/-! ### general list lemmas -/

/-- `mapM` in `Option` of a function that is `some (g x)` on every element -/
theorem mapM_eq_some_map {α β : Type} (f : α → Option β) (g : α → β) (l : List α)
    (hf : ∀ x ∈ l, f x = some (g x)) : l.mapM f = some (l.map g) := by
  induction l with
  | nil => rfl
  | cons a l ih =>
    have h1 : f a = some (g a) := hf a (by simp)
    have h2 : l.mapM f = some (l.map g) := ih (fun x hx => hf x (by simp [hx]))
    simp [List.mapM_cons, h1, h2]

/-- looking up the destination `c` in a list emitted as `(k, f k)` for `k ∈ l` -/
theorem sentTo_map {β : Type} (l : List Nat) (f : Nat → β) (c : Nat) (hc : c ∈ l) :
    BPRef.sentTo (l.map (fun k => (k, f k))) c = some (f c) := by
  induction l with
  | nil => simp at hc
  | cons a l ih =>
    by_cases hac : a = c
    · subst hac
      simp [BPRef.sentTo]
    · have hc' : c ∈ l := by
        rcases List.mem_cons.mp hc with h | h
        · exact absurd h.symm hac
        · exact h
      have := ih hc'
      have hb : ((a, f a).1 == c) = false := by simpa using hac
      simp only [BPRef.sentTo] at this ⊢
      rw [List.map_cons, List.find?_cons, hb]
      exact this

theorem getD_range_map {β : Type} (n i : Nat) (g : Nat → β) (d : β) (hi : i < n) :
    ((List.range n).map g).getD i d = g i := by
  simp [List.getD_eq_getElem?_getD, hi]

/-! ### the shape of the emitted lists -/

/-- per-variable emitted lists carrying the table `x v c` of variable→check messages -/
noncomputable def emOf (h : SM) (x : Nat → Nat → ℝ) : List (List (Nat × ℝ)) :=
  (List.range h.ncols).map (fun v => (h.col v).map (fun c => (c, x v c)))

/-- per-check emitted lists carrying the table `m c v` of check→variable messages -/
noncomputable def chOf (h : SM) (m : Nat → Nat → ℝ) : List (List (Nat × ℝ)) :=
  (List.range h.nrows).map (fun c => (h.row c).map (fun v => (v, m c v)))

theorem checkIncoming_emOf (h : SM) (hinv : h.Inv) (x : Nat → Nat → ℝ) (c : Nat) :
    BPRef.checkIncoming (A := Ideal.arith Sc.real) h (emOf h x) c =
      some ((h.row c).map (fun v => (v, x v c))) := by
  unfold BPRef.checkIncoming
  apply mapM_eq_some_map
  intro v hv
  obtain ⟨_, hvn, hcv⟩ := hinv.1 c v hv
  have h1 : (emOf h x).getD v [] = (h.col v).map (fun c => (c, x v c)) := by
    unfold emOf
    rw [getD_range_map _ _ _ _ hvn]
  have h2 := sentTo_map (h.col v) (fun c => x v c) c hcv
  show Option.map _ (BPRef.sentTo ((emOf h x).getD v []) c) = _
  rw [h1, h2]
  rfl

theorem varIncoming_chOf (h : SM) (hinv : h.Inv) (m : Nat → Nat → ℝ) (v : Nat) :
    BPRef.varIncoming (A := Ideal.arith Sc.real) h (chOf h m) v =
      some ((h.col v).map (fun c => (c, m c v))) := by
  unfold BPRef.varIncoming
  apply mapM_eq_some_map
  intro c hc
  obtain ⟨hcn, _, hvc⟩ := hinv.2.1 c v hc
  have h1 : (chOf h m).getD c [] = (h.row c).map (fun v => (v, m c v)) := by
    unfold chOf
    rw [getD_range_map _ _ _ _ hcn]
  have h2 := sentTo_map (h.row c) (fun v => m c v) v hvc
  show Option.map _ (BPRef.sentTo ((chOf h m).getD c []) v) = _
  rw [h1, h2]
  rfl

/-! ### the two node rules -/

theorem checkRule_row (h : SM) (x : Nat → Nat → ℝ) (c : Nat) :
    Ideal.checkRule Sc.real ((h.row c).map (fun v => (v, x v c))) =
      (h.row c).map (fun v => (v, chkMsg h x c v)) := by
  unfold Ideal.checkRule
  rw [List.map_map]
  apply List.map_congr_left
  intro v _
  have hf : (List.map (fun v => (v, x v c)) (h.row c)).filter (fun t => t.1 != v) =
      (oth (h.row c) v).map (fun v => (v, x v c)) := by
    unfold oth
    rw [List.filter_map]
    rfl
  simp only [Function.comp_apply]
  rw [hf, List.map_map]
  unfold chkMsg ArithF.tanhProd
  rw [BoxL.prod_real, List.map_map]
  simp only [real_mul, real_rat, real_atanh, real_tanh]
  norm_num
  rfl

theorem varRule_col (h : SM) (lam : List ℝ) (m : Nat → Nat → ℝ) (v : Nat) :
    ArithF.varRule Sc.real (lam.getD v (Ideal.arith Sc.real).dLlr) ((h.col v).map (fun c => (c, m c v))) =
      (totLlr h lam m v, (h.col v).map (fun c => (c, totLlr h lam m v - m c v))) := by
  have hz : (Ideal.arith Sc.real).dLlr = (0 : ℝ) := BoxL.zero_real
  rw [hz]
  unfold ArithF.varRule
  simp only [List.map_map, BoxL.sum_real, real_add, real_sub]
  rfl

/-! ### one flooding iteration -/

/-- one flooding iteration when every lookup and every rule succeeds (any arithmetic) -/
theorem floodIter_of {A : Arith} (h : SM) (input : List A.Llr) (em : List (List (Nat × A.VarMsg)))
    (ci : Nat → List (Nat × A.VarMsg)) (co : Nat → List (Nat × A.CheckMsg))
    (vi : Nat → List (Nat × A.CheckMsg)) (vo : Nat → A.Llr × List (Nat × A.VarMsg))
    (hci : ∀ c ∈ List.range h.nrows, BPRef.checkIncoming h em c = some (ci c))
    (hco : ∀ c ∈ List.range h.nrows, A.checkRule (ci c) = some (co c))
    (hvi : ∀ v ∈ List.range h.ncols, BPRef.varIncoming h ((List.range h.nrows).map co) v = some (vi v))
    (hvo : ∀ v ∈ List.range h.ncols, A.varRule (input.getD v A.dLlr) (vi v) = some (vo v)) :
    (BPRef.floodIter h input em).map (fun r => (r.1, r.2.1)) =
      some ((List.range h.ncols).map (fun v => (vo v).2), (List.range h.ncols).map (fun v => (vo v).1)) := by
  have hchecks := mapM_eq_some_map (fun c => do
      let inc ← BPRef.checkIncoming h em c
      let out ← A.checkRule inc
      pure (inc, out)) (fun c => (ci c, co c)) (List.range h.nrows)
    (by intro c hc; simp only [hci c hc, hco c hc, Option.bind_eq_bind, Option.bind_some, Option.pure_def])
  have hvars := mapM_eq_some_map (fun v => do
      let inc ← BPRef.varIncoming h ((List.range h.nrows).map co) v
      let r ← A.varRule (input.getD v A.dLlr) inc
      pure (inc, r)) (fun v => (vi v, vo v)) (List.range h.ncols)
    (by intro v hv; simp only [hvi v hv, hvo v hv, Option.bind_eq_bind, Option.bind_some, Option.pure_def])
  unfold BPRef.floodIter
  simp only [Option.bind_eq_bind, Option.pure_def] at hchecks hvars ⊢
  rw [hchecks]
  simp only [Option.bind_some, List.map_map, Function.comp_def]
  rw [hvars]
  simp only [Option.bind_some, Option.map_some, List.map_map, Function.comp_def]

/-- one flooding iteration on emitted lists of the stated shape: new emitted lists and new LLRs -/
theorem floodIter_emOf (h : SM) (hinv : h.Inv) (lam : List ℝ) (x : Nat → Nat → ℝ) :
    (BPRef.floodIter (A := Ideal.arith Sc.real) h lam (emOf h x)).map (fun r => (r.1, r.2.1)) =
      some (emOf h (fun v c => totLlr h lam (chkMsg h x) v - chkMsg h x c v),
            (List.range h.ncols).map (totLlr h lam (chkMsg h x))) := by
  have := floodIter_of (A := Ideal.arith Sc.real) h lam (emOf h x)
    (fun c => (h.row c).map (fun v => (v, x v c)))
    (fun c => (h.row c).map (fun v => (v, chkMsg h x c v)))
    (fun v => (h.col v).map (fun c => (c, chkMsg h x c v)))
    (fun v => (totLlr h lam (chkMsg h x) v,
            (h.col v).map (fun c => (c, totLlr h lam (chkMsg h x) v - chkMsg h x c v))))
    (fun c _ => checkIncoming_emOf h hinv x c)
    (fun c _ => congrArg some (checkRule_row h x c))
    (fun v _ => varIncoming_chOf h hinv (chkMsg h x) v)
    (fun v _ => congrArg some (varRule_col h lam (chkMsg h x) v))
  exact this

/-! ### the run -/

theorem initEmitted_eq (h : SM) (lam : List ℝ) (hl : lam.length = h.ncols) :
    BPRef.initEmitted (A := Ideal.arith Sc.real) h lam = emOf h (fun v _ => lamAt lam v) := by
  have key : ∀ d : ℝ, d = 0 →
      (List.range lam.length).map (fun v => (h.col v).map (fun c => (c, lam.getD v d))) =
        emOf h (fun v _ => lamAt lam v) := by
    intro d hd
    subst hd
    rw [hl]
    rfl
  exact key _ BoxL.zero_real

theorem lam_eq_map_lamAt (h : SM) (lam : List ℝ) (hl : lam.length = h.ncols) :
    lam = (List.range h.ncols).map (lamAt lam) := by
  apply List.ext_getElem
  · simp [hl]
  · intro i h1 h2
    simp [lamAt, List.getD_eq_getElem?_getD, h1]

/-- `floodRun` in terms of `emOf` -/
theorem floodRun_emOf (h : SM) (hinv : h.Inv) (lam : List ℝ) (hl : lam.length = h.ncols) (t : Nat) :
    Ideal.floodRun Sc.real h lam t = some (emOf h (X h lam t), (List.range h.ncols).map (L h lam t)) := by
  induction t with
  | zero =>
    unfold Ideal.floodRun
    rw [initEmitted_eq h lam hl]
    have hX : X h lam 0 = fun v _ => lamAt lam v := by funext v c; rfl
    have hL : L h lam 0 = lamAt lam := by funext v; rfl
    rw [hX, hL, ← lam_eq_map_lamAt h lam hl]
  | succ t ih =>
    unfold Ideal.floodRun
    rw [ih]
    have hX : X h lam (t + 1) = fun v c => totLlr h lam (chkMsg h (X h lam t)) v - chkMsg h (X h lam t) c v := by
      funext v c; rfl
    have hL : L h lam (t + 1) = totLlr h lam (chkMsg h (X h lam t)) := by funext v; rfl
    exact (floodIter_emOf h hinv lam (X h lam t)).trans (by rw [hX, hL])

/-- the flooding schedule with the ideal arithmetic never fails; after `t` iterations every variable `v` has emitted
`x_{v→c} = X h lam t v c` to each check `c` of its column (in column order) and its LLR is `L h lam t v` -/
theorem floodRun_eq (h : SM) (hinv : h.Inv) (lam : List ℝ) (hl : lam.length = h.ncols) (t : Nat) :
    Ideal.floodRun Sc.real h lam t =
      some ((List.range h.ncols).map (fun v => (h.col v).map (fun c => (c, X h lam t v c))),
            (List.range h.ncols).map (L h lam t)) :=
  floodRun_emOf h hinv lam hl t

end LdpcV.TreeBP
