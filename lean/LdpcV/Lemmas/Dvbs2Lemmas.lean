/- Helper lemmas (Dvbs2Lemmas) for the standard-code properties C06 / C07.
Split into Dvbs2Lemmas1 (construction, invariant, quasi-cyclic law, encoder), Dvbs2Lemmas2 (4-cycle test),
Dvbs2Lemmas3 (one-pass rows), Dvbs2Lemmas4 (short cycles, girth of the rate-1/2 code). -/
import LdpcV.Spec.CodesSpec
import LdpcV.Props.C02
import LdpcV.Lemmas.SparseLemmas
import LdpcV.Lemmas.Dvbs2Lemmas1
import LdpcV.Lemmas.Dvbs2Lemmas2
import LdpcV.Lemmas.Dvbs2Lemmas3
import LdpcV.Lemmas.Dvbs2Lemmas4
namespace LdpcV

end LdpcV
