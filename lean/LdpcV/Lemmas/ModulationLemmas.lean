/- Helper lemmas (ModulationLemmas): real-number semantics (imports single Mathlib modules via RealScalar). -/
import LdpcV.Lemmas.RealScalar
import LdpcV.Lemmas.RealScalarSimp
import LdpcV.Model.Modulation
import LdpcV.Model.ArithF
import Mathlib.Analysis.SpecialFunctions.Pow.Real
import Mathlib.Tactic
namespace LdpcV.ModL
open LdpcV LdpcV.Modulation

/-! ### max* -/

theorem maxstar_real (a b : ℝ) :
    maxstar Sc.real a b = max a b + Real.log (1 + Real.exp (-|a - b|)) := rfl

theorem maxstar_lse (a b : ℝ) : maxstar Sc.real a b = Real.log (Real.exp a + Real.exp b) := by
  rw [maxstar_real]
  have hp : 0 < 1 + Real.exp (-|a - b|) := by positivity
  rw [← Real.log_exp (max a b + Real.log (1 + Real.exp (-|a - b|))), Real.exp_add, Real.exp_log hp]
  congr 1
  rcases le_total a b with h | h
  · rw [max_eq_right h, abs_of_nonpos (by linarith), mul_add, ← Real.exp_add]
    ring_nf
  · rw [max_eq_left h, abs_of_nonneg (by linarith), mul_add, ← Real.exp_add]
    ring_nf

theorem maxstar4_lse (x0 x1 x2 x3 : ℝ) :
    maxstar4 Sc.real x0 x1 x2 x3 = Real.log (Real.exp x0 + Real.exp x1 + Real.exp x2 + Real.exp x3) := by
  have h1 : 0 < Real.exp x0 + Real.exp x1 := by positivity
  have h2 : 0 < Real.exp x0 + Real.exp x1 + Real.exp x2 := by positivity
  simp only [maxstar4, maxstar_lse, Real.exp_log h1, Real.exp_log h2]

/-! ### BPSK -/

theorem bpskMod_false : bpskMod Sc.real false = -1 := by simp [bpskMod]
theorem bpskMod_true : bpskMod Sc.real true = 1 := by simp [bpskMod]
theorem bpskDemod_real (sigma r : ℝ) : bpskDemod Sc.real sigma r = -2 / (sigma * sigma) * r := by
  simp [bpskDemod]

theorem bpsk_llr (sigma r : ℝ) (hs : 0 < sigma) :
    bpskDemod Sc.real sigma r =
      Real.log (Real.exp (-(r - bpskMod Sc.real false) ^ 2 / (2 * sigma ^ 2)) /
                Real.exp (-(r - bpskMod Sc.real true) ^ 2 / (2 * sigma ^ 2))) := by
  rw [bpskDemod_real, bpskMod_false, bpskMod_true, Real.log_div (Real.exp_ne_zero _) (Real.exp_ne_zero _),
    Real.log_exp, Real.log_exp]
  have : sigma ≠ 0 := hs.ne'
  field_simp
  ring

theorem bpsk_noiseless_hard (sigma : ℝ) (hs : 0 < sigma) (b : Bool) :
    (b = true ↔ bpskDemod Sc.real sigma (bpskMod Sc.real b) < 0) ∧
    (b = false ↔ 0 < bpskDemod Sc.real sigma (bpskMod Sc.real b)) := by
  have h2 : 0 < 2 / (sigma * sigma) := by positivity
  cases b
  · rw [bpskDemod_real, bpskMod_false]
    constructor
    · simp only [Bool.false_eq_true, false_iff, not_lt]
      have : -2 / (sigma * sigma) * -1 = 2 / (sigma * sigma) := by ring
      rw [this]; exact h2.le
    · simp only [true_iff]
      have : -2 / (sigma * sigma) * -1 = 2 / (sigma * sigma) := by ring
      rw [this]; exact h2
  · rw [bpskDemod_real, bpskMod_true]
    have : -2 / (sigma * sigma) * 1 = -(2 / (sigma * sigma)) := by ring
    rw [this]
    constructor
    · simp only [true_iff]; linarith
    · simp only [Bool.true_eq_false, false_iff, not_lt]; linarith

/-! ### noise level -/

theorem sigma_law (ebn0Db rate bps : ℝ) (hr : 0 < rate) (hb : 0 < bps) :
    2 * (noiseSigma Sc.real ebn0Db rate bps) ^ 2 * rate * bps * (10 : ℝ) ^ (ebn0Db / 10) = 1 := by
  have h10 : (10 : ℝ) ^ (ebn0Db / 10) = Real.exp (1 / 10 * ebn0Db * Real.log 10) := by
    rw [Real.rpow_def_of_pos (by norm_num)]
    congr 1; ring
  have hn : noiseSigma Sc.real ebn0Db rate bps =
      Real.sqrt (1 / 2 / (rate * bps * Real.exp (1 / 10 * ebn0Db * Real.log 10))) := by
    simp [noiseSigma]
  rw [hn, h10]
  have he : 0 < Real.exp (1 / 10 * ebn0Db * Real.log 10) := Real.exp_pos _
  rw [Real.sq_sqrt (by positivity)]
  field_simp

/-! ### 8PSK: unit energy and exact LLRs -/

theorem sq_sqrt_half : Real.sqrt (1 / 2) ^ 2 = 1 / 2 := Real.sq_sqrt (by norm_num)

theorem unit_energy (b0 b1 b2 : Bool) :
    (psk8Mod Sc.real b0 b1 b2).1 ^ 2 + (psk8Mod Sc.real b0 b1 b2).2 ^ 2 = 1 := by
  have h := sq_sqrt_half
  cases b0 <;> cases b1 <;> cases b2 <;> simp [psk8Mod] <;> linarith

/-- the scaled dot product used by the demodulator -/
noncomputable def dd (sigma : ℝ) (r : ℝ × ℝ) (b0 b1 b2 : Bool) : ℝ :=
  dot Sc.real (r.1 * (1 / (sigma * sigma)), r.2 * (1 / (sigma * sigma))) (psk8Mod Sc.real b0 b1 b2)

theorem psk8Demod_real (sigma : ℝ) (r : ℝ × ℝ) :
    psk8Demod Sc.real sigma r =
    (maxstar4 Sc.real (dd sigma r false false false) (dd sigma r false false true) (dd sigma r false true false) (dd sigma r false true true) -
       maxstar4 Sc.real (dd sigma r true false false) (dd sigma r true false true) (dd sigma r true true false) (dd sigma r true true true),
     maxstar4 Sc.real (dd sigma r false false false) (dd sigma r false false true) (dd sigma r true false false) (dd sigma r true false true) -
       maxstar4 Sc.real (dd sigma r false true false) (dd sigma r false true true) (dd sigma r true true false) (dd sigma r true true true),
     maxstar4 Sc.real (dd sigma r false false false) (dd sigma r false true false) (dd sigma r true false false) (dd sigma r true true false) -
       maxstar4 Sc.real (dd sigma r false false true) (dd sigma r false true true) (dd sigma r true false true) (dd sigma r true true true)) := by
  simp [psk8Demod, dd]


/-- Gaussian likelihood (unnormalised) of `r` given the constellation point -/
noncomputable def likR (sigma : ℝ) (r : ℝ × ℝ) (b0 b1 b2 : Bool) : ℝ :=
  Real.exp (-((r.1 - (psk8Mod Sc.real b0 b1 b2).1) ^ 2 + (r.2 - (psk8Mod Sc.real b0 b1 b2).2) ^ 2) / (2 * sigma ^ 2))

theorem likR_eq (sigma : ℝ) (r : ℝ × ℝ) (b0 b1 b2 : Bool) :
    likR sigma r b0 b1 b2 = Real.exp (-(r.1 ^ 2 + r.2 ^ 2 + 1) / (2 * sigma ^ 2)) * Real.exp (dd sigma r b0 b1 b2) := by
  rw [← Real.exp_add, likR]
  congr 1
  have h := unit_energy b0 b1 b2
  simp only [dd, dot, real_add, real_mul]
  generalize psk8Mod Sc.real b0 b1 b2 = p at *
  linear_combination (-1 / (2 * sigma ^ 2)) * h

theorem lse_ratio (K a0 a1 a2 a3 b0 b1 b2 b3 : ℝ) (hK : 0 < K) :
    Real.log (Real.exp a0 + Real.exp a1 + Real.exp a2 + Real.exp a3) -
      Real.log (Real.exp b0 + Real.exp b1 + Real.exp b2 + Real.exp b3) =
    Real.log ((K * Real.exp a0 + K * Real.exp a1 + K * Real.exp a2 + K * Real.exp a3) /
      (K * Real.exp b0 + K * Real.exp b1 + K * Real.exp b2 + K * Real.exp b3)) := by
  have hA : 0 < Real.exp a0 + Real.exp a1 + Real.exp a2 + Real.exp a3 := by positivity
  have hB : 0 < Real.exp b0 + Real.exp b1 + Real.exp b2 + Real.exp b3 := by positivity
  rw [← Real.log_div hA.ne' hB.ne']
  congr 1
  field_simp

theorem psk8_llr (sigma : ℝ) (r : ℝ × ℝ) :
    (psk8Demod Sc.real sigma r).1 =
      Real.log ((likR sigma r false false false + likR sigma r false false true + likR sigma r false true false + likR sigma r false true true) /
                (likR sigma r true false false + likR sigma r true false true + likR sigma r true true false + likR sigma r true true true)) ∧
    (psk8Demod Sc.real sigma r).2.1 =
      Real.log ((likR sigma r false false false + likR sigma r false false true + likR sigma r true false false + likR sigma r true false true) /
                (likR sigma r false true false + likR sigma r false true true + likR sigma r true true false + likR sigma r true true true)) ∧
    (psk8Demod Sc.real sigma r).2.2 =
      Real.log ((likR sigma r false false false + likR sigma r false true false + likR sigma r true false false + likR sigma r true true false) /
                (likR sigma r false false true + likR sigma r false true true + likR sigma r true false true + likR sigma r true true true)) := by
  simp only [psk8Demod_real, maxstar4_lse, likR_eq]
  exact ⟨lse_ratio _ _ _ _ _ _ _ _ _ (Real.exp_pos _), lse_ratio _ _ _ _ _ _ _ _ _ (Real.exp_pos _),
    lse_ratio _ _ _ _ _ _ _ _ _ (Real.exp_pos _)⟩


/-! ### Gray mapping -/

theorem sqrt_half : Real.sqrt (1 / 2) = Real.sqrt 2 / 2 := by
  rw [Real.sqrt_eq_iff_mul_self_eq (by norm_num) (by positivity)]
  have : Real.sqrt 2 * Real.sqrt 2 = 2 := Real.mul_self_sqrt (by norm_num)
  linear_combination (-1/4) * this

theorem inv_sqrt_two : (Real.sqrt 2)⁻¹ = Real.sqrt 2 / 2 := by
  have : Real.sqrt 2 * Real.sqrt 2 = 2 := Real.mul_self_sqrt (by norm_num)
  have h0 : Real.sqrt 2 ≠ 0 := by positivity
  field_simp
  linarith

def angOrd : List (Bool × Bool × Bool) :=
  [(false, false, true), (false, false, false), (true, false, false), (true, true, false),
   (false, true, false), (false, true, true), (true, true, true), (true, false, true)]

theorem cos3 : Real.cos (3 * (Real.pi / 4)) = -(Real.sqrt 2 / 2) := by
  rw [show 3 * (Real.pi / 4) = Real.pi - Real.pi / 4 by ring, Real.cos_pi_sub, Real.cos_pi_div_four]
theorem sin3 : Real.sin (3 * (Real.pi / 4)) = Real.sqrt 2 / 2 := by
  rw [show 3 * (Real.pi / 4) = Real.pi - Real.pi / 4 by ring, Real.sin_pi_sub, Real.sin_pi_div_four]
theorem cos5 : Real.cos (5 * (Real.pi / 4)) = -(Real.sqrt 2 / 2) := by
  rw [show 5 * (Real.pi / 4) = Real.pi / 4 + Real.pi by ring, Real.cos_add_pi, Real.cos_pi_div_four]
theorem sin5 : Real.sin (5 * (Real.pi / 4)) = -(Real.sqrt 2 / 2) := by
  rw [show 5 * (Real.pi / 4) = Real.pi / 4 + Real.pi by ring, Real.sin_add_pi, Real.sin_pi_div_four]
theorem cos6 : Real.cos (6 * (Real.pi / 4)) = 0 := by
  rw [show 6 * (Real.pi / 4) = Real.pi / 2 + Real.pi by ring, Real.cos_add_pi, Real.cos_pi_div_two, neg_zero]
theorem sin6 : Real.sin (6 * (Real.pi / 4)) = -1 := by
  rw [show 6 * (Real.pi / 4) = Real.pi / 2 + Real.pi by ring, Real.sin_add_pi, Real.sin_pi_div_two]
theorem cos7 : Real.cos (7 * (Real.pi / 4)) = Real.sqrt 2 / 2 := by
  rw [show 7 * (Real.pi / 4) = 2 * Real.pi - Real.pi / 4 by ring, Real.cos_two_pi_sub, Real.cos_pi_div_four]
theorem sin7 : Real.sin (7 * (Real.pi / 4)) = -(Real.sqrt 2 / 2) := by
  rw [show 7 * (Real.pi / 4) = 2 * Real.pi - Real.pi / 4 by ring, Real.sin_two_pi_sub, Real.sin_pi_div_four]
theorem cos2 : Real.cos (2 * (Real.pi / 4)) = 0 := by
  rw [show 2 * (Real.pi / 4) = Real.pi / 2 by ring, Real.cos_pi_div_two]
theorem sin2 : Real.sin (2 * (Real.pi / 4)) = 1 := by
  rw [show 2 * (Real.pi / 4) = Real.pi / 2 by ring, Real.sin_pi_div_two]
theorem cos4 : Real.cos (4 * (Real.pi / 4)) = -1 := by
  rw [show 4 * (Real.pi / 4) = Real.pi by ring, Real.cos_pi]
theorem sin4 : Real.sin (4 * (Real.pi / 4)) = 0 := by
  rw [show 4 * (Real.pi / 4) = Real.pi by ring, Real.sin_pi]

theorem gray_mapping :
    (∀ i : Fin 8, psk8Mod Sc.real (angOrd[i]).1 (angOrd[i]).2.1 (angOrd[i]).2.2 =
        (Real.cos (i.val * (Real.pi / 4)), Real.sin (i.val * (Real.pi / 4)))) ∧
    (∀ i : Fin 8, let a := angOrd[i]; let b := angOrd[(⟨(i.val + 1) % 8, Nat.mod_lt _ (by decide)⟩ : Fin 8)]
        ((if a.1 != b.1 then 1 else 0) + (if a.2.1 != b.2.1 then 1 else 0) + (if a.2.2 != b.2.2 then 1 else 0) : Nat) = 1) := by
  refine ⟨?_, by decide⟩
  intro i
  fin_cases i <;>
    simp [angOrd, psk8Mod, inv_sqrt_two, cos2, sin2, cos3, sin3, cos4, sin4, cos5, sin5, cos6, sin6, cos7, sin7]


/-! ### noiseless hard decisions -/

/-- angular index of a bit triple (multiples of 45°) -/
def idx : Bool → Bool → Bool → Nat
  | false, false, true => 0
  | false, false, false => 1
  | true, false, false => 2
  | true, true, false => 3
  | false, true, false => 4
  | false, true, true => 5
  | true, true, true => 6
  | true, false, true => 7

/-- cos (k·45°) with `a = √½` -/
def cosK (a : ℝ) (k : Nat) : ℝ :=
  match k % 8 with
  | 0 => 1 | 1 => a | 2 => 0 | 3 => -a | 4 => -1 | 5 => -a | 6 => 0 | _ => a

/-- the constellation with `a = √½` -/
def pts (a : ℝ) : Bool → Bool → Bool → ℝ × ℝ
  | false, false, false => (a, a)
  | true, false, false => (0, 1)
  | true, true, false => (-a, a)
  | false, true, false => (-1, 0)
  | false, true, true => (-a, -a)
  | true, true, true => (0, -1)
  | true, false, true => (a, -a)
  | false, false, true => (1, 0)

theorem psk8Mod_real (b0 b1 b2 : Bool) : psk8Mod Sc.real b0 b1 b2 = pts (Real.sqrt (1 / 2)) b0 b1 b2 := by
  cases b0 <;> cases b1 <;> cases b2 <;> simp [psk8Mod, pts]

theorem pts_table (a c : ℝ) (h : a ^ 2 = 1 / 2) (t0 t1 t2 b0 b1 b2 : Bool) :
    (pts a t0 t1 t2).1 * c * (pts a b0 b1 b2).1 + (pts a t0 t1 t2).2 * c * (pts a b0 b1 b2).2 =
      c * cosK a (idx b0 b1 b2 + 8 - idx t0 t1 t2) := by
  have h' : a ^ 2 * c = 1 / 2 * c := by rw [h]
  cases t0 <;> cases t1 <;> cases t2 <;> cases b0 <;> cases b1 <;> cases b2 <;>
    simp [pts, idx, cosK] <;> linarith

theorem dd_table (sigma : ℝ) (t0 t1 t2 b0 b1 b2 : Bool) :
    dd sigma (psk8Mod Sc.real t0 t1 t2) b0 b1 b2 =
      1 / (sigma * sigma) * cosK (Real.sqrt (1 / 2)) (idx b0 b1 b2 + 8 - idx t0 t1 t2) := by
  rw [← pts_table _ _ sq_sqrt_half, dd, psk8Mod_real, psk8Mod_real]
  rfl


theorem sqrt_half_pos : 0 < Real.sqrt (1 / 2) := Real.sqrt_pos.2 (by norm_num)
theorem sqrt_half_lt_one : Real.sqrt (1 / 2) < 1 := by
  rw [Real.sqrt_lt' (by norm_num)]; norm_num

theorem two_lt_exp_add_exp_neg (c : ℝ) (hc : 0 < c) : 2 < Real.exp c + Real.exp (-c) := by
  have h1 := Real.add_one_lt_exp hc.ne'
  have h2 := Real.add_one_lt_exp (neg_ne_zero.2 hc.ne')
  linarith

/-- the exponential weight of constellation point `b` when `t` was sent (common factor removed) -/
noncomputable def ew (a c : ℝ) (t0 t1 t2 b0 b1 b2 : Bool) : ℝ :=
  Real.exp (c * cosK a (idx b0 b1 b2 + 8 - idx t0 t1 t2))

theorem hard_core (a c : ℝ) (ha0 : 0 < a) (ha1 : a < 1) (hc : 0 < c) (t0 t1 t2 : Bool) :
    (t0 = true → ew a c t0 t1 t2 false false false + ew a c t0 t1 t2 false false true + ew a c t0 t1 t2 false true false + ew a c t0 t1 t2 false true true
        < ew a c t0 t1 t2 true false false + ew a c t0 t1 t2 true false true + ew a c t0 t1 t2 true true false + ew a c t0 t1 t2 true true true) ∧
    (t0 = false → ew a c t0 t1 t2 true false false + ew a c t0 t1 t2 true false true + ew a c t0 t1 t2 true true false + ew a c t0 t1 t2 true true true
        < ew a c t0 t1 t2 false false false + ew a c t0 t1 t2 false false true + ew a c t0 t1 t2 false true false + ew a c t0 t1 t2 false true true) ∧
    (t1 = true → ew a c t0 t1 t2 false false false + ew a c t0 t1 t2 false false true + ew a c t0 t1 t2 true false false + ew a c t0 t1 t2 true false true
        < ew a c t0 t1 t2 false true false + ew a c t0 t1 t2 false true true + ew a c t0 t1 t2 true true false + ew a c t0 t1 t2 true true true) ∧
    (t1 = false → ew a c t0 t1 t2 false true false + ew a c t0 t1 t2 false true true + ew a c t0 t1 t2 true true false + ew a c t0 t1 t2 true true true
        < ew a c t0 t1 t2 false false false + ew a c t0 t1 t2 false false true + ew a c t0 t1 t2 true false false + ew a c t0 t1 t2 true false true) ∧
    (t2 = true → ew a c t0 t1 t2 false false false + ew a c t0 t1 t2 false true false + ew a c t0 t1 t2 true false false + ew a c t0 t1 t2 true true false
        < ew a c t0 t1 t2 false false true + ew a c t0 t1 t2 false true true + ew a c t0 t1 t2 true false true + ew a c t0 t1 t2 true true true) ∧
    (t2 = false → ew a c t0 t1 t2 false false true + ew a c t0 t1 t2 false true true + ew a c t0 t1 t2 true false true + ew a c t0 t1 t2 true true true
        < ew a c t0 t1 t2 false false false + ew a c t0 t1 t2 false true false + ew a c t0 t1 t2 true false false + ew a c t0 t1 t2 true true false) := by
  have hca : 0 < c * a := by positivity
  have hcac : c * a < c := by nlinarith
  have h1 : 1 < Real.exp (c * a) := Real.one_lt_exp_iff.2 hca
  have h2 : Real.exp (c * a) < Real.exp c := Real.exp_lt_exp.2 hcac
  have h3 : Real.exp (-(c * a)) < 1 := Real.exp_lt_one_iff.2 (by linarith)
  have h4 : Real.exp (-c) < Real.exp (-(c * a)) := Real.exp_lt_exp.2 (by linarith)
  have h5 : 0 < Real.exp (-c) := Real.exp_pos _
  have h6 := two_lt_exp_add_exp_neg c hc
  cases t0 <;> cases t1 <;> cases t2 <;> simp [ew, idx, cosK] <;> refine ⟨?_, ?_, ?_⟩ <;> linarith

theorem bit_iff (b : Bool) (A B : ℝ) (hA : 0 < A) (hB : 0 < B) (h1 : b = true → A < B) (h0 : b = false → B < A) :
    (b = true ↔ Real.log A - Real.log B < 0) ∧ (b = false ↔ 0 < Real.log A - Real.log B) := by
  cases b
  · have := Real.log_lt_log hB (h0 rfl)
    constructor
    · simp only [Bool.false_eq_true, false_iff, not_lt]; linarith
    · simp only [true_iff]; linarith
  · have := Real.log_lt_log hA (h1 rfl)
    constructor
    · simp only [true_iff]; linarith
    · simp only [Bool.true_eq_false, false_iff, not_lt]; linarith

theorem noiseless_hard (sigma : ℝ) (hs : 0 < sigma) (b0 b1 b2 : Bool) :
    let l := psk8Demod Sc.real sigma (psk8Mod Sc.real b0 b1 b2)
    (b0 = true ↔ l.1 < 0) ∧ (b0 = false ↔ 0 < l.1) ∧
    (b1 = true ↔ l.2.1 < 0) ∧ (b1 = false ↔ 0 < l.2.1) ∧
    (b2 = true ↔ l.2.2 < 0) ∧ (b2 = false ↔ 0 < l.2.2) := by
  have hc : 0 < 1 / (sigma * sigma) := by positivity
  obtain ⟨g1, g2, g3, g4, g5, g6⟩ := hard_core _ _ sqrt_half_pos sqrt_half_lt_one hc b0 b1 b2
  simp only [psk8Demod_real, maxstar4_lse, dd_table]
  simp only [ew] at g1 g2 g3 g4 g5 g6
  have k1 := bit_iff b0 _ _ (by positivity) (by positivity) g1 g2
  have k2 := bit_iff b1 _ _ (by positivity) (by positivity) g3 g4
  have k3 := bit_iff b2 _ _ (by positivity) (by positivity) g5 g6
  exact ⟨k1.1, k1.2, k2.1, k2.2, k3.1, k3.2⟩


theorem decide_le_zero_eq (b : Bool) (l : ℝ) (h1 : b = true ↔ l < 0) (h0 : b = false ↔ 0 < l) :
    decide (l ≤ 0) = b := by
  cases b
  · have := h0.1 rfl
    simp only [decide_eq_false_iff_not, not_le]; exact this
  · have := h1.1 rfl
    simp only [decide_eq_true_eq]; exact this.le

theorem noiseless_hard_all (sigma : ℝ) (hs : 0 < sigma) (bits : List Bool) :
    ∀ (syms : List (ℝ × ℝ)), psk8ModAll Sc.real bits = some syms →
    (psk8DemodAll Sc.real sigma syms).map (fun l => decide (l ≤ 0)) = bits := by
  induction bits using psk8ModAll.induct with
  | case1 => intro syms hm; simp [psk8ModAll] at hm; subst hm; simp [psk8DemodAll]
  | case2 b0 b1 b2 rest ih =>
    intro syms hm
    simp only [psk8ModAll, Option.map_eq_some_iff] at hm
    obtain ⟨t, ht, rfl⟩ := hm
    have h := noiseless_hard sigma hs b0 b1 b2
    simp only at h
    obtain ⟨h1, h2, h3, h4, h5, h6⟩ := h
    have := ih t ht
    simp only [psk8DemodAll, List.flatMap_cons, List.map_append, List.map_cons, List.map_nil] at this ⊢
    rw [this, decide_le_zero_eq b0 _ h1 h2, decide_le_zero_eq b1 _ h3 h4, decide_le_zero_eq b2 _ h5 h6]
    rfl
  | case3 l h1 h2 => intro syms hm; simp [psk8ModAll] at hm


end LdpcV.ModL
