/- Helper lemmas (RoundSigma): `noise_sigma` of the BER simulation (Model/Modulation.lean, `noiseSigma`) under the standard
model of floating-point arithmetic: σ̃ = σ·F with explicit bounds on F. -/
import LdpcV.Lemmas.RoundTanh
namespace LdpcV.Round
open LdpcV LdpcV.Modulation

variable (M : FpModel)

theorem log_ten_ge_one : 1 ≤ Real.log 10 := by
  have h := Real.exp_one_lt_d9
  have : Real.exp 1 ≤ 10 := by linarith
  have := Real.log_le_log (Real.exp_pos 1) this
  rwa [Real.log_exp] at this

/-- |log(1+δ)| ≤ u·b for |δ| ≤ u -/
theorem abs_log_one_add (δ : ℝ) (hδ : |δ| ≤ M.u) : |Real.log (1 + δ)| ≤ M.u * b M := by
  have hδ' := abs_le.mp hδ
  have hu1 := M.u_lt
  have hu := M.u_nonneg
  have hpos : 0 < 1 + δ := by linarith
  have hub : M.u * b M = M.u / (1 - M.u) := by unfold b; ring
  have hbu : M.u ≤ M.u * b M := by have := one_le_b M; nlinarith
  rw [abs_le]; constructor
  · -- log(1+δ) ≥ 1 − 1/(1+δ) = δ/(1+δ) ≥ −u/(1−u)
    have h1 : 1 - 1 / (1 + δ) ≤ Real.log (1 + δ) := by
      have := Real.one_sub_inv_le_log_of_pos hpos
      rwa [one_div]
    have h2 : -(M.u / (1 - M.u)) ≤ 1 - 1 / (1 + δ) := by
      have e : 1 - 1 / (1 + δ) = δ / (1 + δ) := by field_simp; ring
      rw [e, neg_le, ← neg_div, div_le_div_iff₀ hpos (one_sub_pos M)]
      nlinarith
    rw [hub]; linarith
  · have := Real.log_le_sub_one_of_pos hpos
    linarith

/-- lower and upper factor of the computed exponent Ã = A·(1+θ) -/
noncomputable def expLo : ℝ := (1 - M.u) ^ 3 * (1 - M.u * b M) * (1 - M.e)
noncomputable def expHi : ℝ := (b M) ^ 3 * (1 + M.u * b M) * (1 + M.e)
/-- relative error bound of the exponent -/
noncomputable def tauE : ℝ := expHi M - expLo M

/-- the exponent `0.1·dB·ln 10` as computed: `fl(fl(fl(1/10)·dB)·flog(fl 10))` -/
noncomputable def expoF (db : ℝ) : ℝ :=
  M.fl (M.fl (M.fl (((1 : ℤ) : ℝ) / ((10 : ℕ) : ℝ)) * db) * M.flog (M.fl (((10 : ℤ) : ℝ) / ((1 : ℕ) : ℝ))))
noncomputable def expoR (db : ℝ) : ℝ := (((1 : ℤ) : ℝ) / ((10 : ℕ) : ℝ)) * db * Real.log (((10 : ℤ) : ℝ) / ((1 : ℕ) : ℝ))

theorem expo_err (hub : M.u * b M ≤ 1 / 2) (db : ℝ) : |expoF M db - expoR db| ≤ tauE M * |expoR db| := by
  unfold expoF expoR
  have hten : (((10 : ℤ) : ℝ) / ((1 : ℕ) : ℝ)) = 10 := by norm_num
  rw [hten]
  obtain ⟨δ, hδ, hfl10⟩ := fl_eq M (10 : ℝ)
  have hδ' := abs_le.mp hδ
  have hu := M.u_nonneg
  have hu1 := M.u_lt
  have he := M.e_nonneg
  have he1 := M.e_le
  have hpos10 : (0 : ℝ) < 10 * (1 + δ) := by nlinarith
  have hlog := M.log_err (10 * (1 + δ)) hpos10
  rw [hfl10]
  have hl10 := log_ten_ge_one
  have hsplit : Real.log (10 * (1 + δ)) = Real.log 10 + Real.log (1 + δ) := by
    rw [Real.log_mul (by norm_num) (by linarith)]
  have hld := abs_log_one_add M δ hδ
  have hld' := abs_le.mp hld
  -- L̃ = log 10 · w with w ∈ [(1−ub)(1−e), (1+ub)(1+e)]
  set L := M.flog (10 * (1 + δ)) with hL
  have hLpos : 0 < Real.log (10 * (1 + δ)) := by rw [hsplit]; linarith
  rw [abs_of_pos hLpos] at hlog
  have hlog' := abs_le.mp hlog
  have hLlo : Real.log 10 * ((1 - M.u * b M) * (1 - M.e)) ≤ L := by
    have h1 : Real.log 10 * (1 - M.u * b M) ≤ Real.log (10 * (1 + δ)) := by rw [hsplit]; nlinarith
    have h2 : Real.log (10 * (1 + δ)) * (1 - M.e) ≤ L := by linarith
    have h3 : 0 ≤ 1 - M.e := by linarith
    nlinarith
  have hLhi : L ≤ Real.log 10 * ((1 + M.u * b M) * (1 + M.e)) := by
    have h1 : Real.log (10 * (1 + δ)) ≤ Real.log 10 * (1 + M.u * b M) := by rw [hsplit]; nlinarith
    have h2 : L ≤ Real.log (10 * (1 + δ)) * (1 + M.e) := by linarith
    nlinarith
  -- the products
  have hn2 : Near M 2 ((((1 : ℤ) : ℝ) / ((10 : ℕ) : ℝ)) * db) (M.fl (M.fl (((1 : ℤ) : ℝ) / ((10 : ℕ) : ℝ)) * db)) :=
    near_fl M (near_mul M (near_fl M (near_refl M _)) (near_refl M db))
  obtain ⟨f2, hf2, f2lo, f2hi⟩ := hn2
  obtain ⟨δ3, hδ3, hfl3⟩ := fl_eq M (M.fl (M.fl (((1 : ℤ) : ℝ) / ((10 : ℕ) : ℝ)) * db) * L)
  have hδ3' := abs_le.mp hδ3
  rw [hfl3, hf2]
  set m := (((1 : ℤ) : ℝ) / ((10 : ℕ) : ℝ)) * db with hm
  set w := L / Real.log 10 with hw
  have hl10pos : 0 < Real.log 10 := by linarith
  have hLw : L = Real.log 10 * w := by rw [hw]; field_simp
  have hwlo : (1 - M.u * b M) * (1 - M.e) ≤ w := by
    rw [hw, le_div_iff₀ hl10pos]; linarith
  have hwhi : w ≤ (1 + M.u * b M) * (1 + M.e) := by
    rw [hw, div_le_iff₀ hl10pos]; linarith
  -- total factor
  set F := f2 * w * (1 + δ3) with hF
  have e : m * f2 * L * (1 + δ3) - m * Real.log 10 = (m * Real.log 10) * (F - 1) := by rw [hLw, hF]; ring
  rw [e, abs_mul, mul_comm]
  apply mul_le_mul_of_nonneg_right _ (abs_nonneg _)
  have hq2 : 0 < (1 - M.u) ^ 2 := pow_pos (one_sub_pos M) 2
  have hf2pos : 0 < f2 := lt_of_lt_of_le hq2 f2lo
  have hwlo0 : 0 ≤ (1 - M.u * b M) * (1 - M.e) := mul_nonneg (by linarith) (by linarith)
  have hwpos : 0 ≤ w := le_trans hwlo0 hwlo
  have hb1 := one_le_b M
  have hbpos := b_pos M
  have hone := one_add_le_b M
  have hubn : 0 ≤ M.u * b M := mul_nonneg hu hbpos.le
  have hFlo : expLo M ≤ F := by
    unfold expLo; rw [hF]
    have h1 : (1 - M.u) ^ 2 * ((1 - M.u * b M) * (1 - M.e)) ≤ f2 * w := mul_le_mul f2lo hwlo hwlo0 hf2pos.le
    have h2 : (1 - M.u) ≤ 1 + δ3 := by linarith
    have h3 : 0 ≤ f2 * w := mul_nonneg hf2pos.le hwpos
    have h4 : 0 ≤ (1 - M.u) := (one_sub_pos M).le
    calc (1 - M.u) ^ 3 * (1 - M.u * b M) * (1 - M.e)
        = ((1 - M.u) ^ 2 * ((1 - M.u * b M) * (1 - M.e))) * (1 - M.u) := by ring
      _ ≤ (f2 * w) * (1 + δ3) := mul_le_mul h1 h2 h4 h3
  have hFhi : F ≤ expHi M := by
    unfold expHi; rw [hF]
    have h1 : f2 * w ≤ (b M) ^ 2 * ((1 + M.u * b M) * (1 + M.e)) :=
      mul_le_mul f2hi hwhi hwpos (pow_nonneg hbpos.le 2)
    have h2 : 1 + δ3 ≤ b M := by linarith
    have h3 : 0 ≤ 1 + δ3 := by linarith
    have h4 : 0 ≤ (b M) ^ 2 * ((1 + M.u * b M) * (1 + M.e)) := by positivity
    calc f2 * w * (1 + δ3) ≤ ((b M) ^ 2 * ((1 + M.u * b M) * (1 + M.e))) * b M := mul_le_mul h1 h2 h3 h4
      _ = (b M) ^ 3 * (1 + M.u * b M) * (1 + M.e) := by ring
  have hlo1 : expLo M ≤ 1 := by
    unfold expLo
    have h1 : (1 - M.u) ^ 3 ≤ 1 := pow_le_one₀ (one_sub_pos M).le (one_sub_le_one M)
    have h2 : 0 ≤ (1 - M.u) ^ 3 := pow_nonneg (one_sub_pos M).le 3
    have h3 : (1 - M.u * b M) ≤ 1 := by linarith
    have h4 : 0 ≤ 1 - M.u * b M := by linarith
    have h5 : 1 - M.e ≤ 1 := by linarith
    have h6 : 0 ≤ 1 - M.e := by linarith
    calc (1 - M.u) ^ 3 * (1 - M.u * b M) * (1 - M.e) ≤ 1 * 1 * 1 :=
          mul_le_mul (mul_le_mul h1 h3 h4 (by norm_num)) h5 h6 (by norm_num)
      _ = 1 := by ring
  have hhi1 : 1 ≤ expHi M := by
    unfold expHi
    have h1 : 1 ≤ (b M) ^ 3 := one_le_pow₀ hb1
    have h2 : 1 ≤ 1 + M.u * b M := by linarith
    have h3 : 1 ≤ 1 + M.e := by linarith
    calc (1 : ℝ) = 1 * 1 * 1 := by ring
      _ ≤ (b M) ^ 3 * (1 + M.u * b M) * (1 + M.e) :=
          mul_le_mul (mul_le_mul h1 h2 (by norm_num) (by positivity)) h3 (by norm_num) (by positivity)
  unfold tauE
  rw [abs_le]; constructor <;> linarith

/-! ### the noise level -/

theorem noiseSigma_r (db rate bps : ℝ) : noiseSigma (Sc.rounded M) db rate bps =
    M.fl (Real.sqrt (M.fl (M.fl (((1 : ℤ) : ℝ) / ((2 : ℕ) : ℝ)) / M.fl (M.fl (rate * bps) * M.fexp (expoF M db))))) := rfl

theorem noiseSigma_real (db rate bps : ℝ) : noiseSigma Sc.real db rate bps =
    Real.sqrt ((((1 : ℤ) : ℝ) / ((2 : ℕ) : ℝ)) / (rate * bps * Real.exp (expoR db))) := rfl

/-- bounds of the factor F in σ̃ = σ·F; η = τ·|0.1·dB·ln 10| -/
noncomputable def sigLo (η : ℝ) : ℝ := (1 - M.u) * Real.sqrt ((1 - M.u) ^ 4 * Real.exp (-η) / (1 + M.e))
noncomputable def sigHi (η : ℝ) : ℝ := b M * Real.sqrt ((b M) ^ 4 * Real.exp η / (1 - M.e))

theorem sigma_err (he1 : M.e < 1) (hub : M.u * b M ≤ 1 / 2) (db rate bps : ℝ) (hr : 0 < rate) (hb : 0 < bps) :
    ∃ F, noiseSigma (Sc.rounded M) db rate bps = noiseSigma Sc.real db rate bps * F ∧
      sigLo M (tauE M * |expoR db|) ≤ F ∧ F ≤ sigHi M (tauE M * |expoR db|) := by
  rw [noiseSigma_r, noiseSigma_real]
  set η := tauE M * |expoR db| with hη
  have hexpo := expo_err M hub db
  rw [← hη] at hexpo
  have hexpo' := abs_le.mp hexpo
  set At := expoF M db with hAt
  set A := expoR db with hA
  have hu := M.u_nonneg
  have hu1 := M.u_lt
  have he := M.e_nonneg
  have hbpos := b_pos M
  have hb1 := one_le_b M
  have hq1 := one_sub_pos M
  -- Ẽ = exp(A)·κ
  have hE := M.exp_err At
  have hE' := abs_le.mp hE
  have hexpAt := Real.exp_pos At
  set κ := M.fexp At / Real.exp A with hκ
  have hexpA := Real.exp_pos A
  have hEk : M.fexp At = Real.exp A * κ := by rw [hκ]; field_simp
  have hratio : Real.exp At = Real.exp A * Real.exp (At - A) := by rw [← Real.exp_add]; congr 1; ring
  have hd1 : Real.exp (-η) ≤ Real.exp (At - A) := Real.exp_le_exp.2 (by linarith)
  have hd2 : Real.exp (At - A) ≤ Real.exp η := Real.exp_le_exp.2 (by linarith)
  have hdpos := Real.exp_pos (At - A)
  have hκlo : Real.exp (-η) * (1 - M.e) ≤ κ := by
    rw [hκ, le_div_iff₀ hexpA]
    have : Real.exp At * (1 - M.e) ≤ M.fexp At := by linarith
    have h2 : Real.exp (-η) * (1 - M.e) * Real.exp A ≤ Real.exp At * (1 - M.e) := by
      rw [hratio]
      have h0 : 0 ≤ 1 - M.e := by linarith
      have h3 : Real.exp A * Real.exp (-η) ≤ Real.exp A * Real.exp (At - A) := mul_le_mul_of_nonneg_left hd1 hexpA.le
      have h4 := mul_le_mul_of_nonneg_right h3 h0
      calc Real.exp (-η) * (1 - M.e) * Real.exp A = Real.exp A * Real.exp (-η) * (1 - M.e) := by ring
        _ ≤ Real.exp A * Real.exp (At - A) * (1 - M.e) := h4
    linarith
  have hκhi : κ ≤ Real.exp η * (1 + M.e) := by
    rw [hκ, div_le_iff₀ hexpA]
    have : M.fexp At ≤ Real.exp At * (1 + M.e) := by linarith
    have h2 : Real.exp At * (1 + M.e) ≤ Real.exp η * (1 + M.e) * Real.exp A := by
      rw [hratio]
      have h0 : 0 ≤ 1 + M.e := by linarith
      have h3 : Real.exp A * Real.exp (At - A) ≤ Real.exp A * Real.exp η := mul_le_mul_of_nonneg_left hd2 hexpA.le
      have h4 := mul_le_mul_of_nonneg_right h3 h0
      calc Real.exp A * Real.exp (At - A) * (1 + M.e) ≤ Real.exp A * Real.exp η * (1 + M.e) := h4
        _ = Real.exp η * (1 + M.e) * Real.exp A := by ring
    linarith
  have hκpos : 0 < κ := lt_of_lt_of_le (mul_pos (Real.exp_pos _) (by linarith)) hκlo
  -- the denominator
  have hnD : Near M 2 (rate * bps * M.fexp At) (M.fl (M.fl (rate * bps) * M.fexp At)) :=
    near_fl M (near_mul M (near_fl M (near_refl M _)) (near_refl M _))
  obtain ⟨g, hg, glo, ghi⟩ := hnD
  have hgpos : 0 < g := lt_of_lt_of_le (pow_pos hq1 2) glo
  -- the numerator and the quotient
  obtain ⟨δ1, hδ1, hfl1⟩ := fl_eq M (((1 : ℤ) : ℝ) / ((2 : ℕ) : ℝ))
  have hδ1' := abs_le.mp hδ1
  rw [hg, hfl1, hEk]
  obtain ⟨δ2, hδ2, hfl2⟩ := fl_eq M ((((1 : ℤ) : ℝ) / ((2 : ℕ) : ℝ)) * (1 + δ1) / (rate * bps * (Real.exp A * κ) * g))
  have hδ2' := abs_le.mp hδ2
  rw [hfl2]
  set q := (((1 : ℤ) : ℝ) / ((2 : ℕ) : ℝ)) / (rate * bps * Real.exp A) with hq
  have hqpos : 0 < q := by rw [hq]; positivity
  set G := (1 + δ1) * (1 + δ2) / (κ * g) with hG
  have hGpos : 0 < G := by rw [hG]; exact div_pos (mul_pos (by linarith) (by linarith)) (mul_pos hκpos hgpos)
  have hqG : (((1 : ℤ) : ℝ) / ((2 : ℕ) : ℝ)) * (1 + δ1) / (rate * bps * (Real.exp A * κ) * g) * (1 + δ2) = q * G := by
    rw [hq, hG]; field_simp
  rw [hqG]
  obtain ⟨δ3, hδ3, hfl3⟩ := fl_eq M (Real.sqrt (q * G))
  have hδ3' := abs_le.mp hδ3
  rw [hfl3, Real.sqrt_mul hqpos.le]
  refine ⟨Real.sqrt G * (1 + δ3), by ring, ?_, ?_⟩
  · -- lower bound
    unfold sigLo
    have hGlo : (1 - M.u) ^ 4 * Real.exp (-η) / (1 + M.e) ≤ G := by
      rw [hG, div_le_div_iff₀ (by linarith) (mul_pos hκpos hgpos)]
      have h1 : (1 - M.u) ^ 2 ≤ (1 + δ1) * (1 + δ2) := by
        have : (1 - M.u) * (1 - M.u) ≤ (1 + δ1) * (1 + δ2) := mul_le_mul (by linarith) (by linarith) hq1.le (by linarith)
        calc (1 - M.u) ^ 2 = (1 - M.u) * (1 - M.u) := by ring
          _ ≤ (1 + δ1) * (1 + δ2) := this
      have h2 : κ * g ≤ (Real.exp η * (1 + M.e)) * (b M) ^ 2 := mul_le_mul hκhi ghi hgpos.le (by positivity)
      have hqb : (1 - M.u) ^ 2 * (b M) ^ 2 = 1 := by rw [← mul_pow, mul_comm, b_mul, one_pow]
      have hee : Real.exp (-η) * Real.exp η = 1 := by rw [← Real.exp_add]; simp
      -- (1−u)^4 e^{−η} · κ g ≤ (1−u)^4 e^{−η} e^{η}(1+e) b² = (1−u)²(1+e) ≤ (1+δ1)(1+δ2)(1+e)
      have h3 : (1 - M.u) ^ 4 * Real.exp (-η) * (κ * g) ≤ (1 - M.u) ^ 4 * Real.exp (-η) * ((Real.exp η * (1 + M.e)) * (b M) ^ 2) :=
        mul_le_mul_of_nonneg_left h2 (by positivity)
      have h4 : (1 - M.u) ^ 4 * Real.exp (-η) * ((Real.exp η * (1 + M.e)) * (b M) ^ 2) = (1 - M.u) ^ 2 * (1 + M.e) := by
        have : (1 - M.u) ^ 4 = (1 - M.u) ^ 2 * (1 - M.u) ^ 2 := by ring
        calc (1 - M.u) ^ 4 * Real.exp (-η) * ((Real.exp η * (1 + M.e)) * (b M) ^ 2)
            = ((1 - M.u) ^ 2 * (b M) ^ 2) * (Real.exp (-η) * Real.exp η) * ((1 - M.u) ^ 2 * (1 + M.e)) := by rw [this]; ring
          _ = (1 - M.u) ^ 2 * (1 + M.e) := by rw [hqb, hee]; ring
      have h5 : (1 - M.u) ^ 2 * (1 + M.e) ≤ (1 + δ1) * (1 + δ2) * (1 + M.e) := mul_le_mul_of_nonneg_right h1 (by linarith)
      exact le_trans h3 (by rw [h4]; exact h5)
    have hs := Real.sqrt_le_sqrt hGlo
    have hs0 : 0 ≤ Real.sqrt ((1 - M.u) ^ 4 * Real.exp (-η) / (1 + M.e)) := Real.sqrt_nonneg _
    calc (1 - M.u) * Real.sqrt ((1 - M.u) ^ 4 * Real.exp (-η) / (1 + M.e))
        = Real.sqrt ((1 - M.u) ^ 4 * Real.exp (-η) / (1 + M.e)) * (1 - M.u) := mul_comm _ _
      _ ≤ Real.sqrt G * (1 + δ3) := mul_le_mul hs (by linarith) hq1.le (Real.sqrt_nonneg _)
  · unfold sigHi
    have hGhi : G ≤ (b M) ^ 4 * Real.exp η / (1 - M.e) := by
      rw [hG, div_le_div_iff₀ (mul_pos hκpos hgpos) (by linarith)]
      have h1 : (1 + δ1) * (1 + δ2) ≤ (b M) ^ 2 := by
        have hone := one_add_le_b M
        have : (1 + δ1) * (1 + δ2) ≤ b M * b M := mul_le_mul (by linarith) (by linarith) (by linarith) hbpos.le
        calc (1 + δ1) * (1 + δ2) ≤ b M * b M := this
          _ = (b M) ^ 2 := by ring
      have h2 : (Real.exp (-η) * (1 - M.e)) * (1 - M.u) ^ 2 ≤ κ * g :=
        mul_le_mul hκlo glo (pow_nonneg hq1.le 2) hκpos.le
      have hqb : (1 - M.u) ^ 2 * (b M) ^ 2 = 1 := by rw [← mul_pow, mul_comm, b_mul, one_pow]
      have hee : Real.exp (-η) * Real.exp η = 1 := by rw [← Real.exp_add]; simp
      have h3 : (b M) ^ 4 * Real.exp η * ((Real.exp (-η) * (1 - M.e)) * (1 - M.u) ^ 2) ≤ (b M) ^ 4 * Real.exp η * (κ * g) :=
        mul_le_mul_of_nonneg_left h2 (by positivity)
      have h4 : (b M) ^ 4 * Real.exp η * ((Real.exp (-η) * (1 - M.e)) * (1 - M.u) ^ 2) = (b M) ^ 2 * (1 - M.e) := by
        have : (b M) ^ 4 = (b M) ^ 2 * (b M) ^ 2 := by ring
        calc (b M) ^ 4 * Real.exp η * ((Real.exp (-η) * (1 - M.e)) * (1 - M.u) ^ 2)
            = ((1 - M.u) ^ 2 * (b M) ^ 2) * (Real.exp (-η) * Real.exp η) * ((b M) ^ 2 * (1 - M.e)) := by rw [this]; ring
          _ = (b M) ^ 2 * (1 - M.e) := by rw [hqb, hee]; ring
      have h5 : (1 + δ1) * (1 + δ2) * (1 - M.e) ≤ (b M) ^ 2 * (1 - M.e) := mul_le_mul_of_nonneg_right h1 (by linarith)
      exact le_trans h5 (by rw [← h4]; exact h3)
    have hs := Real.sqrt_le_sqrt hGhi
    have hone := one_add_le_b M
    calc Real.sqrt G * (1 + δ3) ≤ Real.sqrt ((b M) ^ 4 * Real.exp η / (1 - M.e)) * b M :=
          mul_le_mul hs (by linarith) (by linarith) (Real.sqrt_nonneg _)
      _ = b M * Real.sqrt ((b M) ^ 4 * Real.exp η / (1 - M.e)) := mul_comm _ _

end LdpcV.Round
