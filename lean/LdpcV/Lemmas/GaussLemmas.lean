/-
Helper lemmas (GaussLemmas) for the GF(2) linear-algebra properties C02 / C09.

* GaussLemmas1 — sums over GF(2) (`g_xsum`) and the bridges from `xorAll`, `dot`, `Mat.mulVec`,
  `isZero`, `parityOK`, `syndromeOK`;
* GaussLemmas2 — entry-level specifications of the partial row operations, the loop invariants of
  `gaussForward` / `gaussBackward`, kernel preservation, the kernel vector of a failed elimination;
* GaussLemmas3 — `ofSM` with the column map of `fromH`, the fold of inserts building `H0`, the
  staircase recognizer (pigeonhole), running sums;
* GaussLemmas4 — what `fromH` returns and what `encode` computes; validity, linearity, (non)singularity.
-/
import LdpcV.Lemmas.GaussLemmas4
namespace LdpcV.Lin

end LdpcV.Lin
