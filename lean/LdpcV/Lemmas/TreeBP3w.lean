/-
Helper development for C03Tree, part 3w: the brute-force mass `Ideal.mass Sc.real h lam v b` (a sum over the list
`allWords h.ncols` of all words) is the iterated sum `sumOver (List.range h.ncols) (Ftot h lam v b)`.
-/
import LdpcV.Lemmas.TreeBP0
import LdpcV.Lemmas.BoxPlusLemmas
namespace LdpcV.TreeBP
open LdpcV

/-! ### `sumOver`: congruence and index shift -/

/-- `sumOver` only depends on the values of `F` -/
theorem sumOver_congr_fun (K : List Nat) (F F' : (Nat → Bool) → ℝ) (hF : ∀ a, F a = F' a) (a : Nat → Bool) :
    sumOver K F a = sumOver K F' a := by
  have : F = F' := funext hF
  rw [this]

/-- the assignment with value `x` at `0` and `a' j` at `j + 1` -/
def consA (x : Bool) (a' : Nat → Bool) : Nat → Bool
  | 0 => x
  | j + 1 => a' j

@[simp] theorem consA_zero (x : Bool) (a' : Nat → Bool) : consA x a' 0 = x := rfl
@[simp] theorem consA_succ (x : Bool) (a' : Nat → Bool) (j : Nat) : consA x a' (j + 1) = a' j := rfl

theorem consA_eta (a : Nat → Bool) : consA (a 0) (fun j => a (j + 1)) = a := by
  funext i
  cases i <;> rfl

theorem update_succ_consA (x : Bool) (a' : Nat → Bool) (u : Nat) (b : Bool) :
    Function.update (consA x a') (u + 1) b = consA x (Function.update a' u b) := by
  funext i
  cases i with
  | zero => simp [Function.update]
  | succ j =>
    by_cases hj : j = u
    · subst hj; simp
    · have : j + 1 ≠ u + 1 := by omega
      simp [Function.update_of_ne this, Function.update_of_ne hj]

theorem update_zero_consA (x : Bool) (a' : Nat → Bool) (b : Bool) :
    Function.update (consA x a') 0 b = consA b a' := by
  funext i
  cases i with
  | zero => simp
  | succ j => simp [Function.update]

/-- index shift: summing over the coordinates `K.map Nat.succ` -/
theorem sumOver_map_succ (K : List Nat) (F : (Nat → Bool) → ℝ) (x : Bool) (a' : Nat → Bool) :
    sumOver (K.map Nat.succ) F (consA x a') = sumOver K (fun a'' => F (consA x a'')) a' := by
  induction K generalizing a' with
  | nil => rfl
  | cons u K ih =>
    simp only [List.map_cons, sumOver, Nat.succ_eq_add_one, update_succ_consA, ih]

/-- summing over the coordinates `0 … n`: first coordinate `0`, then the shifted coordinates `0 … n-1` -/
theorem sumOver_range_succ (n : Nat) (F : (Nat → Bool) → ℝ) (a : Nat → Bool) :
    sumOver (List.range (n + 1)) F a =
      sumOver (List.range n) (fun a' => F (consA false a')) (fun j => a (j + 1)) +
      sumOver (List.range n) (fun a' => F (consA true a')) (fun j => a (j + 1)) := by
  rw [List.range_succ_eq_map]
  simp only [sumOver]
  conv_lhs => rw [← consA_eta a]
  rw [update_zero_consA, update_zero_consA, sumOver_map_succ, sumOver_map_succ]

/-! ### sums over `allWords` -/

theorem sum_flatMap_pair {α : Type} (l : List α) (f g : α → List Bool) (G : List Bool → ℝ) :
    ((l.flatMap (fun w => [f w, g w])).map G).sum = (l.map (fun w => G (f w))).sum + (l.map (fun w => G (g w))).sum := by
  induction l with
  | nil => simp
  | cons x l ih =>
    simp only [List.flatMap_cons, List.map_append, List.sum_append, List.map_cons, List.sum_cons, ih, List.map_nil,
      List.sum_nil]
    ring

theorem range_succ_map_consA (n : Nat) (x : Bool) (a' : Nat → Bool) :
    (List.range (n + 1)).map (consA x a') = x :: (List.range n).map a' := by
  rw [List.range_succ_eq_map, List.map_cons, List.map_map]
  rfl

/-- KEY LEMMA: a sum over all words of length `n` is the iterated sum over the coordinates `0 … n-1` -/
theorem sum_allWords (n : Nat) (G : List Bool → ℝ) (a₀ : Nat → Bool) :
    ((Ideal.allWords n).map G).sum = sumOver (List.range n) (fun a => G ((List.range n).map a)) a₀ := by
  induction n generalizing G a₀ with
  | zero => simp [Ideal.allWords, sumOver]
  | succ n ih =>
    rw [sumOver_range_succ]
    simp only [range_succ_map_consA]
    rw [Ideal.allWords, sum_flatMap_pair, ih (fun w => G (false :: w)) (fun j => a₀ (j + 1)),
      ih (fun w => G (true :: w)) (fun j => a₀ (j + 1))]

/-! ### sum over a filtered list -/

theorem sum_filter_map {α : Type} (l : List α) (p : α → Bool) (f : α → ℝ) :
    ((l.filter p).map f).sum = (l.map (fun w => ind (p w) * f w)).sum := by
  induction l with
  | nil => simp
  | cons x l ih =>
    cases hp : p x <;> simp [hp, ih, ind]

/-! ### the word `(List.range n).map a` -/

theorem getD_range_mapW (n : Nat) (a : Nat → Bool) (c : Nat) (hc : c < n) :
    ((List.range n).map a).getD c false = a c := by
  simp [List.getD_eq_getElem?_getD, hc]

theorem lam_eq_range_map (lam : List ℝ) : lam = (List.range lam.length).map (lamAt lam) := by
  apply List.ext_getElem
  · simp
  · intro i h1 h2
    simp [lamAt, h1]

theorem weight_range_map (lam : List ℝ) (n : Nat) (hl : lam.length = n) (a : Nat → Bool) :
    Ideal.weight Sc.real lam ((List.range n).map a) = ((List.range n).map (fun u => W lam u (a u))).prod := by
  have h1 : Sc.real.rat 1 1 = 1 := by simp
  unfold Ideal.weight
  rw [h1, real_mul_fn, ← List.prod_eq_foldl]
  conv_lhs => rw [lam_eq_range_map lam, hl]
  rw [List.zip_map', List.map_map]
  rfl

theorem parityOK_range_map (n : Nat) (a : Nat → Bool) (row : List Nat) (hrow : ∀ c ∈ row, c < n) :
    parityOK ((List.range n).map a) row = !xr a row := by
  unfold parityOK xr
  have : row.filter (fun c => ((List.range n).map a).getD c false) = row.filter a := by
    apply List.filter_congr
    intro c hc
    exact getD_range_mapW n a c (hrow c hc)
  rw [this]
  rcases Nat.mod_two_eq_zero_or_one (row.filter a).length with h | h <;> simp [h]

theorem rows_eq_range_map (h : SM) : h.rows = (List.range h.nrows).map h.row := by
  apply List.ext_getElem
  · simp [SM.nrows]
  · intro i h1 h2
    simp [SM.row, h1]

theorem syndromeOK_range_map (h : SM) (hinv : h.Inv) (a : Nat → Bool) :
    syndromeOK h ((List.range h.ncols).map a) = (List.range h.nrows).all (fun c => !xr a (h.row c)) := by
  unfold syndromeOK
  conv_lhs => rw [rows_eq_range_map h]
  rw [List.all_map]
  apply List.all_congr rfl
  intro r
  exact parityOK_range_map h.ncols a (h.row r) (fun c hc => (hinv.1 r c hc).2.1)

/-! ### assembly -/

/-- the brute-force mass over all words is the iterated sum of `Ftot` over all coordinates `0 … ncols-1` -/
theorem mass_eq_sumOver (h : SM) (hinv : h.Inv) (lam : List ℝ) (hl : lam.length = h.ncols) (v : Nat)
    (hv : v < h.ncols) (b : Bool) (a₀ : Nat → Bool) :
    Ideal.mass Sc.real h lam v b = sumOver (List.range h.ncols) (Ftot h lam v b) a₀ := by
  have h0 : Sc.real.rat 0 1 = 0 := by simp
  unfold Ideal.mass
  rw [h0, real_add_fn, ← List.sum_eq_foldl, sum_filter_map, sum_allWords h.ncols _ a₀]
  apply sumOver_congr_fun
  intro a
  rw [syndromeOK_range_map h hinv, getD_range_mapW _ _ _ hv, weight_range_map lam h.ncols hl]
  unfold Ftot
  cases (a v == b) <;> cases (List.range h.nrows).all (fun c => !xr a (h.row c)) <;> simp [ind]

end LdpcV.TreeBP
