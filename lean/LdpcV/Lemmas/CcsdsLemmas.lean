/- Helper lemmas (CcsdsLemmas) for the standard-code properties C06 / C07. -/
import LdpcV.Spec.CodesSpec
import LdpcV.Props.C02
import LdpcV.Lemmas.SparseLemmas
namespace LdpcV

end LdpcV

namespace LdpcV.Ccsds

/-! ### the permutation π_k -/

theorem pow_split (mlog : Nat) (hm : 2 ≤ mlog) : 2 ^ mlog = 4 * 2 ^ (mlog - 2) := by
  have : mlog = (mlog - 2) + 2 := by omega
  conv => lhs; rw [this]
  rw [Nat.pow_add]; omega

theorem pi_eq (t : Tables) (mlog k i : Nat) (hm : 2 ≤ mlog) :
    pi t mlog k i = (t.theta.getD (k - 1) 0 + i / 2 ^ (mlog - 2)) % 4 * 2 ^ (mlog - 2) +
      ((((t.phi.getD (i / 2 ^ (mlog - 2)) []).getD (k - 1) []).getD (mlog - 7) 0) + i) % 2 ^ (mlog - 2) := by
  have h4 : 4 * i / 2 ^ mlog = i / 2 ^ (mlog - 2) := by
    rw [pow_split mlog hm]; exact Nat.mul_div_mul_left _ _ (by omega)
  simp only [pi, h4]

theorem blk_lt (a b m : Nat) (hm : 0 < m) : a % 4 * m + b % m < 4 * m := by
  have h1 : a % 4 ≤ 3 := by omega
  have h2 := Nat.mul_le_mul_right m h1
  have h3 := Nat.mod_lt b hm
  omega

theorem blk_div (a b m : Nat) (hb : b < m) : (a * m + b) / m = a := by
  have hm : 0 < m := by omega
  rw [Nat.mul_comm, Nat.mul_add_div hm, Nat.div_eq_of_lt hb]; rfl

theorem blk_mod (a b m : Nat) (hb : b < m) : (a * m + b) % m = b := by
  rw [Nat.mul_comm, Nat.mul_add_mod, Nat.mod_eq_of_lt hb]

theorem pi_range' (t : Tables) (mlog k i : Nat) (hm : 2 ≤ mlog) :
    pi t mlog k i < 2 ^ mlog := by
  rw [pi_eq t mlog k i hm, pow_split mlog hm]
  exact blk_lt _ _ _ (Nat.pow_pos (by omega))

theorem pi_blocks (t : Tables) (mlog k i : Nat) (hm : 2 ≤ mlog) :
      pi t mlog k i / 2 ^ (mlog - 2) = (t.theta.getD (k - 1) 0 + i / 2 ^ (mlog - 2)) % 4 ∧
      pi t mlog k i % 2 ^ (mlog - 2) =
        ((((t.phi.getD (i / 2 ^ (mlog - 2)) []).getD (k - 1) []).getD (mlog - 7) 0) + i) % 2 ^ (mlog - 2) := by
  have hp : 0 < 2 ^ (mlog - 2) := Nat.pow_pos (by omega)
  rw [pi_eq t mlog k i hm]
  exact ⟨blk_div _ _ _ (Nat.mod_lt _ hp), blk_mod _ _ _ (Nat.mod_lt _ hp)⟩

theorem add_mod_cancel_lt (x r r' m : Nat) (hr : r < m) (hr' : r' < m)
    (h : (x + r) % m = (x + r') % m) : r = r' := by
  have h1 := Nat.div_add_mod (x + r) m
  have h2 := Nat.div_add_mod (x + r') m
  rcases Nat.lt_trichotomy ((x + r) / m) ((x + r') / m) with hq | hq | hq
  · have := Nat.mul_le_mul_left m hq
    rw [Nat.mul_succ] at this; omega
  · rw [hq] at h1; omega
  · have := Nat.mul_le_mul_left m hq
    rw [Nat.mul_succ] at this; omega

theorem pi_inj (t : Tables) (mlog k i i' : Nat) (hm : 2 ≤ mlog) (hi : i < 2 ^ mlog) (hi' : i' < 2 ^ mlog)
    (h : pi t mlog k i = pi t mlog k i') : i = i' := by
  have hp : 0 < 2 ^ (mlog - 2) := Nat.pow_pos (by omega)
  obtain ⟨d1, m1⟩ := pi_blocks t mlog k i hm
  obtain ⟨d2, m2⟩ := pi_blocks t mlog k i' hm
  rw [h] at d1 m1
  rw [pow_split mlog hm] at hi hi'
  have hj : i / 2 ^ (mlog - 2) < 4 := (Nat.div_lt_iff_lt_mul hp).2 hi
  have hj' : i' / 2 ^ (mlog - 2) < 4 := (Nat.div_lt_iff_lt_mul hp).2 hi'
  have hjj : i / 2 ^ (mlog - 2) = i' / 2 ^ (mlog - 2) := by
    have := d1.symm.trans d2
    generalize i / 2 ^ (mlog - 2) = j at this hj
    generalize i' / 2 ^ (mlog - 2) = j' at this hj'
    omega
  have hmm := m1.symm.trans m2
  rw [hjj] at hmm
  generalize ((t.phi.getD (i' / 2 ^ (mlog - 2)) []).getD (k - 1) []).getD (mlog - 7) 0 = φ at hmm
  have e1 := Nat.div_add_mod i (2 ^ (mlog - 2))
  have e2 := Nat.div_add_mod i' (2 ^ (mlog - 2))
  rw [hjj] at e1
  generalize 2 ^ (mlog - 2) = M at *
  have r1 := Nat.mod_lt i hp
  have r2 := Nat.mod_lt i' hp
  have a1 : φ + i = (φ + M * (i' / M)) + i % M := by omega
  have a2 : φ + i' = (φ + M * (i' / M)) + i' % M := by omega
  rw [a1, a2] at hmm
  have := add_mod_cancel_lt _ _ _ _ r1 r2 hmm
  omega

/-! ### a duplicate-free list of `n` numbers below `n` is a permutation of `range n` -/

theorem nodup_lt_aux (n : Nat) : ∀ l : List Nat, l.Nodup → (∀ x ∈ l, x < n) →
    l.length ≤ n ∧ (l.length = n → l.Perm (List.range n)) := by
  induction n with
  | zero =>
    intro l _ hl
    cases l with
    | nil => simp
    | cons a l => exact absurd (hl a (by simp)) (by omega)
  | succ n ih =>
    intro l hnd hl
    have hnd' : (l.erase n).Nodup := hnd.erase n
    have hl' : ∀ x ∈ l.erase n, x < n := by
      intro x hx
      rw [hnd.mem_erase_iff] at hx
      have := hl x hx.2
      omega
    obtain ⟨hle, hperm⟩ := ih _ hnd' hl'
    by_cases hmem : n ∈ l
    · have hlen := List.length_erase_of_mem hmem
      have hpos : 0 < l.length := List.length_pos_of_mem hmem
      refine ⟨by omega, fun hfull => ?_⟩
      have h1 : l.Perm (n :: l.erase n) := List.perm_cons_erase hmem
      have h2 := hperm (by omega)
      rw [List.range_succ]
      exact h1.trans ((h2.cons n).trans (List.perm_append_singleton _ _).symm)
    · rw [List.erase_of_not_mem hmem] at hle
      exact ⟨by omega, fun hfull => by omega⟩

theorem perm_range_of_inj (n : Nat) (f : Nat → Nat) (hr : ∀ i, i < n → f i < n)
    (hinj : ∀ i j, i < n → j < n → f i = f j → i = j) :
    ((List.range n).map f).Perm (List.range n) := by
  refine (nodup_lt_aux n _ ?_ ?_).2 (by simp)
  · rw [List.nodup_iff_pairwise_ne, List.pairwise_map]
    refine List.Pairwise.imp_of_mem ?_ (List.nodup_iff_pairwise_ne.1 (List.nodup_range (n := n)))
    intro a b ha hb hab hf
    exact hab (hinj a b (List.mem_range.1 ha) (List.mem_range.1 hb) hf)
  · intro x hx
    obtain ⟨i, hi, rfl⟩ := List.mem_map.1 hx
    exact hr i (List.mem_range.1 hi)

/-! ### `applyCall` and the calls of a row -/

def Call.col : Call → Nat
  | .insert c => c
  | .toggle c => c

theorem applyCall_nodup (row : List Nat) (c : Call) (h : row.Nodup) : (applyCall row c).Nodup := by
  cases c with
  | insert c =>
    simp only [applyCall]
    split
    · exact h
    · rename_i hc
      simp only [List.contains_eq_mem, decide_eq_true_eq] at hc
      rw [List.nodup_append]
      exact ⟨h, by simp, by intro a ha b hb; simp at hb; subst hb; intro hab; exact hc (hab ▸ ha)⟩
  | toggle c =>
    simp only [applyCall]
    split
    · exact h.filter _
    · rename_i hc
      simp only [List.contains_eq_mem, decide_eq_true_eq] at hc
      rw [List.nodup_append]
      exact ⟨h, by simp, by intro a ha b hb; simp at hb; subst hb; intro hab; exact hc (hab ▸ ha)⟩

theorem applyCall_mem (row : List Nat) (c : Call) (x : Nat) (h : x ∈ applyCall row c) :
    x ∈ row ∨ x = c.col := by
  cases c with
  | insert c =>
    simp only [applyCall] at h
    split at h
    · exact Or.inl h
    · simpa [Call.col] using h
  | toggle c =>
    simp only [applyCall] at h
    split at h
    · exact Or.inl (List.mem_filter.1 h).1
    · simpa [Call.col] using h

theorem foldl_applyCall_nodup (calls : List Call) : ∀ row : List Nat, row.Nodup →
    (calls.foldl applyCall row).Nodup := by
  induction calls with
  | nil => intro row h; exact h
  | cons c cs ih => intro row h; exact ih _ (applyCall_nodup row c h)

theorem foldl_applyCall_mem (calls : List Call) : ∀ (row : List Nat) (x : Nat),
    x ∈ calls.foldl applyCall row → x ∈ row ∨ ∃ c ∈ calls, x = c.col := by
  induction calls with
  | nil => intro row x h; exact Or.inl h
  | cons c cs ih =>
    intro row x h
    rcases ih _ x h with h | ⟨c', hc', rfl⟩
    · rcases applyCall_mem row c x h with h | h
      · exact Or.inl h
      · exact Or.inr ⟨c, by simp, h⟩
    · exact Or.inr ⟨c', by simp [hc'], rfl⟩


theorem rowCalls_col_lt (t : Tables) (rate mlog r : Nat)
    (hp : ∀ k i, pi t mlog k i < 2 ^ mlog)
    (hr : rate ≤ 2) (hrow : r < 3 * 2 ^ mlog) :
    ∀ call ∈ rowCalls t rate mlog r, call.col < ar4jaNcols rate mlog := by
  have hm : 0 < 2 ^ mlog := Nat.pow_pos (by omega)
  have hi : r % 2 ^ mlog < 2 ^ mlog := Nat.mod_lt _ hm
  have hb : r / 2 ^ mlog < 3 := (Nat.div_lt_iff_lt_mul hm).2 hrow
  have hp' := fun k => hp k (r % 2 ^ mlog)
  unfold rowCalls ar4jaNcols
  simp only []
  generalize r % 2 ^ mlog = i at hi hp' ⊢
  generalize r / 2 ^ mlog = b at hb ⊢
  generalize 2 ^ mlog = m at *
  generalize pi t mlog = p at hp'
  have h1 := hp' 1; have h2 := hp' 2; have h3 := hp' 3; have h4 := hp' 4; have h5 := hp' 5
  have h6 := hp' 6; have h7 := hp' 7; have h8 := hp' 8; have h9 := hp' 9; have h10 := hp' 10
  have h11 := hp' 11; have h12 := hp' 12; have h13 := hp' 13; have h14 := hp' 14; have h15 := hp' 15
  have h16 := hp' 16; have h17 := hp' 17; have h18 := hp' 18; have h19 := hp' 19; have h20 := hp' 20
  have h21 := hp' 21; have h22 := hp' 22; have h23 := hp' 23; have h24 := hp' 24; have h25 := hp' 25
  have h26 := hp' 26
  have hrate : rate = 0 ∨ rate = 1 ∨ rate = 2 := by omega
  have hbb : b = 0 ∨ b = 1 ∨ b = 2 := by omega
  rcases hrate with rfl | rfl | rfl <;> rcases hbb with rfl | rfl | rfl <;>
    simp [extraBlocks, Call.col] <;> omega

theorem pi_perm_range (t : Tables) (mlog k : Nat) (hm : 2 ≤ mlog) :
    ((List.range (2 ^ mlog)).map (pi t mlog k)).Perm (List.range (2 ^ mlog)) :=
  perm_range_of_inj _ _ (fun i _ => pi_range' t mlog k i hm)
    (fun i j hi hj h => pi_inj t mlog k i j hm hi hj h)

theorem ar4jaRows_dims (t : Tables) (rate mlog : Nat) (hm : 2 ≤ mlog) (hr : rate ≤ 2) :
    (ar4jaRows t rate mlog).length = 3 * 2 ^ mlog ∧
    ∀ row ∈ ar4jaRows t rate mlog, row.Nodup ∧ ∀ c ∈ row, c < ar4jaNcols rate mlog := by
  refine ⟨by simp [ar4jaRows], ?_⟩
  intro row hrow
  obtain ⟨r, hr', rfl⟩ := List.mem_map.1 hrow
  have hr' := List.mem_range.1 hr'
  refine ⟨foldl_applyCall_nodup _ _ List.nodup_nil, fun c hc => ?_⟩
  rcases foldl_applyCall_mem _ _ _ hc with h | ⟨call, hcall, rfl⟩
  · simp at h
  · exact rowCalls_col_lt t rate mlog r (fun k i => pi_range' t mlog k i hm) hr hr' call hcall

/-! ## `rankBits`: full rank implies independence -/

/-! ### bit-level facts -/

theorem lt_two_pow_of_testBit_false (x k : Nat) (h : x < 2 ^ (k + 1)) (hb : x.testBit k = false) :
    x < 2 ^ k := by
  apply Decidable.by_contra
  intro hge
  have := Nat.testBit_of_two_pow_le_and_two_pow_add_one_gt (Nat.le_of_not_lt hge) h
  simp [this] at hb

/-- `b` has leading bit `k`: xoring `b` into `r` makes `r` smaller exactly when `r` has bit `k` -/
theorem xor_lt_iff (k b r : Nat) (h1 : 2 ^ k ≤ b) (h2 : b < 2 ^ (k + 1)) :
    (r ^^^ b < r ↔ r.testBit k = true) := by
  have hbk : b.testBit k = true := Nat.testBit_of_two_pow_le_and_two_pow_add_one_gt h1 h2
  have hpos : 0 < 2 ^ (k + 1) := Nat.pow_pos (by omega)
  have hl : r % 2 ^ (k + 1) < 2 ^ (k + 1) := Nat.mod_lt _ hpos
  have hd : (r ^^^ b) / 2 ^ (k + 1) = r / 2 ^ (k + 1) := by
    rw [Nat.xor_div_two_pow, Nat.div_eq_of_lt h2, Nat.xor_zero]
  have hm : (r ^^^ b) % 2 ^ (k + 1) = r % 2 ^ (k + 1) ^^^ b := by
    rw [Nat.xor_mod_two_pow, Nat.mod_eq_of_lt h2]
  have e1 := Nat.div_add_mod r (2 ^ (k + 1))
  have e2 := Nat.div_add_mod (r ^^^ b) (2 ^ (k + 1))
  rw [hd, hm] at e2
  have hk : r.testBit k = (r % 2 ^ (k + 1)).testBit k := by
    rw [Nat.testBit_mod_two_pow]; simp
  rw [hk]
  generalize r % 2 ^ (k + 1) = l at *
  have hlx : l ^^^ b < 2 ^ (k + 1) := Nat.xor_lt_two_pow hl h2
  have hxk : (l ^^^ b).testBit k = !l.testBit k := by rw [Nat.testBit_xor, hbk]; simp
  cases hlk : l.testBit k
  · rw [hlk] at hxk
    have := lt_two_pow_of_testBit_false l k hl hlk
    have := Nat.ge_two_pow_of_testBit (by simpa using hxk : (l ^^^ b).testBit k = true)
    constructor
    · intro h; omega
    · intro h; simp at h
  · rw [hlk] at hxk
    have := lt_two_pow_of_testBit_false _ k hlx (by simpa using hxk)
    have := Nat.ge_two_pow_of_testBit hlk
    constructor
    · intro _; rfl
    · intro _; omega

/-! ### GF(2) span of a list of bitsets -/

inductive Span (S : List Nat) : Nat → Prop
  | zero : Span S 0
  | add {b y : Nat} : b ∈ S → Span S y → Span S (b ^^^ y)

theorem Span.mono {S T : List Nat} (h : ∀ b ∈ S, b ∈ T) {x : Nat} (hx : Span S x) : Span T x := by
  induction hx with
  | zero => exact .zero
  | add hb _ ih => exact .add (h _ hb) ih

theorem Span.xor {S : List Nat} {x y : Nat} (hx : Span S x) (hy : Span S y) : Span S (x ^^^ y) := by
  induction hx with
  | zero => rw [Nat.zero_xor]; exact hy
  | add hb _ ih => rw [Nat.xor_assoc]; exact .add hb ih

theorem Span.mem {S : List Nat} {b : Nat} (hb : b ∈ S) : Span S b := by
  have := Span.add hb (Span.zero (S := S))
  rwa [Nat.xor_zero] at this

theorem Span.nil {x : Nat} (h : Span [] x) : x = 0 := by
  cases h with
  | zero => rfl
  | add hb _ => simp at hb

theorem xor_cancel_right (x b : Nat) : x ^^^ b ^^^ b = x := by
  rw [Nat.xor_assoc, Nat.xor_self, Nat.xor_zero]

theorem Span.cons {b : Nat} {S : List Nat} {x : Nat} (h : Span (b :: S) x) :
    Span S x ∨ Span S (x ^^^ b) := by
  induction h with
  | zero => exact Or.inl .zero
  | @add m y hm _ ih =>
    rcases List.mem_cons.1 hm with rfl | hm
    · rcases ih with ih | ih
      · right; rw [Nat.xor_comm m y, xor_cancel_right]; exact ih
      · left; rw [Nat.xor_comm]; exact ih
    · rcases ih with ih | ih
      · left; exact .add hm ih
      · right; rw [Nat.xor_assoc]; exact .add hm ih

theorem Span.lt_two_pow {S : List Nat} {k : Nat} (hS : ∀ b ∈ S, b < 2 ^ k) {x : Nat} (hx : Span S x) :
    x < 2 ^ k := by
  induction hx with
  | zero => exact Nat.pow_pos (by omega)
  | add hb _ ih => exact Nat.xor_lt_two_pow (hS _ hb) ih

/-! ### the elimination of `rankBits` -/

def reduce (B : List Nat) (r : Nat) : Nat :=
  B.foldl (fun r b => if (r ^^^ b) < r then r ^^^ b else r) r

def step (B : List Nat) (r : Nat) : List Nat :=
  let r := reduce B r
  if r = 0 then B else (B.filter (· > r)) ++ [r] ++ (B.filter (· < r))

theorem rankBits_eq (rows : List Nat) : rankBits rows = (rows.foldl step []).length := rfl

theorem reduce_cons (b : Nat) (B : List Nat) (r : Nat) :
    reduce (b :: B) r = reduce B (if (r ^^^ b) < r then r ^^^ b else r) := rfl

/-- `a` has a higher leading bit than `b` -/
def Above (a b : Nat) : Prop := ∃ k, b < 2 ^ k ∧ 2 ^ k ≤ a

/-- basis invariant: strictly decreasing leading bits, no zero -/
def Good (B : List Nat) : Prop := B.Pairwise Above ∧ ∀ b ∈ B, b ≠ 0

theorem Above.lt_top {a b k : Nat} (h : Above a b) (ha : a < 2 ^ (k + 1)) : b < 2 ^ k := by
  obtain ⟨j, hb, hj⟩ := h
  have : 2 ^ j < 2 ^ (k + 1) := Nat.lt_of_le_of_lt hj ha
  have : j < k + 1 := (Nat.pow_lt_pow_iff_right (by omega)).1 this
  exact Nat.lt_of_lt_of_le hb (Nat.pow_le_pow_right (by omega) (by omega))

theorem Good.tail {b : Nat} {B : List Nat} (h : Good (b :: B)) : Good B :=
  ⟨(List.pairwise_cons.1 h.1).2, fun x hx => h.2 x (List.mem_cons_of_mem _ hx)⟩

theorem Good.head {b : Nat} {B : List Nat} (h : Good (b :: B)) {k : Nat} (hk : b < 2 ^ (k + 1)) :
    ∀ b' ∈ B, b' < 2 ^ k :=
  fun b' hb' => ((List.pairwise_cons.1 h.1).1 b' hb').lt_top hk

theorem reduce_span (B : List Nat) : ∀ r, Span B (reduce B r ^^^ r) := by
  induction B with
  | nil => intro r; simp only [reduce, List.foldl_nil, Nat.xor_self]; exact .zero
  | cons b B ih =>
    intro r
    rw [reduce_cons]
    split
    · have h1 : Span (b :: B) (reduce B (r ^^^ b) ^^^ (r ^^^ b)) := (ih _).mono (by simp +contextual)
      have h2 := h1.xor (Span.mem (S := b :: B) (b := b) (by simp))
      rwa [← Nat.xor_assoc, xor_cancel_right] at h2
    · exact (ih _).mono (by simp +contextual)

/-- normal form: everything in the span of a good basis reduces to 0 -/
theorem reduce_eq_zero (B : List Nat) : Good B → ∀ x, Span B x → reduce B x = 0 := by
  induction B with
  | nil => intro _ x hx; rw [hx.nil]; rfl
  | cons b B ih =>
    intro hg x hx
    have hb0 : b ≠ 0 := hg.2 b (by simp)
    have h1 : 2 ^ b.log2 ≤ b := Nat.log2_self_le hb0
    have h2 : b < 2 ^ (b.log2 + 1) := Nat.lt_log2_self
    have hlow := hg.head h2
    have hbk : b.testBit b.log2 = true := Nat.testBit_of_two_pow_le_and_two_pow_add_one_gt h1 h2
    rw [reduce_cons]
    rcases hx.cons with hx | hx
    · have : x.testBit b.log2 = false := Nat.testBit_lt_two_pow (hx.lt_two_pow hlow)
      have hn : ¬ (x ^^^ b < x) := by rw [xor_lt_iff _ _ _ h1 h2, this]; simp
      rw [if_neg hn]
      exact ih hg.tail x hx
    · have : (x ^^^ b).testBit b.log2 = false := Nat.testBit_lt_two_pow (hx.lt_two_pow hlow)
      rw [Nat.testBit_xor, hbk] at this
      have hp : x ^^^ b < x := by rw [xor_lt_iff _ _ _ h1 h2]; simpa using this
      rw [if_pos hp]
      exact ih hg.tail _ hx

/-- basis elements below `2^k` do not touch bit `k` -/
theorem reduce_testBit_high (B : List Nat) (k : Nat) : (∀ b ∈ B, b < 2 ^ k) → ∀ r,
    (reduce B r).testBit k = r.testBit k := by
  induction B with
  | nil => intro _ r; rfl
  | cons b B ih =>
    intro hB r
    rw [reduce_cons, ih (fun x hx => hB x (List.mem_cons_of_mem _ hx))]
    split
    · rw [Nat.testBit_xor, Nat.testBit_lt_two_pow (hB b (by simp))]; simp
    · rfl

/-- the reduced row has the leading bit of every basis element cleared -/
theorem reduce_reduced (B : List Nat) : Good B → ∀ r, ∀ b ∈ B, ∀ k, 2 ^ k ≤ b → b < 2 ^ (k + 1) →
    (reduce B r).testBit k = false := by
  induction B with
  | nil => intro _ r b hb; simp at hb
  | cons b0 B ih =>
    intro hg r b hb k h1 h2
    rw [reduce_cons]
    rcases List.mem_cons.1 hb with rfl | hb
    · rw [reduce_testBit_high B k (hg.head h2)]
      have hbk : b.testBit k = true := Nat.testBit_of_two_pow_le_and_two_pow_add_one_gt h1 h2
      split
      · rename_i hlt
        rw [xor_lt_iff k b r h1 h2] at hlt
        rw [Nat.testBit_xor, hlt, hbk]; rfl
      · rename_i hlt
        rw [xor_lt_iff k b r h1 h2] at hlt
        simpa using hlt
    · exact ih hg.tail _ b hb k h1 h2

theorem Above.trans {a b c : Nat} (h1 : Above a b) (h2 : Above b c) : Above a c := by
  obtain ⟨k, hb, ha⟩ := h1
  obtain ⟨j, hc, hb'⟩ := h2
  exact ⟨k, by omega, ha⟩

theorem good_step (B : List Nat) (r : Nat) (hg : Good B) : Good (step B r) := by
  unfold step
  simp only []
  split
  · exact hg
  · rename_i hr0
    generalize hr' : reduce B r = r' at hr0
    have hred : ∀ b ∈ B, ∀ k, 2 ^ k ≤ b → b < 2 ^ (k + 1) → r'.testBit k = false := by
      intro b hb k h1 h2; rw [← hr']; exact reduce_reduced B hg r b hb k h1 h2
    have t1 : 2 ^ r'.log2 ≤ r' := Nat.log2_self_le hr0
    have t2 : r' < 2 ^ (r'.log2 + 1) := Nat.lt_log2_self
    have ttb : r'.testBit r'.log2 = true := Nat.testBit_of_two_pow_le_and_two_pow_add_one_gt t1 t2
    have hab1 : ∀ b ∈ B, b > r' → Above b r' := by
      intro b hb hgt
      have hb0 := hg.2 b hb
      have h1 : 2 ^ b.log2 ≤ b := Nat.log2_self_le hb0
      have h2 : b < 2 ^ (b.log2 + 1) := Nat.lt_log2_self
      have hbit := hred b hb _ h1 h2
      refine ⟨b.log2, ?_, h1⟩
      apply lt_two_pow_of_testBit_false _ _ _ hbit
      have : r'.log2 < b.log2 + 1 := by
        apply (Nat.pow_lt_pow_iff_right (a := 2) (by omega)).1
        omega
      have := Nat.pow_le_pow_right (n := 2) (by omega) (show r'.log2 + 1 ≤ b.log2 + 1 by omega)
      omega
    have hab2 : ∀ b ∈ B, b < r' → Above r' b := by
      intro b hb hlt
      have hb0 := hg.2 b hb
      have h1 : 2 ^ b.log2 ≤ b := Nat.log2_self_le hb0
      have h2 : b < 2 ^ (b.log2 + 1) := Nat.lt_log2_self
      have hbit := hred b hb _ h1 h2
      refine ⟨r'.log2, ?_, t1⟩
      have hle : b.log2 < r'.log2 + 1 := by
        apply (Nat.pow_lt_pow_iff_right (a := 2) (by omega)).1
        omega
      have hne : b.log2 ≠ r'.log2 := by
        intro he; rw [he, ttb] at hbit; cases hbit
      have := Nat.pow_le_pow_right (n := 2) (by omega) (show b.log2 + 1 ≤ r'.log2 by omega)
      omega
    constructor
    · rw [List.pairwise_append, List.pairwise_append]
      refine ⟨⟨hg.1.filter _, by simp, ?_⟩, hg.1.filter _, ?_⟩
      · intro a ha c hc
        simp only [List.mem_singleton] at hc
        subst hc
        simp only [List.mem_filter, decide_eq_true_eq] at ha
        exact hab1 a ha.1 ha.2
      · intro a ha c hc
        simp only [List.mem_filter, decide_eq_true_eq] at hc
        have hrc := hab2 c hc.1 hc.2
        rcases List.mem_append.1 ha with ha | ha
        · simp only [List.mem_filter, decide_eq_true_eq] at ha
          exact (hab1 a ha.1 ha.2).trans hrc
        · simp only [List.mem_singleton] at ha
          subst ha; exact hrc
    · intro b hb
      simp only [List.mem_append, List.mem_filter, List.mem_singleton] at hb
      rcases hb with (hb | hb) | hb
      · exact hg.2 b hb.1
      · subst hb; exact hr0
      · exact hg.2 b hb.1

theorem filter_gt_lt_length (B : List Nat) (x : Nat) :
    (B.filter (· > x)).length + (B.filter (· < x)).length ≤ B.length := by
  induction B with
  | nil => simp
  | cons b B ih =>
    simp only [List.filter_cons, List.length_cons]
    by_cases h1 : b > x
    · have h2 : ¬ b < x := by omega
      simp only [h1, h2, decide_true, decide_false, if_true, List.length_cons]
      simp only [Bool.false_eq_true, if_false]
      omega
    · by_cases h2 : b < x
      · simp only [h1, h2, decide_true, decide_false, if_true, List.length_cons]
        simp only [Bool.false_eq_true, if_false]
        omega
      · simp only [h1, h2, decide_false, Bool.false_eq_true, if_false]
        omega

theorem step_length_le (B : List Nat) (r : Nat) : (step B r).length ≤ B.length + 1 := by
  unfold step
  simp only []
  split
  · omega
  · have := filter_gt_lt_length B (reduce B r)
    simp only [List.length_append, List.length_cons, List.length_nil]
    omega

theorem step_of_reduce_zero (B : List Nat) (r : Nat) (h : reduce B r = 0) : step B r = B := by
  unfold step; simp only [h, if_true]

theorem foldl_step_length_le (rows : List Nat) : ∀ B, (rows.foldl step B).length ≤ B.length + rows.length := by
  induction rows with
  | nil => intro B; simp
  | cons r rows ih =>
    intro B
    have := ih (step B r)
    have := step_length_le B r
    simp only [List.foldl_cons, List.length_cons]
    omega

/-- the new basis spans the old one and the new row -/
theorem step_span (B : List Nat) (r : Nat) (hlen : (step B r).length = B.length + 1) :
    (∀ x, Span B x → Span (step B r) x) ∧ Span (step B r) r := by
  have hr0 : reduce B r ≠ 0 := by
    intro h; rw [step_of_reduce_zero B r h] at hlen; omega
  have hsub : ∀ b ∈ B, b ∈ step B r := by
    intro b hb
    unfold step
    simp only [hr0, if_false, List.mem_append, List.mem_filter, List.mem_singleton, decide_eq_true_eq]
    rcases Nat.lt_trichotomy b (reduce B r) with h | h | h
    · exact Or.inr ⟨hb, h⟩
    · exact Or.inl (Or.inr h)
    · exact Or.inl (Or.inl ⟨hb, h⟩)
  have hmem : reduce B r ∈ step B r := by
    unfold step
    simp only [hr0, if_false, List.mem_append, List.mem_singleton]
    exact Or.inl (Or.inr trivial)
  refine ⟨fun x hx => hx.mono hsub, ?_⟩
  have h1 : Span (step B r) (reduce B r ^^^ r) := (reduce_span B r).mono hsub
  have h2 := (Span.mem hmem).xor h1
  rwa [← Nat.xor_assoc, Nat.xor_self, Nat.zero_xor] at h2

/-- the selection fold of `IndepBits`, from an arbitrary accumulator -/
def selFold (acc : Nat) (l : List (Nat × Bool)) : Nat :=
  l.foldl (fun acc p => if p.2 then acc ^^^ p.1 else acc) acc

theorem selFold_no_true (rows : List Nat) : ∀ (sel : List Bool) (acc : Nat),
    sel.contains true = false → selFold acc (rows.zip sel) = acc := by
  induction rows with
  | nil => intro sel acc _; simp [selFold]
  | cons r rows ih =>
    intro sel acc h
    cases sel with
    | nil => simp [selFold]
    | cons s sel =>
      simp only [List.contains_cons, Bool.or_eq_false_iff, beq_eq_false_iff_ne] at h
      have hs : s = false := by cases s <;> simp_all
      subst hs
      have := ih sel acc h.2
      simpa [selFold] using this

/-- rows that all enlarge a good basis are independent modulo its span -/
theorem indep_mod_span (rows : List Nat) : ∀ B, Good B →
    (rows.foldl step B).length = B.length + rows.length →
    ∀ (sel : List Bool), sel.length = rows.length → ∀ acc, Span B acc →
      Span B (selFold acc (rows.zip sel)) → sel.contains true = false := by
  induction rows with
  | nil =>
    intro B _ _ sel hsel _ _ _
    cases sel with
    | nil => rfl
    | cons s sel => simp at hsel
  | cons r rows ih =>
    intro B hg hlen sel hsel acc hacc hres
    cases sel with
    | nil => simp at hsel
    | cons s sel =>
      simp only [List.length_cons, Nat.add_right_cancel_iff] at hsel
      simp only [List.foldl_cons, List.length_cons] at hlen
      have hle1 := foldl_step_length_le rows (step B r)
      have hle2 := step_length_le B r
      have hstep : (step B r).length = B.length + 1 := by omega
      obtain ⟨hsp, hr⟩ := step_span B r hstep
      have hlen' : (rows.foldl step (step B r)).length = (step B r).length + rows.length := by omega
      have hg' := good_step B r hg
      cases s with
      | false =>
        have hres' : Span (step B r) (selFold acc (rows.zip sel)) := hsp _ (by simpa [selFold] using hres)
        have := ih _ hg' hlen' sel hsel acc (hsp _ hacc) hres'
        simpa using this
      | true =>
        have hres1 : Span B (selFold (acc ^^^ r) (rows.zip sel)) := by simpa [selFold] using hres
        have hnt := ih _ hg' hlen' sel hsel (acc ^^^ r) ((hsp _ hacc).xor hr) (hsp _ hres1)
        rw [selFold_no_true rows sel _ hnt] at hres1
        have hrB : Span B r := by
          have := hacc.xor hres1
          rwa [← Nat.xor_assoc, Nat.xor_self, Nat.zero_xor] at this
        have := reduce_eq_zero B hg r hrB
        rw [step_of_reduce_zero B r this] at hstep
        omega

theorem indepBits_of_rankBits_full (rows : List Nat) (hfull : rankBits rows = rows.length) :
    IndepBits rows := by
  intro sel hsel htrue hzero
  rw [rankBits_eq] at hfull
  have hgood : Good [] := ⟨List.Pairwise.nil, by simp⟩
  have := indep_mod_span rows [] hgood (by simpa using hfull) sel hsel 0 .zero
    (by show Span [] (selFold 0 (rows.zip sel)); unfold selFold; rw [hzero]; exact .zero)
  rw [this] at htrue
  cases htrue

end LdpcV.Ccsds
