/- Helper lemmas for C16V (the validators `pegAccepts` / `mnAccepts` against the models `peg` / `mnRun`):
  1 extensionality of `SM`; PEG: completeness (`peg_complete`), soundness (`peg_sound`), the corner without runs (`peg_no_run`)
  2 MacKay–Neal: prefix matrices, completeness (`mn_complete`), run results have increasing row lists (`mn_run_sorted`),
    soundness for such matrices (`mn_sound`), the promised weights (`mn_accepted_props`)
This file: the two counterexamples to unrestricted soundness, and the exact characterisations. -/
import LdpcV.Lemmas.ValidatorLemmas1
import LdpcV.Lemmas.ValidatorLemmas2
namespace LdpcV.Constr
open LdpcV LdpcV.SM LdpcV.Graph

/-! ### PEG: no rows -/

/-- the validator accepts the `0 × 1` matrix for `wc = 1`, but PEG has no run with these parameters -/
theorem peg_sound_counterexample :
    pegAccepts 0 1 1 ⟨[], [[]]⟩ = true ∧ ∀ picks, peg 0 1 1 picks ≠ some ⟨[], [[]]⟩ := by
  refine ⟨by decide, fun picks => ?_⟩
  rw [peg_no_run 1 1 (by omega) (by omega)]
  exact fun h => by cases h

/-- the validator accepts exactly the run results, except in the corner `nrows = 0 < wc`, `0 < ncols` -/
theorem peg_exact (nrows ncols wc : Nat) (h0 : 0 < nrows ∨ wc = 0 ∨ ncols = 0) (H : SM) :
    (∃ picks, peg nrows ncols wc picks = some H) ↔ pegAccepts nrows ncols wc H = true :=
  ⟨fun ⟨picks, hp⟩ => peg_complete nrows ncols wc picks H hp, peg_sound nrows ncols wc h0 H⟩

/-! ### MacKay–Neal: a row list that is not increasing -/

def mnBadCfg : MnCfg := ⟨1, 2, 2, 1, 0, 0, none, 0, .random⟩
def mnBadH : SM := ⟨[[1, 0]], [[0], [0]]⟩

theorem mnBadH_inv : mnBadH.Inv := by
  have hrow : ∀ r, mnBadH.row r = if r = 0 then [1, 0] else [] := by
    intro r
    match r with
    | 0 => rfl
    | r + 1 => rfl
  have hcol : ∀ c, mnBadH.col c = if c = 0 ∨ c = 1 then [0] else [] := by
    intro c
    match c with
    | 0 => rfl
    | 1 => rfl
    | c + 2 => simp [mnBadH, col]
  have hnr : mnBadH.nrows = 1 := rfl
  have hnc : mnBadH.ncols = 2 := rfl
  refine ⟨?_, ?_, ?_, ?_⟩
  · intro r c
    rw [hrow, hcol, hnr, hnc]
    split
    · next hr => subst hr; intro hm; simp at hm; rcases hm with rfl | rfl <;> simp
    · intro hm; cases hm
  · intro r c
    rw [hrow, hcol, hnr, hnc]
    split
    · next hc => intro hm; simp at hm; subst hm; rcases hc with rfl | rfl <;> simp
    · intro hm; cases hm
  · intro r; rw [hrow]; split <;> simp
  · intro c; rw [hcol]; split <;> simp

/-- a well-formed matrix the validator accepts that no run produces: its only row lists its columns as `[1, 0]`,
whereas a run inserts the columns from left to right (`[0, 1]`) -/
theorem mn_sound_counterexample :
    mnBadH.Inv ∧ mnAccepts mnBadCfg mnBadH = true ∧
      ∀ sels, mnRun mnBadCfg (mnInit mnBadCfg) sels ≠ some (.ok mnBadH) := by
  refine ⟨mnBadH_inv, by decide, fun sels hr => ?_⟩
  have := mn_run_sorted mnBadCfg sels mnBadH hr 0
  have e : mnBadH.row 0 = [1, 0] := rfl
  rw [e] at this
  simp at this

/-- the validator, together with well-formedness and increasing row lists, accepts exactly the run results -/
theorem mn_exact (cfg : MnCfg) (H : SM) :
    (∃ sels, mnRun cfg (mnInit cfg) sels = some (.ok H)) ↔
      H.Inv ∧ (∀ r, (H.row r).Pairwise (· < ·)) ∧ mnAccepts cfg H = true := by
  constructor
  · rintro ⟨sels, hr⟩
    obtain ⟨st, hI, -, -, rfl⟩ := mnRun_ok_induct cfg (fun _ => True) (fun _ _ _ _ _ _ _ => trivial) sels _ H
      (mnInit_inv cfg) trivial hr
    exact ⟨hI.inv, mn_run_sorted cfg sels _ hr, mn_complete cfg sels _ hr⟩
  · rintro ⟨hinv, hsort, ha⟩
    exact mn_sound cfg H hinv hsort ha

end LdpcV.Constr
