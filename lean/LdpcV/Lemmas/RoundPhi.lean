/- Helper lemmas (RoundPhi): the phi function and the phi check rule of Model/ArithF.lean (`impl_phif!`) under the standard
model of floating-point arithmetic, compared with the exact box-plus in the tanh domain. -/
import LdpcV.Lemmas.RoundSigma
namespace LdpcV.Round
open LdpcV LdpcV.ArithF

theorem hasDerivAt_tanh (x : ℝ) : HasDerivAt Real.tanh (1 / (Real.cosh x) ^ 2) x := by
  have h := (Real.hasDerivAt_sinh x).div (Real.hasDerivAt_cosh x) (Real.cosh_pos x).ne'
  have hf : Real.tanh = fun y => Real.sinh y / Real.cosh y := by funext y; exact Real.tanh_eq_sinh_div_cosh y
  rw [hf]
  refine h.congr_deriv ?_
  have := Real.cosh_sq x
  have hc := (Real.cosh_pos x).ne'
  field_simp
  nlinarith

/-- for 0 ≤ c ≤ 1 and z ≥ 0: c·tanh z ≤ tanh(c·z)  (tanh is concave on [0, ∞) and vanishes at 0) -/
theorem tanh_mul_ge {c z : ℝ} (hc0 : 0 ≤ c) (hc1 : c ≤ 1) (hz : 0 ≤ z) : c * Real.tanh z ≤ Real.tanh (c * z) := by
  have hd : ∀ x : ℝ, HasDerivAt (fun x => Real.tanh (c * x) - c * Real.tanh x)
      (1 / (Real.cosh (c * x)) ^ 2 * c - c * (1 / (Real.cosh x) ^ 2)) x := by
    intro x
    have h1 : HasDerivAt (fun x => Real.tanh (c * x)) (1 / (Real.cosh (c * x)) ^ 2 * (c * 1)) x :=
      (hasDerivAt_tanh (c * x)).comp x ((hasDerivAt_id' x).const_mul c)
    have h2 : HasDerivAt (fun x => c * Real.tanh x) (c * (1 / (Real.cosh x) ^ 2)) x := (hasDerivAt_tanh x).const_mul c
    exact (h1.sub h2).congr_deriv (by ring)
  have hmono : MonotoneOn (fun x => Real.tanh (c * x) - c * Real.tanh x) (Set.Ici 0) := by
    apply monotoneOn_of_deriv_nonneg (convex_Ici 0)
    · exact fun x _ => (hd x).continuousAt.continuousWithinAt
    · exact fun x _ => (hd x).differentiableAt.differentiableWithinAt
    · intro x hx
      rw [interior_Ici] at hx
      rw [(hd x).deriv]
      have hx0 : 0 < x := hx
      have hle : Real.cosh (c * x) ≤ Real.cosh x := by
        rw [Real.cosh_le_cosh, abs_of_nonneg (mul_nonneg hc0 hx0.le), abs_of_nonneg hx0.le]
        nlinarith
      have hp1 := Real.cosh_pos (c * x)
      have hp2 := Real.cosh_pos x
      have hsq : (Real.cosh (c * x)) ^ 2 ≤ (Real.cosh x) ^ 2 := pow_le_pow_left₀ hp1.le hle 2
      have hinv : 1 / (Real.cosh x) ^ 2 ≤ 1 / (Real.cosh (c * x)) ^ 2 :=
        one_div_le_one_div_of_le (pow_pos hp1 2) hsq
      nlinarith
  have := hmono (Set.mem_Ici.mpr (le_refl 0)) (Set.mem_Ici.mpr hz) hz
  simp at this
  linarith


theorem tanh_pos_of_pos {z : ℝ} (hz : 0 < z) : 0 < Real.tanh z := by
  rw [Real.tanh_eq_sinh_div_cosh]; exact div_pos (Real.sinh_pos_iff.mpr hz) (Real.cosh_pos z)

theorem tanh_mono {y x : ℝ} (h : y ≤ x) : Real.tanh y ≤ Real.tanh x := by
  have := (tanh_lip_aux h).2; linarith

/-- scaling the argument of log∘tanh by f ∈ [q, 1/q] (0 < q ≤ 1) moves it by at most −log q -/
theorem log_tanh_scale {z f q : ℝ} (hz : 0 < z) (hq : 0 < q) (hq1 : q ≤ 1) (hlo : q ≤ f) (hhi : f ≤ 1 / q) :
    |Real.log (Real.tanh (z * f)) - Real.log (Real.tanh z)| ≤ -Real.log q := by
  have hfpos : 0 < f := lt_of_lt_of_le hq hlo
  have htz := tanh_pos_of_pos hz
  have htzf := tanh_pos_of_pos (mul_pos hz hfpos)
  have hlq : Real.log q ≤ 0 := Real.log_nonpos hq.le hq1
  rw [← Real.log_div htzf.ne' htz.ne']
  rcases le_total f 1 with h1 | h1
  · -- f·tanh z ≤ tanh(zf) ≤ tanh z
    have hge := tanh_mul_ge hfpos.le h1 hz.le
    rw [mul_comm f z] at hge
    have hle := tanh_mono (show z * f ≤ z by nlinarith)
    have hr1 : f ≤ Real.tanh (z * f) / Real.tanh z := by rw [le_div_iff₀ htz]; exact hge
    have hr2 : Real.tanh (z * f) / Real.tanh z ≤ 1 := by rw [div_le_one htz]; exact hle
    have hrpos : 0 < Real.tanh (z * f) / Real.tanh z := div_pos htzf htz
    have h3 : Real.log (Real.tanh (z * f) / Real.tanh z) ≤ 0 := Real.log_nonpos hrpos.le hr2
    have h4 : Real.log q ≤ Real.log (Real.tanh (z * f) / Real.tanh z) :=
      Real.log_le_log hq (le_trans hlo hr1)
    rw [abs_of_nonpos h3]; linarith
  · -- tanh z ≤ tanh(zf) ≤ f·tanh z   (apply the concavity inequality at c = 1/f, z' = z f)
    have hc1 : 1 / f ≤ 1 := by rw [div_le_one hfpos]; exact h1
    have hge := tanh_mul_ge (c := 1 / f) (z := z * f) (by positivity) hc1 (mul_pos hz hfpos).le
    have e : 1 / f * (z * f) = z := by field_simp
    rw [e] at hge
    have hle := tanh_mono (show z ≤ z * f by nlinarith)
    have hr1 : 1 ≤ Real.tanh (z * f) / Real.tanh z := by rw [le_div_iff₀ htz]; linarith
    have hr2 : Real.tanh (z * f) / Real.tanh z ≤ f := by
      rw [div_le_iff₀ htz]
      have : Real.tanh (z * f) ≤ f * Real.tanh z := by
        have h5 : 1 / f * Real.tanh (z * f) ≤ Real.tanh z := hge
        rw [div_mul_eq_mul_div, one_mul, div_le_iff₀ hfpos] at h5
        linarith
      exact this
    have h3 : 0 ≤ Real.log (Real.tanh (z * f) / Real.tanh z) := Real.log_nonneg hr1
    have h4 : Real.log (Real.tanh (z * f) / Real.tanh z) ≤ Real.log (1 / q) :=
      Real.log_le_log (by linarith) (le_trans hr2 hhi)
    rw [abs_of_nonneg h3, Real.log_div one_ne_zero hq.ne', Real.log_one] at *
    linarith

/-- |log(1+δ)| ≤ c/(1−c) for |δ| ≤ c < 1 -/
theorem abs_log_one_add' {δ c : ℝ} (hδ : |δ| ≤ c) (hc : c < 1) : |Real.log (1 + δ)| ≤ c / (1 - c) := by
  have hδ' := abs_le.mp hδ
  have hc0 : 0 ≤ c := le_trans (abs_nonneg _) hδ
  have hpos : 0 < 1 + δ := by linarith
  have h1c : 0 < 1 - c := by linarith
  rw [abs_le]; constructor
  · have h1 : 1 - 1 / (1 + δ) ≤ Real.log (1 + δ) := by
      have := Real.one_sub_inv_le_log_of_pos hpos
      rwa [one_div]
    have h2 : -(c / (1 - c)) ≤ 1 - 1 / (1 + δ) := by
      have e : 1 - 1 / (1 + δ) = δ / (1 + δ) := by field_simp; ring
      rw [e, neg_le, ← neg_div, div_le_div_iff₀ hpos h1c]
      nlinarith
    linarith
  · have h3 := Real.log_le_sub_one_of_pos hpos
    have h4 : c ≤ c / (1 - c) := by rw [le_div_iff₀ h1c]; nlinarith
    linarith

variable (M : FpModel)

/-! ### the phi function -/

/-- the guard of `phi`: 1e-30 -/
noncomputable def gPhi : ℝ := ((1 : ℤ) : ℝ) / (((10 ^ 30 : ℕ)) : ℝ)

theorem gPhi_eq : gPhi = 1 / 10 ^ 30 := by unfold gPhi; norm_num
theorem gPhi_pos : 0 < gPhi := by rw [gPhi_eq]; positivity

/-- κ: perturbation of log∘tanh by the two roundings of the half-argument and the relative error of `tanh` -/
noncomputable def kappaPhi : ℝ := 2 * (M.u * b M) + 2 * M.e
/-- absolute error of the rounded phi at a point where the exact phi is at most P -/
noncomputable def alphaPhi (P : ℝ) : ℝ := (1 + M.e) * kappaPhi M + M.e * P

theorem kappaPhi_nonneg : 0 ≤ kappaPhi M := by
  unfold kappaPhi; have := M.u_nonneg; have := M.e_nonneg; have := b_pos M; positivity

theorem phi_r (x : ℝ) : phi (Sc.rounded M) x =
    -(M.flog (M.ftanh (M.fl (M.fl (((1 : ℤ) : ℝ) / ((2 : ℕ) : ℝ)) * max x (M.fl gPhi))))) := rfl

theorem neg_log_one_sub_le : -Real.log (1 - M.u) ≤ M.u * b M := by
  have h := abs_log_one_add M (-M.u) (by rw [abs_neg, abs_of_nonneg M.u_nonneg])
  have e : (1 : ℝ) + -M.u = 1 - M.u := by ring
  rw [e] at h
  have := neg_abs_le (Real.log (1 - M.u))
  linarith [abs_le.mp h]

/-- the rounded phi against the exact phi, for arguments at least twice the guard -/
theorem phiF_err (he : M.e ≤ 1 / 2) (x : ℝ) (hx : 2 * gPhi ≤ x) :
    |phi (Sc.rounded M) x - phi Sc.real x| ≤ alphaPhi M (phi Sc.real x) ∧ 0 ≤ phi Sc.real x := by
  have hg := gPhi_pos
  have hxg : (1 : ℝ) / 10 ^ 30 ≤ x := by rw [← gPhi_eq]; linarith
  have hnn := BoxL.phi_nonneg_of_ge x hxg
  refine ⟨?_, hnn⟩
  have hu := M.u_nonneg
  have hu1 := M.u_lt
  have he0 := M.e_nonneg
  -- the guard is inactive on both sides
  obtain ⟨δg, hδg, hflg⟩ := fl_eq M gPhi
  have hmax : max x (M.fl gPhi) = x := by
    apply max_eq_left
    rw [hflg]
    have := abs_le.mp hδg
    nlinarith
  rw [phi_r, hmax, BoxL.phi_of_ge x hxg]
  set z := x / 2 with hz
  have hzpos : 0 < z := by rw [hz]; linarith
  have hn : Near M 2 ((((1 : ℤ) : ℝ) / ((2 : ℕ) : ℝ)) * x) (M.fl (M.fl (((1 : ℤ) : ℝ) / ((2 : ℕ) : ℝ)) * x)) :=
    near_fl M (near_mul M (near_fl M (near_refl M _)) (near_refl M x))
  obtain ⟨f, hf, flo, fhi⟩ := hn
  have hhalf : (((1 : ℤ) : ℝ) / ((2 : ℕ) : ℝ)) * x = z := by rw [hz]; norm_num; ring
  rw [hhalf] at hf
  rw [hf]
  have hq : 0 < (1 - M.u) ^ 2 := pow_pos (one_sub_pos M) 2
  have hq1 : (1 - M.u) ^ 2 ≤ 1 := pow_le_one₀ (one_sub_pos M).le (one_sub_le_one M)
  have hb2 : (b M) ^ 2 = 1 / (1 - M.u) ^ 2 := by unfold b; rw [div_pow, one_pow]
  have hscale := log_tanh_scale hzpos hq hq1 flo (by rw [← hb2]; exact fhi)
  have hlogq : -Real.log ((1 - M.u) ^ 2) ≤ 2 * (M.u * b M) := by
    rw [Real.log_pow]; have := neg_log_one_sub_le M; push_cast; linarith
  have hfpos : 0 < f := lt_of_lt_of_le hq flo
  have htzf := tanh_pos_of_pos (mul_pos hzpos hfpos)
  have htz := tanh_pos_of_pos hzpos
  -- the rounded tanh
  have hte := M.tanh_err (z * f)
  rw [abs_of_pos htzf] at hte
  set tt := M.ftanh (z * f) with htt
  set ε1 := tt / Real.tanh (z * f) - 1 with hε1
  have htt' : tt = Real.tanh (z * f) * (1 + ε1) := by rw [hε1]; field_simp; ring
  have hε1b : |ε1| ≤ M.e := by
    rw [hε1, show tt / Real.tanh (z * f) - 1 = (tt - Real.tanh (z * f)) / Real.tanh (z * f) by field_simp,
      abs_div, abs_of_pos htzf, div_le_iff₀ htzf]
    exact hte
  have hε1' := abs_le.mp hε1b
  have h1pos : 0 < 1 + ε1 := by linarith
  have httpos : 0 < tt := by rw [htt']; exact mul_pos htzf h1pos
  have hlogtt : Real.log tt = Real.log (Real.tanh (z * f)) + Real.log (1 + ε1) := by
    rw [htt', Real.log_mul htzf.ne' h1pos.ne']
  have hl1 := abs_log_one_add' hε1b (by linarith : M.e < 1)
  have hl1' : |Real.log (1 + ε1)| ≤ 2 * M.e := by
    refine le_trans hl1 ?_
    rw [div_le_iff₀ (by linarith)]; nlinarith
  -- D = log tt − log tanh z
  have hD : |Real.log tt - Real.log (Real.tanh z)| ≤ kappaPhi M := by
    rw [hlogtt]
    have e : Real.log (Real.tanh (z * f)) + Real.log (1 + ε1) - Real.log (Real.tanh z) =
        (Real.log (Real.tanh (z * f)) - Real.log (Real.tanh z)) + Real.log (1 + ε1) := by ring
    rw [e]
    refine le_trans (abs_add_le _ _) ?_
    unfold kappaPhi; linarith
  -- the rounded log
  have hle := M.log_err tt httpos
  set P := -Real.log (Real.tanh z) with hP
  have hPnn : 0 ≤ P := by
    rw [hP]; have := Real.log_nonpos htz.le (Real.tanh_lt_one z).le; linarith
  have hlogabs : |Real.log tt| ≤ P + kappaPhi M := by
    have e : Real.log tt = (Real.log tt - Real.log (Real.tanh z)) + Real.log (Real.tanh z) := by ring
    rw [e]
    refine le_trans (abs_add_le _ _) ?_
    have : |Real.log (Real.tanh z)| = P := by
      rw [hP, abs_of_nonpos (Real.log_nonpos htz.le (Real.tanh_lt_one z).le)]
    linarith
  have e2 : -M.flog tt - P = -(M.flog tt - Real.log tt) - (Real.log tt - Real.log (Real.tanh z)) := by rw [hP]; ring
  rw [e2]
  have h3 : |-(M.flog tt - Real.log tt) - (Real.log tt - Real.log (Real.tanh z))| ≤
      |M.flog tt - Real.log tt| + |Real.log tt - Real.log (Real.tanh z)| := by
    have := abs_sub (-(M.flog tt - Real.log tt)) (Real.log tt - Real.log (Real.tanh z))
    rwa [abs_neg] at this
  refine le_trans h3 ?_
  have h4 : M.e * |Real.log tt| ≤ M.e * (P + kappaPhi M) := mul_le_mul_of_nonneg_left hlogabs he0
  unfold alphaPhi
  nlinarith [kappaPhi_nonneg M]

/-! ### the phi rule -/

theorem phi_anti {x y : ℝ} (hx : (1 : ℝ) / 10 ^ 30 ≤ x) (hxy : x ≤ y) : phi Sc.real y ≤ phi Sc.real x := by
  have hy : (1 : ℝ) / 10 ^ 30 ≤ y := le_trans hx hxy
  rw [BoxL.phi_of_ge x hx, BoxL.phi_of_ge y hy]
  have hxp : 0 < x / 2 := by have := BoxL.eps_pos; linarith
  have h1 := tanh_mono (show x / 2 ≤ y / 2 by linarith)
  have h2 := Real.log_le_log (tanh_pos_of_pos hxp) h1
  linarith

/-- the largest value of the exact phi on arguments ≥ 2·guard -/
noncomputable def phiMax : ℝ := phi Sc.real (2 * gPhi)

theorem phi_le_max {x : ℝ} (hx : 2 * gPhi ≤ x) : phi Sc.real x ≤ phiMax := by
  unfold phiMax
  exact phi_anti (by rw [← gPhi_eq]; have := gPhi_pos; linarith) hx

theorem phiMax_nonneg : 0 ≤ phiMax := by
  unfold phiMax
  exact BoxL.phi_nonneg_of_ge _ (by rw [← gPhi_eq]; have := gPhi_pos; linarith)

theorem alphaPhi_mono {P P' : ℝ} (h : P ≤ P') : alphaPhi M P ≤ alphaPhi M P' := by
  unfold alphaPhi; have := M.e_nonneg; nlinarith

theorem alphaPhi_nonneg {P : ℝ} (hP : 0 ≤ P) : 0 ≤ alphaPhi M P := by
  unfold alphaPhi; have := M.e_nonneg; have := kappaPhi_nonneg M; positivity

/-- error of the rounded total of d phis -/
noncomputable def etPhi (d : ℕ) : ℝ :=
  ((b M) ^ d - 1) * (d * (phiMax + alphaPhi M phiMax)) + d * alphaPhi M phiMax
/-- error of the rounded `total − phi_i` -/
noncomputable def esPhi (d : ℕ) : ℝ :=
  M.u * ((d + 1) * phiMax + etPhi M d + alphaPhi M phiMax) + etPhi M d + alphaPhi M phiMax

theorem sum_map_abs_le (l : List ℝ) (c : ℝ) (h : ∀ x ∈ l, |x| ≤ c) : (l.map (fun x => |x|)).sum ≤ l.length * c := by
  induction l with
  | nil => simp
  | cons a t ih =>
    simp only [List.map_cons, List.sum_cons, List.length_cons]
    have := ih (fun x hx => h x (by simp [hx]))
    have := h a (by simp)
    push_cast; linarith

theorem sum_sub_le (l : List ℝ) (f g : ℝ → ℝ) (c : ℝ) (h : ∀ x ∈ l, |f x - g x| ≤ c) :
    |(l.map f).sum - (l.map g).sum| ≤ l.length * c := by
  induction l with
  | nil => simp
  | cons a t ih =>
    simp only [List.map_cons, List.sum_cons, List.length_cons]
    have h1 := ih (fun x hx => h x (by simp [hx]))
    have h2 := h a (by simp)
    have e : f a + (t.map f).sum - (g a + (t.map g).sum) = (f a - g a) + ((t.map f).sum - (t.map g).sum) := by ring
    rw [e]
    refine le_trans (abs_add_le _ _) ?_
    push_cast; linarith

theorem sum_map_nonneg_le (l : List ℝ) (g : ℝ → ℝ) (c : ℝ) (h : ∀ x ∈ l, 0 ≤ g x ∧ g x ≤ c) :
    0 ≤ (l.map g).sum ∧ (l.map g).sum ≤ l.length * c := by
  induction l with
  | nil => simp
  | cons a t ih =>
    simp only [List.map_cons, List.sum_cons, List.length_cons]
    have h1 := ih (fun x hx => h x (by simp [hx]))
    have h2 := h a (by simp)
    push_cast
    constructor <;> linarith [h1.1, h1.2, h2.1, h2.2]

/-- the rounded quantity `fl(total̃ − phĩ((|x|)))` against the exact `Σ_j phi(|x_j|) − phi((|x|))`, for every x among the inputs -/
theorem phi_sum_err (he : M.e ≤ 1 / 2) (vals : List ℝ) (hv : ∀ v ∈ vals, 2 * gPhi ≤ (|v|)) (x : ℝ) (hx : x ∈ vals) :
    |M.fl ((vals.map (fun v => phi (Sc.rounded M) (|v|))).foldl (Sc.rounded M).add 0 - phi (Sc.rounded M) (|x|))
      - ((vals.map (fun v => phi Sc.real (|v|))).sum - phi Sc.real (|x|))| ≤ esPhi M vals.length := by
  set d := vals.length with hd
  set A := alphaPhi M phiMax with hA
  have hA0 : 0 ≤ A := alphaPhi_nonneg M phiMax_nonneg
  have hP0 := phiMax_nonneg
  have hu := M.u_nonneg
  -- per element
  have hel : ∀ v ∈ vals, |phi (Sc.rounded M) (|v|) - phi Sc.real (|v|)| ≤ A ∧ 0 ≤ phi Sc.real (|v|) ∧ phi Sc.real (|v|) ≤ phiMax := by
    intro v hvm
    obtain ⟨h1, h2⟩ := phiF_err M he (|v|) (hv v hvm)
    have h3 := phi_le_max (hv v hvm)
    exact ⟨le_trans h1 (alphaPhi_mono M h3), h2, h3⟩
  have helF : ∀ v ∈ vals, |phi (Sc.rounded M) (|v|)| ≤ phiMax + A := by
    intro v hvm
    obtain ⟨h1, h2, h3⟩ := hel v hvm
    have e : phi (Sc.rounded M) (|v|) = (phi (Sc.rounded M) (|v|) - phi Sc.real (|v|)) + phi Sc.real (|v|) := by ring
    rw [e]
    refine le_trans (abs_add_le _ _) ?_
    rw [abs_of_nonneg h2]; linarith
  set phisF := vals.map (fun v => phi (Sc.rounded M) (|v|)) with hphisF
  set TR := (vals.map (fun v => phi Sc.real (|v|))).sum with hTR
  -- the rounded total
  have hfold := foldl_add_err M phisF 0
  simp only [abs_zero, zero_add] at hfold
  have hlen : phisF.length = d := by simp [hphisF, hd]
  rw [hlen] at hfold
  have habs : (phisF.map (fun x => (|x|))).sum ≤ d * (phiMax + A) := by
    have := sum_map_abs_le phisF (phiMax + A) (by
      intro y hy
      rw [hphisF] at hy
      obtain ⟨v, hvm, rfl⟩ := List.mem_map.mp hy
      exact helF v hvm)
    rwa [hlen] at this
  have hbd : 0 ≤ (b M) ^ d - 1 := by have := one_le_pow₀ (one_le_b M) (n := d); linarith
  have hsumF : |phisF.sum - TR| ≤ d * A := by
    have := sum_sub_le vals (fun v => phi (Sc.rounded M) (|v|)) (fun v => phi Sc.real (|v|)) A (fun v hvm => (hel v hvm).1)
    rwa [← hd] at this
  set TF := phisF.foldl (Sc.rounded M).add 0 with hTF
  have hT : |TF - TR| ≤ etPhi M d := by
    have e : TF - TR = (TF - phisF.sum) + (phisF.sum - TR) := by ring
    rw [e]
    refine le_trans (abs_add_le _ _) ?_
    unfold etPhi
    have h1 : ((b M) ^ d - 1) * (phisF.map (fun x => (|x|))).sum ≤ ((b M) ^ d - 1) * (d * (phiMax + A)) :=
      mul_le_mul_of_nonneg_left habs hbd
    linarith
  have hTRb := sum_map_nonneg_le vals (fun v => phi Sc.real (|v|)) phiMax (fun v hvm => ⟨(hel v hvm).2.1, (hel v hvm).2.2⟩)
  rw [← hd, ← hTR] at hTRb
  obtain ⟨hx1, hx2, hx3⟩ := hel x hx
  have hxF := helF x hx
  obtain ⟨δ, hδ, hfl⟩ := fl_eq M (TF - phi (Sc.rounded M) (|x|))
  rw [hfl]
  have e : (TF - phi (Sc.rounded M) (|x|)) * (1 + δ) - (TR - phi Sc.real (|x|)) =
      (TF - phi (Sc.rounded M) (|x|)) * δ + (TF - TR) - (phi (Sc.rounded M) (|x|) - phi Sc.real (|x|)) := by ring
  rw [e]
  have hET0 : 0 ≤ etPhi M d := le_trans (abs_nonneg _) hT
  have hTFabs : |TF - phi (Sc.rounded M) (|x|)| ≤ (d + 1) * phiMax + etPhi M d + A := by
    have e2 : TF - phi (Sc.rounded M) (|x|) = (TF - TR) + TR - phi (Sc.rounded M) (|x|) := by ring
    rw [e2]
    have h1 := abs_sub ((TF - TR) + TR) (phi (Sc.rounded M) (|x|))
    have h2 := abs_add_le (TF - TR) TR
    have h3 : |TR| ≤ d * phiMax := by rw [abs_of_nonneg hTRb.1]; exact hTRb.2
    linarith
  have h5 : |(TF - phi (Sc.rounded M) (|x|)) * δ| ≤ ((d + 1) * phiMax + etPhi M d + A) * M.u := by
    rw [abs_mul]
    exact mul_le_mul hTFabs hδ (abs_nonneg _) (by positivity)
  have h6 := abs_sub ((TF - phi (Sc.rounded M) (|x|)) * δ + (TF - TR)) (phi (Sc.rounded M) (|x|) - phi Sc.real (|x|))
  have h7 := abs_add_le ((TF - phi (Sc.rounded M) (|x|)) * δ) (TF - TR)
  unfold esPhi
  rw [← hA]
  nlinarith

theorem exp_neg_lip {a c : ℝ} (ha : 0 ≤ a) (hc : 0 ≤ c) : |Real.exp (-a) - Real.exp (-c)| ≤ |a - c| := by
  wlog h : a ≤ c generalizing a c
  · have := this hc ha (le_of_not_ge h)
    rwa [abs_sub_comm, abs_sub_comm c a] at this
  have h1 := exp_neg_diff h
  have h2 : Real.exp (-a) ≤ 1 := by rw [← Real.exp_zero]; exact Real.exp_le_exp.2 (by linarith)
  have h3 : Real.exp (-c) ≤ Real.exp (-a) := Real.exp_le_exp.2 (by linarith)
  rw [abs_of_nonneg (by linarith), abs_of_nonpos (by linarith)]
  nlinarith

theorem checkPhi_r (msgs : List (ℕ × ℝ)) :
    checkPhi (Sc.rounded M) msgs = msgs.map (fun m =>
      let y := phi (Sc.rounded M) (M.fl ((msgs.map (fun q => phi (Sc.rounded M) (|q.2|))).foldl (Sc.rounded M).add 0 - phi (Sc.rounded M) (|m.2|)))
      let s := if isNeg (Sc.rounded M) m.2 then !(signParity (Sc.rounded M) (msgs.map (·.2))) else signParity (Sc.rounded M) (msgs.map (·.2))
      (m.1, if s then -y else y)) := by
  unfold checkPhi
  simp only [r_zero, r_abs, r_sub, r_neg]
  rw [BoxL.zip_map_self, List.map_map]
  rfl

/-- the whole rounded phi rule in the tanh domain: for every emitted message there is the incoming message it answers, and
| |tanh(out/2)| − exp(−Σ_{j≠i} phi(|x_j|)) | ≤ α(phiMax)/2 + esPhi(d) -/
theorem phi_rule_err (he : M.e ≤ 1 / 2) (msgs : List (ℕ × ℝ)) (hv : ∀ m ∈ msgs, 2 * gPhi ≤ |m.2|)
    (hs : ∀ m ∈ msgs, 2 * gPhi + esPhi M msgs.length ≤
      (msgs.map (fun q => phi Sc.real (|q.2|))).sum - phi Sc.real (|m.2|)) :
    (checkPhi (Sc.rounded M) msgs).map Prod.fst = msgs.map Prod.fst ∧
    ∀ o ∈ checkPhi (Sc.rounded M) msgs, ∃ m ∈ msgs, o.1 = m.1 ∧
      |(|Real.tanh (o.2 / 2)|) - Real.exp (-((msgs.map (fun q => phi Sc.real (|q.2|))).sum - phi Sc.real (|m.2|)))| ≤
        alphaPhi M phiMax / 2 + esPhi M msgs.length := by
  rw [checkPhi_r]
  constructor
  · rw [List.map_map]; rfl
  · intro o ho
    obtain ⟨m, hm, rfl⟩ := List.mem_map.mp ho
    refine ⟨m, hm, rfl, ?_⟩
    simp only []
    set vals := msgs.map (·.2) with hvals
    have hvv : ∀ v ∈ vals, 2 * gPhi ≤ |v| := by
      intro v hvm
      obtain ⟨q, hq, rfl⟩ := List.mem_map.mp hvm
      exact hv q hq
    have hmv : m.2 ∈ vals := List.mem_map_of_mem hm
    have hsum := phi_sum_err M he vals hvv m.2 hmv
    have e1 : vals.map (fun v => phi (Sc.rounded M) (|v|)) = msgs.map (fun q => phi (Sc.rounded M) (|q.2|)) := by
      rw [hvals, List.map_map]; rfl
    have e2 : vals.map (fun v => phi Sc.real (|v|)) = msgs.map (fun q => phi Sc.real (|q.2|)) := by
      rw [hvals, List.map_map]; rfl
    have e3 : vals.length = msgs.length := by rw [hvals, List.length_map]
    rw [e1, e2, e3] at hsum
    set SF := M.fl ((msgs.map (fun q => phi (Sc.rounded M) (|q.2|))).foldl (Sc.rounded M).add 0 - phi (Sc.rounded M) (|m.2|)) with hSF
    set SR := (msgs.map (fun q => phi Sc.real (|q.2|))).sum - phi Sc.real (|m.2|) with hSR
    have hsm := hs m hm
    rw [← hSR] at hsm
    have hsum' := abs_le.mp hsum
    have hg := gPhi_pos
    have hSFg : 2 * gPhi ≤ SF := by linarith
    have hSFg' : (1 : ℝ) / 10 ^ 30 ≤ SF := by rw [← gPhi_eq]; linarith
    obtain ⟨hp1, hp2⟩ := phiF_err M he SF hSFg
    have hp3 := phi_le_max hSFg
    have hp4 := le_trans hp1 (alphaPhi_mono M hp3)
    have hth := BoxL.tanh_half_phi SF hSFg'
    set y := phi (Sc.rounded M) SF with hy
    have hA0 := alphaPhi_nonneg M phiMax_nonneg
    have hes0 : 0 ≤ esPhi M msgs.length := le_trans (abs_nonneg _) hsum
    have hSR0 : 0 ≤ SR := by linarith
    have hSF0 : 0 ≤ SF := by linarith
    -- tanh(y/2) vs exp(−SR)
    have hmain : |Real.tanh (y / 2) - Real.exp (-SR)| ≤ alphaPhi M phiMax / 2 + esPhi M msgs.length := by
      have e : Real.tanh (y / 2) - Real.exp (-SR) =
          (Real.tanh (y / 2) - Real.tanh (phi Sc.real SF / 2)) + (Real.exp (-SF) - Real.exp (-SR)) := by rw [hth]; ring
      rw [e]
      refine le_trans (abs_add_le _ _) ?_
      have h1 := tanh_lip (y / 2) (phi Sc.real SF / 2)
      have h2 : |y / 2 - phi Sc.real SF / 2| = |y - phi Sc.real SF| / 2 := by
        rw [← sub_div, abs_div]; norm_num
      have h3 := exp_neg_lip hSF0 hSR0
      rw [h2] at h1
      linarith
    have hE0 : 0 ≤ Real.exp (-SR) := (Real.exp_pos _).le
    have habs : ∀ t : ℝ, |(|t|) - Real.exp (-SR)| ≤ |t - Real.exp (-SR)| := by
      intro t
      have := abs_abs_sub_abs_le_abs_sub t (Real.exp (-SR))
      rwa [abs_of_nonneg hE0] at this
    have hsgn : ∀ c : Bool, |Real.tanh ((if c = true then -y else y) / 2)| = |Real.tanh (y / 2)| := by
      intro c
      cases c
      · simp
      · simp only [if_true]
        rw [neg_div, Real.tanh_neg, abs_neg]
    rw [hsgn]
    exact le_trans (habs _) hmain

end LdpcV.Round
