/- Helper lemmas for C11, part 2: correctness of the queue-driven BFS. -/
import LdpcV.Lemmas.GraphLemmas1
namespace LdpcV.Graph

/-- all neighbours of `v` (labelled `k`) are labelled, with labels at most `k + 1` -/
def Expd (h : SM) (d : Labels Nat) (v : Node) (k : Nat) : Prop :=
  ∀ w, Adj h v w → ∃ k', d.get w = some (some k') ∧ k' ≤ k + 1

/-- labels are only ever added -/
def Labels.Mono {α : Type} (d d' : Labels α) : Prop := ∀ v k, d.get v = some (some k) → d'.get v = some (some k)

theorem Labels.Mono.refl {α : Type} (d : Labels α) : d.Mono d := fun _ _ h => h
theorem Labels.Mono.trans {α : Type} {a b c : Labels α} (h1 : a.Mono b) (h2 : b.Mono c) : a.Mono c :=
  fun v k h => h2 v k (h1 v k h)

theorem Labels.Mono.set {α : Type} (d : Labels α) (w : Node) (x : α) (hw : d.get w = some none) :
    d.Mono (d.set w x) := by
  intro v k hv
  have : v ≠ w := by rintro rfl; simp [hw] at hv
  rwa [Labels.get_set_ne _ _ _ _ this]

theorem Expd.mono {h : SM} {d d' : Labels Nat} (hm : d.Mono d') {v : Node} {k : Nat} (he : Expd h d v k) :
    Expd h d' v k := by
  intro w hw
  obtain ⟨k', h1, h2⟩ := he w hw
  exact ⟨k', hm _ _ h1, h2⟩

/-- invariant of the inner loop while the neighbours of `u` (level `l`) are visited -/
structure VInv (h : SM) (root : Node) (l : Nat) (u : Node) (d : Labels Nat) (queue : List PathHead) : Prop where
  sized : d.Sized h
  sound : ∀ v k, d.get v = some (some k) → Walk h root v k
  qlab : ∀ q ∈ queue, d.get q.node = some (some q.len) ∧ ∀ p, q.parent = some p → ∃ k, d.get p = some (some k)
  sorted : queue.Pairwise (fun a b => a.len ≤ b.len)
  qge : ∀ q ∈ queue, l ≤ q.len
  le : ∀ v k, d.get v = some (some k) → k ≤ l + 1
  closed : ∀ v k, d.get v = some (some k) → v = u ∨ (∃ q ∈ queue, q.node = v) ∨ Expd h d v k

theorem bfsVisit_inv {h : SM} (hinv : h.Inv) {root : Node} {l : Nat} {u : Node} (items : List PathHead) :
    ∀ (d : Labels Nat) (queue : List PathHead), VInv h root l u d queue →
      (∀ nh ∈ items, nh.len = l + 1 ∧ Adj h u nh.node ∧ nh.parent = some u) →
      d.get u = some (some l) →
      VInv h root l u (bfsVisit d queue items).1 (bfsVisit d queue items).2 ∧
      (∀ nh ∈ items, ∃ k, (bfsVisit d queue items).1.get nh.node = some (some k)) ∧
      d.Mono (bfsVisit d queue items).1 ∧
      (bfsVisit d queue items).1.unl + (bfsVisit d queue items).2.length = d.unl + queue.length := by
  induction items with
  | nil => intro d queue hv _ _; exact ⟨hv, by simp, Labels.Mono.refl _, rfl⟩
  | cons nh rest ih =>
    intro d queue hv hitems hu
    obtain ⟨hlen, hadj, hpar⟩ := hitems nh (List.mem_cons_self)
    have hrest : ∀ nh ∈ rest, nh.len = l + 1 ∧ Adj h u nh.node ∧ nh.parent = some u :=
      fun x hx => hitems x (List.mem_cons_of_mem _ hx)
    obtain ⟨o, ho⟩ := (hv.sized.get_isSome nh.node).2 (hadj.inRange_right hinv)
    cases o with
    | some k =>
      have heq : bfsVisit d queue (nh :: rest) = bfsVisit d queue rest := by
        rw [bfsVisit]; simp [ho]
      rw [heq]
      obtain ⟨h1, h2, h3, h4⟩ := ih d queue hv hrest hu
      refine ⟨h1, ?_, h3, h4⟩
      intro x hx
      rcases List.mem_cons.1 hx with rfl | hx
      · exact ⟨k, h3 _ _ ho⟩
      · exact h2 x hx
    | none =>
      have heq : bfsVisit d queue (nh :: rest) = bfsVisit (d.set nh.node nh.len) (queue ++ [nh]) rest := by
        rw [bfsVisit]; simp [ho]
      rw [heq]
      have hmono := Labels.Mono.set d nh.node nh.len ho
      have hnew : (d.set nh.node nh.len).get nh.node = some (some nh.len) := Labels.get_set_same _ _ _ _ ho
      have hold : ∀ v k, (d.set nh.node nh.len).get v = some (some k) →
          (v = nh.node ∧ k = nh.len) ∨ (v ≠ nh.node ∧ d.get v = some (some k)) := by
        intro v k hvk
        by_cases hvn : v = nh.node
        · subst hvn; rw [hnew] at hvk; left; exact ⟨rfl, by simpa using hvk.symm⟩
        · right; rw [Labels.get_set_ne _ _ _ _ hvn] at hvk; exact ⟨hvn, hvk⟩
      have hv' : VInv h root l u (d.set nh.node nh.len) (queue ++ [nh]) := by
        refine ⟨hv.sized.set _ _, ?_, ?_, ?_, ?_, ?_, ?_⟩
        · intro v k hvk
          rcases hold v k hvk with ⟨rfl, rfl⟩ | ⟨_, hvk'⟩
          · rw [hlen]; exact (hv.sound u l hu).snoc hinv hadj
          · exact hv.sound v k hvk'
        · intro q hq
          rcases List.mem_append.1 hq with hq | hq
          · obtain ⟨h1, h2⟩ := hv.qlab q hq
            exact ⟨hmono _ _ h1, fun p hp => (h2 p hp).imp fun k hk => hmono _ _ hk⟩
          · simp only [List.mem_singleton] at hq; subst hq
            exact ⟨hnew, fun p hp => ⟨l, by rw [hpar] at hp; cases hp; exact hmono _ _ hu⟩⟩
        · rw [List.pairwise_append]
          refine ⟨hv.sorted, List.pairwise_singleton _ _, ?_⟩
          intro a ha b hb
          simp only [List.mem_singleton] at hb; subst hb
          rw [hlen]; exact hv.le _ _ (hv.qlab a ha).1
        · intro q hq
          rcases List.mem_append.1 hq with hq | hq
          · exact hv.qge q hq
          · simp only [List.mem_singleton] at hq; subst hq; omega
        · intro v k hvk
          rcases hold v k hvk with ⟨rfl, rfl⟩ | ⟨_, hvk'⟩
          · omega
          · exact hv.le v k hvk'
        · intro v k hvk
          rcases hold v k hvk with ⟨rfl, rfl⟩ | ⟨_, hvk'⟩
          · right; left; exact ⟨nh, by simp, rfl⟩
          · rcases hv.closed v k hvk' with h1 | ⟨q, hq, rfl⟩ | h3
            · exact .inl h1
            · exact .inr (.inl ⟨q, by simp [hq], rfl⟩)
            · exact .inr (.inr (h3.mono hmono))
      obtain ⟨h1, h2, h3, h4⟩ := ih _ _ hv' hrest (hmono _ _ hu)
      refine ⟨h1, ?_, hmono.trans h3, ?_⟩
      · intro x hx
        rcases List.mem_cons.1 hx with rfl | hx
        · exact ⟨_, h3 _ _ hnew⟩
        · exact h2 x hx
      · rw [h4, List.length_append, List.length_singleton]
        have := Labels.unl_set d nh.node nh.len ho
        omega

/-- invariant of the outer BFS loop -/
structure BInv (h : SM) (root : Node) (d : Labels Nat) (queue : List PathHead) : Prop where
  sized : d.Sized h
  sound : ∀ v k, d.get v = some (some k) → Walk h root v k
  qlab : ∀ q ∈ queue, d.get q.node = some (some q.len) ∧ ∀ p, q.parent = some p → ∃ k, d.get p = some (some k)
  sorted : queue.Pairwise (fun a b => a.len ≤ b.len)
  le : ∀ q ∈ queue, ∀ v k, d.get v = some (some k) → k ≤ q.len + 1
  closed : ∀ v k, d.get v = some (some k) → (∃ q ∈ queue, q.node = v) ∨ Expd h d v k

theorem bfsLoop_inv {h : SM} (hinv : h.Inv) {root : Node} :
    ∀ (fuel : Nat) (d : Labels Nat) (queue : List PathHead), BInv h root d queue →
      d.unl + queue.length < fuel →
      BInv h root (bfsLoop h fuel d queue) [] ∧ d.Mono (bfsLoop h fuel d queue) := by
  intro fuel
  induction fuel with
  | zero => intro d queue _ hf; omega
  | succ fuel ih =>
    intro d queue hb hf
    cases queue with
    | nil => simp only [bfsLoop]; exact ⟨hb, Labels.Mono.refl _⟩
    | cons head queue =>
      have heq : bfsLoop h (fuel + 1) d (head :: queue) =
          bfsLoop h fuel (bfsVisit d queue (head.next h)).1 (bfsVisit d queue (head.next h)).2 := by
        simp only [bfsLoop]
      rw [heq]
      have hsorted := List.pairwise_cons.1 hb.sorted
      have hhead := hb.qlab head List.mem_cons_self
      have hv : VInv h root head.len head.node d queue := by
        refine ⟨hb.sized, hb.sound, fun q hq => hb.qlab q (List.mem_cons_of_mem _ hq), hsorted.2,
          fun q hq => hsorted.1 q hq, fun v k hvk => hb.le head List.mem_cons_self v k hvk, ?_⟩
        intro v k hvk
        rcases hb.closed v k hvk with ⟨q, hq, rfl⟩ | h2
        · rcases List.mem_cons.1 hq with rfl | hq
          · exact .inl rfl
          · exact .inr (.inl ⟨q, hq, rfl⟩)
        · exact .inr (.inr h2)
      have hitems : ∀ nh ∈ head.next h, nh.len = head.len + 1 ∧ Adj h head.node nh.node ∧
          nh.parent = some head.node := by
        intro nh hnh
        obtain ⟨h1, _, h3, h4⟩ := (mem_next hinv head nh).1 hnh
        exact ⟨h4, h1, h3⟩
      obtain ⟨h1, h2, h3, h4⟩ := bfsVisit_inv hinv (head.next h) d queue hv hitems hhead.1
      have hb' : BInv h root (bfsVisit d queue (head.next h)).1 (bfsVisit d queue (head.next h)).2 := by
        refine ⟨h1.sized, h1.sound, h1.qlab, h1.sorted, ?_, ?_⟩
        · intro q hq v k hvk
          have := h1.qge q hq
          have := h1.le v k hvk
          omega
        · intro v k hvk
          rcases h1.closed v k hvk with rfl | h2' | h3'
          · right
            have hk : k = head.len := by
              have := h3 _ _ hhead.1
              rw [this] at hvk; simpa using hvk.symm
            subst hk
            intro w hw
            by_cases hp : head.parent = some w
            · obtain ⟨k', hk'⟩ := hhead.2 w hp
              exact ⟨k', h3 _ _ hk', h1.le _ _ (h3 _ _ hk')⟩
            · have hmem : (⟨w, some head.node, head.len + 1⟩ : PathHead) ∈ head.next h := by
                rw [mem_next hinv]
                refine ⟨hw, ?_, rfl, rfl⟩
                intro q hq hwq
                exact hp (by rw [hq]; simp at hwq; rw [hwq])
              obtain ⟨k', hk'⟩ := h2 _ hmem
              exact ⟨k', hk', h1.le _ _ hk'⟩
          · exact .inl h2'
          · exact .inr h3'
      have hf' : (bfsVisit d queue (head.next h)).1.unl + (bfsVisit d queue (head.next h)).2.length < fuel := by
        rw [h4]; simp only [List.length_cons] at hf; omega
      obtain ⟨r1, r2⟩ := ih _ _ hb' hf'
      exact ⟨r1, h3.trans r2⟩

/-- under closedness, every endpoint of a walk from a labelled node is labelled, with a small label -/
theorem walk_labelled {h : SM} {d : Labels Nat} (hcl : ∀ v k, d.get v = some (some k) → Expd h d v k)
    {a c : Node} {n : Nat} (w : Walk h a c n) :
    ∀ ka, d.get a = some (some ka) → ∃ kc, d.get c = some (some kc) ∧ kc ≤ ka + n := by
  induction w with
  | nil a _ => intro ka ha; exact ⟨ka, ha, by omega⟩
  | cons hab _ ih =>
    intro ka ha
    obtain ⟨kb, hb, hle⟩ := hcl _ _ ha _ hab
    obtain ⟨kc, hc, hle'⟩ := ih kb hb
    exact ⟨kc, hc, by omega⟩

theorem bfs_correct (h : SM) (hinv : h.Inv) (root : Node) (hr : inRange h root = true) :
    ∃ d, bfs h root = some d ∧ d.rows.length = h.nrows ∧ d.cols.length = h.ncols ∧
      ∀ v, inRange h v = true →
        (∀ k, d.get v = some (some k) ↔ IsDist h root v k) ∧
        (d.get v = some none ↔ ¬ Reachable h root v) := by
  have hblank : (Labels.blank h : Labels Nat).get root = some none := Labels.get_blank h root hr
  have hroot0 : ((Labels.blank h : Labels Nat).set root 0).get root = some (some 0) :=
    Labels.get_set_same _ _ _ _ hblank
  have hinit : BInv h root ((Labels.blank h).set root 0) [{ node := root, parent := none, len := 0 }] := by
    have hold : ∀ v k, ((Labels.blank h : Labels Nat).set root 0).get v = some (some k) → v = root ∧ k = 0 := by
      intro v k hvk
      by_cases hv : v = root
      · subst hv; rw [hroot0] at hvk; exact ⟨rfl, by simpa using hvk.symm⟩
      · rw [Labels.get_set_ne _ _ _ _ hv] at hvk
        cases hrv : inRange h v
        · have := (Labels.Sized.get_isSome (Labels.Sized.blank (α := Nat) h) v).1 ⟨_, hvk⟩
          simp [hrv] at this
        · rw [Labels.get_blank h v hrv] at hvk; simp at hvk
    refine ⟨(Labels.Sized.blank h).set _ _, ?_, ?_, List.pairwise_singleton _ _, ?_, ?_⟩
    · intro v k hvk; obtain ⟨rfl, rfl⟩ := hold v k hvk; exact .nil _ hr
    · intro q hq; simp only [List.mem_singleton] at hq; subst hq; exact ⟨hroot0, by simp⟩
    · intro q _ v k hvk; obtain ⟨rfl, rfl⟩ := hold v k hvk; omega
    · intro v k hvk; obtain ⟨rfl, rfl⟩ := hold v k hvk; exact .inl ⟨_, List.mem_singleton.2 rfl, rfl⟩
  have hfuel : ((Labels.blank h : Labels Nat).set root 0).unl +
      [({ node := root, parent := none, len := 0 } : PathHead)].length < fuelFor h := by
    have := Labels.unl_set (Labels.blank h : Labels Nat) root 0 hblank
    rw [Labels.unl_blank] at this
    simp only [List.length_singleton, fuelFor]; omega
  obtain ⟨hfin, hmono⟩ := bfsLoop_inv hinv _ _ _ hinit hfuel
  refine ⟨_, by simp [bfs, hr], hfin.sized.1, hfin.sized.2, ?_⟩
  generalize bfsLoop h (fuelFor h) ((Labels.blank h).set root 0) [{ node := root, parent := none, len := 0 }] = d
    at hfin hmono
  have hcl : ∀ v k, d.get v = some (some k) → Expd h d v k := by
    intro v k hvk
    rcases hfin.closed v k hvk with ⟨q, hq, _⟩ | h2
    · simp at hq
    · exact h2
  have hrootd : d.get root = some (some 0) := hmono _ _ hroot0
  have hwl : ∀ v n, Walk h root v n → ∃ kc, d.get v = some (some kc) ∧ kc ≤ n := by
    intro v n w
    obtain ⟨kc, h1, h2⟩ := walk_labelled hcl w 0 hrootd
    exact ⟨kc, h1, by omega⟩
  intro v hv
  constructor
  · intro k
    constructor
    · intro hvk
      refine ⟨hfin.sound v k hvk, ?_⟩
      intro d' w
      obtain ⟨kc, h1, h2⟩ := hwl v d' w
      rw [hvk] at h1; simp at h1; omega
    · rintro ⟨w, hmin⟩
      obtain ⟨kc, h1, h2⟩ := hwl v k w
      have := hmin kc (hfin.sound v kc h1)
      have : kc = k := by omega
      rw [← this]; exact h1
  · constructor
    · rintro hn ⟨n, w⟩
      obtain ⟨kc, h1, _⟩ := hwl v n w
      rw [hn] at h1; simp at h1
    · intro hnr
      obtain ⟨o, ho⟩ := (hfin.sized.get_isSome v).2 hv
      cases o with
      | none => exact ho
      | some k => exact (hnr ⟨k, hfin.sound v k ho⟩).elim

end LdpcV.Graph
